package c09

import (
	"context"
	"fmt"
	"testing"

	"github.com/gauss-project/aurorafs/pkg/boson"
	"github.com/gauss-project/aurorafs/pkg/file/loadsave"
	"github.com/gauss-project/aurorafs/pkg/file/pipeline"
	"github.com/gauss-project/aurorafs/pkg/file/pipeline/builder"
	"github.com/gauss-project/aurorafs/pkg/manifest"
	"github.com/gauss-project/aurorafs/pkg/storage"

	"verif/harness/internal/filekit"
	"verif/harness/internal/memstore"
	"verif/harness/internal/obs"
	"verif/harness/internal/spec"
)

// vstore holds the real chunks of a manifest and serves the chunks of a virtual file
// (filekit.VTree) the manifest refers to.
type vstore struct {
	*memstore.Store
	v *filekit.VTree
}

func (s vstore) Get(ctx context.Context, mode storage.ModeGet, a boson.Address) (boson.Chunk, error) {
	if ch, err := s.Store.Get(ctx, mode, a); err == nil {
		return ch, nil
	}
	return s.v.Get(ctx, mode, a)
}

// TestDeepFiles: files with more than one level of intermediate chunks (more than 8192
// data chunks, i.e. > 2 GiB) cannot be uploaded here; their chunk tree is synthesised on
// demand from the format specification instead. Shapes with a single dangling data chunk
// next to intermediate siblings, with a short last intermediate chunk and with full
// levels are covered.
func TestDeepFiles(t *testing.T) {
	run := obs.Start(t, "C09")
	defer run.Done()
	run.Rule("virtual plain files of 8192..3*8192+1 data chunks whose chunks are synthesised on demand from the tree shape the format prescribes (spec.Tree; fake addresses, nothing on the traversal path validates them): Traverse must report exactly the tree's chunks, the pyramid must be its intermediate chunks, the data list its leaves in file order; distinct = (levels, dangling single chunk?, fan-out of the last intermediate chunk)",
		"the virtual tree follows the shape the real splitter produces; the shape is cross-checked against the real pipeline in C06/C07")
	B := int64(spec.Branches)
	CS := int64(cs)
	sizes := []int64{B*CS + 1, B*CS + CS, B*CS + 2*CS, B*CS + CS + 1, 2*B*CS + 5, 2 * B * CS, B * CS, 3*B*CS + CS}
	if run.Thorough() {
		sizes = append(sizes, 2*B*CS+B*CS/2+CS+9, 5*B*CS+1, 9*B*CS+3*CS)
	}
	for i, n := range sizes {
		d := caseDescr{Kind: "virtual-file", Files: []fileSpec{{Name: fmt.Sprintf("virtual-%d-bytes", n)}}}
		c := run.Begin(fmt.Sprintf("deep/%d", i), map[string]interface{}{"bytes": n})
		if c == nil {
			continue
		}
		v := filekit.NewVTree(n, uint64(1000+i), false)
		tr := v.T
		written := map[string]bool{}
		var leaves []string
		for k := int64(0); k < tr.Count(0); k++ {
			a := fmt.Sprintf("%x", v.Addr(spec.Node{Level: 0, Index: k}))
			leaves = append(leaves, a)
			written[a] = true
		}
		inter := 0
		var walk func(nd spec.Node)
		walk = func(nd spec.Node) {
			if nd.Level == 0 {
				return
			}
			written[fmt.Sprintf("%x", v.Addr(nd))] = true
			inter++
			for _, ch := range tr.Children(nd) {
				walk(ch)
			}
		}
		root := tr.Root()
		walk(root)
		dangling := false
		kids := tr.Children(root)
		if len(kids) > 1 && kids[len(kids)-1].Level == 0 && kids[0].Level > 0 {
			dangling = true
		}
		run.Stat("virtual_tree_chunks", int64(len(written)))
		// the file is referenced from a real one-entry manifest, as every uploaded file is (a
		// bare file reference would first be read completely as a would-be manifest)
		ctx := context.Background()
		st := memstore.New()
		ls := loadsave.New(st, func() pipeline.Interface { return builder.NewPipelineBuilder(ctx, st, storage.ModePutUpload, false) })
		m, err := manifest.NewDefaultManifest(ls, false)
		if err != nil {
			t.Fatal(err)
		}
		if err := m.Add(ctx, manifest.RootPath, manifest.NewEntry(boson.ZeroAddress, map[string]string{manifest.WebsiteIndexDocumentSuffixKey: "big.bin"})); err != nil {
			t.Fatal(err)
		}
		if err := m.Add(ctx, "big.bin", manifest.NewEntry(v.RootRef(), map[string]string{manifest.EntryMetadataFilenameKey: "big.bin"})); err != nil {
			t.Fatal(err)
		}
		mroot, err := m.Store(ctx)
		if err != nil {
			t.Fatal(err)
		}
		for a := range putSet(st) {
			written[a] = true
		}
		checkRoot(c, run, vstore{st, v}, mroot, written, d, [][]string{leaves})
		if _, unknown := v.Gets(); unknown > 0 {
			c.Viol("traversal-fetches-something-that-is-no-chunk-of-the-file", fmt.Sprintf("%d requests named an address that is no chunk of the file", unknown), map[string]interface{}{"bytes": n})
		}
		c.End(fmt.Sprintf("deep/levels=%d/dangling=%v/rootfan=%d/intermediates=%d", tr.Depth(), dangling, len(kids), inter), true)
	}
}
