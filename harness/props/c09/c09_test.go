package c09

import (
	"bytes"
	"context"
	"fmt"
	"math/rand"
	"sort"
	"strings"
	"testing"

	"github.com/gauss-project/aurorafs/pkg/boson"
	"github.com/gauss-project/aurorafs/pkg/file/loadsave"
	"github.com/gauss-project/aurorafs/pkg/file/pipeline"
	"github.com/gauss-project/aurorafs/pkg/file/pipeline/builder"
	"github.com/gauss-project/aurorafs/pkg/manifest"
	"github.com/gauss-project/aurorafs/pkg/storage"
	"github.com/gauss-project/aurorafs/pkg/traversal"

	"verif/harness/internal/memstore"
	"verif/harness/internal/obs"
	"verif/harness/internal/spec"
)

const cs = spec.ChunkSize

// block returns a deterministic 256 KiB block number k (cheap PRF).
func block(k int, n int) []byte {
	r := rand.New(rand.NewSource(int64(k)*7919 + 13))
	b := make([]byte, n)
	r.Read(b)
	return b
}

// content builds a file from block ids; the last block may be short.
func content(ids []int, lastLen int) []byte {
	var buf bytes.Buffer
	for i, id := range ids {
		n := cs
		if i == len(ids)-1 {
			n = lastLen
		}
		buf.Write(block(id, cs)[:n])
	}
	return buf.Bytes()
}

func upload(ctx context.Context, st *memstore.Store, data []byte, encrypt bool) (boson.Address, error) {
	p := builder.NewPipelineBuilder(ctx, st, storage.ModePutUpload, encrypt)
	return builder.FeedPipeline(ctx, p, bytes.NewReader(data))
}

func putSet(st *memstore.Store) map[string]bool {
	out := map[string]bool{}
	for _, p := range st.Puts {
		out[p.Addr] = true
	}
	return out
}

func keys(m map[string]bool) []string {
	out := make([]string, 0, len(m))
	for k := range m {
		out = append(out, k)
	}
	sort.Strings(out)
	return out
}

func short(ss []string) []string {
	out := make([]string, 0, len(ss))
	for i, s := range ss {
		if i >= 6 {
			out = append(out, fmt.Sprintf("...(%d more)", len(ss)-i))
			break
		}
		if len(s) > 16 {
			s = s[:16] + fmt.Sprintf("..[%dB]", len(s)/2)
		}
		out = append(out, s)
	}
	return out
}

type fileSpec struct {
	Name    string `json:"name"`
	Blocks  []int  `json:"blocks"`
	LastLen int    `json:"last_len"`
}

type caseDescr struct {
	Kind    string     `json:"kind"` // file | dir
	Encrypt bool       `json:"encrypt"`
	Files   []fileSpec `json:"files"`
}

// expectedLeafAddrs computes, independently, the addresses of the data chunks of plain
// content in file order.
func expectedLeafAddrs(data []byte) []string {
	var out []string
	if len(data) == 0 {
		return []string{fmt.Sprintf("%x", spec.BMT(spec.Span(0), nil))}
	}
	for off := 0; off < len(data); off += cs {
		end := off + cs
		if end > len(data) {
			end = len(data)
		}
		out = append(out, fmt.Sprintf("%x", spec.BMT(spec.Span(uint64(end-off)), data[off:end])))
	}
	return out
}

// checkRoot runs the three traversal entry points on root and compares with the set of
// chunk addresses written for it.
func checkRoot(c *obs.Case, run *obs.Run, st traversal.PutGetter, root boson.Address, written map[string]bool, d caseDescr, wantLeaves [][]string) {
	ctx := context.Background()
	tr := traversal.New(st)
	w := map[string]interface{}{"case": d, "root": root.String()}

	// --- Traverse ------------------------------------------------------------------
	reported := map[string]bool{}
	var reportedLong []string
	err := tr.Traverse(ctx, root, func(a boson.Address) error {
		s := a.String()
		if len(a.Bytes()) != 32 {
			reportedLong = append(reportedLong, s)
			return nil
		}
		reported[s] = true
		return nil
	})
	if err != nil {
		c.Viol("traverse-error", "Traverse failed on a stored reference: "+err.Error(), w)
	} else {
		run.Stat("traverse_runs", 1)
		run.Stat("addresses_reported", int64(len(reported)+len(reportedLong)))
		if len(reportedLong) > 0 {
			// Reported items that are not 32-byte chunk addresses at all.
			key := "traverse-reports-non-address"
			if d.Encrypt {
				key = "encrypted-children-reported-as-64B-refs"
			}
			ww := map[string]interface{}{"case": d, "root": root.String(), "reported_non_addresses": short(reportedLong), "count": len(reportedLong)}
			c.Viol(key, fmt.Sprintf("Traverse reported %d items that are not 32-byte chunk addresses (address||key references)", len(reportedLong)), ww)
			// judge the remaining clauses on the address part, so other defects stay visible
			for _, s := range reportedLong {
				reported[s[:64]] = true
			}
		}
		var missing, extra []string
		for k := range written {
			if !reported[k] {
				missing = append(missing, k)
			}
		}
		for k := range reported {
			if !written[k] {
				extra = append(extra, k)
			}
		}
		sort.Strings(missing)
		sort.Strings(extra)
		if len(missing) > 0 {
			ww := map[string]interface{}{"case": d, "root": root.String(), "missing": short(missing), "written": len(written), "reported": len(reported)}
			c.Viol("traverse-misses-written-chunk", fmt.Sprintf("%d written chunk(s) not reported by Traverse", len(missing)), ww)
		}
		if len(extra) > 0 {
			ww := map[string]interface{}{"case": d, "root": root.String(), "extra": short(extra)}
			c.Viol("traverse-reports-foreign-chunk", fmt.Sprintf("%d reported chunk(s) were never written for this reference", len(extra)), ww)
		}
	}

	// --- GetPyramid + GetChunkHashes -------------------------------------------------
	pyr, err := tr.GetPyramid(ctx, root)
	if err != nil {
		c.Viol("getpyramid-error", "GetPyramid failed on a stored reference: "+err.Error(), w)
		return
	}
	hashes, _, err := tr.GetChunkHashes(ctx, root, nil)
	if err != nil {
		c.Viol("getchunkhashes-error", "GetChunkHashes failed on a stored reference: "+err.Error(), w)
		return
	}
	run.Stat("pyramid_entries", int64(len(pyr)))
	union := map[string]bool{}
	for k, v := range pyr {
		if len(k) != 64 {
			key := "pyramid-key-not-address"
			if d.Encrypt && len(k) == 128 {
				key = "encrypted-pyramid-key-64B-ref"
			}
			c.Viol(key, fmt.Sprintf("pyramid key is not a 32-byte address (%d bytes)", len(k)/2), w)
			if len(k) < 64 {
				continue
			}
			k = k[:64] // judge the remaining clauses on the address part
		}
		union[k] = true
		if !written[k] {
			c.Viol("pyramid-foreign-chunk", "pyramid contains a chunk never written for this reference", map[string]interface{}{"case": d, "key": k})
		}
		_ = v
	}
	var nonAddr int
	for fi, list := range hashes {
		var got []string
		for _, h := range list {
			if len(h) != 32 {
				nonAddr++
				h = h[:32]
			}
			s := fmt.Sprintf("%x", h)
			got = append(got, s)
			union[s] = true
			if !written[s] {
				c.Viol("datalist-foreign-chunk", "data-chunk list contains a chunk never written for this reference", map[string]interface{}{"case": d, "chunk": s})
			}
		}
		run.Stat("data_chunks_listed", int64(len(got)))
		_ = fi
	}
	if nonAddr > 0 {
		key := "datalist-non-address"
		if d.Encrypt {
			key = "encrypted-datalist-64B-refs"
		}
		c.Viol(key, fmt.Sprintf("%d data-chunk list entries are not 32-byte addresses", nonAddr), w)
	}
	// order / exactness of the data lists (plain content only: leaf addresses are
	// computable independently)
	if wantLeaves != nil {
		var gotLists [][]string
		for _, list := range hashes {
			var g []string
			for _, h := range list {
				g = append(g, fmt.Sprintf("%x", h))
			}
			gotLists = append(gotLists, g)
		}
		// files are listed in manifest walk order, which the statement does not fix:
		// compare as a multiset of ordered lists
		norm := func(ll [][]string) []string {
			var out []string
			for _, l := range ll {
				out = append(out, strings.Join(l, ","))
			}
			sort.Strings(out)
			return out
		}
		g, wnt := norm(gotLists), norm(wantLeaves)
		if strings.Join(g, "|") != strings.Join(wnt, "|") {
			c.Viol("datalist-not-leaf-chunks-in-order", "data-chunk lists are not exactly the leaf chunks of each file in file order",
				map[string]interface{}{"case": d, "got_lists": len(g), "want_lists": len(wnt), "got_first": short(gotLists[0]), "want_first": short(wantLeaves[0])})
		}
		run.Stat("datalists_checked_for_order", int64(len(wantLeaves)))
	}
	var uncovered []string
	for k := range written {
		if !union[k] {
			uncovered = append(uncovered, k)
		}
	}
	sort.Strings(uncovered)
	if len(uncovered) > 0 {
		c.Viol("pyramid-plus-datalists-miss-written-chunk", fmt.Sprintf("%d written chunk(s) are in neither the pyramid nor a data list", len(uncovered)),
			map[string]interface{}{"case": d, "uncovered": short(uncovered), "written": len(written)})
	}
}

func TestFiles(t *testing.T) {
	run := obs.Start(t, "C09")
	defer run.Done()
	run.Rule("single files uploaded through the real pipeline into a recording store; sizes 1B..40 chunks incl. repeated 256KiB blocks; plain and encrypted; distinct = (chunks, last-chunk class, repeated?, encrypted)",
		"written(root) is the set of chunk addresses the pipeline put while uploading it")
	type sz struct {
		n, last int
	}
	sizes := []sz{{1, 1}, {1, 31}, {1, 4096}, {1, cs - 1}, {1, cs}, {2, 1}, {2, cs}, {3, 777}, {3, cs}, {5, 100000}}
	if run.Thorough() {
		sizes = append(sizes, sz{40, 12345}, sz{129, cs}, sz{200, 5})
	} else {
		sizes = append(sizes, sz{17, 12345})
	}
	id := 0
	for _, enc := range []bool{false, true} {
		for _, s := range sizes {
			for _, rep := range []bool{false, true} {
				if rep && s.n < 3 {
					continue
				}
				id++
				blocks := make([]int, s.n)
				for i := range blocks {
					blocks[i] = 100 + i
					if rep {
						blocks[i] = 100 + i%2 // only two distinct blocks, repeated
					}
				}
				d := caseDescr{Kind: "file", Encrypt: enc, Files: []fileSpec{{Name: "f", Blocks: blocks, LastLen: s.last}}}
				c := run.Begin(fmt.Sprintf("file/%d", id), d)
				if c == nil {
					continue
				}
				data := content(blocks, s.last)
				st := memstore.New()
				ref, err := upload(context.Background(), st, data, enc)
				if err != nil {
					t.Fatalf("upload: %v", err)
				}
				written := putSet(st)
				var want [][]string
				if !enc {
					want = [][]string{expectedLeafAddrs(data)}
				}
				checkRoot(c, run, st, ref, written, d, want)
				lastClass := "short"
				if s.last == cs {
					lastClass = "full"
				}
				c.End(fmt.Sprintf("file/chunks=%d/last=%s/rep=%v/enc=%v", s.n, lastClass, rep, enc), true)
				if id <= 2 {
					run.Sample(map[string]interface{}{"case": d, "root": ref.String(), "written_chunks": len(written)})
				}
			}
		}
	}
}

var alphabet = []string{"a", "b", "ab", "img", "x", "docs", "index.html", "ü", "a.b"}

func randPath(rng *rand.Rand) string {
	depth := 1 + rng.Intn(3)
	parts := make([]string, depth)
	for i := range parts {
		parts[i] = alphabet[rng.Intn(len(alphabet))]
		if rng.Intn(6) == 0 {
			parts[i] += strings.Repeat("z", 25+rng.Intn(20)) // forces mantaray to split long prefixes
		}
	}
	return strings.Join(parts, "/")
}

func TestDirectories(t *testing.T) {
	run := obs.Start(t, "C09")
	defer run.Done()
	run.Rule("directory manifests from random path sets (1..12 files, shared prefixes, nested, long names) built with the real mantaray manifest + pipeline; files of 1..3 chunks, some identical; plain and encrypted; distinct = (files, total data chunks, encrypted, has duplicate file)")
	n := run.N(40, 300)
	for i := 0; i < n; i++ {
		c := run.Begin(fmt.Sprintf("dir/%d", i), nil)
		if c == nil {
			continue
		}
		rng := c.Rand()
		enc := i%3 == 2
		nf := 1 + rng.Intn(12)
		ctx := context.Background()
		st := memstore.New()
		factory := func() pipeline.Interface {
			return builder.NewPipelineBuilder(ctx, st, storage.ModePutUpload, enc)
		}
		ls := loadsave.New(st, factory)
		m, err := manifest.NewDefaultManifest(ls, enc)
		if err != nil {
			t.Fatal(err)
		}
		d := caseDescr{Kind: "dir", Encrypt: enc}
		seen := map[string]bool{}
		var want [][]string
		totalChunks := 0
		dup := false
		// root metadata entry as the API writes it
		if err := m.Add(ctx, manifest.RootPath, manifest.NewEntry(boson.ZeroAddress, map[string]string{manifest.WebsiteIndexDocumentSuffixKey: "index.html"})); err != nil {
			t.Fatal(err)
		}
		contents := map[string]bool{}
		for f := 0; f < nf; f++ {
			p := randPath(rng)
			if seen[p] {
				continue
			}
			// a path that is a proper directory prefix of another is fine for mantaray
			seen[p] = true
			nb := 1 + rng.Intn(3)
			blocks := make([]int, nb)
			for k := range blocks {
				blocks[k] = 200 + rng.Intn(6)
			}
			last := []int{1, 1000, cs, 70000}[rng.Intn(4)]
			fs := fileSpec{Name: p, Blocks: blocks, LastLen: last}
			d.Files = append(d.Files, fs)
			data := content(blocks, last)
			ck := fmt.Sprintf("%v/%d", blocks, last)
			if contents[ck] {
				dup = true
			}
			contents[ck] = true
			ref, err := upload(ctx, st, data, enc)
			if err != nil {
				t.Fatal(err)
			}
			if err := m.Add(ctx, p, manifest.NewEntry(ref, map[string]string{manifest.EntryMetadataFilenameKey: p})); err != nil {
				t.Fatalf("manifest add %q: %v", p, err)
			}
			if !enc {
				want = append(want, expectedLeafAddrs(data))
			}
			totalChunks += nb
		}
		root, err := m.Store(ctx)
		if err != nil {
			t.Fatalf("manifest store: %v", err)
		}
		written := putSet(st)
		if enc {
			want = nil
		}
		checkRoot(c, run, st, root, written, d, want)
		c.End(fmt.Sprintf("dir/files=%d/chunks=%d/enc=%v/dup=%v", len(d.Files), totalChunks, enc, dup), true)
		if i < 2 {
			run.Sample(map[string]interface{}{"case": d, "root": root.String(), "written_chunks": len(written)})
		}
	}
}
