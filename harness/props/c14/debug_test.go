package c14

import (
	"crypto/sha256"
	"encoding/binary"
	"fmt"
	"math/rand"
	"os"
	"testing"

	"github.com/gauss-project/aurorafs/pkg/cac"
)

// TestDebugZeroCount looks for the first operation after which a cache entry has count 0 or a
// wrapped count (VERIF_DEBUG_C14=1).
func TestDebugZeroCount(t *testing.T) {
	if os.Getenv("VERIF_DEBUG_C14") == "" {
		t.Skip()
	}
	found := 0
	for i := 0; i < 40 && found < 4; i++ {
		hh := sha256.Sum256([]byte(fmt.Sprintf("C14/1/TestCrashPoints/hist/%d", i)))
		rng := rand.New(rand.NewSource(int64(binary.LittleEndian.Uint64(hh[:8]))))
		w := &world{files: map[int][]int{}, rootInPyramid: i%3 != 0}
		for k := 0; k < 10; k++ {
			d := make([]byte, 1+rng.Intn(100))
			rng.Read(d)
			ch, _ := cac.New(d)
			w.chunks = append(w.chunks, ch)
		}
		hist := genHistory(rng, len(w.chunks))
		db, _, name, err := open(w, nil, 6)
		if err != nil {
			t.Fatal(err)
		}
		_ = name
		for oi, o := range hist {
			before, _ := dump(db, w)
			if o.Op == "put" && len(o.Mode) >= 7 && o.Mode[:7] == "request" && o.Root >= 0 {
				for _, ch := range o.Chunks {
					if ch != o.Root {
						w.files[o.Root] = append(w.files[o.Root], ch)
					}
				}
				if _, ok := w.files[o.Root]; !ok {
					w.files[o.Root] = nil
				}
			}
			_ = apply(db, w, o)
			after, _ := dump(db, w)
			bad := false
			for n, es := range after.gcEnts {
				for _, e := range es {
					if e.count == 0 || e.count > 1<<62 {
						pre := before.gcEnts[n]
						fmt.Printf("hist %d op %d %s: entry %s count=%d (before %v) pins before=%v after=%v\n", i, oi, o, n, int64(e.count), pre, before.pins, after.pins)
						bad = true
					}
				}
			}
			if bad {
				for _, h := range hist[:oi+1] {
					fmt.Println("    ", h)
				}
				found++
				break
			}
		}
		db.Close()
	}
}
