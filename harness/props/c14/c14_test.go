package c14

import (
	"bytes"
	"context"
	"fmt"
	"io"
	"math/rand"
	"sort"
	"strings"
	"sync"
	"sync/atomic"
	"testing"

	"github.com/gauss-project/aurorafs/pkg/boson"
	"github.com/gauss-project/aurorafs/pkg/cac"
	"github.com/gauss-project/aurorafs/pkg/chunkinfo"
	"github.com/gauss-project/aurorafs/pkg/localstore"
	"github.com/gauss-project/aurorafs/pkg/logging"
	"github.com/gauss-project/aurorafs/pkg/sctx"
	"github.com/gauss-project/aurorafs/pkg/storage"
	"github.com/gauss-project/aurorafs/pkg/verifhook"

	"verif/harness/internal/obs"
	"verif/harness/internal/spec"
	"verif/harness/internal/vdb"
)

var clock int64 = 5000

func init() {
	localstore.VerifSetNow(func() int64 { return atomic.AddInt64(&clock, 1) })
	verifhook.SetFlag("localstore.gcworker.off", true)
}

// ---- history model ------------------------------------------------------------------------

type opRec struct {
	Op     string `json:"op"` // put | set | collect
	Mode   string `json:"mode,omitempty"`
	Root   int    `json:"root"` // file context (index of the root chunk), -1 none
	Chunks []int  `json:"chunks,omitempty"`
}

func (o opRec) String() string {
	return fmt.Sprintf("%s/%s root=%d %v", o.Op, o.Mode, o.Root, o.Chunks)
}

var putModes = map[string]storage.ModePut{"request": storage.ModePutRequest, "upload": storage.ModePutUpload, "uploadpin": storage.ModePutUploadPin, "requestpin": storage.ModePutRequestPin}
var setModes = map[string]storage.ModeSet{"pin": storage.ModeSetPin, "unpin": storage.ModeSetUnpin, "remove": storage.ModeSetRemove, "sync": storage.ModeSetSync}

// files: root chunk index -> member chunk indices (the pyramid the stub chunkinfo reports)
type world struct {
	chunks []boson.Chunk
	files  map[int][]int
	// rootInPyramid: the reported chunk list of a cached file contains the root chunk itself
	// (as the real chunkinfo reports it) - two thirds of the histories
	rootInPyramid bool
}

// stubCI is the collaborator collectGarbage needs: which chunks belong to a cached file.
type stubCI struct {
	chunkinfo.Interface
	w *world
}

func (s *stubCI) IsDiscover(boson.Address) bool { return false }
func (s *stubCI) DelDiscover(boson.Address)     {}
func (s *stubCI) DelFile(root boson.Address, del func() error) error {
	return del()
}
func (s *stubCI) GetChunkPyramid(root boson.Address) []*chunkinfo.PyramidCidNum {
	for ri, members := range s.w.files {
		if !s.w.chunks[ri].Address().Equal(root) {
			continue
		}
		var out []*chunkinfo.PyramidCidNum
		if s.w.rootInPyramid {
			out = append(out, &chunkinfo.PyramidCidNum{Cid: root, Number: 1})
		}
		for _, m := range members {
			out = append(out, &chunkinfo.PyramidCidNum{Cid: s.w.chunks[m].Address(), Number: 1})
		}
		return out
	}
	return nil
}

var faultSeq int64

func open(w *world, initial []vdb.KV, capacity uint64) (*localstore.DB, *vdb.Fault, string, error) {
	name := fmt.Sprintf("c14-%d", atomic.AddInt64(&faultSeq, 1))
	f := vdb.NewFault(name, initial)
	db, err := localstore.New(name, make([]byte, 32), &localstore.Options{Driver: vdb.CrashName + ":" + vdb.SmallCfg, Capacity: capacity}, logging.New(io.Discard, 0))
	if err != nil {
		vdb.DropFault(name)
		return nil, nil, "", err
	}
	db.SetChunkInfo(&stubCI{w: w})
	return db, f, name, nil
}

func apply(db *localstore.DB, w *world, o opRec) (err error) {
	defer func() {
		if r := recover(); r != nil {
			err = fmt.Errorf("panic: %v", r)
		}
	}()
	ctx := context.Background()
	if o.Root >= 0 {
		ctx = sctx.SetRootHash(ctx, w.chunks[o.Root].Address())
	}
	switch o.Op {
	case "put":
		chs := make([]boson.Chunk, len(o.Chunks))
		for i, c := range o.Chunks {
			chs[i] = w.chunks[c]
		}
		_, err = db.Put(ctx, putModes[o.Mode], chs...)
	case "set":
		addrs := make([]boson.Address, len(o.Chunks))
		for i, c := range o.Chunks {
			addrs[i] = w.chunks[c].Address()
		}
		err = db.Set(ctx, setModes[o.Mode], addrs...)
	case "collect":
		// ONE collection run: each run commits on its own, so a loop of runs is a sequence of
		// operations (the generator emits several "collect" operations in a row)
		_, _, err = db.VerifCollectGarbage()
	}
	return err
}

// ---- state and invariants -------------------------------------------------------------------

type state struct {
	present map[string]int // name -> data length
	badData []string
	noMeta  []string
	pins    map[string]uint64
	access  []string
	gc      map[string]uint64
	gcSize  uint64
	sumGC   uint64
	accTS   map[string]int64   // access index: name -> access timestamp
	gcEnts  map[string][]gcEnt // gc index entries by root name
}

type gcEnt struct {
	ts    int64
	count uint64
}

// group is the bookkeeping of ONE chunk address without timestamps: stored?, access entry?,
// pin count, number of cache (gc) entries filed under this address. The chunk count inside a
// cache entry is left out: an operation on several chunks of one file updates it in steps,
// and the statement fixes only pin counts to their before / after value.
func (s *state) group(n string) string {
	_, pr := s.present[n]
	_, ac := s.accTS[n]
	return fmt.Sprintf("stored=%v access-entry=%v pins=%d cache-entries=%d", pr, ac, s.pins[n], len(s.gcEnts[n]))
}

func dump(db *localstore.DB, w *world) (*state, error) {
	s, err := db.VerifDump()
	if err != nil {
		return nil, err
	}
	name := func(a []byte) string {
		for i, c := range w.chunks {
			if bytes.Equal(c.Address().Bytes(), a) {
				return fmt.Sprintf("c%d", i)
			}
		}
		return fmt.Sprintf("%x", a)
	}
	st := &state{present: map[string]int{}, pins: map[string]uint64{}, gc: map[string]uint64{}, gcSize: s.GCSize, accTS: map[string]int64{}, gcEnts: map[string][]gcEnt{}}
	for _, it := range s.RetrievalData {
		n := name(it.Address)
		st.present[n] = len(it.Data)
		if len(it.Data) < 8 || !bytes.Equal(spec.BMT(it.Data[:8], it.Data[8:]), it.Address) {
			st.badData = append(st.badData, n)
		}
		if it.StoreTimestamp == 0 || it.BinID == 0 {
			st.noMeta = append(st.noMeta, n)
		}
	}
	for _, it := range s.Pin {
		st.pins[name(it.Address)] = it.PinCounter
	}
	for _, it := range s.RetrievalAccess {
		st.access = append(st.access, name(it.Address))
		st.accTS[name(it.Address)] = it.AccessTimestamp
	}
	for _, it := range s.GC {
		st.gc[name(it.Address)] += it.GCounter
		st.sumGC += it.GCounter
		st.gcEnts[name(it.Address)] = append(st.gcEnts[name(it.Address)], gcEnt{it.AccessTimestamp, it.GCounter})
	}
	return st, nil
}

// relations between the indexes; each returns "" or a description of the violation
var relations = map[string]func(*state) string{
	"stored-data-hashes-to-address": func(s *state) string {
		if len(s.badData) > 0 {
			return fmt.Sprint("chunks whose stored bytes do not hash to their address: ", s.badData)
		}
		return ""
	},
	"stored-chunk-has-timestamp-and-bin-id": func(s *state) string {
		if len(s.noMeta) > 0 {
			return fmt.Sprint("chunks stored without store timestamp / bin id: ", s.noMeta)
		}
		return ""
	},
	"pin-entry-refers-to-stored-chunk": func(s *state) string {
		for n := range s.pins {
			if _, ok := s.present[n]; !ok {
				return "pin entry for absent chunk " + n
			}
		}
		return ""
	},
	"access-entry-refers-to-stored-chunk": func(s *state) string {
		for _, n := range s.access {
			if _, ok := s.present[n]; !ok {
				return "access entry for absent chunk " + n
			}
		}
		return ""
	},
	"cache-entry-refers-to-stored-root": func(s *state) string {
		for n := range s.gc {
			if _, ok := s.present[n]; !ok {
				return "cache (gc) entry for absent root chunk " + n
			}
		}
		return ""
	},
	"cache-entry-filed-under-the-access-time-of-its-root": func(s *state) string {
		// the store finds a root's cache entry through the root's access-index entry: an entry
		// filed under another time can never be updated or removed again
		for n, es := range s.gcEnts {
			for _, e := range es {
				if ts, ok := s.accTS[n]; !ok || ts != e.ts {
					return fmt.Sprintf("cache (gc) entry of %s is filed under access time %d, the access index has %v (present=%v)", n, e.ts, ts, ok)
				}
			}
			if len(es) > 1 {
				return fmt.Sprintf("%d cache (gc) entries for the same root %s", len(es), n)
			}
		}
		return ""
	},
	"counter-at-least-recomputed-total": func(s *state) string {
		if s.gcSize < s.sumGC {
			return fmt.Sprintf("cached-chunk counter %d below the recomputed total %d", s.gcSize, s.sumGC)
		}
		return ""
	},
}

var bigOnce sync.Once
var bigPool []boson.Chunk

// bigChunks are 20 full-size (256 KiB) chunks, built once per process.
func bigChunks(t *testing.T) []boson.Chunk {
	bigOnce.Do(func() {
		r := rand.New(rand.NewSource(14))
		for k := 0; k < 20; k++ {
			d := make([]byte, boson.ChunkSize)
			r.Read(d)
			ch, err := cac.New(d)
			if err != nil {
				t.Fatal(err)
			}
			bigPool = append(bigPool, ch)
		}
	})
	return bigPool
}

func genHistory(rng *rand.Rand, nU int) []opRec {
	var hist []opRec
	roots := []int{0, 1, 2}
	n := 14 + rng.Intn(11)
	if rng.Intn(3) > 0 {
		// fill the cache beyond the capacity first, so that collection loops have work to do
		for _, r := range roots {
			hist = append(hist, opRec{Op: "put", Mode: "request", Root: r, Chunks: []int{r}})
			for k := 0; k < 2+rng.Intn(2); k++ {
				hist = append(hist, opRec{Op: "put", Mode: "request", Root: r, Chunks: []int{3 + rng.Intn(nU-3)}})
			}
			if rng.Intn(3) == 0 {
				hist = append(hist, opRec{Op: "set", Mode: "pin", Root: r, Chunks: []int{3 + rng.Intn(nU-3)}})
			}
		}
		if rng.Intn(2) == 0 {
			// while the cache is still over its capacity: operations that lower the cache counter
			// (pin or removal of a chunk cached above, under its file or without context)
			var cached []opRec
			for _, h := range hist {
				if h.Op == "put" {
					cached = append(cached, h)
				}
			}
			for k := 0; k <= rng.Intn(2); k++ {
				h := cached[rng.Intn(len(cached))]
				root := h.Root
				if rng.Intn(4) == 0 {
					root = -1
				}
				hist = append(hist, opRec{Op: "set", Mode: []string{"pin", "remove"}[rng.Intn(2)], Root: root, Chunks: []int{h.Chunks[0]}})
			}
		}
		for r := 0; r <= rng.Intn(3); r++ {
			hist = append(hist, opRec{Op: "collect", Root: -1})
		}
		n += len(hist)
	}
	for len(hist) < n {
		root := -1
		if rng.Intn(4) > 0 {
			root = roots[rng.Intn(len(roots))]
		}
		switch x := rng.Intn(20); {
		case x < 9:
			mode := []string{"request", "request", "request", "upload", "uploadpin", "requestpin"}[rng.Intn(6)]
			k := 1
			if rng.Intn(3) == 0 {
				k = 2 + rng.Intn(2)
			}
			chs := make([]int, k)
			for i := range chs {
				chs[i] = rng.Intn(nU)
			}
			if strings.HasPrefix(mode, "request") && root >= 0 && rng.Intn(5) > 0 {
				// cached files start with their root chunk
				hist = append(hist, opRec{Op: "put", Mode: mode, Root: root, Chunks: []int{root}})
			}
			hist = append(hist, opRec{Op: "put", Mode: mode, Root: root, Chunks: chs})
		case x < 16:
			// ModeSetSync is left out: nothing in the node calls it (legacy push-sync path) and it
			// files per-chunk cache entries with a zero count that make later totals wrap
			mode := []string{"pin", "pin", "unpin", "unpin", "remove", "remove", "pin"}[rng.Intn(7)]
			ch := rng.Intn(nU)
			if mode == "unpin" && rng.Intn(4) > 0 {
				// aim at a chunk pinned earlier in this history, half of the time under the same file context
				var cand []opRec
				for _, h := range hist {
					if h.Mode == "pin" || h.Mode == "uploadpin" || h.Mode == "requestpin" {
						cand = append(cand, h)
					}
				}
				if len(cand) > 0 {
					h := cand[rng.Intn(len(cand))]
					ch = h.Chunks[rng.Intn(len(h.Chunks))]
					if rng.Intn(2) == 0 {
						root = h.Root
					}
				}
			}
			hist = append(hist, opRec{Op: "set", Mode: mode, Root: root, Chunks: []int{ch}})
		default:
			for r := 0; r <= rng.Intn(3); r++ {
				hist = append(hist, opRec{Op: "collect", Root: -1})
			}
		}
	}
	return hist
}

func TestCrashPoints(t *testing.T) {
	run := obs.Start(t, "C14")
	defer run.Done()
	run.Rule("for random histories of 14..24 localstore operations (puts in all modes, single and multi-chunk, with and without file context; pin / unpin / remove; collection runs (1-3 in a row); capacity 6 so collection really evicts; every fifth history contains one Put of 17..20 full-size chunks, i.e. more than 4 MiB in one batch) and for EVERY operation i and EVERY k in [0, W_i) where W_i is the number of storage-driver writes (Put / Delete / batch Commit) the operation performs: restore the key-value content from before operation i into a fresh leveldb, run operation i with write k and all later writes vanishing, then reopen with the real localstore.New and dump all indexes; distinct = (operation kind and mode, W_i, k)",
		"crash granularity is one driver write; leveldb's own atomicity of a single write / batch is trusted",
		"the chunkinfo collaborator of collection is a stub reporting each cached file's chunks",
		"only index relations that hold at every clean quiescent point of the same history are required after a crash")
	n := run.N(40, 600)
	const capacity = 6
	for i := 0; i < n; i++ {
		c := run.Begin(fmt.Sprintf("hist/%d", i), nil)
		if c == nil {
			continue
		}
		rng := c.Rand()
		w := &world{files: map[int][]int{}}
		w.rootInPyramid = i%3 != 0
		for k := 0; k < 10; k++ {
			d := make([]byte, 1+rng.Intn(100))
			rng.Read(d)
			ch, err := cac.New(d)
			if err != nil {
				t.Fatal(err)
			}
			w.chunks = append(w.chunks, ch)
		}
		hist := genHistory(rng, len(w.chunks))
		if i%5 == 4 {
			// one Put of 17..20 full-size chunks (more than 4 MiB in one write batch)
			for _, b := range bigChunks(t) {
				w.chunks = append(w.chunks, b)
			}
			k := 17 + rng.Intn(4)
			big := opRec{Op: "put", Mode: []string{"uploadpin", "request", "upload", "requestpin"}[rng.Intn(4)], Root: []int{-1, 0, 1}[rng.Intn(3)]}
			for j := 0; j < k; j++ {
				big.Chunks = append(big.Chunks, 10+j)
			}
			at := rng.Intn(len(hist) + 1)
			hist = append(hist[:at], append([]opRec{big}, hist[at:]...)...)
			run.Stat("histories_with_a_put_above_4MiB", 1)
		}
		// ---- clean run: learn W_i, before/after states, snapshots ------------------------
		db, fault, name, err := open(w, nil, capacity)
		if err != nil {
			t.Fatal(err)
		}
		type step struct {
			snap          []vdb.KV
			writes        int
			before, after *state
			files         map[int][]int
			err           error
		}
		steps := make([]step, len(hist))
		holds := map[string]bool{}
		for r := range relations {
			holds[r] = true
		}
		cleanChecked := 0
		for oi, o := range hist {
			before, err := dump(db, w)
			if err != nil {
				t.Fatal(err)
			}
			files := map[int][]int{}
			for k, v := range w.files {
				files[k] = append([]int(nil), v...)
			}
			steps[oi] = step{snap: fault.Snapshot(), before: before, files: files}
			// model of cached files for the stub: request puts under a root context
			if o.Op == "put" && strings.HasPrefix(o.Mode, "request") && o.Root >= 0 {
				for _, ch := range o.Chunks {
					if ch != o.Root {
						w.files[o.Root] = append(w.files[o.Root], ch)
					}
				}
				if _, ok := w.files[o.Root]; !ok {
					w.files[o.Root] = nil
				}
			}
			fault.ResetCount(-1)
			steps[oi].err = apply(db, w, o)
			steps[oi].writes = fault.Writes()
			if o.Op == "collect" && steps[oi].writes > 0 {
				run.Stat("collections_with_driver_writes", 1)
			}
			if steps[oi].writes > 1 {
				run.Stat("operations_with_several_driver_writes", 1)
			}
			after, err := dump(db, w)
			if err != nil {
				t.Fatal(err)
			}
			steps[oi].after = after
			for r, f := range relations {
				if msg := f(after); msg != "" && holds[r] {
					holds[r] = false
					run.Stat("relation_not_invariant_on_clean_states/"+r, 1)
				}
			}
			cleanChecked++
		}
		db.Close()
		vdb.DropFault(name)
		run.Stat("clean_states_checked", int64(cleanChecked))
		nrel := 0
		for _, ok := range holds {
			if ok {
				nrel++
			}
		}
		run.Stat("invariants_validated_clean", int64(nrel))
		// ---- crash runs --------------------------------------------------------------------
		points := 0
		for oi, o := range hist {
			st := steps[oi]
			for k := 0; k < st.writes; k++ {
				points++
				kind := o.Op + "/" + o.Mode
				run.Tally(fmt.Sprintf("%s/W=%d/k=%d", kind, st.writes, k), true)
				w.files = st.files
				if o.Op == "put" && strings.HasPrefix(o.Mode, "request") && o.Root >= 0 {
					// the stub must already know the file while the operation runs (as in the clean run)
					m := map[int][]int{}
					for a, b := range st.files {
						m[a] = append([]int(nil), b...)
					}
					for _, ch := range o.Chunks {
						if ch != o.Root {
							m[o.Root] = append(m[o.Root], ch)
						}
					}
					w.files = m
				}
				cdb, cf, cname, err := open(w, st.snap, capacity)
				if err != nil {
					t.Fatal(err)
				}
				cf.ResetCount(k)
				_ = apply(cdb, w, o)
				crashed := cf.Crashed()
				snap := cf.Snapshot()
				cdb.Close()
				vdb.DropFault(cname)
				if !crashed {
					run.Stat("crash_point_not_reached", 1)
					continue
				}
				// reopen on what reached storage
				rdb, _, rname, err := open(w, snap, capacity)
				wit := map[string]interface{}{"history": hist[:oi+1], "operation": o.String(), "driver_writes_of_operation": st.writes, "crash_before_write": k}
				if err != nil {
					c.Viol("reopen-fails-after-crash/"+kind, "localstore.New failed on the post-crash content: "+err.Error(), wit)
					continue
				}
				got, err := dump(rdb, w)
				rdb.Close()
				vdb.DropFault(rname)
				if err != nil {
					c.Viol("dump-fails-after-crash/"+kind, err.Error(), wit)
					continue
				}
				run.Stat("crash_points_reopened", 1)
				for r, f := range relations {
					if !holds[r] {
						continue
					}
					if msg := f(got); msg != "" {
						c.Viol(r+"/after-crash-in-"+kind, fmt.Sprintf("crash before write %d of %d of %s: %s", k, st.writes, o, msg), wit)
					}
				}
				// per chunk: its whole bookkeeping is the one from before or the one from after the
				// interrupted operation, never a mixture of the two
				for ci := range w.chunks {
					nme := fmt.Sprintf("c%d", ci)
					g := got.group(nme)
					run.Stat("chunk_bookkeeping_groups_compared", 1)
					if g != st.before.group(nme) && g != st.after.group(nme) {
						c.Viol("chunk-bookkeeping-neither-before-nor-after/crash-in-"+kind, fmt.Sprintf("crash before write %d of %d of %s: bookkeeping of %s is {%s}; before the operation {%s}, after it {%s}", k, st.writes, o, nme, g, st.before.group(nme), st.after.group(nme)), wit)
						break
					}
				}
				// pin counters: value before or after the interrupted operation
				names := map[string]bool{}
				for nme := range st.before.pins {
					names[nme] = true
				}
				for nme := range st.after.pins {
					names[nme] = true
				}
				for nme := range got.pins {
					names[nme] = true
				}
				var bad []string
				for nme := range names {
					g := got.pins[nme]
					if g != st.before.pins[nme] && g != st.after.pins[nme] {
						bad = append(bad, fmt.Sprintf("%s: %d (before %d, after %d)", nme, g, st.before.pins[nme], st.after.pins[nme]))
					}
				}
				if len(bad) > 0 {
					sort.Strings(bad)
					c.Viol("pin-count-neither-before-nor-after/crash-in-"+kind, fmt.Sprintf("crash before write %d of %d of %s: %v", k, st.writes, o, bad), wit)
				}
			}
		}
		run.Stat("crash_points", int64(points))
		run.Stat("exhaustive_histories", 1)
		c.End(fmt.Sprintf("ops=%d/points=%d", len(hist), points/10*10), points > 0)
		if i < 1 {
			run.Sample(map[string]interface{}{"history": hist, "crash_points": points})
		}
	}
}
