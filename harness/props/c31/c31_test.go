package c31

import (
	"context"
	"errors"
	"fmt"
	"math/big"
	"math/rand"
	"sort"
	"strings"
	"testing"
	"time"

	"github.com/ethereum/go-ethereum/common"
	"github.com/gauss-project/aurorafs/pkg/boson"
	chequePkg "github.com/gauss-project/aurorafs/pkg/settlement/traffic/cheque"
	"github.com/gauss-project/aurorafs/pkg/storage"
	"verif/harness/internal/obs"
	"verif/harness/internal/trafficx"
)

// ledger model of one peer, written from the statement
type peerM struct {
	p           *trafficx.Party
	owed        *big.Int // total traffic we consumed from the peer (what we owe in total)
	sent        *big.Int // highest cumulative payout delivered to the peer
	chainCashed *big.Int // what the peer has cashed on chain (stub truth)
	seenCashed  *big.Int // ... as of the node's last look at the chain
	drift       *big.Int // change of the node's cashed record already reported (so it is reported once)
	recvPayout  *big.Int // highest payout of cheques the peer gave us
	weCashed    *big.Int // what we cashed on chain from the peer
	ctx         string   // what happened last to this peer's chain view: start|refresh|restart|cashout
	emittedSeen int
}

type step struct {
	Op     string `json:"op"`
	Peer   string `json:"peer,omitempty"`
	Amount string `json:"amount,omitempty"`
	Result string `json:"result,omitempty"`
	Avail  string `json:"available_balance_after,omitempty"`
	Cashed string `json:"cashed_record_after,omitempty"`
}

type world struct {
	t        *testing.T
	run      *obs.Run
	c        *obs.Case
	self     *trafficx.Party
	peers    []*peerM
	chain    *trafficx.Chain
	proto    *trafficx.Proto
	cash     *trafficx.Cashout
	store    storage.StateStorer
	node     *trafficx.Node
	B        *big.Int // chain balance of this node (stub truth)
	seenB    *big.Int
	drift0   *big.Int // unexplained difference of the available balance already reported
	hist     []*step
	failNext bool
	pays     []string
	// cash-out in flight
	cashPeer   *peerM
	cashStatus uint64
}

func bi(v int64) *big.Int { return big.NewInt(v) }

func (w *world) witness() interface{} {
	m := map[string]interface{}{"ops": w.hist, "chain_balance": w.B.String()}
	ps := map[string]interface{}{}
	for _, p := range w.peers {
		ps[p.p.Name] = map[string]string{"owed": p.owed.String(), "sent": p.sent.String(), "cashed_on_chain": p.chainCashed.String(), "cashed_seen_by_node": p.seenCashed.String()}
	}
	m["model"] = ps
	return m
}

func (w *world) boot(first bool) {
	w.node = trafficx.NewNode(w.self, w.store, w.chain, trafficx.Options{Proto: w.proto, Cash: w.cash})
	if err := w.node.Svc.Init(); err != nil {
		w.t.Fatal(err)
	}
	if first {
		for _, p := range w.peers {
			if err := w.node.Svc.Handshake(p.p.Overlay, p.p.Addr, chequePkg.SignedCheque{}); err != nil {
				w.t.Fatal(err)
			}
		}
	}
}

// cashedRecord derives the node's record of what peers have cashed from its API:
// TrafficInfo.AvailableBalance = Balance + cashed - TotalSendTraffic.
func (w *world) cashedRecord() *big.Int {
	ti, err := w.node.Svc.TrafficInfo()
	if err != nil {
		w.t.Fatal(err)
	}
	r := new(big.Int).Sub(ti.AvailableBalance, ti.Balance)
	return r.Add(r, ti.TotalSendTraffic)
}

func (w *world) sumSeenCashed() *big.Int {
	s := bi(0)
	for _, p := range w.peers {
		s.Add(s, p.seenCashed)
		s.Add(s, p.drift)
	}
	return s
}

// check runs the oracle clauses that hold after every operation.
func (w *world) check(st *step) {
	ab, err := w.node.Svc.AvailableBalance()
	if err != nil {
		w.t.Fatal(err)
	}
	cr := w.cashedRecord()
	st.Avail, st.Cashed = ab.String(), cr.String()
	w.run.Stat("balance_reads", 1)
	wantCashed := w.sumSeenCashed()
	if cr.Cmp(wantCashed) != 0 {
		w.c.Viol("cashed-record-differs-from-chain-view", fmt.Sprintf("after %s: node's record of cashed amounts %v, chain values it last read sum to %v", st.Op, cr, wantCashed), w.witness())
		// adopt (reported once), attributing it to the first peer: only the sum is observable
		w.peers[0].drift.Add(w.peers[0].drift, new(big.Int).Sub(cr, wantCashed))
		wantCashed = cr
	}
	want := new(big.Int).Add(w.seenB, wantCashed)
	for _, p := range w.peers {
		want.Sub(want, p.owed)
	}
	want.Add(want, w.drift0)
	if ab.Cmp(want) != 0 {
		w.c.Viol("available-balance-differs-from-formula", fmt.Sprintf("after %s: AvailableBalance %v, chain balance + cashed - owed = %v", st.Op, ab, want), w.witness())
		w.drift0.Add(w.drift0, new(big.Int).Sub(ab, want))
	}
}

func (w *world) add(st *step) *step {
	w.hist = append(w.hist, st)
	return st
}

func (w *world) credit(p *peerM, amt *big.Int) {
	st := w.add(&step{Op: "credit", Peer: p.p.Name, Amount: amt.String()})
	if err := w.node.Svc.PutRetrieveTraffic(p.p.Overlay, amt); err != nil {
		w.t.Fatalf("PutRetrieveTraffic: %v", err)
	}
	p.owed = new(big.Int).Add(p.owed, amt)
	w.run.Stat("credits", 1)
	w.check(st)
}

func (w *world) pay(p *peerM, thr *big.Int, fail bool) {
	st := w.add(&step{Op: "pay", Peer: p.p.Name, Amount: "threshold " + thr.String()})
	if fail {
		st.Op = "pay(delivery fails)"
	}
	w.failNext = fail
	before := w.cashedRecord()
	err := w.node.Svc.Pay(context.Background(), p.p.Overlay, thr)
	after := w.cashedRecord()
	w.failNext = false
	log := w.proto.Log()
	var mine []trafficx.Emitted
	for _, e := range log[p.emittedSeen:] {
		mine = append(mine, e)
	}
	// Proto's log is global: count only entries for this peer
	p.emittedSeen = len(log)
	for _, q := range w.peers {
		q.emittedSeen = len(log)
	}
	outcome := "no-cheque"
	for _, e := range mine {
		if !e.Peer.Equal(p.p.Overlay) {
			w.c.Viol("cheque-emitted-to-other-peer", "Pay for one peer emitted a cheque to another", w.witness())
			continue
		}
		w.run.Stat("cheques_emitted", 1)
		if e.Payout == nil {
			w.c.Viol("cheque-without-payout", "emitted cheque has no payout", w.witness())
			continue
		}
		st.Result += fmt.Sprintf("cheque payout=%v delivered=%v; ", e.Payout, e.Delivered)
		if e.Payout.Cmp(p.owed) > 0 {
			w.c.Viol("cheque-payout-exceeds-traffic-owed", fmt.Sprintf("cheque to %s has cumulative payout %v, traffic owed is %v", p.p.Name, e.Payout, p.owed), w.witness())
		}
		if e.Delivered {
			outcome = "delivered"
			w.run.Stat("cheques_delivered", 1)
			if e.Payout.Cmp(p.sent) <= 0 {
				w.c.Viol("cheque-payout-not-increasing", fmt.Sprintf("cheque to %s has cumulative payout %v, previous delivered one %v", p.p.Name, e.Payout, p.sent), w.witness())
			} else {
				p.sent = new(big.Int).Set(e.Payout)
			}
		} else {
			outcome = "delivery-failed"
			w.run.Stat("cheques_failed_delivery", 1)
		}
	}
	if err != nil {
		st.Result += "err=" + err.Error()
	}
	w.pays = append(w.pays, outcome+"@"+p.ctx)
	w.run.Stat("pays", 1)
	w.run.Stat("pay/"+outcome+"@"+p.ctx, 1)
	// the clause itself: issuing a cheque never changes the record of what peers have cashed
	if before.Cmp(after) != 0 {
		key := "pay-changes-cashed-record"
		switch outcome {
		case "delivery-failed":
			key = "failed-pay-changes-cashed-record"
		case "no-cheque":
			key = "pay-without-cheque-changes-cashed-record"
		}
		w.c.Viol(key, fmt.Sprintf("Pay(%s): the node's record of cashed amounts went from %v to %v although nothing was read from the chain (last chain view of this peer: %s)", p.p.Name, before, after, p.ctx), w.witness())
		p.drift.Add(p.drift, new(big.Int).Sub(after, before))
	}
	if outcome == "delivered" {
		if lc, e := w.node.Svc.LastSentCheque(p.p.Overlay); e != nil || lc == nil || lc.CumulativePayout == nil || lc.CumulativePayout.Cmp(p.sent) != 0 {
			got := "none"
			if lc != nil && lc.CumulativePayout != nil {
				got = lc.CumulativePayout.String()
			}
			w.c.Viol("last-sent-cheque-differs-from-delivered", fmt.Sprintf("LastSentCheque(%s) = %s (err %v), delivered payout %v", p.p.Name, got, e, p.sent), w.witness())
		}
	}
	w.check(st)
}

func (w *world) sawChain(ctx string, only *peerM) {
	w.seenB = new(big.Int).Set(w.B)
	for _, p := range w.peers {
		if only != nil && p != only {
			continue
		}
		p.seenCashed = new(big.Int).Set(p.chainCashed)
		p.drift = bi(0)
		p.ctx = ctx
	}
}

func (w *world) refresh() {
	st := w.add(&step{Op: "refresh"})
	if err := w.node.Svc.TrafficInit(); err != nil {
		w.t.Fatalf("TrafficInit: %v", err)
	}
	w.sawChain("refresh", nil)
	w.drift0 = bi(0)
	w.run.Stat("refreshes", 1)
	w.check(st)
}

func (w *world) restart() {
	st := w.add(&step{Op: "restart"})
	w.boot(false)
	w.sawChain("restart", nil)
	w.drift0 = bi(0)
	w.run.Stat("restarts", 1)
	w.check(st)
}

// peerCashes: the peer cashes our last delivered cheque on chain (the node does not know yet).
func (w *world) peerCashes(p *peerM) bool {
	if p.sent.Cmp(p.chainCashed) <= 0 {
		return false
	}
	st := w.add(&step{Op: "chain: peer cashes our last cheque", Peer: p.p.Name, Amount: p.sent.String()})
	d := new(big.Int).Sub(p.sent, p.chainCashed)
	p.chainCashed = new(big.Int).Set(p.sent)
	w.B = new(big.Int).Sub(w.B, d)
	w.chain.SetTrans(w.self.Addr, p.p.Addr, p.chainCashed)
	w.chain.SetBalance(w.self.Addr, w.B)
	w.run.Stat("chain_cash_events", 1)
	w.check(st)
	return true
}

func (w *world) topup(x *big.Int) {
	st := w.add(&step{Op: "chain: deposit", Amount: x.String()})
	w.B = new(big.Int).Add(w.B, x)
	w.chain.SetBalance(w.self.Addr, w.B)
	w.check(st)
}

// cashout: the peer gives us a cheque, we cash it; the receipt makes the node re-read the
// chain balance and this peer's chain totals.
func (w *world) cashout(p *peerM, amt *big.Int, status uint64) {
	st := w.add(&step{Op: fmt.Sprintf("receive cheque + cash-out (receipt status %d)", status), Peer: p.p.Name, Amount: amt.String()})
	payout := new(big.Int).Add(p.recvPayout, amt)
	ch, err := p.p.Sign(w.self.Addr, p.p.Addr, payout)
	if err != nil {
		w.t.Fatal(err)
	}
	if err := w.node.Svc.ReceiveCheque(context.Background(), p.p.Overlay, ch); err != nil {
		w.t.Fatalf("ReceiveCheque of a valid cheque: %v", err)
	}
	p.recvPayout = payout
	w.check(st)
	w.cashPeer, w.cashStatus = p, status
	if _, err := w.node.Svc.CashCheque(context.Background(), p.p.Overlay); err != nil {
		w.t.Fatalf("CashCheque: %v", err)
	}
	select {
	case <-w.node.Pub.CashOut:
	case <-time.After(60 * time.Second):
		w.t.Fatal("cash-out receipt was not processed within 60s")
	}
	if status == 1 {
		w.sawChain("cashout", p)
	}
	w.run.Stat(fmt.Sprintf("cashouts_status_%d", status), 1)
	w.check(st)
}

// receipt is the stub chain executing the cash-out transaction.
func (w *world) receipt(h common.Hash) (uint64, error) {
	p := w.cashPeer
	if w.cashStatus == 1 {
		d := new(big.Int).Sub(p.recvPayout, p.weCashed)
		p.weCashed = new(big.Int).Set(p.recvPayout)
		w.B = new(big.Int).Add(w.B, d)
		w.chain.SetTrans(p.p.Addr, w.self.Addr, p.weCashed)
		w.chain.SetBalance(w.self.Addr, w.B)
	}
	return w.cashStatus, nil
}

func amount(rng *rand.Rand) *big.Int {
	switch rng.Intn(3) {
	case 0:
		return bi(1 + int64(rng.Intn(10)))
	case 1:
		return bi(1 + int64(rng.Intn(5000)))
	}
	return new(big.Int).Lsh(bi(1+int64(rng.Intn(1000))), uint(rng.Intn(70)))
}

func TestLedgerHistories(t *testing.T) {
	run := obs.Start(t, "C31")
	defer run.Done()
	run.Rule("random histories of 25 operations over 3 peers: credit traffic, pay (delivery succeeds or fails), 24h chain refresh (TrafficInit), restart on the same store, "+
		"peer cashes our cheque on chain, deposit, receive-and-cash a peer's cheque (receipt status 1 or 0); every history contains refresh -> credit -> pay; "+
		"distinct = set of (pay outcome @ last chain view of that peer) in the history; non-trivial = a delivered pay after a refresh or restart",
		"the stub chain returns fresh values on every call; peers only cash cheques actually delivered to them; chain calls never fail",
		"the node's record of cashed amounts is derived from its API: TrafficInfo.AvailableBalance - Balance + TotalSendTraffic")
	n := run.N(400, 4000)
	for i := 0; i < n; i++ {
		c := run.Begin(fmt.Sprintf("hist/%d", i), nil)
		if c == nil {
			continue
		}
		rng := c.Rand()
		runHistory(t, run, c, rng, i)
	}
}

func runHistory(t *testing.T, run *obs.Run, c *obs.Case, rng *rand.Rand, i int) {
	w := &world{t: t, run: run, c: c, chain: trafficx.NewChain(), proto: &trafficx.Proto{}, cash: &trafficx.Cashout{}, drift0: bi(0)}
	w.self = trafficx.NewParty("self", rng)
	for k := 0; k < 3; k++ {
		w.peers = append(w.peers, &peerM{p: trafficx.NewParty(fmt.Sprintf("P%d", k), rng), owed: bi(0), sent: bi(0), chainCashed: bi(0),
			seenCashed: bi(0), drift: bi(0), recvPayout: bi(0), weCashed: bi(0), ctx: "start"})
	}
	st, err := trafficx.NewMemStore()
	if err != nil {
		t.Fatal(err)
	}
	w.store = st
	defer st.Close()
	// mostly ample funds, sometimes scarce (then Pay refuses with insufficient funds)
	if rng.Intn(5) == 0 {
		w.B = bi(int64(rng.Intn(20000)))
	} else {
		w.B = new(big.Int).Lsh(bi(1), 100)
	}
	w.chain.SetBalance(w.self.Addr, w.B)
	w.seenB = new(big.Int).Set(w.B)
	w.proto.Fail = func(_ boson.Address, _ *big.Int) error {
		if w.failNext {
			return errors.New("stream reset")
		}
		return nil
	}
	w.cash.Receipt = w.receipt
	w.boot(true)
	w.check(w.add(&step{Op: "start"}))

	thr := bi(1 + int64(rng.Intn(50)))
	// the place of the mandatory refresh -> credit -> pay sequence
	forced := 3 + rng.Intn(15)
	for len(w.hist) < 26 {
		p := w.peers[rng.Intn(len(w.peers))]
		if len(w.hist) == forced {
			if rng.Intn(3) == 0 {
				w.restart()
			} else {
				w.refresh()
			}
			w.credit(p, new(big.Int).Add(thr, amount(rng)))
			w.pay(p, thr, rng.Intn(5) == 0)
			continue
		}
		switch r := rng.Intn(100); {
		case r < 35:
			w.credit(p, amount(rng))
		case r < 60:
			w.pay(p, thr, rng.Intn(4) == 0)
		case r < 70:
			w.refresh()
		case r < 76:
			w.restart()
		case r < 86:
			if !w.peerCashes(p) {
				w.credit(p, amount(rng))
			}
		case r < 90:
			w.topup(amount(rng))
		default:
			status := uint64(1)
			if rng.Intn(4) == 0 {
				status = 0
			}
			w.cashout(p, amount(rng), status)
		}
	}
	set := map[string]bool{}
	nontriv := false
	for _, s := range w.pays {
		set[s] = true
		if s == "delivered@refresh" || s == "delivered@restart" {
			nontriv = true
		}
	}
	ks := make([]string, 0, len(set))
	for k := range set {
		ks = append(ks, k)
	}
	sort.Strings(ks)
	if i < 2 {
		run.Sample(map[string]interface{}{"ops": w.hist})
	}
	c.End(strings.Join(ks, ","), nontriv)
}
