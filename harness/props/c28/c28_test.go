// Package c28 runs small in-process networks of real routetab.Service instances
// (harness/internal/rtsim) and monitors, from outside, what the property states:
//
//	In any network of honest nodes, route discovery terminates. Every path a node records
//	or returns consists of distinct nodes joined by actual neighbour links, is no longer
//	than the hop limit, and never contains the recording node itself. Relayed streams are
//	never forwarded to a node already on their path, except to deliver to the target.
package c28

import (
	"context"
	"crypto/sha256"
	"fmt"
	"math/rand"
	"sort"
	"strings"
	"sync"
	"sync/atomic"
	"testing"
	"time"

	"github.com/gauss-project/aurorafs/pkg/boson"
	"github.com/gauss-project/aurorafs/pkg/p2p"
	"github.com/gauss-project/aurorafs/pkg/routetab"
	"verif/harness/internal/obs"
	"verif/harness/internal/rtsim"
)

type cfg struct {
	nodes    int
	maxTTL   int
	alpha    int
	dropP    float64
	maxDelay time.Duration
	edges    [][2]int
	kind     string
}

type monitor struct {
	t   *testing.T
	run *obs.Run
	c   *obs.Case
	cfg cfg
	net *rtsim.Net

	mu          sync.Mutex
	log         []string // compact trace for witnesses
	order       []string // delivery order of the current discovery
	orders      map[string]bool
	msgs        int64 // route request/response streams opened (delivered or lost)
	allowed     int64 // cumulative message allowance
	checked     []map[string]bool
	relayFwd    int
	relayToDest int
	recorded    int
	findOK      int
	findFail    int
	relayOK     int
	relayFail   int
	maxRecLen   int
}

func (m *monitor) witness(extra map[string]interface{}) map[string]interface{} {
	m.mu.Lock()
	defer m.mu.Unlock()
	lg := m.log
	if len(lg) > 400 {
		lg = lg[len(lg)-400:]
	}
	w := map[string]interface{}{
		"nodes": m.cfg.nodes, "edges": fmt.Sprint(m.cfg.edges), "maxTTL": m.cfg.maxTTL, "alpha": m.cfg.alpha,
		"drop_probability": m.cfg.dropP, "max_delay": m.cfg.maxDelay.String(), "trace": append([]string(nil), lg...),
		"note": "nodes are written as indices; trace lines: 'find s->t', 'i>j req/resp [path items]' (message as sent, ! = lost), 'i>j relay dest=t src=s paths=[..]'",
	}
	for k, v := range extra {
		w[k] = v
	}
	return w
}

func (m *monitor) idxs(items [][]byte) string {
	s := make([]string, len(items))
	for i, b := range items {
		if j, ok := m.net.Index(boson.NewAddress(b)); ok {
			s[i] = fmt.Sprint(j)
		} else {
			s[i] = "?"
		}
	}
	return "[" + strings.Join(s, " ") + "]"
}

func (m *monitor) observe(ev rtsim.Event) {
	lost := ""
	if ev.Dropped {
		lost = "!"
	}
	switch {
	case ev.Req != nil:
		atomic.AddInt64(&m.msgs, 1)
		m.run.Stat("wire_route_requests", 1)
		line := fmt.Sprintf("%d>%d%s req", ev.From, ev.To, lost)
		for _, p := range ev.Req.Paths {
			line += " " + m.idxs(p.Items)
			m.run.StatMax("max/wire_request_path_len", int64(len(p.Items)))
		}
		if len(ev.Req.UList) > 0 {
			m.run.Stat("wire_underlay_records", int64(len(ev.Req.UList)))
		}
		m.mu.Lock()
		m.log = append(m.log, line)
		m.mu.Unlock()
	case ev.Resp != nil:
		atomic.AddInt64(&m.msgs, 1)
		m.run.Stat("wire_route_responses", 1)
		line := fmt.Sprintf("%d>%d%s resp", ev.From, ev.To, lost)
		for _, p := range ev.Resp.Paths {
			line += " " + m.idxs(p.Items)
			m.run.StatMax("max/wire_response_path_len", int64(len(p.Items)))
		}
		if len(ev.Resp.UList) > 0 {
			m.run.Stat("wire_underlay_records", int64(len(ev.Resp.UList)))
		}
		m.mu.Lock()
		m.log = append(m.log, line)
		m.mu.Unlock()
	case ev.Relay != nil:
		r := ev.Relay
		dest, _ := m.net.Index(boson.NewAddress(r.Dest))
		src, _ := m.net.Index(boson.NewAddress(r.Src))
		line := fmt.Sprintf("%d>%d relay dest=%d src=%d paths=%s", ev.From, ev.To, dest, src, m.idxs(r.Paths))
		m.mu.Lock()
		m.log = append(m.log, line)
		m.relayFwd++
		if ev.To == dest {
			m.relayToDest++
		}
		m.mu.Unlock()
		m.run.Stat("relay_forwards_observed", 1)
		if ev.To == dest {
			m.run.Stat("relay_forwards_to_target", 1)
			return
		}
		ex := map[string]interface{}{"forward": line}
		for _, b := range r.Paths {
			if j, ok := m.net.Index(boson.NewAddress(b)); ok && j == ev.To {
				m.c.Viol("relay-forwarded-to-node-on-path", fmt.Sprintf("node %d forwarded a relayed stream for target %d to node %d which is already in its path list %s", ev.From, dest, ev.To, m.idxs(r.Paths)), m.witness(ex))
				return
			}
		}
		if ev.To == src {
			// the origin is on the stream's path but is not part of the Paths list the relays consult
			m.c.Viol("relay-forwarded-back-to-origin", fmt.Sprintf("node %d forwarded a relayed stream for target %d back to its origin %d (path list %s does not contain the origin)", ev.From, dest, src, m.idxs(r.Paths)), m.witness(ex))
		}
	}
}

func (m *monitor) onDeliver(from, to int, stream string) {
	k := "q"
	switch stream {
	case rtsim.StreamRouteResp:
		k = "p"
	case routetab.StreamOnRelayConnChain:
		k = "r"
	}
	m.mu.Lock()
	m.order = append(m.order, fmt.Sprintf("%d%s%d", from, k, to))
	m.mu.Unlock()
}

func (m *monitor) closeOrder() {
	m.mu.Lock()
	h := sha256.Sum256([]byte(strings.Join(m.order, ",")))
	sig := fmt.Sprintf("%d/%x", len(m.order), h[:6])
	if len(m.order) > 0 && !m.orders[sig] {
		m.orders[sig] = true
		m.run.Stat("distinct_delivery_orders", 1)
	}
	m.order = nil
	m.mu.Unlock()
}

// checkPath judges one recorded or returned path of node rec.
func (m *monitor) checkPath(kind string, rec int, items []boson.Address) {
	idx := make([]int, len(items))
	names := make([]string, len(items))
	unknown := false
	for i, a := range items {
		j, ok := m.net.Index(a)
		if !ok {
			j = -1
			unknown = true
		}
		idx[i] = j
		names[i] = fmt.Sprint(j)
	}
	ps := "[" + strings.Join(names, " ") + "]"
	ex := map[string]interface{}{"recording_node": rec, "path": ps}
	if unknown {
		m.c.Viol(kind+"-path-unknown-node", fmt.Sprintf("node %d holds path %s with an address that is no node of the network", rec, ps), m.witness(ex))
		return
	}
	seen := map[int]bool{}
	for i, j := range idx {
		if seen[j] {
			// witness classes: the same node twice in a row (a hop appended itself twice) or a loop
			cls := "loop"
			if i > 0 && idx[i-1] == j {
				cls = "consecutive"
			}
			m.c.Viol(kind+"-path-repeats-node/"+cls, fmt.Sprintf("node %d holds path %s in which node %d occurs twice", rec, ps, j), m.witness(ex))
			break
		}
		seen[j] = true
	}
	for i := 0; i+1 < len(idx); i++ {
		if idx[i] == idx[i+1] {
			continue // reported above as a repeated node
		}
		if !m.net.Adj[idx[i]][idx[i+1]] {
			m.c.Viol(kind+"-path-without-link", fmt.Sprintf("node %d holds path %s but nodes %d and %d are not neighbours", rec, ps, idx[i], idx[i+1]), m.witness(ex))
			break
		}
	}
	if len(idx) > m.cfg.maxTTL {
		m.c.Viol(kind+"-path-longer-than-ttl", fmt.Sprintf("node %d holds path %s of %d nodes, hop limit %d", rec, ps, len(idx), m.cfg.maxTTL), m.witness(ex))
	}
	if seen[rec] {
		m.c.Viol(kind+"-path-contains-recorder", fmt.Sprintf("node %d holds path %s which contains itself", rec, ps), m.witness(ex))
	}
	if len(idx) > 0 && !m.net.Adj[rec][idx[len(idx)-1]] {
		m.run.Stat("paths_whose_last_hop_is_not_a_neighbour_of_the_recorder", 1) // not part of the statement: counted only
	}
	m.run.Stat(kind+"_paths_checked", 1)
	m.mu.Lock()
	if len(idx) > m.maxRecLen {
		m.maxRecLen = len(idx)
	}
	m.mu.Unlock()
	m.run.StatMax("max/"+kind+"_path_len", int64(len(idx)))
	if len(idx) == m.cfg.maxTTL {
		m.run.Stat(kind+"_paths_at_hop_limit", 1)
	}
}

// checkTables judges every path held by every node (each distinct path once per node).
func (m *monitor) checkTables() {
	for i, nd := range m.net.Nodes {
		for _, p := range nd.Svc.VerifTable().VerifAllPaths() {
			k := ""
			for _, a := range p.Items {
				k += a.ByteString()
			}
			if m.checked[i][k] {
				continue
			}
			m.checked[i][k] = true
			m.recorded++
			m.checkPath("recorded", i, p.Items)
		}
	}
}

// quiesce waits until no stream is in flight. Every message is sent from inside a handler
// or a FindRoute call, so with all calls returned "nothing in flight" is stable.
func (m *monitor) quiesce(what string) {
	deadline := time.Now().Add(30 * time.Second)
	last := atomic.LoadInt64(&m.msgs)
	lastChange := time.Now()
	for m.net.InFlight() != 0 {
		time.Sleep(200 * time.Microsecond)
		if cur := atomic.LoadInt64(&m.msgs); cur != last {
			last, lastChange = cur, time.Now()
		}
		if time.Now().After(deadline) {
			if time.Since(lastChange) < 2*time.Second {
				m.c.Viol("discovery-does-not-quiesce", fmt.Sprintf("%s: route messages are still being generated 30 s after the call returned (%d so far)", what, last), m.witness(nil))
				return
			}
			m.t.Fatalf("harness: network did not quiesce after %s (in flight %d, no new messages)", what, m.net.InFlight())
		}
	}
	m.run.Stat("quiescent_points_reached", 1)
}

// allowance for one FindRoute call from src: 3 x min(#simple paths from src with 2..maxTTL+2
// nodes, sum_{k=1..maxTTL+1} alpha^k). Every request carries a distinct simple path from the
// source (its items plus the receiver) and at most alpha are sent per received request; every
// response is either an answer to one received request or the forwarding of one pending
// entry, and one pending entry is created per request send attempt.
func (m *monitor) allowanceFor(src int) int64 {
	var sp int64
	n := m.cfg.nodes
	used := make([]bool, n)
	var dfs func(v, depth int)
	dfs = func(v, depth int) {
		if depth >= 2 {
			sp++
		}
		if depth == m.cfg.maxTTL+2 {
			return
		}
		for w := 0; w < n; w++ {
			if m.net.Adj[v][w] && !used[w] {
				used[w] = true
				dfs(w, depth+1)
				used[w] = false
			}
		}
	}
	used[src] = true
	dfs(src, 1)
	var geom, pw int64 = 0, 1
	for k := 1; k <= m.cfg.maxTTL+1; k++ {
		pw *= int64(m.cfg.alpha)
		geom += pw
		if geom > 1<<40 {
			break
		}
	}
	if geom < sp {
		sp = geom
	}
	return 3 * sp
}

func (m *monitor) checkBound(what string) {
	got := atomic.LoadInt64(&m.msgs)
	m.run.StatMax("max/messages_percent_of_allowance", got*100/max64(1, m.allowed))
	if got > m.allowed {
		m.c.Viol("discovery-message-bound-exceeded", fmt.Sprintf("%s: %d route messages so far, bound %d", what, got, m.allowed), m.witness(nil))
	}
}

func max64(a, b int64) int64 {
	if a > b {
		return a
	}
	return b
}

func (m *monitor) find(src, dst int, timeout time.Duration) bool {
	m.mu.Lock()
	m.log = append(m.log, fmt.Sprintf("find %d->%d", src, dst))
	m.allowed += m.allowanceFor(src)
	m.mu.Unlock()
	paths, err := m.net.Nodes[src].Svc.FindRoute(context.Background(), m.net.Nodes[dst].Overlay, timeout)
	m.run.Stat("findroute_calls", 1)
	if err != nil {
		return false
	}
	m.run.Stat("findroute_succeeded", 1)
	for _, p := range paths {
		m.checkPath("returned", src, p.Items)
		has := false
		for _, a := range p.Items {
			if a.Equal(m.net.Nodes[dst].Overlay) {
				has = true
			}
		}
		if has {
			m.run.Stat("returned_paths_containing_target", 1)
		}
	}
	return true
}

func dist(adj [][]bool, s int) []int {
	d := make([]int, len(adj))
	for i := range d {
		d[i] = -1
	}
	d[s] = 0
	q := []int{s}
	for len(q) > 0 {
		v := q[0]
		q = q[1:]
		for w := range adj {
			if adj[v][w] && d[w] < 0 {
				d[w] = d[v] + 1
				q = append(q, w)
			}
		}
	}
	return d
}

func genConfig(rng *rand.Rand, i int) cfg {
	c := cfg{nodes: 4 + rng.Intn(6)}
	c.maxTTL = []int{3, 5, 10}[i%3]
	c.alpha = []int{1, 2, 3}[(i/3)%3]
	c.dropP = []float64{0, 0, 0.1, 0.3}[rng.Intn(4)]
	c.maxDelay = []time.Duration{0, 300 * time.Microsecond, 3 * time.Millisecond}[rng.Intn(3)]
	n := c.nodes
	has := map[[2]int]bool{}
	add := func(a, b int) {
		if a == b {
			return
		}
		if a > b {
			a, b = b, a
		}
		if !has[[2]int{a, b}] {
			has[[2]int{a, b}] = true
			c.edges = append(c.edges, [2]int{a, b})
		}
	}
	perm := rng.Perm(n)
	switch k := rng.Intn(10); {
	case k == 0:
		c.kind = "line"
		for j := 1; j < n; j++ {
			add(perm[j-1], perm[j])
		}
	case k == 1:
		c.kind = "ring"
		for j := 0; j < n; j++ {
			add(perm[j], perm[(j+1)%n])
		}
	case k == 2:
		c.kind = "star+"
		for j := 1; j < n; j++ {
			add(perm[0], perm[j])
		}
		add(perm[1], perm[2])
	default:
		c.kind = "tree+"
		for j := 1; j < n; j++ {
			add(perm[j], perm[rng.Intn(j)])
		}
		q := []float64{0.1, 0.25, 0.5}[rng.Intn(3)]
		for a := 0; a < n; a++ {
			for b := a + 1; b < n; b++ {
				if rng.Float64() < q {
					add(a, b)
				}
			}
		}
	}
	sort.Slice(c.edges, func(x, y int) bool {
		if c.edges[x][0] != c.edges[y][0] {
			return c.edges[x][0] < c.edges[y][0]
		}
		return c.edges[x][1] < c.edges[y][1]
	})
	return c
}

var (
	poolOnce sync.Once
	idPool   []*rtsim.Identity
)

// identities builds (once per process) the pool of node identities networks draw from;
// it is a function of the seed only.
func identities(t *testing.T, run *obs.Run) []*rtsim.Identity {
	poolOnce.Do(func() {
		rng := run.RandFor("identities")
		for k := 0; k < 24; k++ {
			id, err := rtsim.NewIdentity(rng, k, 1)
			if err != nil {
				t.Fatalf("harness: identity: %v", err)
			}
			idPool = append(idPool, id)
		}
	})
	return idPool
}

func runNetwork(t *testing.T, run *obs.Run, i int) {
	// the configuration is a function of (seed, i) alone
	rng0 := run.RandFor(fmt.Sprintf("net/%d", i))
	cf := genConfig(rng0, i)
	c := run.Begin(fmt.Sprintf("net/%d", i), map[string]interface{}{"nodes": cf.nodes, "kind": cf.kind, "edges": fmt.Sprint(cf.edges),
		"maxTTL": cf.maxTTL, "alpha": cf.alpha, "drop": cf.dropP, "max_delay": cf.maxDelay.String()})
	if c == nil {
		return
	}
	rng := c.Rand()
	atomic.StoreInt32(&routetab.MaxTTL, int32(cf.maxTTL))
	routetab.NeighborAlpha = int32(cf.alpha)
	pool := identities(t, run)
	var ids []*rtsim.Identity
	for _, k := range rng.Perm(len(pool))[:cf.nodes] {
		ids = append(ids, pool[k])
	}
	net, err := rtsim.New(rng, rtsim.Options{Nodes: cf.nodes, NetworkID: 1, Alpha: int32(cf.alpha), Identities: ids})
	if err != nil {
		t.Fatalf("harness: build network: %v", err)
	}
	defer net.Close()
	for _, e := range cf.edges {
		if err := net.Link(e[0], e[1]); err != nil {
			t.Fatalf("harness: link: %v", err)
		}
	}
	m := &monitor{t: t, run: run, c: c, cfg: cf, net: net, orders: map[string]bool{}}
	for range net.Nodes {
		m.checked = append(m.checked, map[string]bool{})
	}
	net.Observe = m.observe
	net.OnDeliver = m.onDeliver
	var relayDelivered int64
	net.OnRelayDelivered = func(target int, last, src p2p.Peer) { atomic.AddInt64(&relayDelivered, 1) }
	net.OnNonNeighbour = func(from int, to boson.Address, stream string) {
		run.Stat("streams_attempted_to_non_neighbours", 1)
	}
	net.SetFaults(cf.dropP, cf.maxDelay)

	findTimeout := 250 * time.Millisecond
	pick := func(wantFar bool) (int, int) {
		for try := 0; try < 50; try++ {
			s, d := rng.Intn(cf.nodes), rng.Intn(cf.nodes)
			if s == d {
				continue
			}
			ds := dist(net.Adj, s)[d]
			switch {
			case ds == 1 && rng.Intn(8) != 0: // neighbours are rarely interesting
				continue
			case wantFar && ds < 2:
				continue
			}
			return s, d
		}
		return 0, 1
	}

	// phase 1: sequential discoveries
	nSeq := 5
	for k := 0; k < nSeq; k++ {
		s, d := pick(false)
		if m.find(s, d, findTimeout) {
			m.findOK++
		} else {
			m.findFail++
		}
		m.quiesce("FindRoute")
		m.closeOrder()
		m.checkBound("FindRoute")
		m.checkTables()
	}

	// phase 2: concurrent discoveries. The "a discovery for this target is running" marker of
	// FindRoute is a process-global cache (one process = one node in production), so in this
	// one-process network two different nodes never look for the same target at the same time;
	// one node asking twice for the same target at once is real and is exercised.
	{
		type job struct{ s, d int }
		var jobs []job
		usedT := map[int]bool{}
		s0, d0 := pick(true)
		jobs = append(jobs, job{s0, d0}, job{s0, d0})
		usedT[d0] = true
		for k := 0; k < 3; k++ {
			s, d := pick(false)
			if usedT[d] {
				continue
			}
			usedT[d] = true
			jobs = append(jobs, job{s, d})
		}
		var wg sync.WaitGroup
		for _, j := range jobs {
			wg.Add(1)
			go func(j job) {
				defer wg.Done()
				if m.find(j.s, j.d, findTimeout) {
					m.mu.Lock()
					m.findOK++
					m.mu.Unlock()
				} else {
					m.mu.Lock()
					m.findFail++
					m.mu.Unlock()
				}
			}(j)
		}
		wg.Wait()
		run.Stat("concurrent_findroute_batches", 1)
		m.quiesce("concurrent FindRoute batch")
		m.closeOrder()
		m.checkBound("concurrent FindRoute batch")
		m.checkTables()
	}

	// phase 3: relayed connections (sequential: relays may start nested discoveries)
	net.SetFaults(0, cf.maxDelay)
	restore := routetab.VerifSetFindTimeout(200 * time.Millisecond)
	for k := 0; k < 5; k++ {
		s, d := pick(true)
		m.mu.Lock()
		m.log = append(m.log, fmt.Sprintf("relay %d->%d", s, d))
		m.mu.Unlock()
		var res rtsim.RelayResult
		if k%2 == 1 {
			// first hop = a random neighbour of the origin (not the target), whatever the
			// origin's route table says: relays must cope with requests from any neighbour,
			// dead ends included
			var nb []int
			for _, e := range cf.edges {
				if e[0] == s && e[1] != d {
					nb = append(nb, e[1])
				}
				if e[1] == s && e[0] != d {
					nb = append(nb, e[0])
				}
			}
			if len(nb) > 0 {
				first := nb[rng.Intn(len(nb))]
				m.mu.Lock()
				m.log = append(m.log, fmt.Sprintf("  (first hop forced to %d)", first))
				m.mu.Unlock()
				res = net.RelayVia(s, d, first, 3*time.Second)
				run.Stat("relay_attempts_with_forced_first_hop", 1)
			} else {
				res = net.Relay(s, d, 3*time.Second)
			}
		} else {
			res = net.Relay(s, d, 3*time.Second)
		}
		run.Stat("relay_attempts", 1)
		if res.Delivered {
			m.relayOK++
			run.Stat("relay_connections_established", 1)
		} else {
			m.relayFail++
		}
		m.quiesce("relay")
		m.closeOrder()
		m.checkTables()
	}
	restore()
	run.Stat("relay_deliveries_at_target", atomic.LoadInt64(&relayDelivered))

	run.Stat("networks", 1)
	run.Stat("streams_opened", atomic.LoadInt64(&net.Streams))
	run.Stat("streams_lost", atomic.LoadInt64(&net.Dropped))
	run.Stat("streams_delivered", atomic.LoadInt64(&net.Delivered))
	run.Stat("recorded_paths_distinct_per_node", int64(m.recorded))
	if i < 2 {
		lg := m.log
		if len(lg) > 40 {
			lg = lg[:40]
		}
		run.Sample(map[string]interface{}{"nodes": cf.nodes, "edges": fmt.Sprint(cf.edges), "maxTTL": cf.maxTTL, "alpha": cf.alpha, "trace_head": lg})
	}
	cl := func(n int) string {
		switch {
		case n == 0:
			return "0"
		case n < 3:
			return "1-2"
		}
		return "3+"
	}
	loss := "none"
	if cf.dropP > 0 {
		loss = fmt.Sprint(cf.dropP)
	}
	shape := fmt.Sprintf("n=%d/e=%d/%s/ttl=%d/a=%d/loss=%s/delay=%s/ok=%s/fail=%s/relay=%s/maxlen=%d",
		cf.nodes, len(cf.edges), cf.kind, cf.maxTTL, cf.alpha, loss, cf.maxDelay, cl(m.findOK), cl(m.findFail), cl(m.relayOK), m.maxRecLen)
	c.End(shape, m.recorded > 0)
}

func runShard(t *testing.T, shard int) {
	run := obs.Start(t, "C28")
	defer run.Done()
	run.Rule("random connected topologies of 4..9 real routetab services (line, ring, star, random tree plus extra links), MaxTTL in {3,5,10} x alpha in {1,2,3}, stream loss 0/10/30 % and random delivery delays; per network 5 sequential FindRoute calls, one batch of concurrent ones, 5 relayed connections through onRelayConnChain; distinct = (size, links, kind, MaxTTL, alpha, loss, delay, how many discoveries/relays succeeded, longest recorded path); non-trivial = some node recorded a path",
		"all nodes are honest and the topology does not change while a network runs",
		"streams are only possible between linked nodes; a lost stream is accepted from the sender and never delivered",
		"the FindRoute in-progress marker is process-global, so two different nodes never search the same target concurrently here",
		"the originating side of a relayed connection (libp2p.Service.NewConnChainRelayStream, not compilable here) is reproduced by the harness: next hop from the real GetNextHopRandomOrFind, first message with Src/Dest and an empty Paths list",
		"termination is judged as: nothing in flight after the calls returned, and the number of route messages within 3 x min(simple paths from the source, sum alpha^k) per FindRoute call",
		"onRelay (virtual-stream relaying) needs libp2p internals and is not exercised; relaying is observed through onRelayConnChain")
	n := run.N(60, 600)
	for i := shard; i < n; i += 3 {
		runNetwork(t, run, i)
	}
}

// One test per MaxTTL value (network i uses MaxTTL {3,5,10}[i%3]); ./check runs them as
// parallel child processes, so the process-global MaxTTL never changes inside a process.
func TestDiscoveryTTL3(t *testing.T)  { runShard(t, 0) }
func TestDiscoveryTTL5(t *testing.T)  { runShard(t, 1) }
func TestDiscoveryTTL10(t *testing.T) { runShard(t, 2) }

// TestRelayRing is a fixed scenario for the relay clause: a ring 0-1-2-3-4-5-0, target 3,
// origin 0. After the three discoveries below node 0 knows the target through 1 and 5, and
// nodes 1 and 5 know it through 2 resp. 4 and - the long way round - through 0. Each relayed
// connection 0->3 therefore reaches a relay whose candidate next hops include the origin
// with probability 1/2; 24 attempts make the situation certain to be observed.
func TestRelayRing(t *testing.T) {
	run := obs.Start(t, "C28")
	defer run.Done()
	run.Rule("fixed ring of 6 and of 8 nodes, alpha 2, MaxTTL 10, no loss: discoveries origin->target and from both neighbours of the origin, then 24 relayed connections origin->target (opposite node)")
	for _, size := range []int{6, 8} {
		c := run.Begin(fmt.Sprintf("ring/%d", size), map[string]interface{}{"nodes": size, "kind": "ring", "maxTTL": 10, "alpha": 2})
		if c == nil {
			continue
		}
		cf := cfg{nodes: size, maxTTL: 10, alpha: 2, kind: "ring"}
		for j := 0; j < size; j++ {
			a, b := j, (j+1)%size
			if a > b {
				a, b = b, a
			}
			cf.edges = append(cf.edges, [2]int{a, b})
		}
		atomic.StoreInt32(&routetab.MaxTTL, int32(cf.maxTTL))
		routetab.NeighborAlpha = int32(cf.alpha)
		net, err := rtsim.New(c.Rand(), rtsim.Options{Nodes: size, NetworkID: 1, Alpha: int32(cf.alpha), Identities: identities(t, run)[:size]})
		if err != nil {
			t.Fatalf("harness: build network: %v", err)
		}
		for _, e := range cf.edges {
			if err := net.Link(e[0], e[1]); err != nil {
				t.Fatalf("harness: link: %v", err)
			}
		}
		m := &monitor{t: t, run: run, c: c, cfg: cf, net: net, orders: map[string]bool{}}
		for range net.Nodes {
			m.checked = append(m.checked, map[string]bool{})
		}
		net.Observe = m.observe
		net.OnDeliver = m.onDeliver
		target := size / 2
		for _, s := range []int{0, 1, size - 1} {
			if m.find(s, target, 2*time.Second) {
				run.Stat("ring_discoveries_succeeded", 1)
			}
			m.quiesce("FindRoute")
			m.closeOrder()
			m.checkBound("FindRoute")
			m.checkTables()
		}
		// does a neighbour of the origin hold the origin as a next hop for the target?
		for _, r := range []int{1, size - 1} {
			for _, h := range net.Nodes[r].Svc.VerifTable().GetNextHop(net.Nodes[target].Overlay) {
				if h.Equal(net.Nodes[0].Overlay) {
					run.Stat("ring_relays_knowing_target_through_origin", 1)
				}
			}
		}
		restore := routetab.VerifSetFindTimeout(200 * time.Millisecond)
		for k := 0; k < 24; k++ {
			m.mu.Lock()
			m.log = append(m.log, fmt.Sprintf("relay 0->%d", target))
			m.mu.Unlock()
			res := net.Relay(0, target, 3*time.Second)
			run.Stat("relay_attempts", 1)
			if res.Delivered {
				run.Stat("relay_connections_established", 1)
				run.Stat("ring_relays_delivered", 1)
			}
			m.quiesce("relay")
			m.closeOrder()
			m.checkTables()
		}
		restore()
		net.Close()
		c.End(fmt.Sprintf("ring/%d", size), true)
	}
}

// TestDiamond is a fixed scenario for the "distinct nodes" clause: two disjoint branches
// 0-1-3 and 0-2-3 join at node 3, the target 7 lies behind a tail 3-4-5-6-7. With alpha 2
// both branches ask node 3 for the target before the answer has come back along the tail,
// so node 3 holds two pending requesters when it forwards the response.
func TestDiamond(t *testing.T) {
	run := obs.Start(t, "C28")
	defer run.Done()
	run.Rule("fixed diamond-with-tail topology, alpha 2, MaxTTL 10, no loss: one discovery 0->7 and one 7->0, all tables checked")
	c := run.Begin("diamond", map[string]interface{}{"nodes": 8, "kind": "diamond+tail", "maxTTL": 10, "alpha": 2})
	if c == nil {
		return
	}
	cf := cfg{nodes: 8, maxTTL: 10, alpha: 2, kind: "diamond+tail",
		edges: [][2]int{{0, 1}, {0, 2}, {1, 3}, {2, 3}, {3, 4}, {4, 5}, {5, 6}, {6, 7}}}
	atomic.StoreInt32(&routetab.MaxTTL, int32(cf.maxTTL))
	routetab.NeighborAlpha = int32(cf.alpha)
	net, err := rtsim.New(c.Rand(), rtsim.Options{Nodes: cf.nodes, NetworkID: 1, Alpha: int32(cf.alpha), Identities: identities(t, run)[8:16]})
	if err != nil {
		t.Fatalf("harness: build network: %v", err)
	}
	defer net.Close()
	for _, e := range cf.edges {
		if err := net.Link(e[0], e[1]); err != nil {
			t.Fatalf("harness: link: %v", err)
		}
	}
	m := &monitor{t: t, run: run, c: c, cfg: cf, net: net, orders: map[string]bool{}}
	for range net.Nodes {
		m.checked = append(m.checked, map[string]bool{})
	}
	net.Observe = m.observe
	net.OnDeliver = m.onDeliver
	for _, p := range [][2]int{{0, 7}, {7, 0}} {
		if m.find(p[0], p[1], 2*time.Second) {
			run.Stat("diamond_discoveries_succeeded", 1)
		}
		m.quiesce("FindRoute")
		m.closeOrder()
		m.checkBound("FindRoute")
		m.checkTables()
	}
	c.End("diamond", m.recorded > 0)
}
