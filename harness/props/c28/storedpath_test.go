package c28

import (
	"context"
	"sync/atomic"
	"testing"
	"time"

	"github.com/gauss-project/aurorafs/pkg/crypto/bls"
	"github.com/gauss-project/aurorafs/pkg/p2p"
	"github.com/gauss-project/aurorafs/pkg/p2p/protobuf"
	"github.com/gauss-project/aurorafs/pkg/routetab"
	"github.com/gauss-project/aurorafs/pkg/routetab/pb"
	"verif/harness/internal/obs"
	"verif/harness/internal/rtsim"
)


// TestStoredPathAnswers hands every node of a ring the route responses its neighbours can
// legitimately send when they answer from their route tables: stored paths are request paths
// recorded in passing (origin first, every hop appended), so the first item can be ANY node,
// including the receiver. Whatever the receiver does with them, the paths it then holds must
// not contain itself.
func TestStoredPathAnswers(t *testing.T) {
	run := obs.Start(t, "C28")
	defer run.Done()
	run.Rule("ring of 6 real routetab services, MaxTTL 10: each node receives, from each of its two neighbours, responses carrying the correctly signed request path that started at the receiver (or at another node) and went round the ring to that neighbour, for every rotation and length 2..6; afterwards all tables are checked (distinct nodes, real links, hop limit, recording node absent)")
	for _, ring := range []int{5, 6} {
		c := run.Begin("stored-path-answers/ring"+string(rune('0'+ring)), map[string]interface{}{"nodes": ring, "kind": "ring", "maxTTL": 10})
		if c == nil {
			continue
		}
		cf := cfg{nodes: ring, maxTTL: 10, alpha: 2, kind: "ring"}
		for i := 0; i < ring; i++ {
			cf.edges = append(cf.edges, [2]int{i, (i + 1) % ring})
		}
		atomic.StoreInt32(&routetab.MaxTTL, int32(cf.maxTTL))
		routetab.NeighborAlpha = int32(cf.alpha)
		net, err := rtsim.New(c.Rand(), rtsim.Options{Nodes: cf.nodes, NetworkID: 1, Alpha: int32(cf.alpha), Identities: identities(t, run)[16 : 16+ring]})
		if err != nil {
			t.Fatalf("harness: build network: %v", err)
		}
		for _, e := range cf.edges {
			if err := net.Link(e[0], e[1]); err != nil {
				t.Fatalf("harness: link: %v", err)
			}
		}
		m := &monitor{t: t, run: run, c: c, cfg: cf, net: net, orders: map[string]bool{}}
		for range net.Nodes {
			m.checked = append(m.checked, map[string]bool{})
		}
		net.Observe = m.observe
		net.OnDeliver = m.onDeliver
		body := []byte("1700000000")
		for recv := 0; recv < ring; recv++ {
			for _, dir := range []int{1, -1} {
				for start := 0; start < ring; start++ {
					// the request path of a lookup by `start` travelling in direction dir
					var sign []byte
					var bodys, items [][]byte
					for k := 0; k < ring; k++ {
						n := ((start+dir*k)%ring + ring) % ring
						if k == 0 {
							sign = bls.Sign(body)
						} else {
							sign = bls.Sign(body, sign)
						}
						bodys = append(bodys, body)
						items = append(items, net.Nodes[n].Overlay.Bytes())
						last := n
						// delivered by `last` to its neighbour `recv` (the next node in direction dir)
						if k == 0 || ((last+dir)%ring+ring)%ring != recv {
							continue
						}
						resp := &pb.RouteResp{Dest: items[len(items)/2], Paths: []*pb.Path{{Sign: sign, Bodys: append([][]byte{}, bodys...), Items: append([][]byte{}, items...)}}}
						a, b := rtsim.Pipe(nil)
						go func() {
							_ = protobuf.NewWriter(a).WriteMsgWithContext(context.Background(), resp)
							_ = a.Close()
						}()
						ctx, cancel := context.WithTimeout(net.Context(), 5*time.Second)
						_ = net.Nodes[recv].Handler("onRouteResp")(ctx, p2p.Peer{Address: net.Nodes[last].Overlay}, b)
						cancel()
						run.Stat("stored_path_answers_delivered", 1)
						if start == recv {
							run.Stat("stored_path_answers_headed_by_receiver", 1)
						}
					}
				}
			}
		}
		m.quiesce("stored-path answers")
		m.checkTables()
		net.Close()
		c.End("stored-path-answers", m.recorded > 0)
	}
}
