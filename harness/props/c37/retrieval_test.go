package c37

import (
	"context"
	"encoding/binary"
	"fmt"
	"math/rand"
	"testing"
	"time"

	"github.com/gauss-project/aurorafs/pkg/boson"
	"github.com/gauss-project/aurorafs/pkg/crypto"
	"github.com/gauss-project/aurorafs/pkg/file/joiner"
	"github.com/gauss-project/aurorafs/pkg/netstore"
	"github.com/gauss-project/aurorafs/pkg/retrieval"
	"github.com/gauss-project/aurorafs/pkg/retrieval/aco"
	retrievalpb "github.com/gauss-project/aurorafs/pkg/retrieval/pb"
	"github.com/gauss-project/aurorafs/pkg/sctx"
	"github.com/gauss-project/aurorafs/pkg/storage"
	"github.com/gauss-project/aurorafs/pkg/subscribe"
	"github.com/gogo/protobuf/proto"
	"verif/harness/internal/obs"
	"verif/harness/internal/pbench"
)

const chunkSize = 262144

// splitFrames cuts a byte string into the payloads of its well-formed frames (stops at
// the first malformed one).
func splitFrames(b []byte) [][]byte {
	var out [][]byte
	for len(b) > 0 {
		l, n := binary.Uvarint(b)
		if n <= 0 || l > uint64(len(b)-n) {
			break
		}
		out = append(out, b[n:n+int(l)])
		b = b[n+int(l):]
	}
	return out
}

func TestRetrieval(t *testing.T) {
	run := obs.Start(t, prop)
	defer run.Done()
	run.Rule(genRule+"; retrieval.join: a file tree published by a hostile peer (every chunk a valid content-addressed chunk, but spans / reference data inconsistent) is fetched chunk by chunk through the real retrieval client and netstore and read through the real joiner", genAssume...)
	gen := run.RandFor("gen/retrieval")
	self := boson.NewAddress(rnd(gen, 32))
	remote := boson.NewAddress(rnd(gen, 32))
	other := boson.NewAddress(rnd(gen, 32))
	root := boson.NewAddress(rnd(gen, 32))
	haveAddr, havePayload := pbench.Leaf(rnd(gen, 100))

	type node struct {
		svc   *retrieval.Service
		store *pbench.Store
		str   *pbench.Streamer
		ci    *pbench.ChunkInfo
	}
	newNode := func(reply []byte) *node {
		str := pbench.NewStreamer(pbench.FixedReply(reply))
		st := pbench.NewStore()
		st.Seed(haveAddr, havePayload)
		ci := &pbench.ChunkInfo{Routes: []aco.Route{aco.NewRoute(remote, remote)}}
		svc := retrieval.New(self, str, &pbench.Route{Neighbor: true}, st, true, pbench.Log(), nil, pbench.Accounting{}, subscribe.NewSubPub())
		svc.Config(ci)
		return &node{svc, st, str, ci}
	}

	// ---- server: handler ---------------------------------------------------------------
	var reqs []in
	addReq := func(class string, r *retrievalpb.RequestChunk) { reqs = append(reqs, in{class, pbench.Frame(r)}) }
	addReq("req-empty", &retrievalpb.RequestChunk{})
	addReq("req-present-target-self", &retrievalpb.RequestChunk{TargetAddr: self.Bytes(), RootAddr: root.Bytes(), ChunkAddr: haveAddr})
	addReq("req-present-target-other", &retrievalpb.RequestChunk{TargetAddr: other.Bytes(), RootAddr: root.Bytes(), ChunkAddr: haveAddr})
	addReq("req-absent-target-self", &retrievalpb.RequestChunk{TargetAddr: self.Bytes(), RootAddr: root.Bytes(), ChunkAddr: rnd(gen, 32)})
	addReq("req-absent-target-other", &retrievalpb.RequestChunk{TargetAddr: other.Bytes(), RootAddr: root.Bytes(), ChunkAddr: rnd(gen, 32)})
	addReq("req-absent-no-target", &retrievalpb.RequestChunk{RootAddr: root.Bytes(), ChunkAddr: rnd(gen, 32)})
	for _, nb := range pbench.Addrs(gen) {
		addReq("req-chunkaddr-"+nb.Name, &retrievalpb.RequestChunk{TargetAddr: other.Bytes(), RootAddr: root.Bytes(), ChunkAddr: nb.B})
		addReq("req-target-"+nb.Name, &retrievalpb.RequestChunk{TargetAddr: nb.B, RootAddr: root.Bytes(), ChunkAddr: rnd(gen, 32)})
		addReq("req-root-"+nb.Name, &retrievalpb.RequestChunk{TargetAddr: self.Bytes(), RootAddr: nb.B, ChunkAddr: haveAddr})
	}
	reqs = append(reqs, in{"req-fields-as-varint", (&pbench.PB{}).Varint(1, 1).Varint(2, 2).Varint(3, 3).Framed()})
	// the forwarded request is answered by the next hop with these deliveries
	fwdReplies := []in{
		{"fwd-reply-empty-delivery", pbench.Frame(&retrievalpb.Delivery{})},
		{"fwd-reply-short", pbench.Frame(&retrievalpb.Delivery{Data: rnd(gen, 5)})},
		{"fwd-reply-garbage", rnd(gen, 40)},
		{"fwd-reply-valid-other-chunk", pbench.Frame(&retrievalpb.Delivery{Data: havePayload})},
	}
	for _, fr := range append([]in{{"fwd-no-reply", nil}}, fwdReplies...) {
		fr := fr
		name := "retrieval.handler"
		if fr.b != nil {
			name = "retrieval.handler+" + fr.class
		}
		nm := run.N(40, 400)
		if fr.b != nil {
			nm = run.N(8, 80)
		}
		runEndpoint(t, run, endpoint{
			name:       name,
			valid:      [][]byte{pbench.Frame(&retrievalpb.RequestChunk{TargetAddr: self.Bytes(), RootAddr: root.Bytes(), ChunkAddr: haveAddr}), pbench.Frame(&retrievalpb.RequestChunk{TargetAddr: other.Bytes(), RootAddr: root.Bytes(), ChunkAddr: rnd(gen, 32)})},
			structured: reqs,
			noRaw:      fr.b != nil,
			drive: func(b []byte, step stepFn) error {
				n := newNode(fr.b)
				h := handlerOf(t, n.svc.Protocol(), "retrieval")
				ctx, cancel := context.WithTimeout(context.Background(), 30*time.Second)
				defer cancel()
				return h(ctx, fullPeer(remote), pbench.NewStream(b))
			},
		}, nm)
	}

	// ---- client: delivery read by RetrieveChunk ------------------------------------------
	key, _ := crypto.GenerateSecp256k1Key()
	socAddr, socData := pbench.SOC(key, rnd(gen, 32), 11, rnd(gen, 11))
	var dels []in
	addDel := func(class string, d []byte) {
		dels = append(dels, in{class, pbench.Frame(&retrievalpb.Delivery{Data: d})})
	}
	for _, l := range []int{0, 1, 7, 8, 9, 40, 96, 104, 105, 106, 137, 4104} {
		addDel(fmt.Sprintf("delivery-random-len%d", l), rnd(gen, l))
	}
	addDel("delivery-valid-cac-other-address", havePayload)
	addDel("delivery-soc-shaped-zero-signature", pbench.Cat(rnd(gen, 32), make([]byte, 65), havePayload))
	addDel("delivery-soc-valid-for-other-address", socData)
	addDel("delivery-soc-wrapped-too-large", pbench.Cat(rnd(gen, 32), rnd(gen, 65), make([]byte, chunkSize+9)))
	addDel("delivery-soc-wrapped-exact-max", pbench.Cat(rnd(gen, 32), rnd(gen, 65), make([]byte, chunkSize+8)))
	for _, v := range []byte{0, 27, 28, 29, 30, 31, 34, 35, 255} {
		s := append([]byte(nil), socData...)
		s[32+64] = v
		addDel("delivery-soc-v-byte", s)
	}
	addDel("delivery-chunksize+8", make([]byte, chunkSize+8))
	addDel("delivery-chunksize+9", make([]byte, chunkSize+9))
	addDel("delivery-1MiB-64", make([]byte, pbench.MaxFrame-64))
	dels = append(dels, in{"delivery-data-as-varint", (&pbench.PB{}).Varint(1, 99).Framed()})
	dels = append(dels, in{"delivery-two-data-fields", (&pbench.PB{}).Bytes(1, havePayload[:50]).Bytes(1, havePayload[50:]).Framed()})
	for _, want := range []struct {
		name string
		addr []byte
		ok   []byte
	}{{"retrieval.delivery", haveAddr, havePayload}, {"retrieval.delivery+soc-address", socAddr, socData}} {
		want := want
		runEndpoint(t, run, endpoint{
			name:       want.name,
			valid:      [][]byte{pbench.Frame(&retrievalpb.Delivery{Data: want.ok})},
			structured: dels,
			drive: func(b []byte, step stepFn) error {
				n := newNode(b)
				ctx, cancel := context.WithTimeout(context.Background(), 30*time.Second)
				defer cancel()
				ch, err := n.svc.RetrieveChunk(ctx, root, boson.NewAddress(want.addr))
				if err != nil {
					return err
				}
				// later local use: the stored chunk is read back and joined
				ns := netstore.New(n.store, n.svc, pbench.Log(), self)
				ns.SetChunkInfo(n.ci)
				if want.name == "retrieval.delivery" { // a single-owner chunk is not a file reference
					readTree(sctx.SetRootHash(ctx, root), ns, ch.Address(), step)
				}
				_ = n.svc.GetRouteScore(time.Now().Unix())
				return nil
			},
		}, run.N(40, 400))
	}

}

// TestRetrievalJoin: a hostile file tree fetched through retrieval and joined (later
// local use of what the deliveries stored).
func TestRetrievalJoin(t *testing.T) {
	run := obs.Start(t, prop)
	defer run.Done()
	run.Rule("retrieval.join: a file tree published by a hostile peer (every chunk a valid content-addressed chunk, but spans / reference data inconsistent: unaligned or missing reference data, spans smaller / larger than the data, children larger than their slot, spans up to 2^64-1) is fetched chunk by chunk through the real retrieval client and netstore and read through the real joiner (address iteration, Read, ReadAt, Seek); distinct = (tree class, outcome)", genAssume...)
	gen := run.RandFor("gen/retrieval-join")
	self := boson.NewAddress(rnd(gen, 32))
	remote := boson.NewAddress(rnd(gen, 32))
	type node struct {
		svc   *retrieval.Service
		store *pbench.Store
		str   *pbench.Streamer
		ci    *pbench.ChunkInfo
	}
	newNode := func(reply []byte) *node {
		str := pbench.NewStreamer(pbench.FixedReply(reply))
		st := pbench.NewStore()
		ci := &pbench.ChunkInfo{Routes: []aco.Route{aco.NewRoute(remote, remote)}}
		svc := retrieval.New(self, str, &pbench.Route{Neighbor: true}, st, true, pbench.Log(), nil, pbench.Accounting{}, subscribe.NewSubPub())
		svc.Config(ci)
		return &node{svc, st, str, ci}
	}
	var trees []in
	for _, tr := range hostileTrees(gen) {
		// these three crash at the same place as "tree-root-span-2^44-one-ref": thorough only
		if !run.Thorough() && (tr.class == "tree-child-is-root-cycle-free-self-similar" || tr.class == "tree-root-span-2^31-one-ref" || tr.class == "tree-root-span-2^56-one-ref") {
			continue
		}
		trees = append(trees, tr)
	}
	for i := 0; i < run.N(0, 150); i++ {
		trees = append(trees, in{"tree-random", randomTree(gen)})
	}
	// last (a hung call keeps spinning until the process ends): the branching computation
	// of the joiner does not terminate for spans in (2^57, 2^63)
	// and for reference data shorter than one reference under a span larger than the data
	{
		la, lp := pbench.Leaf(rnd(gen, chunkSize))
		trees = append(trees, in{"tree-root-refs-unaligned-31", frameChunk(2*chunkSize, rnd(gen, 31))})
		if run.Thorough() {
			trees = append(trees, in{"tree-root-span-2^58-one-ref", pbench.Cat(frameChunk(1<<58, la), pbench.FrameBytes(lp))})
		}
	}
	runEndpoint(t, run, endpoint{
		name:       "retrieval.join",
		structured: trees,
		noRaw:      true,
		drive: func(b []byte, step stepFn) error {
			chunks := map[string][]byte{}
			var rootAddr []byte
			for i, p := range splitFrames(b) {
				if len(p) < 8 || len(p) > chunkSize+8 {
					continue
				}
				a, _ := pbench.CAC(binary.LittleEndian.Uint64(p[:8]), p[8:])
				chunks[string(a)] = p
				if i == 0 {
					rootAddr = a
				}
			}
			if rootAddr == nil {
				return fmt.Errorf("no root")
			}
			n := newNode(nil)
			n.str.Lazy = func(_ boson.Address, _, _ string, written []byte) []byte {
				fr := splitFrames(written)
				if len(fr) == 0 {
					return nil
				}
				var req retrievalpb.RequestChunk
				if proto.Unmarshal(fr[0], &req) != nil {
					return nil
				}
				p, ok := chunks[string(req.ChunkAddr)]
				if !ok {
					return nil
				}
				return pbench.Frame(&retrievalpb.Delivery{Data: p})
			}
			ns := netstore.New(n.store, n.svc, pbench.Log(), self)
			ns.SetChunkInfo(n.ci)
			ctx, cancel := context.WithTimeout(context.Background(), 30*time.Second)
			defer cancel()
			ra := boson.NewAddress(rootAddr)
			return readTree(sctx.SetRootHash(ctx, ra), ns, ra, step)
		},
	}, 0)
}

// readTree is what a local download does with a reference: joiner over the store,
// address iteration, reads at the start, in the middle and at the end, and a seek.
func readTree(ctx context.Context, g storage.Getter, ref boson.Address, step stepFn) error {
	j, span, err := joiner.New(ctx, g, storage.ModeGetRequest, ref)
	if err != nil {
		return err
	}
	step("joiner.IterateChunkAddresses", func() { err = j.IterateChunkAddresses(func(boson.Address) error { return nil }) })
	buf := make([]byte, chunkSize)
	step("joiner.Read", func() {
		for i := 0; i < 3; i++ {
			n, e := j.Read(buf)
			if e != nil || n == 0 {
				break
			}
		}
	})
	if span > 0 {
		step("joiner.ReadAt(span/2)", func() { _, _ = j.ReadAt(buf, span/2) })
		step("joiner.ReadAt(span-1)", func() { _, _ = j.ReadAt(buf[:100], span-1) })
		step("joiner.Seek+Read", func() {
			_, _ = j.Seek(1, 2)
			_, _ = j.Read(buf)
		})
	}
	return err
}

func frameChunk(span uint64, data []byte) []byte {
	_, p := pbench.CAC(span, data)
	return pbench.FrameBytes(p)
}

// hostileTrees are file trees whose chunks are all valid content-addressed chunks (the
// publisher computes the hashes) but whose spans and reference data are inconsistent.
// The first frame is the root.
func hostileTrees(rng *rand.Rand) []in {
	var out []in
	leafA, leafP := pbench.Leaf(rnd(rng, 500))
	leaf2A, leaf2P := pbench.Leaf(rnd(rng, chunkSize))
	add := func(class string, frames ...[]byte) { out = append(out, in{class, pbench.Cat(frames...)}) }
	add("tree-single-leaf", pbench.FrameBytes(leafP))
	add("tree-honest-two-leaves", frameChunk(chunkSize+500, pbench.Cat(leaf2A, leafA)), pbench.FrameBytes(leaf2P), pbench.FrameBytes(leafP))
	add("tree-root-span-zero-with-data", frameChunk(0, rnd(rng, 64)))
	add("tree-root-span-less-than-data", frameChunk(10, rnd(rng, 64)))
	add("tree-root-span-exceeds-leaf-data", frameChunk(501, rnd(rng, 500)))
	add("tree-root-refs-unaligned-33", frameChunk(2*chunkSize, pbench.Cat(leaf2A, []byte{1})), pbench.FrameBytes(leaf2P))
	add("tree-root-refs-unaligned-65", frameChunk(3*chunkSize, pbench.Cat(leaf2A, leaf2A, []byte{1})), pbench.FrameBytes(leaf2P))
	add("tree-root-refs-unaligned-4095", frameChunk(200*chunkSize, rnd(rng, 4095)))
	add("tree-root-no-refs-large-span", frameChunk(5*chunkSize, nil))
	add("tree-root-one-ref-span-3-chunks", frameChunk(3*chunkSize, leaf2A), pbench.FrameBytes(leaf2P))
	add("tree-root-many-refs-small-span", frameChunk(chunkSize+1, pbench.Cat(leaf2A, leafA, leafA, leafA, leafA)), pbench.FrameBytes(leaf2P), pbench.FrameBytes(leafP))
	add("tree-child-span-larger-than-parent-slot", frameChunk(2*chunkSize, pbench.Cat(leaf2A, mustAddr(frameRaw(5*chunkSize, leaf2A)))), pbench.FrameBytes(leaf2P), frameChunk(5*chunkSize, leaf2A))
	add("tree-child-missing", frameChunk(2*chunkSize, pbench.Cat(leaf2A, rnd(rng, 32))), pbench.FrameBytes(leaf2P))
	add("tree-child-is-root-cycle-free-self-similar", frameChunk(8192*chunkSize+1, pbench.Cat(leaf2A, leaf2A)), pbench.FrameBytes(leaf2P))
	// two levels: the intermediate child has unaligned reference data (reached in a
	// goroutine of the joiner, not in the caller)
	midP := frameRaw(2*chunkSize, pbench.Cat(leaf2A, []byte{9, 9, 9}))
	midA := mustAddr(midP)
	add("tree-level2-child-refs-unaligned", frameChunk(8192*chunkSize+2*chunkSize, pbench.Cat(midA, midA)), pbench.FrameBytes(midP), pbench.FrameBytes(leaf2P))
	mid2P := frameRaw(2*chunkSize, nil)
	add("tree-level2-child-no-refs", frameChunk(8192*chunkSize+2*chunkSize, pbench.Cat(mustAddr(mid2P), mustAddr(mid2P))), pbench.FrameBytes(mid2P))
	mid3P := frameRaw(3, rnd(rng, 3))
	add("tree-level2-child-is-tiny-leaf", frameChunk(8192*chunkSize+2*chunkSize, pbench.Cat(mustAddr(mid3P), mustAddr(mid3P))), pbench.FrameBytes(mid3P))
	for _, sp := range []uint64{1 << 31, 1 << 44, 1 << 56, 1 << 63, ^uint64(0)} {
		add(fmt.Sprintf("tree-root-span-2^%d-one-ref", bitlen(sp)), frameChunk(sp, leaf2A), pbench.FrameBytes(leaf2P))
	}
	return out
}

func bitlen(v uint64) int {
	n := 0
	for v > 1 {
		v >>= 1
		n++
	}
	return n
}

func frameRaw(span uint64, data []byte) []byte {
	_, p := pbench.CAC(span, data)
	return p
}

func mustAddr(payload []byte) []byte {
	a, _ := pbench.CAC(binary.LittleEndian.Uint64(payload[:8]), payload[8:])
	return a
}

// randomTree draws a small tree with random spans and reference-data lengths; spans stay
// below 2^56 (the endless-loop range has its own deterministic case).
func randomTree(rng *rand.Rand) []byte {
	leafA, leafP := pbench.Leaf(rnd(rng, 1+rng.Intn(300)))
	spanOf := func() uint64 {
		switch rng.Intn(5) {
		case 0:
			return uint64(rng.Intn(1000))
		case 1:
			return uint64(chunkSize) * uint64(1+rng.Intn(20))
		case 2:
			return uint64(chunkSize)*uint64(rng.Intn(9000)) + uint64(rng.Intn(chunkSize))
		case 3:
			return uint64(rng.Int63n(1 << 40))
		default:
			return uint64(rng.Int63n(1 << 55))
		}
	}
	refs := func(children ...[]byte) []byte {
		var d []byte
		n := rng.Intn(6)
		for i := 0; i < n; i++ {
			switch {
			case len(children) > 0 && rng.Intn(2) == 0:
				d = append(d, children[rng.Intn(len(children))]...)
			case rng.Intn(3) == 0:
				d = append(d, rnd(rng, 32)...)
			default:
				d = append(d, leafA...)
			}
		}
		if rng.Intn(2) == 0 && len(d) >= 32 { // shorter than one reference: endless loop, has its own case
			d = append(d, rnd(rng, 1+rng.Intn(40))...)
		}
		return d
	}
	midP := frameRaw(spanOf(), refs())
	rootP := frameRaw(spanOf(), refs(mustAddr(midP)))
	return pbench.Cat(pbench.FrameBytes(rootP), pbench.FrameBytes(midP), pbench.FrameBytes(leafP))
}
