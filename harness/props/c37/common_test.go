// Package c37 is the protocol bench for property C37: no byte sequence sent by a remote
// peer makes the node panic, on any stream handler or client read, including later local
// use of the state a message created.
package c37

import (
	"encoding/hex"
	"fmt"
	"math/rand"
	"os"
	"runtime"
	"strings"
	"sync"
	"testing"
	"time"

	"verif/harness/internal/obs"
	"verif/harness/internal/pbench"
)

const prop = "C37"

// in is one hostile input of an endpoint.
type in struct {
	class string // generator class (part of the shape key)
	b     []byte // what the remote peer sends on the stream, in order
}

// endpoint describes one server-side handler or client-side read.
type endpoint struct {
	name string
	// valid inputs (well-formed exchanges) that mutations start from
	valid [][]byte
	// structured inputs: well-framed messages built field by field (class (b))
	structured []in
	// drive runs the real code on a fresh service with the peer's bytes; the returned
	// error is the handler / client error (fine). It must not leave goroutines that
	// read further input.
	// Follow-up local calls are wrapped in step(name, f) so that a panic in one of them
	// is recorded without hiding the others.
	drive func(b []byte, step stepFn) error
	// raw: include the raw framing-level inputs (class (a))
	noRaw bool
	// early inputs run first: inputs known to crash the unchanged tree in a goroutine of
	// the service (the child process dies and is restarted with the case skipped, so the
	// earlier they come the less is re-run)
	early []in
	// late inputs run after the mutations (inputs known to hang the unchanged tree: a hung
	// call keeps spinning until the process ends)
	late []in
}

// stepFn runs one follow-up call under its own recover.
type stepFn func(name string, f func())

type stepPanic struct {
	step string
	pi   *pbench.PanicInfo
}

func hexCap(b []byte) string {
	const max = 768
	if len(b) <= max {
		return hex.EncodeToString(b)
	}
	return hex.EncodeToString(b[:max]) + fmt.Sprintf("..(%d bytes)", len(b))
}

// runEndpoint generates the inputs of one endpoint and drives them one case at a time.
// Case ids are "<endpoint>/<n>"; the input is logged by Begin before the real code
// runs, so a crash in a background goroutine is attributed to it by ./check.
func runEndpoint(t *testing.T, run *obs.Run, ep endpoint, nMut int) {
	t.Helper()
	gen := run.RandFor("gen/" + ep.name)
	cases := append([]in(nil), ep.early...)
	if !ep.noRaw {
		for _, r := range pbench.RawHostile(gen) {
			cases = append(cases, in{r.Name, r.B})
		}
	}
	for _, v := range ep.valid {
		cases = append(cases, in{"valid", v})
	}
	cases = append(cases, ep.structured...)
	for i := 0; i < nMut && len(ep.valid) > 0; i++ {
		cl, b := pbench.Mutate(gen, ep.valid[gen.Intn(len(ep.valid))])
		cases = append(cases, in{cl, b})
	}
	cases = append(cases, ep.late...)
	hangs := 0
	t0 := time.Now()
	defer func() { run.Stat("wall_ms/"+ep.name, int64(time.Since(t0)/time.Millisecond)) }()
	for i, ic := range cases {
		if hangs >= 1 {
			// every hung call keeps a core spinning until the process ends
			run.Stat("cases_skipped_after_a_hang", 1)
			continue
		}
		c := run.Begin(fmt.Sprintf("%s/%d", ep.name, i), map[string]interface{}{
			"endpoint": ep.name, "class": ic.class, "len": len(ic.b), "input_hex": hexCap(ic.b)})
		if c == nil {
			continue
		}
		var err error
		var pi *pbench.PanicInfo
		var subMu sync.Mutex
		var subs []stepPanic
		step := func(name string, f func()) {
			if p := pbench.Guard(f); p != nil {
				subMu.Lock()
				subs = append(subs, stepPanic{name, p})
				subMu.Unlock()
			}
		}
		// the call runs in its own goroutine (under recover) so that an endless loop on
		// hostile input cannot stall the run; the bound is far above any finite case
		done := make(chan struct{})
		go func() {
			defer close(done)
			b := ic.b
			var e error
			p := pbench.Guard(func() { e = ep.drive(b, step) })
			err, pi = e, p
		}()
		hung := false
		tc := time.Now()
		select {
		case <-done:
		case <-time.After(hangBound):
			// not an oracle of timing: on a loaded machine a finite case may be slow, so the
			// verdict "endless" is only given when the call is still running after a further,
			// much longer wait
			run.Stat("cases_over_hang_bound_given_more_time", 1)
			select {
			case <-done:
			case <-time.After(hangGrace):
				hung = true
			}
		}
		if d := time.Since(tc); d > 1500*time.Millisecond {
			run.Stat("slow_cases_over_1500ms", 1)
			if os.Getenv("C37_DEBUG") != "" {
				fmt.Fprintf(os.Stderr, "SLOW %s/%d %s %s\n", ep.name, i, ic.class, d)
			}
		}
		pbench.Settle()
		outcome := "ok"
		switch {
		case hung:
			outcome = "hang"
			hangs++
			run.Stat("hangs", 1)
			c.Viol("hang-"+ep.name,
				fmt.Sprintf("%s did not return within %s on peer input (%s): endless loop", ep.name, hangBound+hangGrace, ic.class),
				map[string]interface{}{"endpoint": ep.name, "class": ic.class, "input_hex": hexCap(ic.b), "stacks": repoStacks()})
		case pi != nil && pi.Harness:
			t.Fatalf("harness fault in %s case %d (%s): %s at %s\n%v", ep.name, i, ic.class, pi.Value, pi.Site, pi.Stack)
		case pi != nil:
			outcome = "panic"
			run.Stat("panics_recovered", 1)
			c.Viol("panic-"+ep.name+"-"+pi.Site,
				fmt.Sprintf("%s panicked on peer input (%s): %s", ep.name, ic.class, pi.Value),
				map[string]interface{}{"endpoint": ep.name, "class": ic.class, "input_hex": hexCap(ic.b),
					"panic": pi.Value, "site": pi.Site, "stack": pi.Stack})
		case err != nil:
			outcome = "err"
			run.Stat("calls_returned_error", 1)
		default:
			run.Stat("calls_returned_ok", 1)
		}
		subMu.Lock()
		for _, sp := range subs {
			if sp.pi.Harness {
				t.Fatalf("harness fault in %s case %d step %s: %s at %s\n%v", ep.name, i, sp.step, sp.pi.Value, sp.pi.Site, sp.pi.Stack)
			}
			outcome = "panic"
			run.Stat("panics_recovered", 1)
			c.Viol("panic-"+ep.name+"-"+sp.pi.Site,
				fmt.Sprintf("%s: follow-up %s panicked after peer input (%s): %s", ep.name, sp.step, ic.class, sp.pi.Value),
				map[string]interface{}{"endpoint": ep.name, "class": ic.class, "step": sp.step, "input_hex": hexCap(ic.b),
					"panic": sp.pi.Value, "site": sp.pi.Site, "stack": sp.pi.Stack})
		}
		subMu.Unlock()
		run.Stat("cases/"+ep.name, 1)
		run.Stat("cases_total", 1)
		if i < 1 {
			run.Sample(map[string]interface{}{"endpoint": ep.name, "class": ic.class, "input_hex": hexCap(ic.b), "outcome": outcome})
		}
		c.End(ep.name+"|"+ic.class+"|"+outcome, true)
	}
	run.Stat("endpoints", 1)
}

// hangBound is the liveness bound of one case (not an oracle of timing: every finite
// case of this bench takes milliseconds to a few seconds).
const hangBound = 15 * time.Second

// hangGrace is the additional time a case gets before it is called endless.
const hangGrace = 90 * time.Second

// repoStacks lists the running goroutines that are inside repository code (for the
// witness of a hang).
func repoStacks() []string {
	buf := make([]byte, 4<<20)
	buf = buf[:runtime.Stack(buf, true)]
	var out []string
	for _, g := range strings.Split(string(buf), "\n\n") {
		if !strings.Contains(g, "[running]") && !strings.Contains(g, "[runnable]") {
			continue
		}
		if !strings.Contains(g, "gauss-project/aurorafs/pkg/") {
			continue
		}
		if len(g) > 1500 {
			g = g[:1500]
		}
		out = append(out, g)
		if len(out) >= 3 {
			break
		}
	}
	return out
}

func rnd(rng *rand.Rand, n int) []byte {
	b := make([]byte, n)
	rng.Read(b)
	return b
}

const genRule = "per endpoint: (a) 16 raw framing-level inputs (empty, bad/unterminated varint, length > 1 MiB, truncated frame, random payloads, group wire types, 1 MiB frame); " +
	"(b) well-framed messages built field by field (each field absent / empty / wrong length 0,1,31,33,64 / oversized, nested messages absent or empty, wrong wire types, repeated and duplicate entries, non-hex map keys, bit vectors shorter / longer than the pyramid, JSON cheques with null / missing numbers); " +
	"(c) seeded byte mutations of valid exchanges (bit flips, truncation, insertion, deletion, span duplication, re-framed payload damage). " +
	"Each case drives the real handler (or the real client call against a scripted reply) on a fresh service instance, then the follow-up local calls that read the state the message created. " +
	"distinct = (endpoint, input class, outcome ok/err/panic)"

var genAssume = []string{
	"the libp2p host below p2p.Stream / p2p.Streamer is replaced by an in-memory stream that delivers the peer's bytes and then EOF",
	"collaborators that are not the protocol under test (route table, accounting, chain, kademlia peers) are stubs or fresh real instances; peer identity (p2p.Peer.Address) is a well-formed 32-byte overlay as the host guarantees after the handshake",
	"a panic counts wherever it happens: in the handler goroutine (recovered, key panic-<endpoint>-<site>) or in a goroutine the handler started (child crash, key crash/<site>@<test>/<endpoint>)",
}
