// Package c37 is the protocol bench for property C37: no byte sequence sent by a remote
// peer makes the node panic, on any stream handler or client read, including later local
// use of the state a message created.
package c37

import (
	"encoding/hex"
	"fmt"
	"math/rand"
	"testing"

	"verif/harness/internal/obs"
	"verif/harness/internal/pbench"
)

const prop = "C37"

// in is one hostile input of an endpoint.
type in struct {
	class string // generator class (part of the shape key)
	b     []byte // what the remote peer sends on the stream, in order
}

// endpoint describes one server-side handler or client-side read.
type endpoint struct {
	name string
	// valid inputs (well-formed exchanges) that mutations start from
	valid [][]byte
	// structured inputs: well-framed messages built field by field (class (b))
	structured []in
	// drive runs the real code on a fresh service with the peer's bytes; the returned
	// error is the handler / client error (fine). It must not leave goroutines that
	// read further input.
	drive func(b []byte) error
	// raw: include the raw framing-level inputs (class (a))
	noRaw bool
}

func hexCap(b []byte) string {
	const max = 768
	if len(b) <= max {
		return hex.EncodeToString(b)
	}
	return hex.EncodeToString(b[:max]) + fmt.Sprintf("..(%d bytes)", len(b))
}

// runEndpoint generates the inputs of one endpoint and drives them one case at a time.
// Case ids are "<endpoint>/<n>"; the input is logged by Begin before the real code
// runs, so a crash in a background goroutine is attributed to it by ./check.
func runEndpoint(t *testing.T, run *obs.Run, ep endpoint, nMut int) {
	t.Helper()
	gen := run.RandFor("gen/" + ep.name)
	var cases []in
	if !ep.noRaw {
		for _, r := range pbench.RawHostile(gen) {
			cases = append(cases, in{r.Name, r.B})
		}
	}
	for _, v := range ep.valid {
		cases = append(cases, in{"valid", v})
	}
	cases = append(cases, ep.structured...)
	for i := 0; i < nMut && len(ep.valid) > 0; i++ {
		cl, b := pbench.Mutate(gen, ep.valid[gen.Intn(len(ep.valid))])
		cases = append(cases, in{cl, b})
	}
	for i, ic := range cases {
		c := run.Begin(fmt.Sprintf("%s/%d", ep.name, i), map[string]interface{}{
			"endpoint": ep.name, "class": ic.class, "len": len(ic.b), "input_hex": hexCap(ic.b)})
		if c == nil {
			continue
		}
		var err error
		pi := pbench.Guard(func() { err = ep.drive(ic.b) })
		pbench.Settle()
		outcome := "ok"
		switch {
		case pi != nil && pi.Harness:
			t.Fatalf("harness fault in %s case %d (%s): %s at %s\n%v", ep.name, i, ic.class, pi.Value, pi.Site, pi.Stack)
		case pi != nil:
			outcome = "panic"
			run.Stat("panics_recovered", 1)
			c.Viol("panic-"+ep.name+"-"+pi.Site,
				fmt.Sprintf("%s panicked on peer input (%s): %s", ep.name, ic.class, pi.Value),
				map[string]interface{}{"endpoint": ep.name, "class": ic.class, "input_hex": hexCap(ic.b),
					"panic": pi.Value, "site": pi.Site, "stack": pi.Stack})
		case err != nil:
			outcome = "err"
			run.Stat("calls_returned_error", 1)
		default:
			run.Stat("calls_returned_ok", 1)
		}
		run.Stat("cases/"+ep.name, 1)
		run.Stat("cases_total", 1)
		if i < 1 {
			run.Sample(map[string]interface{}{"endpoint": ep.name, "class": ic.class, "input_hex": hexCap(ic.b), "outcome": outcome})
		}
		c.End(ep.name+"|"+ic.class+"|"+outcome, true)
	}
	run.Stat("endpoints", 1)
}

func rnd(rng *rand.Rand, n int) []byte {
	b := make([]byte, n)
	rng.Read(b)
	return b
}

const genRule = "per endpoint: (a) 16 raw framing-level inputs (empty, bad/unterminated varint, length > 1 MiB, truncated frame, random payloads, group wire types, 1 MiB frame); " +
	"(b) well-framed messages built field by field (each field absent / empty / wrong length 0,1,31,33,64 / oversized, nested messages absent or empty, wrong wire types, repeated and duplicate entries, non-hex map keys, bit vectors shorter / longer than the pyramid, JSON cheques with null / missing numbers); " +
	"(c) seeded byte mutations of valid exchanges (bit flips, truncation, insertion, deletion, span duplication, re-framed payload damage). " +
	"Each case drives the real handler (or the real client call against a scripted reply) on a fresh service instance, then the follow-up local calls that read the state the message created. " +
	"distinct = (endpoint, input class, outcome ok/err/panic)"

var genAssume = []string{
	"the libp2p host below p2p.Stream / p2p.Streamer is replaced by an in-memory stream that delivers the peer's bytes and then EOF",
	"collaborators that are not the protocol under test (route table, accounting, chain, kademlia peers) are stubs or fresh real instances; peer identity (p2p.Peer.Address) is a well-formed 32-byte overlay as the host guarantees after the handshake",
	"a panic counts wherever it happens: in the handler goroutine (recovered, key panic-<endpoint>-<site>) or in a goroutine the handler started (child crash, key crash/<site>@<test>/<endpoint>)",
}
