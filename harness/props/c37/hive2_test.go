package c37

import (
	"context"
	"errors"
	"testing"
	"time"

	"github.com/gauss-project/aurorafs/pkg/aurora"
	"github.com/gauss-project/aurorafs/pkg/boson"
	"github.com/gauss-project/aurorafs/pkg/hive2"
	hivepb "github.com/gauss-project/aurorafs/pkg/hive2/pb"
	"github.com/gauss-project/aurorafs/pkg/p2p"
	"verif/harness/internal/obs"
	"verif/harness/internal/pbench"
)

func fullPeer(a boson.Address) p2p.Peer {
	return p2p.Peer{Address: a, Mode: aurora.NewModel().SetMode(aurora.FullNode)}
}

func handlerOf(t *testing.T, spec p2p.ProtocolSpec, name string) p2p.HandlerFunc {
	t.Helper()
	for _, s := range spec.StreamSpecs {
		if s.Name == name {
			return s.Handler
		}
	}
	t.Fatalf("protocol %s has no stream %s", spec.Name, name)
	return nil
}

func TestHive2(t *testing.T) {
	run := obs.Start(t, prop)
	defer run.Done()
	run.Rule(genRule, genAssume...)
	const networkID = 1
	self := pbench.NewIdentity(networkID, "/ip4/10.0.0.1/tcp/1634")
	var peers []*pbench.Identity
	for i := 0; i < 6; i++ {
		u := "/ip4/10.0.0.2/tcp/70" + string(rune('0'+i))
		if i%2 == 0 {
			u = "/ip4/8.8.8.8/tcp/70" + string(rune('0'+i))
		}
		peers = append(peers, pbench.NewIdentity(networkID, u))
	}
	gen := run.RandFor("gen/hive2")

	type node struct {
		svc *hive2.Service
		kad *pbench.Kad
		str *pbench.Streamer
	}
	newNode := func(reply []byte, pingErr error) *node {
		k, err := pbench.NewKad(self.Overlay, peers...)
		if err != nil {
			t.Fatal(err)
		}
		str := pbench.NewStreamer(pbench.FixedReply(reply))
		str.PingErr = pingErr
		svc := hive2.New(str, k.Book, networkID, pbench.Log())
		svc.SetAddPeersHandler(k.Kad.AddPeers)
		svc.SetConfig(hive2.Config{Kad: k.Kad, Base: self.Overlay, AllowPrivateCIDRs: false})
		return &node{svc, k, str}
	}
	closeNode := func(n *node) {
		_ = n.svc.Close()
		n.kad.Close()
	}

	// ---- server: onFindNode -------------------------------------------------------------
	target := rnd(gen, 32)
	allPos := make([]int32, 0, 32)
	for i := int32(0); i < 32; i++ {
		allPos = append(allPos, i)
	}
	var reqs []in
	addReq := func(class string, r *hivepb.FindNodeReq) { reqs = append(reqs, in{class, pbench.Frame(r)}) }
	addReq("req-empty", &hivepb.FindNodeReq{})
	addReq("req-limit-negative", &hivepb.FindNodeReq{Target: target, Pos: allPos, Limit: -5})
	addReq("req-limit-min", &hivepb.FindNodeReq{Target: target, Pos: allPos, Limit: -2147483648})
	addReq("req-limit-max", &hivepb.FindNodeReq{Target: target, Pos: allPos, Limit: 2147483647})
	addReq("req-limit-0", &hivepb.FindNodeReq{Target: target, Pos: allPos, Limit: 0})
	addReq("req-limit-1", &hivepb.FindNodeReq{Target: target, Pos: allPos, Limit: 1})
	addReq("req-limit-3", &hivepb.FindNodeReq{Target: target, Pos: allPos, Limit: 3})
	addReq("req-pos-negative", &hivepb.FindNodeReq{Target: target, Pos: []int32{-1, -256, -2147483648}, Limit: 10})
	addReq("req-pos-huge", &hivepb.FindNodeReq{Target: target, Pos: []int32{256, 1000, 2147483647}, Limit: 10})
	addReq("req-pos-absent", &hivepb.FindNodeReq{Target: target, Limit: 10})
	many := make([]int32, 50000)
	addReq("req-pos-50000", &hivepb.FindNodeReq{Target: target, Pos: many, Limit: 10})
	for _, nb := range pbench.Addrs(gen) {
		addReq("req-target-"+nb.Name, &hivepb.FindNodeReq{Target: nb.B, Pos: allPos, Limit: 10})
	}
	addReq("req-target-self", &hivepb.FindNodeReq{Target: self.Overlay.Bytes(), Pos: allPos, Limit: 30})
	reqs = append(reqs, in{"req-pos-unpacked-varints", (&pbench.PB{}).Bytes(1, target).Varint(2, 1).Varint(2, 2).Varint(3, 4).Framed()})
	reqs = append(reqs, in{"req-pos-packed-truncated-varint", (&pbench.PB{}).Bytes(1, target).Bytes(2, []byte{0x80}).Framed()})
	reqs = append(reqs, in{"req-target-as-varint", (&pbench.PB{}).Varint(1, 7).Framed()})
	for _, fromKnown := range []bool{true, false} {
		fromKnown := fromKnown
		name := "hive2.onFindNode"
		from := peers[0].Overlay // public underlay, in the address book
		if !fromKnown {
			name = "hive2.onFindNode+unknown-peer"
			from = boson.NewAddress(rnd(gen, 32))
		}
		runEndpoint(t, run, endpoint{
			name:       name,
			valid:      [][]byte{pbench.Frame(&hivepb.FindNodeReq{Target: target, Pos: allPos, Limit: 16})},
			structured: reqs,
			drive: func(b []byte, step stepFn) error {
				n := newNode(nil, nil)
				defer closeNode(n)
				h := handlerOf(t, n.svc.Protocol(), "findNode")
				return h(context.Background(), fullPeer(from), pbench.NewStream(b))
			},
		}, run.N(40, 400))
	}

	// ---- client: DoFindNode reply, then the peers are pinged, stored and handed to kademlia
	pa := func(id *pbench.Identity) *hivepb.AuroraAddress {
		return &hivepb.AuroraAddress{Underlay: id.Addr.Underlay.Bytes(), Signature: id.Addr.Signature, Overlay: id.Overlay.Bytes()}
	}
	fresh := pbench.NewIdentity(networkID, "/ip4/9.9.9.9/tcp/1000")
	var reps []in
	addRep := func(class string, p *hivepb.Peers) { reps = append(reps, in{class, pbench.Frame(p)}) }
	addRep("peers-empty", &hivepb.Peers{})
	addRep("peers-entry-empty", &hivepb.Peers{Peers: []*hivepb.AuroraAddress{{}}})
	addRep("peers-duplicate", &hivepb.Peers{Peers: []*hivepb.AuroraAddress{pa(fresh), pa(fresh), pa(fresh)}})
	addRep("peers-self", &hivepb.Peers{Peers: []*hivepb.AuroraAddress{pa(self)}})
	for _, nb := range pbench.Addrs(gen) {
		addRep("peers-overlay-"+nb.Name, &hivepb.Peers{Peers: []*hivepb.AuroraAddress{{Underlay: fresh.Addr.Underlay.Bytes(), Signature: fresh.Addr.Signature, Overlay: nb.B}}})
		addRep("peers-underlay-"+nb.Name, &hivepb.Peers{Peers: []*hivepb.AuroraAddress{{Underlay: nb.B, Signature: fresh.Addr.Signature, Overlay: fresh.Overlay.Bytes()}}})
		addRep("peers-signature-"+nb.Name, &hivepb.Peers{Peers: []*hivepb.AuroraAddress{{Underlay: fresh.Addr.Underlay.Bytes(), Signature: nb.B, Overlay: fresh.Overlay.Bytes()}}})
	}
	manyPeers := &hivepb.Peers{}
	for i := 0; i < 200; i++ {
		manyPeers.Peers = append(manyPeers.Peers, &hivepb.AuroraAddress{Underlay: rnd(gen, 8), Overlay: rnd(gen, 32), Signature: rnd(gen, 65)})
	}
	addRep("peers-200-bad-underlay", manyPeers)
	reps = append(reps, in{"peers-entry-as-varint", (&pbench.PB{}).Varint(1, 9).Framed()})
	reps = append(reps, in{"peers-entry-zero-length", (&pbench.PB{}).Bytes(1, nil).Bytes(1, nil).Framed()})
	runEndpoint(t, run, endpoint{
		name:       "hive2.DoFindNode",
		valid:      [][]byte{pbench.Frame(&hivepb.Peers{Peers: []*hivepb.AuroraAddress{pa(fresh)}})},
		structured: reps,
		drive: func(b []byte, step stepFn) error {
			n := newNode(b, nil)
			defer closeNode(n)
			ctx, cancel := context.WithTimeout(context.Background(), 20*time.Second)
			defer cancel()
			ch, err := n.svc.DoFindNode(ctx, boson.NewAddress(target), peers[1].Overlay, []int32{0, 1, 2}, 16)
			if err != nil {
				return err
			}
			// what lookup.query does with the result channel
			for {
				select {
				case a, ok := <-ch:
					if !ok || a.IsZero() {
						goto done
					}
					_ = a.String()
				case <-ctx.Done():
					return errors.New("result channel not closed")
				}
			}
		done:
			// later local use of what the reply stored
			_ = n.kad.Kad.Snapshot()
			if as, err := n.kad.Book.Addresses(); err == nil {
				for _, a := range as {
					_ = a.Overlay.String()
					_, _ = n.kad.Kad.GetAuroraAddress(a.Overlay)
				}
			}
			_ = n.kad.Kad.EachKnownPeer(func(a boson.Address, _ uint8) (bool, bool, error) { return false, false, nil })
			return nil
		},
	}, run.N(12, 120))
}

func p2pPeer(a boson.Address, m aurora.Model) p2p.Peer { return p2p.Peer{Address: a, Mode: m} }
