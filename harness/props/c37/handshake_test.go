package c37

import (
	"context"
	"testing"

	"github.com/gauss-project/aurorafs/pkg/aurora"
	"github.com/gauss-project/aurorafs/pkg/p2p"
	"github.com/gauss-project/aurorafs/pkg/p2p/libp2p/verifx"
	"github.com/gauss-project/aurorafs/pkg/topology/lightnode"
	libp2ppeer "github.com/libp2p/go-libp2p-core/peer"
	ma "github.com/multiformats/go-multiaddr"
	"verif/harness/internal/obs"
	"verif/harness/internal/pbench"
)

type resolverStub struct{}

func (resolverStub) Resolve(a ma.Multiaddr) (ma.Multiaddr, error) { return a, nil }

type pickAll struct{}

func (pickAll) Pick(p2p.Peer) bool { return true }

const (
	ma1 = "/ip4/127.0.0.1/tcp/1634/p2p/16Uiu2HAkx8ULY8cTXhdVAcMmLcH9AsTKz6uBQ7DPLKRjMLgBVYkA"
	ma2 = "/ip4/127.0.0.1/tcp/1634/p2p/16Uiu2HAkx8ULY8cTXhdVAcMmLcH9AsTKz6uBQ7DPLKRjMLgBVYkS"
)

func TestHandshake(t *testing.T) {
	run := obs.Start(t, prop)
	defer run.Done()
	run.Rule(genRule, genAssume...)
	const networkID = 3
	self := pbench.NewIdentity(networkID, ma1)
	peer := pbench.NewIdentity(networkID, ma2)
	m1, _ := ma.NewMultiaddr(ma1)
	m2, _ := ma.NewMultiaddr(ma2)
	m1b, _ := m1.MarshalBinary()
	m2b, _ := m2.MarshalBinary()
	info1, err := libp2ppeer.AddrInfoFromP2pAddr(m1)
	if err != nil {
		t.Fatal(err)
	}
	info2, err := libp2ppeer.AddrInfoFromP2pAddr(m2)
	if err != nil {
		t.Fatal(err)
	}
	full := aurora.NewModel().SetMode(aurora.FullNode)
	newSvc := func(withPicker bool) *verifx.HandshakeService {
		light := lightnode.NewContainer(self.Overlay)
		s, err := verifx.NewHandshake(self.Signer, resolverStub{}, self.Overlay, networkID, full, "hello", info1.ID, pbench.Log(), light, 100)
		if err != nil {
			t.Fatal(err)
		}
		if withPicker {
			s.SetPicker(pickAll{})
		}
		return s
	}
	goodAddr := &verifx.BzzAddress{Underlay: m2b, Overlay: peer.Overlay.Bytes(), Signature: peer.Addr.Signature}
	goodAck := &verifx.Ack{Address: goodAddr, NetworkID: networkID, NodeMode: full.Bv.Bytes(), WelcomeMessage: "hi"}
	goodSyn := &verifx.Syn{ObservedUnderlay: m1b}
	gen := run.RandFor("gen/handshake")

	// ---- server side: Handle reads Syn, writes SynAck, reads Ack ----------------------
	ackVariants := func() []in {
		var out []in
		add := func(class string, a *verifx.Ack) {
			out = append(out, in{class, pbench.Cat(pbench.Frame(goodSyn), pbench.Frame(a))})
		}
		add("ack-address-absent", &verifx.Ack{NetworkID: networkID, NodeMode: full.Bv.Bytes()})
		add("ack-address-empty", &verifx.Ack{Address: &verifx.BzzAddress{}, NetworkID: networkID, NodeMode: full.Bv.Bytes()})
		add("ack-empty", &verifx.Ack{})
		add("ack-networkid-only", &verifx.Ack{NetworkID: networkID})
		add("ack-nodemode-empty", &verifx.Ack{Address: goodAddr, NetworkID: networkID})
		add("ack-nodemode-long", &verifx.Ack{Address: goodAddr, NetworkID: networkID, NodeMode: rnd(gen, 64)})
		add("ack-nodemode-light", &verifx.Ack{Address: goodAddr, NetworkID: networkID, NodeMode: aurora.NewModel().Bv.Bytes()})
		add("ack-wrong-network", &verifx.Ack{Address: goodAddr, NetworkID: 77, NodeMode: full.Bv.Bytes()})
		add("ack-welcome-huge", &verifx.Ack{Address: goodAddr, NetworkID: networkID, NodeMode: full.Bv.Bytes(), WelcomeMessage: string(make([]byte, 100000))})
		for _, nb := range pbench.Addrs(gen) {
			name, a := nb.Name, nb.B
			add("ack-overlay-"+name, &verifx.Ack{Address: &verifx.BzzAddress{Underlay: m2b, Overlay: a, Signature: peer.Addr.Signature}, NetworkID: networkID, NodeMode: full.Bv.Bytes()})
			add("ack-signature-"+name, &verifx.Ack{Address: &verifx.BzzAddress{Underlay: m2b, Overlay: peer.Overlay.Bytes(), Signature: a}, NetworkID: networkID, NodeMode: full.Bv.Bytes()})
			add("ack-underlay-"+name, &verifx.Ack{Address: &verifx.BzzAddress{Underlay: a, Overlay: peer.Overlay.Bytes(), Signature: peer.Addr.Signature}, NetworkID: networkID, NodeMode: full.Bv.Bytes()})
		}
		sig65 := rnd(gen, 65)
		add("ack-signature-random65", &verifx.Ack{Address: &verifx.BzzAddress{Underlay: m2b, Overlay: peer.Overlay.Bytes(), Signature: sig65}, NetworkID: networkID, NodeMode: full.Bv.Bytes()})
		for _, v := range []byte{0, 26, 27, 31, 35, 255} {
			s := append(append([]byte(nil), peer.Addr.Signature[:64]...), v)
			add("ack-signature-v", &verifx.Ack{Address: &verifx.BzzAddress{Underlay: m2b, Overlay: peer.Overlay.Bytes(), Signature: s}, NetworkID: networkID, NodeMode: full.Bv.Bytes()})
		}
		zero65 := make([]byte, 65)
		zero65[64] = 27
		add("ack-signature-zero-rs", &verifx.Ack{Address: &verifx.BzzAddress{Underlay: m2b, Overlay: peer.Overlay.Bytes(), Signature: zero65}, NetworkID: networkID, NodeMode: full.Bv.Bytes()})
		// syn variants followed by a good ack
		for _, nb := range pbench.Addrs(gen) {
			name, a := nb.Name, nb.B
			out = append(out, in{"syn-underlay-" + name, pbench.Cat(pbench.Frame(&verifx.Syn{ObservedUnderlay: a}), pbench.Frame(goodAck))})
		}
		out = append(out, in{"syn-empty", pbench.Cat(pbench.Frame(&verifx.Syn{}), pbench.Frame(goodAck))})
		out = append(out, in{"syn-only", pbench.Frame(goodSyn)})
		// ill-typed: Address field as varint, as empty nested, NodeMode as nested
		out = append(out, in{"ack-address-wiretype-varint", pbench.Cat(pbench.Frame(goodSyn), (&pbench.PB{}).Varint(1, 5).Varint(2, networkID).Framed())})
		out = append(out, in{"ack-address-twice", pbench.Cat(pbench.Frame(goodSyn), (&pbench.PB{}).Msg(1, &pbench.PB{}).Msg(1, &pbench.PB{}).Varint(2, networkID).Bytes(3, full.Bv.Bytes()).Framed())})
		return out
	}
	for _, withPicker := range []bool{false, true} {
		withPicker := withPicker
		name := "handshake.Handle"
		if withPicker {
			name = "handshake.Handle+picker"
		}
		runEndpoint(t, run, endpoint{
			name:       name,
			valid:      [][]byte{pbench.Cat(pbench.Frame(goodSyn), pbench.Frame(goodAck))},
			structured: ackVariants(),
			drive: func(b []byte, step stepFn) error {
				_, err := newSvc(withPicker).Handle(context.Background(), pbench.NewStream(b), info2.Addrs[0], info2.ID)
				return err
			},
		}, run.N(60, 600))
	}

	// ---- client side: Handshake writes Syn, reads SynAck, writes Ack -------------------
	var synacks []in
	addSA := func(class string, sa *verifx.SynAck) { synacks = append(synacks, in{class, pbench.Frame(sa)}) }
	addSA("synack-empty", &verifx.SynAck{})
	addSA("synack-syn-absent", &verifx.SynAck{Ack: goodAck})
	addSA("synack-ack-absent", &verifx.SynAck{Syn: goodSyn})
	addSA("synack-ack-empty", &verifx.SynAck{Syn: goodSyn, Ack: &verifx.Ack{}})
	addSA("synack-ack-address-absent", &verifx.SynAck{Syn: goodSyn, Ack: &verifx.Ack{NetworkID: networkID, NodeMode: full.Bv.Bytes()}})
	addSA("synack-ack-address-empty", &verifx.SynAck{Syn: goodSyn, Ack: &verifx.Ack{Address: &verifx.BzzAddress{}, NetworkID: networkID, NodeMode: full.Bv.Bytes()}})
	addSA("synack-nodemode-empty", &verifx.SynAck{Syn: goodSyn, Ack: &verifx.Ack{Address: goodAddr, NetworkID: networkID}})
	addSA("synack-wrong-network", &verifx.SynAck{Syn: goodSyn, Ack: &verifx.Ack{Address: goodAddr, NetworkID: 9, NodeMode: full.Bv.Bytes()}})
	addSA("synack-syn-empty", &verifx.SynAck{Syn: &verifx.Syn{}, Ack: goodAck})
	addSA("synack-syn-underlay-no-p2p", &verifx.SynAck{Syn: &verifx.Syn{ObservedUnderlay: mustMA("/ip4/1.2.3.4/tcp/9")}, Ack: goodAck})
	for _, nb := range pbench.Addrs(gen) {
		name, a := nb.Name, nb.B
		addSA("synack-syn-underlay-"+name, &verifx.SynAck{Syn: &verifx.Syn{ObservedUnderlay: a}, Ack: goodAck})
		addSA("synack-overlay-"+name, &verifx.SynAck{Syn: goodSyn, Ack: &verifx.Ack{Address: &verifx.BzzAddress{Underlay: m2b, Overlay: a, Signature: peer.Addr.Signature}, NetworkID: networkID, NodeMode: full.Bv.Bytes()}})
		addSA("synack-signature-"+name, &verifx.SynAck{Syn: goodSyn, Ack: &verifx.Ack{Address: &verifx.BzzAddress{Underlay: m2b, Overlay: peer.Overlay.Bytes(), Signature: a}, NetworkID: networkID, NodeMode: full.Bv.Bytes()}})
	}
	synacks = append(synacks, in{"synack-syn-wiretype-varint", (&pbench.PB{}).Varint(1, 1).Varint(2, 1).Framed()})
	runEndpoint(t, run, endpoint{
		name:       "handshake.Handshake",
		valid:      [][]byte{pbench.Frame(&verifx.SynAck{Syn: goodSyn, Ack: goodAck})},
		structured: synacks,
		drive: func(b []byte, step stepFn) error {
			_, err := newSvc(false).Handshake(context.Background(), pbench.NewStream(b), info2.Addrs[0], info2.ID)
			return err
		},
	}, run.N(60, 600))
}

func mustMA(s string) []byte {
	m, err := ma.NewMultiaddr(s)
	if err != nil {
		panic(err)
	}
	b, _ := m.MarshalBinary()
	return b
}
