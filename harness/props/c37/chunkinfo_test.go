package c37

import (
	"context"
	"encoding/binary"
	"encoding/hex"
	"fmt"
	"strings"
	"testing"
	"time"

	"github.com/gauss-project/aurorafs/pkg/boson"
	"github.com/gauss-project/aurorafs/pkg/chunkinfo"
	cipb "github.com/gauss-project/aurorafs/pkg/chunkinfo/pb"
	"github.com/gauss-project/aurorafs/pkg/storage"
	"github.com/gauss-project/aurorafs/pkg/subscribe"
	"github.com/gauss-project/aurorafs/pkg/traversal"
	"verif/harness/internal/obs"
	"verif/harness/internal/pbench"
)

// ciNode is a real chunkinfo service over stub collaborators.
type ciNode struct {
	ci    *chunkinfo.ChunkInfo
	store *pbench.Store
	state storage.StateStorer
	str   *pbench.Streamer
	self  boson.Address
}

func newCINode(self boson.Address, store *pbench.Store, state storage.StateStorer, reply []byte) *ciNode {
	if store == nil {
		store = pbench.NewStore()
	}
	if state == nil {
		state = pbench.StateStore()
	}
	str := pbench.NewStreamer(pbench.FixedReply(reply))
	ci := chunkinfo.New(self, str, pbench.Log(), traversal.New(store), state, store, &pbench.Route{Neighbor: true}, &pbench.Chain{}, pbench.Resolver{}, subscribe.NewSubPub())
	return &ciNode{ci: ci, store: store, state: state, str: str, self: self}
}

// restart builds a second service over the same stores and loads the persisted state.
func (n *ciNode) restart() *chunkinfo.ChunkInfo {
	ci := chunkinfo.New(n.self, n.str, pbench.Log(), traversal.New(n.store), n.state, n.store, &pbench.Route{Neighbor: true}, &pbench.Chain{}, pbench.Resolver{}, subscribe.NewSubPub())
	_ = ci.InitChunkInfo()
	return ci
}

// honestFile is a file as an honest publisher stores it.
type honestFile struct {
	root    boson.Address
	store   *pbench.Store
	pyramid map[string][]byte
	cids    [][]byte // data chunk addresses
}

func makeFile(t *testing.T, data []byte) *honestFile {
	t.Helper()
	st := pbench.NewStore()
	root, err := pbench.Upload(st, data)
	if err != nil {
		t.Fatal(err)
	}
	return finishFile(t, st, root)
}

func finishFile(t *testing.T, st *pbench.Store, root boson.Address) *honestFile {
	py, err := pbench.Pyramid(st, root)
	if err != nil {
		t.Fatal(err)
	}
	hs, _, err := traversal.New(st).GetChunkHashes(context.Background(), root, nil)
	if err != nil {
		t.Fatal(err)
	}
	f := &honestFile{root: root, store: st, pyramid: py}
	for _, l := range hs {
		f.cids = append(f.cids, l...)
	}
	return f
}

// copyInto seeds a node's store with all chunks of the file (the node has the file).
func (f *honestFile) copyInto(dst *pbench.Store) {
	for _, p := range f.store.Puts() {
		dst.Seed(p.Addr, p.Data)
	}
}

// pyramidReply frames a pyramid as the stream of ChunkPyramidResp messages a server sends.
func pyramidReply(keys []string, py map[string][]byte, terminate bool) []byte {
	var out []byte
	for _, k := range keys {
		h, _ := hex.DecodeString(k)
		out = append(out, pbench.Frame(&cipb.ChunkPyramidResp{Hash: h, Chunk: py[k]})...)
	}
	if terminate {
		out = append(out, pbench.Frame(&cipb.ChunkPyramidResp{Ok: true})...)
	}
	return out
}

func bitvecFor(n int, fill byte) []byte {
	l := n / 8
	if n%8 != 0 || n == 0 {
		l++
	}
	b := make([]byte, l)
	for i := range b {
		b[i] = fill
	}
	return b
}

// followUps are the local calls (API, retrieval, restart) that read chunk-info state.
func followUps(n *ciNode, root boson.Address, cids [][]byte, peer boson.Address, step stepFn) {
	ci := n.ci
	step("GetChunkInfo", func() {
		for _, c := range cids {
			_ = ci.GetChunkInfo(root, boson.NewAddress(c))
		}
		_ = ci.GetChunkInfo(root, root)
	})
	step("GetChunkInfoDiscoverOverlays", func() { _ = ci.GetChunkInfoDiscoverOverlays(root) })
	step("GetChunkInfoServerOverlays", func() { _ = ci.GetChunkInfoServerOverlays(root) })
	step("IsDiscover", func() { _ = ci.IsDiscover(root) })
	step("GetFileList", func() {
		_, _ = ci.GetFileList(n.self)
		_, _ = ci.GetFileList(peer)
	})
	step("GetChunkInfoSource", func() { _ = ci.GetChunkInfoSource(root) })
	step("GetChunkPyramid", func() { _ = ci.GetChunkPyramid(root) })
	step("ManifestView", func() {
		ctx, cancel := context.WithTimeout(context.Background(), 10*time.Second)
		defer cancel()
		_, _ = ci.ManifestView(ctx, root.String(), "", 2)
	})
	step("OnChunkTransferred", func() {
		if len(cids) > 0 {
			_ = ci.OnChunkTransferred(boson.NewAddress(cids[0]), root, peer, n.self)
		}
	})
	step("restart+InitChunkInfo", func() {
		ci2 := n.restart()
		_, _ = ci2.GetFileList(n.self)
		_ = ci2.GetChunkInfoDiscoverOverlays(root)
		for _, c := range cids {
			_ = ci2.GetChunkInfo(root, boson.NewAddress(c))
		}
	})
	step("CancelFindChunkInfo+DelDiscover", func() {
		ci.CancelFindChunkInfo(root)
		ci.DelDiscover(root)
	})
	step("DelFile", func() { _ = ci.DelFile(root, func() error { return nil }) })
}

func TestChunkinfoReqResp(t *testing.T) {
	run := obs.Start(t, prop)
	defer run.Done()
	run.Rule(genRule+"; chunk-info node states: fresh, holding a 3-chunk file, and with a local discovery of that file pending (queue and sync channel exist)", genAssume...)
	gen := run.RandFor("gen/chunkinfo")
	self := boson.NewAddress(rnd(gen, 32))
	peerX := boson.NewAddress(rnd(gen, 32))
	peerY := boson.NewAddress(rnd(gen, 32))
	file := makeFile(t, rnd(gen, 2*chunkSize+1000)) // 3 data chunks
	nChunks := len(file.cids)
	if nChunks != 3 {
		t.Fatalf("expected 3 data chunks, got %d", nChunks)
	}
	R := file.root

	// node that has the file and serves it
	withFile := func(reply []byte) *ciNode {
		n := newCINode(self, pbench.NewStoreOver(file.store), nil, reply)
		for _, c := range file.cids {
			if err := n.ci.OnChunkRetrieved(boson.NewAddress(c), R, self); err != nil {
				t.Fatalf("registering local file: %v", err)
			}
		}
		return n
	}
	// node with a pending discovery of R towards peerX
	finding := func(reply []byte) (*ciNode, context.CancelFunc, chan bool) {
		n := withFile(reply)
		ctx, cancel := context.WithTimeout(context.Background(), 20*time.Second)
		res := make(chan bool, 1)
		go func() { res <- n.ci.FindChunkInfo(ctx, nil, R, []boson.Address{peerX}) }()
		for i := 0; i < 240000 && !n.ci.IsDiscover(R); i++ { // up to 2 minutes on a loaded machine
			time.Sleep(500 * time.Microsecond)
		}
		if !n.ci.IsDiscover(R) {
			t.Fatal("discovery did not start")
		}
		return n, cancel, res
	}

	// ---- chunkinforeq --------------------------------------------------------------------
	var reqs []in
	addReq := func(class string, r *cipb.ChunkInfoReq) { reqs = append(reqs, in{class, pbench.Frame(r)}) }
	addReq("req-empty", &cipb.ChunkInfoReq{})
	addReq("req-target-self-known-root", &cipb.ChunkInfoReq{RootCid: R.Bytes(), Target: self.Bytes(), Req: peerX.Bytes()})
	addReq("req-target-self-unknown-root", &cipb.ChunkInfoReq{RootCid: rnd(gen, 32), Target: self.Bytes(), Req: peerX.Bytes()})
	addReq("req-target-other", &cipb.ChunkInfoReq{RootCid: R.Bytes(), Target: peerY.Bytes(), Req: peerX.Bytes()})
	for _, nb := range pbench.Addrs(gen) {
		addReq("req-root-"+nb.Name, &cipb.ChunkInfoReq{RootCid: nb.B, Target: self.Bytes(), Req: peerX.Bytes()})
		addReq("req-target-"+nb.Name, &cipb.ChunkInfoReq{RootCid: R.Bytes(), Target: nb.B, Req: peerX.Bytes()})
		addReq("req-req-"+nb.Name, &cipb.ChunkInfoReq{RootCid: R.Bytes(), Target: self.Bytes(), Req: nb.B})
	}
	reqs = append(reqs, in{"req-fields-as-varint", (&pbench.PB{}).Varint(1, 1).Varint(2, 1).Varint(3, 1).Framed()})
	runReq := func() {
		runEndpoint(t, run, endpoint{
			name:       "chunkinfo.req",
			valid:      [][]byte{pbench.Frame(&cipb.ChunkInfoReq{RootCid: R.Bytes(), Target: self.Bytes(), Req: peerX.Bytes()})},
			structured: reqs,
			drive: func(b []byte, step stepFn) error {
				n := withFile(nil)
				h := handlerOf(t, n.ci.Protocol(), "chunkinforeq")
				ctx, cancel := context.WithTimeout(context.Background(), 20*time.Second)
				defer cancel()
				return h(ctx, fullPeer(peerX), pbench.NewStream(b))
			},
		}, run.N(40, 400))
	}

	// ---- chunkinforesp -------------------------------------------------------------------
	good := bitvecFor(nChunks, 0xff)
	resp := func(root []byte, target, req boson.Address, presence map[string][]byte) []byte {
		return pbench.Frame(&cipb.ChunkInfoResp{RootCid: root, Target: target.Bytes(), Req: req.Bytes(), Presence: presence})
	}
	var resps []in
	addResp := func(class string, b []byte) { resps = append(resps, in{class, b}) }
	addResp("resp-empty", pbench.Frame(&cipb.ChunkInfoResp{}))
	addResp("resp-presence-absent", resp(R.Bytes(), peerX, self, nil))
	addResp("resp-other-overlays-only", resp(R.Bytes(), peerX, self, map[string][]byte{peerY.String(): good}))
	addResp("resp-unknown-root", resp(rnd(gen, 32), peerX, self, map[string][]byte{peerX.String(): good}))
	addResp("resp-forward-to-other", resp(R.Bytes(), peerX, peerY, map[string][]byte{peerX.String(): good}))
	addResp("resp-bitvector-long", resp(R.Bytes(), peerX, self, map[string][]byte{peerX.String(): bitvecFor(64, 0xff)}))
	addResp("resp-bitvector-zero-bits", resp(R.Bytes(), peerX, self, map[string][]byte{peerX.String(): bitvecFor(nChunks, 0)}))
	addResp("resp-bitvector-1000-bytes", resp(R.Bytes(), peerX, self, map[string][]byte{peerX.String(): make([]byte, 1000)}))
	addResp("resp-key-uppercase-hex", resp(R.Bytes(), peerX, self, map[string][]byte{fmt.Sprintf("%X", peerY.Bytes()): good}))
	addResp("resp-key-short-hex", resp(R.Bytes(), peerX, self, map[string][]byte{"ab": good, peerX.String(): good}))
	addResp("resp-key-empty", resp(R.Bytes(), peerX, self, map[string][]byte{"": good, peerX.String(): good}))
	addResp("resp-key-self", resp(R.Bytes(), peerX, self, map[string][]byte{self.String(): good, peerX.String(): good}))
	many := map[string][]byte{peerX.String(): good}
	for i := 0; i < 1500; i++ {
		many[hex.EncodeToString(rnd(gen, 32))] = good
	}
	addResp("resp-1500-overlays", resp(R.Bytes(), peerX, self, many))
	for _, nb := range pbench.Addrs(gen) {
		addResp("resp-root-"+nb.Name, resp(nb.B, peerX, self, map[string][]byte{peerX.String(): good}))
		addResp("resp-target-"+nb.Name, pbench.Frame(&cipb.ChunkInfoResp{RootCid: R.Bytes(), Target: nb.B, Req: self.Bytes(), Presence: map[string][]byte{hex.EncodeToString(nb.B): good}}))
	}
	addResp("resp-presence-entry-empty", (&pbench.PB{}).Bytes(1, R.Bytes()).Bytes(2, peerX.Bytes()).Bytes(3, self.Bytes()).Msg(4, &pbench.PB{}).Framed())
	addResp("resp-presence-duplicate-keys", (&pbench.PB{}).Bytes(1, R.Bytes()).Bytes(2, peerX.Bytes()).Bytes(3, self.Bytes()).MapEntry(4, peerX.String(), good).MapEntry(4, peerX.String(), bitvecFor(64, 1)).Framed())
	// the inputs predicted to crash: a short bit vector for the answering overlay, and keys
	// that are not hex addresses
	crashers := []in{
		{"resp-bitvector-empty", resp(R.Bytes(), peerX, self, map[string][]byte{peerX.String(): {}})},
		{"resp-presence-entry-without-value", (&pbench.PB{}).Bytes(1, R.Bytes()).Bytes(2, peerX.Bytes()).Bytes(3, self.Bytes()).MapEntry(4, peerX.String(), nil).Framed()},
		{"resp-key-not-hex", resp(R.Bytes(), peerX, self, map[string][]byte{"zz-not-hex": good, peerX.String(): good})},
		{"resp-key-odd-hex", resp(R.Bytes(), peerX, self, map[string][]byte{"abc": good, peerX.String(): good})},
	}
	// nChunks = 3 needs 1 byte: a 0-byte vector is the only "short" one here; a 17-chunk
	// file is used for a genuinely short, non-empty vector below.
	valid := [][]byte{resp(R.Bytes(), peerX, self, map[string][]byte{peerX.String(): good, peerY.String(): good})}

	for _, st := range []string{"holding-file", "discovery-pending", "fresh"} {
		st := st
		runEndpoint(t, run, endpoint{
			name:       "chunkinfo.resp+" + st,
			valid:      valid,
			early:      crashers,
			structured: resps,
			drive: func(b []byte, step stepFn) error {
				var n *ciNode
				var res chan bool
				cancel := func() {}
				switch st {
				case "holding-file":
					n = withFile(nil)
				case "discovery-pending":
					n, cancel, res = finding(nil)
				default:
					n = newCINode(self, nil, nil, nil)
				}
				defer cancel()
				h := handlerOf(t, n.ci.Protocol(), "chunkinforesp")
				ctx, cancelH := context.WithTimeout(context.Background(), 20*time.Second)
				defer cancelH()
				var err error
				step("handler", func() { err = h(ctx, fullPeer(peerX), pbench.NewStream(b)) })
				// the same overlay answers again: with an exact-length vector, then with an
				// over-long one (whatever the first message left behind must cope with both)
				if st == "holding-file" {
					step("second-answer-exact-length", func() { _ = h(ctx, fullPeer(peerX), pbench.NewStream(valid[0])) })
					step("third-answer-over-long", func() {
						_ = h(ctx, fullPeer(peerX), pbench.NewStream(resp(R.Bytes(), peerX, self, map[string][]byte{peerX.String(): bitvecFor(64, 0xff)})))
					})
					step("fourth-answer-exact-length", func() { _ = h(ctx, fullPeer(peerX), pbench.NewStream(valid[0])) })
				}
				followUps(n, R, file.cids, peerX, step)
				cancel()
				if res != nil {
					select {
					case <-res:
					case <-time.After(10 * time.Second):
					}
				}
				return err
			},
		}, run.N(20, 300))
	}
	runReq()
}

func TestChunkinfoPyramid(t *testing.T) {
	run := obs.Start(t, prop)
	defer run.Done()
	run.Rule(genRule+"; pyramid replies: honest pyramids of a 1-chunk file, a 3-chunk file, a 17-chunk file and a directory manifest, with entries removed / added / altered / re-keyed, replies without terminator, and hostile trees whose chunks hash correctly", genAssume...)
	gen := run.RandFor("gen/chunkinfo-pyramid")
	self := boson.NewAddress(rnd(gen, 32))
	peerX := boson.NewAddress(rnd(gen, 32))
	small := makeFile(t, rnd(gen, 700))
	three := makeFile(t, rnd(gen, 2*chunkSize+1000))
	dirStore := pbench.NewStore()
	dirRoot, _, err := pbench.UploadDir(dirStore, map[string][]byte{"index.html": rnd(gen, 300), "img/a.bin": rnd(gen, chunkSize+5), "b.txt": rnd(gen, 10)}, "index.html")
	if err != nil {
		t.Fatal(err)
	}
	dir := finishFile(t, dirStore, dirRoot)

	served := pbench.NewStore() // what the serving node holds: the 3-chunk file and the directory
	three.copyInto(served)
	dir.copyInto(served)

	// ---- server: chunkpyramid handler ----------------------------------------------------
	var reqs []in
	addReq := func(class string, r *cipb.ChunkPyramidReq) { reqs = append(reqs, in{class, pbench.Frame(r)}) }
	addReq("req-empty", &cipb.ChunkPyramidReq{})
	addReq("req-known-root-target-self", &cipb.ChunkPyramidReq{RootCid: three.root.Bytes(), Target: self.Bytes()})
	addReq("req-known-root-target-other", &cipb.ChunkPyramidReq{RootCid: three.root.Bytes(), Target: peerX.Bytes()})
	addReq("req-dir-root", &cipb.ChunkPyramidReq{RootCid: dir.root.Bytes(), Target: self.Bytes()})
	addReq("req-unknown-root-target-self", &cipb.ChunkPyramidReq{RootCid: rnd(gen, 32), Target: self.Bytes()})
	addReq("req-unknown-root-target-other", &cipb.ChunkPyramidReq{RootCid: small.root.Bytes(), Target: peerX.Bytes()})
	addReq("req-data-chunk-as-root", &cipb.ChunkPyramidReq{RootCid: three.cids[0], Target: self.Bytes()})
	for _, nb := range pbench.Addrs(gen) {
		addReq("req-root-"+nb.Name, &cipb.ChunkPyramidReq{RootCid: nb.B, Target: self.Bytes()})
		addReq("req-target-"+nb.Name, &cipb.ChunkPyramidReq{RootCid: three.root.Bytes(), Target: nb.B})
	}
	serve := func(fwdReply []byte) func(b []byte, step stepFn) error {
		return func(b []byte, step stepFn) error {
			n := newCINode(self, pbench.NewStoreOver(served), nil, fwdReply)
			h := handlerOf(t, n.ci.Protocol(), "chunkpyramid")
			ctx, cancel := context.WithTimeout(context.Background(), 20*time.Second)
			defer cancel()
			var err error
			step("handler", func() { err = h(ctx, fullPeer(peerX), pbench.NewStream(b)) })
			followUps(n, small.root, small.cids, peerX, step)
			return err
		}
	}
	validReq := [][]byte{pbench.Frame(&cipb.ChunkPyramidReq{RootCid: three.root.Bytes(), Target: self.Bytes()})}
	runEndpoint(t, run, endpoint{name: "chunkinfo.pyramid", valid: validReq, structured: reqs, drive: serve(nil)}, run.N(30, 300))
	// relayed: the request is forwarded and the next hop's reply is read (and stored) by us
	runEndpoint(t, run, endpoint{name: "chunkinfo.pyramid+relayed-honest-reply", valid: validReq, structured: reqs, noRaw: true,
		drive: serve(pyramidReply(pbench.SortedKeys(small.pyramid), small.pyramid, true))}, run.N(5, 50))

	// ---- client: pyramid reply read after a chunk was retrieved from the peer --------------
	type reply struct {
		class string
		root  boson.Address
		cids  [][]byte
		b     []byte
	}
	var reps []reply
	for _, f := range []struct {
		name string
		f    *honestFile
	}{{"small", small}, {"three", three}, {"dir", dir}} {
		keys := pbench.SortedKeys(f.f.pyramid)
		py := f.f.pyramid
		add := func(class string, b []byte) {
			reps = append(reps, reply{f.name + "-" + class, f.f.root, f.f.cids, b})
		}
		add("honest", pyramidReply(keys, py, true))
		add("no-terminator", pyramidReply(keys, py, false))
		add("terminator-only", pbench.Frame(&cipb.ChunkPyramidResp{Ok: true}))
		add("terminator-first", pbench.Cat(pbench.Frame(&cipb.ChunkPyramidResp{Ok: true}), pyramidReply(keys, py, true)))
		add("root-entry-missing", pyramidReply(without(keys, f.f.root.String()), py, true))
		add("entries-duplicated", pbench.Cat(pyramidReply(keys, py, false), pyramidReply(keys, py, true)))
		for _, l := range []int{0, 1, 7, 8, 9} {
			m := clonePy(py)
			m[f.f.root.String()] = m[f.f.root.String()][:min(l, len(m[f.f.root.String()]))]
			add(fmt.Sprintf("root-chunk-cut-to-%d", l), pyramidReply(keys, m, true))
		}
		{
			m := clonePy(py)
			m[f.f.root.String()] = append(append([]byte(nil), m[f.f.root.String()]...), 0)
			add("root-chunk-extended", pyramidReply(keys, m, true))
		}
		{
			m := clonePy(py)
			d := append([]byte(nil), m[f.f.root.String()]...)
			d[len(d)-1] ^= 1
			m[f.f.root.String()] = d
			add("root-chunk-bitflip", pyramidReply(keys, m, true))
		}
		{
			// extra entries with hashes of other lengths (the map key is the hex of any length)
			out := pyramidReply(keys, py, false)
			for _, nb := range pbench.Addrs(gen) {
				out = append(out, pbench.Frame(&cipb.ChunkPyramidResp{Hash: nb.B, Chunk: rnd(gen, 20)})...)
			}
			out = append(out, pbench.Frame(&cipb.ChunkPyramidResp{Ok: true})...)
			add("extra-entries-odd-hash-lengths", out)
		}
		{
			a, p := pbench.Leaf(rnd(gen, 50))
			out := pyramidReply(keys, py, false)
			out = append(out, pbench.Frame(&cipb.ChunkPyramidResp{Hash: a, Chunk: p})...)
			out = append(out, pbench.Frame(&cipb.ChunkPyramidResp{Ok: true})...)
			add("extra-valid-unrelated-entry", out)
		}
		for _, k := range keys {
			// an entry zero-padded to the BMT capacity (same hash) with or without bytes past it
			v := py[k]
			if len(v) >= chunkSize+8 {
				continue
			}
			tag := "non-root"
			if k == f.f.root.String() {
				tag = "root"
			}
			pad := make([]byte, chunkSize+8-len(v))
			m := clonePy(py)
			m[k] = pbench.Cat(v, pad)
			add(tag+"-entry-zero-padded-to-capacity", pyramidReply(keys, m, true))
			m2 := clonePy(py)
			m2[k] = pbench.Cat(v, pad, rnd(gen, 64))
			add(tag+"-entry-zero-padded-plus-64-junk", pyramidReply(keys, m2, true))
			m3 := clonePy(py)
			m3[k] = pbench.Cat(v, make([]byte, 32))
			add(tag+"-entry-extended-32-zero-bytes", pyramidReply(keys, m3, true))
		}
		add("entry-hash-absent", pbench.Cat(pbench.Frame(&cipb.ChunkPyramidResp{Chunk: py[f.f.root.String()]}), pyramidReply(keys, py, true)))
		add("entry-chunk-absent", pbench.Cat(pbench.Frame(&cipb.ChunkPyramidResp{Hash: f.f.root.Bytes()}), pbench.Frame(&cipb.ChunkPyramidResp{Ok: true})))
	}
	// hostile trees whose chunks all hash correctly: the pyramid is every chunk of the tree
	var lateHang []reply
	hts := hostileTrees(gen)
	hts = append(hts, in{"tree-root-refs-unaligned-31", frameChunk(2*chunkSize, rnd(gen, 31))})
	for _, tr := range hts {
		frames := splitFrames(tr.b)
		if len(frames) == 0 || strings.HasPrefix(tr.class, "tree-root-span-2^") {
			// spans of 2^31 and more make the manifest probe read the whole claimed
			// length: work proportional to the claim, not a panic; outside this property
			continue
		}
		py := map[string][]byte{}
		var keys []string
		var rootA []byte
		for i, p := range frames {
			a, _ := pbench.CAC(binary.LittleEndian.Uint64(p[:8]), p[8:])
			if i == 0 {
				rootA = a
			}
			k := hex.EncodeToString(a)
			if _, ok := py[k]; !ok {
				keys = append(keys, k)
			}
			py[k] = p
		}
		r := reply{"hostile-" + tr.class, boson.NewAddress(rootA), nil, pyramidReply(keys, py, true)}
		if tr.class == "tree-root-refs-unaligned-31" {
			lateHang = append(lateHang, r) // endless loop in the joiner: goes last
			continue
		}
		reps = append(reps, r)
	}
	// a manifest root node cut inside its 32-byte fork index and re-hashed: the manifest
	// library slices past the end of it (observed in the unchanged tree as a crash in a
	// goroutine when the stored node is re-read)
	var early []reply
	{
		rk := dir.root.String()
		h := dir.pyramid[rk][8:]
		refSize := int(h[63] ^ h[31])
		for _, k := range []int{1, 16, 31} {
			cut := 64 + refSize + k
			if cut >= len(h) {
				continue
			}
			a, d := pbench.CAC(uint64(cut), h[:cut])
			m := clonePy(dir.pyramid)
			delete(m, rk)
			m[hex.EncodeToString(a)] = d
			early = append(early, reply{fmt.Sprintf("dir-root-node-cut-in-fork-index+%d", k), boson.NewAddress(a), nil, pyramidReply(pbench.SortedKeys(m), m, true)})
		}
	}
	// a manifest root whose node data is damaged but re-hashed (a publisher can do that)
	for i := 0; i < run.N(6, 120); i++ {
		m := clonePy(dir.pyramid)
		rk := dir.root.String()
		d := append([]byte(nil), m[rk]...)
		switch i % 4 {
		case 0:
			d[8+gen.Intn(len(d)-8)] ^= 1 << uint(gen.Intn(8))
		case 1:
			d = d[:8+gen.Intn(len(d)-8)]
			binary.LittleEndian.PutUint64(d[:8], uint64(len(d)-8))
		case 2:
			d = append(d, rnd(gen, 1+gen.Intn(64))...)
			binary.LittleEndian.PutUint64(d[:8], uint64(len(d)-8))
		default:
			copy(d[8+gen.Intn(len(d)-8):], rnd(gen, 8))
		}
		a, _ := pbench.CAC(binary.LittleEndian.Uint64(d[:8]), d[8:])
		delete(m, rk)
		nk := hex.EncodeToString(a)
		m[nk] = d
		reps = append(reps, reply{"dir-root-node-damaged-rehashed", boson.NewAddress(a), nil, pyramidReply(pbench.SortedKeys(m), m, true)})
	}
	var structured, earlyIn []in
	for i, r := range reps {
		structured = append(structured, in{fmt.Sprintf("%s#%d", r.class, i), r.b})
	}
	for _, r := range early {
		earlyIn = append(earlyIn, in{r.class, r.b})
		reps = append(reps, r)
	}
	var late []in
	for i, r := range lateHang {
		late = append(late, in{fmt.Sprintf("%s#late%d", r.class, i), r.b})
		reps = append(reps, r)
	}
	// the node asks for the root the reply is about
	rootOf := func(b []byte) (boson.Address, [][]byte) {
		// replies are distinct byte strings except the terminator-only ones, which behave
		// the same for every root
		for _, r := range reps {
			if string(r.b) == string(b) {
				return r.root, r.cids
			}
		}
		return three.root, three.cids // mutations start from the three-chunk file's reply
	}
	runEndpoint(t, run, endpoint{
		name:       "chunkinfo.pyramid-reply",
		valid:      [][]byte{pyramidReply(pbench.SortedKeys(three.pyramid), three.pyramid, true)},
		early:      earlyIn,
		structured: structured,
		late:       late,
		drive: func(b []byte, step stepFn) error {
			root, cids := rootOf(b)
			n := newCINode(self, nil, nil, b)
			cid := root
			if len(cids) > 0 {
				cid = boson.NewAddress(cids[0])
			}
			var err error
			step("OnChunkRetrieved", func() { err = n.ci.OnChunkRetrieved(cid, root, peerX) })
			followUps(n, root, cids, peerX, step)
			return err
		},
	}, run.N(40, 400))
}

func without(keys []string, k string) []string {
	var out []string
	for _, x := range keys {
		if x != k {
			out = append(out, x)
		}
	}
	return out
}

func clonePy(m map[string][]byte) map[string][]byte {
	out := make(map[string][]byte, len(m))
	for k, v := range m {
		out[k] = v
	}
	return out
}

func min(a, b int) int {
	if a < b {
		return a
	}
	return b
}
