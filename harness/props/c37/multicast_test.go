package c37

import (
	"context"
	"testing"
	"time"

	"github.com/gauss-project/aurorafs/pkg/aurora"
	"github.com/gauss-project/aurorafs/pkg/boson"
	"github.com/gauss-project/aurorafs/pkg/multicast"
	"github.com/gauss-project/aurorafs/pkg/multicast/model"
	mcpb "github.com/gauss-project/aurorafs/pkg/multicast/pb"
	"github.com/gauss-project/aurorafs/pkg/rpc"
	"github.com/gauss-project/aurorafs/pkg/subscribe"
	"verif/harness/internal/obs"
	"verif/harness/internal/pbench"
)

func TestMulticast(t *testing.T) { testMulticast(t, false) }

// TestMulticastMessage is the group-message stream (own child process: it holds the one
// input that crashes the unchanged tree from a goroutine of the service).
func TestMulticastMessage(t *testing.T) { testMulticast(t, true) }

func testMulticast(t *testing.T, messageOnly bool) {
	run := obs.Start(t, prop)
	defer run.Done()
	run.Rule(genRule+"; group node: real multicast service over a real kademlia with 3 connected peers; it has joined group g1 (with the local API subscribed to group messages and multicasts through the real in-process RPC server) and observes nothing else", genAssume...)
	gen := run.RandFor("gen/multicast")
	const networkID = 9
	self := pbench.NewIdentity(networkID, "/ip4/10.2.0.1/tcp/1634")
	var peers []*pbench.Identity
	for i := 0; i < 3; i++ {
		peers = append(peers, pbench.NewIdentity(networkID, "/ip4/10.2.0.2/tcp/180"+string(rune('0'+i))))
	}
	full := aurora.NewModel().SetMode(aurora.FullNode)
	g1 := multicast.GenerateGID("g1")
	gOther := boson.NewAddress(rnd(gen, 32))

	type node struct {
		svc  *multicast.Service
		kad  *pbench.Kad
		str  *pbench.Streamer
		stop func()
	}
	newNode := func(reply []byte, subscribed bool) *node {
		k, err := pbench.NewKad(self.Overlay, peers...)
		if err != nil {
			t.Fatal(err)
		}
		str := pbench.NewStreamer(pbench.FixedReply(reply))
		svc := multicast.NewService(self.Overlay, full, k.P2P, str, k.Kad, &pbench.Route{Neighbor: true}, pbench.Log(), subscribe.NewSubPub(), multicast.Option{Dev: true})
		if err := svc.AddGroup([]model.ConfigNodeGroup{{Name: "g1", GType: model.GTypeJoin}}); err != nil {
			t.Fatal(err)
		}
		stop := func() {}
		if subscribed {
			srv := rpc.NewServer()
			if err := srv.RegisterName("group", svc.API().Service); err != nil {
				t.Fatal(err)
			}
			cl := rpc.DialInProc(srv)
			ctx, cancel := context.WithTimeout(context.Background(), 10*time.Second)
			defer cancel()
			ch1 := make(chan interface{}, 64)
			ch2 := make(chan interface{}, 64)
			s1, err := cl.Subscribe(ctx, "group", ch1, "message", "g1")
			if err != nil {
				t.Fatalf("subscribe group message: %v", err)
			}
			s2, err := cl.Subscribe(ctx, "group", ch2, "multicast", "g1")
			if err != nil {
				t.Fatalf("subscribe multicast: %v", err)
			}
			done := make(chan struct{})
			go func() {
				for {
					select {
					case <-ch1:
					case <-ch2:
					case <-done:
						return
					}
				}
			}()
			stop = func() { close(done); s1.Unsubscribe(); s2.Unsubscribe(); cl.Close(); srv.Stop() }
		}
		return &node{svc, k, str, stop}
	}
	closeNode := func(n *node) { n.stop(); _ = n.svc.Close(); n.kad.Close() }
	follow := func(n *node, step stepFn) {
		step("Snapshot", func() { _ = n.svc.Snapshot() })
		step("GetGroupPeers", func() {
			_, _ = n.svc.GetGroupPeers("g1")
			_, _ = n.svc.GetOptimumPeer("g1")
			_, _ = n.svc.GetGroupPeers(gOther.String())
		})
		step("Multicast", func() {
			_ = n.svc.Multicast(&mcpb.MulticastMsg{Gid: g1.Bytes(), Data: []byte("x")})
			_ = n.svc.Multicast(&mcpb.MulticastMsg{Gid: gOther.Bytes(), Data: []byte("y")})
		})
		step("RemoveGroup", func() { _ = n.svc.RemoveGroup(g1, model.GTypeJoin) })
	}
	gids := func(class string, g ...[]byte) in { return in{class, pbench.Frame(&mcpb.GIDs{Gid: g})} }
	odd := [][]byte{{}, {1}, rnd(gen, 31), rnd(gen, 33), rnd(gen, 64)}
	manyG := make([][]byte, 3000)
	for i := range manyG {
		manyG[i] = rnd(gen, 32)
	}

	if !messageOnly {
		// ---- handshake (server) and Handshake (client) -----------------------------------------
		hs := []in{
			gids("gids-empty"), gids("gids-g1", g1.Bytes()), gids("gids-other", gOther.Bytes()), gids("gids-odd-lengths", odd...),
			gids("gids-duplicates", g1.Bytes(), g1.Bytes(), g1.Bytes()), gids("gids-3000", manyG...), gids("gids-self-overlay", self.Overlay.Bytes()),
			{"gids-as-varint", (&pbench.PB{}).Varint(1, 3).Framed()},
		}
		runEndpoint(t, run, endpoint{
			name: "multicast.handshake", valid: [][]byte{pbench.Frame(&mcpb.GIDs{Gid: [][]byte{g1.Bytes(), gOther.Bytes()}})}, structured: hs,
			drive: func(b []byte, step stepFn) error {
				n := newNode(nil, false)
				defer closeNode(n)
				var err error
				step("handler", func() {
					err = handlerOf(t, n.svc.Protocol(), "handshake")(context.Background(), p2pPeer(peers[0].Overlay, full), pbench.NewStream(b))
				})
				follow(n, step)
				return err
			},
		}, run.N(20, 300))
		runEndpoint(t, run, endpoint{
			name: "multicast.Handshake", valid: [][]byte{pbench.Frame(&mcpb.GIDs{Gid: [][]byte{g1.Bytes(), gOther.Bytes()}})}, structured: hs,
			drive: func(b []byte, step stepFn) error {
				n := newNode(b, false)
				defer closeNode(n)
				var err error
				step("Handshake", func() {
					ctx, cancel := context.WithTimeout(context.Background(), 5*time.Second)
					defer cancel()
					err = n.svc.Handshake(ctx, peers[1].Overlay)
				})
				follow(n, step)
				return err
			},
		}, run.N(20, 300))

		// ---- notify ----------------------------------------------------------------------------
		var ns []in
		for _, st := range []int32{0, 1, 2, 3, -1, 2147483647} {
			ns = append(ns, in{"notify-status", pbench.Frame(&mcpb.Notify{Status: st, Gids: [][]byte{g1.Bytes(), gOther.Bytes()}})})
			ns = append(ns, in{"notify-status-odd-gids", pbench.Frame(&mcpb.Notify{Status: st, Gids: odd})})
		}
		ns = append(ns, in{"notify-empty", pbench.Frame(&mcpb.Notify{})}, in{"notify-3000-gids", pbench.Frame(&mcpb.Notify{Status: 1, Gids: manyG})})
		runEndpoint(t, run, endpoint{
			name: "multicast.notify", valid: [][]byte{pbench.Frame(&mcpb.Notify{Status: 1, Gids: [][]byte{g1.Bytes()}})}, structured: ns,
			drive: func(b []byte, step stepFn) error {
				n := newNode(nil, false)
				defer closeNode(n)
				var err error
				step("handler", func() {
					err = handlerOf(t, n.svc.Protocol(), "notify")(context.Background(), p2pPeer(peers[0].Overlay, full), pbench.NewStream(b))
				})
				follow(n, step)
				return err
			},
		}, run.N(20, 300))

		// ---- findGroup (server, with forwarding whose reply is read) and its client -------------
		var fg []in
		addFG := func(class string, r *mcpb.FindGroupReq) { fg = append(fg, in{class, pbench.Frame(r)}) }
		addFG("find-empty", &mcpb.FindGroupReq{})
		addFG("find-g1", &mcpb.FindGroupReq{Gid: g1.Bytes(), Limit: 5})
		addFG("find-other", &mcpb.FindGroupReq{Gid: gOther.Bytes(), Limit: 5})
		addFG("find-limit-negative", &mcpb.FindGroupReq{Gid: g1.Bytes(), Limit: -4})
		addFG("find-limit-max", &mcpb.FindGroupReq{Gid: g1.Bytes(), Limit: 2147483647})
		addFG("find-ttl-negative", &mcpb.FindGroupReq{Gid: gOther.Bytes(), Limit: 5, Ttl: -2147483648})
		addFG("find-ttl-max", &mcpb.FindGroupReq{Gid: gOther.Bytes(), Limit: 5, Ttl: 2147483647})
		addFG("find-ttl-9", &mcpb.FindGroupReq{Gid: gOther.Bytes(), Limit: 5, Ttl: 9})
		addFG("find-paths-odd", &mcpb.FindGroupReq{Gid: gOther.Bytes(), Limit: 5, Paths: odd})
		addFG("find-paths-3000", &mcpb.FindGroupReq{Gid: gOther.Bytes(), Limit: 5, Paths: manyG})
		for _, nb := range pbench.Addrs(gen) {
			addFG("find-gid-"+nb.Name, &mcpb.FindGroupReq{Gid: nb.B, Limit: 3})
		}
		fgResp := func(a ...[]byte) []byte { return pbench.Frame(&mcpb.FindGroupResp{Addresses: a}) }
		for _, fwd := range []in{{"", nil}, {"+forward-reply-odd-addresses", fgResp(odd...)}, {"+forward-reply-garbage", rnd(gen, 50)}} {
			fwd := fwd
			nm := run.N(30, 300)
			if fwd.class != "" {
				nm = run.N(6, 60)
			}
			runEndpoint(t, run, endpoint{
				name: "multicast.findGroup" + fwd.class, valid: [][]byte{pbench.Frame(&mcpb.FindGroupReq{Gid: gOther.Bytes(), Limit: 5, Paths: [][]byte{peers[2].Overlay.Bytes()}})}, structured: fg, noRaw: fwd.class != "",
				drive: func(b []byte, step stepFn) error {
					n := newNode(fwd.b, false)
					defer closeNode(n)
					// the node knows a member of another group so that requests are forwarded
					step("setup", func() {
						_ = handlerOf(t, n.svc.Protocol(), "handshake")(context.Background(), p2pPeer(peers[1].Overlay, full), pbench.NewStream(pbench.Frame(&mcpb.GIDs{Gid: [][]byte{g1.Bytes(), rnd(gen, 32)}})))
					})
					var err error
					step("handler", func() {
						ctx, cancel := context.WithTimeout(context.Background(), 5*time.Second)
						defer cancel()
						err = handlerOf(t, n.svc.Protocol(), "findGroup")(ctx, p2pPeer(peers[0].Overlay, full), pbench.NewStream(b))
					})
					follow(n, step)
					return err
				},
			}, nm)
		}

		// ---- multicast (flooded message) -------------------------------------------------------
		var ms []in
		addM := func(class string, m *mcpb.MulticastMsg) { ms = append(ms, in{class, pbench.Frame(m)}) }
		addM("msg-empty", &mcpb.MulticastMsg{})
		addM("msg-g1", &mcpb.MulticastMsg{Id: 1, CreateTime: 1, Origin: peers[0].Overlay.Bytes(), Gid: g1.Bytes(), Data: []byte("hello")})
		addM("msg-other-group", &mcpb.MulticastMsg{Id: 2, Origin: peers[0].Overlay.Bytes(), Gid: gOther.Bytes(), Data: []byte("hello")})
		addM("msg-origin-self", &mcpb.MulticastMsg{Id: 3, Origin: self.Overlay.Bytes(), Gid: g1.Bytes()})
		addM("msg-origin-empty", &mcpb.MulticastMsg{Id: 4, Gid: g1.Bytes()})
		addM("msg-createtime-negative", &mcpb.MulticastMsg{Id: 5, CreateTime: -1 << 63, Origin: peers[0].Overlay.Bytes(), Gid: g1.Bytes()})
		addM("msg-id-max", &mcpb.MulticastMsg{Id: ^uint64(0), Origin: peers[0].Overlay.Bytes(), Gid: g1.Bytes()})
		addM("msg-data-900KB", &mcpb.MulticastMsg{Id: 6, Origin: peers[0].Overlay.Bytes(), Gid: g1.Bytes(), Data: make([]byte, 900000)})
		for _, nb := range pbench.Addrs(gen) {
			addM("msg-origin-"+nb.Name, &mcpb.MulticastMsg{Id: 7, Origin: nb.B, Gid: g1.Bytes()})
			addM("msg-gid-"+nb.Name, &mcpb.MulticastMsg{Id: 8, Origin: peers[0].Overlay.Bytes(), Gid: nb.B})
		}
		for _, sub := range []bool{false, true} {
			sub := sub
			name := "multicast.multicast"
			if sub {
				name += "+subscribed"
			}
			runEndpoint(t, run, endpoint{
				name: name, valid: [][]byte{pbench.Frame(&mcpb.MulticastMsg{Id: 77, CreateTime: 5, Origin: peers[0].Overlay.Bytes(), Gid: g1.Bytes(), Data: []byte("v")})}, structured: ms,
				drive: func(b []byte, step stepFn) error {
					n := newNode(nil, sub)
					defer closeNode(n)
					step("setup", func() {
						_ = handlerOf(t, n.svc.Protocol(), "handshake")(context.Background(), p2pPeer(peers[1].Overlay, full), pbench.NewStream(pbench.Frame(&mcpb.GIDs{Gid: [][]byte{g1.Bytes()}})))
					})
					var err error
					step("handler", func() {
						err = handlerOf(t, n.svc.Protocol(), "multicast")(context.Background(), p2pPeer(peers[0].Overlay, full), pbench.NewStream(b))
					})
					follow(n, step)
					return err
				},
			}, run.N(20, 300))
		}

	}
	if messageOnly {
		// ---- message (group message with optional session) --------------------------------------
		var gm []in
		addG := func(class string, frames ...[]byte) { gm = append(gm, in{class, pbench.Cat(frames...)}) }
		msg := func(gid []byte, typ int32, data []byte) []byte {
			return pbench.Frame(&mcpb.GroupMsg{Gid: gid, Type: typ, Data: data})
		}
		addG("gmsg-empty", pbench.Frame(&mcpb.GroupMsg{}))
		addG("gmsg-sendonly-g1", msg(g1.Bytes(), 0, []byte("a")))
		addG("gmsg-sendreceive-g1", msg(g1.Bytes(), 1, []byte("a")))
		addG("gmsg-sendstream-g1", msg(g1.Bytes(), 2, []byte("a")))
		addG("gmsg-type-negative", msg(g1.Bytes(), -1, []byte("a")))
		addG("gmsg-type-huge", msg(g1.Bytes(), 2147483647, []byte("a")))
		addG("gmsg-other-group", msg(gOther.Bytes(), 1, []byte("a")))
		addG("gmsg-err-set", pbench.Frame(&mcpb.GroupMsg{Gid: g1.Bytes(), Type: 0, Err: "%s%d boom"}))
		for _, nb := range pbench.Addrs(gen) {
			addG("gmsg-gid-"+nb.Name, msg(nb.B, 1, nil))
		}
		// a second frame after a send-receive message: the session reader of the unchanged tree
		// unmarshals it into a nil message in a goroutine of its own
		late := []in{{"gmsg-sendreceive-then-second-frame", pbench.Cat(msg(g1.Bytes(), 1, []byte("a")), msg(g1.Bytes(), 1, []byte("b")))}}
		for _, sub := range []bool{false, true} {
			sub := sub
			name := "multicast.message"
			var l []in
			if sub {
				name += "+subscribed"
				l = late
			}
			_ = l
			runEndpoint(t, run, endpoint{
				name: name, valid: [][]byte{msg(g1.Bytes(), 0, []byte("valid")), msg(g1.Bytes(), 1, []byte("valid"))}, structured: gm, early: l,
				drive: func(b []byte, step stepFn) error {
					n := newNode(nil, sub)
					defer closeNode(n)
					var err error
					step("handler", func() {
						err = handlerOf(t, n.svc.Protocol(), "message")(context.Background(), p2pPeer(peers[0].Overlay, full), pbench.NewStream(b))
					})
					follow(n, step)
					return err
				},
			}, run.N(20, 300))
		}

	}
	if !messageOnly {
		// ---- clients: Send / SendReceive replies ------------------------------------------------
		var rs []in
		rs = append(rs, in{"reply-empty-msg", pbench.Frame(&mcpb.GroupMsg{})}, in{"reply-err", pbench.Frame(&mcpb.GroupMsg{Err: "%!s(boom) %d"})},
			in{"reply-data", pbench.Frame(&mcpb.GroupMsg{Data: rnd(gen, 100)})}, in{"reply-two-frames", pbench.Cat(pbench.Frame(&mcpb.GroupMsg{Data: []byte("1")}), pbench.Frame(&mcpb.GroupMsg{Data: []byte("2")}))})
		for _, which := range []string{"Send", "SendReceive"} {
			which := which
			runEndpoint(t, run, endpoint{
				name: "multicast." + which, valid: [][]byte{pbench.Frame(&mcpb.GroupMsg{Gid: g1.Bytes(), Data: []byte("ok")})}, structured: rs,
				drive: func(b []byte, step stepFn) error {
					n := newNode(b, false)
					defer closeNode(n)
					ctx, cancel := context.WithTimeout(context.Background(), 5*time.Second)
					defer cancel()
					if which == "Send" {
						return n.svc.Send(ctx, []byte("q"), g1, peers[0].Overlay)
					}
					_, err := n.svc.SendReceive(ctx, []byte("q"), g1, peers[0].Overlay)
					return err
				},
			}, run.N(20, 200))
		}
	}
}
