package c37

import (
	"context"
	"encoding/json"
	"fmt"
	"math/big"
	"testing"
	"time"

	"github.com/ethereum/go-ethereum/common"
	"github.com/gauss-project/aurorafs/pkg/boson"
	"github.com/gauss-project/aurorafs/pkg/crypto"
	"github.com/gauss-project/aurorafs/pkg/pingpong"
	pingpb "github.com/gauss-project/aurorafs/pkg/pingpong/pb"
	"github.com/gauss-project/aurorafs/pkg/settlement/traffic"
	"github.com/gauss-project/aurorafs/pkg/settlement/traffic/cheque"
	"github.com/gauss-project/aurorafs/pkg/settlement/traffic/trafficprotocol"
	trafficpb "github.com/gauss-project/aurorafs/pkg/settlement/traffic/trafficprotocol/pb"
	"github.com/gauss-project/aurorafs/pkg/storage"
	"github.com/gauss-project/aurorafs/pkg/subscribe"
	"verif/harness/internal/obs"
	"verif/harness/internal/pbench"
)

func TestPingpong(t *testing.T) {
	run := obs.Start(t, prop)
	defer run.Done()
	run.Rule(genRule, genAssume...)
	gen := run.RandFor("gen/pingpong")
	peer := boson.NewAddress(rnd(gen, 32))
	var pings []in
	for _, g := range []string{"", "hey", string(make([]byte, 100000)), string([]byte{0xff, 0xfe, 0x00}), "%s%d%!"} {
		pings = append(pings, in{fmt.Sprintf("ping-greeting-len%d", len(g)), pbench.Frame(&pingpb.Ping{Greeting: g})})
	}
	many := []byte{}
	for i := 0; i < 500; i++ {
		many = append(many, pbench.Frame(&pingpb.Ping{Greeting: "x"})...)
	}
	pings = append(pings, in{"ping-500-messages", many}, in{"ping-greeting-as-varint", (&pbench.PB{}).Varint(1, 5).Framed()})
	runEndpoint(t, run, endpoint{
		name: "pingpong.handler", valid: [][]byte{pbench.Cat(pbench.Frame(&pingpb.Ping{Greeting: "a"}), pbench.Frame(&pingpb.Ping{Greeting: "b"}))}, structured: pings,
		drive: func(b []byte, step stepFn) error {
			s := pingpong.New(pbench.NewStreamer(nil), pbench.Log(), nil)
			return handlerOf(t, s.Protocol(), "pingpong")(context.Background(), fullPeer(peer), pbench.NewStream(b))
		},
	}, run.N(40, 400))
	runEndpoint(t, run, endpoint{
		name: "pingpong.Ping", valid: [][]byte{pbench.Cat(pbench.Frame(&pingpb.Pong{Response: "{a}"}), pbench.Frame(&pingpb.Pong{Response: "{b}"}))}, structured: pings,
		drive: func(b []byte, step stepFn) error {
			s := pingpong.New(pbench.NewStreamer(pbench.FixedReply(b)), pbench.Log(), nil)
			_, err := s.Ping(context.Background(), peer, "a", "b", "c")
			return err
		},
	}, run.N(40, 400))
}

func TestTraffic(t *testing.T) {
	run := obs.Start(t, prop)
	defer run.Done()
	run.Rule(genRule+"; settlement node: real traffic service, cheque store, address book and cheque signature recovery; the peer is either unknown or has completed the init handshake", genAssume...)
	gen := run.RandFor("gen/traffic")
	const chainID = 7
	selfKey, _ := crypto.GenerateSecp256k1Key()
	peerKey, _ := crypto.GenerateSecp256k1Key()
	selfSigner, peerSigner := crypto.NewDefaultSigner(selfKey), crypto.NewDefaultSigner(peerKey)
	selfEth, _ := selfSigner.EthereumAddress()
	peerEth, _ := peerSigner.EthereumAddress()
	peer := boson.NewAddress(rnd(gen, 32))
	stranger := boson.NewAddress(rnd(gen, 32))

	type node struct {
		svc   *traffic.Service
		proto *trafficprotocol.Service
		state storage.StateStorer
		str   *pbench.Streamer
	}
	build := func(state storage.StateStorer, reply []byte) *node {
		str := pbench.NewStreamer(pbench.FixedReply(reply))
		proto := trafficprotocol.New(str, pbench.Log(), selfEth)
		cs := cheque.NewChequeStore(state, selfEth, cheque.RecoverCheque, chainID)
		svc := traffic.New(pbench.Log(), selfEth, state, pbench.ChainTraffic{Balance: 1000000}, cs, nil, pbench.NewP2P(), traffic.NewAddressBook(state),
			cheque.NewChequeSigner(selfSigner, chainID), proto, chainID, subscribe.NewSubPub())
		proto.SetTraffic(svc)
		return &node{svc, proto, state, str}
	}
	// the peer has shaken hands: its beneficiary is known
	newNode := func(known bool, reply []byte) *node {
		n := build(pbench.StateStore(), reply)
		if known {
			if err := n.svc.Handshake(peer, peerEth, cheque.SignedCheque{}); err != nil {
				t.Fatalf("handshake: %v", err)
			}
		}
		return n
	}
	follow := func(n *node, step stepFn) {
		step("LastReceivedCheque", func() {
			for _, p := range []boson.Address{peer, stranger} {
				if c, err := n.svc.LastReceivedCheque(p); err == nil && c != nil {
					_ = c.String()
				}
			}
		})
		step("TrafficCheques", func() { _, _ = n.svc.TrafficCheques() })
		step("TrafficInfo", func() { _, _ = n.svc.TrafficInfo() })
		step("AvailableBalance", func() { _, _ = n.svc.AvailableBalance() })
		step("balances", func() {
			_, _ = n.svc.GetPeerBalance(peer)
			_, _ = n.svc.GetUnPaidBalance(peer)
			_, _ = n.svc.TransferTraffic(peer)
			_, _ = n.svc.RetrieveTraffic(peer)
		})
		step("restart+Init", func() {
			n2 := build(n.state, nil)
			_ = n2.svc.Init()
			_, _ = n2.svc.TrafficCheques()
			_, _ = n2.svc.LastReceivedCheque(peer)
		})
	}

	sign := func(c cheque.Cheque, s cheque.ChequeSigner) []byte {
		sig, err := s.Sign(&c)
		if err != nil {
			t.Fatal(err)
		}
		b, _ := json.Marshal(&cheque.SignedCheque{Cheque: c, Signature: sig})
		return b
	}
	peerChequeSigner := cheque.NewChequeSigner(peerSigner, chainID)
	goodCheque := sign(cheque.Cheque{Recipient: selfEth, Beneficiary: peerEth, CumulativePayout: big.NewInt(500)}, peerChequeSigner)
	emit := func(addr []byte, js string) []byte {
		return pbench.Frame(&trafficpb.EmitCheque{Address: addr, SignedCheque: []byte(js)})
	}
	rh, bh := selfEth.Hex(), peerEth.Hex()
	jsons := []struct{ class, js string }{
		{"json-null", `null`},
		{"json-empty-object", `{}`},
		{"json-empty", ``},
		{"json-array", `[]`},
		{"json-number", `1`},
		{"json-string", `"x"`},
		{"json-payout-null", fmt.Sprintf(`{"Recipient":"%s","Beneficiary":"%s","CumulativePayout":null,"Signature":"AAAA"}`, rh, bh)},
		{"json-payout-missing", fmt.Sprintf(`{"Recipient":"%s","Beneficiary":"%s","Signature":"AAAA"}`, rh, bh)},
		{"json-payout-missing-signature-65", fmt.Sprintf(`{"Recipient":"%s","Beneficiary":"%s","Signature":"%s"}`, rh, bh, b64(append(rnd(gen, 64), 27)))},
		{"json-payout-null-signature-65", fmt.Sprintf(`{"Recipient":"%s","Beneficiary":"%s","CumulativePayout":null,"Signature":"%s"}`, rh, bh, b64(append(rnd(gen, 64), 28)))},
		{"json-payout-negative", fmt.Sprintf(`{"Recipient":"%s","Beneficiary":"%s","CumulativePayout":-5,"Signature":"%s"}`, rh, bh, b64(append(rnd(gen, 64), 27)))},
		{"json-payout-huge", fmt.Sprintf(`{"Recipient":"%s","Beneficiary":"%s","CumulativePayout":1%0300d,"Signature":"%s"}`, rh, bh, 0, b64(append(rnd(gen, 64), 27)))},
		{"json-payout-float", fmt.Sprintf(`{"Recipient":"%s","Beneficiary":"%s","CumulativePayout":1.5}`, rh, bh)},
		{"json-payout-string", fmt.Sprintf(`{"Recipient":"%s","Beneficiary":"%s","CumulativePayout":"12"}`, rh, bh)},
		{"json-signature-null", fmt.Sprintf(`{"Recipient":"%s","Beneficiary":"%s","CumulativePayout":5,"Signature":null}`, rh, bh)},
		{"json-signature-empty", fmt.Sprintf(`{"Recipient":"%s","Beneficiary":"%s","CumulativePayout":5,"Signature":""}`, rh, bh)},
		{"json-signature-short", fmt.Sprintf(`{"Recipient":"%s","Beneficiary":"%s","CumulativePayout":5,"Signature":"AAAA"}`, rh, bh)},
		{"json-signature-66", fmt.Sprintf(`{"Recipient":"%s","Beneficiary":"%s","CumulativePayout":5,"Signature":"%s"}`, rh, bh, b64(rnd(gen, 66)))},
		{"json-signature-zero-65", fmt.Sprintf(`{"Recipient":"%s","Beneficiary":"%s","CumulativePayout":5,"Signature":"%s"}`, rh, bh, b64(make([]byte, 65)))},
		{"json-signature-not-base64", fmt.Sprintf(`{"Recipient":"%s","Beneficiary":"%s","CumulativePayout":5,"Signature":"@@@"}`, rh, bh)},
		{"json-recipient-short", fmt.Sprintf(`{"Recipient":"0x12","Beneficiary":"%s","CumulativePayout":5}`, bh)},
		{"json-recipient-null", fmt.Sprintf(`{"Recipient":null,"Beneficiary":"%s","CumulativePayout":5,"Signature":"%s"}`, bh, b64(append(rnd(gen, 64), 27)))},
		{"json-recipient-other", fmt.Sprintf(`{"Recipient":"%s","Beneficiary":"%s","CumulativePayout":5,"Signature":"%s"}`, bh, bh, b64(append(rnd(gen, 64), 27)))},
		{"json-beneficiary-other", fmt.Sprintf(`{"Recipient":"%s","Beneficiary":"%s","CumulativePayout":5,"Signature":"%s"}`, rh, rh, b64(append(rnd(gen, 64), 27)))},
		{"json-nested-cheque-object", fmt.Sprintf(`{"Cheque":{"Recipient":"%s"},"Signature":"AAAA"}`, rh)},
		{"json-duplicate-keys", fmt.Sprintf(`{"CumulativePayout":5,"CumulativePayout":null,"Recipient":"%s","Beneficiary":"%s","Signature":"%s"}`, rh, bh, b64(append(rnd(gen, 64), 27)))},
		{"json-deep-nesting", string(repeat('[', 20000))},
		{"json-valid-signed-by-self", string(sign(cheque.Cheque{Recipient: selfEth, Beneficiary: peerEth, CumulativePayout: big.NewInt(9)}, cheque.NewChequeSigner(selfSigner, chainID)))},
		{"json-valid-zero-payout", string(sign(cheque.Cheque{Recipient: selfEth, Beneficiary: peerEth, CumulativePayout: big.NewInt(0)}, peerChequeSigner))},
		{"json-valid-wrong-chain", string(sign(cheque.Cheque{Recipient: selfEth, Beneficiary: peerEth, CumulativePayout: big.NewInt(9)}, cheque.NewChequeSigner(peerSigner, 99)))},
		{"json-valid-to-other-recipient", string(sign(cheque.Cheque{Recipient: peerEth, Beneficiary: peerEth, CumulativePayout: big.NewInt(9)}, peerChequeSigner))},
	}
	var structured []in
	for _, j := range jsons {
		structured = append(structured, in{j.class, emit(peerEth.Bytes(), j.js)})
	}
	for _, nb := range pbench.Addrs(gen) {
		structured = append(structured, in{"emit-address-" + nb.Name, emit(nb.B, string(goodCheque))})
	}
	structured = append(structured, in{"emit-empty", pbench.Frame(&trafficpb.EmitCheque{})})
	structured = append(structured, in{"emit-cheque-as-varint", (&pbench.PB{}).Bytes(1, peerEth.Bytes()).Varint(2, 3).Framed()})
	valid := [][]byte{emit(peerEth.Bytes(), string(goodCheque))}

	for _, known := range []bool{true, false} {
		known := known
		tag := "+known-peer"
		if !known {
			tag = "+unknown-peer"
		}
		runEndpoint(t, run, endpoint{
			name: "traffic.handler" + tag, valid: valid, structured: structured,
			drive: func(b []byte, step stepFn) error {
				n := newNode(known, nil)
				var err error
				step("handler", func() {
					err = handlerOf(t, n.proto.Protocol(), "traffic")(context.Background(), fullPeer(peer), pbench.NewStream(b))
				})
				follow(n, step)
				return err
			},
		}, run.N(40, 400))
		runEndpoint(t, run, endpoint{
			name: "traffic.initHandler" + tag, valid: valid, structured: structured,
			drive: func(b []byte, step stepFn) error {
				n := newNode(known, nil)
				var err error
				step("handler", func() {
					err = handlerOf(t, n.proto.Protocol(), "init")(context.Background(), fullPeer(peer), pbench.NewStream(b))
				})
				follow(n, step)
				return err
			},
		}, run.N(40, 400))
		runEndpoint(t, run, endpoint{
			name: "traffic.init" + tag, valid: valid, structured: structured,
			drive: func(b []byte, step stepFn) error {
				n := newNode(known, b)
				var err error
				step("ConnectOut", func() {
					ctx, cancel := context.WithTimeout(context.Background(), 5*time.Second)
					defer cancel()
					err = n.proto.Protocol().ConnectOut(ctx, fullPeer(peer))
				})
				follow(n, step)
				return err
			},
		}, run.N(30, 300))
	}
}

func b64(b []byte) string {
	j, _ := json.Marshal(b)
	return string(j[1 : len(j)-1])
}

func repeat(c byte, n int) []byte {
	b := make([]byte, n)
	for i := range b {
		b[i] = c
	}
	return b
}

var _ = common.Address{}
