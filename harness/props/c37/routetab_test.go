package c37

import (
	"context"
	"testing"
	"time"

	"github.com/gauss-project/aurorafs/pkg/aurora"
	"github.com/gauss-project/aurorafs/pkg/boson"
	"github.com/gauss-project/aurorafs/pkg/routetab"
	routepb "github.com/gauss-project/aurorafs/pkg/routetab/pb"
	"github.com/gauss-project/aurorafs/pkg/storage"
	"verif/harness/internal/obs"
	"verif/harness/internal/pbench"
)

func TestRoutetab(t *testing.T) {
	run := obs.Start(t, prop)
	defer run.Done()
	run.Rule(genRule+"; route node: real kademlia with 4 connected peers, real address book, persistent route table (restart re-loads it)", genAssume...)
	gen := run.RandFor("gen/routetab")
	const networkID = 5
	self := pbench.NewIdentity(networkID, "/ip4/10.1.0.1/tcp/1634")
	var peers []*pbench.Identity
	for i := 0; i < 4; i++ {
		peers = append(peers, pbench.NewIdentity(networkID, "/ip4/10.1.0.2/tcp/170"+string(rune('0'+i))))
	}
	far := pbench.NewIdentity(networkID, "/ip4/10.1.0.9/tcp/1709") // not connected, known by nobody
	full := aurora.NewModel().SetMode(aurora.FullNode)

	type node struct {
		svc   *routetab.Service
		kad   *pbench.Kad
		str   *pbench.Streamer
		state storage.StateStorer
		stop  context.CancelFunc
	}
	newNode := func(reply []byte) *node {
		k, err := pbench.NewKad(self.Overlay, peers...)
		if err != nil {
			t.Fatal(err)
		}
		str := pbench.NewStreamer(pbench.FixedReply(reply))
		st := pbench.StateStore()
		ctx, cancel := context.WithCancel(context.Background())
		svc := routetab.New(self.Overlay, ctx, k.P2P, str, k.Book, networkID, k.Light, k.Kad, st, pbench.Log(), routetab.Options{Alpha: 2})
		return &node{svc, k, str, st, cancel}
	}
	closeNode := func(n *node) { n.stop(); n.kad.Close() }
	follow := func(n *node, dests [][]byte, step stepFn) {
		for _, d := range dests {
			d := boson.NewAddress(d)
			step("GetRoute", func() {
				ps, err := n.svc.GetRoute(context.Background(), d)
				if err == nil {
					for _, p := range ps {
						for _, it := range p.Items {
							_ = it.String()
						}
					}
					ctx, cancel := context.WithTimeout(context.Background(), 30*time.Millisecond)
					_, _ = n.svc.GetNextHopRandomOrFind(ctx, d)
					cancel()
				}
			})
			step("DelRoute", func() { _ = n.svc.DelRoute(context.Background(), d) })
		}
		step("restart", func() {
			ctx, cancel := context.WithCancel(context.Background())
			defer cancel()
			s2 := routetab.New(self.Overlay, ctx, n.kad.P2P, n.str, n.kad.Book, networkID, n.kad.Light, n.kad.Kad, n.state, pbench.Log(), routetab.Options{Alpha: 2})
			for _, d := range dests {
				_, _ = s2.GetRoute(context.Background(), boson.NewAddress(d))
			}
		})
		step("addressbook", func() {
			as, _ := n.kad.Book.Addresses()
			for _, a := range as {
				_ = a.Overlay.String()
			}
		})
	}

	// ---- onRouteReq / onRouteResp -----------------------------------------------------------
	path := func(items ...[]byte) *routepb.Path {
		return &routepb.Path{Sign: rnd(gen, 32), Bodys: [][]byte{rnd(gen, 8)}, Items: items}
	}
	ul := func(id *pbench.Identity) *routepb.UnderlayResp {
		return &routepb.UnderlayResp{Dest: id.Overlay.Bytes(), Underlay: id.Addr.Underlay.Bytes(), Signature: id.Addr.Signature}
	}
	a1, a2, a3 := rnd(gen, 32), rnd(gen, 32), rnd(gen, 32)
	var reqs, resps []in
	addReq := func(class string, r *routepb.RouteReq) { reqs = append(reqs, in{class, pbench.Frame(r)}) }
	addResp := func(class string, r *routepb.RouteResp) { resps = append(resps, in{class, pbench.Frame(r)}) }
	type shape struct {
		class string
		dest  []byte
		paths []*routepb.Path
		ulist []*routepb.UnderlayResp
		utype int32
	}
	long := make([][]byte, 0, 12)
	for i := 0; i < 12; i++ {
		long = append(long, rnd(gen, 32))
	}
	shapes := []shape{
		{"empty", nil, nil, nil, 0},
		{"dest-self", self.Overlay.Bytes(), []*routepb.Path{path(a1, peers[0].Overlay.Bytes())}, nil, 1},
		{"dest-neighbor", peers[1].Overlay.Bytes(), []*routepb.Path{path(a1, peers[0].Overlay.Bytes())}, nil, 1},
		{"dest-far", far.Overlay.Bytes(), []*routepb.Path{path(a1, a2, peers[0].Overlay.Bytes())}, []*routepb.UnderlayResp{ul(far)}, 1},
		{"path-items-empty", a3, []*routepb.Path{{Sign: rnd(gen, 32)}}, nil, 0},
		{"path-one-item", a3, []*routepb.Path{path(a1)}, nil, 0},
		{"path-empty-message", a3, []*routepb.Path{{}}, nil, 0},
		{"path-contains-self", a3, []*routepb.Path{path(a1, self.Overlay.Bytes(), a2)}, nil, 0},
		{"path-over-ttl", a3, []*routepb.Path{path(long...)}, nil, 0},
		{"path-items-odd-lengths", a3, []*routepb.Path{path([]byte{}, []byte{1}, rnd(gen, 31), rnd(gen, 33), rnd(gen, 64))}, nil, 0},
		{"path-items-duplicate", a3, []*routepb.Path{path(a1, a1, a1)}, nil, 0},
		{"paths-many", a3, []*routepb.Path{path(a1, a2), path(a2, a1), path(a1, a3), path(a3, a2, a1), path(a2, a3)}, nil, 0},
		{"path-sign-empty-bodys-empty", a3, []*routepb.Path{{Items: [][]byte{a1, a2}}}, nil, 0},
		{"path-bodys-huge", a3, []*routepb.Path{{Sign: rnd(gen, 32), Bodys: [][]byte{make([]byte, 100000)}, Items: [][]byte{a1, a2}}}, nil, 0},
		{"ulist-entry-empty", a3, []*routepb.Path{path(a1, a2)}, []*routepb.UnderlayResp{{}}, 1},
		{"ulist-bad-signature", a3, []*routepb.Path{path(a1, a2)}, []*routepb.UnderlayResp{{Dest: far.Overlay.Bytes(), Underlay: far.Addr.Underlay.Bytes(), Signature: rnd(gen, 65)}}, 1},
		{"ulist-short-fields", a3, []*routepb.Path{path(a1, a2)}, []*routepb.UnderlayResp{{Dest: []byte{1}, Underlay: []byte{2}, Signature: []byte{3}}}, 1},
		{"utype-negative", a3, []*routepb.Path{path(a1, a2)}, nil, -7},
		{"utype-huge", a3, []*routepb.Path{path(a1, a2)}, nil, 2147483647},
	}
	for _, nb := range pbench.Addrs(gen) {
		shapes = append(shapes, shape{"dest-" + nb.Name, nb.B, []*routepb.Path{path(a1, peers[0].Overlay.Bytes())}, nil, 1})
	}
	var dests [][]byte
	for _, s := range shapes {
		dests = append(dests, s.dest)
		addReq("req-"+s.class, &routepb.RouteReq{Dest: s.dest, Alpha: 2, Paths: s.paths, UType: s.utype, UList: s.ulist})
		addResp("resp-"+s.class, &routepb.RouteResp{Dest: s.dest, Paths: s.paths, UType: s.utype, UList: s.ulist})
	}
	dests = append(dests, a1, a2)
	{ // follow-ups look at each distinct destination once
		seen := map[string]bool{}
		var u [][]byte
		for _, d := range dests {
			if !seen[string(d)] {
				seen[string(d)] = true
				u = append(u, d)
			}
		}
		dests = u
	}
	addReq("req-alpha-negative", &routepb.RouteReq{Dest: far.Overlay.Bytes(), Alpha: -3, Paths: []*routepb.Path{path(a1, a2)}})
	addReq("req-alpha-huge", &routepb.RouteReq{Dest: far.Overlay.Bytes(), Alpha: 2147483647, Paths: []*routepb.Path{path(a1, a2)}})
	reqs = append(reqs, in{"req-paths-as-varint", (&pbench.PB{}).Bytes(1, a3).Varint(3, 9).Framed()})
	reqs = append(reqs, in{"req-path-nested-items-as-varint", (&pbench.PB{}).Bytes(1, a3).Msg(3, (&pbench.PB{}).Varint(3, 1)).Framed()})
	for _, h := range []struct {
		name, stream string
		valid        []byte
		structured   []in
	}{
		{"routetab.onRouteReq", "onRouteReq", pbench.Frame(&routepb.RouteReq{Dest: far.Overlay.Bytes(), Alpha: 2, Paths: []*routepb.Path{path(a1, a2, peers[0].Overlay.Bytes())}, UType: 1, UList: []*routepb.UnderlayResp{ul(far)}}), reqs},
		{"routetab.onRouteResp", "onRouteResp", pbench.Frame(&routepb.RouteResp{Dest: far.Overlay.Bytes(), Paths: []*routepb.Path{path(far.Overlay.Bytes(), a2, peers[0].Overlay.Bytes())}, UType: 1, UList: []*routepb.UnderlayResp{ul(far)}}), resps},
	} {
		h := h
		runEndpoint(t, run, endpoint{
			name: h.name, valid: [][]byte{h.valid}, structured: h.structured,
			drive: func(b []byte, step stepFn) error {
				n := newNode(nil)
				defer closeNode(n)
				hd := handlerOf(t, n.svc.Protocol(), h.stream)
				ctx, cancel := context.WithTimeout(context.Background(), 2*time.Second)
				defer cancel()
				var err error
				step("handler", func() { err = hd(ctx, p2pPeer(peers[0].Overlay, full), pbench.NewStream(b)) })
				follow(n, dests, step)
				return err
			},
		}, run.N(40, 400))
	}

	// ---- onFindUnderlay (server) and FindUnderlay (client) ----------------------------------
	var ureqs []in
	for _, nb := range pbench.Addrs(gen) {
		ureqs = append(ureqs, in{"ureq-dest-" + nb.Name, pbench.Frame(&routepb.UnderlayReq{Dest: nb.B})})
	}
	ureqs = append(ureqs, in{"ureq-empty", pbench.Frame(&routepb.UnderlayReq{})}, in{"ureq-dest-known", pbench.Frame(&routepb.UnderlayReq{Dest: peers[2].Overlay.Bytes()})})
	runEndpoint(t, run, endpoint{
		name: "routetab.onFindUnderlay", valid: [][]byte{pbench.Frame(&routepb.UnderlayReq{Dest: peers[2].Overlay.Bytes()})}, structured: ureqs,
		drive: func(b []byte, step stepFn) error {
			n := newNode(nil)
			defer closeNode(n)
			return handlerOf(t, n.svc.Protocol(), "onFindUnderlay")(context.Background(), p2pPeer(peers[0].Overlay, full), pbench.NewStream(b))
		},
	}, run.N(30, 300))
	var ureps []in
	addURep := func(class string, r *routepb.UnderlayResp) { ureps = append(ureps, in{class, pbench.Frame(r)}) }
	addURep("urep-empty", &routepb.UnderlayResp{})
	addURep("urep-other-node", ul(peers[3]))
	for _, nb := range pbench.Addrs(gen) {
		addURep("urep-dest-"+nb.Name, &routepb.UnderlayResp{Dest: nb.B, Underlay: far.Addr.Underlay.Bytes(), Signature: far.Addr.Signature})
		addURep("urep-underlay-"+nb.Name, &routepb.UnderlayResp{Dest: far.Overlay.Bytes(), Underlay: nb.B, Signature: far.Addr.Signature})
		addURep("urep-signature-"+nb.Name, &routepb.UnderlayResp{Dest: far.Overlay.Bytes(), Underlay: far.Addr.Underlay.Bytes(), Signature: nb.B})
	}
	runEndpoint(t, run, endpoint{
		name: "routetab.FindUnderlay", valid: [][]byte{pbench.Frame(ul(far))}, structured: ureps,
		drive: func(b []byte, step stepFn) error {
			n := newNode(b)
			defer closeNode(n)
			a, err := n.svc.FindUnderlay(context.Background(), far.Overlay, time.Second)
			if err == nil {
				_ = a.Underlay.String()
				_, _ = n.kad.Book.Get(far.Overlay)
			}
			return err
		},
	}, run.N(30, 300))

	// ---- relay handlers ----------------------------------------------------------------------
	relay := func(class string, r *routepb.RouteRelayReq) in { return in{class, pbench.Frame(r)} }
	var relays []in
	base := func() *routepb.RouteRelayReq {
		return &routepb.RouteRelayReq{Src: rnd(gen, 32), SrcMode: full.Bv.Bytes(), Dest: peers[1].Overlay.Bytes(), ProtocolName: []byte("pingpong"), ProtocolVersion: []byte("1.0.0"), StreamName: []byte("pingpong"), Data: rnd(gen, 20), Paths: [][]byte{a1}}
	}
	relays = append(relays, relay("relay-empty", &routepb.RouteRelayReq{}))
	{
		r := base()
		r.Dest = self.Overlay.Bytes()
		relays = append(relays, relay("relay-dest-self", r))
		r2 := base()
		r2.Dest = self.Overlay.Bytes()
		r2.SrcMode = nil
		relays = append(relays, relay("relay-dest-self-srcmode-empty", r2))
		r3 := base()
		r3.Dest = self.Overlay.Bytes()
		r3.SrcMode = rnd(gen, 40)
		relays = append(relays, relay("relay-dest-self-srcmode-long", r3))
		r4 := base()
		r4.Dest = far.Overlay.Bytes()
		relays = append(relays, relay("relay-dest-unknown", r4))
		r5 := base()
		r5.Paths = [][]byte{{}, {1}, rnd(gen, 31), rnd(gen, 33), self.Overlay.Bytes(), peers[1].Overlay.Bytes()}
		relays = append(relays, relay("relay-paths-odd-lengths", r5))
		r6 := base()
		r6.ProtocolName, r6.ProtocolVersion, r6.StreamName = nil, nil, nil
		r6.Dest = self.Overlay.Bytes()
		relays = append(relays, relay("relay-names-empty", r6))
		r7 := base()
		r7.Paths = make([][]byte, 5000)
		relays = append(relays, relay("relay-paths-5000-empty", r7))
	}
	for _, nb := range pbench.Addrs(gen) {
		r := base()
		r.Dest = nb.B
		relays = append(relays, relay("relay-dest-"+nb.Name, r))
		r2 := base()
		r2.Src = nb.B
		r2.Dest = self.Overlay.Bytes()
		relays = append(relays, relay("relay-src-"+nb.Name, r2))
	}
	for _, h := range []struct{ name, stream string }{{"routetab.onRelay", routetab.StreamOnRelay}, {"routetab.onRelayConnChain", routetab.StreamOnRelayConnChain}} {
		h := h
		for _, fwd := range []struct {
			tag   string
			reply []byte
		}{{"", nil}, {"+next-hop-garbage", pbench.Cat(pbench.Frame(&routepb.RouteRelayResp{Data: rnd(gen, 10)}), rnd(gen, 30))}} {
			fwd := fwd
			nm := run.N(30, 300)
			if fwd.tag != "" {
				nm = run.N(6, 60)
			}
			runEndpoint(t, run, endpoint{
				name: h.name + fwd.tag, valid: [][]byte{pbench.Frame(base())}, structured: relays, noRaw: fwd.tag != "",
				drive: func(b []byte, step stepFn) error {
					n := newNode(fwd.reply)
					defer closeNode(n)
					ctx, cancel := context.WithTimeout(context.Background(), 150*time.Millisecond)
					defer cancel()
					return handlerOf(t, n.svc.Protocol(), h.stream)(ctx, p2pPeer(peers[0].Overlay, full), pbench.NewStream(b))
				},
			}, nm)
		}
	}
}
