package c23

import (
	"bytes"
	"context"
	"errors"
	"fmt"
	"math/rand"
	"testing"

	"github.com/gauss-project/aurorafs/pkg/boson"
	"github.com/gauss-project/aurorafs/pkg/p2p"
	"github.com/gauss-project/aurorafs/pkg/topology"
	"verif/harness/internal/kadrig"
	"verif/harness/internal/obs"
	"verif/harness/internal/spec"
)

type peer struct {
	addr      []byte
	bin       int
	connected bool
	reachable bool   // last reported status is public
	status    string // public | private | never
}

type world struct {
	base  []byte
	own   string // own reachability: unset | public | private
	peers []*peer
	rig   *kadrig.Rig
}

func short(b []byte) string { return fmt.Sprintf("%x", b[:5]) }

func buildWorld(t *testing.T, rng *rand.Rand, st map[string]int64) *world {
	w := &world{base: make([]byte, 32)}
	rng.Read(w.base)
	w.rig = kadrig.New(t, kadrig.Options{Base: w.base, BinMaxPeers: 20})
	k := w.rig.Kad
	w.own = []string{"unset", "public", "public", "private"}[rng.Intn(4)]
	switch w.own {
	case "public":
		k.UpdateReachability(p2p.ReachabilityStatusPublic)
	case "private":
		k.UpdateReachability(p2p.ReachabilityStatusPrivate)
	}
	n := []int{0, 1, 2, 3, 5, 8, 13, 20, 30, 40}[rng.Intn(10)]
	pubProb := []int{100, 80, 50, 0}[rng.Intn(4)]
	for i := 0; i < n; i++ {
		var bin int
		switch rng.Intn(6) {
		case 0:
			bin = 7 + rng.Intn(25)
		case 1:
			bin = 31 + rng.Intn(60) // beyond the cap
		default:
			bin = rng.Intn(7)
		}
		p := &peer{addr: spec.AddrAt(rng, w.base, bin), bin: bin, connected: true, status: "never"}
		if i > 0 && rng.Intn(8) == 0 {
			// a sibling of an existing peer: long common prefix, so distances are close
			q := w.peers[rng.Intn(len(w.peers))]
			p.addr = spec.AddrAt(rng, q.addr, 100+rng.Intn(150))
		}
		if rng.Intn(100) < pubProb {
			p.status = "public"
		} else if rng.Intn(2) == 0 {
			p.status = "private"
		}
		p.reachable = p.status == "public"
		p.bin = spec.Bin(w.base, p.addr, 31, 32)
		w.peers = append(w.peers, p)
		var err error
		if rng.Intn(3) == 0 {
			k.Outbound(kadrig.Peer(p.addr, kadrig.FullMode()))
		} else {
			err = k.Connected(context.Background(), kadrig.Peer(p.addr, kadrig.FullMode()), rng.Intn(2) == 0)
		}
		if err != nil {
			if errors.Is(err, topology.ErrOversaturated) {
				p.connected = false
			} else {
				t.Fatalf("harness: Connected: %v", err)
			}
		}
		switch p.status {
		case "public":
			k.Reachable(boson.NewAddress(p.addr), p2p.ReachabilityStatusPublic)
		case "private":
			k.Reachable(boson.NewAddress(p.addr), p2p.ReachabilityStatusPrivate)
		}
	}
	// peers that are known or were connected but are not connected now: never eligible
	for i := 0; i < rng.Intn(4); i++ {
		p := &peer{addr: spec.AddrAt(rng, w.base, rng.Intn(8)), status: "public", reachable: true}
		if rng.Intn(2) == 0 {
			k.AddPeers(boson.NewAddress(p.addr))
		} else {
			_ = k.Connected(context.Background(), kadrig.Peer(p.addr, kadrig.FullMode()), true)
			k.Reachable(boson.NewAddress(p.addr), p2p.ReachabilityStatusPublic)
			k.Disconnected(kadrig.Peer(p.addr, kadrig.FullMode()), "bye")
		}
		w.peers = append(w.peers, p)
		st["unconnected_known_peers"]++
	}
	return w
}

func (w *world) connected() []*peer {
	var out []*peer
	for _, p := range w.peers {
		if p.connected {
			out = append(out, p)
		}
	}
	return out
}

func (w *world) find(a []byte) *peer {
	for _, p := range w.peers {
		if bytes.Equal(p.addr, a) {
			return p
		}
	}
	return nil
}

type query struct {
	target      []byte
	targetKind  string
	skip        [][]byte
	skipKind    string
	reachable   bool
	includeSelf bool
}

func (w *world) genQuery(rng *rand.Rand) query {
	q := query{reachable: rng.Intn(2) == 0, includeSelf: rng.Intn(2) == 0}
	conn := w.connected()
	kinds := []string{"random", "random", "near-base", "equal-base"}
	if len(conn) > 0 {
		kinds = append(kinds, "equal-peer", "near-peer", "near-peer", "sibling-of-peer")
	}
	q.targetKind = kinds[rng.Intn(len(kinds))]
	switch q.targetKind {
	case "random":
		q.target = make([]byte, 32)
		rng.Read(q.target)
	case "near-base":
		q.target = spec.AddrAt(rng, w.base, 8+rng.Intn(240))
	case "equal-base":
		q.target = append([]byte(nil), w.base...)
	case "equal-peer":
		q.target = append([]byte(nil), conn[rng.Intn(len(conn))].addr...)
	case "near-peer":
		q.target = spec.AddrAt(rng, conn[rng.Intn(len(conn))].addr, 40+rng.Intn(200))
	case "sibling-of-peer":
		q.target = spec.AddrAt(rng, conn[rng.Intn(len(conn))].addr, rng.Intn(12))
	}
	sk := []string{"none", "none", "some", "some", "all", "strangers", "nearest-few", "duplicates"}
	q.skipKind = sk[rng.Intn(len(sk))]
	switch q.skipKind {
	case "some":
		for _, p := range conn {
			if rng.Intn(3) == 0 {
				q.skip = append(q.skip, p.addr)
			}
		}
	case "all":
		for _, p := range conn {
			q.skip = append(q.skip, p.addr)
		}
	case "strangers":
		for i := 0; i < 1+rng.Intn(3); i++ {
			a := make([]byte, 32)
			rng.Read(a)
			q.skip = append(q.skip, a)
		}
		for _, p := range w.peers {
			if !p.connected {
				q.skip = append(q.skip, p.addr)
			}
		}
	case "nearest-few":
		var c [][]byte
		for _, p := range conn {
			c = append(c, p.addr)
		}
		ord := spec.ClosestOrder(q.target, c)
		n := rng.Intn(4)
		if n > len(ord) {
			n = len(ord)
		}
		q.skip = ord[:n]
	case "duplicates":
		for _, p := range conn {
			if rng.Intn(3) == 0 {
				q.skip = append(q.skip, p.addr, p.addr)
			}
		}
	}
	return q
}

// eligible returns the connected, not skipped (and reachable, when requested) peers
// sorted by XOR distance to the target.
func (w *world) eligible(q query) [][]byte {
	skipped := map[string]bool{}
	for _, s := range q.skip {
		skipped[string(s)] = true
	}
	var c [][]byte
	for _, p := range w.connected() {
		if skipped[string(p.addr)] || (q.reachable && !p.reachable) {
			continue
		}
		c = append(c, p.addr)
	}
	return spec.ClosestOrder(q.target, c)
}

func toAddrs(bs [][]byte) []boson.Address {
	out := make([]boson.Address, len(bs))
	for i, b := range bs {
		out[i] = boson.NewAddress(b)
	}
	return out
}

func (w *world) witness(q query, extra map[string]interface{}) map[string]interface{} {
	var peers []string
	for _, p := range w.peers {
		peers = append(peers, fmt.Sprintf("%x bin=%d connected=%v status=%s", p.addr, p.bin, p.connected, p.status))
	}
	var skip []string
	for _, s := range q.skip {
		skip = append(skip, obs.Hex(s))
	}
	m := map[string]interface{}{"base": obs.Hex(w.base), "own_reachability": w.own, "peers": peers, "target": obs.Hex(q.target),
		"skip": skip, "filter_reachable": q.reachable, "include_self": q.includeSelf}
	for k, v := range extra {
		m[k] = v
	}
	return m
}

// classify a returned peer that is not the expected one.
func (w *world) wrongPeerKey(q query, got []byte) string {
	p := w.find(got)
	switch {
	case bytes.Equal(got, w.base):
		return "closest-returned-self-as-peer"
	case p == nil || !p.connected:
		return "closest-returned-unconnected-peer"
	}
	for _, s := range q.skip {
		if bytes.Equal(s, got) {
			return "closest-returned-skipped-peer"
		}
	}
	if q.reachable && !p.reachable {
		return "closest-returned-unreachable-peer"
	}
	return "closest-not-nearest"
}

func TestClosestPeer(t *testing.T) {
	run := obs.Start(t, "C23")
	defer run.Done()
	run.Rule("random worlds (0-40 connected peers dense in bins 0-6 plus deep, beyond-cap and sibling addresses; each public/private/never reported; plus known-only and disconnected peers; own reachability unset/public/private) x 24 queries each: target random / equal or near a peer / sibling of a peer / near or equal the base; skip list none/some/all/strangers/nearest few/duplicates; Filter.Reachable and includeSelf both ways; ClosestPeer and ClosestPeers(limit 0..n+2) compared with a brute-force XOR-distance oracle. distinct = (target kind, skip kind, filter, includeSelf, own status, outcome)",
		"self is eligible iff includeSelf is set and the node's own reachability status is public",
		"when no peer is eligible but self is, the statement claims both 'want self' and 'not found': either is accepted and counted")
	n := run.N(150, 2500)
	st := map[string]int64{}
	for i := 0; i < n; i++ {
		c := run.Begin(fmt.Sprintf("world/%d", i), nil)
		if c == nil {
			continue
		}
		rng := c.Rand()
		w := buildWorld(t, rng, st)
		k := w.rig.Kad
		// the harness itself must agree with the topology on who is connected
		set, _ := w.rig.Connected()
		if len(set) != len(w.connected()) {
			t.Fatalf("harness: model has %d connected peers, topology reports %d", len(w.connected()), len(set))
		}
		for qi := 0; qi < 24; qi++ {
			q := w.genQuery(rng)
			el := w.eligible(q)
			selfEl := q.includeSelf && w.own == "public"
			got, err := k.ClosestPeer(boson.NewAddress(q.target), q.includeSelf, topology.Filter{Reachable: q.reachable}, toAddrs(q.skip)...)
			st["closestpeer_queries"]++
			outcome := ""
			switch {
			case len(el) == 0 && selfEl:
				outcome = "open-corner"
				st["open_corner_no_peer_but_self_eligible"]++
				if errors.Is(err, topology.ErrWantSelf) {
					st["open_corner_answered_want_self"]++
				} else if errors.Is(err, topology.ErrNotFound) {
					st["open_corner_answered_not_found"]++
				} else {
					c.Viol("closest-peer-returned-when-none-eligible", fmt.Sprintf("no eligible peer, got (%x, %v)", got.Bytes(), err), w.witness(q, nil))
				}
			case len(el) == 0:
				outcome = "not-found"
				st["expected_not_found"]++
				if !errors.Is(err, topology.ErrNotFound) {
					key := "notfound-missing"
					if errors.Is(err, topology.ErrWantSelf) {
						key = "wantself-when-self-not-eligible"
					}
					c.Viol(key, fmt.Sprintf("no eligible peer and self not eligible, got (%x, %v)", got.Bytes(), err), w.witness(q, nil))
				}
			default:
				best := el[0]
				selfNearer := selfEl && spec.XorInt(w.base, q.target).Cmp(spec.XorInt(best, q.target)) < 0
				if selfNearer {
					outcome = "want-self"
					st["expected_want_self"]++
					if !errors.Is(err, topology.ErrWantSelf) {
						c.Viol("wantself-missing", fmt.Sprintf("self is eligible and strictly nearer than every eligible peer, got (%x, %v)", got.Bytes(), err), w.witness(q, map[string]interface{}{"nearest_eligible_peer": obs.Hex(best)}))
					}
				} else {
					outcome = "peer"
					st["expected_peer"]++
					switch {
					case errors.Is(err, topology.ErrWantSelf):
						key := "wantself-when-self-not-eligible"
						if selfEl {
							key = "wantself-when-a-peer-is-nearer"
						}
						c.Viol(key, fmt.Sprintf("got want-self, nearest eligible peer is %x", best), w.witness(q, nil))
					case errors.Is(err, topology.ErrNotFound):
						c.Viol("notfound-with-eligible-peer", fmt.Sprintf("got not-found, nearest eligible peer is %x", best), w.witness(q, nil))
					case err != nil:
						c.Viol("closest-unexpected-error", err.Error(), w.witness(q, nil))
					case !bytes.Equal(got.Bytes(), best):
						c.Viol(w.wrongPeerKey(q, got.Bytes()), fmt.Sprintf("got %x, nearest eligible peer is %x", got.Bytes(), best), w.witness(q, map[string]interface{}{"got": obs.Hex(got.Bytes()), "want": obs.Hex(best)}))
					}
				}
			}
			run.Tally(fmt.Sprintf("one/%s/skip=%s/reach=%v/self=%v/own=%s/%s", q.targetKind, q.skipKind, q.reachable, q.includeSelf, w.own, outcome), true)

			// ---- several closest peers
			limit := rng.Intn(len(w.connected()) + 3)
			if rng.Intn(6) == 0 {
				limit = 1 + rng.Intn(3)
			}
			list, err := k.ClosestPeers(boson.NewAddress(q.target), limit, topology.Filter{Reachable: q.reachable}, toAddrs(q.skip)...)
			st["closestpeers_queries"]++
			want := el
			if len(want) > limit {
				want = want[:limit]
			}
			ww := func() map[string]interface{} {
				var g, x []string
				for _, a := range list {
					g = append(g, short(a.Bytes()))
				}
				for _, a := range want {
					x = append(x, short(a))
				}
				return w.witness(q, map[string]interface{}{"limit": limit, "got": g, "want": x})
			}
			if err != nil {
				c.Viol("closestpeers-error", err.Error(), ww())
			} else {
				seen := map[string]bool{}
				bad := ""
				for j, a := range list {
					if seen[string(a.Bytes())] {
						bad = "closestpeers-duplicate"
						break
					}
					seen[string(a.Bytes())] = true
					if j > 0 && spec.XorInt(list[j-1].Bytes(), q.target).Cmp(spec.XorInt(a.Bytes(), q.target)) > 0 {
						bad = "closestpeers-order"
						break
					}
				}
				if bad == "" && len(list) != len(want) {
					bad = "closestpeers-wrong-count"
				}
				if bad == "" {
					for j := range list {
						if !bytes.Equal(list[j].Bytes(), want[j]) {
							bad = "closestpeers-" + w.wrongPeerKey(q, list[j].Bytes())[len("closest-"):]
							break
						}
					}
				}
				if bad != "" {
					c.Viol(bad, fmt.Sprintf("ClosestPeers(limit %d) returned %d peers, expected the %d nearest eligible in order", limit, len(list), len(want)), ww())
				}
				if len(want) > 1 {
					st["closestpeers_with_several_results"]++
				}
			}
			lk := "lt"
			if limit == 0 {
				lk = "zero"
			} else if limit >= len(el) {
				lk = "ge"
			}
			run.Tally(fmt.Sprintf("many/%s/skip=%s/reach=%v/limit-%s-eligible/n=%d", q.targetKind, q.skipKind, q.reachable, lk, minInt(len(want), 4)), true)
		}
		w.rig.Close(t)
		c.End(fmt.Sprintf("peers=%d/own=%s", len(w.connected()), w.own), len(w.connected()) > 0)
		if i < 2 {
			run.Sample(map[string]interface{}{"kind": "world", "connected": len(w.connected()), "own_reachability": w.own})
		}
	}
	for k, v := range st {
		run.Stat(k, v)
	}
}

func minInt(a, b int) int {
	if a < b {
		return a
	}
	return b
}
