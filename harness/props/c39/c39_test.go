// Package c39 checks C39: bit vectors behave as boolean arrays.
//
// Oracle: a []bool of the vector's length (LSB-first bit addressing inside each byte, as the
// property's anchor states). Only indices < length are observed.
package c39

import (
	"fmt"
	"math/rand"
	"testing"

	"github.com/gauss-project/aurorafs/pkg/bitvector"
	"verif/harness/internal/obs"
)

// ---- reference model ------------------------------------------------------------------

type model []bool

func bitOf(b []byte, i int) bool {
	if i/8 >= len(b) {
		return false
	}
	return b[i/8]&(1<<uint(i%8)) != 0
}

func modelFromBytes(b []byte, l int) model {
	m := make(model, l)
	for i := range m {
		m[i] = bitOf(b, i)
	}
	return m
}

func (m model) all() bool {
	for _, v := range m {
		if !v {
			return false
		}
	}
	return true
}

func (m model) String() string {
	s := make([]byte, len(m))
	for i, v := range m {
		s[i] = '0'
		if v {
			s[i] = '1'
		}
	}
	if len(s) > 96 {
		return string(s[:96]) + fmt.Sprintf("..(%d bits)", len(m))
	}
	return string(s)
}

// ---- helpers ---------------------------------------------------------------------------

func minBytes(l int) int { return (l + 7) / 8 }

// guard runs f under recover; a panic is reported as a violation.
func guard(c *obs.Case, where string, w map[string]interface{}, f func()) (ok bool) {
	defer func() {
		if r := recover(); r != nil {
			c.Viol("panic-"+where, fmt.Sprintf("%s panicked: %v", where, r), w)
			ok = false
		}
	}()
	f()
	return true
}

type opRec struct {
	Op   string `json:"op"`
	I    int    `json:"i,omitempty"`
	Mask string `json:"mask,omitempty"`
	Res  string `json:"res,omitempty"`
}

type bvCase struct {
	c      *obs.Case
	run    *obs.Run
	l      int
	extra  int
	how    string
	init   string
	bv     *bitvector.BitVector
	m      model
	ops    []opRec
	lastOp string
}

func (k *bvCase) witness() map[string]interface{} {
	ops := k.ops
	if len(ops) > 40 {
		ops = ops[len(ops)-40:]
	}
	return map[string]interface{}{
		"length": k.l, "backing_bytes": minBytes(k.l) + k.extra, "built_by": k.how, "initial_bytes": k.init,
		"ops_tail": ops, "model": k.m.String(),
	}
}

// compare checks every observable bit against the model.
func (k *bvCase) compare() {
	w := k.witness()
	guard(k.c, "get", w, func() {
		for i := 0; i < k.l; i++ {
			if got := k.bv.Get(i); got != k.m[i] {
				w["index"] = i
				k.c.Viol("get-mismatch-after-"+k.lastOp,
					fmt.Sprintf("after %s: Get(%d)=%v, boolean array says %v (length %d)", k.lastOp, i, got, k.m[i], k.l), w)
				// resynchronise so that one defect is reported once per case step, not forever
				k.m[i] = got
				return
			}
		}
		k.run.Stat("bits_compared", int64(k.l))
	})
}

// checkAllSet compares the all-bits-set predicate with the model.
func (k *bvCase) checkAllSet() {
	w := k.witness()
	guard(k.c, "equals", w, func() {
		got := k.bv.Equals()
		want := k.m.all()
		k.ops = append(k.ops, opRec{Op: "Equals", Res: fmt.Sprint(got)})
		switch {
		case want:
			k.run.Stat("allset_true_states_checked", 1)
		default:
			k.run.Stat("allset_false_states_checked", 1)
		}
		if got == want {
			return
		}
		w = k.witness()
		switch {
		case want && k.extra > 0:
			k.c.Viol("equals-false-all-set-backing-longer",
				fmt.Sprintf("all %d bits are set but Equals()=false (backing slice %d bytes, %d needed)", k.l, minBytes(k.l)+k.extra, minBytes(k.l)), w)
		case want:
			k.c.Viol("equals-false-all-set", fmt.Sprintf("all %d bits are set but Equals()=false", k.l), w)
		default:
			k.c.Viol("equals-true-not-all-set", fmt.Sprintf("Equals()=true although a bit < %d is clear", k.l), w)
		}
	})
}

func (k *bvCase) set(i int) {
	k.ops = append(k.ops, opRec{Op: "Set", I: i})
	k.lastOp = "set"
	if guard(k.c, "set", k.witness(), func() { k.bv.Set(i) }) {
		k.m[i] = true
	}
	k.run.Stat("op_set", 1)
}

func (k *bvCase) unset(i int) {
	k.ops = append(k.ops, opRec{Op: "Unset", I: i})
	k.lastOp = "unset"
	if guard(k.c, "unset", k.witness(), func() { k.bv.Unset(i) }) {
		k.m[i] = false
	}
	k.run.Stat("op_unset", 1)
}

// maskOp applies SetBytes (set=true) or UnsetBytes with the given mask.
func (k *bvCase) maskOp(set bool, mask []byte) {
	name := "unsetbytes"
	if set {
		name = "setbytes"
	}
	k.lastOp = name
	rec := opRec{Op: name, Mask: obs.Hex(mask)}
	var err error
	backing := 0
	ok := guard(k.c, name, k.witness(), func() {
		backing = len(k.bv.Bytes())
		arg := append([]byte(nil), mask...)
		if set {
			err = k.bv.SetBytes(arg)
		} else {
			err = k.bv.UnsetBytes(arg)
		}
	})
	if !ok {
		return
	}
	if err != nil {
		rec.Res = "error"
		k.ops = append(k.ops, rec)
		k.run.Stat("mask_rejected", 1)
		if len(mask) == backing {
			k.c.Viol(name+"-rejects-mask-of-backing-length",
				fmt.Sprintf("%s refused a mask of %d bytes = len(Bytes()): %v", name, len(mask), err), k.witness())
		}
		return // model unchanged: a refused mask must not change any bit
	}
	rec.Res = "ok"
	k.ops = append(k.ops, rec)
	k.run.Stat("mask_applied", 1)
	for i := 0; i < k.l; i++ {
		if bitOf(mask, i) {
			k.m[i] = set
		}
	}
}

func (k *bvCase) roundTrip() {
	k.lastOp = "roundtrip"
	w := k.witness()
	guard(k.c, "roundtrip", w, func() {
		enc := append([]byte(nil), k.bv.Bytes()...)
		k.ops = append(k.ops, opRec{Op: "Bytes->NewFromBytes", Mask: obs.Hex(enc)})
		bv2, err := bitvector.NewFromBytes(enc, k.bv.Len())
		if err != nil {
			k.c.Viol("roundtrip-decode-error", fmt.Sprintf("NewFromBytes(Bytes(), Len()) failed: %v", err), w)
			return
		}
		if bv2.Len() != k.l {
			k.c.Viol("roundtrip-length", fmt.Sprintf("decoded length %d want %d", bv2.Len(), k.l), w)
			return
		}
		for i := 0; i < k.l; i++ {
			if bv2.Get(i) != k.m[i] {
				w["index"] = i
				k.c.Viol("roundtrip-bit-lost", fmt.Sprintf("bit %d is %v after Bytes()->NewFromBytes, want %v", i, bv2.Get(i), k.m[i]), w)
				return
			}
		}
		k.run.Stat("roundtrips_checked", 1)
		// the decoded copy must be the same boolean array for the all-set predicate too
		if got, want := bv2.Equals(), k.m.all(); got != want {
			key := "equals-true-not-all-set"
			if want {
				key = "equals-false-all-set"
				if len(enc) > minBytes(k.l) {
					key = "equals-false-all-set-backing-longer"
				}
			}
			k.c.Viol(key, fmt.Sprintf("decoded copy: Equals()=%v, boolean array says %v", got, want), w)
		}
	})
}

// build constructs the vector of the case; returns false when the case cannot run.
func (k *bvCase) build(rng *rand.Rand) bool {
	var err error
	ok := guard(k.c, "new", map[string]interface{}{"length": k.l, "extra": k.extra, "how": k.how}, func() {
		if k.how == "New" {
			k.bv, err = bitvector.New(k.l)
			k.m = make(model, k.l)
			return
		}
		b := make([]byte, minBytes(k.l)+k.extra)
		switch rng.Intn(4) {
		case 0: // zero
		case 1:
			for i := range b {
				b[i] = 0xff
			}
		default:
			rng.Read(b)
		}
		k.init = obs.Hex(b)
		k.m = modelFromBytes(b, k.l)
		k.bv, err = bitvector.NewFromBytes(b, k.l)
	})
	if !ok {
		return false
	}
	if err != nil || k.bv == nil {
		k.c.Viol("new-rejects-valid-length", fmt.Sprintf("constructor %s refused length %d with %d bytes: %v", k.how, k.l, minBytes(k.l)+k.extra, err), k.witness())
		return false
	}
	if k.bv.Len() != k.l {
		k.c.Viol("len-mismatch", fmt.Sprintf("Len()=%d want %d", k.bv.Len(), k.l), k.witness())
	}
	if len(k.bv.Bytes()) < minBytes(k.l) {
		k.c.Viol("bytes-too-short", fmt.Sprintf("Bytes() has %d bytes, %d bits need %d", len(k.bv.Bytes()), k.l, minBytes(k.l)), k.witness())
		return false
	}
	if k.how == "New" {
		k.extra = len(k.bv.Bytes()) - minBytes(k.l)
	}
	k.lastOp = "init"
	return true
}

func (k *bvCase) randomMask(rng *rand.Rand) []byte {
	backing := len(k.bv.Bytes())
	var n int
	switch rng.Intn(8) {
	case 0:
		n = minBytes(k.l) // minimal length (differs from backing when the slice is longer)
	case 1:
		n = backing + 1
	case 2:
		n = backing - 1
	case 3:
		n = 0
	default:
		n = backing
	}
	if n < 0 {
		n = 0
	}
	mask := make([]byte, n)
	switch rng.Intn(4) {
	case 0:
		for i := range mask {
			mask[i] = 0xff
		}
	case 1: // sparse
		if n > 0 {
			for j := 0; j < 3; j++ {
				mask[rng.Intn(n)] |= 1 << uint(rng.Intn(8))
			}
		}
	default:
		rng.Read(mask)
	}
	return mask
}

func runCase(run *obs.Run, l, extra int, how string, nops int) {
	id := fmt.Sprintf("len=%d/%s+%d", l, how, extra)
	c := run.Begin(id, map[string]interface{}{"length": l, "extra_backing_bytes": extra, "built_by": how, "random_ops": nops})
	if c == nil {
		return
	}
	rng := c.Rand()
	k := &bvCase{c: c, run: run, l: l, extra: extra, how: how}
	shape := fmt.Sprintf("%s+%d/len=%d", how, extra, l)
	if !k.build(rng) {
		c.End(shape, false)
		return
	}
	k.compare()
	k.checkAllSet()

	// random operation sequence
	for s := 0; s < nops; s++ {
		switch r := rng.Intn(100); {
		case r < 30:
			k.set(rng.Intn(l))
		case r < 55:
			k.unset(rng.Intn(l))
		case r < 70:
			k.maskOp(true, k.randomMask(rng))
		case r < 85:
			k.maskOp(false, k.randomMask(rng))
		case r < 92:
			k.roundTrip()
		default:
			k.checkAllSet()
			continue
		}
		k.compare()
	}

	// structured part: the all-set and all-but-one-set states of this length, reached bit by bit
	for i := 0; i < l; i++ {
		if !k.m[i] {
			k.set(i)
		}
	}
	k.compare()
	k.checkAllSet() // all set
	k.roundTrip()
	for _, j := range []int{l - 1, 0, rng.Intn(l)} {
		k.unset(j)
		k.compare()
		k.checkAllSet() // all but one
		k.set(j)
		k.compare()
		k.checkAllSet() // all set again
	}
	// all-set reached through a full mask of the backing length, then cleared the same way
	full := make([]byte, len(k.bv.Bytes()))
	for i := range full {
		full[i] = 0xff
	}
	k.maskOp(false, full)
	k.compare()
	k.checkAllSet()
	k.maskOp(true, full)
	k.compare()
	k.checkAllSet()
	k.roundTrip()

	c.End(shape, true)
	if l == 10 && extra == 1 && how == "NewFromBytes" {
		run.Sample(k.witness())
	}
}

func TestBitVectorModel(t *testing.T) {
	run := obs.Start(t, "C39")
	defer run.Done()
	run.Rule("every length 1..512 x construction {New(l), NewFromBytes over ceil(l/8)+{0,1,7} bytes of zero/ones/random content}: random Set/Unset/SetBytes/UnsetBytes (masks of backing, minimal and wrong lengths)/Equals/Bytes->NewFromBytes steps, every bit < length compared with a []bool after each step, then the all-set and three all-but-one-set states of that length; distinct = (construction, extra bytes, length)",
		"bit i of a byte slice is b[i/8]&(1<<(i%8)) (LSB-first, as the anchor states)",
		"a mask whose length equals len(Bytes()) must be accepted; a refused mask must leave every bit unchanged; an accepted mask acts on the bits it covers",
		"indices >= length are never read or written by the workload")
	nops := run.N(20, 120)
	for l := 1; l <= 512; l++ {
		runCase(run, l, 0, "New", nops)
		for _, extra := range []int{0, 1, 7} {
			runCase(run, l, extra, "NewFromBytes", nops)
		}
	}
}
