package c20

import (
	"fmt"
	"testing"

	"github.com/gauss-project/aurorafs/pkg/boson"
	"verif/harness/internal/obs"
	"verif/harness/internal/spec"
)

const (
	maxPO = 31
	extPO = 36
)

func checkPair(run *obs.Run, a, b []byte) {
	lead := spec.LeadingEqualBits(a, b)
	want := spec.Prox(a, b, maxPO)
	wantExt := spec.Prox(a, b, extPO)
	got := int(boson.Proximity(a, b))
	gotR := int(boson.Proximity(b, a))
	ext := int(boson.ExtendedProximity(a, b))
	extR := int(boson.ExtendedProximity(b, a))
	w := map[string]interface{}{"a": obs.Hex(a), "b": obs.Hex(b), "leading_equal_bits": lead}
	if got != want {
		w["got"], w["want"] = got, want
		run.Viol("proximity-value", fmt.Sprintf("Proximity=%d, leading equal bits %d capped at %d = %d", got, lead, maxPO, want), w)
	}
	if got != gotR {
		run.Viol("proximity-asymmetric", fmt.Sprintf("Proximity(a,b)=%d Proximity(b,a)=%d", got, gotR), w)
	}
	if ext != wantExt {
		w["got"], w["want"] = ext, wantExt
		key := "extended-proximity-value"
		if ext > extPO {
			key = "extended-proximity-above-cap"
		}
		run.Viol(key, fmt.Sprintf("ExtendedProximity=%d, leading equal bits %d capped at %d = %d", ext, lead, extPO, wantExt), w)
	}
	if ext != extR {
		run.Viol("extended-proximity-asymmetric", fmt.Sprintf("ExtendedProximity(a,b)=%d (b,a)=%d", ext, extR), w)
	}
	shape := fmt.Sprintf("lead=%d", lead)
	if lead > 48 {
		shape = "lead>48"
	}
	run.Tally(shape, true)
}

func TestProximityStructured(t *testing.T) {
	run := obs.Start(t, "C20")
	defer run.Done()
	run.Rule("every byte index i<6 x every non-zero XOR value v of that byte x 4 random bases (equal prefix, random suffix), plus equal addresses; distinct = distinct number of leading equal bits")
	rng := run.RandFor("structured")
	n := 0
	for base := 0; base < run.N(4, 32); base++ {
		a := make([]byte, 32)
		rng.Read(a)
		for i := 0; i < 6; i++ {
			for v := 1; v < 256; v++ {
				b := make([]byte, 32)
				rng.Read(b)
				copy(b[:i], a[:i])
				b[i] = a[i] ^ byte(v)
				checkPair(run, a, b)
				n++
			}
		}
		b := append([]byte(nil), a...)
		checkPair(run, a, b)
		// differ only in the very last bit
		b[31] ^= 1
		checkPair(run, a, b)
	}
	run.Stat("structured_pairs", int64(n))
	run.Sample(map[string]interface{}{"kind": "structured", "byte_index": "0..5", "xor_value": "1..255"})
}

func TestProximityRandom(t *testing.T) {
	run := obs.Start(t, "C20")
	defer run.Done()
	run.Rule("random address pairs with a random shared prefix length 0..48 bits; distinct = leading equal bits")
	rng := run.RandFor("random")
	N := run.N(100000, 2000000)
	for k := 0; k < N; k++ {
		a := make([]byte, 32)
		b := make([]byte, 32)
		rng.Read(a)
		rng.Read(b)
		// share a random prefix so deep proximities actually occur
		bits := rng.Intn(49)
		for i := 0; i < bits/8; i++ {
			b[i] = a[i]
		}
		if r := bits % 8; r != 0 {
			i := bits / 8
			mask := byte(0xff) << uint(8-r)
			b[i] = a[i]&mask | b[i]&^mask
		}
		checkPair(run, a, b)
		if k < 2 {
			run.Sample(map[string]interface{}{"kind": "random pair", "a": obs.Hex(a), "b": obs.Hex(b)})
		}
	}
}

func sign(i int) int {
	switch {
	case i < 0:
		return -1
	case i > 0:
		return 1
	}
	return 0
}

func TestDistanceOrdering(t *testing.T) {
	run := obs.Start(t, "C20")
	defer run.Done()
	run.Rule("random and near-tie triples (a,x,y): y derived from x by changing one byte at index i or equal to x; distinct = (first differing byte index of x,y ; expected sign)")
	rng := run.RandFor("ordering")
	N := run.N(100000, 2000000)
	for k := 0; k < N; k++ {
		l := 32
		if k%50 == 0 {
			l = 1 + rng.Intn(40)
		}
		a := make([]byte, l)
		x := make([]byte, l)
		y := make([]byte, l)
		rng.Read(a)
		rng.Read(x)
		first := 0
		switch rng.Intn(4) {
		case 0:
			rng.Read(y)
		case 1: // near tie: equal up to byte i
			copy(y, x)
			i := rng.Intn(l)
			y[i] ^= byte(1 + rng.Intn(255))
			for j := i + 1; j < l; j++ {
				y[j] = byte(rng.Intn(256))
			}
		case 2:
			copy(y, x)
		case 3: // x close to a, y differs from a in a late byte only
			copy(x, a)
			copy(y, a)
			x[rng.Intn(l)] ^= byte(1 + rng.Intn(255))
			y[rng.Intn(l)] ^= byte(1 + rng.Intn(255))
		}
		for first = 0; first < l && x[first] == y[first]; first++ {
		}
		dx, dy := spec.XorInt(x, a), spec.XorInt(y, a)
		want := -dx.Cmp(dy) // +1 when x is closer
		got, err := boson.DistanceCmp(a, x, y)
		w := map[string]interface{}{"a": obs.Hex(a), "x": obs.Hex(x), "y": obs.Hex(y)}
		if err != nil {
			run.Viol("distancecmp-error", err.Error(), w)
			continue
		}
		if sign(got) != want {
			run.Viol("distancecmp-order", fmt.Sprintf("DistanceCmp=%d, big-int comparison says %d", got, want), w)
		}
		if gotR, _ := boson.DistanceCmp(a, y, x); sign(gotR) != -want {
			run.Viol("distancecmp-antisymmetry", fmt.Sprintf("DistanceCmp(a,y,x)=%d want %d", gotR, -want), w)
		}
		if c, _ := boson.NewAddress(x).Closer(boson.NewAddress(a), boson.NewAddress(y)); c != (want > 0) {
			// Closer reports strict closeness of x over y
			run.Viol("closer-inconsistent", fmt.Sprintf("x.Closer(a,y)=%v but order=%d", c, want), w)
		}
		d, err := boson.Distance(x, a)
		if err != nil || d.Cmp(dx) != 0 {
			run.Viol("distance-value", fmt.Sprintf("Distance=%v want %v err=%v", d, dx, err), w)
		}
		if l == 32 {
			run.Tally(fmt.Sprintf("firstdiff=%d/sign=%d", first, want), true)
		} else {
			run.Tally(fmt.Sprintf("len=%d", l), true)
		}
		if k < 2 {
			run.Sample(map[string]interface{}{"kind": "triple", "a": obs.Hex(a), "x": obs.Hex(x), "y": obs.Hex(y), "expected_sign": want})
		}
	}
	// mismatched lengths must be refused, not mis-ordered
	if _, err := boson.DistanceCmp(make([]byte, 32), make([]byte, 31), make([]byte, 32)); err == nil {
		run.Viol("distancecmp-length-mismatch-accepted", "no error for unequal lengths", nil)
	}
}
