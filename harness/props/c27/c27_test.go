// Package c27 monitors the real routetab.Table (pkg/routetab/table.go) against a
// set-of-live-paths model written from the property statement:
//
//	After any sequence of saving paths received from peers, deleting routes and expiring
//	paths, each target has at most the configured number of routes, and every returned
//	path contains the target before its last hop. Next hops offered for a target are
//	distinct, not in the skip list, and are the last hop of a stored path containing the
//	target, and deleted or expired paths are never returned.
//
// The oracle is one-directional (it never demands that something IS returned): a path the
// model cannot prove dead counts as stored.
package c27

import (
	"crypto/sha256"
	"errors"
	"fmt"
	"io"
	"math/rand"
	"sort"
	"strings"
	"sync/atomic"
	"testing"
	"time"

	"github.com/gauss-project/aurorafs/pkg/boson"
	"github.com/gauss-project/aurorafs/pkg/logging"
	"github.com/gauss-project/aurorafs/pkg/routetab"
	"github.com/gauss-project/aurorafs/pkg/routetab/pb"
	"github.com/gauss-project/aurorafs/pkg/statestore/leveldb"
	"github.com/gauss-project/aurorafs/pkg/storage"
	"github.com/sirupsen/logrus"
	"verif/harness/internal/obs"
)

const universe = 8

// ---- model ---------------------------------------------------------------------------

type deathReason string

const (
	alive          deathReason = ""
	deleted        deathReason = "deleted"
	expired        deathReason = "expired"
	droppedAtLoad  deathReason = "dropped-at-reload"
	ageIdle                    = time.Hour        // how far VerifAgePath moves UsedTime back
	gcExpire                   = 30 * time.Minute // Gc threshold: aged paths are older, fresh ones (seconds old) younger
	gcNothingExpir             = 12 * time.Hour   // a Gc that must not be able to justify returning dead paths either
)

type mpath struct {
	items       []int // node indices
	dead        deathReason
	aged        bool // UsedTime was moved back by ageIdle and provably not refreshed since
	reloadAfter bool // a reload happened after the path died
}

func pkey(items []int) string {
	s := make([]string, len(items))
	for i, v := range items {
		s[i] = fmt.Sprint(v)
	}
	return strings.Join(s, " ")
}

type model struct {
	paths map[string]*mpath // every path ever saved (len >= 2)
}

// justifies reports whether p contains target before its last hop.
func containsBeforeLast(items []int, target int) bool {
	for i := 0; i < len(items)-1; i++ {
		if items[i] == target {
			return true
		}
	}
	return false
}

// ---- harness -------------------------------------------------------------------------

type hist struct {
	c      *obs.Case
	run    *obs.Run
	rng    *rand.Rand
	nodes  []boson.Address
	idx    map[string]int
	store  storage.StateStorer
	tab    *routetab.Table
	m      *model
	alpha  int
	maxTTL int
	ops    []string
	// shape facts
	nSave, nDup, nLoop, nOverlong, nDelete, nExpired, nReload, nGetHit, nNextHit, nSkipHit, nEvict int
	reloaded                                                                                       bool
}

func (h *hist) witness(extra map[string]interface{}) map[string]interface{} {
	w := map[string]interface{}{
		"alpha": h.alpha, "maxTTL": h.maxTTL, "nodes": universe,
		"ops":  append([]string(nil), h.ops...),
		"note": "nodes are written as indices 0..7; path [a b c] = items a,b,c, last item is the next hop",
	}
	for k, v := range extra {
		w[k] = v
	}
	return w
}

func (h *hist) addrs(items []int) []boson.Address {
	out := make([]boson.Address, len(items))
	for i, v := range items {
		out[i] = h.nodes[v]
	}
	return out
}

func (h *hist) toIdx(items []boson.Address) ([]int, bool) {
	out := make([]int, len(items))
	for i, a := range items {
		j, ok := h.idx[a.String()]
		if !ok {
			return nil, false
		}
		out[i] = j
	}
	return out, true
}

func (h *hist) pbPath(items []int) *pb.Path {
	p := &pb.Path{Sign: []byte{1, 2, 3}, Bodys: [][]byte{{4}}}
	for _, v := range items {
		p.Items = append(p.Items, h.nodes[v].Bytes())
	}
	return p
}

// storeHas looks for the persisted record of a path, by a key computed here (prefix +
// 0x-hex sha256 of the concatenated items). Sanity-checked after the first save.
func (h *hist) storeHas(items []int) bool {
	s := sha256.New()
	for _, v := range items {
		s.Write(h.nodes[v].Bytes())
	}
	var v map[string]interface{}
	err := h.store.Get(fmt.Sprintf("route_pathKey_0x%x", s.Sum(nil)), &v)
	if err == nil {
		return true
	}
	if errors.Is(err, storage.ErrNotFound) {
		return false
	}
	panic(fmt.Sprintf("harness: state store Get: %v", err))
}

func (h *hist) save(items []int) {
	h.ops = append(h.ops, "save["+pkey(items)+"]")
	h.tab.SavePath(h.pbPath(items))
	h.nSave++
	if len(items) < 2 {
		return
	}
	k := pkey(items)
	if p, ok := h.m.paths[k]; ok {
		if p.dead == alive {
			h.nDup++
		}
		p.dead, p.aged, p.reloadAfter = alive, false, false
	} else {
		h.m.paths[k] = &mpath{items: append([]int(nil), items...)}
	}
	seen := map[int]bool{}
	for _, v := range items {
		if seen[v] {
			h.nLoop++
			break
		}
		seen[v] = true
	}
	if len(items) > h.maxTTL {
		h.nOverlong++
	}
}

func (h *hist) livePaths() []*mpath {
	var out []*mpath
	for _, p := range h.m.paths {
		if p.dead == alive {
			out = append(out, p)
		}
	}
	sort.Slice(out, func(i, j int) bool { return pkey(out[i].items) < pkey(out[j].items) })
	return out
}

func (h *hist) del(p *mpath, viaGet bool) {
	h.ops = append(h.ops, "delete["+pkey(p.items)+"]")
	var arg *routetab.Path
	if viaGet {
		// delete through the pointer the table itself hands out, as Service.DelRoute does
		if got, err := h.tab.Get(h.nodes[p.items[0]]); err == nil {
			for _, g := range got {
				if it, ok := h.toIdx(g.Items); ok && pkey(it) == pkey(p.items) {
					arg = g
				}
			}
		}
	}
	if arg == nil {
		arg = &routetab.Path{Items: h.addrs(p.items)}
	}
	h.tab.Delete(arg)
	p.dead, p.aged, p.reloadAfter = deleted, false, false
	h.nDelete++
}

func (h *hist) age(p *mpath) {
	if h.tab.VerifAgePath(h.addrs(p.items), ageIdle) {
		h.ops = append(h.ops, "idle-1h["+pkey(p.items)+"]")
		p.aged = true
	}
}

// refresh = the "route used" touch done by relaying: it may refresh every path of
// (target, neighbor); the model forgets the aged mark of all of them.
func (h *hist) refresh(target, neighbor int) {
	h.ops = append(h.ops, fmt.Sprintf("used(target=%d,next=%d)", target, neighbor))
	h.tab.VerifUpdateUsedTime(h.nodes[target], h.nodes[neighbor])
	for _, p := range h.m.paths {
		if p.dead == alive && p.items[len(p.items)-1] == neighbor && containsBeforeLast(p.items, target) {
			p.aged = false
		}
	}
}

func (h *hist) gc(expire time.Duration) {
	h.ops = append(h.ops, fmt.Sprintf("gc(%s)", expire))
	h.tab.Gc(expire)
	if expire >= ageIdle {
		return
	}
	for _, p := range h.m.paths {
		if p.dead == alive && p.aged {
			p.dead, p.aged, p.reloadAfter = expired, false, false
			h.nExpired++
		}
	}
}

func (h *hist) reload(pathsFirst bool) {
	if pathsFirst {
		h.ops = append(h.ops, "reload(paths,routes)")
	} else {
		h.ops = append(h.ops, "reload(routes,paths)")
	}
	h.tab = routetab.VerifNewTable(h.nodes[0], h.store)
	if pathsFirst {
		h.tab.ResumePaths()
		h.tab.ResumeRoutes()
	} else { // the order Service.start uses
		h.tab.ResumeRoutes()
		h.tab.ResumePaths()
	}
	h.nReload++
	h.reloaded = true
	for _, p := range h.m.paths {
		if p.dead != alive {
			p.reloadAfter = true
			continue
		}
		p.aged = false // the in-memory last-used time is not what was persisted
		if !h.storeHas(p.items) {
			p.dead, p.reloadAfter = droppedAtLoad, true
		}
	}
}

func (h *hist) checkGet(target int) {
	h.ops = append(h.ops, fmt.Sprintf("get(%d)", target))
	got, err := h.tab.Get(h.nodes[target])
	h.run.Stat("get_calls", 1)
	if err != nil {
		return
	}
	h.run.Stat("get_paths_returned", int64(len(got)))
	h.nGetHit++
	if len(got) > h.alpha {
		h.c.Viol("get-exceeds-alpha", fmt.Sprintf("Get returned %d paths for one target, alpha=%d", len(got), h.alpha), h.witness(map[string]interface{}{"target": target}))
	}
	if len(got) == h.alpha {
		h.run.Stat("get_at_alpha_bound", 1)
	}
	for _, g := range got {
		it, ok := h.toIdx(g.Items)
		if !ok {
			h.c.Viol("get-returns-unknown-path", "returned path has items outside the node universe", h.witness(map[string]interface{}{"target": target}))
			continue
		}
		ex := map[string]interface{}{"target": target, "returned": pkey(it)}
		if !containsBeforeLast(it, target) {
			h.c.Viol("get-path-lacks-target-before-last-hop", fmt.Sprintf("Get(%d) returned [%s]", target, pkey(it)), h.witness(ex))
		}
		mp, known := h.m.paths[pkey(it)]
		switch {
		case !known:
			h.c.Viol("get-returns-unknown-path", fmt.Sprintf("Get(%d) returned [%s] which was never saved", target, pkey(it)), h.witness(ex))
		case mp.dead != alive:
			key := "get-returns-" + string(mp.dead) + "-path"
			if mp.dead != droppedAtLoad && mp.reloadAfter {
				key += "-after-reload"
			}
			h.c.Viol(key, fmt.Sprintf("Get(%d) returned [%s] which is %s", target, pkey(it), mp.dead), h.witness(ex))
		}
	}
}

func (h *hist) checkNext(target int, skips []int) {
	h.ops = append(h.ops, fmt.Sprintf("nexthop(%d,skip=%v)", target, skips))
	next := h.tab.GetNextHop(h.nodes[target], h.addrs(skips)...)
	h.run.Stat("nexthop_calls", 1)
	h.run.Stat("nexthops_offered", int64(len(next)))
	if len(next) > 0 {
		h.nNextHit++
	}
	ex := func(hop int) map[string]interface{} {
		return map[string]interface{}{"target": target, "skips": skips, "offered": hop}
	}
	if len(next) > h.alpha {
		h.c.Viol("nexthop-exceeds-alpha", fmt.Sprintf("%d next hops for one target, alpha=%d routes allowed", len(next), h.alpha), h.witness(ex(-1)))
	}
	// would a skipped node have been a candidate? (skip filter actually exercised)
	for _, s := range skips {
		for _, p := range h.m.paths {
			if p.dead == alive && p.items[len(p.items)-1] == s && containsBeforeLast(p.items, target) {
				h.nSkipHit++
				h.run.Stat("skip_filter_exercised", 1)
				goto done
			}
		}
	}
done:
	seen := map[int]bool{}
	for _, a := range next {
		hop, ok := h.idx[a.String()]
		if !ok {
			h.c.Viol("nexthop-without-any-path", "offered next hop outside the node universe", h.witness(ex(-1)))
			continue
		}
		if seen[hop] {
			h.c.Viol("nexthop-repeated", fmt.Sprintf("next hop %d offered twice for target %d", hop, target), h.witness(ex(hop)))
		}
		seen[hop] = true
		for _, s := range skips {
			if s == hop {
				h.c.Viol("nexthop-in-skip-list", fmt.Sprintf("next hop %d is in the skip list", hop), h.witness(ex(hop)))
			}
		}
		// Which dead path a stale route stems from cannot be known from outside; when several
		// dead paths would explain the hop, the witness is classed by the least surprising one
		// (a reload happened after its death) so that the in-memory keys are only used when no
		// reload can be involved.
		rank := func(p *mpath) int {
			switch {
			case p.dead == deleted && p.reloadAfter:
				return 0
			case p.dead == expired && p.reloadAfter:
				return 1
			case p.dead == droppedAtLoad:
				return 2
			case p.dead == deleted:
				return 3
			}
			return 4
		}
		justified := false
		var deadBy *mpath
		for _, p := range h.m.paths {
			if p.items[len(p.items)-1] != hop || !containsBeforeLast(p.items, target) {
				continue
			}
			if p.dead == alive {
				justified = true
				break
			}
			if deadBy == nil || rank(p) < rank(deadBy) || rank(p) == rank(deadBy) && pkey(p.items) < pkey(deadBy.items) {
				deadBy = p
			}
		}
		if justified {
			h.run.Stat("nexthops_justified_by_live_path", 1)
			continue
		}
		if deadBy == nil {
			h.c.Viol("nexthop-without-any-path", fmt.Sprintf("next hop %d for target %d: no path ever saved contains the target and ends there", hop, target), h.witness(ex(hop)))
			continue
		}
		key := "nexthop-of-" + string(deadBy.dead) + "-path"
		if deadBy.dead == droppedAtLoad {
			key = "nexthop-of-path-dropped-at-reload"
		} else if deadBy.reloadAfter {
			key += "-after-reload"
		}
		w := ex(hop)
		w["dead_path"] = pkey(deadBy.items)
		h.c.Viol(key, fmt.Sprintf("next hop %d offered for target %d, but the only path(s) through it, e.g. [%s], are %s", hop, target, pkey(deadBy.items), deadBy.dead), h.witness(w))
	}
}

func (h *hist) checkAll() {
	for t := 0; t < universe; t++ {
		h.checkGet(t)
		h.checkNext(t, nil)
	}
}

func newHist(t *testing.T, run *obs.Run, c *obs.Case, rng *rand.Rand, alpha, maxTTL int) *hist {
	store, err := leveldb.NewInMemoryStateStore(logging.New(io.Discard, logrus.ErrorLevel))
	if err != nil {
		t.Fatal(err)
	}
	h := &hist{c: c, run: run, rng: rng, store: store, alpha: alpha, maxTTL: maxTTL,
		idx: map[string]int{}, m: &model{paths: map[string]*mpath{}}}
	// the addresses are a function of the case PRNG
	for i := 0; i < universe; i++ {
		b := make([]byte, 32)
		rng.Read(b)
		h.nodes = append(h.nodes, boson.NewAddress(b))
		h.idx[h.nodes[i].String()] = i
	}
	routetab.NeighborAlpha = int32(alpha)
	atomic.StoreInt32(&routetab.MaxTTL, int32(maxTTL))
	h.tab = routetab.VerifNewTable(h.nodes[0], store)
	return h
}

func (h *hist) randPath() []int {
	r := h.rng
	l := 1 + r.Intn(h.maxTTL+2)
	if r.Intn(4) > 0 && l < 2 {
		l = 2
	}
	items := make([]int, 0, l)
	loops := r.Intn(4) == 0
	for len(items) < l {
		v := r.Intn(universe)
		if !loops {
			dup := false
			for _, x := range items {
				if x == v {
					dup = true
				}
			}
			if dup && l <= universe {
				continue
			}
		}
		items = append(items, v)
	}
	return items
}

func (h *hist) shape() string {
	cl := func(n int) string {
		switch {
		case n == 0:
			return "0"
		case n == 1:
			return "1"
		case n < 4:
			return "2-3"
		}
		return "4+"
	}
	b := func(n int) string {
		if n > 0 {
			return "y"
		}
		return "n"
	}
	return fmt.Sprintf("a=%d/ttl=%d/dup=%s/loop=%s/long=%s/del=%s/exp=%s/reload=%s/skip=%s",
		h.alpha, h.maxTTL, b(h.nDup), b(h.nLoop), b(h.nOverlong), cl(h.nDelete), cl(h.nExpired), cl(h.nReload), b(h.nSkipHit))
}

// TestRouteTableDirected runs a fixed list of small hand-written histories (one per clause of
// the statement) so that the minimal witnesses are exercised under every seed.
func TestRouteTableDirected(t *testing.T) {
	run := obs.Start(t, "C27")
	defer run.Done()
	run.Rule("fixed minimal histories, one per clause: bound at alpha with alpha+2 disjoint paths, delete then query, expire then query, delete/expire then reload then query, overlong path then reload, skip list, duplicate hops")
	type step func(h *hist)
	save := func(items ...int) step { return func(h *hist) { h.save(items) } }
	del := func(items ...int) step {
		return func(h *hist) { h.del(h.m.paths[pkey(items)], false) }
	}
	ageS := func(items ...int) step { return func(h *hist) { h.age(h.m.paths[pkey(items)]) } }
	gc := func(h *hist) { h.gc(gcExpire) }
	reload := func(h *hist) { h.reload(false) }
	reloadPF := func(h *hist) { h.reload(true) }
	next := func(target int, skips ...int) step { return func(h *hist) { h.checkNext(target, skips) } }
	cases := []struct {
		name          string
		alpha, maxTTL int
		steps         []step
	}{
		{"bound", 2, 5, []step{save(1, 2), save(1, 3), save(1, 4), save(1, 5), save(6, 1, 7)}},
		{"delete", 2, 5, []step{save(1, 2), save(1, 3), del(1, 2)}},
		{"expire", 2, 5, []step{save(1, 2), save(1, 3), ageS(1, 2), gc}},
		{"delete-reload", 2, 5, []step{save(1, 2), del(1, 2), reload}},
		{"delete-reload-pathsfirst", 2, 5, []step{save(1, 2), del(1, 2), reloadPF}},
		{"expire-reload", 2, 5, []step{save(1, 2), ageS(1, 2), gc, reload}},
		{"overlong-reload", 2, 3, []step{save(1, 2, 3, 4, 5), reload}},
		{"keep-reload", 2, 5, []step{save(1, 2, 3), save(2, 4), reload}},
		{"skip", 3, 5, []step{save(1, 2), save(1, 3), save(1, 4), next(1, 2), next(1, 2, 3, 4), next(1, 5)}},
		{"same-hop-twice", 3, 5, []step{save(1, 2), save(1, 3, 2), save(1, 4, 2)}},
		{"loop", 2, 6, []step{save(1, 2, 1, 3), save(1, 1), save(2, 1, 2), del(1, 2, 1, 3)}},
	}
	for _, tc := range cases {
		c := run.Begin("directed/"+tc.name, map[string]interface{}{"alpha": tc.alpha, "maxTTL": tc.maxTTL})
		if c == nil {
			continue
		}
		h := newHist(t, run, c, c.Rand(), tc.alpha, tc.maxTTL)
		for _, s := range tc.steps {
			s(h)
			h.checkAll()
		}
		run.Stat("directed_histories", 1)
		c.End("directed/"+tc.name, true)
		h.store.Close()
	}
}

var probeChecked bool

func TestRouteTableHistories(t *testing.T) {
	run := obs.Start(t, "C27")
	defer run.Done()
	run.Rule("random histories of 30 operations on one real Table over an in-memory leveldb state store, 8-node universe: SavePath of random paths (length 1..MaxTTL+2, repeats, loops), Delete (by own value or by the pointer Get hands out), idle-ageing of chosen paths + used-time refresh + Gc, reload (new Table + ResumeRoutes/ResumePaths on the same store, both orders), Get and GetNextHop with random skip lists after every mutation; distinct = (alpha, MaxTTL, which of duplicate/loop/overlong saves, deletes, expiries, reloads, effective skips occurred); non-trivial = at least one Get and one GetNextHop returned something",
		"NeighborAlpha and MaxTTL are constant within one history (they are process-global variables)",
		"a path is 'stored' from SavePath until Delete, until a Gc that finds it idle for longer than the threshold, or until a reload after which its record is no longer in the state store",
		"idle time is produced by moving a path's last-used time 1h back (verif hook), Gc thresholds are 30 min / 12 h, so no oracle decision depends on scheduling delays")
	n := run.N(600, 6000)
	alphas := []int{1, 2, 3}
	ttls := []int{3, 4, 6}
	for i := 0; i < n; i++ {
		alpha, maxTTL := alphas[i%3], ttls[(i/3)%3]
		c := run.Begin(fmt.Sprintf("hist/%d", i), map[string]interface{}{"alpha": alpha, "maxTTL": maxTTL, "ops": 30})
		if c == nil {
			continue
		}
		rng := c.Rand()
		h := newHist(t, run, c, rng, alpha, maxTTL)
		nops := 30
		for op := 0; op < nops; op++ {
			live := h.livePaths()
			switch k := rng.Intn(100); {
			case k < 45 || len(live) == 0:
				if len(h.m.paths) > 0 && rng.Intn(6) == 0 { // re-save a known path (duplicate or resurrect)
					keys := make([]string, 0, len(h.m.paths))
					for k := range h.m.paths {
						keys = append(keys, k)
					}
					sort.Strings(keys)
					h.save(h.m.paths[keys[rng.Intn(len(keys))]].items)
				} else {
					h.save(h.randPath())
				}
				if !probeChecked && len(h.livePaths()) > 0 {
					if !h.storeHas(h.livePaths()[0].items) {
						t.Fatal("harness: state-store probe does not find the record of a path that was just saved (key format changed?)")
					}
					probeChecked = true
				}
			case k < 60:
				h.del(live[rng.Intn(len(live))], rng.Intn(2) == 0)
			case k < 75:
				// some paths go idle, some of them are used again, then a collection runs
				for _, p := range live {
					if rng.Intn(3) == 0 {
						h.age(p)
					}
				}
				if rng.Intn(2) == 0 && len(live) > 0 {
					p := live[rng.Intn(len(live))]
					h.refresh(p.items[rng.Intn(len(p.items)-1)], p.items[len(p.items)-1])
				}
				if rng.Intn(5) == 0 {
					h.gc(gcNothingExpir)
				} else {
					h.gc(gcExpire)
				}
			case k < 85:
				h.reload(rng.Intn(3) == 0)
			default:
				target := rng.Intn(universe)
				var skips []int
				for s := 0; s < universe; s++ {
					if rng.Intn(4) == 0 {
						skips = append(skips, s)
					}
				}
				h.checkGet(target)
				h.checkNext(target, skips)
			}
			h.checkAll()
		}
		run.Stat("histories", 1)
		run.Stat("ops", int64(nops))
		run.Stat("saves", int64(h.nSave))
		run.Stat("deletes", int64(h.nDelete))
		run.Stat("paths_expired_by_gc", int64(h.nExpired))
		run.Stat("reloads", int64(h.nReload))
		run.Stat("overlong_saves", int64(h.nOverlong))
		for _, p := range h.m.paths {
			if p.dead == droppedAtLoad {
				run.Stat("paths_dropped_at_reload", 1)
			}
		}
		if i < 2 {
			run.Sample(map[string]interface{}{"alpha": alpha, "maxTTL": maxTTL, "ops": h.ops[:min(len(h.ops), 60)]})
		}
		c.End(h.shape(), h.nGetHit > 0 && h.nNextHit > 0)
		h.store.Close()
	}
}

func min(a, b int) int {
	if a < b {
		return a
	}
	return b
}
