package c04

import (
	"bytes"
	"encoding/binary"
	"fmt"
	"math/rand"
	"testing"

	"github.com/gauss-project/aurorafs/pkg/boson"
	"github.com/gauss-project/aurorafs/pkg/cac"
	"verif/harness/internal/obs"
	"verif/harness/internal/spec"
)

const cs = spec.ChunkSize // 256 KiB

// ---------------------------------------------------------------------------------
// oracle: exactly the statement. valid <=> 8 <= len(payload) <= CS+8 and addr == BMT(payload)

type oracle struct {
	run   *obs.Run
	t     *testing.T
	calls int64
	cross int64
}

func (o *oracle) bmt(payload []byte) []byte {
	h := spec.BMTFast(payload[:8], payload[8:], spec.Branches)
	o.calls++
	if o.calls%64 == 1 { // sampled cross-check of the sparse evaluation against the plain definition
		if !bytes.Equal(h, spec.BMT(payload[:8], payload[8:])) {
			o.t.Fatalf("oracle self-check failed: sparse evaluation != spec.BMT for payload of %d bytes", len(payload))
		}
		o.cross++
	}
	return h
}

func (o *oracle) valid(addr, payload []byte) bool {
	if len(payload) < spec.SpanSize || len(payload) > cs+spec.SpanSize {
		return false
	}
	return bytes.Equal(o.bmt(payload), addr)
}

// callValid runs the real cac.Valid under recover.
func callValid(addr, payload []byte) (ok bool, panicked interface{}) {
	defer func() {
		if r := recover(); r != nil {
			panicked = r
		}
	}()
	return cac.Valid(boson.NewChunk(boson.NewAddress(addr), payload)), nil
}

// compare records a violation when the real verdict differs from the expected one.
func compare(c *obs.Case, run *obs.Run, class string, want bool, addr, payload []byte, extra map[string]interface{}) {
	got, p := callValid(addr, payload)
	w := map[string]interface{}{"class": class, "payload_len": len(payload), "addr": obs.Hex(addr), "payload": obs.Hex(payload)}
	for k, v := range extra {
		w[k] = v
	}
	switch {
	case p != nil:
		c.Viol("panic-valid/"+class, fmt.Sprintf("cac.Valid panicked: %v", p), w)
	case got && !want:
		c.Viol("valid-accepts-invalid/"+class, fmt.Sprintf("cac.Valid accepted a chunk that is not valid by the statement (%s, payload %d bytes)", class, len(payload)), w)
	case !got && want:
		c.Viol("valid-rejects-valid/"+class, fmt.Sprintf("cac.Valid rejected a chunk that is valid by the statement (%s, payload %d bytes)", class, len(payload)), w)
	}
	if want {
		run.Stat("valid_expected_true", 1)
	} else {
		run.Stat("valid_expected_false", 1)
	}
}

func spanBytes(rng *rand.Rand, kind int, dataLen int) ([]byte, string) {
	s := make([]byte, 8)
	switch kind % 4 {
	case 0:
		binary.LittleEndian.PutUint64(s, uint64(dataLen))
		return s, "len"
	case 1:
		return s, "zero"
	case 2:
		for i := range s {
			s[i] = 0xff
		}
		return s, "max"
	}
	rng.Read(s)
	return s, "random"
}

func randData(rng *rand.Rand, n int) []byte {
	d := make([]byte, n)
	rng.Read(d)
	return d
}

func mask(rng *rand.Rand) byte { return byte(1 + rng.Intn(255)) }

func lenClass(dataLen int) string {
	switch {
	case dataLen == 0:
		return "data=0"
	case dataLen == cs:
		return "data=CS"
	case dataLen <= 504:
		return "data<=504"
	case dataLen < 4096:
		return "data<4Ki"
	case dataLen < 65536:
		return "data<64Ki"
	}
	return "data>=64Ki"
}

func region(pos, payloadLen int) string {
	switch {
	case pos < 8:
		return fmt.Sprintf("span[%d]", pos)
	case pos == 8:
		return "first-data-byte"
	case pos == payloadLen-1:
		return "last-data-byte"
	}
	off := (pos - 8) % 32
	switch off {
	case 0:
		return "segment-first-byte"
	case 31:
		return "segment-last-byte"
	}
	return "segment-inner-byte"
}

// mutateAndCheck offers the chunk (addr, payload) with single-byte mutations at the given
// payload positions and at all 32 address bytes, nm masks each, plus address length changes.
func mutateAndCheck(c *obs.Case, run *obs.Run, o *oracle, rng *rand.Rand, addr, payload []byte, positions []int, nm int, shapePrefix string) {
	for _, pos := range positions {
		for k := 0; k < nm; k++ {
			m := mask(rng)
			mp := append([]byte(nil), payload...)
			mp[pos] ^= m
			want := o.valid(addr, mp) // by the statement: false unless BMT collides
			cl := "payload-byte-mutated"
			if pos < 8 {
				cl = "span-byte-mutated"
			}
			compare(c, run, cl, want, addr, mp, map[string]interface{}{"position": pos, "xor": m})
			run.Stat("mutations_payload", 1)
			run.Tally(shapePrefix+"/"+region(pos, len(payload)), true)
		}
	}
	for pos := 0; pos < len(addr); pos++ {
		for k := 0; k < nm; k++ {
			m := mask(rng)
			ma := append([]byte(nil), addr...)
			ma[pos] ^= m
			// the payload is unchanged: BMT(payload) is still addr, so ma != BMT(payload)
			compare(c, run, "address-byte-mutated", false, ma, payload, map[string]interface{}{"position": pos, "xor": m})
			run.Stat("mutations_address", 1)
			run.Tally(fmt.Sprintf("%s/addr[%d]", shapePrefix, pos), true)
		}
	}
	// changed payload LENGTH under the same address: the oracle decides (the BMT is defined over the
	// zero-padded data, so appended zero bytes keep the address and the chunk stays valid by the
	// statement; anything else does not)
	for _, ext := range [][]byte{{0}, {0, 0, 0}, {byte(1 + rng.Intn(255))}, {0, byte(1 + rng.Intn(255))}} {
		if len(payload)+len(ext) > cs+spec.SpanSize {
			continue
		}
		mp := append(append([]byte(nil), payload...), ext...)
		want := o.valid(addr, mp)
		if want {
			run.Stat("zero_extension_same_address", 1)
		}
		compare(c, run, "payload-extended", want, addr, mp, map[string]interface{}{"appended": fmt.Sprintf("%x", ext)})
		run.Tally(shapePrefix+"/extended", true)
	}
	if len(payload) > 9 {
		mp := payload[:len(payload)-1]
		compare(c, run, "payload-truncated", o.valid(addr, mp), addr, mp, nil)
		run.Tally(shapePrefix+"/truncated", true)
	}
	// other address lengths can never equal the 32-byte hash
	for _, a := range [][]byte{addr[:31], append(append([]byte(nil), addr...), 0), {}, addr[1:]} {
		compare(c, run, "address-length-changed", false, a, payload, map[string]interface{}{"addr_len": len(a)})
		run.Tally(fmt.Sprintf("%s/addrlen=%d", shapePrefix, len(a)), true)
	}
}

// makeChunk builds a chunk through the real constructors and checks the creation clause.
// It returns the address and payload of the created chunk (nil when creation failed).
func makeChunk(c *obs.Case, run *obs.Run, o *oracle, data []byte, span []byte, spanKind string) (addr, payload []byte) {
	var ch boson.Chunk
	var err error
	how := "New"
	if spanKind == "len" && len(data) > 0 && len(data)%2 == 0 {
		ch, err = cac.New(data)
	} else {
		how = "NewWithDataSpan"
		ch, err = cac.NewWithDataSpan(append(append([]byte(nil), span...), data...))
	}
	w := map[string]interface{}{"constructor": how, "data_len": len(data), "span": fmt.Sprintf("%x", span)}
	if err != nil {
		if len(data) >= 1 && len(data) <= cs {
			c.Viol("create-fails-in-range/"+how, fmt.Sprintf("%s failed for %d data bytes: %v", how, len(data), err), w)
		}
		return nil, nil
	}
	run.Stat("chunks_created", 1)
	payload = ch.Data()
	addr = ch.Address().Bytes()
	wantPayload := append(append([]byte(nil), span...), data...)
	if !bytes.Equal(payload, wantPayload) {
		w["payload"] = obs.Hex(payload)
		c.Viol("created-payload-differs/"+how, "payload of the created chunk is not span || data", w)
		return nil, nil
	}
	// created chunks are valid (statement, second sentence) - judged by the real Valid and by the oracle
	want := o.valid(addr, payload)
	if !want {
		w["addr"] = obs.Hex(addr)
		c.Viol("created-address-not-bmt/"+how, "address of the created chunk is not the BMT hash of its payload", w)
	}
	compare(c, run, "created-chunk", want, addr, payload, w)
	return addr, payload
}

// ---------------------------------------------------------------------------------

func TestLengthBounds(t *testing.T) {
	run := obs.Start(t, "C04")
	defer run.Done()
	run.Rule("payload lengths 0..9 and CS+6..CS+10 (CS = 256 KiB), each offered to cac.Valid with the RIGHT address (BMT of that payload, whatever its length) and with a wrong one, 4 span kinds; the constructors New / NewWithDataSpan at data lengths 0,1,2,CS-1,CS,CS+1; distinct = (payload length, span kind, address right/wrong)")
	o := &oracle{run: run, t: t}
	var lens []int
	for n := 0; n <= 9; n++ {
		lens = append(lens, n)
	}
	for n := cs + 6; n <= cs+10; n++ {
		lens = append(lens, n)
	}
	for _, n := range lens {
		c := run.Begin(fmt.Sprintf("payloadlen/%d", n), map[string]interface{}{"payload_len": n})
		if c == nil {
			continue
		}
		rng := c.Rand()
		for sk := 0; sk < 4; sk++ {
			payload := randData(rng, n)
			kind := "short"
			if n >= 8 {
				s, k := spanBytes(rng, sk, n-8)
				copy(payload, s)
				kind = k
			}
			// the address a valid chunk of this payload would have, computed even when the
			// length is out of range (span = first 8 bytes, zero-extended when shorter)
			sp := make([]byte, 8)
			copy(sp, payload)
			var rest []byte
			if n > 8 {
				rest = payload[8:]
			}
			right := spec.BMTFast(sp, rest, spec.Branches)
			inRange := n >= 8 && n <= cs+8
			compare(c, run, map[bool]string{true: "length-in-range-right-address", false: "length-out-of-range-right-address"}[inRange],
				inRange, right, payload, map[string]interface{}{"span_kind": kind})
			if !inRange {
				run.Stat("out_of_range_lengths_with_right_address", 1)
			}
			wrong := append([]byte(nil), right...)
			wrong[rng.Intn(32)] ^= mask(rng)
			compare(c, run, "wrong-address", false, wrong, payload, map[string]interface{}{"span_kind": kind})
			run.Tally(fmt.Sprintf("payloadlen=%d/span=%s/right", n, kind), true)
			run.Tally(fmt.Sprintf("payloadlen=%d/span=%s/wrong", n, kind), true)
		}
		c.End(fmt.Sprintf("payloadlen=%d", n), true)
	}
	// constructors at the data-length boundaries
	for _, n := range []int{0, 1, 2, 31, 32, 33, cs - 1, cs, cs + 1} {
		c := run.Begin(fmt.Sprintf("create/%d", n), map[string]interface{}{"data_len": n})
		if c == nil {
			continue
		}
		rng := c.Rand()
		data := randData(rng, n)
		for _, how := range []string{"New", "NewWithDataSpan"} {
			var ch boson.Chunk
			var err error
			span := spec.Span(uint64(n))
			if how == "New" {
				ch, err = cac.New(data)
			} else {
				ch, err = cac.NewWithDataSpan(append(append([]byte(nil), span...), data...))
			}
			w := map[string]interface{}{"constructor": how, "data_len": n}
			if err != nil {
				if n >= 1 && n <= cs {
					c.Viol("create-fails-in-range/"+how, fmt.Sprintf("%s failed for %d data bytes: %v", how, n, err), w)
				}
				run.Stat("create_refused", 1)
				continue
			}
			run.Stat("chunks_created", 1)
			// whatever was created is judged by the statement
			compare(c, run, "created-chunk", o.valid(ch.Address().Bytes(), ch.Data()), ch.Address().Bytes(), ch.Data(), w)
			if n >= 1 && n <= cs && !o.valid(ch.Address().Bytes(), ch.Data()) {
				c.Viol("created-chunk-not-valid/"+how, fmt.Sprintf("%s(%d bytes) produced a chunk that is not valid by the statement", how, n), w)
			}
			run.Tally(fmt.Sprintf("create/%s/data=%d", how, n), true)
		}
		c.End(fmt.Sprintf("create/data=%d", n), true)
	}
	run.Stat("oracle_crosschecks", o.cross)
}

// every byte position of small chunks
func TestSmallPayloadEveryPosition(t *testing.T) {
	run := obs.Start(t, "C04")
	defer run.Done()
	run.Rule("chunks with 0..504 data bytes (payload <= 512 B) created by the real constructors with 4 span kinds; EVERY payload byte position and every address byte XORed with 2 random non-zero masks, address length changes; the unmutated chunk must be valid; distinct = (data length, span kind, mutated region)")
	o := &oracle{run: run, t: t}
	lens := []int{0, 1, 2, 23, 24, 25, 31, 32, 33, 55, 56, 57, 63, 64, 65, 127, 128, 129, 255, 256, 257, 503, 504}
	lrng := run.RandFor("small-lens")
	for i := 0; i < run.N(30, 200); i++ {
		lens = append(lens, 1+lrng.Intn(504))
	}
	for i, n := range lens {
		c := run.Begin(fmt.Sprintf("small/%d/%d", i, n), map[string]interface{}{"data_len": n})
		if c == nil {
			continue
		}
		rng := c.Rand()
		data := randData(rng, n)
		span, kind := spanBytes(rng, i, n)
		addr, payload := makeChunk(c, run, o, data, span, kind)
		if addr != nil {
			positions := make([]int, len(payload))
			for p := range positions {
				positions[p] = p
			}
			mutateAndCheck(c, run, o, rng, addr, payload, positions, 2, fmt.Sprintf("small/data=%d/span=%s", n, kind))
		}
		c.End(fmt.Sprintf("small/data=%d/span=%s", n, kind), true)
	}
	run.Stat("oracle_crosschecks", o.cross)
}

func largeCase(t *testing.T, run *obs.Run, o *oracle, i, n int) {
	c := run.Begin(fmt.Sprintf("large/%d/%d", i, n), map[string]interface{}{"data_len": n})
	if c == nil {
		return
	}
	rng := c.Rand()
	data := randData(rng, n)
	span, kind := spanBytes(rng, i, n)
	addr, payload := makeChunk(c, run, o, data, span, kind)
	if addr != nil {
		pl := len(payload)
		set := map[int]bool{}
		for p := 0; p < 8; p++ {
			set[p] = true
		}
		set[8], set[pl-1] = true, true
		nseg := (n + 31) / 32
		for k := 0; k < run.N(4, 10); k++ { // segment boundaries +-1 of random segments
			s := rng.Intn(nseg)
			for _, p := range []int{8 + 32*s - 1, 8 + 32*s, 8 + 32*s + 31, 8 + 32*s + 32} {
				if p >= 8 && p < pl {
					set[p] = true
				}
			}
		}
		for k := 0; k < run.N(10, 40); k++ {
			set[8+rng.Intn(n)] = true
		}
		// the last, partially filled segment and the last full section boundary
		for _, p := range []int{pl - 2, pl - 32, pl - 33, pl - 64, pl - 65} {
			if p >= 8 {
				set[p] = true
			}
		}
		positions := make([]int, 0, len(set))
		for p := range set {
			positions = append(positions, p)
		}
		for a := 1; a < len(positions); a++ {
			for b := a; b > 0 && positions[b] < positions[b-1]; b-- {
				positions[b], positions[b-1] = positions[b-1], positions[b]
			}
		}
		mutateAndCheck(c, run, o, rng, addr, payload, positions, run.N(1, 2), fmt.Sprintf("large/%s/span=%s", lenClass(n), kind))
	}
	c.End(fmt.Sprintf("large/data=%d/span=%s", n, kind), true)
}

func largeLens(run *obs.Run, which int) []int {
	fixed := [][]int{
		{cs, cs - 1, cs - 31, cs - 32, cs - 33, 4096, 4097, 65536 + 1},
		{cs, cs - 63, cs - 64, cs - 65, cs / 2, cs/2 + 1, cs/2 - 1, 8192 - 1},
	}[which]
	rng := run.RandFor(fmt.Sprintf("large-lens-%d", which))
	out := append([]int(nil), fixed...)
	for i := 0; i < run.N(12, 60); i++ {
		if i%2 == 0 {
			out = append(out, 505+rng.Intn(16384))
		} else {
			out = append(out, 505+rng.Intn(cs-504))
		}
	}
	return out
}

// two shards of the same generator (they run as parallel child processes)
func TestLargePayloadMutationsA(t *testing.T) { largeShard(t, 0) }
func TestLargePayloadMutationsB(t *testing.T) { largeShard(t, 1) }

func largeShard(t *testing.T, which int) {
	run := obs.Start(t, "C04")
	defer run.Done()
	run.Rule("chunks with 505..CS data bytes (boundary lengths CS, CS-1, CS-31..CS-33, CS-63..CS-65, CS/2+-1, ... plus random, half of them below 16 KiB) created by the real constructors with 4 span kinds; mutated positions: the 8 span bytes, first/last data byte, both sides of the boundaries of random segments, random positions, the tail of the last segment/section, and all 32 address bytes, 1 (quick) or 2 (thorough) random non-zero XOR masks each; distinct = (length class, span kind, mutated region)")
	o := &oracle{run: run, t: t}
	for i, n := range largeLens(run, which) {
		largeCase(t, run, o, which*1000+i, n)
	}
	run.Stat("oracle_crosschecks", o.cross)
}
