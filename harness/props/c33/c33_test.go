package c33

import (
	"context"
	"fmt"
	"hash/fnv"
	"math/big"
	"math/rand"
	"runtime"
	"strings"
	"sync"
	"sync/atomic"
	"testing"
	"time"

	"github.com/gauss-project/aurorafs/pkg/boson"
	chequePkg "github.com/gauss-project/aurorafs/pkg/settlement/traffic/cheque"
	"github.com/gauss-project/aurorafs/pkg/storage"
	"verif/harness/internal/obs"
	"verif/harness/internal/racemain"
	"verif/harness/internal/trafficx"
)

const (
	kConsume = "consume" // PutRetrieveTraffic: traffic we consumed from the peer (we owe it)
	kServe   = "serve"   // PutTransferTraffic: traffic we served to the peer
	kPay     = "pay"     // Pay: may send a cheque
	kRecv    = "recv"    // ReceiveCheque: the peer's cheque to us
)

// opRec is one acknowledged (returned) operation with logical call/return stamps.
type opRec struct {
	G      int    `json:"goroutine"`
	Kind   string `json:"op"`
	Peer   int    `json:"peer"`
	Amount string `json:"amount"` // consume/serve: amount; recv: payout; pay: highest delivered payout to the peer after it
	Call   int64  `json:"call"`
	Ret    int64  `json:"ret"`
	Err    string `json:"err,omitempty"`
	amount *big.Int
}

type world struct {
	t     *testing.T
	run   *obs.Run
	c     *obs.Case
	clock *trafficx.Clock
	ps    *trafficx.ParkStore
	chain *trafficx.Chain
	self  *trafficx.Party
	peers []*trafficx.Party
	node  *trafficx.Node
	thr   *big.Int

	mu         sync.Mutex
	recs       []*opRec
	recvNext   []*big.Int          // next payout of the peer's cheque to us
	sched      []string            // description of the forced schedule
	setupW     int                 // number of store writes made by the setup
	scratch    storage.StateStorer // store reused for every restart of this history
	chequePeer int                 // >= 0: the post-restart cheque check is made for this peer at every restart point
}

func (w *world) close() {
	w.ps.Close()
	if w.scratch != nil {
		w.scratch.Close()
	}
}

func bi(v int64) *big.Int { return big.NewInt(v) }

func newWorld(t *testing.T, run *obs.Run, c *obs.Case, rng *rand.Rand, npeers int) *world {
	w := &world{chequePeer: -1, t: t, run: run, c: c, clock: &trafficx.Clock{}, chain: trafficx.NewChain(), thr: bi(1 + int64(rng.Intn(20)))}
	w.self = trafficx.NewParty("self", rng)
	inner, err := trafficx.NewMemStore()
	if err != nil {
		t.Fatal(err)
	}
	w.ps, err = trafficx.Wrap(inner, w.clock)
	if err != nil {
		t.Fatal(err)
	}
	w.chain.SetBalance(w.self.Addr, new(big.Int).Lsh(bi(1), 120))
	w.node = trafficx.NewNode(w.self, w.ps, w.chain, trafficx.Options{})
	if err := w.node.Svc.Init(); err != nil {
		t.Fatal(err)
	}
	for i := 0; i < npeers; i++ {
		p := trafficx.NewParty(fmt.Sprintf("P%d", i), rng)
		w.peers = append(w.peers, p)
		w.recvNext = append(w.recvNext, bi(0))
		if err := w.node.Svc.Handshake(p.Overlay, p.Addr, chequePkg.SignedCheque{}); err != nil {
			t.Fatal(err)
		}
	}
	w.setupW = len(w.ps.Writes())
	return w
}

func (w *world) rec(r *opRec) {
	w.mu.Lock()
	w.recs = append(w.recs, r)
	w.mu.Unlock()
}

func (w *world) consume(g, p int, amt *big.Int) {
	r := &opRec{G: g, Kind: kConsume, Peer: p, Amount: amt.String(), amount: amt, Call: w.clock.Now()}
	if err := w.node.Svc.PutRetrieveTraffic(w.peers[p].Overlay, amt); err != nil {
		r.Err = err.Error()
	}
	r.Ret = w.clock.Now()
	w.rec(r)
}

func (w *world) serve(g, p int, amt *big.Int) {
	r := &opRec{G: g, Kind: kServe, Peer: p, Amount: amt.String(), amount: amt, Call: w.clock.Now()}
	if err := w.node.Svc.PutTransferTraffic(w.peers[p].Overlay, amt); err != nil {
		r.Err = err.Error()
	}
	r.Ret = w.clock.Now()
	w.rec(r)
}

// delivered returns the highest payout delivered to peer p so far.
func delivered(pr *trafficx.Proto, ov boson.Address) *big.Int {
	m := bi(0)
	for _, e := range pr.Log() {
		if e.Delivered && e.Peer.Equal(ov) && e.Payout != nil && e.Payout.Cmp(m) > 0 {
			m = e.Payout
		}
	}
	return m
}

func (w *world) pay(g, p int) {
	r := &opRec{G: g, Kind: kPay, Peer: p, Call: w.clock.Now()}
	if err := w.node.Svc.Pay(context.Background(), w.peers[p].Overlay, w.thr); err != nil {
		r.Err = err.Error()
	}
	r.amount = delivered(w.node.Proto, w.peers[p].Overlay)
	r.Amount = r.amount.String()
	r.Ret = w.clock.Now()
	w.rec(r)
}

// recv delivers the peer's next cheque (only one goroutine per peer does this).
func (w *world) recv(g, p int, inc *big.Int) {
	payout := new(big.Int).Add(w.recvNext[p], inc)
	w.recvNext[p] = payout
	ch, err := w.peers[p].Sign(w.self.Addr, w.peers[p].Addr, payout)
	if err != nil {
		panic(err) // may run outside the test goroutine
	}
	r := &opRec{G: g, Kind: kRecv, Peer: p, Amount: payout.String(), amount: payout, Call: w.clock.Now()}
	if err := w.node.Svc.ReceiveCheque(context.Background(), w.peers[p].Overlay, ch); err != nil {
		r.Err = err.Error()
	}
	r.Ret = w.clock.Now()
	w.rec(r)
}

// bounds: what had been acknowledged (call returned without error) before logical time `before`.
type bounds struct {
	consumed, served, sent, received []*big.Int
}

func (w *world) boundsAt(before int64) bounds {
	n := len(w.peers)
	b := bounds{}
	for i := 0; i < n; i++ {
		b.consumed = append(b.consumed, bi(0))
		b.served = append(b.served, bi(0))
		b.sent = append(b.sent, bi(0))
		b.received = append(b.received, bi(0))
	}
	w.mu.Lock()
	defer w.mu.Unlock()
	for _, r := range w.recs {
		if r.Ret >= before || r.Err != "" && r.Kind != kPay {
			continue
		}
		switch r.Kind {
		case kConsume:
			b.consumed[r.Peer] = new(big.Int).Add(b.consumed[r.Peer], r.amount)
		case kServe:
			b.served[r.Peer] = new(big.Int).Add(b.served[r.Peer], r.amount)
		case kPay:
			if r.amount.Cmp(b.sent[r.Peer]) > 0 {
				b.sent[r.Peer] = r.amount
			}
		case kRecv:
			if r.amount.Cmp(b.received[r.Peer]) > 0 {
				b.received[r.Peer] = r.amount
			}
		}
	}
	return b
}

type view struct {
	consumed, served, lastSent, lastRecv, sentSettle, recvSettle []*big.Int
}

func readView(t *testing.T, n *trafficx.Node, peers []*trafficx.Party) view {
	v := view{}
	tcs, err := n.Svc.TrafficCheques()
	if err != nil {
		t.Fatal(err)
	}
	for _, p := range peers {
		a, err := n.Svc.TotalReceived(p.Overlay)
		if err != nil {
			t.Fatalf("TotalReceived: %v", err)
		}
		b, err := n.Svc.TotalSent(p.Overlay)
		if err != nil {
			t.Fatalf("TotalSent: %v", err)
		}
		v.consumed = append(v.consumed, new(big.Int).Set(a))
		v.served = append(v.served, new(big.Int).Set(b))
		ls := bi(0)
		if c, err := n.Svc.LastSentCheque(p.Overlay); err == nil && c != nil && c.CumulativePayout != nil {
			ls = c.CumulativePayout
		} else if err != nil && err != chequePkg.ErrNoCheque {
			t.Fatalf("LastSentCheque: %v", err)
		}
		lr := bi(0)
		if c, err := n.Svc.LastReceivedCheque(p.Overlay); err == nil && c != nil && c.CumulativePayout != nil {
			lr = c.CumulativePayout
		} else if err != nil && err != chequePkg.ErrNoCheque {
			t.Fatalf("LastReceivedCheque: %v", err)
		}
		v.lastSent = append(v.lastSent, ls)
		v.lastRecv = append(v.lastRecv, lr)
		ss, rs := bi(0), bi(0)
		for _, tc := range tcs {
			if tc.Peer.Equal(p.Overlay) {
				ss, rs = new(big.Int).Set(tc.SentSettlements), new(big.Int).Set(tc.ReceivedSettlements)
			}
		}
		v.sentSettle = append(v.sentSettle, ss)
		v.recvSettle = append(v.recvSettle, rs)
	}
	return v
}

type writeW struct {
	Key   string `json:"key"`
	Val   string `json:"value"`
	Start int64  `json:"stamp"`
}

func (w *world) witness(k int, where string) interface{} {
	var ws []writeW
	for _, x := range w.ps.Writes() {
		key := x.Key
		for i, p := range w.peers {
			key = strings.Replace(key, fmt.Sprintf("%x", p.Addr), p.Name, 1)
			key = strings.Replace(key, p.Overlay.String(), fmt.Sprintf("overlay(P%d)", i), 1)
			key = strings.Replace(key, p.Addr.String(), p.Name, 1)
		}
		v := string(x.Val)
		if len(v) > 60 {
			v = v[:60] + "..."
		}
		ws = append(ws, writeW{Key: key, Val: v, Start: x.Start})
	}
	w.mu.Lock()
	recs := append([]*opRec(nil), w.recs...)
	w.mu.Unlock()
	return map[string]interface{}{"forced_schedule": w.sched, "acknowledged_ops": recs, "store_writes_in_order": ws,
		"restart_after_write_index": k, "restart_point": where, "setup_writes": w.setupW, "pay_threshold": w.thr.String()}
}

// restartAt restarts a new service on the store contents after the first k writes and
// checks the statement against what had been acknowledged by then. mem != nil: the
// totals the running service reported immediately before (quiescent restart).
func (w *world) restartAt(k int, rng *rand.Rand, mem *view) {
	ws := w.ps.Writes()
	boundary := int64(1) << 62
	where := "quiescence (all writes done, all calls returned)"
	if k < len(ws) {
		boundary = ws[k].Start
		where = fmt.Sprintf("crash after %d of %d writes", k, len(ws))
	}
	b := w.boundsAt(boundary)
	if w.scratch == nil {
		s, err := trafficx.NewMemStore()
		if err != nil {
			w.t.Fatal(err)
		}
		w.scratch = s
	}
	st := w.scratch
	if err := w.ps.SnapshotInto(st, k); err != nil {
		w.t.Fatal(err)
	}
	n2 := trafficx.NewNode(w.self, st, w.chain, trafficx.Options{})
	if err := n2.Svc.Init(); err != nil {
		w.t.Fatalf("Init after restart: %v", err)
	}
	w.run.Stat("restarts", 1)
	if mem == nil {
		w.run.Stat("restarts_at_crash_points", 1)
	}
	v := readView(w.t, n2, w.peers)
	for i, p := range w.peers {
		type cl struct {
			key, what  string
			got, bound *big.Int
		}
		cls := []cl{
			{"restart-forgets-consumed-traffic", "consumed-traffic total", v.consumed[i], b.consumed[i]},
			{"restart-forgets-served-traffic", "served-traffic total", v.served[i], b.served[i]},
			{"restart-forgets-sent-cheque", "last sent cheque", v.lastSent[i], b.sent[i]},
			{"restart-resets-sent-settlements", "in-memory sent-settlements record (last cheque amount sent)", v.sentSettle[i], b.sent[i]},
			{"restart-forgets-received-cheque", "last received cheque", v.lastRecv[i], b.received[i]},
			{"restart-resets-received-settlements", "in-memory received-settlements record (last cheque amount received)", v.recvSettle[i], b.received[i]},
		}
		if mem != nil {
			cls = append(cls,
				cl{"restart-forgets-consumed-traffic", "consumed-traffic total (vs. running service)", v.consumed[i], mem.consumed[i]},
				cl{"restart-forgets-served-traffic", "served-traffic total (vs. running service)", v.served[i], mem.served[i]},
				cl{"restart-forgets-sent-cheque", "last sent cheque (vs. running service)", v.lastSent[i], mem.lastSent[i]},
				cl{"restart-forgets-received-cheque", "last received cheque (vs. running service)", v.lastRecv[i], mem.lastRecv[i]},
				cl{"restart-resets-sent-settlements", "last cheque amount sent as accounted in memory (vs. running service)", v.sentSettle[i], mem.sentSettle[i]},
				cl{"restart-resets-received-settlements", "last cheque amount received as accounted in memory (vs. running service)", v.recvSettle[i], mem.recvSettle[i]})
		}
		for _, x := range cls {
			w.run.Stat("restored_values_compared", 1)
			if x.got.Cmp(x.bound) < 0 {
				w.c.Viol(x.key, fmt.Sprintf("%s of %s after restart at %s is %v, it was at least %v before", x.what, p.Name, where, x.got, x.bound), w.witness(k, where))
			}
		}
	}
	// no cheque for an amount already paid: the first cheque after the restart
	// (at quiescence and at a third of the crash points)
	if mem == nil && w.chequePeer < 0 && rng.Intn(3) != 0 {
		return
	}
	i := rng.Intn(len(w.peers))
	if w.chequePeer >= 0 {
		i = w.chequePeer
	}
	p := w.peers[i]
	extra := new(big.Int).Add(w.thr, bi(int64(rng.Intn(50))))
	if err := n2.Svc.PutRetrieveTraffic(p.Overlay, extra); err != nil {
		w.t.Fatal(err)
	}
	if err := n2.Svc.Pay(context.Background(), p.Overlay, w.thr); err != nil {
		w.t.Fatalf("Pay after restart: %v", err)
	}
	var first *trafficx.Emitted
	for _, e := range n2.Proto.Log() {
		e := e
		if e.Delivered && e.Peer.Equal(p.Overlay) {
			first = &e
			break
		}
	}
	if first == nil || first.Payout == nil {
		// the restored service owes at least `extra` (>= threshold) and does not pay: the traffic
		// consumed after the restart is forgotten for payment (or the restored cheque amount is
		// above what was ever sent)
		w.c.Viol("traffic-consumed-after-restart-never-paid", fmt.Sprintf("after restart at %s, %v (threshold %v) was consumed from %s; paying sent no cheque", where, extra, w.thr, p.Name), w.witness(k, where))
		return
	}
	w.run.Stat("post_restart_cheques", 1)
	if first.Payout.Cmp(b.sent[i]) <= 0 {
		w.c.Viol("cheque-after-restart-not-above-last-sent", fmt.Sprintf("first cheque to %s after restart at %s has payout %v, a cheque of %v had been delivered before", p.Name, where, first.Payout, b.sent[i]), w.witness(k, where))
	}
	// upper bound: everything ever consumed from the peer (acknowledged or in flight) plus the new traffic
	all := w.boundsAt(int64(1) << 62)
	upper := new(big.Int).Add(all.consumed[i], extra)
	if mem != nil && first.Payout.Cmp(upper) > 0 {
		w.c.Viol("cheque-after-restart-exceeds-traffic-owed", fmt.Sprintf("first cheque to %s after restart has payout %v, total traffic owed is %v", p.Name, first.Payout, upper), w.witness(k, where))
	}
}

// staleOverwrites counts writes of a total that is lower than an earlier write of the same key.
func (w *world) staleOverwrites() int {
	n := 0
	max := map[string]*big.Int{}
	for _, x := range w.ps.Writes() {
		if !strings.HasPrefix(x.Key, "retrieved_traffic_") && !strings.HasPrefix(x.Key, "transferred_traffic_") {
			continue
		}
		v, ok := new(big.Int).SetString(strings.TrimSpace(string(x.Val)), 10)
		if !ok {
			continue
		}
		if m := max[x.Key]; m != nil && v.Cmp(m) < 0 {
			n++
		} else {
			max[x.Key] = v
		}
	}
	return n
}

func amount(rng *rand.Rand) *big.Int {
	if rng.Intn(3) == 0 {
		return new(big.Int).Lsh(bi(1+int64(rng.Intn(1000))), uint(rng.Intn(64)))
	}
	return bi(1 + int64(rng.Intn(1000)))
}

func (w *world) randomSeqOp(rng *rand.Rand, g int, avoidKind string, avoidPeer int) string {
	for {
		p := rng.Intn(len(w.peers))
		switch r := rng.Intn(10); {
		case r < 3:
			if avoidKind == kConsume && p == avoidPeer {
				continue
			}
			w.consume(g, p, amount(rng))
			return kConsume
		case r < 6:
			if avoidKind == kServe && p == avoidPeer {
				continue
			}
			w.serve(g, p, amount(rng))
			return kServe
		case r < 8:
			if avoidKind == kConsume && p == avoidPeer {
				continue // a cheque for the full amount would repair the stale total
			}
			w.pay(g, p)
			return kPay
		default:
			w.recv(g, p, amount(rng))
			return kRecv
		}
	}
}

// forcedHistory: "update A computed, update(s) B persisted, update A persisted".
func forcedHistory(t *testing.T, run *obs.Run, c *obs.Case, i int) {
	rng := c.Rand()
	w := newWorld(t, run, c, rng, 2+rng.Intn(2))
	defer w.close()
	kind := kConsume
	prefix := "retrieved_traffic_"
	if rng.Intn(2) == 0 {
		kind, prefix = kServe, "transferred_traffic_"
	}
	p := rng.Intn(len(w.peers))
	// variant: the overtaking operation is a Pay, i.e. a cheque for traffic whose total is not stored yet
	payOvertakes := kind == kConsume && rng.Intn(4) == 0
	pre := rng.Intn(5)
	for j := 0; j < pre; j++ {
		if payOvertakes {
			w.randomSeqOp(rng, 0, kConsume, p) // the held-back update is the first one of this total
		} else {
			w.randomSeqOp(rng, 0, "", -1)
		}
	}
	if rng.Intn(3) == 0 {
		if err := w.node.Svc.TrafficInit(); err != nil {
			t.Fatal(err)
		}
		w.sched = append(w.sched, "24h refresh (TrafficInit) after the sequential prefix")
	}
	focus := len(w.ps.Writes()) // every write from here on is a restart point
	m := 1 + rng.Intn(3)
	if payOvertakes {
		m = 1
		w.chequePeer = p
	}
	rule := trafficx.NewParkRule(func(key string, _ interface{}) bool {
		return strings.HasPrefix(key, prefix) && strings.HasSuffix(key, fmt.Sprintf("%x", w.peers[p].Addr))
	})
	w.ps.Arm(rule)
	do := func(g int, a *big.Int) {
		if payOvertakes && g > 1 {
			w.pay(g, p)
			return
		}
		if kind == kConsume {
			w.consume(g, p, a)
		} else {
			w.serve(g, p, a)
		}
	}
	a := amount(rng)
	if payOvertakes {
		a.Add(a, w.thr)
	}
	w.sched = append(w.sched, fmt.Sprintf("G1: %s(P%d, %v) - its store write is held back", kind, p, a))
	g1 := make(chan struct{})
	go func() { defer close(g1); do(1, a) }()
	select {
	case <-rule.Parked:
	case <-time.After(60 * time.Second):
		t.Fatal("G1 never reached its store write")
	}
	overtaken := 0
	okind := kind
	if payOvertakes {
		okind = "pay (amount ignored)"
	}
	for j := 0; j < m; j++ {
		b := amount(rng)
		done := make(chan struct{})
		go func(g int) { defer close(done); do(g, b) }(2 + j)
		select {
		case <-done:
			overtaken++
			w.sched = append(w.sched, fmt.Sprintf("G%d: %s(P%d, %v) ran to completion while G1's write was held", 2+j, okind, p, b))
		case <-time.After(150 * time.Millisecond):
			// the code under test does not let a second update of this total finish
			// while the first one has not persisted: the order cannot be forced
			w.sched = append(w.sched, fmt.Sprintf("G%d: %s(P%d, %v) did not complete while G1's write was held (blocked by the service)", 2+j, okind, p, b))
			close(rule.Release)
			select {
			case <-done:
			case <-time.After(60 * time.Second):
				t.Fatal("overtaking update never returned")
			}
			j = m
		}
	}
	if overtaken == m {
		close(rule.Release)
	}
	select {
	case <-g1:
	case <-time.After(60 * time.Second):
		t.Fatal("G1 never returned")
	}
	if atomic.LoadInt32(&rule.TimedOut) != 0 {
		t.Fatal("park rule timed out")
	}
	w.sched = append(w.sched, "G1's write released")
	run.Stat("forced_attempts", 1)
	if overtaken > 0 {
		run.Stat("forced_order_achieved", 1)
	} else {
		run.Stat("forced_order_refused_by_service", 1)
	}
	post := rng.Intn(3)
	for j := 0; j < post; j++ {
		w.randomSeqOp(rng, 0, kind, p)
	}
	stale := w.staleOverwrites()
	run.Stat("stale_overwrites_observed", int64(stale))
	w.check(rng, focus, 2)
	if payOvertakes {
		run.Stat("forced_pay_overtakes", 1)
		kind = "consume+pay"
	}
	c.End(fmt.Sprintf("forced/%s/overtakers=%d/achieved=%d/pre=%d/post=%d/stale=%d", kind, m, overtaken, pre, post, stale), true)
}

// check restarts at crash points and at quiescence: every write index from `from` on,
// plus at most maxEarlier sampled ones between the setup and `from`.
func (w *world) check(rng *rand.Rand, from, maxEarlier int) {
	n := len(w.ps.Writes())
	pts := []int{}
	for k := w.setupW; k < from && k < n; k++ {
		pts = append(pts, k)
	}
	if len(pts) > maxEarlier {
		rng.Shuffle(len(pts), func(a, b int) { pts[a], pts[b] = pts[b], pts[a] })
		pts = pts[:maxEarlier]
	}
	for k := from; k < n; k++ {
		pts = append(pts, k)
	}
	for _, k := range pts {
		w.restartAt(k, rng, nil)
	}
	mem := readView(w.t, w.node, w.peers)
	w.restartAt(n, rng, &mem)
}

func freeHistory(t *testing.T, run *obs.Run, c *obs.Case, i int) {
	rng := c.Rand()
	w := newWorld(t, run, c, rng, 1+rng.Intn(3))
	defer w.close()
	// seeded store latency: yields / microsleeps before a write reaches the DB
	var jn uint64
	seed := rng.Uint64()
	w.ps.Jitter = func(key string) {
		h := fnv.New64a()
		fmt.Fprintf(h, "%d/%d", seed, atomic.AddUint64(&jn, 1))
		switch x := h.Sum64() % 8; {
		case x < 3:
		case x < 6:
			for y := uint64(0); y < x; y++ {
				runtime.Gosched()
			}
		default:
			time.Sleep(time.Duration(h.Sum64()%200) * time.Microsecond)
		}
	}
	workers := 2 + rng.Intn(5)
	var wg sync.WaitGroup
	for g := 1; g <= workers; g++ {
		nops := 3 + rng.Intn(6)
		type o struct {
			kind string
			p    int
			a    *big.Int
		}
		var ops []o
		for j := 0; j < nops; j++ {
			k := kConsume
			if rng.Intn(2) == 0 {
				k = kServe
			}
			ops = append(ops, o{k, rng.Intn(len(w.peers)), amount(rng)})
		}
		wg.Add(1)
		go func(g int) {
			defer wg.Done()
			for _, x := range ops {
				if x.kind == kConsume {
					w.consume(g, x.p, x.a)
				} else {
					w.serve(g, x.p, x.a)
				}
			}
		}(g)
	}
	// one payer (the real node pays from a single goroutine) and one cheque receiver
	npay := rng.Intn(6)
	nrecv := rng.Intn(5)
	pays := make([]int, npay)
	for j := range pays {
		pays[j] = rng.Intn(len(w.peers))
	}
	type rv struct {
		p int
		a *big.Int
	}
	recvs := make([]rv, nrecv)
	for j := range recvs {
		recvs[j] = rv{rng.Intn(len(w.peers)), amount(rng)}
	}
	wg.Add(2)
	go func() {
		defer wg.Done()
		for _, p := range pays {
			w.pay(100, p)
			runtime.Gosched()
		}
	}()
	go func() {
		defer wg.Done()
		for _, x := range recvs {
			w.recv(101, x.p, x.a)
		}
	}()
	done := make(chan struct{})
	go func() { wg.Wait(); close(done) }()
	select {
	case <-done:
	case <-time.After(120 * time.Second):
		t.Fatal("workload did not finish within 120s")
	}
	stale := w.staleOverwrites()
	run.Stat("free_histories", 1)
	run.Stat("stale_overwrites_observed", int64(stale))
	// interleaving signature: the order in which goroutines' calls returned
	w.mu.Lock()
	recs := append([]*opRec(nil), w.recs...)
	w.mu.Unlock()
	order := make([]*opRec, len(recs))
	copy(order, recs)
	for a := 1; a < len(order); a++ {
		for b := a; b > 0 && order[b].Ret < order[b-1].Ret; b-- {
			order[b], order[b-1] = order[b-1], order[b]
		}
	}
	h := fnv.New32a()
	for _, r := range order {
		fmt.Fprintf(h, "%d,", r.G)
	}
	run.Stat("acknowledged_ops", int64(len(recs)))
	w.check(rng, 1<<30, 5)
	c.End(fmt.Sprintf("free/workers=%d/peers=%d/pays=%d/recvs=%d/stale=%d/order=%08x", workers, len(w.peers), npay, nrecv, stale, h.Sum32()), true)
}

// twoPhaseHistory: traffic that is settled completely (a cheque for everything consumed, a
// received cheque for everything served), then a restart of the service (or the 24h refresh)
// on the same store, then more traffic and payments on the restored service, then the usual
// restarts at crash points and at quiescence.
func twoPhaseHistory(t *testing.T, run *obs.Run, c *obs.Case, i int) {
	rng := c.Rand()
	w := newWorld(t, run, c, rng, 2+rng.Intn(2))
	defer w.close()
	settled := map[int]bool{}
	for p := range w.peers {
		switch rng.Intn(4) {
		case 0: // left with an unpaid balance
			w.consume(0, p, amount(rng))
		default:
			for k := 0; k <= rng.Intn(2); k++ {
				w.consume(0, p, new(big.Int).Add(amount(rng), w.thr))
			}
			w.pay(0, p)
			settled[p] = true
		}
		if rng.Intn(2) == 0 {
			a := amount(rng)
			w.serve(0, p, a)
			if rng.Intn(3) > 0 {
				w.recv(0, p, a) // the peer pays for everything it was served
			}
		}
	}
	how := "restart"
	if rng.Intn(3) == 0 {
		how = "refresh"
		if err := w.node.Svc.TrafficInit(); err != nil {
			t.Fatal(err)
		}
	} else {
		w.node = trafficx.NewNode(w.self, w.ps, w.chain, trafficx.Options{})
		if err := w.node.Svc.Init(); err != nil {
			t.Fatal(err)
		}
	}
	w.sched = append(w.sched, "phase 1 (settle), then "+how+", then phase 2 on the restored service")
	focus := len(w.ps.Writes())
	n2 := 2 + rng.Intn(5)
	for k := 0; k < n2; k++ {
		p := rng.Intn(len(w.peers))
		switch rng.Intn(4) {
		case 0:
			w.serve(0, p, amount(rng))
		case 1:
			w.pay(0, p)
		default:
			w.consume(0, p, amount(rng))
		}
	}
	run.Stat("two_phase_histories", 1)
	run.Stat("peers_fully_settled_before_the_restart", int64(len(settled)))
	w.check(rng, focus, 2)
	c.End(fmt.Sprintf("twophase/%s/peers=%d/settled=%d/phase2=%d", how, len(w.peers), len(settled), n2), true)
}

// freshHistory: the peers are known to the persistent address book but the running
// service has no in-memory record of them yet (the node was restarted since they were
// met and no traffic was exchanged before). The first updates of each such peer are
// released together.
func freshHistory(t *testing.T, run *obs.Run, c *obs.Case, i int) {
	rng := c.Rand()
	w := newWorld(t, run, c, rng, 6+rng.Intn(10))
	defer w.close()
	w.node = trafficx.NewNode(w.self, w.ps, w.chain, trafficx.Options{})
	if err := w.node.Svc.Init(); err != nil {
		t.Fatal(err)
	}
	w.setupW = len(w.ps.Writes())
	workers := 2 + rng.Intn(7)
	for p := range w.peers {
		var wg sync.WaitGroup
		start := make(chan struct{})
		for g := 1; g <= workers; g++ {
			kind, a := kConsume, amount(rng)
			if rng.Intn(2) == 0 {
				kind = kServe
			}
			wg.Add(1)
			go func(g int) {
				defer wg.Done()
				<-start
				if kind == kConsume {
					w.consume(g, p, a)
				} else {
					w.serve(g, p, a)
				}
			}(g)
		}
		close(start)
		done := make(chan struct{})
		go func() { wg.Wait(); close(done) }()
		select {
		case <-done:
		case <-time.After(120 * time.Second):
			t.Fatal("first updates of a fresh peer did not finish within 120s")
		}
		run.Stat("fresh_peers_with_simultaneous_first_updates", 1)
	}
	w.mu.Lock()
	nrec := len(w.recs)
	w.mu.Unlock()
	run.Stat("acknowledged_ops", int64(nrec))
	run.Stat("fresh_histories", 1)
	w.check(rng, 1<<30, 3)
	c.End(fmt.Sprintf("fresh/peers=%d/workers=%d", len(w.peers), workers), true)
}

func TestMain(m *testing.M) { racemain.Main(m) }

func runSet(t *testing.T, name string, quick, thorough int, f func(*testing.T, *obs.Run, *obs.Case, int)) {
	racemain.Run(t, func() { runSet1(t, name, quick, thorough, f) })
}

func runSet1(t *testing.T, name string, quick, thorough int, f func(*testing.T, *obs.Run, *obs.Case, int)) {
	run := obs.Start(t, "C33")
	defer run.Done()
	if strings.HasPrefix(name, "forced") {
		run.Rule("forced persist order: a sequential prefix of random traffic/pay/cheque operations, then one traffic update whose store write is held back by the harness's state-store wrapper while 1-3 further updates of the same total run, then the held write is released; "+
			"restart (new service + Init) on the store contents after EVERY write from the held-back update on, after 2 sampled writes of the prefix, and at quiescence; distinct = kind x overtakers x achieved x prefix/suffix length x stale overwrites seen",
			"the store wrapper only delays a Put and logs writes; a store in which an earlier-issued Put completes later is an ordinary concurrent store",
			"restart point k = base contents + first k writes; an operation counts as acknowledged at point k if its call returned before write k+1 began (logical clock)")
	} else if strings.HasPrefix(name, "twophase") {
		run.Rule("two phases: per peer, consumed traffic paid by a cheque for the whole total and served traffic paid by a received cheque (some peers left unsettled), then a restart of the service on the same store (1 in 3: the 24h refresh instead), then 2-6 further traffic updates / payments on the restored service; restart after every write of phase 2 and at quiescence, where also the amounts accounted in memory are compared with the running service; distinct = restart kind x peers x settled peers x phase-2 length")
	} else if strings.HasPrefix(name, "fresh") {
		run.Rule("fresh peers: 6-15 peers known to the persistent address book but without an in-memory record (service restarted since the handshake, no traffic before); for each peer 2-8 goroutines are released together, each making one traffic update of that peer; restart at 3 sampled crash points and at quiescence; distinct = peers x workers")
	} else {
		run.Rule("free-running: 2-6 goroutines x 3-8 traffic updates over 1-3 peers, one payer goroutine and one cheque-receiving goroutine, seeded yields/microsleeps before store writes; restart at 5 sampled crash points and at quiescence; " +
			"distinct = workload sizes x stale overwrites seen x order in which calls returned")
	}
	n := run.N(quick, thorough)
	for i := 0; i < n; i++ {
		c := run.Begin(fmt.Sprintf("%s/%d", name, i), nil)
		if c == nil {
			continue
		}
		f(t, run, c, i)
		run.StatMax("max/live_goroutines", int64(runtime.NumGoroutine()))
	}
}

// The race detector supports at most 8128 live goroutines and every traffic.Service
// leaves two behind (it has no Close), so the work is split over test functions that
// ./check runs as separate child processes (shards).
func TestForcedA(t *testing.T)   { runSet(t, "forcedA", 60, 250, forcedHistory) }
func TestForcedB(t *testing.T)   { runSet(t, "forcedB", 60, 250, forcedHistory) }
func TestForcedC(t *testing.T)   { runSet(t, "forcedC", 0, 250, forcedHistory) }
func TestForcedD(t *testing.T)   { runSet(t, "forcedD", 0, 250, forcedHistory) }
func TestFreeA(t *testing.T)     { runSet(t, "freeA", 40, 300, freeHistory) }
func TestFreeB(t *testing.T)     { runSet(t, "freeB", 40, 300, freeHistory) }
func TestFreeC(t *testing.T)     { runSet(t, "freeC", 0, 300, freeHistory) }
func TestFreeD(t *testing.T)     { runSet(t, "freeD", 0, 300, freeHistory) }
func TestFreshA(t *testing.T)    { runSet(t, "freshA", 40, 300, freshHistory) }
func TestFreshB(t *testing.T)    { runSet(t, "freshB", 40, 300, freshHistory) }
func TestTwoPhaseA(t *testing.T) { runSet(t, "twophaseA", 60, 400, twoPhaseHistory) }
