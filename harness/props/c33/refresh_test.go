package c33

import (
	"fmt"
	"math/big"
	"runtime"
	"sync"
	"sync/atomic"
	"testing"
	"time"

	"github.com/gauss-project/aurorafs/pkg/storage"
	"verif/harness/internal/obs"
	"verif/harness/internal/racemain"
	"verif/harness/internal/trafficx"
)

// holdStore sits between the service and the ParkStore. It never alters what is read or
// written. An armed key makes the next Get of that key return late: the value is read
// from the store at once, but the call returns only after another goroutine has completed
// a Put of the same key, or after a bounded wait. The wait decides nothing: a service
// that reads a stored total while it excludes updates of that total simply lets the wait
// run out (the updates are blocked by the service itself).
type holdStore struct {
	storage.StateStorer
	mu     sync.Mutex
	armed  map[string]bool
	puts   map[string]int           // completed Puts per key
	wake   map[string]chan struct{} // closed at the next completed Put of the key
	bound  time.Duration
	onHold func(key string) // runs in its own goroutine when a Get starts to be held
	cbwg   sync.WaitGroup   // the onHold goroutines

	held, overtaken int64 // Gets held / Gets that returned after a completed Put of their key
}

func newHoldStore(inner storage.StateStorer, bound time.Duration) *holdStore {
	return &holdStore{StateStorer: inner, armed: map[string]bool{}, puts: map[string]int{}, wake: map[string]chan struct{}{}, bound: bound}
}

func (h *holdStore) arm(key string) {
	h.mu.Lock()
	h.armed[key] = true
	h.mu.Unlock()
}

func (h *holdStore) disarm() {
	h.mu.Lock()
	h.armed = map[string]bool{}
	h.mu.Unlock()
}

func (h *holdStore) Get(key string, i interface{}) error {
	h.mu.Lock()
	hit := h.armed[key]
	var ch chan struct{}
	if hit {
		delete(h.armed, key)
		ch = h.wake[key]
		if ch == nil {
			ch = make(chan struct{})
			h.wake[key] = ch
		}
	}
	cb := h.onHold
	h.mu.Unlock()
	err := h.StateStorer.Get(key, i) // the value returned is the one stored now
	if !hit {
		return err
	}
	atomic.AddInt64(&h.held, 1)
	if cb != nil {
		h.cbwg.Add(1)
		go func() { defer h.cbwg.Done(); cb(key) }()
	}
	tm := time.NewTimer(h.bound)
	defer tm.Stop()
	select {
	case <-ch:
		atomic.AddInt64(&h.overtaken, 1)
	case <-tm.C:
	}
	return err
}

func (h *holdStore) Put(key string, i interface{}) error {
	err := h.StateStorer.Put(key, i)
	h.mu.Lock()
	h.puts[key]++
	if ch := h.wake[key]; ch != nil {
		close(ch)
		delete(h.wake, key)
	}
	h.mu.Unlock()
	return err
}

// refreshHistory: a running service with a few peers and some traffic; per round the
// refresh of the totals (TrafficInit, what the 24h ticker runs) races with traffic
// updates of the same peers, then one more update of every total, then a restart on the
// same store.
func refreshHistory(t *testing.T, run *obs.Run, c *obs.Case, i int) {
	rng := c.Rand()
	w := newWorld(t, run, c, rng, 2+rng.Intn(3))
	defer w.close()
	hs := newHoldStore(w.ps, 25*time.Millisecond)
	start := func() {
		w.node = trafficx.NewNode(w.self, hs, w.chain, trafficx.Options{})
		if err := w.node.Svc.Init(); err != nil {
			t.Fatalf("Init: %v", err)
		}
	}
	start()
	keyOf := func(kind string, p int) string {
		if kind == kConsume {
			return fmt.Sprintf("retrieved_traffic__%x", w.peers[p].Addr)
		}
		return fmt.Sprintf("transferred_traffic__%x", w.peers[p].Addr)
	}
	do := func(g int, kind string, p int, a *big.Int) {
		if kind == kConsume {
			w.consume(g, p, a)
		} else {
			w.serve(g, p, a)
		}
	}
	kinds := []string{kConsume, kServe}
	// some traffic with every peer, so that every total is stored
	for p := range w.peers {
		for _, k := range kinds {
			for j := 0; j <= rng.Intn(2); j++ {
				do(0, k, p, amount(rng))
			}
		}
	}
	// the store keys as the service writes them (guards the key format assumed above)
	for p := range w.peers {
		for _, k := range kinds {
			if err := w.ps.Get(keyOf(k, p), new(*big.Int)); err != nil {
				t.Fatalf("stored total %s not found under the expected key: %v", keyOf(k, p), err)
			}
		}
	}
	rounds := 2 + rng.Intn(2)
	var during, forcedDone int64
	violated := false
	for r := 0; r < rounds && !violated; r++ {
		// forced order: the refresh's read of a stored total returns only after an update
		// of that very total has completed (bounded); the update is issued at that moment
		var fmu sync.Mutex
		famt := map[string]*big.Int{}
		fpeer := map[string]int{}
		fkind := map[string]string{}
		for p := range w.peers {
			for _, k := range kinds {
				if rng.Intn(4) == 0 {
					continue // this total is read without a hold
				}
				key := keyOf(k, p)
				famt[key], fpeer[key], fkind[key] = amount(rng), p, k
				hs.arm(key)
			}
		}
		var refreshing int32 = 1
		hs.mu.Lock()
		hs.onHold = func(key string) {
			fmu.Lock()
			a := famt[key]
			delete(famt, key)
			fmu.Unlock()
			if a == nil {
				return
			}
			do(50, fkind[key], fpeer[key], a)
			if atomic.LoadInt32(&refreshing) == 1 {
				atomic.AddInt64(&forcedDone, 1)
			}
		}
		hs.mu.Unlock()
		held0 := atomic.LoadInt64(&hs.held)
		armedN := len(famt)

		// free-running updates of the same peers
		var wg sync.WaitGroup
		workers := 2 + rng.Intn(3)
		for g := 1; g <= workers; g++ {
			type o struct {
				kind string
				p    int
				a    *big.Int
			}
			var ops []o
			for j := 0; j < 2+rng.Intn(4); j++ {
				ops = append(ops, o{kinds[rng.Intn(2)], rng.Intn(len(w.peers)), amount(rng)})
			}
			wg.Add(1)
			go func(g int) {
				defer wg.Done()
				for _, x := range ops {
					do(g, x.kind, x.p, x.a)
					if atomic.LoadInt32(&refreshing) == 1 {
						atomic.AddInt64(&during, 1)
					}
				}
			}(g)
		}
		rerr := make(chan error, 1)
		go func() { rerr <- w.node.Svc.TrafficInit() }()
		select {
		case err := <-rerr:
			if err != nil {
				t.Fatalf("TrafficInit: %v", err)
			}
		case <-time.After(120 * time.Second):
			t.Fatal("refresh did not finish within 120s")
		}
		atomic.StoreInt32(&refreshing, 0)
		heldN := int(atomic.LoadInt64(&hs.held) - held0)
		hs.disarm()
		done := make(chan struct{})
		go func() { wg.Wait(); hs.cbwg.Wait(); close(done) }()
		select {
		case <-done:
		case <-time.After(120 * time.Second):
			t.Fatal("updates did not finish within 120s")
		}
		hs.mu.Lock()
		hs.onHold = nil
		hs.mu.Unlock()
		run.Stat("refresh-rounds", 1)
		run.Stat("refresh-reads-held", int64(heldN))
		// one more update of every total
		for p := range w.peers {
			for _, k := range kinds {
				do(0, k, p, amount(rng))
			}
		}
		w.sched = append(w.sched, fmt.Sprintf("round %d: TrafficInit with %d free-running updaters, %d of %d armed reads of stored totals held; then one update per total; then restart", r, workers, heldN, armedN))
		// restart on the same store
		b := w.boundsAt(int64(1) << 62)
		mem := readView(t, w.node, w.peers)
		start()
		run.Stat("restarts", 1)
		v := readView(t, w.node, w.peers)
		for p, pp := range w.peers {
			for _, x := range []struct {
				what       string
				got, bound *big.Int
			}{
				{"consumed-traffic total", v.consumed[p], b.consumed[p]},
				{"served-traffic total", v.served[p], b.served[p]},
				{"consumed-traffic total (vs. running service)", v.consumed[p], mem.consumed[p]},
				{"served-traffic total (vs. running service)", v.served[p], mem.served[p]},
			} {
				run.Stat("restored_values_compared", 1)
				if x.got.Cmp(x.bound) < 0 {
					violated = true
					c.Viol("restart-forgets-traffic-after-refresh", fmt.Sprintf("%s of %s after a restart that followed a refresh (TrafficInit) concurrent with traffic updates is %v, it was at least %v before (round %d)", x.what, pp.Name, x.got, x.bound, r), w.witness(len(w.ps.Writes()), "quiescence after refresh round"))
				}
			}
		}
	}
	run.Stat("refresh-updates-during-refresh", during+forcedDone)
	run.Stat("refresh-forced-updates-completed-during-refresh", forcedDone)
	run.Stat("refresh-reads-returned-after-overtaking-put", atomic.LoadInt64(&hs.overtaken))
	stale := w.staleOverwrites()
	run.Stat("stale_overwrites_observed", int64(stale))
	w.mu.Lock()
	nrec := len(w.recs)
	w.mu.Unlock()
	run.Stat("acknowledged_ops", int64(nrec))
	ov := "no"
	if atomic.LoadInt64(&hs.overtaken) > 0 {
		ov = "yes"
	}
	c.End(fmt.Sprintf("refresh/peers=%d/rounds=%d/overtaken=%s/stale=%d", len(w.peers), rounds, ov, stale), during+forcedDone > 0)
}

func TestRefreshA(t *testing.T) {
	racemain.Run(t, func() {
		run := obs.Start(t, "C33")
		defer run.Done()
		run.Rule("refresh: a running service with 2-4 peers and stored consumed/served totals; per round (2-3 per history) the refresh of the totals (TrafficInit, as the 24h ticker runs it) runs concurrently with 2-4 free-running goroutines of traffic updates of the same peers, and the refresh's read of a peer's stored total is made to return only after an update of that very total, issued at that moment, has completed (bounded wait of 25ms; a service that excludes updates while it reads lets the wait run out); then one more update of every total, then a restart (new service + Init) on the same store: restored totals must be at least the sum of the acknowledged updates and at least what the running service reported; distinct = peers x rounds x whether a held read was overtaken x stale overwrites seen",
			"the store wrapper only delays the return of a Get (the value is read at once) and counts Puts; a store whose reads take time is an ordinary store")
		n := run.N(30, 300)
		for i := 0; i < n; i++ {
			c := run.Begin(fmt.Sprintf("refreshA/%d", i), nil)
			if c == nil {
				continue
			}
			refreshHistory(t, run, c, i)
			run.StatMax("max/live_goroutines", int64(runtime.NumGoroutine()))
		}
	})
}
