package c22

import (
	"fmt"
	"testing"

	"verif/harness/internal/kadrig"
	"verif/harness/internal/obs"
	"verif/harness/internal/spec"
)

// TestMinimalWitnesses pins the smallest layouts for the two ways the depth can
// disagree with the peer set that reading the code suggested, for each
// quick-saturation number q:
//
//	gap:   bin0 = q public, bin1 = 1 private, bin2 = max(q,3) public
//	       -> any depth > 1 stands above a bin without a single reachable peer
//	stale: bin0 = q public, bin1 = max(q,3) public, then one peer of bin1 (of the last three) turns private
//	       -> depth must not stay above what the remaining reachable peers allow
func TestMinimalWitnesses(t *testing.T) {
	run := obs.Start(t, "C22")
	defer run.Done()
	run.Rule("fixed minimal layouts (gap bin holding only an unreachable peer; a peer losing reachability after the depth was computed) for quick-saturation 1, 2 and 4, unreachable = private / explicitly unknown / never reported; distinct = (pattern, quick, kind of unreachable)")
	rng := run.RandFor("minimal")
	st := map[string]int64{}
	for _, binMax := range []int{5, 10, 20} {
		q, _, _ := kadrig.Thresholds(binMax)
		deep := q
		if deep < 3 {
			deep = 3
		}
		for _, un := range []string{stPrivate, stUnknown, stNever} {
			for _, pat := range []string{"gap", "stale"} {
				if pat == "stale" && un == stNever {
					continue
				}
				c := run.Begin(fmt.Sprintf("minimal/%s/q%d/%s", pat, q, un), map[string]interface{}{"pattern": pat, "quick": q, "unreachable_as": un})
				if c == nil {
					continue
				}
				base := make([]byte, 32)
				rng.Read(base)
				var peers []lpeer
				var evs []event
				add := func(bin int, status string) int {
					peers = append(peers, lpeer{addr: spec.AddrAt(rng, base, bin), bin: bin, final: status})
					i := len(peers) - 1
					evs = append(evs, event{Kind: "connect", Peer: i, Bin: bin})
					if status != stNever {
						evs = append(evs, event{Kind: "reach-" + status, Peer: i, Bin: bin})
					}
					return i
				}
				for i := 0; i < q; i++ {
					add(0, stPublic)
				}
				switch pat {
				case "gap":
					add(1, un)
					for i := 0; i < deep; i++ {
						add(2, stPublic)
					}
				case "stale":
					last := 0
					for i := 0; i < deep; i++ {
						last = add(1, stPublic)
					}
					evs = append(evs, event{Kind: "reach-" + un, Peer: last, Bin: 1})
				}
				m := newMachine(t, base, binMax, peers, st)
				for _, e := range evs {
					m.apply(t, e)
				}
				d := m.depth()
				fails := m.state.CheckDepth(d)
				if len(fails) > 0 {
					desc := m.state.Describe()
					fresh := m.recompute()
					still := map[string]bool{}
					for _, f := range m.state.CheckDepth(fresh) {
						still[f.Clause] = true
					}
					w := map[string]interface{}{"base": obs.Hex(base), "history": strs(evs), "depth_reported": d, "depth_after_forced_recalculation": fresh, "state": desc}
					for _, f := range fails {
						if still[f.Clause] {
							c.Viol(f.Clause, f.Msg+" | "+desc, w)
						} else {
							c.Viol(staleKey(evs[len(evs)-1].Kind), fmt.Sprintf("after %s the reported depth is still %d (a recalculation in the same state gives %d): %s | %s", evs[len(evs)-1], d, fresh, f.Msg, desc), w)
						}
					}
				}
				st["minimal_layouts"]++
				m.rig.Close(t)
				c.End(fmt.Sprintf("%s/q=%d/%s", pat, q, un), true)
			}
		}
	}
	for k, v := range st {
		if k == "minimal_layouts" {
			run.Stat(k, v)
		}
	}
}
