package c22

import (
	"context"
	"errors"
	"fmt"
	"math/rand"
	"sort"
	"testing"

	"github.com/gauss-project/aurorafs/pkg/boson"
	"github.com/gauss-project/aurorafs/pkg/p2p"
	"github.com/gauss-project/aurorafs/pkg/topology"
	"verif/harness/internal/kadrig"
	"verif/harness/internal/obs"
	"verif/harness/internal/spec"
)

const (
	maxPO = 31
	bins  = 32
)

// status of a peer as last reported through Kad.Reachable.
const (
	stNever   = "never-reported"
	stPublic  = "public"
	stPrivate = "private"
	stUnknown = "unknown" // explicitly reported as unknown
)

type lpeer struct {
	addr  []byte
	bin   int
	final string // final status; "" for extra peers that end disconnected
}

type event struct {
	Kind   string `json:"ev"` // connect | outbound | disconnect | reach-public | reach-private | reach-unknown | radius
	Peer   int    `json:"peer,omitempty"`
	Bin    int    `json:"bin,omitempty"`
	Radius int    `json:"radius,omitempty"`
}

func (e event) String() string {
	if e.Kind == "radius" {
		return fmt.Sprintf("radius(%d)", e.Radius)
	}
	return fmt.Sprintf("%s(p%d@bin%d)", e.Kind, e.Peer, e.Bin)
}

func toP2P(s string) p2p.ReachabilityStatus {
	switch s {
	case stPublic:
		return p2p.ReachabilityStatusPublic
	case stPrivate:
		return p2p.ReachabilityStatusPrivate
	}
	return p2p.ReachabilityStatusUnknown
}

// machine = one real Kad plus the model of what its depth may depend on.
type machine struct {
	rig    *kadrig.Rig
	peers  []lpeer
	state  *spec.KadState
	status map[int]string // last reported status per peer index
	st     map[string]int64
}

func newMachine(t *testing.T, base []byte, binMax int, peers []lpeer, st map[string]int64) *machine {
	q, _, _ := kadrig.Thresholds(binMax)
	return &machine{
		rig:    kadrig.New(t, kadrig.Options{Base: base, BinMaxPeers: binMax}),
		peers:  peers,
		state:  &spec.KadState{Peers: map[string]*spec.KadPeer{}, Radius: maxPO, Quick: q, Bins: bins},
		status: map[int]string{},
		st:     st,
	}
}

func (m *machine) apply(t *testing.T, e event) {
	k := m.rig.Kad
	m.st["events_"+e.Kind]++
	switch e.Kind {
	case "radius":
		k.SetRadius(uint8(e.Radius))
		m.state.Radius = e.Radius
		return
	}
	p := m.peers[e.Peer]
	switch e.Kind {
	case "connect":
		err := k.Connected(context.Background(), kadrig.Peer(p.addr, kadrig.FullMode()), false)
		if errors.Is(err, topology.ErrOversaturated) {
			m.st["connect_rejected_oversaturated"]++
			return
		}
		if err != nil {
			t.Fatalf("harness: Connected: %v", err)
		}
		m.state.Peers[string(p.addr)] = &spec.KadPeer{Addr: p.addr, Bin: p.bin, Reachable: m.status[e.Peer] == stPublic}
	case "outbound":
		k.Outbound(kadrig.Peer(p.addr, kadrig.FullMode()))
		m.state.Peers[string(p.addr)] = &spec.KadPeer{Addr: p.addr, Bin: p.bin, Reachable: m.status[e.Peer] == stPublic}
	case "disconnect":
		k.Disconnected(kadrig.Peer(p.addr, kadrig.FullMode()), "bye")
		delete(m.state.Peers, string(p.addr))
	case "reach-public", "reach-private", "reach-unknown":
		s := e.Kind[len("reach-"):]
		k.Reachable(boson.NewAddress(p.addr), toP2P(s))
		m.status[e.Peer] = s
		if mp := m.state.Peers[string(p.addr)]; mp != nil {
			mp.Reachable = s == stPublic
		}
	default:
		t.Fatalf("harness: unknown event %q", e.Kind)
	}
}

func (m *machine) depth() int { return int(m.rig.Kad.NeighborhoodDepth()) }

// recompute makes the topology recalculate its depth without changing the state it
// depends on: the radius is moved away and back.
func (m *machine) recompute() int {
	r := m.state.Radius
	other := maxPO
	if r == maxPO {
		other = maxPO - 1
	}
	m.rig.Kad.SetRadius(uint8(other))
	m.rig.Kad.SetRadius(uint8(r))
	return m.depth()
}

func staleKey(kind string) string {
	switch kind {
	case "reach-private", "reach-unknown":
		return "depth-not-recomputed-after-reachability-loss"
	}
	return "depth-stale-after-" + kind
}

// layout draws the final (set, reachability, radius) of a case and some extra peers.
func layout(rng *rand.Rand, base []byte, quick int) (peers []lpeer, radius int, feats map[string]bool) {
	feats = map[string]bool{}
	add := func(bin int, final string) {
		po := bin
		if bin == maxPO && rng.Intn(3) == 0 {
			po = maxPO + 1 + rng.Intn(100) // beyond the proximity cap: still the last bin
		}
		peers = append(peers, lpeer{addr: spec.AddrAt(rng, base, po), bin: bin, final: final})
	}
	unreach := func() string {
		return []string{stPrivate, stPrivate, stNever, stUnknown}[rng.Intn(4)]
	}
	nDeep := rng.Intn(9)
	allPublic := rng.Intn(4) == 0
	for b := 0; b < nDeep; b++ {
		kind := "sat"
		if rng.Intn(100) < 18 {
			kind = []string{"empty", "only-unreachable", "below-quick", "only-unreachable"}[rng.Intn(4)]
		}
		switch kind {
		case "empty":
			feats["empty-bin"] = true
			continue
		case "only-unreachable":
			feats["only-unreachable-bin"] = true
			for i := 0; i < 1+rng.Intn(3); i++ {
				add(b, unreach())
			}
			continue
		case "below-quick":
			feats["below-quick-bin"] = true
			for i := 0; i < quick-1; i++ {
				add(b, stPublic)
			}
			for i := 0; i < 1+rng.Intn(2); i++ {
				add(b, unreach())
			}
			continue
		}
		for i := 0; i < quick+rng.Intn(2); i++ {
			add(b, stPublic)
		}
		if !allPublic {
			for i := 0; i < rng.Intn(3); i++ {
				add(b, unreach())
			}
		}
	}
	for b := nDeep; b < nDeep+rng.Intn(5) && b < bins; b++ {
		for i := 0; i < rng.Intn(4); i++ {
			if allPublic || rng.Intn(3) != 0 {
				add(b, stPublic)
			} else {
				add(b, unreach())
			}
		}
	}
	if rng.Intn(3) == 0 {
		for i := 0; i < 1+rng.Intn(4); i++ {
			add([]int{30, 31, 31, 20}[rng.Intn(4)], []string{stPublic, stPublic, stPrivate}[rng.Intn(3)])
		}
		feats["deep-peers"] = true
	}
	radius = maxPO
	if rng.Intn(5) < 2 {
		radius = rng.Intn(12)
		feats["small-radius"] = true
	}
	// extra peers that come and go
	for i := 0; i < rng.Intn(6); i++ {
		b := rng.Intn(nDeep + 3)
		peers = append(peers, lpeer{addr: spec.AddrAt(rng, base, b), bin: b, final: ""})
	}
	return
}

// adventurous builds a history that ends in the layout's final state but passes
// through extra connections, reconnections, reachability flips and radius changes.
func adventurous(rng *rand.Rand, peers []lpeer, radius int) []event {
	var chains [][]event
	for i, p := range peers {
		var ch []event
		conn := func() {
			kind := "connect"
			if rng.Intn(4) == 0 {
				kind = "outbound"
			}
			ch = append(ch, event{Kind: kind, Peer: i, Bin: p.bin})
		}
		if p.final == "" {
			conn()
			if rng.Intn(2) == 0 {
				ch = append(ch, event{Kind: "reach-" + []string{stPublic, stPrivate}[rng.Intn(2)], Peer: i, Bin: p.bin})
			}
			ch = append(ch, event{Kind: "disconnect", Peer: i, Bin: p.bin})
			chains = append(chains, ch)
			continue
		}
		// connection part
		conn()
		if rng.Intn(4) == 0 {
			ch = append(ch, event{Kind: "disconnect", Peer: i, Bin: p.bin})
			conn()
		}
		// status part: some flips, ending in the final status
		var sts []event
		if p.final != stNever {
			for k := 0; k < rng.Intn(3); k++ {
				sts = append(sts, event{Kind: "reach-" + []string{stPublic, stPrivate, stUnknown}[rng.Intn(3)], Peer: i, Bin: p.bin})
			}
			sts = append(sts, event{Kind: "reach-" + p.final, Peer: i, Bin: p.bin})
		}
		// merge the two parts keeping their inner orders
		var merged []event
		a, b := ch, sts
		for len(a)+len(b) > 0 {
			if len(b) == 0 || (len(a) > 0 && rng.Intn(len(a)+len(b)) < len(a)) {
				merged, a = append(merged, a[0]), a[1:]
			} else {
				merged, b = append(merged, b[0]), b[1:]
			}
		}
		chains = append(chains, merged)
	}
	var rch []event
	for k := 0; k < rng.Intn(3); k++ {
		rch = append(rch, event{Kind: "radius", Radius: rng.Intn(bins)})
	}
	rch = append(rch, event{Kind: "radius", Radius: radius})
	chains = append(chains, rch)
	// random interleaving of the chains
	var out []event
	total := 0
	for _, c := range chains {
		total += len(c)
	}
	for total > 0 {
		r := rng.Intn(total)
		for ci := range chains {
			if r < len(chains[ci]) {
				out = append(out, chains[ci][0])
				chains[ci] = chains[ci][1:]
				break
			}
			r -= len(chains[ci])
		}
		total--
	}
	return out
}

// clean reaches the same final state so that every depth calculation happens with the
// final reachability already known and the last event is a connection.
func clean(rng *rand.Rand, peers []lpeer, radius int) []event {
	out := []event{{Kind: "radius", Radius: radius}}
	for _, i := range rng.Perm(len(peers)) {
		p := peers[i]
		if p.final == "" {
			continue
		}
		if p.final != stNever {
			out = append(out, event{Kind: "reach-" + p.final, Peer: i, Bin: p.bin})
		}
		out = append(out, event{Kind: "connect", Peer: i, Bin: p.bin})
	}
	return out
}

func strs(ev []event) []string {
	s := make([]string, len(ev))
	for i, e := range ev {
		s[i] = e.String()
	}
	return s
}

func TestDepth(t *testing.T) {
	run := obs.Start(t, "C22")
	defer run.Done()
	run.Rule("random final layouts (0-8 leading bins filled to the quick-saturation number, ~18% of them instead empty / holding only unreachable peers / one short; sparse deeper bins incl. 30, 31 and beyond the cap; each peer public, private, explicitly unknown or never reported; radius 31 or 0-11; quick-saturation 1, 2 or 4) reached on two real Kads: (A) an adventurous history with extra peers that come and go, reconnections, reachability flips and radius changes, depth clauses checked after EVERY event; (B) a clean history (status first, then connect). Clauses are checked on both, and depth(A) must equal depth(B). distinct = (quick, layout features, depth, kind of last event of A)",
		"a peer is reachable iff the last status reported through Kad.Reachable is public (never reported = not reachable)",
		"the Kad's manage loop is not started: every event is delivered synchronously, so no waiting is involved")
	n := run.N(400, 5000)
	st := map[string]int64{}
	for i := 0; i < n; i++ {
		c := run.Begin(fmt.Sprintf("layout/%d", i), nil)
		if c == nil {
			continue
		}
		rng := c.Rand()
		binMax := []int{5, 10, 20}[rng.Intn(3)]
		quick, _, _ := kadrig.Thresholds(binMax)
		base := make([]byte, 32)
		rng.Read(base)
		peers, radius, feats := layout(rng, base, quick)
		evA := adventurous(rng, peers, radius)
		evB := clean(rng, peers, radius)

		// ---- B: clean order, fresh depth
		mb := newMachine(t, base, binMax, peers, st)
		for _, e := range evB {
			mb.apply(t, e)
		}
		dB := mb.depth()
		witness := func(extra map[string]interface{}) map[string]interface{} {
			w := map[string]interface{}{"base": obs.Hex(base), "quick_saturation": quick, "final_state": mb.state.Describe()}
			for k, v := range extra {
				w[k] = v
			}
			return w
		}
		for _, f := range mb.state.CheckDepth(dB) {
			c.Viol(f.Clause, f.Msg+" | "+mb.state.Describe(), witness(map[string]interface{}{"history": strs(evB), "depth": dB}))
		}
		st["depth_checks"]++
		if dB > 0 {
			st["final_depth_positive"]++
		}
		run.StatMax("max/final_depth", int64(dB))

		// ---- A: adventurous order, clauses after every event
		ma := newMachine(t, base, binMax, peers, st)
		stopped := false
		lastKind := ""
		for k, e := range evA {
			ma.apply(t, e)
			lastKind = e.Kind
			d := ma.depth()
			st["depth_checks"]++
			fails := ma.state.CheckDepth(d)
			if len(fails) == 0 {
				continue
			}
			// classify: is the reported depth merely out of date?
			desc := ma.state.Describe()
			fresh := ma.recompute()
			freshFails := ma.state.CheckDepth(fresh)
			still := map[string]bool{}
			for _, f := range freshFails {
				still[f.Clause] = true
			}
			w := witness(map[string]interface{}{"history": strs(evA[:k+1]), "depth_reported": d, "depth_after_forced_recalculation": fresh, "state_after_last_event": desc})
			for _, f := range fails {
				if still[f.Clause] {
					c.Viol(f.Clause, f.Msg+" | "+desc, w)
				} else {
					c.Viol(staleKey(e.Kind), fmt.Sprintf("after %s the reported depth is still %d (a recalculation in the same state gives %d): %s | %s", e, d, fresh, f.Msg, desc), w)
				}
			}
			stopped = true
			st["histories_stopped_at_first_violation"]++
			break
		}
		if !stopped {
			dA := ma.depth()
			st["history_pairs_compared"]++
			if dA != dB {
				fresh := ma.recompute()
				w := witness(map[string]interface{}{"history_A": strs(evA), "history_B": strs(evB), "depth_A": dA, "depth_B": dB, "depth_A_after_forced_recalculation": fresh})
				if fresh == dB {
					c.Viol(staleKey(lastKind), fmt.Sprintf("same final state, depth %d after history A (last event %s) but %d after history B; a recalculation on A gives %d", dA, lastKind, dB, fresh), w)
				} else {
					c.Viol("depth-depends-on-connection-order", fmt.Sprintf("same final state, depth %d after history A, %d after history B (A recalculated: %d)", dA, dB, fresh), w)
				}
			}
		}
		ma.rig.Close(t)
		mb.rig.Close(t)
		fs := make([]string, 0, len(feats))
		for f := range feats {
			fs = append(fs, f)
		}
		sort.Strings(fs)
		for _, f := range fs {
			st["layouts_with_"+f]++
		}
		c.End(fmt.Sprintf("q=%d/%v/d=%d/last=%s", quick, fs, dB, lastKind), len(mb.state.Peers) > 3)
		if i < 2 {
			run.Sample(map[string]interface{}{"kind": "layout", "final_state": mb.state.Describe(), "depth": dB, "history_A_first_events": strs(evA[:minInt(8, len(evA))]), "events_A": len(evA), "events_B": len(evB)})
		}
	}
	for k, v := range st {
		run.Stat(k, v)
	}
}

func minInt(a, b int) int {
	if a < b {
		return a
	}
	return b
}
