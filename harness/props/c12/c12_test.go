package c12

import (
	"fmt"
	"os"
	"sort"
	"strings"
	"testing"
	"time"

	"github.com/gauss-project/aurorafs/pkg/localstore"

	"verif/harness/internal/fsim"
	"verif/harness/internal/obs"
	"verif/harness/internal/spec"
)

type opRec struct {
	Op   string `json:"op"`
	File int    `json:"file"`
	Arg  string `json:"arg,omitempty"`
	Note string `json:"note,omitempty"`
}

// per-file model
type fstate struct {
	uploaded     bool // stored by local upload, not deleted by the user
	everUnpinned bool // was pinned and unpinned since the upload
	cached       bool // retrieved from the network (request mode) at some point
	pinned       bool // root pin set through the API
	// the file already had a cache entry (it had been retrieved, possibly in part) when it was
	// uploaded: the upload leaves that entry in place
	cachedBeforeUpload bool
}

// four shards so the orchestrator can run them as parallel child processes
func TestShard0(t *testing.T) { histories(t, 0) }
func TestShard1(t *testing.T) { histories(t, 1) }
func TestShard2(t *testing.T) { histories(t, 2) }
func TestShard3(t *testing.T) { histories(t, 3) }

func histories(t *testing.T, shard int) {
	run := obs.Start(t, "C12")
	defer run.Done()
	run.Rule("histories of 40 ops on a mini node with capacity 8..20 chunks: local uploads (plain / pinned at upload), files cached from a source node (full download path or chunk-wise retrieval path), pin/unpin through the HTTP API, reads, and synchronous collection runs when the trigger level was reached; files are built from a pool of 6 shared 256 KiB blocks so uploads, pinned files and cached files overlap; dump before/after every collection run; distinct = (capacity class, #collections evicting, classes of files present at eviction)",
		"a chunk counts as 'stored by local upload' when it belongs to a file uploaded through the local API and not deleted since",
		"background collection worker is gated off; the monitor runs exactly the same collectGarbage() synchronously")
	n := run.N(96, 800)
	for i := shard; i < n; i += 4 {
		c := run.Begin(fmt.Sprintf("hist/%d", i), nil)
		if c == nil {
			continue
		}
		rng := c.Rand()
		capacity := uint64(8 + rng.Intn(13))
		w, err := fsim.NewWorld(capacity)
		if err != nil {
			t.Fatal(err)
		}
		// a small family of overlapping files
		var files []*fsim.File
		nf := 4 + rng.Intn(3)
		for len(files) < nf {
			nb := 1 + rng.Intn(3)
			blocks := make([]int, nb)
			for k := range blocks {
				blocks[k] = rng.Intn(6)
			}
			if nb >= 2 && rng.Intn(3) == 0 {
				blocks[nb-1] = blocks[0] // the same data chunk twice in one file
			}
			last := []int{fsim.CS, 1000, 70000}[rng.Intn(3)]
			f, err := w.NewFile(blocks, last)
			if err != nil {
				t.Fatal(err)
			}
			dup := false
			for _, g := range files {
				if g == f {
					dup = true
				}
			}
			if !dup {
				files = append(files, f)
			}
		}
		st := make([]fstate, len(files))
		var hist []opRec
		firstStoredByUpload := map[string]bool{} // chunk first stored on the node by a local upload
		evicting, withPinned, withShared := 0, 0, 0
		classes := map[string]bool{}
		witness := func(extra map[string]interface{}) map[string]interface{} {
			var fd []map[string]interface{}
			for _, f := range files {
				fd = append(fd, f.Desc())
			}
			o := map[string]interface{}{"capacity": capacity, "files": fd, "history": append([]opRec(nil), hist...)}
			for k, v := range extra {
				o[k] = v
			}
			return o
		}
		collect := func() bool {
			before, err := fsim.Dump(w.N)
			if err != nil {
				t.Fatal(err)
			}
			rounds, done, _, cerr := fsim.Collect(w.N, 12)
			after, err := fsim.Dump(w.N)
			if err != nil {
				t.Fatal(err)
			}
			hist = append(hist, opRec{Op: "collect", File: -1, Note: fmt.Sprintf("rounds=%d done=%v before{%s} after{%s}", rounds, done, w.Short(before), w.Short(after))})
			run.Stat("collection_runs", 1)
			if cerr != nil {
				run.Stat("collection_errors", 1)
			}
			evicted := 0
			for ch := range before.Present {
				if !after.Present[ch] {
					evicted++
				}
			}
			if evicted > 0 {
				evicting++
				run.Stat("collections_that_evicted", 1)
				run.Stat("chunks_evicted", int64(evicted))
			}
			ok := true
			// (1) pinned chunks survive
			pinnedBefore := 0
			for ch, cnt := range before.Pins {
				if cnt == 0 || !before.Present[ch] {
					continue
				}
				pinnedBefore++
				if !after.Present[ch] {
					c.Viol("pinned-chunk-evicted", fmt.Sprintf("collection deleted chunk %s whose pin count was %d", ch[:12], cnt), witness(nil))
					ok = false
					break
				}
			}
			if evicted > 0 && pinnedBefore > 0 {
				withPinned++
				run.Stat("evictions_while_pinned_chunks_existed", 1)
			}
			// (2) pin index unchanged
			if fmt.Sprint(sortedPins(before.Pins)) != fmt.Sprint(sortedPins(after.Pins)) {
				key := "collection-changed-pin-counter"
				c.Viol(key, fmt.Sprintf("pin index before %v after %v", shortPins(before.Pins), shortPins(after.Pins)), witness(nil))
				ok = false
			}
			// (3) uploaded chunks survive
			shared := false
			for fi, f := range files {
				if !st[fi].uploaded {
					continue
				}
				for ch := range f.Chunks {
					if before.Present[ch] && !after.Present[ch] {
						if !firstStoredByUpload[ch] {
							// the chunk reached the store through a retrieval; the later upload of
							// a file containing it stored nothing. The statement protects chunks
							// "stored by local upload", so this class is counted, not judged.
							run.Stat("info_chunk_of_uploaded_file_first_stored_by_cache_evicted", 1)
							continue
						}
						key := "uploaded-chunk-evicted"
						// the chunk lost its protection through the unpin of an uploaded file that
						// contains it (f itself or another file sharing the chunk)
						// ... or every uploaded file containing it was a cached file when it was uploaded
						// (the upload completed a partly retrieved file and left its cache entry)
						allCachedBefore := true
						for gi, g := range files {
							if st[gi].uploaded && g.Chunks[ch] && !st[gi].cachedBeforeUpload {
								allCachedBefore = false
							}
						}
						if allCachedBefore {
							key = "uploaded-chunk-of-file-with-earlier-cache-entry-evicted"
						}
						for gi, g := range files {
							if st[gi].uploaded && st[gi].everUnpinned && g.Chunks[ch] {
								key = "uploaded-evicted-after-unpin"
							}
						}
						c.Viol(key, fmt.Sprintf("collection deleted chunk %s of locally uploaded file f%d", ch[:12], f.ID), witness(map[string]interface{}{"file": f.Desc()}))
						ok = false
						break
					}
				}
			}
			// non-vacuity: did the evicted content share chunks with protected content?
			if evicted > 0 {
				for ch := range before.Present {
					if after.Present[ch] {
						continue
					}
					_ = ch
				}
				for fi, f := range files {
					if !(st[fi].uploaded || st[fi].pinned) {
						continue
					}
					for gi, g := range files {
						if gi == fi || !st[gi].cached {
							continue
						}
						for ch := range g.Chunks {
							if f.Chunks[ch] {
								shared = true
							}
						}
					}
				}
				if shared {
					withShared++
					run.Stat("evictions_with_chunks_shared_between_cached_and_protected", 1)
				}
			}
			if !done {
				run.Stat("collection_not_done_after_12_rounds", 1)
			}
			return ok
		}
	ops:
		for k := 0; k < 40; k++ {
			fi := rng.Intn(len(files))
			f := files[fi]
			var o opRec
			x := rng.Intn(14)
			if s, _ := fsim.Dump(w.N); s.GCSize > s.Target && rng.Intn(2) == 0 {
				x = 13 // collection is due: go to the collection branch (parked variant first)
			}
			// directed start of every third history: the first file is retrieved only in part and
			// one of its stored data chunks is pinned on its own; it is the oldest cache entry, i.e.
			// the first candidate of the first collection run
			directed := i%3 == 0 && len(files[0].Leaves) > 1
			forceSome := false
			if directed && k < 2 {
				fi, f = 0, files[0]
				x = []int{2, 11}[k]
				forceSome = k == 0
				run.Stat("directed_partial_file_with_single_pinned_chunk_steps", 1)
			}
			switch {
			case x < 2:
				pin := rng.Intn(3) == 0
				o = opRec{Op: "upload", File: fi, Arg: fmt.Sprint("pin=", pin)}
				hist = append(hist, o)
				before, _ := fsim.Dump(w.N)
				if err := w.Upload(f, pin); err != nil {
					c.Viol("upload-failed", err.Error(), witness(nil))
					break ops
				}
				for ch := range f.Chunks {
					if !before.Present[ch] {
						firstStoredByUpload[ch] = true
					}
				}
				if _, had := before.GC[f.Root.String()]; had && !st[fi].uploaded {
					st[fi].cachedBeforeUpload = true
					run.Stat("uploads_of_files_with_a_cache_entry", 1)
				}
				st[fi].uploaded = true
				if pin {
					st[fi].pinned = true
				}
				classes["up"] = true
			case x < 7:
				full := rng.Intn(8) == 0 && !forceSome
				o = opRec{Op: "cache", File: fi, Arg: fmt.Sprint("full=", full)}
				hist = append(hist, o)
				var err error
				if full {
					err = w.CacheFull(f)
				} else {
					idx := make([]int, len(f.Leaves))
					for j := range idx {
						idx[j] = j
					}
					if (forceSome || rng.Intn(3) == 0) && len(idx) > 1 {
						// only some of the data chunks arrive: the file stays partly stored
						rng.Shuffle(len(idx), func(a, b int) { idx[a], idx[b] = idx[b], idx[a] })
						idx = idx[:1+rng.Intn(len(idx)-1)]
						hist[len(hist)-1].Arg = fmt.Sprint("some=", idx)
						run.Stat("partial_retrievals", 1)
					}
					err = w.CacheChunks(f, idx)
				}
				if err != nil {
					// a failing retrieval is not this property's business; note and go on
					hist[len(hist)-1].Note = "error: " + err.Error()
					run.Stat("cache_errors", 1)
				} else {
					st[fi].cached = true
					classes["cache"] = true
				}
			case x < 9:
				o = opRec{Op: "pin", File: fi}
				hist = append(hist, o)
				code := w.N.PinHTTP(f.Root)
				hist[len(hist)-1].Note = fmt.Sprint("status=", code)
				if code == 201 || code == 200 {
					st[fi].pinned = true
					classes["pin"] = true
				}
			case x < 10:
				o = opRec{Op: "unpin", File: fi}
				hist = append(hist, o)
				code := w.N.UnpinHTTP(f.Root)
				hist[len(hist)-1].Note = fmt.Sprint("status=", code)
				if code != 404 {
					// 200, or 500 when the unpin traversal failed half way: either way some
					// chunks of the file have been unpinned
					st[fi].everUnpinned = true
				}
				if code == 200 {
					st[fi].pinned = false
					classes["unpin"] = true
				}
			case x == 11 || x == 12:
				// pin ONE stored data chunk of the file through POST /chunks with the pin header
				s, _ := fsim.Dump(w.N)
				var cand []int
				for li, lf := range f.Leaves {
					if s.Present[lf] {
						cand = append(cand, li)
					}
				}
				if len(cand) == 0 {
					continue
				}
				li := cand[rng.Intn(len(cand))]
				off := li * fsim.CS
				end := off + fsim.CS
				if end > len(f.Data) {
					end = len(f.Data)
				}
				code := w.N.UploadChunk(append(spec.Span(uint64(end-off)), f.Data[off:end]...), true)
				o = opRec{Op: "pin-chunk", File: fi, Arg: fmt.Sprintf("data chunk %d via POST /chunks", li), Note: fmt.Sprint("status=", code)}
				hist = append(hist, o)
				run.Stat("single_chunk_pins", 1)
				classes["pinchunk"] = true
			case x < 11:
				o = opRec{Op: "read", File: fi}
				hist = append(hist, o)
				s, _ := fsim.Dump(w.N)
				if f.Complete(s) {
					idx := make([]int, len(f.Leaves))
					for j := range idx {
						idx[j] = j
					}
					_ = w.CacheChunks(f, idx) // local hits under the root context: access-time updates
				}
			default:
				s, _ := fsim.Dump(w.N)
				if s.GCSize > s.Target {
					// a collection run parked between candidate selection and eviction while a
					// cached file gets pinned: chunks pinned by then must survive the run and the
					// pin counters as they are when the eviction starts must not change
					var cand []int
					// candidates for the pin: cached files themselves, and (twice as likely) other
					// files that share a chunk with a cached file, so that only non-root chunks
					// of the file being evicted get pinned
					for gi, g := range files {
						if st[gi].pinned {
							continue
						}
						if _, ok := s.GC[g.Root.String()]; ok {
							cand = append(cand, gi)
							continue
						}
						for hi, h := range files {
							if _, ok := s.GC[h.Root.String()]; !ok || hi == gi {
								continue
							}
							for ch := range h.Chunks {
								if g.Chunks[ch] {
									cand = append(cand, gi, gi)
									break
								}
							}
						}
					}
					if len(cand) > 0 {
						gi := cand[rng.Intn(len(cand))]
						hist = append(hist, opRec{Op: "collect-parked-while-pinning", File: gi})
						var mid *fsim.State
						chunkOnly := rng.Intn(3) > 0
						// the run is parked after candidate selection, or (1 in 3) at the moment its first
						// candidate is handed to chunkinfo
						park := func(during func()) bool { return parkedCollect(t, w, during) }
						if rng.Intn(3) == 0 {
							hist[len(hist)-1].Op = "collect-parked-at-handover-while-pinning"
							park = func(during func()) bool {
								p := fsim.ParkedCollect(w.N, "delfile", during, func(m string) { t.Fatal(m + " (inconclusive)") })
								if p {
									run.Stat("parked_collections_at_handover", 1)
								}
								return p
							}
						}
						parked := park(func() {
							if chunkOnly {
								// pin ONE data chunk of a cached file through POST /chunks with the pin
								// header (an upload of a chunk the node already holds)
								// the oldest cache entry is certainly among the run's candidates
								var gcFiles []*fsim.File
								if raw, err := w.N.Store.VerifDump(); err == nil && len(raw.GC) > 0 {
									for _, g := range files {
										if fmt.Sprintf("%x", raw.GC[0].Address) == g.Root.String() {
											gcFiles = append(gcFiles, g)
										}
									}
								}
								if len(gcFiles) > 0 {
									g := gcFiles[0]
									// prefer a data chunk no other file of the world contains (a shared
									// chunk is not a candidate for eviction anyway)
									li := rng.Intn(len(g.Leaves))
									for try := 0; try < len(g.Leaves); try++ {
										cand := (li + try) % len(g.Leaves)
										exclusive := true
										for _, h := range files {
											if h != g && h.Chunks[g.Leaves[cand]] {
												exclusive = false
											}
										}
										if exclusive {
											li = cand
											break
										}
									}
									off := li * fsim.CS
									end := off + fsim.CS
									if end > len(g.Data) {
										end = len(g.Data)
									}
									payload := append(spec.Span(uint64(end-off)), g.Data[off:end]...)
									code := w.N.UploadChunk(payload, true)
									hist[len(hist)-1].Arg = fmt.Sprintf("pin chunk %d of f%d via POST /chunks: %d", li, g.ID, code)
								}
							} else if code := w.N.PinHTTP(files[gi].Root); code == 200 || code == 201 {
								st[gi].pinned = true
							}
							mid, _ = fsim.Dump(w.N)
						})
						after, _ := fsim.Dump(w.N)
						hist[len(hist)-1].Note = fmt.Sprintf("parked=%v after{%s}", parked, w.Short(after))
						if parked && mid != nil {
							run.Stat("parked_collections_with_pin", 1)
							for ch, cnt := range mid.Pins {
								if cnt > 0 && mid.Present[ch] && !after.Present[ch] {
									c.Viol("chunk-pinned-during-collection-evicted", fmt.Sprintf("chunk %s was pinned (count %d) while the collection run was between candidate selection and eviction, and the run deleted it", ch[:12], cnt), witness(nil))
									break ops
								}
							}
							if fmt.Sprint(sortedPins(mid.Pins)) != fmt.Sprint(sortedPins(after.Pins)) {
								c.Viol("collection-changed-pin-counter-set-during-run", fmt.Sprintf("pin index when eviction started %v, after the run %v", shortPins(mid.Pins), shortPins(after.Pins)), witness(nil))
								break ops
							}
						}
						continue
					}
				}
				if s.GCSize >= s.Cap || s.SumGC >= s.Cap || rng.Intn(4) == 0 {
					if !collect() {
						break ops
					}
				}
				continue
			}
			// a triggered collection runs at a PRNG-chosen later boundary
			s, _ := fsim.Dump(w.N)
			if (s.GCSize >= s.Cap || s.SumGC >= s.Cap) && rng.Intn(3) > 0 {
				if !collect() {
					break ops
				}
			}
		}
		collect()
		w.Close()
		var ks []string
		for k := range classes {
			ks = append(ks, k)
		}
		sort.Strings(ks)
		capClass := "small"
		if capacity >= 18 {
			capClass = "large"
		}
		if os.Getenv("VERIF_DEBUG_HISTORY") != "" {
			for _, h := range hist {
				fmt.Printf("DEBUG %+v\n", h)
			}
		}
		c.End(fmt.Sprintf("cap=%s/evicting=%d/pinnedAtEvict=%d/shared=%d/%s", capClass, min(evicting, 3), min(withPinned, 2), min(withShared, 2), strings.Join(ks, "+")), evicting > 0)
		if i < 1 {
			run.Sample(witness(nil))
		}
	}
}

func sortedPins(m map[string]uint64) []string {
	var out []string
	for k, v := range m {
		out = append(out, fmt.Sprintf("%s:%d", k, v))
	}
	sort.Strings(out)
	return out
}

func shortPins(m map[string]uint64) []string {
	var out []string
	for k, v := range m {
		out = append(out, fmt.Sprintf("%s:%d", k[:8], v))
	}
	sort.Strings(out)
	return out
}

func min(a, b int) int {
	if a < b {
		return a
	}
	return b
}

// parkedCollect runs one collection run in a goroutine, parks it between candidate selection
// and eviction (the existing testHookGCIteratorDone point), performs during() and resumes.
func parkedCollect(t *testing.T, w *fsim.World, during func()) (parked bool) {
	reached := make(chan struct{})
	release := make(chan struct{})
	first := true
	localstore.VerifSetGCIteratorDone(func() {
		if !first {
			return
		}
		first = false
		close(reached)
		<-release
	})
	defer localstore.VerifSetGCIteratorDone(nil)
	done := make(chan struct{})
	go func() {
		defer close(done)
		_, _, _ = w.N.Store.VerifCollectGarbage()
	}()
	select {
	case <-reached:
		parked = true
		during()
		close(release)
	case <-done:
		return false
	case <-time.After(120 * time.Second):
		t.Fatal("collection run neither reached the parking point nor returned within 120 s (inconclusive)")
	}
	select {
	case <-done:
	case <-time.After(120 * time.Second):
		t.Fatal("parked collection run did not finish within 120 s after release (inconclusive)")
	}
	return parked
}
