package c32

import (
	"context"
	"fmt"
	"io/ioutil"
	"math/big"
	"sync"
	"sync/atomic"
	"testing"
	"time"

	"github.com/gauss-project/aurorafs/pkg/accounting"
	"github.com/gauss-project/aurorafs/pkg/boson"
	"github.com/gauss-project/aurorafs/pkg/logging"
	"verif/harness/internal/obs"
	"verif/harness/internal/racemain"
)

// gatedStub is the recording settlement stub with a Pay that is held up (a slow cheque round trip)
// until the harness opens the gate; after that it records the request exactly like the plain stub.
type gatedStub struct {
	*stub
	gate    chan struct{}
	entered int64 // Pay calls that reached the settlement (stalled or not)
}

func (g *gatedStub) Pay(ctx context.Context, peer boson.Address, thr *big.Int) error {
	atomic.AddInt64(&g.entered, 1)
	<-g.gate
	return g.stub.Pay(ctx, peer, thr)
}

func TestStalledPay(t *testing.T) { racemain.Run(t, func() { testStalledPay(t) }) }

func testStalledPay(t *testing.T) {
	run := obs.Start(t, "C32")
	defer run.Done()
	run.Rule("settlement stalled: the stub's Pay blocks on a gate while K (1050..1300, more than the pay queue holds) credits, each of at least the threshold with no payment ever notified, "+
		"are issued by 1-4 goroutines to 1-2 peers; the gate is opened once all credits returned or the crediting goroutines stopped making progress; after every credit returned and a sentinel request "+
		"queued after them came out of the FIFO pay queue, the number of Pay requests per peer must equal the number of credits that left the unpaid balance at or above the threshold (all of them); "+
		"distinct = peers x goroutines x whether credits were blocked behind the full queue",
		"the settlement is a stub that never fails", "the moment the gate opens is chosen by wall-clock observation of progress; the verdict is not",
		"a 60 s watchdog leaves the case unjudged (stalled-watchdog)")
	n := run.N(3, 20)
	for h := 0; h < n; h++ {
		c := run.Begin(fmt.Sprintf("stalled/%d", h), nil)
		if c == nil {
			continue
		}
		rng := c.Rand()
		p := genParams(rng)
		npeers := 1 + rng.Intn(2)
		G := 1 + rng.Intn(4)
		K := 1050 + rng.Intn(251)

		s := &sut{st: newStub(p.avail), p: p}
		for i := 0; i < npeers+1; i++ { // the last one is the sentinel peer
			b := make([]byte, 32)
			rng.Read(b)
			s.peers = append(s.peers, boson.NewAddress(b))
			s.init = append(s.init, 0)
		}
		gs := &gatedStub{stub: s.st, gate: make(chan struct{})}
		s.acc = accounting.NewAccounting(big.NewInt(p.tolerance), big.NewInt(p.threshold), logging.New(ioutil.Discard, 0), nil, gs)

		// plan: every credit is >= threshold, so whatever the interleaving each one leaves the unpaid balance >= threshold
		type cr struct {
			peer int
			amt  int64
		}
		plans := make([][]cr, G)
		for k := 0; k < K; k++ {
			x := cr{peer: rng.Intn(npeers), amt: p.threshold}
			if rng.Intn(2) == 0 {
				x.amt += int64(rng.Intn(int(p.threshold)))
			}
			plans[k%G] = append(plans[k%G], x)
		}

		var returned int64
		okPer := make([]int64, npeers) // credits that returned nil, per peer
		var errMu sync.Mutex
		var errs []string
		var wg sync.WaitGroup
		for g := 0; g < G; g++ {
			wg.Add(1)
			go func(g int) {
				defer wg.Done()
				for _, x := range plans[g] {
					if err := s.acc.Credit(context.Background(), s.peers[x.peer], uint64(x.amt)); err != nil {
						errMu.Lock()
						errs = append(errs, err.Error())
						errMu.Unlock()
					} else {
						atomic.AddInt64(&okPer[x.peer], 1)
					}
					atomic.AddInt64(&returned, 1)
				}
			}(g)
		}
		done := make(chan struct{})
		go func() { wg.Wait(); close(done) }()

		watchdog := time.After(60 * time.Second)
		fired := false

		// phase 1: Pay is stalled; wait until all credits returned or there has been no progress for a while
		last, lastChange := int64(-1), time.Now()
	stall:
		for {
			select {
			case <-done:
				break stall
			case <-watchdog:
				fired = true
				break stall
			case <-time.After(5 * time.Millisecond):
			}
			if r := atomic.LoadInt64(&returned); r != last {
				last, lastChange = r, time.Now()
			} else if time.Since(lastChange) > 400*time.Millisecond {
				break stall
			}
		}
		returnedWhileStalled := atomic.LoadInt64(&returned)
		enteredWhileStalled := atomic.LoadInt64(&gs.entered)
		close(gs.gate)

		// phase 2: every credit returns
		if !fired {
			select {
			case <-done:
			case <-watchdog:
				fired = true
			}
		}

		// phase 3: quiescence of the FIFO pay queue: a sentinel request queued after all credits returned
		// comes out after all of theirs. A sentinel request may itself get lost, so it is repeated until one arrives.
		sent := s.peers[npeers]
		if !fired {
			sentinelSeen := false
			for !sentinelSeen && !fired {
				sc := make(chan error, 1)
				go func() { sc <- s.acc.Credit(context.Background(), sent, uint64(2*p.threshold)) }()
				retry := time.After(250 * time.Millisecond)
			wait:
				for {
					select {
					case k := <-s.st.payCh:
						if k == sent.String() {
							sentinelSeen = true
							break wait
						}
					case <-retry:
						break wait
					case <-watchdog:
						fired = true
						break wait
					}
				}
				if !fired {
					select {
					case err := <-sc:
						if err != nil {
							t.Fatalf("sentinel credit: %v", err)
						}
					case <-watchdog:
						fired = true
					}
				}
			}
		}

		blocked := returnedWhileStalled < int64(K)
		shape := fmt.Sprintf("stalled/peers=%d/g=%d/blocked-behind-full-queue=%v", npeers, G, blocked)
		if fired {
			// unjudged: not a verdict
			run.Stat("stalled-watchdog", 1)
			c.End(shape+"/watchdog", false)
			continue
		}

		run.Stat("stalled-credits", int64(K))
		run.Stat("stalled-credits-returned-while-stalled", returnedWhileStalled)
		w := map[string]interface{}{"threshold": p.threshold, "peers": npeers, "goroutines": G, "credits": K,
			"credits_returned_while_pay_stalled": returnedWhileStalled, "pay_calls_entered_while_stalled": enteredWhileStalled}
		if len(errs) > 0 {
			w["errors"] = errs
			c.Viol("seq-credit-unexpected-error", fmt.Sprintf("%d of %d credits returned an error while the settlement was stalled: %s", len(errs), K, errs[0]), w)
		}
		total, want := 0, int64(0)
		perPeer := []map[string]int64{}
		for pi := 0; pi < npeers; pi++ {
			_, _, pays := s.st.counts(s.peers[pi])
			total += pays
			want += atomic.LoadInt64(&okPer[pi])
			perPeer = append(perPeer, map[string]int64{"peer": int64(pi), "pay_requests": int64(pays), "credits_at_or_above_threshold": atomic.LoadInt64(&okPer[pi])})
		}
		w["per_peer"] = perPeer
		run.Stat("stalled-pay-requests", int64(total))
		for pi := 0; pi < npeers; pi++ {
			pays, exp := perPeer[pi]["pay_requests"], perPeer[pi]["credits_at_or_above_threshold"]
			if pays < exp {
				c.Viol("payment-request-dropped-while-settlement-stalled", fmt.Sprintf("peer %d: %d credits left the unpaid balance at or above the threshold %d while Pay was stalled, but only %d payment requests reached the settlement (%d credits had returned before the gate opened)",
					pi, exp, p.threshold, pays, returnedWhileStalled), w)
				break
			} else if pays > exp {
				c.Viol("payment-request-unexpected", fmt.Sprintf("peer %d: %d payment requests reached the settlement, %d credits left the unpaid balance at or above the threshold %d", pi, pays, exp, p.threshold), w)
				break
			}
		}
		// the threshold handed to Pay
		s.st.mu.Lock()
		for _, pc := range s.st.pays {
			if pc.thr.Cmp(big.NewInt(p.threshold)) != 0 {
				c.Viol("payment-request-wrong-threshold", fmt.Sprintf("Pay called with threshold %v, configured %d", pc.thr, p.threshold), nil)
				break
			}
		}
		s.st.mu.Unlock()
		if h < 1 {
			run.Sample(w)
		}
		// nontrivial: more requests were outstanding than the queue holds while Pay was stalled
		c.End(shape, returnedWhileStalled > 1000)
	}
}
