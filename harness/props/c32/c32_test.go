package c32

import (
	"context"
	"errors"
	"fmt"
	"hash/fnv"
	"io/ioutil"
	"math/big"
	"math/rand"
	"runtime"
	"strings"
	"sync"
	"sync/atomic"
	"testing"
	"time"

	"github.com/anishathalye/porcupine"
	"github.com/gauss-project/aurorafs/pkg/accounting"
	"github.com/gauss-project/aurorafs/pkg/boson"
	"github.com/gauss-project/aurorafs/pkg/logging"
	"github.com/gauss-project/aurorafs/pkg/p2p"
	"github.com/gauss-project/aurorafs/pkg/settlement"
	"verif/harness/internal/lin"
	"verif/harness/internal/obs"
	"verif/harness/internal/racemain"
)

func TestMain(m *testing.M) { racemain.Main(m) }

// ---------------------------------------------------------------------------
// stub settlement: records what accounting asks of it; the harness controls its answers

type payCall struct {
	peer string
	thr  *big.Int
}

type stub struct {
	mu        sync.Mutex
	avail     *big.Int
	initial   map[string]*big.Int // RetrieveTraffic answer for a peer not yet known to accounting
	unsettled map[string]*big.Int // served traffic not yet settled by the peer's cheques
	putRetr   map[string][]*big.Int
	putTran   map[string][]*big.Int
	pays      []payCall
	payCh     chan string
	yield     func() // seeded scheduling noise inside accounting's critical sections
}

var _ settlement.Interface = (*stub)(nil)

func newStub(avail int64) *stub {
	return &stub{avail: big.NewInt(avail), initial: map[string]*big.Int{}, unsettled: map[string]*big.Int{},
		putRetr: map[string][]*big.Int{}, putTran: map[string][]*big.Int{}, payCh: make(chan string, 100000)}
}

func (s *stub) noise() {
	if s.yield != nil {
		s.yield()
	}
}

func (s *stub) Pay(ctx context.Context, peer boson.Address, thr *big.Int) error {
	s.mu.Lock()
	s.pays = append(s.pays, payCall{peer.String(), new(big.Int).Set(thr)})
	s.mu.Unlock()
	s.payCh <- peer.String()
	return nil
}

func (s *stub) TransferTraffic(peer boson.Address) (*big.Int, error) {
	s.noise()
	s.mu.Lock()
	defer s.mu.Unlock()
	if v, ok := s.unsettled[peer.String()]; ok {
		return new(big.Int).Set(v), nil
	}
	return big.NewInt(0), nil
}

func (s *stub) RetrieveTraffic(peer boson.Address) (*big.Int, error) {
	s.mu.Lock()
	defer s.mu.Unlock()
	if v, ok := s.initial[peer.String()]; ok {
		return new(big.Int).Set(v), nil
	}
	return big.NewInt(0), nil
}

func (s *stub) PutRetrieveTraffic(peer boson.Address, t *big.Int) error {
	s.noise()
	s.mu.Lock()
	s.putRetr[peer.String()] = append(s.putRetr[peer.String()], new(big.Int).Set(t))
	s.mu.Unlock()
	return nil
}

func (s *stub) PutTransferTraffic(peer boson.Address, t *big.Int) error {
	s.noise()
	s.mu.Lock()
	k := peer.String()
	s.putTran[k] = append(s.putTran[k], new(big.Int).Set(t))
	u := s.unsettled[k]
	if u == nil {
		u = big.NewInt(0)
	}
	s.unsettled[k] = new(big.Int).Add(u, t)
	s.mu.Unlock()
	return nil
}

// chequeIn: the peer settles x of the traffic we served (outside accounting, as the traffic service does).
func (s *stub) chequeIn(peer boson.Address, x int64) {
	s.mu.Lock()
	k := peer.String()
	u := s.unsettled[k]
	if u == nil {
		u = big.NewInt(0)
	}
	s.unsettled[k] = new(big.Int).Sub(u, big.NewInt(x))
	s.mu.Unlock()
}

func (s *stub) AvailableBalance() (*big.Int, error) {
	s.noise()
	s.mu.Lock()
	defer s.mu.Unlock()
	return new(big.Int).Set(s.avail), nil
}

func (s *stub) setAvail(v int64) {
	s.mu.Lock()
	s.avail = big.NewInt(v)
	s.mu.Unlock()
}

func (s *stub) SetNotifyPaymentFunc(settlement.NotifyPaymentFunc)     {}
func (s *stub) GetPeerBalance(peer boson.Address) (*big.Int, error)   { return big.NewInt(0), nil }
func (s *stub) GetUnPaidBalance(peer boson.Address) (*big.Int, error) { return big.NewInt(0), nil }
func (s *stub) counts(peer boson.Address) (retr, tran, pays int) {
	s.mu.Lock()
	defer s.mu.Unlock()
	k := peer.String()
	for _, p := range s.pays {
		if p.peer == k {
			pays++
		}
	}
	return len(s.putRetr[k]), len(s.putTran[k]), pays
}

// ---------------------------------------------------------------------------
// sequential specification (written from the statement)

type spec struct {
	unpaid    int64 // credits minus notified payments, floored at 0
	unsettled int64 // served traffic not settled
	requests  int64 // payment requests so far
}

const (
	oReserve = iota
	oCredit
	oDebit
	oNotify
	oRead
	oChequeIn
	oFinal // after quiescence: number of payment requests and the stub's unsettled total
)

var opName = [...]string{"Reserve", "Credit", "Debit", "NotifyPayment", "ReadUnpaid", "ChequeIn", "Final"}

type in struct {
	Op   int    `json:"-"`
	Name string `json:"op"`
	Peer int    `json:"peer"`
	Amt  int64  `json:"amount"`
}

type out struct {
	Refused bool   `json:"refused,omitempty"` // Reserve: low available balance; Debit: blocked
	Val     int64  `json:"value,omitempty"`   // Read: unpaid; Final: payment requests
	Val2    int64  `json:"value2,omitempty"`  // Final: unsettled served traffic
	Other   string `json:"error,omitempty"`   // any other error
}

type params struct{ avail, threshold, tolerance int64 }

func step(p params, s spec, i in, o out) (bool, spec) {
	if o.Other != "" {
		return false, s
	}
	switch i.Op {
	case oReserve:
		return o.Refused == (p.avail < s.unpaid+i.Amt), s
	case oCredit:
		s.unpaid += i.Amt
		if s.unpaid >= p.threshold {
			s.requests++
		}
		return !o.Refused, s
	case oDebit:
		if s.unsettled >= p.tolerance {
			return o.Refused, s
		}
		s.unsettled += i.Amt
		return !o.Refused, s
	case oNotify:
		s.unpaid -= i.Amt
		if s.unpaid < 0 {
			s.unpaid = 0
		}
		return true, s
	case oRead:
		return o.Val == s.unpaid, s
	case oChequeIn:
		s.unsettled -= i.Amt
		return true, s
	case oFinal:
		return o.Val == s.requests && o.Val2 == s.unsettled, s
	}
	return false, s
}

// ---------------------------------------------------------------------------

type sut struct {
	acc   *accounting.Accounting
	st    *stub
	peers []boson.Address
	p     params
	init  []int64
}

func newSut(rng *rand.Rand, npeers int, p params) *sut {
	s := &sut{st: newStub(p.avail), p: p}
	for i := 0; i < npeers+1; i++ { // the last one is the sentinel peer used to detect quiescence of the pay queue
		b := make([]byte, 32)
		rng.Read(b)
		s.peers = append(s.peers, boson.NewAddress(b))
		iv := int64(0)
		if i < npeers && rng.Intn(3) == 0 {
			iv = int64(rng.Intn(int(p.threshold)))
		}
		s.init = append(s.init, iv)
		s.st.initial[s.peers[i].String()] = big.NewInt(iv)
	}
	s.acc = accounting.NewAccounting(big.NewInt(p.tolerance), big.NewInt(p.threshold), logging.New(ioutil.Discard, 0), nil, s.st)
	return s
}

// apply runs one operation on the real accounting and returns the observed output.
func (s *sut) apply(i in) out {
	peer := s.peers[i.Peer]
	switch i.Op {
	case oReserve:
		err := s.acc.Reserve(peer, uint64(i.Amt))
		switch {
		case err == nil:
			return out{}
		case errors.Is(err, accounting.ErrLowAvailableExceeded):
			return out{Refused: true}
		}
		return out{Other: err.Error()}
	case oCredit:
		if err := s.acc.Credit(context.Background(), peer, uint64(i.Amt)); err != nil {
			return out{Other: err.Error()}
		}
		return out{}
	case oDebit:
		err := s.acc.Debit(peer, uint64(i.Amt))
		if err == nil {
			return out{}
		}
		var be *p2p.BlockPeerError
		if errors.As(err, &be) && errors.Is(err, accounting.ErrDisconnectThresholdExceeded) {
			return out{Refused: true}
		}
		return out{Other: err.Error()}
	case oNotify:
		if err := s.acc.NotifyPayment(peer, big.NewInt(i.Amt)); err != nil {
			return out{Other: err.Error()}
		}
		return out{}
	case oRead:
		v := s.acc.VerifUnpaid(peer)
		if v == nil {
			return out{Other: "VerifUnpaid returned nil"}
		}
		if !v.IsInt64() {
			return out{Other: "unpaid out of range: " + v.String()}
		}
		return out{Val: v.Int64()}
	case oChequeIn:
		s.st.chequeIn(peer, i.Amt)
		return out{}
	}
	return out{Other: "unknown op"}
}

// drain waits until every payment request queued so far has reached the settlement stub:
// the queue is FIFO with one consumer, so a request for the sentinel peer comes out last.
func (s *sut) drain(t *testing.T) {
	sent := s.peers[len(s.peers)-1]
	// twice the threshold: draining must not depend on the boundary case of the comparison under test
	if err := s.acc.Credit(context.Background(), sent, uint64(2*s.p.threshold)); err != nil {
		t.Fatalf("sentinel credit: %v", err)
	}
	deadline := time.After(60 * time.Second)
	for {
		select {
		case k := <-s.st.payCh:
			if k == sent.String() {
				// keep the sentinel below the threshold for the next drain
				if err := s.acc.NotifyPayment(sent, big.NewInt(2*s.p.threshold)); err != nil {
					t.Fatal(err)
				}
				return
			}
		case <-deadline:
			t.Fatal("payment request of the sentinel peer did not reach the settlement within 60s")
		}
	}
}

func (s *sut) final(peer int) out {
	_, _, pays := s.st.counts(s.peers[peer])
	u, _ := s.st.TransferTraffic(s.peers[peer])
	return out{Val: int64(pays), Val2: u.Int64()}
}

func genOp(rng *rand.Rand, npeers int, p params) in {
	i := in{Peer: rng.Intn(npeers)}
	switch r := rng.Intn(100); {
	case r < 20:
		i.Op = oReserve
		i.Amt = int64(rng.Intn(int(p.threshold) * 2))
	case r < 50:
		i.Op = oCredit
		i.Amt = 1 + int64(rng.Intn(int(p.threshold)))
	case r < 70:
		i.Op = oDebit
		i.Amt = 1 + int64(rng.Intn(int(p.tolerance)))
	case r < 85:
		i.Op = oNotify
		i.Amt = 1 + int64(rng.Intn(int(p.threshold)*2))
	case r < 93:
		i.Op = oRead
	default:
		i.Op = oChequeIn
		i.Amt = 1 + int64(rng.Intn(int(p.tolerance)))
	}
	i.Name = opName[i.Op]
	return i
}

func genParams(rng *rand.Rand) params {
	thr := int64(10 + rng.Intn(200))
	return params{threshold: thr, tolerance: int64(10 + rng.Intn(300)), avail: thr/2 + int64(rng.Intn(int(thr)*3))}
}

type histStep struct {
	In  in  `json:"in"`
	Out out `json:"out"`
}

// ---------------------------------------------------------------------------

func TestSequential(t *testing.T) { racemain.Run(t, func() { testSequential(t) }) }

func testSequential(t *testing.T) {
	run := obs.Start(t, "C32")
	defer run.Done()
	run.Rule("sequential histories of 60 operations (Reserve, Credit, Debit, NotifyPayment, read-unpaid, peer settles served traffic) over 2 peers with random threshold, tolerance, available balance and initial unpaid amounts; "+
		"every output and, after every operation, the unpaid balance, the settlement calls made and (after draining the pay queue) the number of payment requests are compared with the sequential specification; "+
		"distinct = which outcome classes occurred (reserve refused/ok, debit refused/ok, credit with/without request, payment flooring at 0)",
		"the settlement is a stub that never fails", "unpaid balance read through the verif-tagged hook (*Accounting).VerifUnpaid (under the peer lock)")
	n := run.N(300, 3000)
	for h := 0; h < n; h++ {
		c := run.Begin(fmt.Sprintf("seq/%d", h), nil)
		if c == nil {
			continue
		}
		rng := c.Rand()
		p := genParams(rng)
		s := newSut(rng, 2, p)
		model := make([]spec, 2)
		for i := range model {
			model[i].unpaid = s.init[i]
		}
		var hist []histStep
		classes := map[string]bool{}
		for k := 0; k < 60; k++ {
			i := genOp(rng, 2, p)
			before := model[i.Peer]
			r0, t0, _ := s.st.counts(s.peers[i.Peer])
			o := s.apply(i)
			hist = append(hist, histStep{i, o})
			run.Stat("seq_ops", 1)
			ok, next := step(p, before, i, o)
			w := map[string]interface{}{"threshold": p.threshold, "tolerance": p.tolerance, "available": p.avail, "initial_unpaid": s.init[:2], "ops": hist,
				"model_before_last_op": map[string]int64{"unpaid": before.unpaid, "unsettled": before.unsettled}}
			if !ok {
				key := "seq-" + strings.ToLower(i.Name) + "-outcome"
				switch {
				case o.Other != "":
					key = "seq-" + strings.ToLower(i.Name) + "-unexpected-error"
				case i.Op == oDebit && !o.Refused:
					key = "debit-accepted-at-or-above-tolerance"
				case i.Op == oDebit:
					key = "debit-refused-below-tolerance"
				case i.Op == oReserve && !o.Refused:
					key = "reserve-accepted-above-available"
				case i.Op == oReserve:
					key = "reserve-refused-within-available"
				case i.Op == oRead:
					key = "unpaid-differs-from-credits-minus-payments"
				}
				c.Viol(key, fmt.Sprintf("%s(peer %d, %d) returned %+v; specification state before: unpaid=%d unsettled=%d (threshold %d, tolerance %d, available %d)",
					i.Name, i.Peer, i.Amt, o, before.unpaid, before.unsettled, p.threshold, p.tolerance, p.avail), w)
			}
			model[i.Peer] = next
			// settlement calls made by this operation
			r1, t1, _ := s.st.counts(s.peers[i.Peer])
			wantR, wantT := 0, 0
			if i.Op == oCredit {
				wantR = 1
			}
			if i.Op == oDebit && before.unsettled < p.tolerance {
				wantT = 1
			}
			if r1-r0 != wantR {
				c.Viol("credit-recorded-wrong-number-of-times", fmt.Sprintf("%s made %d PutRetrieveTraffic calls, want %d", i.Name, r1-r0, wantR), w)
			}
			if t1-t0 != wantT {
				key := "served-traffic-recorded-wrong-number-of-times"
				if i.Op == oDebit && wantT == 0 {
					key = "refused-debit-recorded"
				}
				c.Viol(key, fmt.Sprintf("%s made %d PutTransferTraffic calls, want %d", i.Name, t1-t0, wantT), w)
			}
			// unpaid after every operation
			got := s.acc.VerifUnpaid(s.peers[i.Peer])
			if got == nil || got.Sign() < 0 {
				c.Viol("unpaid-negative", fmt.Sprintf("unpaid balance of peer %d is %v", i.Peer, got), w)
			} else if got.Cmp(big.NewInt(next.unpaid)) != 0 {
				c.Viol("unpaid-differs-from-credits-minus-payments", fmt.Sprintf("after %s(peer %d, %d): unpaid %v, credits minus notified payments (floored at 0) = %d", i.Name, i.Peer, i.Amt, got, next.unpaid), w)
				model[i.Peer].unpaid = got.Int64()
			}
			switch i.Op {
			case oReserve:
				classes[fmt.Sprintf("reserve-refused=%v", o.Refused)] = true
			case oDebit:
				classes[fmt.Sprintf("debit-refused=%v", o.Refused)] = true
			case oCredit:
				classes[fmt.Sprintf("credit-requests=%v", next.requests > before.requests)] = true
				if next.requests > before.requests {
					run.Stat("seq_payment_requests_expected", 1)
				}
			case oNotify:
				classes[fmt.Sprintf("notify-floors=%v", before.unpaid < i.Amt)] = true
			}
			// payment requests: exact after draining the FIFO pay queue (every 10 ops and at the end)
			if k%10 == 9 {
				s.drain(t)
				for pi := 0; pi < 2; pi++ {
					_, _, pays := s.st.counts(s.peers[pi])
					if int64(pays) != model[pi].requests {
						key := "payment-request-missing"
						if int64(pays) > model[pi].requests {
							key = "payment-request-unexpected"
						}
						c.Viol(key, fmt.Sprintf("peer %d: %d payment requests reached the settlement, %d credits left the unpaid balance at or above the threshold %d", pi, pays, model[pi].requests, p.threshold), w)
						model[pi].requests = int64(pays)
					}
					run.Stat("seq_pay_counts_compared", 1)
				}
			}
		}
		// the threshold handed to Pay
		s.st.mu.Lock()
		for _, pc := range s.st.pays {
			if pc.thr.Cmp(big.NewInt(p.threshold)) != 0 {
				c.Viol("payment-request-wrong-threshold", fmt.Sprintf("Pay called with threshold %v, configured %d", pc.thr, p.threshold), nil)
				break
			}
		}
		s.st.mu.Unlock()
		ks := make([]string, 0, len(classes))
		for k := range classes {
			ks = append(ks, k)
		}
		sortStrings(ks)
		if h < 2 {
			run.Sample(map[string]interface{}{"threshold": p.threshold, "tolerance": p.tolerance, "available": p.avail, "ops": hist})
		}
		c.End(fmt.Sprintf("seq/%s/thr=%d/tol=%d/avail>thr=%v/init=%v,%v", strings.Join(ks, ","), p.threshold/40, p.tolerance/60, p.avail > p.threshold, s.init[0] > 0, s.init[1] > 0), len(ks) >= 5)
	}
}

func sortStrings(a []string) {
	for i := 1; i < len(a); i++ {
		for j := i; j > 0 && a[j] < a[j-1]; j-- {
			a[j], a[j-1] = a[j-1], a[j]
		}
	}
}

// ---------------------------------------------------------------------------

func TestConcurrent(t *testing.T) { racemain.Run(t, func() { testConcurrent(t) }) }

func testConcurrent(t *testing.T) {
	run := obs.Start(t, "C32")
	defer run.Done()
	run.Rule("concurrent histories: 8 goroutines x 12-18 operations over 2 peers on one Accounting, with seeded yields/microsleeps inside the settlement stub (i.e. inside accounting's critical sections); "+
		"call/return stamped with a logical clock, a final per-peer operation reports the number of payment requests and the unsettled served traffic after draining the pay queue; "+
		"each history is checked for linearizability against the sequential specification with porcupine, partitioned by peer; distinct = parameters class x order in which calls returned",
		"a porcupine timeout makes that history inconclusive (counted, not judged)",
		"data-race reports with a frame in pkg/accounting are violations (the statement demands race freedom); they are read from the race detector's log")
	n := run.N(60, 400)
	for h := 0; h < n; h++ {
		c := run.Begin(fmt.Sprintf("conc/%d", h), nil)
		if c == nil {
			continue
		}
		rng := c.Rand()
		p := genParams(rng)
		s := newSut(rng, 2, p)
		seed := rng.Uint64()
		var jn uint64
		s.st.yield = func() {
			hh := fnv.New64a()
			fmt.Fprintf(hh, "%d/%d", seed, atomic.AddUint64(&jn, 1))
			switch x := hh.Sum64() % 8; {
			case x < 3:
			case x < 6:
				for y := uint64(0); y <= x; y++ {
					runtime.Gosched()
				}
			default:
				time.Sleep(time.Duration(hh.Sum64()%100) * time.Microsecond)
			}
		}
		const G = 8
		plans := make([][]in, G)
		for g := range plans {
			k := 12 + rng.Intn(7)
			for j := 0; j < k; j++ {
				plans[g] = append(plans[g], genOp(rng, 2, p))
			}
		}
		rec := &lin.Recorder{}
		var wg sync.WaitGroup
		start := make(chan struct{})
		for g := 0; g < G; g++ {
			wg.Add(1)
			go func(g int) {
				defer wg.Done()
				<-start
				for _, i := range plans[g] {
					i := i
					rec.Do(g, i, func() interface{} { return s.apply(i) })
				}
			}(g)
		}
		close(start)
		done := make(chan struct{})
		go func() { wg.Wait(); close(done) }()
		select {
		case <-done:
		case <-time.After(120 * time.Second):
			t.Fatal("concurrent workload did not finish within 120s (deadlock?)")
		}
		s.st.yield = nil
		s.drain(t)
		for pi := 0; pi < 2; pi++ {
			pi := pi
			rec.Do(G, in{Op: oFinal, Name: opName[oFinal], Peer: pi}, func() interface{} { return s.final(pi) })
		}
		ops := rec.Ops()
		run.Stat("conc_ops", int64(len(ops)))
		init := append([]int64(nil), s.init...)
		model := porcupine.Model{
			Partition: func(history []porcupine.Operation) [][]porcupine.Operation {
				parts := make([][]porcupine.Operation, 2)
				for _, o := range history {
					pi := o.Input.(in).Peer
					parts[pi] = append(parts[pi], o)
				}
				return parts
			},
			// the initial unpaid amount differs per peer: it is looked up at the first step
			Init: func() interface{} { return specP{first: true} },
			Step: func(st interface{}, input interface{}, output interface{}) (bool, interface{}) {
				sp := st.(specP)
				i := input.(in)
				if sp.first {
					sp = specP{spec: spec{unpaid: init[i.Peer]}}
				}
				ok, next := step(p, sp.spec, i, output.(out))
				return ok, specP{spec: next}
			},
		}
		verdict := lin.Check(model, ops, 30*time.Second)
		// interleaving signature
		hh := fnv.New32a()
		sorted := append([]porcupine.Operation(nil), ops...)
		for a := 1; a < len(sorted); a++ {
			for b := a; b > 0 && sorted[b].Return < sorted[b-1].Return; b-- {
				sorted[b], sorted[b-1] = sorted[b-1], sorted[b]
			}
		}
		overlaps := 0
		for a := range ops {
			for b := a + 1; b < len(ops); b++ {
				if ops[a].Call < ops[b].Return && ops[b].Call < ops[a].Return && ops[a].Input.(in).Peer == ops[b].Input.(in).Peer {
					overlaps++
				}
			}
		}
		for _, o := range sorted {
			fmt.Fprintf(hh, "%d,", o.ClientId)
		}
		run.Stat("conc_overlapping_same_peer_pairs", int64(overlaps))
		switch verdict {
		case lin.Ok:
			run.Stat("lin_ok", 1)
		case lin.Unknown:
			run.Stat("lin_unknown", 1)
		case lin.Illegal:
			run.Stat("lin_illegal", 1)
			var hist []map[string]interface{}
			for _, o := range sorted {
				hist = append(hist, map[string]interface{}{"g": o.ClientId, "in": o.Input, "out": o.Output, "call": o.Call, "ret": o.Return})
			}
			// name the clause: re-check with single operation kinds projected out is not sound, so classify by partition only
			c.Viol("concurrent-history-not-linearizable", fmt.Sprintf("no sequential order of the %d recorded operations explains the observed outputs (threshold %d, tolerance %d, available %d)", len(ops), p.threshold, p.tolerance, p.avail),
				map[string]interface{}{"threshold": p.threshold, "tolerance": p.tolerance, "available": p.avail, "initial_unpaid": init[:2], "operations_by_return_time": hist})
		}
		if h < 1 {
			run.Sample(map[string]interface{}{"threshold": p.threshold, "tolerance": p.tolerance, "available": p.avail, "goroutines": G, "plan_of_goroutine_0": plans[0]})
		}
		c.End(fmt.Sprintf("conc/thr>avail=%v/tol<50=%v/order=%08x", p.threshold > p.avail, p.tolerance < 50, hh.Sum32()), overlaps > 0)
	}
	// data races observed by the race detector in this process
	seen := map[string]bool{}
	for _, r := range racemain.Reports() {
		inAcc := false
		for _, pk := range r.Pkgs {
			if pk == "pkg/accounting" {
				inAcc = true
			}
		}
		run.Stat("race_reports_total", 1)
		if !inAcc || seen[r.Key] {
			continue
		}
		seen[r.Key] = true
		run.Viol("data-race/"+r.Key, "the race detector reported unsynchronised accesses in pkg/accounting: "+r.Key, map[string]interface{}{"report": r.Text})
	}
}

type specP struct {
	spec
	first bool
}
