package c13

import (
	"fmt"
	"io"
	"sort"
	"strings"
	"testing"
	"time"

	"github.com/gauss-project/aurorafs/pkg/localstore"
	"github.com/gauss-project/aurorafs/pkg/logging"

	"verif/harness/internal/fsim"
	"verif/harness/internal/mininode"
	"verif/harness/internal/obs"
	"verif/harness/internal/vdb"
)

type opRec struct {
	Op   string `json:"op"`
	File int    `json:"file"`
	Arg  string `json:"arg,omitempty"`
	Note string `json:"note,omitempty"`
}

// four shards so the orchestrator can run them as parallel child processes
func TestShard0(t *testing.T) { histories(t, 0) }
func TestShard1(t *testing.T) { histories(t, 1) }
func TestShard2(t *testing.T) { histories(t, 2) }
func TestShard3(t *testing.T) { histories(t, 3) }

var faultSeq int

// parkedCollect runs one collection run in a goroutine, parks it between candidate
// selection and eviction, performs during() and resumes. It reports whether the run got as
// far as the parking point (it does not when there is nothing to collect).
func parkedCollect(t *testing.T, n *mininode.Node, during func()) (parked bool) {
	reached := make(chan struct{})
	release := make(chan struct{})
	first := true
	localstore.VerifSetGCIteratorDone(func() {
		if !first {
			return
		}
		first = false
		close(reached)
		<-release
	})
	defer localstore.VerifSetGCIteratorDone(nil)
	done := make(chan struct{})
	go func() {
		defer close(done)
		c, _, e := n.Store.VerifCollectGarbage()
		fsim.LastParkedCollected, fsim.LastParkedErr = c, e
	}()
	select {
	case <-reached:
		parked = true
		during()
		close(release)
	case <-done:
		return false
	case <-time.After(120 * time.Second):
		t.Fatal("collection run neither reached the parking point nor returned within 120 s (inconclusive)")
	}
	select {
	case <-done:
	case <-time.After(120 * time.Second):
		t.Fatal("parked collection run did not finish within 120 s after release (inconclusive)")
	}
	return parked
}

func histories(t *testing.T, shard int) {
	run := obs.Start(t, "C13")
	defer run.Done()
	run.Rule("histories of 36 ops on a mini node (capacity 8..20 chunks) over files built from 6 shared blocks (repeated blocks included): uploads, pinned uploads, full and partial caching from a source node, pin/unpin/delete over HTTP, reads under the file context, plain collection loops, and collection runs parked between candidate selection and eviction while one operation (read / cache / pin / unpin / delete) hits a cached file; the counter invariant is checked at every quiescent point, the capacity bound after every collection loop that reported done, and the persisted counter after reopening a copy of the key-value store; distinct = (capacity class, op kinds used, parked-op kinds, #collections)",
		"quiescent point = no operation in flight, no collection running, background access-time updates drained",
		"the GC worker is gated off; the monitor calls the same collectGarbage() itself")
	n := run.N(120, 1200)
	for i := shard; i < n; i += 4 {
		c := run.Begin(fmt.Sprintf("hist/%d", i), nil)
		if c == nil {
			continue
		}
		rng := c.Rand()
		capacity := uint64(8 + rng.Intn(13))
		// every fourth history runs on a coarse clock: up to six successive clock readings
		// return the same time
		coarse := int64(1)
		if i%4 == 3 {
			coarse = int64(2 + rng.Intn(5))
			run.Stat("histories_on_a_coarse_clock", 1)
		}
		fsim.SetClockGranularity(coarse)
		faultSeq++
		fname := fmt.Sprintf("c13-%d-%d", shard, faultSeq)
		fault := vdb.NewFault(fname, nil)
		w, err := fsim.NewWorld(capacity, func(o *mininode.Options) {
			o.Driver = vdb.CrashName + ":" + vdb.SmallCfg
			o.Path = fname
		})
		if err != nil {
			t.Fatal(err)
		}
		var files []*fsim.File
		nf := 4 + rng.Intn(3)
		for len(files) < nf {
			nb := 1 + rng.Intn(3)
			blocks := make([]int, nb)
			for k := range blocks {
				blocks[k] = rng.Intn(6)
			}
			if nb == 3 && rng.Intn(3) == 0 {
				blocks[2] = blocks[0] // repeated chunk inside one file
			}
			last := []int{fsim.CS, 1000, 70000}[rng.Intn(3)]
			f, err := w.NewFile(blocks, last)
			if err != nil {
				t.Fatal(err)
			}
			dup := false
			for _, g := range files {
				if g == f {
					dup = true
				}
			}
			if !dup {
				files = append(files, f)
			}
		}
		var hist []opRec
		kinds := map[string]bool{}
		parkedKinds := map[string]bool{}
		collections := 0
		witness := func(extra map[string]interface{}) map[string]interface{} {
			var fd []map[string]interface{}
			for _, f := range files {
				fd = append(fd, f.Desc())
			}
			o := map[string]interface{}{"capacity": capacity, "files": fd, "history": append([]opRec(nil), hist...)}
			for k, v := range extra {
				o[k] = v
			}
			return o
		}
		// delta = persisted counter minus recomputed total; the invariant is delta == 0.
		// A violation is keyed by the kind of operation after which delta changed.
		lastDelta := int64(0)
		ghostReported := map[string]bool{}
		check := func(after string) {
			s, err := fsim.Dump(w.N)
			if err != nil {
				t.Fatal(err)
			}
			run.Stat("quiescent_points_checked", 1)
			delta := int64(s.GCSize) - int64(s.SumGC)
			hist[len(hist)-1].Note += fmt.Sprintf(" {%s}", w.Short(s))
			// a cache entry stands for a file the node holds: its root chunk is stored (an entry
			// for a file that is gone can never be collected and keeps the total up for good)
			for root, cnt := range s.GC {
				run.Stat("cache_entries_checked_for_a_stored_root", 1)
				if !s.Present[root] && !ghostReported[root] {
					ghostReported[root] = true
					c.Viol("cache-entry-for-a-file-that-is-gone/after-"+after, fmt.Sprintf("after %s: the cache index records %d chunks for file %s whose root chunk is not stored", after, cnt, root[:12]), witness(nil))
				}
			}
			if delta != lastDelta {
				c.Viol("counter-diverges-from-total-after-"+after,
					fmt.Sprintf("after %s: persisted counter %d, recomputed total %d (difference %d, was %d before)", after, s.GCSize, s.SumGC, delta, lastDelta), witness(nil))
				lastDelta = delta
			} else if delta == 0 {
				run.Stat("quiescent_points_with_counter_equal_total", 1)
			}
		}
		fileIn := func(gc bool) int {
			// index of a file that is (not) in the cache index, -1 if none
			s, _ := fsim.Dump(w.N)
			var cand []int
			for fi, f := range files {
				if _, ok := s.GC[f.Root.String()]; ok == gc {
					cand = append(cand, fi)
				}
			}
			if len(cand) == 0 {
				return -1
			}
			return cand[rng.Intn(len(cand))]
		}
		allIdx := func(f *fsim.File) []int {
			idx := make([]int, len(f.Leaves))
			for j := range idx {
				idx[j] = j
			}
			return idx
		}
		doOp := func(kind string, fi int) {
			f := files[fi]
			switch kind {
			case "upload":
				_ = w.Upload(f, false)
			case "uploadpin":
				_ = w.Upload(f, true)
			case "cache":
				_ = w.CacheChunks(f, allIdx(f))
			case "cachepart":
				idx := allIdx(f)
				rng.Shuffle(len(idx), func(a, b int) { idx[a], idx[b] = idx[b], idx[a] })
				_ = w.CacheChunks(f, idx[:1+rng.Intn(len(idx))])
			case "read":
				_ = w.CacheChunks(f, allIdx(f))
			case "pin":
				w.N.PinHTTP(f.Root)
			case "unpin":
				w.N.UnpinHTTP(f.Root)
			case "delete":
				w.N.Delete(f.Root)
			}
		}
	ops:
		for k := 0; k < 36; k++ {
			fi := rng.Intn(len(files))
			x := rng.Intn(14) // 0..12 ordinary ops, 13 plain collection
			if x == 13 {
				x = 14
			}
			if rng.Intn(12) == 0 {
				x = 19 // reopen a copy
			}
			if s, _ := fsim.Dump(w.N); s.GCSize > s.Target && rng.Intn(4) > 0 {
				// a collection run would get past candidate selection now: park one (2 of 3)
				// or run a plain loop
				x = 16
				if rng.Intn(3) == 0 {
					x = 14
				}
			}
			switch {
			case x < 13:
				kind := []string{"upload", "uploadpin", "cache", "cache", "cache", "cachepart", "cachepart", "read", "pin", "pin", "unpin", "delete", "cache"}[x]
				if kind == "read" || kind == "unpin" || kind == "delete" {
					if g := fileIn(true); g >= 0 && rng.Intn(2) == 0 {
						fi = g
					}
				}
				hist = append(hist, opRec{Op: kind, File: fi})
				kinds[kind] = true
				doOp(kind, fi)
				check(kind)
			case x < 16:
				// plain collection loop
				hist = append(hist, opRec{Op: "collect", File: -1})
				rounds, done, _, cerr := fsim.Collect(w.N, 12)
				collections++
				run.Stat("collection_loops", 1)
				hist[len(hist)-1].Arg = fmt.Sprintf("rounds=%d done=%v err=%v", rounds, done, cerr)
				check("collection")
				s, _ := fsim.Dump(w.N)
				if done && cerr == nil {
					run.Stat("collection_loops_done", 1)
					if s.GCSize > s.Cap {
						c.Viol("counter-above-capacity-after-collection-done", fmt.Sprintf("collection reported done but the persisted counter is %d > capacity %d", s.GCSize, s.Cap), witness(nil))
					}
					if s.SumGC > s.Cap {
						c.Viol("total-above-capacity-after-collection-done", fmt.Sprintf("collection reported done but the recorded cached-chunk total is %d > capacity %d", s.SumGC, s.Cap), witness(nil))
					}
				} else if !done {
					c.Viol("collection-not-done-after-12-runs", fmt.Sprintf("12 consecutive collection runs never reported done (counter %d, total %d, capacity %d)", s.GCSize, s.SumGC, s.Cap), witness(nil))
				}
			case x < 19:
				// collection run parked at the point between candidate selection and eviction
				g := fileIn(true)
				if g < 0 {
					continue
				}
				kind := []string{"read", "cachepart", "pin", "unpin", "delete", "cache"}[rng.Intn(6)]
				// one time in three the run is parked later: at the moment its first candidate (the
				// oldest cache entry) is handed to chunkinfo, and the operation hits that very file
				atDelFile := rng.Intn(3) == 0
				if atDelFile {
					if raw, err := w.N.Store.VerifDump(); err == nil && len(raw.GC) > 0 {
						for gi, h := range files {
							if fmt.Sprintf("%x", raw.GC[0].Address) == h.Root.String() {
								g = gi
							}
						}
					}
					kind = []string{"read", "read", "cachepart", "cache"}[rng.Intn(4)]
				}
				hist = append(hist, opRec{Op: "collect-parked", File: g, Arg: kind})
				if atDelFile {
					hist[len(hist)-1].Op = "collect-parked-at-delfile"
				}
				s0, _ := fsim.Dump(w.N)
				var parked bool
				var mid *fsim.State
				during := func() {
					doOp(kind, g)
					mid, _ = fsim.Dump(w.N)
				}
				if atDelFile {
					parked = fsim.ParkedCollect(w.N, "delfile", during, func(m string) { t.Fatal(m + " (inconclusive)") })
					if parked {
						run.Stat("parked_collections_at_delfile", 1)
					}
				} else {
					parked = parkedCollect(t, w.N, during)
				}
				if parked && mid != nil && fsim.LastParkedErr == nil {
					// the run takes what it reports as collected off the counter AS IT IS when the run
					// writes it: counter changes acknowledged while the run was parked are not lost
					s1, _ := fsim.Dump(w.N)
					want := int64(mid.GCSize) - int64(fsim.LastParkedCollected)
					if want < 0 {
						want = 0
					}
					run.Stat("counter_conservation_checked_over_parked_runs", 1)
					if int64(s1.GCSize) != want {
						c.Viol("counter-after-parked-run-is-not-counter-at-that-time-minus-collected/"+kind,
							fmt.Sprintf("the counter was %d when the run started, %d after the %s made while the run was parked; the run reports %d collected and leaves the counter at %d (expected %d)", s0.GCSize, mid.GCSize, kind, fsim.LastParkedCollected, s1.GCSize, want), witness(nil))
					}
				}
				collections++
				if parked {
					parkedKinds[kind] = true
					run.Stat("parked_collections", 1)
					run.Stat("parked_"+kind, 1)
					// was the target the oldest entry, i.e. certainly among the candidates?
					_ = s0
				} else {
					run.Stat("parked_collections_nothing_to_collect", 1)
					doOp(kind, g)
				}
				hist[len(hist)-1].Note = fmt.Sprint("parked=", parked)
				check("collection-racing-with-" + kind)
			default:
				// reopen a copy of the key-value store: the persisted counter must be what the
				// store recomputes
				hist = append(hist, opRec{Op: "reopen-copy", File: -1})
				w.N.Store.VerifWaitUpdateGC()
				snap := fault.Snapshot()
				faultSeq++
				rn := fmt.Sprintf("c13-%d-%d-reopen", shard, faultSeq)
				vdb.NewFault(rn, snap)
				db, err := localstore.New(rn, w.N.Addr.Bytes(), &localstore.Options{Driver: vdb.CrashName + ":" + vdb.SmallCfg, Capacity: capacity}, logging.New(io.Discard, 0))
				if err != nil {
					t.Fatalf("reopen: %v", err)
				}
				st, err := db.VerifDump()
				db.Close()
				vdb.DropFault(rn)
				if err != nil {
					t.Fatal(err)
				}
				var sum uint64
				for _, it := range st.GC {
					sum += it.GCounter
				}
				run.Stat("reopens", 1)
				if st.GCSize < sum {
					c.Viol("reopened-counter-below-total", fmt.Sprintf("after reopen the counter is %d < recomputed total %d", st.GCSize, sum), witness(nil))
					break ops
				}
				s, _ := fsim.Dump(w.N)
				if int64(s.GCSize)-int64(s.SumGC) == 0 && st.GCSize != sum {
					c.Viol("reopen-changes-consistent-counter", fmt.Sprintf("counter equalled the total (%d) before reopening, after reopen counter %d total %d", s.GCSize, st.GCSize, sum), witness(nil))
				}
			}
		}
		w.Close()
		fsim.SetClockGranularity(1)
		vdb.DropFault(fname)
		var ks, ps []string
		for k := range kinds {
			ks = append(ks, k)
		}
		for k := range parkedKinds {
			ps = append(ps, k)
		}
		sort.Strings(ks)
		sort.Strings(ps)
		capClass := "small"
		if capacity >= 14 {
			capClass = "large"
		}
		cc := collections
		if cc > 4 {
			cc = 4
		}
		c.End(fmt.Sprintf("cap=%s/%s/parked=%s/coll=%d", capClass, strings.Join(ks, "+"), strings.Join(ps, "+"), cc), collections > 0)
		if i < 1 {
			run.Sample(witness(nil))
		}
	}
}
