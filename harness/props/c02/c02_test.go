// Package c02: the reference of unencrypted content is the Aurora tree hash of its bytes
// alone.
//
// Oracle (from the statement only): reference == spec.TreeHash(content) (256 KiB leaves,
// BMT under an 8-byte little-endian span, <= 8192 references per intermediate chunk with
// the subtree length as span, lone reference carried up unchanged), and the reference is
// the same for every segmentation of the writes.
package c02

import (
	"bytes"
	"context"
	"fmt"
	"io"
	"math/rand"
	"testing"

	"github.com/gauss-project/aurorafs/pkg/boson"
	"github.com/gauss-project/aurorafs/pkg/file/pipeline"
	"github.com/gauss-project/aurorafs/pkg/file/pipeline/bmt"
	"github.com/gauss-project/aurorafs/pkg/file/pipeline/builder"
	"github.com/gauss-project/aurorafs/pkg/file/pipeline/hashtrie"
	"github.com/gauss-project/aurorafs/pkg/file/pipeline/store"
	"github.com/gauss-project/aurorafs/pkg/storage"

	fk "verif/harness/internal/filekit"
	"verif/harness/internal/obs"
	"verif/harness/internal/spec"
)

const CS = fk.CS

func sizeClass(n int) string {
	switch {
	case n == 0:
		return "empty"
	case n < 32:
		return "sub-segment"
	case n <= 4097:
		return "small"
	case n < CS-1:
		return "sub-chunk"
	}
	k := (n + CS - 1) / CS
	edge := "mid"
	switch n % CS {
	case 0:
		edge = "full"
	case 1:
		edge = "full+1"
	case CS - 1:
		edge = "full-1"
	}
	b := fmt.Sprint(k)
	switch {
	case k > 32:
		b = "33+"
	case k > 8:
		b = "9-32"
	case k > 4:
		b = "5-8"
	}
	return fmt.Sprintf("%schunks/%s", b, edge)
}

type content struct {
	ID   string `json:"content"`
	Size int    `json:"size"` // -1: drawn from the content PRNG
	Kind string `json:"content_kind"`

	made    bool
	data    []byte
	seed    uint64
	specRef []byte
	oneRef  []byte // reference obtained with a single Write
}

func (ct *content) ensure(run *obs.Run, maxRand int) {
	if ct.made {
		return
	}
	ct.made = true
	rng := run.RandFor("content/" + ct.ID)
	n := ct.Size
	if n < 0 {
		n = rng.Intn(maxRand + 1)
		if rng.Intn(3) == 0 {
			n = n/CS*CS + rng.Intn(3) - 1
			if n < 0 {
				n = 0
			}
		}
		ct.Size = n
	}
	ct.seed = rng.Uint64()
	ct.data = fk.MakeContent(ct.Kind, n, ct.seed)
	ct.specRef = spec.TreeHash(ct.data)
	run.Stat("spec_tree_hashes", 1)
	res := fk.Upload(context.Background(), fk.NewStore(), storage.ModePutUpload, ct.data, fk.SegOne, false, rng)
	if res.Err == nil {
		ct.oneRef = res.Ref
	}
}

type segCase struct {
	Content string `json:"content"`
	Size    int    `json:"size"`
	Kind    string `json:"content_kind"`
	Seg     string `json:"segmentation"`
}

func TestReferenceIsTreeHash(t *testing.T) {
	run := obs.Start(t, "C02")
	defer run.Done()
	run.Rule("contents: sizes on/around segment and chunk boundaries, identical-leaf contents, random sizes (<= 6 MiB quick, <= 24 MiB thorough); each uploaded unencrypted through the real pipeline under 6-9 write segmentations (one, byte/small or aligned/around/1 MiB, random x2, FeedPipeline short reads, data+EOF, file.ChunkPipe); reference compared with spec.TreeHash(content) and with the single-Write reference. distinct = (size class, segmentation, content kind); trivial = the single-Write case of an empty content",
		"spec.BMT / spec.TreeHash are the definition of the format (keccak256 binary Merkle tree over 8192 zero-padded 32-byte segments, span prefix)")
	ctx := context.Background()
	var cts []*content
	for _, n := range []int{0, 1, 31, 32, 33, 63, 64, 65, 4095, 4096, 4097, CS - 33, CS - 32, CS - 1, CS, CS + 1, CS + 32, 2*CS - 1, 2 * CS, 2*CS + 1, 3*CS + 17} {
		cts = append(cts, &content{ID: fmt.Sprintf("n%d", n), Size: n, Kind: fk.KindPRF})
	}
	for _, k := range []string{fk.KindZeros, fk.KindRepeat} {
		for _, n := range []int{CS, 3*CS + 5} {
			cts = append(cts, &content{ID: fmt.Sprintf("n%d-%s", n, k), Size: n, Kind: k})
		}
	}
	for i := 0; i < run.N(16, 36); i++ {
		cts = append(cts, &content{ID: fmt.Sprintf("rnd%d", i), Size: -1, Kind: fk.KindPRF})
	}
	maxRand := run.N(6<<20, 24<<20)
	for _, ct := range cts {
		segs := []string{fk.SegOne, fk.SegRandom, fk.SegRandom + "#2", fk.SegAligned, fk.SegAround, fk.SegMiB, fk.SegFeed, fk.SegFeedEOF, fk.SegChunkPipe}
		if ct.Size >= 0 && ct.Size <= 4097 {
			segs = []string{fk.SegOne, fk.SegByte, fk.SegSmall, fk.SegSmall + "#2", fk.SegFeed, fk.SegFeedEOF, fk.SegChunkPipe}
		}
		for _, sg := range segs {
			c := run.Begin(ct.ID+"/"+sg, segCase{ct.ID, ct.Size, ct.Kind, sg})
			if c == nil {
				continue
			}
			ct.ensure(run, maxRand)
			rng := c.Rand()
			seg := sg
			if i := len(seg) - 2; i > 0 && seg[i] == '#' {
				seg = seg[:i]
			}
			w := map[string]interface{}{"size": ct.Size, "content_kind": ct.Kind, "content_seed": ct.seed, "segmentation": sg, "format_reference": obs.Hex(ct.specRef)}
			shape := fmt.Sprintf("%s|%s|%s", sizeClass(ct.Size), seg, ct.Kind)
			var up fk.UploadResult
			st := fk.NewStore()
			func() {
				defer func() {
					if p := recover(); p != nil {
						c.Viol("panic-upload", fmt.Sprint(p), w)
						up.Err = fmt.Errorf("panic")
					}
				}()
				up = fk.Upload(ctx, st, storage.ModePutUpload, ct.data, seg, false, rng)
			}()
			if up.Err != nil {
				if up.Err.Error() != "panic" {
					c.Viol("upload-error", up.Err.Error(), w)
				}
				c.End(shape, true)
				continue
			}
			w["reference"] = obs.Hex(up.Ref)
			w["write_calls"] = up.Writes
			run.Stat("references_compared_with_format", 1)
			run.Stat("write_calls", int64(up.Writes))
			if !bytes.Equal(up.Ref, ct.specRef) {
				c.Viol("reference-differs-from-format", fmt.Sprintf("%d-byte content, segmentation %s: reference %x, format tree hash %x", ct.Size, sg, up.Ref, ct.specRef), w)
			}
			if ct.oneRef != nil {
				run.Stat("references_compared_across_segmentations", 1)
				if !bytes.Equal(up.Ref, ct.oneRef) {
					w["single_write_reference"] = obs.Hex(ct.oneRef)
					c.Viol("reference-depends-on-segmentation", fmt.Sprintf("%d-byte content: segmentation %s gives %x, a single Write gives %x", ct.Size, sg, up.Ref, ct.oneRef), w)
				}
			}
			if ct.Size > CS {
				run.Stat("multi_chunk_references", 1)
				// the store saw leaves + intermediates of the format, no more, no fewer distinct chunks
				l, im := spec.NewTree(int64(ct.Size), spec.Branches).ChunkCount()
				puts, _, _, _ := st.Counters()
				if ct.Kind == fk.KindPRF && puts != l+im {
					// informative only: the statement is about the reference, not the number of puts
					run.Stat("uploads_with_unexpected_put_count", 1)
				}
			}
			c.End(shape, !(ct.Size == 0 && seg == fk.SegOne))
			if ct.ID == "n524289" || ct.ID == "rnd0" {
				run.Sample(w)
			}
		}
		ct.data = nil // release
		ct.made = false
	}
}

// ---------------------------------------------------------------------------------------

type levelCase struct {
	ID     string `json:"id"`
	Leaves int64  `json:"leaves"`
}

// Level boundaries with real hashing of the intermediate chunks but without 2 GiB of leaf
// data: the real hash-trie writer with the real short pipeline (BMT writer + store writer,
// as builder.newShortPipelineFunc assembles it) is fed L leaf references (random 32-byte
// hashes with their spans); the root must equal the format's reduction of the same leaf
// references (spec.ReduceRefs).
func TestIntermediateLevelsHash(t *testing.T) {
	run := obs.Start(t, "C02")
	defer run.Done()
	run.Rule("real hashtrie writer + real BMT/store short pipeline fed L random leaf references, L in {1,2,8191,8192,8193,2*8192-1..+1,3*8192+5, random <= 40*8192; 8192^2+{0,1,8193} thorough}; root compared with spec.ReduceRefs. distinct = class of L relative to powers of 8192",
		"leaf references are random hashes (the leaf hashing itself is covered by TestReferenceIsTreeHash)")
	B := int64(spec.Branches)
	var cases []levelCase
	for _, l := range []int64{1, 2, 3, B - 1, B, B + 1, 2*B - 1, 2 * B, 2*B + 1, 3*B + 5} {
		cases = append(cases, levelCase{fmt.Sprintf("L%d", l), l})
	}
	if run.Thorough() {
		for _, l := range []int64{B * B, B*B + 1, B*B + B + 1} {
			cases = append(cases, levelCase{fmt.Sprintf("L%d", l), l})
		}
	}
	for i := 0; i < run.N(10, 20); i++ {
		cases = append(cases, levelCase{fmt.Sprintf("rnd%d", i), -1})
	}
	ctx := context.Background()
	for _, lc := range cases {
		c := run.Begin(lc.ID, lc)
		if c == nil {
			continue
		}
		rng := c.Rand()
		L := lc.Leaves
		if L < 0 {
			if rng.Intn(2) == 0 {
				L = (1+rng.Int63n(20))*B + rng.Int63n(3) - 1
			} else {
				L = 1 + rng.Int63n(40*B)
			}
		}
		last := int64(1 + rng.Intn(CS))
		seed := rng.Uint64()
		w := map[string]interface{}{"leaves": L, "last_leaf_bytes": last, "leaf_hash_seed": seed}
		st := fk.NewStore()
		st.Discard = true
		st.Record = false
		short := func() pipeline.ChainWriter {
			return bmt.NewBmtWriter(store.NewStoreWriter(ctx, st, storage.ModePutUpload, nil))
		}
		tw := hashtrie.NewHashTrieWriter(boson.ChunkSize, boson.Branches, boson.HashSize, short)
		// spec side: streaming reduction level by level would need all refs; 8192^2 refs of 40 bytes
		// are affordable (2.7 GB) only in thorough, so reduce in blocks of B: a full block of B
		// leaves reduces to one level-1 reference independently of the rest.
		var lvl1, all []spec.Ref
		direct := L <= 64*B
		block := make([]spec.Ref, 0, B)
		var err error
		func() {
			defer func() {
				if p := recover(); p != nil {
					c.Viol("panic-hashtrie", fmt.Sprint(p), w)
					err = fmt.Errorf("panic")
				}
			}()
			h := make([]byte, 32)
			for i := int64(0); i < L; i++ {
				fk.Fill(h, seed, i*32)
				span := int64(CS)
				if i == L-1 {
					span = last
				}
				if err = tw.ChainWrite(&pipeline.PipeWriteArgs{Span: spec.Span(uint64(span)), Ref: h}); err != nil {
					return
				}
				block = append(block, spec.Ref{Hash: append([]byte(nil), h...), Span: span})
				if direct {
					all = append(all, block[len(block)-1])
				}
				if int64(len(block)) == B {
					lvl1 = append(lvl1, spec.ReduceRefs(block, spec.Branches, spec.Branches))
					block = block[:0]
				}
			}
		}()
		shape := "levels|" + leafClass(L, B)
		if err != nil {
			if err.Error() != "panic" {
				c.Viol("hashtrie-write-error", err.Error(), w)
			}
			c.End(shape, true)
			continue
		}
		if len(block) > 0 {
			// the trailing partial block: a lone leaf is carried up, several are wrapped
			lvl1 = append(lvl1, spec.ReduceRefs(block, spec.Branches, spec.Branches))
		}
		want := spec.ReduceRefs(lvl1, spec.Branches, spec.Branches)
		if direct {
			// the block-wise reduction above is only a memory saving: it must equal the plain one
			if d := spec.ReduceRefs(all, spec.Branches, spec.Branches); !bytes.Equal(d.Hash, want.Hash) || d.Span != want.Span {
				t.Fatalf("harness: block-wise and direct reduction of %d leaf references differ", L)
			}
		}
		var sum []byte
		func() {
			defer func() {
				if p := recover(); p != nil {
					c.Viol("panic-hashtrie", fmt.Sprint(p), w)
					err = fmt.Errorf("panic")
				}
			}()
			sum, err = tw.Sum()
		}()
		if err != nil {
			if err.Error() != "panic" {
				c.Viol("hashtrie-sum-error", err.Error(), w)
			}
			c.End(shape, true)
			continue
		}
		puts, _, _, _ := st.Counters()
		run.Stat("intermediate_chunks_hashed_by_real_writer", puts)
		run.Stat("level_roots_compared", 1)
		if L > B {
			run.Stat("level_roots_3_levels_or_more", 1)
		}
		if !bytes.Equal(sum, want.Hash) {
			w["root"], w["format_root"] = obs.Hex(sum), obs.Hex(want.Hash)
			key := "intermediate-levels-root-differs"
			if L == 1 {
				key = "lone-reference-not-carried-unchanged"
			}
			c.Viol(key, fmt.Sprintf("%d leaf references (last span %d): writer root %x, format root %x", L, last, sum, want.Hash), w)
		}
		c.End(shape, L > 1)
	}
}

func leafClass(L, B int64) string {
	for _, p := range []struct {
		name string
		v    int64
	}{{"B^2", B * B}, {"B", B}} {
		if L >= p.v {
			q, r := L/p.v, L%p.v
			qs := fmt.Sprint(q)
			if q > 3 {
				qs = "k"
			}
			switch {
			case r == 0:
				return qs + p.name
			case r == 1:
				return qs + p.name + "+1"
			case r == p.v-1:
				return qs + p.name + "+(" + p.name + "-1)"
			case p.name == "B^2" && r == B:
				return qs + p.name + "+B"
			case p.name == "B^2" && r == B+1:
				return qs + p.name + "+B+1"
			}
			return qs + p.name + "+r"
		}
	}
	if L == B-1 {
		return "B-1"
	}
	if L <= 3 {
		return fmt.Sprint(L)
	}
	return "<B"
}

// ---------------------------------------------------------------------------------------

// prfReader streams the pseudo-random content without holding it.
type prfReader struct {
	seed uint64
	off  int64
	n    int64
	rng  *rand.Rand
}

func (r *prfReader) Read(p []byte) (int, error) {
	if r.off >= r.n {
		return 0, io.EOF
	}
	l := int64(len(p))
	if r.rng != nil && r.rng.Intn(3) == 0 {
		l = 1 + r.rng.Int63n(l)
	}
	if l > r.n-r.off {
		l = r.n - r.off
	}
	fk.Fill(p[:l], r.seed, r.off)
	r.off += l
	return int(l), nil
}

// Thorough only: a content of 8192 full chunks plus a tail (2 GiB), streamed through the
// real pipeline into a discarding store, so that the root has a full level-1 chunk plus a
// carried leaf / a second level-1 chunk. Hashed twice: by the pipeline and by the spec.
func TestTwoGiBStream(t *testing.T) {
	run := obs.Start(t, "C02")
	defer run.Done()
	run.Rule("thorough tier only: 8192*CS+{1, CS+7} bytes streamed through FeedPipeline (short reads) into a discarding store; reference compared with the spec tree hash computed leaf by leaf from the same stream")
	if !run.Thorough() {
		run.Stat("two_gib_stream_skipped_in_quick", 1)
		return
	}
	ctx := context.Background()
	for i, n := range []int64{8192*CS + 1, 8192*CS + CS + 7} {
		c := run.Begin(fmt.Sprintf("stream/N%d", n), map[string]interface{}{"size": n})
		if c == nil {
			continue
		}
		rng := c.Rand()
		seed := rng.Uint64()
		st := fk.NewStore()
		st.Discard, st.Record = true, false
		var src *rand.Rand
		if i == 1 {
			src = rng
		}
		p := builder.NewPipelineBuilder(ctx, st, storage.ModePutUpload, false)
		addr, err := builder.FeedPipeline(ctx, p, &prfReader{seed: seed, n: n, rng: src})
		w := map[string]interface{}{"size": n, "content_seed": seed}
		if err != nil {
			c.Viol("upload-error", err.Error(), w)
			c.End("stream", true)
			continue
		}
		var refs []spec.Ref
		buf := make([]byte, CS)
		for off := int64(0); off < n; off += CS {
			l := int64(CS)
			if n-off < l {
				l = n - off
			}
			fk.Fill(buf[:l], seed, off)
			refs = append(refs, spec.LeafRef(buf[:l], spec.Branches))
		}
		want := spec.ReduceRefs(refs, spec.Branches, spec.Branches)
		run.Stat("two_gib_references_compared", 1)
		if !bytes.Equal(addr.Bytes(), want.Hash) {
			w["reference"], w["format_reference"] = obs.Hex(addr.Bytes()), obs.Hex(want.Hash)
			c.Viol("reference-differs-from-format", fmt.Sprintf("%d-byte stream: reference %x, format tree hash %x", n, addr.Bytes(), want.Hash), w)
		}
		c.End(fmt.Sprintf("stream|8192chunks+%d", n-8192*CS), true)
	}
}
