// Package c26 monitors property C26 "Unresponsive peers are blocked only after the flag
// timeout" on the real pkg/blocker.Blocker.
//
// Three workloads:
//
//	TestSequentialHistories  the sequencer resolution is one hour (the real tickers never
//	    fire); the harness advances the sequence (VerifTick, the ticker body) and runs sweeps
//	    (VerifSweep = block()) itself. A sequence machine written from the statement predicts
//	    exactly which peers each sweep must hand to Blocklister.Blocklist.
//	TestConcurrentSafety     flaggers, unflaggers, a pruner, tickers, a network flipper and
//	    sweepers run concurrently (race detector on). Only the safety half is judged, with
//	    bounds that hold in every interleaving.
//	TestRealTickers          resolution 1 ms, the real sequencer and wake-up goroutines run.
//	    Judged without any timing assumption: the sequence never exceeds the number of
//	    "network available" answers the sequencer was given, and the safety half as above.
package c26

import (
	"fmt"
	"io"
	"math/rand"
	"runtime"
	"sort"
	"strings"
	"sync"
	"sync/atomic"
	"testing"
	"time"

	"github.com/gauss-project/aurorafs/pkg/blocker"
	"github.com/gauss-project/aurorafs/pkg/boson"
	"github.com/gauss-project/aurorafs/pkg/logging"
	"github.com/gauss-project/aurorafs/pkg/p2p"

	"verif/harness/internal/obs"
)

var logger = logging.New(io.Discard, 0)

// ---------------------------------------------------------------------------------------
// stub blocklister

type blCall struct {
	peer string
	seq  uint64
	dur  time.Duration
}

type stubBL struct {
	status    atomic.Int32
	attribute bool // tell sequencer calls of NetworkStatus from Flag calls (real-ticker test)

	tickAvail   atomic.Int64 // "available" answers given to callers other than Flag
	tickUnavail atomic.Int64
	flagAvail   atomic.Int64

	mu      sync.Mutex
	calls   []blCall
	failNth int // every failNth-th Blocklist call returns an error (0 = never)
	n       int
	onBlock func(addr boson.Address, d time.Duration)
}

func (s *stubBL) set(st p2p.NetworkStatus) { s.status.Store(int32(st)) }

func calledFromFlag() bool {
	var pcs [8]uintptr
	n := runtime.Callers(3, pcs[:])
	frames := runtime.CallersFrames(pcs[:n])
	for {
		f, more := frames.Next()
		if strings.HasSuffix(f.Function, "blocker.(*Blocker).Flag") {
			return true
		}
		if !more {
			return false
		}
	}
}

func (s *stubBL) NetworkStatus() p2p.NetworkStatus {
	st := p2p.NetworkStatus(s.status.Load())
	if s.attribute {
		switch {
		case calledFromFlag():
			if st == p2p.NetworkStatusAvailable {
				s.flagAvail.Add(1)
			}
		case st == p2p.NetworkStatusAvailable:
			s.tickAvail.Add(1)
		default:
			s.tickUnavail.Add(1)
		}
	}
	return st
}

func (s *stubBL) Blocklist(addr boson.Address, d time.Duration, _ string) error {
	if s.onBlock != nil {
		s.onBlock(addr, d)
	}
	s.mu.Lock()
	defer s.mu.Unlock()
	s.calls = append(s.calls, blCall{peer: addr.ByteString(), dur: d})
	s.n++
	if s.failNth > 0 && s.n%s.failNth == 0 {
		return fmt.Errorf("stub: blocklisting failed")
	}
	return nil
}

func (s *stubBL) take() []blCall {
	s.mu.Lock()
	defer s.mu.Unlock()
	c := s.calls
	s.calls = nil
	return c
}

func newRand(seed int64) *rand.Rand { return rand.New(rand.NewSource(seed)) }

func mkPeers(rng *rand.Rand, n int) []boson.Address {
	out := make([]boson.Address, n)
	for i := range out {
		b := make([]byte, 32)
		rng.Read(b)
		out[i] = boson.NewAddress(b)
	}
	return out
}

// setResolution changes the package resolution; every Blocker of the previous test has been
// closed (Close waits for its goroutines), so nothing reads the variable concurrently.
func setResolution(t *testing.T, d time.Duration) {
	restore := blocker.VerifSetResolution(d)
	t.Cleanup(restore)
}

// ---------------------------------------------------------------------------------------
// sequential histories: exact oracle

type mpeer struct {
	flagged   bool
	flaggedAt uint64 // model sequence at the first effective Flag of this period
	rawAt     uint64 // number of tick calls (counted or not) at that moment
	cleared   string // why it is not flagged: never | unflag | prune | blocked | flagged-only-while-network-unavailable
}

func statusName(s p2p.NetworkStatus) string {
	switch s {
	case p2p.NetworkStatusAvailable:
		return "available"
	case p2p.NetworkStatusUnavailable:
		return "unavailable"
	}
	return "unknown"
}

func TestSequentialHistories(t *testing.T) {
	run := obs.Start(t, "C26")
	defer run.Done()
	run.Rule("random histories of 40 ops over 1-5 peers: Flag, Unflag, PruneUnseen(random seen list), tick (real ticker body via VerifTick, singly or in bursts up to timeout+2), network status change (available/unavailable/unknown), sweep (real block()); flag timeout 2..6 ticks, also non-integral (2.5, 3.25 ticks); every 3rd history makes each 3rd Blocklist call fail; distinct = set of situations met (what a sweep blocked or spared and why); non-trivial = at least one sweep blocked a peer and one spared a flagged peer",
		"the sequencer resolution is set to 1h so the real-time tickers never fire; VerifTick repeats the ticker body (TestRealTickers exercises the real goroutines)",
		"elapsed flagged time is measured in sequence ticks: due means (seq - seq at first Flag) * resolution > flag timeout")
	const res = time.Hour
	setResolution(t, res)
	n := run.N(1000, 20000)
	nops := 40
	for k := 0; k < n; k++ {
		c := run.Begin(fmt.Sprintf("hist/%d", k), map[string]interface{}{"ops": nops})
		if c == nil {
			continue
		}
		rng := c.Rand()
		timeouts := []time.Duration{2 * res, 3 * res, 4 * res, 6 * res, 2*res + res/2, 3*res + res/4, res + 1}
		timeout := timeouts[rng.Intn(len(timeouts))]
		peers := mkPeers(rng, 1+rng.Intn(5))
		stub := &stubBL{}
		if k%3 == 2 {
			stub.failNth = 3
		}
		status := p2p.NetworkStatusAvailable
		if rng.Intn(6) == 0 {
			status = p2p.NetworkStatusUnavailable
		}
		stub.set(status)
		var callbacks int
		b := blocker.New(stub, timeout, time.Duration(1+rng.Intn(100))*time.Second, res, func(boson.Address) { callbacks++ }, logger)

		model := make([]*mpeer, len(peers))
		for i := range model {
			model[i] = &mpeer{cleared: "never"}
		}
		idx := map[string]int{}
		for i, p := range peers {
			idx[p.ByteString()] = i
		}
		var seq, raw uint64
		var ops []string
		situ := map[string]bool{}
		see := func(s string) { situ[s] = true; run.Stat("situation/"+s, 1) }
		wit := func(extra map[string]interface{}) map[string]interface{} {
			m := map[string]interface{}{"history": append([]string(nil), ops...), "flag_timeout": timeout.String(), "resolution": res.String(), "peers": len(peers)}
			for k, v := range extra {
				m[k] = v
			}
			return m
		}
		due := func(m *mpeer) bool {
			return m.flagged && time.Duration(seq-m.flaggedAt)*res > timeout
		}
		blockedAny, sparedAny := false, false

		tick := func() {
			b.VerifTick()
			raw++
			if status == p2p.NetworkStatusAvailable {
				seq++
				run.Stat("ticks_counted", 1)
			} else {
				run.Stat("ticks_while_network_not_available", 1)
				see("tick-while-network-" + statusName(status))
			}
			if got := b.VerifSeq(); got != seq {
				key := "sequence-advanced-while-network-not-available"
				if got < seq {
					key = "sequence-not-advanced-while-network-available"
				}
				c.Viol(key, fmt.Sprintf("sequence is %d, expected %d", got, seq), wit(nil))
				seq = got // resynchronise so that one fault is reported once
			}
		}

		sweep := func() {
			b.VerifSweep()
			calls := stub.take()
			run.Stat("sweeps", 1)
			got := map[int]int{}
			for _, cl := range calls {
				i, ok := idx[cl.peer]
				if !ok {
					c.Viol("blocked-unknown-address", "Blocklist called for an address never handed to the blocker", wit(nil))
					continue
				}
				got[i]++
			}
			var names []string
			for i := range got {
				names = append(names, fmt.Sprintf("peer%d", i))
			}
			sort.Strings(names)
			ops = append(ops, fmt.Sprintf("seq=%d sweep -> Blocklist%v", seq, names))
			for i, m := range model {
				n := got[i]
				w := map[string]interface{}{"peer": i, "seq": seq, "flagged_at": m.flaggedAt, "flagged": m.flagged}
				switch {
				case n > 1:
					c.Viol("blocked-twice-in-one-sweep", fmt.Sprintf("peer %d handed to Blocklist %d times by one sweep", i, n), wit(w))
				case n == 1 && !m.flagged:
					key := map[string]string{
						"never":   "blocked-never-flagged",
						"unflag":  "blocked-after-unflag",
						"prune":   "blocked-after-prune",
						"blocked": "blocked-twice-in-one-flag-period",
						"flagged-only-while-network-unavailable": "blocked-peer-flagged-only-while-network-unavailable",
					}[m.cleared]
					c.Viol(key, fmt.Sprintf("peer %d blocklisted although not flagged (%s)", i, m.cleared), wit(w))
				case n == 1 && !due(m):
					key := "blocked-before-flag-timeout"
					if time.Duration(raw-m.rawAt)*res > timeout {
						key = "blocked-counting-ticks-while-network-unavailable"
					}
					c.Viol(key, fmt.Sprintf("peer %d blocklisted %d counted ticks after being flagged, timeout %s", i, seq-m.flaggedAt, timeout), wit(w))
				case n == 0 && due(m):
					c.Viol("not-blocked-after-flag-timeout", fmt.Sprintf("peer %d flagged for %d counted ticks (> %s) but the sweep did not blocklist it", i, seq-m.flaggedAt, timeout), wit(w))
				}
				// situations + model update
				if m.flagged {
					el := time.Duration(seq-m.flaggedAt) * res
					switch {
					case due(m):
						blockedAny = true
						run.Stat("blocklistings_predicted", 1)
						if el-res <= timeout {
							see("sweep-blocks-at-first-due-tick")
						} else {
							see("sweep-blocks-long-overdue")
						}
						if raw-m.rawAt != seq-m.flaggedAt {
							see("sweep-blocks-after-uncounted-ticks")
						}
					default:
						sparedAny = true
						run.Stat("flagged_peers_spared", 1)
						if el+res > timeout {
							see("sweep-spares-one-tick-before-due")
						} else {
							see("sweep-spares-early")
						}
						if time.Duration(raw-m.rawAt)*res > timeout {
							see("sweep-spares-peer-due-only-if-uncounted-ticks-counted")
						}
					}
				} else if m.cleared != "never" {
					see("sweep-spares-cleared-" + m.cleared)
					run.Stat("cleared_peers_spared", 1)
				}
				if n >= 1 && m.flagged {
					// (a due peer that was not blocklisted stays flagged in the model, as in the code)
					m.flagged, m.cleared = false, "blocked"
				}
			}
			run.Stat("blocklist_calls", int64(len(calls)))
		}

		for o := 0; o < nops; o++ {
			i := rng.Intn(len(peers))
			switch x := rng.Intn(100); {
			case x < 26:
				m := model[i]
				ops = append(ops, fmt.Sprintf("seq=%d net=%s Flag(peer%d)", seq, statusName(status), i))
				b.Flag(peers[i])
				run.Stat("flags", 1)
				switch {
				case status != p2p.NetworkStatusAvailable:
					see("flag-while-network-" + statusName(status))
					if !m.flagged && (m.cleared == "never" || m.cleared == "flagged-only-while-network-unavailable") {
						m.cleared = "flagged-only-while-network-unavailable"
					}
				case m.flagged:
					see("flag-again-in-same-period")
				default:
					if m.cleared == "blocked" {
						see("flag-again-after-blocklisting")
					}
					m.flagged, m.flaggedAt, m.rawAt = true, seq, raw
				}
			case x < 36:
				ops = append(ops, fmt.Sprintf("seq=%d Unflag(peer%d)", seq, i))
				b.Unflag(peers[i])
				run.Stat("unflags", 1)
				if model[i].flagged {
					if due(model[i]) {
						see("unflag-when-already-due")
					} else {
						see("unflag-before-timeout")
					}
					model[i].flagged, model[i].cleared = false, "unflag"
				}
			case x < 42:
				var seen []boson.Address
				var names []string
				keep := map[int]bool{}
				for j, p := range peers {
					if rng.Intn(2) == 0 {
						seen = append(seen, p)
						keep[j] = true
						names = append(names, fmt.Sprintf("peer%d", j))
					}
				}
				ops = append(ops, fmt.Sprintf("seq=%d PruneUnseen(seen=%v)", seq, names))
				b.PruneUnseen(seen)
				run.Stat("prunes", 1)
				for j, m := range model {
					if m.flagged && !keep[j] {
						m.flagged, m.cleared = false, "prune"
						see("prune-removes-flagged")
					} else if m.flagged {
						see("prune-keeps-seen-flagged")
					}
				}
			case x < 70:
				nt := 1
				if rng.Intn(4) == 0 {
					nt = 1 + rng.Intn(int(timeout/res)+2)
				}
				ops = append(ops, fmt.Sprintf("seq=%d net=%s tick x%d", seq, statusName(status), nt))
				for j := 0; j < nt; j++ {
					tick()
				}
			case x < 80:
				st := []p2p.NetworkStatus{p2p.NetworkStatusAvailable, p2p.NetworkStatusAvailable, p2p.NetworkStatusUnavailable, p2p.NetworkStatusUnavailable, p2p.NetworkStatusUnknown}[rng.Intn(5)]
				status = st
				stub.set(st)
				ops = append(ops, fmt.Sprintf("seq=%d network status := %s", seq, statusName(st)))
			default:
				sweep()
			}
		}
		// closing: two sweeps (the second must block nothing new), then far ahead
		sweep()
		sweep()
		status = p2p.NetworkStatusAvailable
		stub.set(status)
		ops = append(ops, fmt.Sprintf("seq=%d network status := available; tick x8", seq))
		for j := 0; j < 8; j++ {
			tick()
		}
		sweep()
		sweep()
		if err := b.Close(); err != nil {
			t.Fatalf("close: %v", err)
		}
		run.Stat("blocklist_callbacks", int64(callbacks))

		var keys []string
		for s := range situ {
			keys = append(keys, s)
		}
		sort.Strings(keys)
		c.End(strings.Join(keys, ","), blockedAny && sparedAny)
		if k < 2 {
			run.Sample(map[string]interface{}{"kind": "sequential history", "flag_timeout": timeout.String(), "ops": ops})
		}
	}
}

// ---------------------------------------------------------------------------------------
// safety monitor shared by the concurrent and the real-ticker workloads

type pstate struct {
	mu       sync.Mutex
	name     string
	flagged  bool   // the owner announced a Flag call and has not completed a clearing call since
	base     uint64 // lower bound of the sequence value the current flag period can have started at
	cleared  string // never | unflag | prune
	onlyDown bool   // every Flag call of this period was made while the network was unavailable
	blocks   int
	inEpoch  int
}

type safety struct {
	c       *obs.Case
	run     *obs.Run
	res     time.Duration
	timeout time.Duration
	b       atomic.Value // *blocker.Blocker
	peers   map[string]*pstate
	blocks  atomic.Int64
	info    func() map[string]interface{}
}

func (s *safety) witness(ps *pstate, seq uint64) map[string]interface{} {
	m := map[string]interface{}{"peer": ps.name, "sequence_at_blocklisting": seq, "period_base": ps.base,
		"flag_timeout": s.timeout.String(), "resolution": s.res.String(), "blocklistings_of_peer_so_far": ps.blocks}
	if s.info != nil {
		for k, v := range s.info() {
			m[k] = v
		}
	}
	return m
}

// onBlock is called from inside Blocklister.Blocklist, i.e. while block() holds the
// Blocker's mutex.
func (s *safety) onBlock(addr boson.Address, _ time.Duration) {
	seq := s.b.Load().(*blocker.Blocker).VerifSeq() // read after block()'s own comparison: >= the value it used
	s.blocks.Add(1)
	ps := s.peers[addr.ByteString()]
	if ps == nil {
		s.c.Viol("blocked-unknown-address", "Blocklist called for an address never handed to the blocker", nil)
		return
	}
	ps.mu.Lock()
	defer ps.mu.Unlock()
	switch {
	case !ps.flagged && ps.cleared == "never":
		s.c.Viol("blocked-never-flagged", ps.name+" blocklisted although no Flag call for it was ever started", s.witness(ps, seq))
	case !ps.flagged:
		s.c.Viol("blocked-after-"+ps.cleared, fmt.Sprintf("%s blocklisted although its last %s had returned and no Flag was started since", ps.name, ps.cleared), s.witness(ps, seq))
	case ps.onlyDown:
		s.c.Viol("blocked-peer-flagged-only-while-network-unavailable", ps.name+" blocklisted although it was only flagged while the network was unavailable", s.witness(ps, seq))
	case !(time.Duration(seq-ps.base)*s.res > s.timeout):
		key := "blocked-before-flag-timeout"
		if ps.inEpoch > 0 {
			key = "blocked-twice-in-one-flag-period"
		}
		s.c.Viol(key, fmt.Sprintf("%s blocklisted at sequence %d; its flag period cannot have started before sequence %d; timeout %s", ps.name, seq, ps.base, s.timeout), s.witness(ps, seq))
	}
	ps.base = seq // a later blocklisting needs a new flag period, which cannot start earlier
	ps.blocks++
	ps.inEpoch++
	s.run.StatMax("max/blocklistings_in_one_owner_epoch", int64(ps.inEpoch))
}

// flag announces and performs a Flag call by the owner of the peer.
func (s *safety) flag(b *blocker.Blocker, ps *pstate, addr boson.Address, netDown bool) {
	ps.mu.Lock()
	if !ps.flagged {
		ps.flagged, ps.base, ps.inEpoch, ps.onlyDown = true, b.VerifSeq(), 0, netDown
	} else if !netDown {
		ps.onlyDown = false
	}
	ps.mu.Unlock()
	b.Flag(addr)
}

func (s *safety) cleared(ps *pstate, how string) {
	ps.mu.Lock()
	ps.flagged, ps.cleared = false, how
	ps.mu.Unlock()
}

func TestConcurrentSafety(t *testing.T) {
	run := obs.Start(t, "C26")
	defer run.Done()
	run.Rule("per case: 4 owner goroutines (2 peers each: Flag / Unflag in program order), 1 pruner (2 victim peers: Flag, then PruneUnseen(all other peers)), 2 tickers (VerifTick), 1 network flipper, 2 sweepers (VerifSweep), all concurrent under the race detector; flag timeout 2-3 ticks; distinct = (timeout, blocklistings bucket, after-reflag blocklisting seen); non-trivial = at least one blocklisting happened while owners were running",
		"safety half only: a Blocklist call for p is a violation if p's owner had completed Unflag/Prune and not started a new Flag, or if the sequence read inside the call is not more than the timeout above the sequence read before the period's first Flag call (resp. the previous blocklisting)")
	const res = time.Hour
	setResolution(t, res)
	n := run.N(150, 1500)
	for k := 0; k < n; k++ {
		c := run.Begin(fmt.Sprintf("conc/%d", k), nil)
		if c == nil {
			continue
		}
		rng := c.Rand()
		timeout := time.Duration(2+rng.Intn(2)) * res
		stub := &stubBL{}
		stub.set(p2p.NetworkStatusAvailable)
		sf := &safety{c: c, run: run, res: res, timeout: timeout, peers: map[string]*pstate{}}
		stub.onBlock = sf.onBlock
		b := blocker.New(stub, timeout, time.Minute, res, nil, logger)
		sf.b.Store(b)

		const owners = 4
		all := mkPeers(rng, owners*2+2)
		for i, p := range all {
			sf.peers[p.ByteString()] = &pstate{name: fmt.Sprintf("peer%d", i), cleared: "never"}
		}
		victims := all[owners*2:]
		others := all[:owners*2]
		iters := 60 + rng.Intn(60)
		seeds := make([]int64, owners+6)
		for i := range seeds {
			seeds[i] = rng.Int63()
		}

		var wg sync.WaitGroup
		var ownersDone atomic.Int32
		start := make(chan struct{})
		goN := func(f func()) {
			wg.Add(1)
			go func() { defer wg.Done(); <-start; f() }()
		}
		for o := 0; o < owners; o++ {
			o := o
			goN(func() {
				defer ownersDone.Add(1)
				r := newRand(seeds[o])
				mine := others[o*2 : o*2+2]
				for it := 0; it < iters; it++ {
					p := mine[r.Intn(2)]
					ps := sf.peers[p.ByteString()]
					if r.Intn(3) > 0 {
						sf.flag(b, ps, p, false)
					} else {
						b.Unflag(p)
						sf.cleared(ps, "unflag")
					}
					if r.Intn(2) == 0 {
						runtime.Gosched()
					}
				}
			})
		}
		goN(func() { // pruner
			defer ownersDone.Add(1)
			r := newRand(seeds[owners])
			for it := 0; it < iters/2; it++ {
				v := victims[r.Intn(2)]
				sf.flag(b, sf.peers[v.ByteString()], v, false)
				for y := r.Intn(4); y > 0; y-- {
					runtime.Gosched()
				}
				seen := append([]boson.Address(nil), others...)
				keepOther := r.Intn(2) == 0
				if keepOther {
					for _, w := range victims {
						if !w.Equal(v) {
							seen = append(seen, w)
						}
					}
				}
				b.PruneUnseen(seen)
				sf.cleared(sf.peers[v.ByteString()], "prune")
				if !keepOther {
					for _, w := range victims {
						sf.cleared(sf.peers[w.ByteString()], "prune")
					}
				}
			}
		})
		for tk := 0; tk < 2; tk++ {
			tk := tk
			goN(func() {
				r := newRand(seeds[owners+1+tk])
				for ownersDone.Load() < owners+1 {
					b.VerifTick()
					for y := r.Intn(6); y > 0; y-- {
						runtime.Gosched()
					}
				}
			})
		}
		goN(func() { // network flipper: mostly available
			r := newRand(seeds[owners+3])
			for ownersDone.Load() < owners+1 {
				if r.Intn(5) == 0 {
					stub.set(p2p.NetworkStatusUnavailable)
				} else {
					stub.set(p2p.NetworkStatusAvailable)
				}
				for y := 2 + r.Intn(20); y > 0; y-- {
					runtime.Gosched()
				}
			}
			stub.set(p2p.NetworkStatusAvailable)
		})
		for sw := 0; sw < 2; sw++ {
			sw := sw
			goN(func() {
				r := newRand(seeds[owners+4+sw])
				for ownersDone.Load() < owners+1 {
					b.VerifSweep()
					for y := r.Intn(10); y > 0; y-- {
						runtime.Gosched()
					}
				}
			})
		}
		close(start)
		done := make(chan struct{})
		go func() { wg.Wait(); close(done) }()
		select {
		case <-done:
		case <-time.After(120 * time.Second):
			t.Fatalf("case %s did not finish within 120 s", c.ID())
		}
		during := sf.blocks.Load()
		// quiescent tail: everything still flagged becomes due and is blocked at most once
		for j := 0; j < 6; j++ {
			b.VerifTick()
		}
		b.VerifSweep()
		b.VerifSweep()
		if err := b.Close(); err != nil {
			t.Fatalf("close: %v", err)
		}
		reflag := false
		for _, ps := range sf.peers {
			if ps.inEpoch > 1 {
				reflag = true
			}
		}
		run.Stat("concurrent_blocklistings", during)
		run.Stat("concurrent_final_sequence", int64(b.VerifSeq()))
		bucket := "0"
		switch {
		case during >= 20:
			bucket = "20+"
		case during >= 5:
			bucket = "5-19"
		case during >= 1:
			bucket = "1-4"
		}
		c.End(fmt.Sprintf("timeout=%s/blocks=%s/reflag=%v", timeout, bucket, reflag), during > 0)
	}
}

// ---------------------------------------------------------------------------------------
// real tickers

func TestRealTickers(t *testing.T) {
	run := obs.Start(t, "C26")
	defer run.Done()
	run.Rule("per case a Blocker with resolution 1 ms, flag timeout 3-5 ms, wake-up 1-2 ms and its real sequencer and wake-up goroutines; scenario: flag A (stays flagged), flag+unflag B, flag+prune C while available; wait until A is blocklisted; flag E; network unavailable; flag D; ~25 ms; network available; ~10 ms; Close; distinct = (timeout, whether E was blocklisted, uncounted-tick bucket); non-trivial = the sequencer was refused at least 5 ticks while the network was unavailable and A was blocklisted",
		"no timing assumption in the oracle: sequence <= number of 'available' answers given to the sequencer (== after Close), safety bounds as in TestConcurrentSafety; waiting for A uses a 20 s timeout whose expiry makes the run inconclusive")
	const res = time.Millisecond
	setResolution(t, res)
	n := run.N(40, 400)
	for k := 0; k < n; k++ {
		c := run.Begin(fmt.Sprintf("real/%d", k), nil)
		if c == nil {
			continue
		}
		rng := c.Rand()
		timeout := time.Duration(3+rng.Intn(3)) * res
		wake := time.Duration(1+rng.Intn(2)) * res
		stub := &stubBL{attribute: true}
		stub.set(p2p.NetworkStatusAvailable)
		sf := &safety{c: c, run: run, res: res, timeout: timeout, peers: map[string]*pstate{}}
		stub.onBlock = sf.onBlock
		ps := mkPeers(rng, 5)
		names := []string{"A", "B", "C", "D", "E"}
		for i, p := range ps {
			sf.peers[p.ByteString()] = &pstate{name: names[i], cleared: "never"}
		}
		A, B, C, D, E := ps[0], ps[1], ps[2], ps[3], ps[4]
		st := func(a boson.Address) *pstate { return sf.peers[a.ByteString()] }
		var callbacks atomic.Int64
		sf.info = func() map[string]interface{} {
			return map[string]interface{}{"available_answers_to_sequencer": stub.tickAvail.Load(), "refused_ticks": stub.tickUnavail.Load()}
		}
		b := blocker.New(stub, timeout, time.Minute, wake, func(boson.Address) { callbacks.Add(1) }, logger)
		sf.b.Store(b)
		checkSeq := func(when string) {
			seq := b.VerifSeq() // read the sequence first: every increment is preceded by its answer
			avail := stub.tickAvail.Load()
			if int64(seq) > avail {
				c.Viol("sequence-advanced-while-network-not-available", fmt.Sprintf("%s: sequence %d exceeds the %d 'available' answers given to the sequencer", when, seq, avail),
					map[string]interface{}{"sequence": seq, "available_answers": avail, "unavailable_answers": stub.tickUnavail.Load()})
			}
		}

		sf.flag(b, st(A), A, false)
		sf.flag(b, st(B), B, false)
		b.Unflag(B)
		sf.cleared(st(B), "unflag")
		sf.flag(b, st(C), C, false)
		b.PruneUnseen([]boson.Address{A, B, E})
		sf.cleared(st(C), "prune")

		deadline := time.Now().Add(20 * time.Second)
		for {
			st(A).mu.Lock()
			nb := st(A).blocks
			st(A).mu.Unlock()
			if nb > 0 {
				break
			}
			if time.Now().After(deadline) {
				t.Fatalf("%s: A was not blocklisted within 20 s (sequence %d)", c.ID(), b.VerifSeq())
			}
			time.Sleep(200 * time.Microsecond)
		}
		run.Stat("real_ticker_blocklistings_of_flagged_peer", 1)
		checkSeq("after A was blocklisted")

		sf.flag(b, st(E), E, false)
		stub.set(p2p.NetworkStatusUnavailable)
		sf.flag(b, st(D), D, true)
		refused0 := stub.tickUnavail.Load()
		time.Sleep(25 * time.Millisecond)
		checkSeq("end of the unavailable phase")
		refused := stub.tickUnavail.Load() - refused0
		sf.flag(b, st(D), D, true)
		stub.set(p2p.NetworkStatusAvailable)
		time.Sleep(10 * time.Millisecond)
		checkSeq("end of the second available phase")
		if err := b.Close(); err != nil {
			t.Fatalf("close: %v", err)
		}
		seq, avail := b.VerifSeq(), stub.tickAvail.Load()
		switch {
		case int64(seq) > avail:
			c.Viol("sequence-advanced-while-network-not-available", fmt.Sprintf("after Close: sequence %d exceeds the %d 'available' answers given to the sequencer", seq, avail), nil)
		case int64(seq) < avail:
			c.Viol("sequence-not-advanced-while-network-available", fmt.Sprintf("after Close: sequence %d but the sequencer was told 'available' %d times", seq, avail), nil)
		}
		st(E).mu.Lock()
		eBlocked := st(E).blocks > 0
		st(E).mu.Unlock()
		run.Stat("real_ticks_counted", int64(seq))
		run.Stat("real_ticks_refused_while_unavailable", refused)
		run.Stat("real_blocklist_calls", sf.blocks.Load())
		run.Stat("real_callbacks", callbacks.Load())
		bucket := "<5"
		switch {
		case refused >= 20:
			bucket = "20+"
		case refused >= 5:
			bucket = "5-19"
		}
		c.End(fmt.Sprintf("timeout=%s/wake=%s/E-blocked=%v/refused=%s", timeout, wake, eBlocked, bucket), refused >= 5)
	}
}
