package c05

import (
	"bytes"
	"fmt"
	"testing"

	"github.com/gauss-project/aurorafs/pkg/cac"
	"github.com/gauss-project/aurorafs/pkg/soc"

	"verif/harness/internal/obs"
	"verif/harness/internal/spec"
)

// TestObjectReuse drives sequences of operations on the same SOC object: the statement
// binds every signed chunk to the key that signed it, whatever was done with the object
// before (signed with another key, serialised, parsed back and signed again).
func TestObjectReuse(t *testing.T) {
	run := obs.Start(t, "C05")
	defer run.Done()
	run.Rule("sequences of 2..5 operations on ONE soc object: Sign(key_i) with 1..3 different keys in random order, Chunk(), FromChunk round trip and re-sign of the parsed object; after every Sign the produced chunk must be valid, its address keccak256(id || owner of THAT key) and FromChunk must return that owner; distinct = sequence of (op, key index)")
	n := run.N(150, 1500)
	for i := 0; i < n; i++ {
		c := run.Begin(fmt.Sprintf("reuse/%d", i), nil)
		if c == nil {
			continue
		}
		rng := c.Rand()
		keys := []*key{newKey(t, rng), newKey(t, rng), newKey(t, rng)}
		id := make([]byte, 32)
		if rng.Intn(3) > 0 {
			rng.Read(id)
		}
		payload := make([]byte, 1+rng.Intn(300))
		rng.Read(payload)
		ch, err := cac.New(payload)
		if err != nil {
			t.Fatal(err)
		}
		obj := soc.New(id, ch)
		var seq []string
		nops := 2 + rng.Intn(4)
		for k := 0; k < nops; k++ {
			ki := rng.Intn(len(keys))
			if k == 1 && rng.Intn(2) == 0 {
				ki = (ki + 1) % len(keys) // make sure a second, different key comes early
			}
			seq = append(seq, fmt.Sprintf("sign(k%d)", ki))
			w := map[string]interface{}{"sequence": append([]string(nil), seq...), "id": fmt.Sprintf("%x", id), "payload_len": len(payload)}
			sch, err := obj.Sign(keys[ki].signer)
			if err != nil {
				c.Viol("resign-failed", err.Error(), w)
				break
			}
			run.Stat("signs_on_reused_object", 1)
			want := spec.SOCAddress(id, keys[ki].owner)
			if !bytes.Equal(sch.Address().Bytes(), want) {
				c.Viol("resigned-address-not-keccak-id-owner-of-signing-key", fmt.Sprintf("address %x, keccak256(id||owner of the signing key) = %x", sch.Address().Bytes(), want), w)
			}
			if ok, p := callValid(sch.Address().Bytes(), sch.Data()); p != nil || !ok {
				c.Viol("resigned-chunk-not-valid", fmt.Sprintf("soc.Valid=%v panic=%v for a chunk just produced by Sign on a reused object", ok, p), w)
			}
			if !spec.ValidSOC(sch.Address().Bytes(), sch.Data()) {
				c.Viol("resigned-chunk-signature-does-not-bind-owner", "the independent recovery does not find the owner the address commits to", w)
			}
			parsed, err := soc.FromChunk(sch)
			if err != nil {
				c.Viol("fromchunk-fails-on-resigned-chunk", err.Error(), w)
				continue
			}
			// id and owner of the parsed object are visible through its re-serialisation:
			// Chunk() derives the address from them
			if pc, err := parsed.Chunk(); err != nil || !bytes.Equal(pc.Address().Bytes(), want) || !bytes.Equal(parsed.WrappedChunk().Data(), ch.Data()) {
				c.Viol("fromchunk-roundtrip-differs-after-resign", fmt.Sprintf("parsed object re-serialises to another address / wrapped chunk (err %v)", err), w)
			}
			// sometimes continue on the parsed object
			if rng.Intn(3) == 0 {
				seq = append(seq, "continue-on-parsed")
				obj = parsed
				if pc, err := parsed.Chunk(); err != nil || !bytes.Equal(pc.Address().Bytes(), sch.Address().Bytes()) || !bytes.Equal(pc.Data(), sch.Data()) {
					c.Viol("parsed-object-serialises-differently", fmt.Sprintf("Chunk() of the parsed object differs from the chunk it was parsed from (err %v)", err), w)
				}
			}
		}
		c.End(fmt.Sprint(seq), true)
		if i < 2 {
			run.Sample(map[string]interface{}{"sequence": seq})
		}
	}
}
