package c05

import (
	"bytes"
	"fmt"
	"math/rand"
	"testing"

	gethcrypto "github.com/ethereum/go-ethereum/crypto"
	"github.com/gauss-project/aurorafs/pkg/boson"
	"github.com/gauss-project/aurorafs/pkg/cac"
	"github.com/gauss-project/aurorafs/pkg/crypto"
	"github.com/gauss-project/aurorafs/pkg/soc"
	"verif/harness/internal/obs"
	"verif/harness/internal/spec"
)

const cs = spec.ChunkSize

// ---------------------------------------------------------------------------------
// real code under recover

func callValid(addr, data []byte) (ok bool, panicked interface{}) {
	defer func() {
		if r := recover(); r != nil {
			panicked = r
		}
	}()
	return soc.Valid(boson.NewChunk(boson.NewAddress(addr), data)), nil
}

// ---------------------------------------------------------------------------------
// a key: the repo derives the owner with btcec; the oracle with go-ethereum

type key struct {
	priv   []byte
	signer crypto.Signer
	owner  []byte // by go-ethereum: PubkeyToAddress(ToECDSA(priv))
}

func newKey(t *testing.T, rng *rand.Rand) *key {
	for {
		b := make([]byte, 32)
		rng.Read(b)
		gk, err := gethcrypto.ToECDSA(b) // rejects 0 and >= N
		if err != nil {
			continue
		}
		k := &key{priv: b, owner: gethcrypto.PubkeyToAddress(gk.PublicKey).Bytes()}
		k.signer = crypto.NewDefaultSigner(crypto.Secp256k1PrivateKeyFromBytes(b))
		return k
	}
}

// ---------------------------------------------------------------------------------

type signed struct {
	k       *key
	id      []byte
	idKind  string
	wrapped boson.Chunk
	addr    []byte
	data    []byte
	plClass string
	witness map[string]interface{}
}

func payloadClass(n int) string {
	switch {
	case n == 0:
		return "data=0"
	case n == 1:
		return "data=1"
	case n == 32:
		return "data=32"
	case n == 4096:
		return "data=4Ki"
	case n == cs:
		return "data=CS"
	case n < 4096:
		return "data<4Ki"
	}
	return "data>4Ki"
}

// signChunk creates a single-owner chunk with the real code and checks the clauses about
// freshly signed chunks. ok=false when nothing usable was produced.
func signChunk(c *obs.Case, run *obs.Run, k *key, id []byte, idKind string, payload []byte) (*signed, bool) {
	w := map[string]interface{}{"key_hex": fmt.Sprintf("%x", k.priv), "id": fmt.Sprintf("%x", id), "payload_len": len(payload), "payload": obs.Hex(payload)}
	var ch boson.Chunk
	var err error
	if len(payload) == 0 {
		ch, err = cac.NewWithDataSpan(spec.Span(0))
	} else {
		ch, err = cac.New(payload)
	}
	if err != nil {
		c.Viol("wrapped-chunk-creation-failed", err.Error(), w)
		return nil, false
	}
	sch, err := soc.New(id, ch).Sign(k.signer)
	if err != nil {
		c.Viol("sign-failed", fmt.Sprintf("Sign returned %v", err), w)
		return nil, false
	}
	run.Stat("signed_chunks", 1)
	s := &signed{k: k, id: id, idKind: idKind, wrapped: ch, addr: sch.Address().Bytes(), data: sch.Data(), plClass: payloadClass(len(payload)), witness: w}
	w["soc_address"] = fmt.Sprintf("%x", s.addr)
	w["owner_by_go_ethereum"] = fmt.Sprintf("%x", k.owner)
	if len(s.data) >= 97 {
		w["signature"] = fmt.Sprintf("%x", s.data[32:97])
	}

	// address is keccak256(id || owner), owner = the key's Ethereum address
	wantAddr := spec.SOCAddress(id, k.owner)
	if !bytes.Equal(s.addr, wantAddr) {
		c.Viol("signed-address-not-keccak-id-owner", fmt.Sprintf("address %x, keccak256(id||owner) = %x", s.addr, wantAddr), w)
	}
	if a, err := soc.CreateAddress(id, k.owner); err != nil || !bytes.Equal(a.Bytes(), wantAddr) {
		c.Viol("createaddress-not-keccak-id-owner", fmt.Sprintf("CreateAddress = %v (err %v), keccak256(id||owner) = %x", a, err, wantAddr), w)
	}
	// serialised form: id || 65-byte signature || wrapped payload
	if len(s.data) != 97+len(ch.Data()) || !bytes.Equal(s.data[:32], id) || !bytes.Equal(s.data[97:], ch.Data()) {
		c.Viol("signed-chunk-layout", "chunk data is not id || signature(65) || wrapped payload", w)
		return nil, false
	}
	// valid
	got, p := callValid(s.addr, s.data)
	if p != nil {
		c.Viol("panic-valid/unmutated", fmt.Sprint(p), w)
	} else if !got {
		c.Viol("signed-chunk-not-valid", "soc.Valid rejected a chunk just produced by Sign", w)
	}
	if !spec.ValidSOC(s.addr, s.data) {
		// the independent recovery does not find the owner the address commits to
		c.Viol("signed-chunk-signature-does-not-bind-owner", "go-ethereum recovery over keccak256(id||wrapped address) does not yield the owner of the address", w)
	}
	// parses back to the same id, owner and wrapped chunk
	func() {
		defer func() {
			if r := recover(); r != nil {
				c.Viol("panic-fromchunk/unmutated", fmt.Sprint(r), w)
			}
		}()
		back, err := soc.FromChunk(boson.NewChunk(boson.NewAddress(s.addr), s.data))
		if err != nil {
			c.Viol("fromchunk-fails-on-signed-chunk", err.Error(), w)
			return
		}
		wc := back.WrappedChunk()
		if wc == nil || !bytes.Equal(wc.Address().Bytes(), ch.Address().Bytes()) || !bytes.Equal(wc.Data(), ch.Data()) {
			c.Viol("fromchunk-wrapped-chunk-differs", "FromChunk(...).WrappedChunk() is not the chunk that was wrapped", w)
		}
		// id and owner are observable through Chunk(): data starts with the id, address = keccak(id || owner)
		rc, err := back.Chunk()
		if err != nil {
			c.Viol("fromchunk-rebuild-fails", err.Error(), w)
			return
		}
		if !bytes.Equal(rc.Data(), s.data) {
			c.Viol("fromchunk-id-or-signature-differs", "FromChunk(...).Chunk() does not serialise to the same id || signature || payload", w)
		}
		if !bytes.Equal(rc.Address().Bytes(), wantAddr) {
			c.Viol("fromchunk-owner-differs", fmt.Sprintf("FromChunk(...).Chunk() address %x, keccak256(id||key's Ethereum address) = %x", rc.Address().Bytes(), wantAddr), w)
		}
		run.Stat("parsed_back", 1)
	}()
	return s, true
}

func regionOf(pos int) string {
	switch {
	case pos < 32:
		return "id"
	case pos < 64:
		return "sig-r"
	case pos < 96:
		return "sig-s"
	case pos == 96:
		return "sig-v"
	case pos < 105:
		return "span"
	}
	return "payload"
}

// offer judges one altered (address, data) pair derived from the signed chunk s.
func offer(c *obs.Case, run *obs.Run, s *signed, region string, addr, data []byte, detail map[string]interface{}) {
	got, p := callValid(addr, data)
	want := spec.ValidSOC(addr, data)
	w := map[string]interface{}{"base": s.witness, "altered": region, "addr": fmt.Sprintf("%x", addr), "data_head": obs.Hex(data), "data_len": len(data)}
	for k, v := range detail {
		w[k] = v
	}
	run.Stat("altered_chunks_offered", 1)
	switch {
	case p != nil:
		c.Viol("panic-valid/"+region, fmt.Sprintf("soc.Valid panicked: %v", p), w)
	case got && !want:
		c.Viol("valid-accepts-unbound-chunk/"+region, "soc.Valid accepted a chunk whose signature (recovered with go-ethereum) does not yield the owner its address commits to", w)
	case got && want:
		// accepted although altered: only an encoding alias of the same signature value may do that
		if region == "sig-v" && len(data) >= 97 && spec.SameSignatureValue(s.data[32:97], data[32:97]) {
			run.Stat("sig_encoding_aliases", 1)
		} else if bytes.Equal(addr, s.addr) && zeroPaddingAlias(s.data, data) {
			// the BMT hash is DEFINED over the zero-padded data, so trailing zero bytes of the wrapped
			// data do not take part in the wrapped address: same id, signature, span and same padded
			// content. Not an alteration of anything the address or signature commits to.
			run.Stat("zero_padding_aliases", 1)
		} else {
			c.Viol("altered-chunk-still-valid/"+region, "altering the chunk left it valid (and it is not the compressed-flag encoding alias of the same signature)", w)
		}
	case !got && want:
		run.Stat("spec_valid_but_rejected", 1) // "only if": not required to be accepted
	default:
		run.Stat("altered_chunks_rejected", 1)
	}
}

// zeroPaddingAlias: equal id || signature || span, and wrapped data equal up to trailing zero bytes.
func zeroPaddingAlias(a, b []byte) bool {
	if len(a) < 105 || len(b) < 105 || !bytes.Equal(a[:105], b[:105]) {
		return false
	}
	x, y := a[105:], b[105:]
	if len(x) > len(y) {
		x, y = y, x
	}
	if !bytes.Equal(x, y[:len(x)]) {
		return false
	}
	for _, v := range y[len(x):] {
		if v != 0 {
			return false
		}
	}
	return true
}

func mutateChunk(c *obs.Case, run *obs.Run, rng *rand.Rand, s *signed, headPositions []int, masksPerPos int, allV bool, payloadSamples int) {
	shape := func(r string) { run.Tally(fmt.Sprintf("%s/id=%s/%s", s.plClass, s.idKind, r), true) }
	for _, pos := range headPositions {
		for k := 0; k < masksPerPos; k++ {
			m := byte(1 + rng.Intn(255))
			d := append([]byte(nil), s.data...)
			d[pos] ^= m
			offer(c, run, s, regionOf(pos), s.addr, d, map[string]interface{}{"position": pos, "xor": m})
			shape(fmt.Sprintf("%s[%d]", regionOf(pos), pos))
		}
	}
	if allV { // every other value of the header byte, so the encoding alias is certainly met
		for m := 1; m < 256; m++ {
			d := append([]byte(nil), s.data...)
			d[96] ^= byte(m)
			offer(c, run, s, "sig-v", s.addr, d, map[string]interface{}{"position": 96, "xor": m, "v": d[96]})
		}
		shape("sig-v[all values]")
	}
	for k := 0; k < payloadSamples && len(s.data) > 105; k++ {
		pos := 105 + rng.Intn(len(s.data)-105)
		if k == 0 {
			pos = len(s.data) - 1
		}
		m := byte(1 + rng.Intn(255))
		d := append([]byte(nil), s.data...)
		d[pos] ^= m
		offer(c, run, s, "payload", s.addr, d, map[string]interface{}{"position": pos, "xor": m})
		shape("payload")
	}
	for pos := 0; pos < 32; pos++ {
		if masksPerPos == 0 && pos%8 != 0 {
			continue
		}
		m := byte(1 + rng.Intn(255))
		a := append([]byte(nil), s.addr...)
		a[pos] ^= m
		offer(c, run, s, "address", a, s.data, map[string]interface{}{"position": pos, "xor": m})
		shape(fmt.Sprintf("address[%d]", pos))
	}
}

func ids(rng *rand.Rand) ([][]byte, []string) {
	r := make([]byte, 32)
	rng.Read(r)
	return [][]byte{make([]byte, 32), r}, []string{"zero", "random"}
}

// ---------------------------------------------------------------------------------

func smallShard(t *testing.T, which, of int) {
	run := obs.Start(t, "C05")
	defer run.Done()
	run.Rule("keys (random secp256k1 scalars) x ids {zero, random} x wrapped data {0 B, 1 B, 32 B, random < 4 KiB, 4 KiB}: chunk made by the real soc.New(..).Sign; then EVERY byte of id || signature || span XORed with a random mask, the header byte v with all 255 other values, sampled payload bytes, every address byte; each altered (address, data) is offered to soc.Valid and to the independent oracle; distinct = (payload class, id kind, altered byte)",
		"the signed digest is the EIP-191 'Ethereum Signed Message' hash of keccak256(id || wrapped address), as crypto.Signer.Sign documents",
		"v and v+4 (btcec compressed-key flag) encode the same signature value; counted as sig_encoding_aliases, not reported",
		"trailing zero bytes appended to the wrapped data leave the zero-padded BMT content, hence the wrapped address, unchanged by definition; counted as zero_padding_aliases, not reported")
	nkeys := run.N(12, 90)
	for ki := which; ki < nkeys; ki += of {
		c := run.Begin(fmt.Sprintf("key/%d", ki), map[string]interface{}{"key_index": ki})
		if c == nil {
			continue
		}
		rng := c.Rand()
		k := newKey(t, rng)
		run.Stat("keys_used", 1)
		idl, idk := ids(rng)
		sizes := []int{0, 1, 32, 2 + rng.Intn(4094), 4096}
		for ii, id := range idl {
			for _, n := range sizes {
				payload := make([]byte, n)
				rng.Read(payload)
				s, ok := signChunk(c, run, k, id, idk[ii], payload)
				if !ok {
					continue
				}
				head := make([]int, 105)
				for p := range head {
					head[p] = p
				}
				mutateChunk(c, run, rng, s, head, 1, true, 12)
			}
		}
		c.End(fmt.Sprintf("key=%d", ki), true)
	}
}

func TestSmallChunksA(t *testing.T) { smallShard(t, 0, 3) }
func TestSmallChunksB(t *testing.T) { smallShard(t, 1, 3) }
func TestSmallChunksC(t *testing.T) { smallShard(t, 2, 3) }

func TestFullSizeChunks(t *testing.T) {
	run := obs.Start(t, "C05")
	defer run.Done()
	run.Rule("wrapped data of exactly 256 KiB and CS-1, CS/2+1 bytes: signed by the real code, then sampled alterations (4 id bytes, 3 bytes each of r and s, v with 6 masks incl. the alias, 8 span bytes, 6 payload bytes incl. the last, 4 address bytes); distinct = (payload class, id kind, altered byte)")
	sizes := []int{cs, cs - 1, cs/2 + 1}
	for i := 0; i < run.N(4, 24); i++ {
		n := sizes[i%len(sizes)]
		c := run.Begin(fmt.Sprintf("full/%d/%d", i, n), map[string]interface{}{"data_len": n})
		if c == nil {
			continue
		}
		rng := c.Rand()
		k := newKey(t, rng)
		run.Stat("keys_used", 1)
		idl, idk := ids(rng)
		ii := i % 2
		payload := make([]byte, n)
		rng.Read(payload)
		s, ok := signChunk(c, run, k, idl[ii], idk[ii], payload)
		if ok {
			var head []int
			for j := 0; j < 4; j++ {
				head = append(head, rng.Intn(32))
			}
			for j := 0; j < 3; j++ {
				head = append(head, 32+rng.Intn(32), 64+rng.Intn(32))
			}
			for p := 97; p < 105; p++ {
				head = append(head, p)
			}
			mutateChunk(c, run, rng, s, head, 1, false, 6)
			// v: the alias and a few others
			for _, v2 := range []byte{s.data[96] + 4, s.data[96] ^ 1, 27 + (s.data[96]-27+1)%2, 0, 1, 255} {
				if v2 == s.data[96] {
					continue
				}
				d := append([]byte(nil), s.data...)
				d[96] = v2
				offer(c, run, s, "sig-v", s.addr, d, map[string]interface{}{"position": 96, "v": v2})
			}
			run.Tally(fmt.Sprintf("%s/id=%s/sig-v[selected]", s.plClass, s.idKind), true)
		}
		c.End(fmt.Sprintf("full/data=%d/id=%s", n, idk[ii]), true)
	}
}

// chunks that were never produced by Sign
func TestHostileChunks(t *testing.T) {
	run := obs.Start(t, "C05")
	defer run.Done()
	run.Rule("hand-made (address, data) pairs: data shorter than id+signature+span (every length 0..104) under the address of a real chunk; truncated and extended signed chunks; signature taken from another id / another key / another wrapped chunk; wrapped payload replaced by another valid content chunk; oversized wrapped payload (CS+1 data bytes) signed over the address the hasher gives it; all-zero and all-0xff signatures; the chunk of key A offered under the address of key B; distinct = kind of forgery (x length for the short ones)")
	n := run.N(6, 40)
	for i := 0; i < n; i++ {
		c := run.Begin(fmt.Sprintf("hostile/%d", i), nil)
		if c == nil {
			continue
		}
		rng := c.Rand()
		kA, kB := newKey(t, rng), newKey(t, rng)
		run.Stat("keys_used", 2)
		idl, idk := ids(rng)
		id := idl[i%2]
		id2 := make([]byte, 32)
		rng.Read(id2)
		payload := make([]byte, 1+rng.Intn(600))
		rng.Read(payload)
		payload2 := make([]byte, 1+rng.Intn(600))
		rng.Read(payload2)
		base, ok := signChunk(c, run, kA, id, idk[i%2], payload)
		if !ok {
			c.End("hostile/no-base", false)
			continue
		}
		otherID, ok1 := signChunk(c, run, kA, id2, "random", payload)
		otherKey, ok2 := signChunk(c, run, kB, id, idk[i%2], payload)
		otherPl, ok3 := signChunk(c, run, kA, id, idk[i%2], payload2)
		if !(ok1 && ok2 && ok3) {
			c.End("hostile/no-base", false)
			continue
		}
		give := func(kind string, addr, data []byte) {
			offer(c, run, base, kind, addr, data, map[string]interface{}{"offered_len": len(data)})
			run.Stat("hostile_cases", 1)
			if kind == "short-data" {
				run.Tally(fmt.Sprintf("hostile/short-data[%d]", len(data)), true)
			} else {
				run.Tally("hostile/"+kind, true)
			}
		}
		// short data
		for l := 0; l < 105; l++ {
			if !run.Thorough() && l%7 != i%7 && l != 104 && l != 0 {
				continue
			}
			give("short-data", base.addr, base.data[:l])
		}
		// truncated / extended
		for _, cut := range []int{1, 2, 8, 1 + rng.Intn(len(payload))} {
			if len(base.data)-cut >= 105 {
				give("truncated", base.addr, base.data[:len(base.data)-cut])
			}
		}
		give("extended-by-zero-byte", base.addr, append(append([]byte(nil), base.data...), 0))
		give("extended-by-random-byte", base.addr, append(append([]byte(nil), base.data...), byte(1+rng.Intn(255))))
		// foreign signatures
		swap := func(sigFrom *signed) []byte {
			d := append([]byte(nil), base.data...)
			copy(d[32:97], sigFrom.data[32:97])
			return d
		}
		give("signature-of-other-id", base.addr, swap(otherID))
		give("signature-of-other-key", base.addr, swap(otherKey))
		give("signature-of-other-payload", base.addr, swap(otherPl))
		give("chunk-of-key-B-under-address-of-key-A", base.addr, otherKey.data)
		give("chunk-of-other-id-under-this-address", base.addr, otherID.data)
		// wrapped payload replaced by another valid content-addressed payload
		d := append(append([]byte(nil), base.data[:97]...), otherPl.data[97:]...)
		give("wrapped-chunk-replaced", base.addr, d)
		// degenerate signatures
		for _, fill := range []byte{0x00, 0xff} {
			d := append([]byte(nil), base.data...)
			for p := 32; p < 97; p++ {
				d[p] = fill
			}
			give(fmt.Sprintf("signature-all-%02x", fill), base.addr, d)
			d2 := append([]byte(nil), d...)
			d2[96] = base.data[96]
			give(fmt.Sprintf("signature-rs-all-%02x", fill), base.addr, d2)
		}
		// r and s swapped
		d = append([]byte(nil), base.data...)
		copy(d[32:64], base.data[64:96])
		copy(d[64:96], base.data[32:64])
		give("signature-r-s-swapped", base.addr, d)
		// oversized wrapped payload: span || CS+1 bytes, signed over the address the BMT hasher
		// yields for it (it ignores what lies beyond its capacity)
		if i%3 == 0 {
			big := make([]byte, cs+1)
			rng.Read(big)
			wrapped := append(spec.Span(uint64(len(big))), big...)
			fake := boson.NewChunk(boson.NewAddress(spec.BMTFast(wrapped[:8], wrapped[8:], spec.Branches)), wrapped)
			if sch, err := soc.New(id, fake).Sign(kA.signer); err == nil {
				give("oversized-wrapped-payload", sch.Address().Bytes(), sch.Data())
			}
		}
		c.End(fmt.Sprintf("hostile/%d", i%2), true)
	}
}
