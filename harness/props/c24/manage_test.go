package c24

import (
	"context"
	"errors"
	"fmt"
	"sort"
	"sync/atomic"
	"testing"
	"time"

	"github.com/gauss-project/aurorafs/pkg/boson"
	"github.com/gauss-project/aurorafs/pkg/p2p"
	"github.com/gauss-project/aurorafs/pkg/topology"
	ma "github.com/multiformats/go-multiaddr"
	"verif/harness/internal/kadrig"
	"verif/harness/internal/obs"
	"verif/harness/internal/spec"
)

// checkpoint request: the manage loop parks inside the (pluggable) prune function, which
// it calls at the end of every pass after all its connection attempts have finished.
type cpReq struct {
	arrived chan struct{}
	release chan struct{}
}

// TestManageLoop runs the Kad with its manage loop: outbound connections are made by the
// topology itself through the scripted p2p.Connect while the harness delivers inbound
// connections and disconnections concurrently. The model learns about outbound
// connections from the p2p mock (a successful Connect is a live connection). The views
// are compared with the model only at checkpoints, when the manage loop is parked at the
// end of a pass and the harness is between events: nothing is in flight then, so the
// comparison is exact and involves no timing.
func TestManageLoop(t *testing.T) {
	run := obs.Start(t, "C24")
	defer run.Done()
	run.Rule("worlds with a STARTED Kad (manage loop dialing on its own): ~12 inbound-only peers driven by the harness (inbound with/without Pick, force, Disconnected, Reachable, protect lists) concurrently with ~16 gossiped peers the manage loop dials through a scripted p2p.Connect (full nodes, boot nodes, configured bootnodes, refused dials, generic failures); 60 events per world, a checkpoint every ~4 events; at a checkpoint the manage loop is parked at the end of a pass, outbound connections are closed / force-disconnected there, and EachPeer/EachPeerRev/Snapshot/known are compared with the model. distinct = (kinds of events, outbound connections made by the loop bucket)",
		"a successful p2p.Connect is a live connection from that moment; the topology must report it once the pass that made it is over",
		"harness events never concern a peer the manage loop may be dialing at that moment (inbound-only peers are refused by p2p.Connect; dialable peers are only touched while the loop is parked), so the model needs no assumption about the order of racing notifications",
		"waiting is only for the manage loop to finish a pass (bounded, 120 s, expiry = harness failure, never a verdict)")
	n := run.N(40, 400)
	st := map[string]int64{}
	for i := 0; i < n; i++ {
		c := run.Begin(fmt.Sprintf("loop/%d", i), nil)
		if c == nil {
			continue
		}
		rng := c.Rand()
		reqs := make(chan *cpReq, 1)
		var w *world
		prune := func(depth uint8) {
			w.count("manage_passes")
			select {
			case r := <-reqs:
				r.arrived <- struct{}{}
				<-r.release
			default:
			}
		}
		dialable := map[int]bool{}
		failing := map[int]bool{}
		// the world must exist before the Kad is started (the prune function refers to it), so
		// newWorld builds the rig unstarted (with its own stores) and the loop is started below.
		base := make([]byte, 32)
		rng.Read(base)
		cfgBoot := [][]byte{spec.AddrAt(rng, base, rng.Intn(3)), spec.AddrAt(rng, base, rng.Intn(3))}
		lst := map[string]int64{} // per world: callbacks of a Kad that failed to stop must not touch the shared map
		w = newWorld(t, rng, lst, false, kadrig.Options{Base: base, PruneFunc: prune, FreshStores: true,
			Bootnodes: []ma.Multiaddr{kadrig.UnderlayOf(cfgBoot[0]), kadrig.UnderlayOf(cfgBoot[1])}})
		var inPeers, outPeers []*tpeer
		for _, a := range cfgBoot {
			p := w.addPeerAddr(a, spec.Bin(base, a, 31, 32), true)
			dialable[p.idx] = true // the configured bootnodes always answer
		}
		for k := 0; k < 12; k++ {
			inPeers = append(inPeers, w.addPeer(rng, rng.Intn(4), false))
		}
		for k := 0; k < 12; k++ {
			outPeers = append(outPeers, w.addPeer(rng, rng.Intn(6), false))
		}
		for k := 0; k < 3; k++ {
			outPeers = append(outPeers, w.addPeer(rng, rng.Intn(4), true)) // remote boot nodes, gossiped like any peer
		}
		for _, p := range w.peers {
			w.register(p)
		}
		w.dial = func(q *tpeer) (*p2p.Peer, error) {
			w.mu.Lock()
			defer w.mu.Unlock()
			if !dialable[q.idx] {
				w.st["dials_refused"]++
				return nil, p2p.ErrPeerBlocklisted
			}
			if failing[q.idx] {
				w.st["dials_failed"]++
				return nil, errors.New("connection refused")
			}
			pr := kadrig.Peer(q.addr, mode(q))
			if q.boot {
				q.last = "outbound-boot"
				w.st["loop_outbound_to_boot_node"]++
				return &pr, nil
			}
			if w.live[q.idx] {
				return &pr, p2p.ErrAlreadyConnected
			}
			w.live[q.idx] = true
			q.last = "outbound"
			w.st["loop_outbound_to_full_node"]++
			return &pr, nil
		}
		w.rig.StartLoop(t)
		k := w.rig.Kad
		// Start() reads the addressbook in a goroutine of its own and adds every overlay to the
		// known peers when it is done; wait for that (the inbound-only peers cannot leave the
		// known set yet), otherwise a short world could close the store under that goroutine.
		for deadline := time.Now().Add(120 * time.Second); ; {
			known, _ := w.rig.Known()
			missing := 0
			for _, p := range inPeers {
				if _, ok := known[string(p.addr)]; !ok {
					missing++
				}
			}
			if missing == 0 {
				break
			}
			if time.Now().After(deadline) {
				t.Fatalf("harness: Kad.Start did not load the addressbook within 120 s")
			}
			time.Sleep(200 * time.Microsecond)
		}
		evs := map[string]bool{}
		isIn := map[int]bool{}
		for _, p := range inPeers {
			isIn[p.idx] = true
		}

		checkpoint := func(parkedEvents int) bool {
			r := &cpReq{arrived: make(chan struct{}, 1), release: make(chan struct{})}
			reqs <- r
			k.AddPeers() // wakes the manage loop
			select {
			case <-r.arrived:
			case <-time.After(120 * time.Second):
				t.Fatalf("harness: the manage loop did not finish a pass within 120 s")
			}
			ok := true
			report := func() {
				for _, f := range w.audit() {
					c.Viol(f.key, f.msg+" (at a checkpoint with the manage loop parked)", map[string]interface{}{"history": w.hist, "base": obs.Hex(w.base)})
					ok = false
				}
			}
			w.note("checkpoint")
			report()
			w.count("checkpoints")
			// events on dialable peers, only while nothing can be dialing them
			for e := 0; e < parkedEvents && ok; e++ {
				var cand []*tpeer
				w.mu.Lock()
				for _, p := range outPeers {
					if w.live[p.idx] {
						cand = append(cand, p)
					}
				}
				w.mu.Unlock()
				if len(cand) == 0 {
					break
				}
				p := cand[rng.Intn(len(cand))]
				if rng.Intn(3) == 0 {
					if err := k.DisconnectForce(boson.NewAddress(p.addr), "user requested disconnect"); err != nil {
						t.Fatalf("harness: DisconnectForce: %v", err)
					}
					p.last = "force-disconnect"
					w.register(p)
					w.note("parked: force-disconnect(p%d)", p.idx)
					evs["force-disconnect-outbound"] = true
					w.count("parked_forced_disconnects")
				} else {
					w.mu.Lock()
					delete(w.live, p.idx)
					w.mu.Unlock()
					k.Disconnected(kadrig.Peer(p.addr, mode(p)), "remote closed")
					p.last = "disconnect"
					w.note("parked: disconnect(p%d)", p.idx)
					evs["disconnect-outbound"] = true
					w.count("parked_disconnects")
				}
				if rng.Intn(2) == 0 {
					w.mu.Lock()
					dialable[p.idx] = false
					w.mu.Unlock()
				}
				report()
			}
			close(r.release)
			return ok
		}

		ok := checkpoint(0)
		for e := 0; e < 60 && ok; e++ {
			liveIn := func(p *tpeer) bool { w.mu.Lock(); defer w.mu.Unlock(); return isIn[p.idx] && w.live[p.idx] }
			deadIn := func(p *tpeer) bool { w.mu.Lock(); defer w.mu.Unlock(); return isIn[p.idx] && !w.live[p.idx] }
			switch r := rng.Intn(100); {
			case r < 30:
				p := w.pick(rng, deadIn)
				if p == nil {
					continue
				}
				force := rng.Intn(4) == 0
				admitted := true
				if rng.Intn(2) == 0 && !k.Pick(kadrig.Peer(p.addr, mode(p))) {
					admitted = false
				}
				if admitted {
					w.p2pUp(p) // libp2p registers the connection before it tells the topology
					err := k.Connected(context.Background(), kadrig.Peer(p.addr, mode(p)), force)
					if errors.Is(err, topology.ErrOversaturated) {
						admitted = false
						if w.isLive(p) {
							w.p2pDown(p)
							k.Disconnected(kadrig.Peer(p.addr, mode(p)), "unable to signal connection notifier")
						}
					} else if err != nil {
						t.Fatalf("harness: Connected: %v", err)
					}
				}
				if admitted {
					p.last = "inbound"
					if rng.Intn(10) < 8 {
						k.Reachable(boson.NewAddress(p.addr), p2p.ReachabilityStatusPublic)
					}
				} else {
					p.last = "inbound-rejected"
					w.count("loop_inbound_rejected")
				}
				w.note("inbound(p%d@bin%d force=%v) -> admitted=%v", p.idx, p.bin, force, admitted)
				w.count("loop_inbound_events")
				evs["inbound"] = true
			case r < 45:
				p := w.pick(rng, liveIn)
				if p == nil {
					continue
				}
				w.mu.Lock()
				delete(w.live, p.idx)
				w.mu.Unlock()
				k.Disconnected(kadrig.Peer(p.addr, mode(p)), "remote closed")
				p.last = "disconnect"
				w.note("disconnect(p%d)", p.idx)
				evs["disconnect-inbound"] = true
			case r < 75: // gossip about a dialable peer: the manage loop will connect to it
				p := outPeers[rng.Intn(len(outPeers))]
				w.mu.Lock()
				dialable[p.idx] = true
				failing[p.idx] = !p.boot && rng.Intn(8) == 0
				w.mu.Unlock()
				w.register(p) // a failed dial may have pruned the record
				k.AddPeers(boson.NewAddress(p.addr))
				w.note("gossip(p%d@bin%d boot=%v)", p.idx, p.bin, p.boot)
				evs["gossip"] = true
				if p.boot {
					evs["gossip-boot"] = true
				}
			case r < 85:
				p := w.pick(rng, liveIn)
				if p == nil {
					continue
				}
				if rng.Intn(2) == 0 {
					k.Reachable(boson.NewAddress(p.addr), p2p.ReachabilityStatusPrivate)
				} else {
					k.Reachable(boson.NewAddress(p.addr), p2p.ReachabilityStatusPublic)
				}
				evs["reach"] = true
			case r < 90:
				var list []boson.Address
				for _, p := range w.peers {
					if rng.Intn(6) == 0 {
						list = append(list, boson.NewAddress(p.addr))
					}
				}
				k.RefreshProtectPeer(list)
				evs["protect"] = true
			default:
				ok = checkpoint(rng.Intn(3))
			}
			if e%4 == 3 && ok {
				ok = checkpoint(rng.Intn(2))
			}
		}
		if ok {
			// final: let the loop run until a pass makes no new connection, then compare once more
			for j := 0; j < 50; j++ {
				w.mu.Lock()
				before := w.st["loop_outbound_to_full_node"] + w.st["loop_outbound_to_boot_node"]
				w.mu.Unlock()
				if !checkpoint(0) {
					break
				}
				w.mu.Lock()
				after := w.st["loop_outbound_to_full_node"] + w.st["loop_outbound_to_boot_node"]
				w.mu.Unlock()
				if after == before {
					break
				}
			}
		}
		w.mu.Lock()
		nout := 0
		for _, p := range outPeers {
			if w.live[p.idx] {
				nout++
			}
		}
		w.mu.Unlock()
		run.StatMax("max/outbound_connections_alive_at_end", int64(nout))
		if err := w.rig.Close(t); err != nil {
			w.count("kad_close_errors")
		}
		w.mu.Lock()
		for k, v := range lst {
			st[k] += v
		}
		w.mu.Unlock()
		st["gossip_messages"] += atomic.LoadInt64(&w.gossipMsgs)
		ks := make([]string, 0, len(evs))
		for e := range evs {
			ks = append(ks, e)
		}
		sort.Strings(ks)
		c.End(fmt.Sprintf("loop/%v/out=%d", ks, nout/3), evs["inbound"] && evs["gossip"])
		if i < 1 {
			run.Sample(map[string]interface{}{"kind": "manage-loop world", "first_events": w.hist[:minInt(12, len(w.hist))], "events": len(w.hist)})
		}
	}
	for k, v := range st {
		run.Stat(k, v)
	}
}
