package c24

import (
	"context"
	"errors"
	"fmt"
	"math/rand"
	"sort"
	"sync"
	"sync/atomic"
	"testing"

	"github.com/gauss-project/aurorafs/pkg/aurora"
	"github.com/gauss-project/aurorafs/pkg/boson"
	"github.com/gauss-project/aurorafs/pkg/p2p"
	"github.com/gauss-project/aurorafs/pkg/topology"
	ma "github.com/multiformats/go-multiaddr"
	"verif/harness/internal/kadrig"
	"verif/harness/internal/obs"
	"verif/harness/internal/spec"
)

const binMax = 5 // BinMaxPeers: oversaturation 5, saturation 2, quick-saturation 1

type tpeer struct {
	idx    int
	addr   []byte
	bin    int
	boot   bool   // this remote node is a boot node
	status string // last reported reachability: "" (never) | public | private
	last   string // last thing that happened to it (for classifying an extra peer)
}

// world = one real Kad, the model of the live connections, and what p2p does.
type world struct {
	t                       *testing.T
	mu                      sync.Mutex // guards the model (the manage-loop test touches it from mock callbacks)
	base                    []byte
	rig                     *kadrig.Rig
	peers                   []*tpeer
	byAddr                  map[string]*tpeer
	byUnder                 map[string]*tpeer
	live                    map[int]bool // connections the topology was told about / made itself and not since closed
	protect                 map[int]bool
	ownBoot                 bool
	over                    int
	dial                    func(p *tpeer) (*p2p.Peer, error) // what p2p.Connect answers (sequential test: set per event)
	st                      map[string]int64
	hist                    []string
	known                   map[string]int  // known set seen by the last audit
	noGossip                map[string]bool // peers to which gossip (discovery.BroadcastPeers) fails
	gossipMsgs, gossipFails int64
}

func (w *world) addPeer(rng *rand.Rand, bin int, boot bool) *tpeer {
	return w.addPeerAddr(spec.AddrAt(rng, w.base, bin), bin, boot)
}

func (w *world) addPeerAddr(addr []byte, bin int, boot bool) *tpeer {
	p := &tpeer{idx: len(w.peers), addr: addr, bin: bin, boot: boot}
	w.peers = append(w.peers, p)
	w.byAddr[string(p.addr)] = p
	return p
}

func newWorld(t *testing.T, rng *rand.Rand, st map[string]int64, ownBoot bool, opts kadrig.Options) *world {
	w := &world{t: t, base: make([]byte, 32), byAddr: map[string]*tpeer{}, byUnder: map[string]*tpeer{},
		live: map[int]bool{}, protect: map[int]bool{}, ownBoot: ownBoot, st: st}
	if opts.Base != nil {
		w.base = opts.Base
	} else {
		rng.Read(w.base)
	}
	_, _, w.over = kadrig.Thresholds(binMax)
	if ownBoot {
		w.over = 20 // a boot node never uses a maximum below 20
	}
	opts.Base = w.base
	opts.BinMaxPeers = binMax
	opts.BootNode = ownBoot
	opts.Connect = func(ctx context.Context, addr ma.Multiaddr) (*p2p.Peer, error) {
		w.mu.Lock()
		p := w.byUnder[addr.String()]
		d := w.dial
		w.mu.Unlock()
		w.count("p2p_connect_calls")
		if p == nil || d == nil {
			return nil, errors.New("harness: unexpected dial")
		}
		return d(p)
	}
	opts.Disconnect = func(overlay boson.Address, reason string) error {
		w.mu.Lock()
		defer w.mu.Unlock()
		w.st["p2p_disconnect_requests"]++
		p := w.byAddr[string(overlay.Bytes())]
		if p == nil || !w.live[p.idx] {
			return p2p.ErrPeerNotFound // as libp2p answers for a peer it has no connection to
		}
		delete(w.live, p.idx)
		p.last = "dropped-on-request:" + reason
		if len(reason) > 7 && reason[:7] == "kicking" {
			w.st["bootnode_kickouts"]++
		}
		return nil
	}
	w.noGossip = map[string]bool{}
	// (called from background goroutines of the topology: touches nothing but the two atomics and
	// the noGossip map, which is only written under the lock)
	opts.Broadcast = func(_ context.Context, addressee boson.Address, _ ...boson.Address) error {
		atomic.AddInt64(&w.gossipMsgs, 1)
		w.mu.Lock()
		fail := w.noGossip[string(addressee.Bytes())]
		w.mu.Unlock()
		if fail {
			atomic.AddInt64(&w.gossipFails, 1)
			return errors.New("stream reset")
		}
		return nil
	}
	w.rig = kadrig.New(t, opts)
	return w
}

// p2pUp / p2pDown: the p2p layer gained / lost a connection to the peer. The model of live
// connections is kept at that level: a full node is "connected" from the moment p2p has the
// connection (successful Connect, accepted inbound stream) until p2p closes it - because the
// remote side went away or because the topology asked for it (p2p.Disconnect).
func (w *world) p2pUp(p *tpeer) {
	w.mu.Lock()
	w.live[p.idx] = true
	w.mu.Unlock()
}

func (w *world) p2pDown(p *tpeer) {
	w.mu.Lock()
	delete(w.live, p.idx)
	w.mu.Unlock()
}

func (w *world) isLive(p *tpeer) bool {
	w.mu.Lock()
	defer w.mu.Unlock()
	return w.live[p.idx]
}

// dialOK is the answer of p2p.Connect for a node that accepts the connection.
func (w *world) dialOK(q *tpeer) (*p2p.Peer, error) {
	pr := kadrig.Peer(q.addr, mode(q))
	if !q.boot {
		w.p2pUp(q) // (a boot node is connected too, but the topology must never count it)
	}
	return &pr, nil
}

func (w *world) gossipFailsFor(p *tpeer) bool {
	w.mu.Lock()
	defer w.mu.Unlock()
	return w.noGossip[string(p.addr)]
}

func (w *world) count(k string) {
	w.mu.Lock()
	w.st[k]++
	w.mu.Unlock()
}

func (w *world) register(p *tpeer) {
	w.rig.PutAddress(w.t, p.addr)
	w.mu.Lock()
	w.byUnder[w.rig.Underlay(p.addr).String()] = p
	w.mu.Unlock()
}

func mode(p *tpeer) aurora.Model {
	if p.boot {
		return kadrig.BootMode()
	}
	return kadrig.FullMode()
}

func (w *world) eligibleInBin(bin int) int {
	n := 0
	for i := range w.live {
		if w.peers[i].bin == bin && w.peers[i].status == "public" {
			n++
		}
	}
	return n
}

// potentialDepth asks a second real Kad for the depth of the given known set under the
// given reachability (the project treats a bin at or beyond this "potential depth" as
// never saturated). The second Kad is fed status first, connection second, so its
// depth is freshly computed by the project's own depth function.
func (w *world) potentialDepth(known map[string]int, status map[string]string) int {
	sh := kadrig.New(w.t, kadrig.Options{Base: w.base, BinMaxPeers: binMax, BootNode: w.ownBoot})
	keys := make([]string, 0, len(known))
	for a := range known {
		keys = append(keys, a)
	}
	sort.Strings(keys)
	for _, a := range keys {
		switch status[a] {
		case "public":
			sh.Kad.Reachable(boson.NewAddress([]byte(a)), p2p.ReachabilityStatusPublic)
		case "private":
			sh.Kad.Reachable(boson.NewAddress([]byte(a)), p2p.ReachabilityStatusPrivate)
		}
		sh.Kad.Outbound(kadrig.Peer([]byte(a), kadrig.FullMode()))
	}
	return int(sh.Kad.NeighborhoodDepth())
}

func (w *world) statuses() map[string]string {
	m := map[string]string{}
	for _, p := range w.peers {
		if p.status != "" {
			m[string(p.addr)] = p.status
		}
	}
	return m
}

type failure struct{ key, msg string }

// audit compares what the topology reports with the model of live connections.
func (w *world) audit() []failure {
	var f []failure
	w.mu.Lock()
	live := map[int]bool{}
	for i := range w.live {
		live[i] = true
	}
	w.mu.Unlock()
	conn, dup := w.rig.Connected()
	for _, d := range dup {
		f = append(f, failure{"connected-duplicate", fmt.Sprintf("%x reported twice by EachPeer", []byte(d)[:6])})
	}
	for a, bin := range conn {
		p := w.byAddr[a]
		switch {
		case p == nil:
			f = append(f, failure{"connected-unknown-address", fmt.Sprintf("%x reported connected, the harness never introduced it", []byte(a)[:6])})
		case !live[p.idx]:
			key := "connected-extra-peer"
			switch {
			case p.last == "outbound-boot":
				key = "boot-node-outbound-counted"
			case p.last == "disconnect" || p.last == "force-disconnect" || (len(p.last) > 7 && p.last[:7] == "dropped"):
				key = "disconnected-peer-still-connected"
			case p.last == "inbound-rejected":
				key = "rejected-inbound-peer-connected"
			case len(p.last) > 9 && p.last[:9] == "dial-fail":
				key = "failed-dial-peer-connected"
			}
			f = append(f, failure{key, fmt.Sprintf("p%d (bin %d, last: %s) is reported connected but has no live connection", p.idx, p.bin, p.last)})
		case bin != p.bin:
			f = append(f, failure{"connected-wrong-bin", fmt.Sprintf("p%d reported in bin %d, proximity bin %d", p.idx, bin, p.bin)})
		}
	}
	for i := range live {
		if _, ok := conn[string(w.peers[i].addr)]; !ok {
			f = append(f, failure{"connected-missing-peer", fmt.Sprintf("p%d (bin %d, last: %s) has a live connection but is not reported connected", i, w.peers[i].bin, w.peers[i].last)})
		}
	}
	// the other views of the same set
	rev := map[string]bool{}
	_ = w.rig.Kad.EachPeerRev(func(a boson.Address, _ uint8) (bool, bool, error) {
		rev[string(a.Bytes())] = true
		return false, false, nil
	}, topology.Filter{})
	if len(rev) != len(conn) {
		f = append(f, failure{"views-disagree", fmt.Sprintf("EachPeer reports %d peers, EachPeerRev %d", len(conn), len(rev))})
	}
	snap := w.rig.Kad.Snapshot()
	if snap.Connected != len(conn)+len(dup) {
		f = append(f, failure{"views-disagree", fmt.Sprintf("Snapshot.Connected=%d, EachPeer reports %d", snap.Connected, len(conn)+len(dup))})
	}
	if n, m := w.rig.Kad.SnapshotConnected(); n != len(conn)+len(dup) || len(m) != len(conn) {
		f = append(f, failure{"views-disagree", fmt.Sprintf("SnapshotConnected=(%d, %d entries), EachPeer reports %d", n, len(m), len(conn))})
	}
	// every connected peer is also known
	known, _ := w.rig.Known()
	for a := range conn {
		if _, ok := known[a]; !ok {
			p := w.byAddr[a]
			idx, last := -1, ""
			if p != nil {
				idx, last = p.idx, p.last
			}
			f = append(f, failure{"connected-peer-not-known", fmt.Sprintf("p%d (last: %s) is connected but not among the known peers", idx, last)})
		}
	}
	w.known = known
	w.mu.Lock()
	w.st["audits"]++
	w.st["audited_connected_peers"] += int64(len(conn))
	w.mu.Unlock()
	return f
}

func (w *world) note(format string, a ...interface{}) {
	w.hist = append(w.hist, fmt.Sprintf(format, a...))
}

func (w *world) pick(rng *rand.Rand, want func(p *tpeer) bool) *tpeer {
	var c []*tpeer
	for _, p := range w.peers {
		if want(p) {
			c = append(c, p)
		}
	}
	if len(c) == 0 {
		return nil
	}
	return c[rng.Intn(len(c))]
}

// inbound delivers an inbound full-node connection the way libp2p does: optionally Pick
// during the handshake, then Connected; on refusal libp2p closes the connection and
// tells the topology. Returns the admission verdict and judges the admission clause.
func (w *world) inbound(c *obs.Case, p *tpeer, force, usePick bool) {
	k := w.rig.Kad
	elig := w.eligibleInBin(p.bin)
	knownPre, statusPre := w.known, w.statuses()
	protected := w.protect[p.idx]
	admitted := true
	via := "connected"
	if usePick && !k.Pick(kadrig.Peer(p.addr, mode(p))) {
		admitted = false
		via = "pick"
	}
	if admitted {
		w.p2pUp(p) // libp2p registers the connection before it tells the topology
		err := k.Connected(context.Background(), kadrig.Peer(p.addr, mode(p)), force)
		switch {
		case err == nil:
		case errors.Is(err, topology.ErrOversaturated):
			admitted = false
		case w.gossipFailsFor(p):
			// telling the new peer about our peers failed: Connected reports it (after asking p2p to drop the peer)
			admitted = false
			via = "gossip-failure"
		default:
			w.t.Fatalf("harness: Connected: %v", err)
		}
		if err != nil && w.isLive(p) {
			// libp2p: _ = s.Disconnect(overlay, ...): closes the connection and, as it still had it, notifies the topology
			w.p2pDown(p)
			k.Disconnected(kadrig.Peer(p.addr, mode(p)), "unable to signal connection notifier")
		}
	}
	w.note("inbound(p%d@bin%d force=%v pick=%v protected=%v) -> admitted=%v", p.idx, p.bin, force, usePick, protected, admitted)
	w.st["inbound_events"]++
	if admitted {
		if w.isLive(p) {
			p.last = "inbound"
		}
		w.st["inbound_admitted"]++
	} else {
		p.last = "inbound-rejected"
		w.st["inbound_rejected_by_"+via]++
	}
	if via == "gossip-failure" {
		return // refused for a reason that has nothing to do with saturation
	}
	if w.ownBoot {
		return // a boot node makes room by dropping a random peer instead of refusing: clause not judged
	}
	// was the bin oversaturated by the project's definition when the peer arrived?
	over := false
	if elig >= w.over {
		pd := w.potentialDepth(knownPre, statusPre)
		over = p.bin < pd
		w.st["inbound_into_bin_with_max_eligible_peers"]++
	}
	if over {
		w.st["inbound_into_oversaturated_bin"]++
	}
	switch {
	case admitted && over && !protected && !force:
		c.Viol("admitted-into-oversaturated-bin", fmt.Sprintf("unprotected, unforced inbound p%d admitted into bin %d which held %d eligible connected peers (maximum %d)", p.idx, p.bin, elig, w.over),
			map[string]interface{}{"history": w.hist, "base": obs.Hex(w.base)})
	case admitted && over && protected:
		w.st["protected_admitted_into_oversaturated_bin"]++
	case admitted && over && force:
		w.st["forced_admitted_into_oversaturated_bin"]++
	case !admitted && over:
		w.st["refused_because_oversaturated"]++
	case !admitted && !over:
		w.st["refused_although_not_oversaturated"]++
	}
}

func (w *world) markReachable(rng *rand.Rand, p *tpeer) {
	if rng.Intn(10) < 8 {
		w.rig.Kad.Reachable(boson.NewAddress(p.addr), p2p.ReachabilityStatusPublic)
		p.status = "public"
		w.note("reach(p%d, public)", p.idx)
	}
}

func TestHistories(t *testing.T) {
	run := obs.Start(t, "C24")
	defer run.Done()
	run.Rule("random histories of 70 events on a real Kad (BinMaxPeers 5) over ~40 peers, 8-9 per bin in bins 0-3 so that bins fill up: inbound (optionally Pick first, force 1 in 5), outbound through Kad.Connection with a scripted p2p.Connect (full node / boot node / failure kinds: generic, blocklisted, light node, overlay mismatch, already connected) or direct Outbound, Disconnected (live and not live), DisconnectForce, RefreshProtectPeer, Reachable, AddPeers. After EVERY event EachPeer / EachPeerRev / Snapshot / SnapshotConnected are compared with the model of live connections and connected is checked to be a subset of EachKnownPeer; every unprotected unforced admission is judged against the bin's eligible count and the potential depth. 1 in 8 histories runs the Kad in boot-node mode (20+ peers in bin 0). distinct = (own mode, kinds of events that happened, max bin fill bucket)",
		"oversaturated = the project's definition: at least BinMaxPeers (rounded up to a multiple of 5; 20 for a boot node) connected peers of the bin whose last reported status is public, and bin below the potential depth; the potential depth is read from a second real Kad fed with the known set",
		"p2p.Disconnect notifies the topology (Disconnected) like libp2p does and answers ErrPeerNotFound for a peer without a live connection",
		"boot-node inbound connections are not delivered to the topology by libp2p and are not generated")
	n := run.N(300, 2500)
	st := map[string]int64{}
	for i := 0; i < n; i++ {
		c := run.Begin(fmt.Sprintf("hist/%d", i), nil)
		if c == nil {
			continue
		}
		rng := c.Rand()
		ownBoot := rng.Intn(8) == 0
		w := newWorld(t, rng, st, ownBoot, kadrig.Options{})
		if ownBoot {
			for k := 0; k < 26; k++ {
				w.addPeer(rng, 0, false)
			}
			for k := 0; k < 8; k++ {
				w.addPeer(rng, 1+rng.Intn(4), false)
			}
		} else {
			for b := 0; b < 4; b++ {
				for k := 0; k < 8+rng.Intn(2); k++ {
					w.addPeer(rng, b, false)
				}
			}
			for k := 0; k < 6; k++ {
				w.addPeer(rng, 4+rng.Intn(5), false)
			}
		}
		for k := 0; k < 3; k++ {
			w.addPeer(rng, rng.Intn(4), true) // remote boot nodes
		}
		for _, p := range w.peers {
			w.register(p)
		}
		w.audit()
		evs := map[string]bool{}
		focus := rng.Intn(4)
		maxFill := 0
		nev := 70
		if ownBoot {
			nev = 110
			focus = 0
		}
		failed := false
		for e := 0; e < nev && !failed; e++ {
			k := w.rig.Kad
			inFocus := func(p *tpeer) bool { return rng.Intn(3) > 0 || p.bin == focus }
			notLive := func(p *tpeer) bool { return !w.live[p.idx] }
			isLive := func(p *tpeer) bool { return w.live[p.idx] }
			r := rng.Intn(100)
			if ownBoot && r >= 40 && r < 84 && rng.Intn(2) == 0 {
				r = rng.Intn(40) // a boot node world needs many more connections than disconnections
			}
			switch {
			case r < 30: // inbound
				// 1 in 4 inbound events may come from a remote node that carries the boot-node flag
				// (it is a full node all the same: only OUTBOUND connections to boot nodes are not counted)
				bootToo := rng.Intn(4) == 0
				p := w.pick(rng, func(p *tpeer) bool { return notLive(p) && (!p.boot || bootToo) && p.bin == focus })
				if p == nil || rng.Intn(3) == 0 {
					p = w.pick(rng, func(p *tpeer) bool { return notLive(p) && (!p.boot || bootToo) })
				}
				if bootToo {
					if q := w.pick(rng, func(p *tpeer) bool { return notLive(p) && p.boot }); q != nil && rng.Intn(2) == 0 {
						p = q
					}
				}
				if p == nil {
					continue
				}
				if p.boot {
					evs["inbound-from-boot-flagged-node"] = true
					w.st["inbound_from_boot_flagged_nodes"]++
				}
				force := rng.Intn(5) == 0
				w.inbound(c, p, force, rng.Intn(2) == 0)
				evs["inbound"] = true
				if force {
					evs["inbound-forced"] = true
				}
				if w.live[p.idx] {
					w.markReachable(rng, p)
				}
			case r < 45: // outbound
				p := w.pick(rng, func(p *tpeer) bool { return notLive(p) && inFocus(p) })
				if p == nil {
					continue
				}
				if rng.Intn(10) < 7 {
					w.dial = w.dialOK
					a, err := k.GetAuroraAddress(boson.NewAddress(p.addr))
					if err != nil {
						t.Fatalf("harness: addressbook: %v", err)
					}
					if err := k.Connection(context.Background(), a); err != nil {
						t.Fatalf("harness: Connection: %v", err)
					}
					w.dial = nil
					w.note("outbound-dial(p%d@bin%d boot=%v)", p.idx, p.bin, p.boot)
				} else {
					// the debug API: p2p.Connect, then Outbound
					pr, _ := w.dialOK(p)
					k.Outbound(*pr)
					w.note("outbound-direct(p%d@bin%d boot=%v)", p.idx, p.bin, p.boot)
				}
				if p.boot {
					p.last = "outbound-boot"
					st["outbound_to_boot_node"]++
					evs["outbound-boot"] = true
				} else {
					if w.isLive(p) {
						p.last = "outbound"
					}
					st["outbound_to_full_node"]++
					evs["outbound"] = true
					w.markReachable(rng, p)
				}
			case r < 52 && rng.Intn(4) == 0: // connection made, but the gossip to the new peer fails
				p := w.pick(rng, func(p *tpeer) bool { return notLive(p) && !p.boot })
				if p == nil || w.eligibleInBin(0)+w.eligibleInBin(1)+w.eligibleInBin(2)+w.eligibleInBin(3) == 0 {
					continue // nothing to gossip about: no message would be sent
				}
				w.mu.Lock()
				w.noGossip[string(p.addr)] = true
				w.mu.Unlock()
				if rng.Intn(2) == 0 {
					before := st["inbound_rejected_by_gossip-failure"]
					w.inbound(c, p, rng.Intn(5) == 0, false)
					if st["inbound_rejected_by_gossip-failure"] != before {
						evs["inbound-gossip-failure"] = true
					}
				} else {
					w.dial = w.dialOK
					a, err := k.GetAuroraAddress(boson.NewAddress(p.addr))
					if err != nil {
						t.Fatalf("harness: addressbook: %v", err)
					}
					err = k.Connection(context.Background(), a)
					w.dial = nil
					if err == nil {
						// (the topology found no reachable peer to gossip about after all: a normal outbound connection)
						if w.isLive(p) {
							p.last = "outbound"
						}
					} else {
						p.last = "dial-fail-gossip"
						st["outbound_dropped_after_gossip_failure"]++
						evs["outbound-gossip-failure"] = true
					}
					w.register(p)
					w.note("outbound-dial(p%d) with failing gossip -> %v", p.idx, err)
				}
				w.mu.Lock()
				delete(w.noGossip, string(p.addr))
				w.mu.Unlock()
			case r < 52: // failed dial
				p := w.pick(rng, notLive)
				if p == nil {
					continue
				}
				kind := []string{"generic", "blocklisted", "lightnode", "mismatch", "network-unavailable"}[rng.Intn(5)]
				var other *tpeer
				w.dial = func(q *tpeer) (*p2p.Peer, error) {
					switch kind {
					case "generic":
						return nil, errors.New("connection refused")
					case "blocklisted":
						return nil, p2p.ErrPeerBlocklisted
					case "lightnode":
						return nil, p2p.ErrDialLightNode
					case "network-unavailable":
						return nil, p2p.ErrNetworkUnavailable
					}
					// somebody else answers at that underlay: a node we have no connection to
					other = w.pick(rng, func(x *tpeer) bool { return !w.live[x.idx] && x.idx != q.idx })
					if other == nil {
						return nil, errors.New("connection refused")
					}
					return w.dialOK(other)
				}
				a, err := k.GetAuroraAddress(boson.NewAddress(p.addr))
				if err != nil {
					// the entry was pruned by an earlier failed dial: the handshake would store it again
					w.register(p)
					a, err = k.GetAuroraAddress(boson.NewAddress(p.addr))
					if err != nil {
						t.Fatalf("harness: addressbook: %v", err)
					}
				}
				err = k.Connection(context.Background(), a)
				w.dial = nil
				if err == nil {
					t.Fatalf("harness: failed dial (%s) reported success", kind)
				}
				p.last = "dial-fail-" + kind
				if other != nil {
					other.last = "dial-fail-mismatch-other"
				}
				w.register(p) // pruned entries come back with the next handshake
				w.note("dial-fail(p%d, %s)", p.idx, kind)
				st["failed_dials"]++
				evs["dial-fail-"+kind] = true
			case r < 55: // dial of an already connected peer
				p := w.pick(rng, func(p *tpeer) bool { return isLive(p) })
				if p == nil {
					continue
				}
				w.dial = func(q *tpeer) (*p2p.Peer, error) {
					pr := kadrig.Peer(q.addr, mode(q))
					return &pr, p2p.ErrAlreadyConnected
				}
				a, err := k.GetAuroraAddress(boson.NewAddress(p.addr))
				if err != nil {
					t.Fatalf("harness: addressbook: %v", err)
				}
				if err := k.Connection(context.Background(), a); err != nil {
					t.Fatalf("harness: Connection(already connected): %v", err)
				}
				w.dial = nil
				w.note("dial-already-connected(p%d)", p.idx)
				evs["dial-already-connected"] = true
			case r < 75: // remote side closes
				p := w.pick(rng, func(p *tpeer) bool { return isLive(p) && inFocus(p) })
				if p == nil {
					continue
				}
				delete(w.live, p.idx)
				k.Disconnected(kadrig.Peer(p.addr, mode(p)), "remote closed")
				p.last = "disconnect"
				w.note("disconnect(p%d@bin%d)", p.idx, p.bin)
				st["disconnects"]++
				evs["disconnect"] = true
			case r < 78: // notification for a peer that is not connected
				p := w.pick(rng, notLive)
				if p == nil {
					continue
				}
				k.Disconnected(kadrig.Peer(p.addr, mode(p)), "stale")
				w.note("disconnect-not-connected(p%d)", p.idx)
				evs["disconnect-not-connected"] = true
			case r < 84: // forced disconnection
				p := w.pick(rng, isLive)
				if p == nil || rng.Intn(10) < 3 {
					p = w.pick(rng, notLive)
				}
				if p == nil {
					continue
				}
				wasLive := w.live[p.idx]
				err := k.DisconnectForce(boson.NewAddress(p.addr), "user requested disconnect")
				if wasLive && err != nil {
					t.Fatalf("harness: DisconnectForce: %v", err)
				}
				if wasLive {
					p.last = "force-disconnect"
					w.register(p) // DisconnectForce drops the addressbook entry; a later handshake stores it again
					st["forced_disconnects"]++
					evs["force-disconnect"] = true
				} else {
					evs["force-disconnect-not-connected"] = true
				}
				w.note("force-disconnect(p%d live=%v) -> %v", p.idx, wasLive, err)
			case r < 89: // protected peers
				w.protect = map[int]bool{}
				var list []boson.Address
				// one refresh in four clears the list (empty or nil): nobody is protected afterwards
				clear := rng.Intn(4) == 0
				for _, p := range w.peers {
					if !clear && rng.Intn(6) == 0 {
						w.protect[p.idx] = true
						list = append(list, boson.NewAddress(p.addr))
					}
				}
				if clear && rng.Intn(2) == 0 {
					list = []boson.Address{}
				}
				k.RefreshProtectPeer(list)
				w.note("protect(%d peers)", len(list))
				evs["protect"] = true
			case r < 96: // reachability report
				p := w.pick(rng, isLive)
				if p == nil {
					continue
				}
				s := []string{"public", "public", "private"}[rng.Intn(3)]
				if s == "public" {
					k.Reachable(boson.NewAddress(p.addr), p2p.ReachabilityStatusPublic)
				} else {
					k.Reachable(boson.NewAddress(p.addr), p2p.ReachabilityStatusPrivate)
				}
				p.status = s
				w.note("reach(p%d, %s)", p.idx, s)
				evs["reach-"+s] = true
			default: // gossip
				var list []boson.Address
				seen := map[int]bool{}
				for j := 0; j < 1+rng.Intn(3); j++ {
					p := w.pick(rng, func(p *tpeer) bool { return notLive(p) && !seen[p.idx] })
					if p != nil {
						seen[p.idx] = true
						list = append(list, boson.NewAddress(p.addr))
					}
				}
				k.AddPeers(list...)
				w.note("addpeers(%d)", len(list))
				evs["addpeers"] = true
			}
			for _, f := range w.audit() {
				c.Viol(f.key, f.msg, map[string]interface{}{"history": w.hist, "base": obs.Hex(w.base), "own_boot_node": ownBoot})
				failed = true
			}
			fill := map[int]int{}
			for i := range w.live {
				fill[w.peers[i].bin]++
			}
			for _, v := range fill {
				if v > maxFill {
					maxFill = v
				}
			}
		}
		run.StatMax("max/live_peers_in_one_bin", int64(maxFill))
		st["gossip_messages"] += atomic.LoadInt64(&w.gossipMsgs)
		st["gossip_failures"] += atomic.LoadInt64(&w.gossipFails)
		w.rig.Close(t)
		ks := make([]string, 0, len(evs))
		for e := range evs {
			ks = append(ks, e)
		}
		sort.Strings(ks)
		c.End(fmt.Sprintf("boot=%v/fill=%d/%v", ownBoot, maxFill/3, ks), evs["inbound"] && evs["disconnect"] && (evs["outbound"] || evs["outbound-boot"]))
		if i < 2 {
			run.Sample(map[string]interface{}{"kind": "history", "own_boot_node": ownBoot, "first_events": w.hist[:minInt(10, len(w.hist))], "events": len(w.hist)})
		}
	}
	for k, v := range st {
		run.Stat(k, v)
	}
}

func minInt(a, b int) int {
	if a < b {
		return a
	}
	return b
}
