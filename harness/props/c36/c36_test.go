// Package c36 checks C36: keystores protect keys with their password.
//
// Oracle: the key first returned for (name, password) is THE key of that name; every later
// answer is compared with it. No cryptography is re-implemented.
package c36

import (
	"crypto/ecdsa"
	"crypto/sha256"
	"errors"
	"fmt"
	"math/big"
	"os"
	"strings"
	"sync"
	"testing"

	"github.com/gauss-project/aurorafs/pkg/crypto"
	"github.com/gauss-project/aurorafs/pkg/keystore"
	filekeystore "github.com/gauss-project/aurorafs/pkg/keystore/file"
	memkeystore "github.com/gauss-project/aurorafs/pkg/keystore/mem"
	"verif/harness/internal/obs"
)

type named struct{ class, s string }

var names = []named{
	{"ascii", "boson"},
	{"empty", ""},
	{"spaces", "libp2p key 2"},
	{"unicode", "ключ-鍵-clé"},
	{"long", strings.Repeat("n", 200)},
	{"subdir", "dir/sub/name"},
	{"dots", "name.with.dots.key"},
	{"upper", "BOSON"},
}

var passwords = []named{
	{"ascii", "pass123456"},
	{"empty", ""},
	{"unicode", "p\u00e4ssw\u00f6rd-鍵"},
	{"spaces", "  leading and trailing  "},
	{"long", strings.Repeat("p", 300)},
	{"newline", "with\nnewline\ttab"},
	{"one-char", "x"},
}

// wrongPasswords derives passwords different from pw. Passwords that are the same HMAC key as pw
// (pw + NUL bytes; SHA-256 of a password longer than 64 bytes) are deliberately not generated:
// PBKDF2 cannot tell them apart (see the Rule's assumptions).
func wrongPasswords(pw string) []named {
	out := []named{{"suffix", pw + "x"}, {"prefix", "x" + pw}, {"other", "invalid password"}, {"space-appended", pw + " "}}
	if pw != "" {
		out = append(out, named{"empty", ""}, named{"last-char-dropped", pw[:len(pw)-1]}, named{"doubled", pw + pw})
		if u := strings.ToUpper(pw); u != pw {
			out = append(out, named{"upper-cased", u})
		}
		b := []byte(pw)
		b[len(b)/2] ^= 1
		out = append(out, named{"one-bit-flipped", string(b)})
	} else {
		out = append(out, named{"single-space", " "}, named{"zero-digit", "0"})
	}
	if strings.Contains(pw, "\u00e4") {
		out = append(out, named{"unicode-decomposed", strings.ReplaceAll(pw, "\u00e4", "a\u0308")})
	}
	return out
}

func sameKey(a, b *ecdsa.PrivateKey) bool {
	return a != nil && b != nil && a.D.Cmp(b.D) == 0 && a.PublicKey.X.Cmp(b.PublicKey.X) == 0 && a.PublicKey.Y.Cmp(b.PublicKey.Y) == 0
}

func fp(k *ecdsa.PrivateKey) string {
	if k == nil {
		return "<nil>"
	}
	h := sha256.Sum256(k.D.Bytes())
	return fmt.Sprintf("sha256(D)=%x..", h[:6])
}

type seq struct {
	run   *obs.Run
	c     *obs.Case
	fam   string
	name  named
	pw    named
	steps []string
}

func (s *seq) log(f string, a ...interface{}) { s.steps = append(s.steps, fmt.Sprintf(f, a...)) }

func (s *seq) viol(key, msg string) {
	s.c.Viol(s.fam+"/"+key, msg, map[string]interface{}{"store": s.fam, "name_class": s.name.class, "name": fmt.Sprintf("%.60q", s.name.s),
		"password_class": s.pw.class, "password": fmt.Sprintf("%.60q", s.pw.s), "steps": s.steps})
}

// guard runs one keystore call under recover.
func (s *seq) guard(where string, f func()) (ok bool) {
	defer func() {
		if r := recover(); r != nil {
			s.viol("panic-"+where, fmt.Sprintf("%s panicked: %v", where, r))
			ok = false
		}
	}()
	f()
	return true
}

// getKey asks for the key with the right password and compares with the reference.
func (s *seq) getKey(svc keystore.Service, label string, ref *ecdsa.PrivateKey) {
	s.log("%s: Key(name, password)", label)
	s.guard("key", func() {
		k, created, err := svc.Key(s.name.s, s.pw.s)
		s.run.Stat("key_reads_right_password", 1)
		switch {
		case err != nil && errors.Is(err, keystore.ErrInvalidPassword):
			s.viol("right-password-rejected", fmt.Sprintf("%s: the password the key was stored with is rejected", label))
		case err != nil:
			s.viol("key-read-error", fmt.Sprintf("%s: %v", label, err))
		case created:
			s.viol("key-created-again", fmt.Sprintf("%s: created=true for a name that already has a key (%s, first was %s)", label, fp(k), fp(ref)))
		case !sameKey(k, ref):
			s.viol("key-changed", fmt.Sprintf("%s: got %s, the key of this name is %s", label, fp(k), fp(ref)))
		}
	})
}

func (s *seq) wrongPasswords(svc keystore.Service, label string, ref *ecdsa.PrivateKey, max int) {
	all := wrongPasswords(s.pw.s)
	// a rotating window so that, across cases and steps, every variant meets the (slow) file store
	rot := (len(label) + len(s.name.s) + len(s.steps)) % len(all)
	all = append(all[rot:], all[:rot]...)
	for i, w := range all {
		if i >= max {
			break
		}
		s.log("%s: Key(name, wrong password %s)", label, w.class)
		w := w
		s.guard("key-wrong-password", func() {
			k, created, err := svc.Key(s.name.s, w.s)
			s.run.Stat("key_reads_wrong_password", 1)
			s.run.Stat("wrong_password/"+w.class, 1)
			switch {
			case err == nil && created:
				s.viol("wrong-password-creates-new-key", fmt.Sprintf("%s: wrong password (%s) made a new key instead of being rejected", label, w.class))
			case err == nil:
				s.viol("wrong-password-accepted/"+w.class, fmt.Sprintf("%s: wrong password (%s: %.40q) returned %s", label, w.class, w.s, fp(k)))
			case !errors.Is(err, keystore.ErrInvalidPassword):
				s.viol("wrong-password-error-not-invalid-password", fmt.Sprintf("%s: wrong password (%s): %v", label, w.class, err))
			}
		})
	}
}

// common part for both keystores: create, get again, wrong passwords
func (s *seq) createAndRead(svc keystore.Service) (ref *ecdsa.PrivateKey) {
	s.log("Exists(name) before")
	s.guard("exists", func() {
		ex, err := svc.Exists(s.name.s)
		if err != nil {
			s.viol("exists-error", err.Error())
		} else if ex {
			s.viol("exists-true-before-create", "Exists reports a key that was never stored")
		}
	})
	s.log("Key(name, password) first time")
	if !s.guard("key", func() {
		k, created, err := svc.Key(s.name.s, s.pw.s)
		if err != nil {
			s.viol("key-create-error", err.Error())
			return
		}
		if !created {
			s.viol("key-not-created-first-time", "created=false although the name had no key")
		}
		ref = k
		s.run.Stat("keys_created", 1)
	}) || ref == nil {
		return nil
	}
	s.log("Exists(name) after")
	s.guard("exists", func() {
		ex, err := svc.Exists(s.name.s)
		if err != nil {
			s.viol("exists-error", err.Error())
		} else if !ex {
			s.viol("exists-false-after-create", "Exists=false for a stored key")
		}
	})
	s.getKey(svc, "second read", ref)
	s.getKey(svc, "third read", ref)
	return ref
}

func tempDir(t *testing.T) string {
	d, err := os.MkdirTemp("", "c36-")
	if err != nil {
		t.Fatal(err)
	}
	return d
}

func fileSequence(t *testing.T, run *obs.Run, name, pw named, nWrong int) {
	c := run.Begin(fmt.Sprintf("file/%s/%s", name.class, pw.class), map[string]interface{}{"store": "file", "name": fmt.Sprintf("%.60q", name.s), "password": fmt.Sprintf("%.60q", pw.s)})
	if c == nil {
		return
	}
	s := &seq{run: run, c: c, fam: "file", name: name, pw: pw}
	dir, dir2 := tempDir(t), tempDir(t)
	defer os.RemoveAll(dir)
	defer os.RemoveAll(dir2)
	svc := filekeystore.New(dir)
	ref := s.createAndRead(svc)
	if ref == nil {
		c.End("file/"+name.class+"/"+pw.class, false)
		return
	}
	s.wrongPasswords(svc, "same service", ref, nWrong)
	s.getKey(svc, "after wrong passwords", ref)
	// a new service object over the same directory: the key is on disk
	svcB := filekeystore.New(dir)
	s.getKey(svcB, "new service object on the same directory", ref)
	s.wrongPasswords(svcB, "new service object", ref, 2)

	// export, then import over another key of another directory
	var exported []byte
	s.log("ExportKey(name, password)")
	s.guard("export", func() {
		var err error
		exported, err = svc.ExportKey(s.name.s, s.pw.s)
		if err != nil {
			s.viol("export-error", err.Error())
			exported = nil
		}
	})
	s.log("ExportKey(name, wrong password)")
	s.guard("export", func() {
		if _, err := svc.ExportKey(s.name.s, s.pw.s+"x"); err == nil {
			s.viol("export-with-wrong-password", "ExportKey succeeded with a wrong password")
		} else if !errors.Is(err, keystore.ErrInvalidPassword) {
			s.viol("wrong-password-error-not-invalid-password", fmt.Sprintf("ExportKey with a wrong password: %v", err))
		}
	})
	svc2 := filekeystore.New(dir2)
	var other *ecdsa.PrivateKey
	s.log("other directory: Key(name, password) creates another key")
	s.guard("key", func() {
		k, _, err := svc2.Key(s.name.s, s.pw.s)
		if err != nil {
			s.viol("key-create-error", err.Error())
			return
		}
		other = k
		if sameKey(k, ref) {
			s.viol("two-creations-same-key", "two independent creations produced the same key")
		}
	})
	if exported != nil && other != nil {
		s.log("other directory: ImportKey(name, password, exported)")
		s.guard("import", func() {
			if err := svc2.ImportKey(s.name.s, s.pw.s, exported); err != nil {
				s.viol("import-error", fmt.Sprintf("ImportKey of an export made with the same password: %v", err))
				return
			}
			run.Stat("export_import_roundtrips", 1)
			k, created, err := svc2.Key(s.name.s, s.pw.s)
			switch {
			case err != nil:
				s.viol("key-read-error", fmt.Sprintf("after import: %v", err))
			case created:
				s.viol("key-created-again", "after import: created=true")
			case !sameKey(k, ref):
				s.viol("export-import-changes-key", fmt.Sprintf("after export -> import: %s, exported key was %s", fp(k), fp(ref)))
			}
		})
		s.wrongPasswords(svc2, "after import", ref, 1)

		// an export made under another password cannot be imported; the stored key stays
		s.log("ImportKey with an export made under another password")
		s.guard("import", func() {
			dir3 := tempDir(t)
			defer os.RemoveAll(dir3)
			svc3 := filekeystore.New(dir3)
			if _, _, err := svc3.Key("k", s.pw.s+"other"); err != nil {
				s.viol("key-create-error", err.Error())
				return
			}
			foreign, err := svc3.ExportKey("k", s.pw.s+"other")
			if err != nil {
				s.viol("export-error", err.Error())
				return
			}
			err = svc.ImportKey(s.name.s, s.pw.s, foreign)
			run.Stat("imports_with_foreign_password", 1)
			switch {
			case err == nil:
				s.viol("import-accepts-export-of-other-password", "ImportKey accepted a key file encrypted with a different password")
			case !errors.Is(err, keystore.ErrInvalidPassword):
				s.viol("wrong-password-error-not-invalid-password", fmt.Sprintf("ImportKey of a file encrypted with another password: %v", err))
			}
		})
		s.getKey(svc, "after the refused import", ref)
	}

	// import of a given private key (edge keys: tiny scalar, leading zero bytes)
	edge := []*big.Int{big.NewInt(1), new(big.Int).Lsh(big.NewInt(0x7f), 8*20), new(big.Int).Sub(crypto.Secp256k1PrivateKeyFromBytes([]byte{1}).Curve.Params().N, big.NewInt(1))}
	d := edge[(len(name.s)+len(pw.s))%len(edge)]
	given := crypto.Secp256k1PrivateKeyFromBytes(d.Bytes())
	s.log("ImportPrivateKey(name, password, key with D=%x)", d)
	s.guard("import-private-key", func() {
		if err := svc.ImportPrivateKey(s.name.s, s.pw.s, given); err != nil {
			s.viol("import-private-key-error", err.Error())
			return
		}
		run.Stat("private_keys_imported", 1)
		s.getKey(svc, "after ImportPrivateKey", given)
		s.wrongPasswords(svc, "after ImportPrivateKey", given, 1)
	})
	c.End("file/"+name.class+"/"+pw.class, true)
	if name.class == "unicode" && pw.class == "unicode" {
		run.Sample(map[string]interface{}{"store": "file", "name": name.s, "password": pw.s, "steps": s.steps})
	}
}

func TestFileKeystore(t *testing.T) {
	run := obs.Start(t, "C36")
	defer run.Done()
	run.Rule("file keystore in fresh temp directories: names {ascii, empty, spaces, unicode, 200 chars, with sub-directories, dots, upper case} x passwords {ascii, empty, unicode, padded with spaces, 300 chars, control chars, one char}: exists -> create -> exists -> get x2 -> wrong passwords (suffix, prefix, empty, truncated, doubled, case, one bit, decomposed unicode) -> new service object -> export (right/wrong password) -> import over another key in another directory -> refused import of an export made under another password -> ImportPrivateKey of an edge scalar -> get; distinct = (name class, password class)",
		"a password 'different' from p excludes strings that are the same HMAC key as p (p followed by NUL bytes; the SHA-256 of a p longer than 64 bytes): PBKDF2/scrypt, which the key-file format prescribes, cannot distinguish them",
		"ImportKey needs an existing key of that name readable with the same password (the code's documented flow)",
		"names are valid relative file names (<= 200 bytes, no '..')")
	type job struct{ n, p named }
	var jobs []job
	if run.Thorough() {
		for _, n := range names {
			for _, p := range passwords {
				jobs = append(jobs, job{n, p})
			}
		}
	} else {
		// every name and every password at least twice
		for i := 0; i < 16; i++ {
			jobs = append(jobs, job{names[i%len(names)], passwords[(i+i/len(names))%len(passwords)]})
		}
	}
	seen := map[string]bool{}
	ch := make(chan job)
	var wg sync.WaitGroup
	for w := 0; w < 4; w++ {
		wg.Add(1)
		go func() {
			defer wg.Done()
			for j := range ch {
				fileSequence(t, run, j.n, j.p, 4)
			}
		}()
	}
	for _, j := range jobs {
		if k := j.n.class + "/" + j.p.class; !seen[k] {
			seen[k] = true
			ch <- j
		}
	}
	close(ch)
	wg.Wait()

	// informational: the PBKDF2 equivalence the assumption above is about
	c := run.Begin("file/info-hmac-equivalent-password", map[string]interface{}{"password": "pass123456", "other": "pass123456\\x00"})
	if c != nil {
		dir := tempDir(t)
		defer os.RemoveAll(dir)
		svc := filekeystore.New(dir)
		if _, _, err := svc.Key("k", "pass123456"); err == nil {
			if _, _, err := svc.Key("k", "pass123456\x00"); err == nil {
				run.Stat("info_password_plus_nul_accepted_pbkdf2_equivalence", 1)
			} else {
				run.Stat("info_password_plus_nul_rejected", 1)
			}
		}
		c.End("info", false)
	}
}

func TestMemKeystore(t *testing.T) {
	run := obs.Start(t, "C36")
	defer run.Done()
	run.Rule("in-memory keystore: every name x every password: exists -> create -> exists -> get x2 -> every wrong-password variant -> get; several names in one service; export/import of the in-memory keystore are unimplemented stubs and not exercised; distinct = (name class, password class)")
	shared := memkeystore.New()
	refs := map[string]*ecdsa.PrivateKey{}
	for _, n := range names {
		for _, p := range passwords {
			c := run.Begin(fmt.Sprintf("mem/%s/%s", n.class, p.class), map[string]interface{}{"store": "mem", "name": fmt.Sprintf("%.60q", n.s), "password": fmt.Sprintf("%.60q", p.s)})
			if c == nil {
				continue
			}
			s := &seq{run: run, c: c, fam: "mem", name: n, pw: p}
			svc := memkeystore.New()
			ref := s.createAndRead(svc)
			if ref != nil {
				s.wrongPasswords(svc, "same service", ref, 100)
				s.getKey(svc, "after wrong passwords", ref)
			}
			c.End("mem/"+n.class+"/"+p.class, ref != nil)
		}
		// one service holding all names: keys do not mix
		c := run.Begin("mem-shared/"+n.class, map[string]interface{}{"store": "mem", "name": fmt.Sprintf("%.60q", n.s)})
		if c == nil {
			continue
		}
		s := &seq{run: run, c: c, fam: "mem", name: n, pw: passwords[len(n.s)%len(passwords)]}
		if ref := s.createAndRead(shared); ref != nil {
			for on, or := range refs {
				if sameKey(or, ref) {
					s.viol("two-names-same-key", fmt.Sprintf("names %q and %q share a key", on, n.s))
				}
			}
			refs[n.s] = ref
			s.wrongPasswords(shared, "shared service", ref, 3)
		}
		c.End("mem-shared/"+n.class, true)
	}
	// all names still answer with their own key
	for _, n := range names {
		if ref := refs[n.s]; ref != nil {
			k, created, err := shared.Key(n.s, passwords[len(n.s)%len(passwords)].s)
			if err != nil || created || !sameKey(k, ref) {
				run.Viol("mem/key-changed", fmt.Sprintf("shared service: name %q no longer returns its key (err=%v created=%v)", n.s, err, created), nil)
			}
			run.Stat("key_reads_right_password", 1)
		}
	}
}
