// Package c18 checks C18: both state-store implementations behave as the same string-keyed
// persistent map.
//
// Oracle: a Go map from key to the value written (the reference "sorted map": matches of a prefix
// are the keys with that prefix, sorted by bytes). The same generated history is applied to the
// in-memory leveldb store, the on-disk leveldb store (with close + reopen) and the mock store.
package c18

import (
	"bytes"
	"encoding/json"
	"errors"
	"fmt"
	"io"
	"math/rand"
	"os"
	"reflect"
	"sort"
	"strings"
	"testing"

	"github.com/gauss-project/aurorafs/pkg/logging"
	ldbstore "github.com/gauss-project/aurorafs/pkg/statestore/leveldb"
	"github.com/gauss-project/aurorafs/pkg/statestore/mock"
	"github.com/gauss-project/aurorafs/pkg/storage"
	"verif/harness/internal/obs"
)

// ---- values ----------------------------------------------------------------------------

type rec struct {
	A int64             `json:"a"`
	B string            `json:"b"`
	C []byte            `json:"c"`
	D map[string]uint64 `json:"d"`
	E bool              `json:"e"`
	F []string          `json:"f"`
}

// binVal is stored through encoding.BinaryMarshaler / BinaryUnmarshaler.
type binVal struct{ b []byte }

func (v binVal) MarshalBinary() ([]byte, error) {
	// no tag byte: an empty value encodes to the empty byte string, which is a legitimate
	// record (a value read back must equal the value written)
	return append([]byte(nil), v.b...), nil
}

func (v *binVal) UnmarshalBinary(d []byte) error {
	v.b = append([]byte(nil), d...)
	return nil
}

const (
	kString = iota
	kStruct
	kBytes
	kBinary
	kUint
	nKinds
)

var kindNames = []string{"string", "struct", "bytes", "binary", "uint64"}

type val struct {
	kind int
	s    string
	st   rec
	b    []byte
	u    uint64
}

func (v val) describe() string {
	switch v.kind {
	case kString:
		return fmt.Sprintf("string(%q)", v.s)
	case kStruct:
		return fmt.Sprintf("struct(%+v)", v.st)
	case kBytes:
		return "bytes(" + obs.Hex(v.b) + ")"
	case kBinary:
		return "binary(" + obs.Hex(v.b) + ")"
	}
	return fmt.Sprintf("uint64(%d)", v.u)
}

var stringPool = []string{"", "x", "hello world", "<a href=\"x\">&</a>", "日本語 ключ ✓", "line\nbreak\ttab", " ", "null", "0"}

func randomVal(rng *rand.Rand) val {
	v := val{kind: rng.Intn(nKinds)}
	rb := func(max int) []byte {
		b := make([]byte, rng.Intn(max+1))
		rng.Read(b)
		return b
	}
	switch v.kind {
	case kString:
		v.s = stringPool[rng.Intn(len(stringPool))] + fmt.Sprint(rng.Intn(1000))
	case kStruct:
		v.st = rec{A: rng.Int63() - rng.Int63(), B: stringPool[rng.Intn(len(stringPool))], C: rb(40), E: rng.Intn(2) == 0}
		if rng.Intn(2) == 0 {
			v.st.D = map[string]uint64{}
			for i := rng.Intn(4); i > 0; i-- {
				v.st.D[fmt.Sprint("k", rng.Intn(10))] = rng.Uint64()
			}
		}
		for i := rng.Intn(3); i > 0; i-- {
			v.st.F = append(v.st.F, stringPool[rng.Intn(len(stringPool))])
		}
	case kBytes:
		v.b = rb(64)
	case kBinary:
		v.b = rb(64)
		if rng.Intn(4) == 0 {
			v.b = nil // encodes to the empty byte string
		}
	case kUint:
		v.u = rng.Uint64()
	}
	return v
}

func (v val) put(s storage.StateStorer, key string) error {
	switch v.kind {
	case kString:
		return s.Put(key, v.s)
	case kStruct:
		return s.Put(key, v.st)
	case kBytes:
		return s.Put(key, v.b)
	case kBinary:
		return s.Put(key, binVal{b: v.b})
	}
	return s.Put(key, v.u)
}

func recEqual(a, b rec) bool {
	if a.A != b.A || a.B != b.B || a.E != b.E || !bytes.Equal(a.C, b.C) || len(a.D) != len(b.D) || len(a.F) != len(b.F) {
		return false
	}
	for k, x := range a.D {
		if y, ok := b.D[k]; !ok || x != y {
			return false
		}
	}
	for i := range a.F {
		if a.F[i] != b.F[i] {
			return false
		}
	}
	return true
}

// get reads key into a fresh variable of the value's own type and compares.
func (v val) get(s storage.StateStorer, key string) (equal bool, got string, err error) {
	switch v.kind {
	case kString:
		var x string
		err = s.Get(key, &x)
		return x == v.s, fmt.Sprintf("%q", x), err
	case kStruct:
		var x rec
		err = s.Get(key, &x)
		return recEqual(x, v.st), fmt.Sprintf("%+v", x), err
	case kBytes:
		var x []byte
		err = s.Get(key, &x)
		return bytes.Equal(x, v.b), obs.Hex(x), err
	case kBinary:
		var x binVal
		err = s.Get(key, &x)
		return bytes.Equal(x.b, v.b), obs.Hex(x.b), err
	}
	var x uint64
	err = s.Get(key, &x)
	return x == v.u, fmt.Sprint(x), err
}

// matchesEncoded decodes the raw value an iteration callback received by the documented encoding
// rule (BinaryUnmarshaler, else JSON) and compares it with the value written.
func (v val) matchesEncoded(raw []byte) bool {
	switch v.kind {
	case kBinary:
		var x binVal
		return x.UnmarshalBinary(raw) == nil && bytes.Equal(x.b, v.b)
	case kString:
		var x string
		return json.Unmarshal(raw, &x) == nil && x == v.s
	case kStruct:
		var x rec
		return json.Unmarshal(raw, &x) == nil && recEqual(x, v.st)
	case kBytes:
		var x []byte
		return json.Unmarshal(raw, &x) == nil && bytes.Equal(x, v.b)
	}
	var x uint64
	return json.Unmarshal(raw, &x) == nil && x == v.u
}

// ---- keys ------------------------------------------------------------------------------

// Key prefixes; none starts with 's' so the stores' private schema keys ("statestore_schema",
// "schema_name") never match a non-empty prefix used here.
var keyPrefixes = []string{"a", "ab", "ab/", "abc", "b_", "k\xff", "k\xff\xff", "z", "\x01", "é", "peer/"}
var keySuffixes = []string{"", "0", "1", "\xff", "\x00", "/x", "zz", "\xff\xff"}

func randomKey(rng *rand.Rand) string {
	return keyPrefixes[rng.Intn(len(keyPrefixes))] + keySuffixes[rng.Intn(len(keySuffixes))]
}

var schemaKeys = map[string]bool{"statestore_schema": true, "schema_name": true}

// ---- history ---------------------------------------------------------------------------

type op struct {
	Kind   string `json:"op"` // put get delete iterate reopen
	Key    string `json:"key,omitempty"`
	Val    string `json:"val,omitempty"`
	Prefix string `json:"prefix,omitempty"`
	Mode   string `json:"mode,omitempty"` // all stop error error+stop
	At     int    `json:"at,omitempty"`   // callback invocation (1-based) at which to stop / fail
	v      val
}

func (o op) String() string {
	switch o.Kind {
	case "put":
		return fmt.Sprintf("put %q=%s", o.Key, o.Val)
	case "iterate":
		return fmt.Sprintf("iterate %q %s@%d", o.Prefix, o.Mode, o.At)
	case "reopen":
		return "reopen"
	}
	return fmt.Sprintf("%s %q", o.Kind, o.Key)
}

func genHistory(rng *rand.Rand, n int) []op {
	var ops []op
	var used []string
	pick := func() string {
		if len(used) > 0 && rng.Intn(4) != 0 {
			return used[rng.Intn(len(used))]
		}
		return randomKey(rng)
	}
	for len(ops) < n {
		switch r := rng.Intn(100); {
		case r < 38:
			k := pick()
			v := randomVal(rng)
			used = append(used, k)
			ops = append(ops, op{Kind: "put", Key: k, Val: v.describe(), v: v})
		case r < 55:
			ops = append(ops, op{Kind: "get", Key: pick()})
		case r < 67:
			ops = append(ops, op{Kind: "delete", Key: pick()})
		case r < 96:
			var p string
			switch rng.Intn(6) {
			case 0:
				p = "" // everything (schema keys are filtered by the observer)
			case 1:
				k := pick()
				p = k[:rng.Intn(len(k)+1)]
			case 2:
				p = pick() // a full key as prefix
			case 3:
				p = []string{"q", "a", "k", "a", "z"}[rng.Intn(5)] // "q" matches nothing; "a", "k" match many
			default:
				p = keyPrefixes[rng.Intn(len(keyPrefixes))]
			}
			o := op{Kind: "iterate", Prefix: p, Mode: []string{"all", "stop", "error", "error+stop"}[rng.Intn(4)]}
			if o.Mode != "all" {
				o.At = 1 + rng.Intn(3)
			}
			ops = append(ops, o)
		default:
			ops = append(ops, op{Kind: "reopen"})
		}
	}
	return ops
}

// ---- the stores ------------------------------------------------------------------------

type storeKind struct {
	name   string // case label
	family string // finding-key prefix: the code that implements it
}

var kinds = []storeKind{{"leveldb-mem", "leveldb"}, {"leveldb-dir", "leveldb"}, {"mock", "mock"}}

var logger = logging.New(io.Discard, 0)

func openStore(kind, dir string) (storage.StateStorer, error) {
	switch kind {
	case "leveldb-mem":
		return ldbstore.NewInMemoryStateStore(logger)
	case "leveldb-dir":
		return ldbstore.NewStateStore(dir, logger)
	}
	return mock.NewStateStore(), nil
}

var errCallback = errors.New("c18: error returned by the iteration callback")

type histRun struct {
	t      *testing.T
	run    *obs.Run
	c      *obs.Case
	fam    string
	kind   string
	s      storage.StateStorer
	model  map[string]val
	done   []string // ops applied so far (witness)
	maxLen int
	nviol  int
	// reopenFn closes and reopens the store behind h.s (persistent store only)
	reopenFn func()
}

func (h *histRun) witness(extra map[string]interface{}) map[string]interface{} {
	ops := h.done
	if len(ops) > 60 {
		ops = ops[len(ops)-60:]
	}
	w := map[string]interface{}{"store": h.kind, "ops_so_far": ops}
	for k, v := range extra {
		w[k] = v
	}
	return w
}

func (h *histRun) viol(key, msg string, extra map[string]interface{}) {
	h.nviol++
	h.c.Viol(h.fam+"/"+key, msg, h.witness(extra))
}

func q(keys []string) []string {
	out := make([]string, len(keys))
	for i, k := range keys {
		out[i] = fmt.Sprintf("%q", k)
	}
	return out
}

func (h *histRun) matches(prefix string) []string {
	var ks []string
	for k := range h.model {
		if strings.HasPrefix(k, prefix) {
			ks = append(ks, k)
		}
	}
	sort.Strings(ks) // Go string comparison is byte-wise
	return ks
}

func (h *histRun) checkGet(key, tag string) {
	want, present := h.model[key]
	if !present {
		var x interface{}
		err := h.s.Get(key, &x)
		h.run.Stat("get_absent", 1)
		switch {
		case err == nil:
			h.viol(tag+"get-finds-absent-key", fmt.Sprintf("Get(%q) succeeded (%v) but the key was deleted or never written", key, x), nil)
		case !errors.Is(err, storage.ErrNotFound):
			h.viol(tag+"get-absent-key-error-not-notfound", fmt.Sprintf("Get(%q) of an absent key: %v", key, err), nil)
		}
		return
	}
	eq, got, err := want.get(h.s, key)
	h.run.Stat("get_present", 1)
	h.run.Stat("get_present_"+kindNames[want.kind], 1)
	switch {
	case err != nil && errors.Is(err, storage.ErrNotFound):
		h.viol(tag+"get-notfound-on-present-key", fmt.Sprintf("Get(%q): not found, but %s was written", key, want.describe()), nil)
	case err != nil:
		h.viol(tag+"get-error-on-present-key", fmt.Sprintf("Get(%q): %v", key, err), nil)
	case !eq:
		h.viol(tag+"get-value-mismatch", fmt.Sprintf("Get(%q)=%s, written %s", key, got, want.describe()), nil)
	}
}

func (h *histRun) iterate(o op) {
	all := h.matches(o.Prefix)
	limit := len(all)
	expectErr := false
	if o.Mode != "all" && o.At <= len(all) {
		limit = o.At
		expectErr = o.Mode != "stop"
	}
	want := all[:limit]

	var visited []string
	badValue := ""
	calls := 0
	const runaway = 10000
	err := h.s.Iterate(o.Prefix, func(k, v []byte) (bool, error) {
		key := string(k) // copies
		if schemaKeys[key] {
			return false, nil // implementation-private entry, outside the map under test
		}
		calls++
		if calls > runaway {
			return true, nil
		}
		visited = append(visited, key)
		if mv, ok := h.model[key]; ok && badValue == "" && !mv.matchesEncoded(append([]byte(nil), v...)) {
			badValue = key
		}
		if o.Mode != "all" && calls == o.At {
			switch o.Mode {
			case "stop":
				return true, nil
			case "error":
				return false, errCallback
			default:
				return true, errCallback
			}
		}
		return false, nil
	})
	h.run.Stat("iterate_"+o.Mode, 1)
	h.run.Stat("keys_visited", int64(len(visited)))
	if limit < len(all) {
		h.run.Stat("iterate_cut_short", 1)
	}
	x := map[string]interface{}{"prefix": fmt.Sprintf("%q", o.Prefix), "mode": o.Mode, "at": o.At,
		"visited": q(visited), "expected": q(want), "all_matching_sorted": q(all)}

	// --- returned error
	switch {
	case expectErr && err == nil:
		h.run.Stat("callback_error_expected", 1)
		h.viol("iterate-callback-error-swallowed", fmt.Sprintf("callback returned an error at invocation %d, Iterate(%q) returned nil", o.At, o.Prefix), x)
	case expectErr && !errors.Is(err, errCallback):
		h.run.Stat("callback_error_expected", 1)
		h.viol("iterate-callback-error-replaced", fmt.Sprintf("callback returned its error at invocation %d, Iterate returned another: %v", o.At, err), x)
	case expectErr:
		h.run.Stat("callback_error_expected", 1)
		h.run.Stat("callback_error_returned", 1)
	case err != nil:
		h.viol("iterate-unexpected-error", fmt.Sprintf("Iterate(%q): %v", o.Prefix, err), x)
	}

	// --- visited keys
	seen := map[string]bool{}
	for _, k := range visited {
		if _, ok := h.model[k]; !ok || !strings.HasPrefix(k, o.Prefix) {
			h.viol("iterate-visits-absent-or-nonmatching-key", fmt.Sprintf("Iterate(%q) visited %q", o.Prefix, k), x)
			return
		}
		if seen[k] {
			h.viol("iterate-visits-key-twice", fmt.Sprintf("Iterate(%q) visited %q twice", o.Prefix, k), x)
			return
		}
		seen[k] = true
	}
	if badValue != "" {
		h.viol("iterate-value-mismatch", fmt.Sprintf("Iterate(%q): value passed for %q does not decode to %s", o.Prefix, badValue, h.model[badValue].describe()), x)
	}
	switch {
	case reflect.DeepEqual(visited, want) || len(visited) == 0 && len(want) == 0:
		if len(want) >= 2 {
			h.run.Stat("ordered_visits_of_2plus_keys", 1)
		}
	case len(visited) > len(want):
		h.viol("iterate-does-not-stop", fmt.Sprintf("Iterate(%q) %s@%d made %d invocations, expected %d", o.Prefix, o.Mode, o.At, len(visited), len(want)), x)
	case len(visited) < len(want):
		h.viol("iterate-misses-key", fmt.Sprintf("Iterate(%q) visited %d of the %d keys it had to", o.Prefix, len(visited), len(want)), x)
	default:
		// right number of distinct matching keys, but not the ascending sequence (for a cut-short
		// iteration: not the smallest ones first)
		h.viol("iterate-not-ascending", fmt.Sprintf("Iterate(%q) visited %v, ascending byte order is %v", o.Prefix, q(visited), q(want)), x)
	}
}

func (h *histRun) fullCheck(tag string) {
	keys := map[string]bool{}
	for k := range h.model {
		keys[k] = true
	}
	for _, p := range keyPrefixes {
		for _, s := range keySuffixes {
			keys[p+s] = true
		}
	}
	sorted := make([]string, 0, len(keys))
	for k := range keys {
		sorted = append(sorted, k)
	}
	sort.Strings(sorted)
	for _, k := range sorted {
		h.checkGet(k, tag)
	}
}

func (h *histRun) apply(o op) {
	h.done = append(h.done, o.String())
	switch o.Kind {
	case "put":
		if err := o.v.put(h.s, o.Key); err != nil {
			h.viol("put-error", fmt.Sprintf("Put(%q, %s): %v", o.Key, o.Val, err), nil)
			return
		}
		h.model[o.Key] = o.v
		h.run.Stat("put", 1)
		if len(h.model) > h.maxLen {
			h.maxLen = len(h.model)
		}
	case "get":
		h.checkGet(o.Key, "")
	case "delete":
		_, present := h.model[o.Key]
		if err := h.s.Delete(o.Key); err != nil {
			if present {
				h.viol("delete-error", fmt.Sprintf("Delete(%q): %v", o.Key, err), nil)
				return
			}
			h.run.Stat("delete_absent_error", 1) // not covered by the statement
		}
		if present {
			h.run.Stat("delete_present", 1)
		}
		delete(h.model, o.Key)
		h.checkGet(o.Key, "")
	case "iterate":
		h.iterate(o)
	case "reopen":
		if h.kind != "leveldb-dir" {
			return
		}
		h.reopenFn()
		h.run.Stat("reopen", 1)
		h.run.Stat("values_checked_after_reopen", int64(len(h.model)))
		h.fullCheck("after-reopen-")
		h.iterate(op{Kind: "iterate", Prefix: "", Mode: "all"})
	}
}

// sharedStore keeps one opened store for several consecutive histories (opening a leveldb costs
// ~70 ms: goleveldb zeroes a 32 MiB write buffer). Each history ends by deleting every key it
// left alive and checking that they are gone, so the next history starts from an empty map.
type sharedStore struct {
	kind string
	s    storage.StateStorer
	dir  string
	used int
}

func (ss *sharedStore) get(t *testing.T) storage.StateStorer {
	if ss.s != nil && ss.used < 25 {
		ss.used++
		return ss.s
	}
	ss.drop()
	if ss.kind == "leveldb-dir" {
		d, err := os.MkdirTemp(scratchRoot(), "c18-")
		if err != nil {
			t.Fatal(err)
		}
		ss.dir = d
	}
	s, err := openStore(ss.kind, ss.dir)
	if err != nil {
		t.Fatalf("open %s: %v", ss.kind, err)
	}
	ss.s, ss.used = s, 1
	return s
}

func (ss *sharedStore) drop() {
	if ss.s != nil {
		_ = ss.s.Close()
		ss.s = nil
	}
	if ss.dir != "" {
		os.RemoveAll(ss.dir)
		ss.dir = ""
	}
}

func runHistories(t *testing.T, sk storeKind, every int) {
	run := obs.Start(t, "C18")
	defer run.Done()
	run.Rule("store "+sk.name+": random histories of put (string, struct, []byte, BinaryMarshaler, uint64 values)/get/delete/iterate(prefix; run to end | stop at j | error at j | error+stop at j)/reopen over ~90 keys that share prefixes (incl. 0x00/0xff bytes, multi-byte runes); history i is the same for the three stores (leveldb in memory, leveldb on disk with reopen = close + open, mock; the on-disk store runs every 3rd history); distinct = (store, keys alive at the end, most keys alive, iterate modes used, reopen seen)",
		"the stores' private schema entries (statestore_schema, schema_name) are not part of the map: the observer ignores them when an empty prefix reaches them",
		"values are compared semantically after reading into a variable of the written type (valid UTF-8 strings only)",
		"the iteration callback does not call back into the store",
		"a store instance is reused by up to 25 consecutive histories; each history deletes what it left and verifies the deletions")
	nh := run.N(300, 3000)
	nops := 40
	ss := &sharedStore{kind: sk.name}
	defer ss.drop()
	for i := 0; i < nh; i++ {
		if i%every != 0 {
			continue
		}
		ops := genHistory(run.RandFor(fmt.Sprintf("hist/%d", i)), nops)
		c := run.Begin(fmt.Sprintf("hist/%d/%s", i, sk.name), map[string]interface{}{"store": sk.name, "ops": opStrings(ops)})
		if c == nil {
			continue
		}
		h := &histRun{t: t, run: run, c: c, fam: sk.family, kind: sk.name, s: ss.get(t), model: map[string]val{}}
		h.reopenFn = func() {
			if err := h.s.Close(); err != nil {
				t.Fatalf("close: %v", err)
			}
			s, err := openStore(sk.name, ss.dir)
			if err != nil {
				t.Fatalf("reopen: %v", err)
			}
			h.s, ss.s = s, s
		}
		modes := map[string]bool{}
		reopened := false
		for _, o := range ops {
			h.apply(o)
			if o.Kind == "iterate" {
				modes[o.Mode] = true
			}
			if o.Kind == "reopen" && sk.name == "leveldb-dir" {
				reopened = true
			}
		}
		// final state: every key of the universe, and a full ordered scan
		h.done = append(h.done, "final check")
		h.fullCheck("")
		h.iterate(op{Kind: "iterate", Prefix: "", Mode: "all"})
		if sk.name == "leveldb-dir" {
			// values must survive a last close + reopen as well
			h.apply(op{Kind: "reopen"})
			reopened = true
		}
		alive, maxLen := len(h.model), h.maxLen
		// leave an empty map behind: delete what is alive, deleted keys must be absent
		h.done = append(h.done, "delete all")
		left := h.matches("")
		for _, k := range left {
			h.apply(op{Kind: "delete", Key: k})
		}
		h.iterate(op{Kind: "iterate", Prefix: "", Mode: "all"})
		if h.nviol > 0 {
			ss.drop() // do not let a store that misbehaved leak into the next history
		}
		ms := make([]string, 0, 4)
		for m := range modes {
			ms = append(ms, m)
		}
		sort.Strings(ms)
		c.End(fmt.Sprintf("%s/alive=%d/max=%d/%s/reopen=%v", sk.name, alive, maxLen, strings.Join(ms, ","), reopened), maxLen >= 2)
		if i == 0 {
			run.Sample(map[string]interface{}{"store": sk.name, "history": opStrings(ops)})
		}
	}
}

func TestStateStoreLeveldbMem(t *testing.T) { runHistories(t, kinds[0], 1) }
func TestStateStoreLeveldbDir(t *testing.T) { runHistories(t, kinds[1], 3) }
func TestStateStoreMock(t *testing.T)       { runHistories(t, kinds[2], 1) }

func opStrings(ops []op) []string {
	out := make([]string, len(ops))
	for i, o := range ops {
		out[i] = o.String()
	}
	return out
}

// scratchRoot prefers a memory-backed directory for the on-disk stores (the driver fsyncs every
// write; on a shared disk that dominates the run time). The store still works on real files and
// is closed and reopened from them.
func scratchRoot() string {
	if st, err := os.Stat("/dev/shm"); err == nil && st.IsDir() {
		return "/dev/shm"
	}
	return ""
}
