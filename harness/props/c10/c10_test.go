package c10

import (
	"bytes"
	"context"
	"errors"
	"fmt"
	"math/rand"
	"sort"
	"strings"
	"testing"

	"github.com/gauss-project/aurorafs/pkg/boson"
	"github.com/gauss-project/aurorafs/pkg/file/loadsave"
	"github.com/gauss-project/aurorafs/pkg/file/pipeline"
	"github.com/gauss-project/aurorafs/pkg/file/pipeline/builder"
	"github.com/gauss-project/aurorafs/pkg/manifest"
	"github.com/gauss-project/aurorafs/pkg/storage"

	"verif/harness/internal/memstore"
	"verif/harness/internal/obs"
)

// ---- model ---------------------------------------------------------------------------

type entry struct {
	Ref  string            `json:"ref"` // hex
	Meta map[string]string `json:"meta,omitempty"`
}

func (e entry) equal(o entry) bool {
	if e.Ref != o.Ref || len(e.Meta) != len(o.Meta) {
		return false
	}
	for k, v := range e.Meta {
		if o.Meta[k] != v {
			return false
		}
	}
	return true
}

type op struct {
	Kind string `json:"op"` // add remove store reload
	Path string `json:"path,omitempty"`
	E    *entry `json:"entry,omitempty"`
	// bookkeeping
	epoch int
}

// ---- path universe ----------------------------------------------------------------------

var letters = []string{"a", "b", "ab", "/", "c", "ü", "a/b", "zz"}

func genPath(rng *rand.Rand) string {
	n := 1 + rng.Intn(5)
	var sb strings.Builder
	for i := 0; i < n; i++ {
		sb.WriteString(letters[rng.Intn(len(letters))])
	}
	p := sb.String()
	switch rng.Intn(8) {
	case 0: // longer than mantaray's 30-byte prefix limit
		p += strings.Repeat("x", 28+rng.Intn(40))
	case 1:
		p += "/index.html"
	}
	return p
}

func universe(rng *rand.Rand) []string {
	n := 3 + rng.Intn(10)
	set := map[string]bool{}
	var base []string
	for len(base) < n {
		p := genPath(rng)
		if p == "/" || set[p] {
			continue
		}
		set[p] = true
		base = append(base, p)
	}
	// extensions and proper prefixes of some of them (may or may not get added)
	for _, p := range base {
		if rng.Intn(3) == 0 {
			q := p + letters[rng.Intn(len(letters))]
			if !set[q] {
				set[q] = true
			}
		}
		if len(p) > 1 && rng.Intn(3) == 0 {
			q := p[:1+rng.Intn(len(p)-1)]
			if q != "/" && !set[q] {
				set[q] = true
			}
		}
	}
	out := make([]string, 0, len(set))
	for p := range set {
		out = append(out, p)
	}
	sort.Strings(out)
	return out
}

func prefixesOf(paths []string) []string {
	set := map[string]bool{}
	for _, p := range paths {
		b := []byte(p)
		for i := 1; i <= len(b); i++ {
			set[string(b[:i])] = true
		}
		set[p+"q"] = true
	}
	out := make([]string, 0, len(set))
	for p := range set {
		out = append(out, p)
	}
	sort.Strings(out)
	return out
}

// ---- system under test --------------------------------------------------------------------

type sut struct {
	ctx     context.Context
	st      *memstore.Store
	enc     bool
	refLen  int
	m       manifest.Interface
	lastRef boson.Address
}

func newSUT(enc bool) (*sut, error) {
	s := &sut{ctx: context.Background(), st: memstore.New(), enc: enc, refLen: 32}
	if enc {
		s.refLen = 64
	}
	m, err := manifest.NewDefaultManifest(s.ls(), enc)
	s.m = m
	return s, err
}

func (s *sut) ls() interface {
	Load(context.Context, []byte) ([]byte, error)
	Save(context.Context, []byte) ([]byte, error)
} {
	factory := func() pipeline.Interface {
		return builder.NewPipelineBuilder(s.ctx, s.st, storage.ModePutUpload, s.enc)
	}
	return loadsave.New(s.st, factory)
}

func (s *sut) load(ref boson.Address) (manifest.Interface, error) {
	return manifest.NewDefaultManifestReference(ref, s.ls())
}

func lookup(ctx context.Context, m manifest.Interface, p string) (e entry, found bool, err error) {
	me, err := m.Lookup(ctx, p)
	if err != nil {
		if errors.Is(err, manifest.ErrNotFound) {
			return entry{}, false, nil
		}
		return entry{}, false, err
	}
	ref := me.Reference().Bytes()
	// an empty reference and an all-zero reference are the same "no content" entry
	if len(bytes.Trim(ref, "\x00")) == 0 {
		ref = nil
	}
	return entry{Ref: fmt.Sprintf("%x", ref), Meta: me.Metadata()}, true, nil
}

// ---- observation --------------------------------------------------------------------------

type mismatch struct {
	Path string `json:"path"`
	Kind string `json:"kind"` // missing | extra | stale | hasprefix
	Got  string `json:"got"`
	Want string `json:"want"`
}

func hasPrefixModel(model map[string]entry, p string) bool {
	for k := range model {
		if strings.HasPrefix(k, p) {
			return true
		}
	}
	return false
}

// observe compares every universe path and every prefix on m with the model.
func observe(ctx context.Context, m manifest.Interface, model map[string]entry, uni, prefs []string, run *obs.Run) (mm []mismatch, err error) {
	for _, p := range uni {
		got, found, err := lookup(ctx, m, p)
		if err != nil {
			return nil, fmt.Errorf("lookup %q: %w", p, err)
		}
		want, mapped := model[p]
		run.Stat("lookups_compared", 1)
		switch {
		case mapped && !found:
			mm = append(mm, mismatch{Path: p, Kind: "missing", Got: "not-found", Want: want.Ref})
		case !mapped && found:
			mm = append(mm, mismatch{Path: p, Kind: "extra", Got: got.Ref, Want: "not-found"})
		case mapped && found && !got.equal(want):
			mm = append(mm, mismatch{Path: p, Kind: "stale", Got: fmt.Sprintf("%s %v", got.Ref, got.Meta), Want: fmt.Sprintf("%s %v", want.Ref, want.Meta)})
		}
	}
	for _, p := range prefs {
		got, err := m.HasPrefix(ctx, p)
		if err != nil {
			return nil, fmt.Errorf("hasprefix %q: %w", p, err)
		}
		run.Stat("prefix_queries_compared", 1)
		if want := hasPrefixModel(model, p); got != want {
			mm = append(mm, mismatch{Path: p, Kind: "hasprefix", Got: fmt.Sprint(got), Want: fmt.Sprint(want)})
		}
	}
	return mm, nil
}

func randEntry(rng *rand.Rand, refLen int) entry {
	ref := make([]byte, refLen)
	rng.Read(ref)
	ref[0] |= 1 // never all-zero
	e := entry{Ref: fmt.Sprintf("%x", ref)}
	if rng.Intn(2) == 0 {
		e.Meta = map[string]string{"Content-Type": []string{"text/html", "image/png", "ü/ñ"}[rng.Intn(3)]}
		if rng.Intn(3) == 0 {
			e.Meta["Filename"] = fmt.Sprintf("f%d", rng.Intn(1000))
		}
	}
	return e
}

func (s *sut) add(m manifest.Interface, p string, e entry) error {
	var ref []byte
	fmt.Sscanf(e.Ref, "%x", &ref)
	return m.Add(s.ctx, p, manifest.NewEntry(boson.NewAddress(ref), e.Meta))
}

func isProperPrefixOfMapped(model map[string]entry, p string) bool {
	for k := range model {
		if k != p && strings.HasPrefix(k, p) {
			return true
		}
	}
	return false
}

// safely runs f, converting a panic into an error string.
func safely(f func() error) (err error, panicked string) {
	defer func() {
		if r := recover(); r != nil {
			panicked = fmt.Sprint(r)
		}
	}()
	return f(), ""
}

// ---- strict histories: must agree completely ---------------------------------------------------

// Strict histories are the flows the node itself performs (build a manifest, store it, load
// it by reference, look paths up) plus adding further new paths (no prefix of a mapped path) to a
// reloaded manifest. They
// contain none of the operation shapes for which the external mantaray library
// (github.com/gauss-project/manifest v0.4.2, not part of the repository) is known to lose
// information (see TestUnrestricted), so every observation must agree with the map.
func TestStrictHistories(t *testing.T) {
	run := obs.Start(t, "C10")
	defer run.Done()
	run.Rule("model-based histories over a random path universe (3..20 paths over a small alphabet with '/', unicode, >30-byte names, prefixes/extensions): adds and overwrites (with metadata) on a fresh manifest observed after every op, then rounds of [1 in 4: a store refused part of the way by the size callback, observe; store, reload, observe, add unmapped paths on a fresh reloaded instance]; every universe path looked up and every byte-prefix queried at each observation point; distinct = (ops, stores, universe size, encrypted, overwrites)",
		"'/' root entry compared as empty-or-zero reference", "manifest trie is the external module gauss-project/manifest v0.4.2")
	n := run.N(150, 1500)
	for i := 0; i < n; i++ {
		c := run.Begin(fmt.Sprintf("strict/%d", i), nil)
		if c == nil {
			continue
		}
		rng := c.Rand()
		enc := i%4 == 3
		s, err := newSUT(enc)
		if err != nil {
			t.Fatal(err)
		}
		uni := universe(rng)
		model := map[string]entry{}
		var hist []op
		overwrites, stores := 0, 0
		if rng.Intn(2) == 0 {
			meta := map[string]string{manifest.WebsiteIndexDocumentSuffixKey: "index.html"}
			if err := s.m.Add(s.ctx, manifest.RootPath, manifest.NewEntry(boson.ZeroAddress, meta)); err != nil {
				t.Fatal(err)
			}
			model["/"] = entry{Ref: "", Meta: meta}
			hist = append(hist, op{Kind: "add", Path: "/", E: &entry{Ref: "", Meta: meta}})
			uni = append(uni, "/")
		}
		// every 8th history: sibling paths below one directory whose entries carry long
		// descriptions, so that one manifest node serialises to 100..600 KB (more than a chunk)
		heavy := i%8 == 5
		perEntry := 0
		if heavy {
			uni = nil
			nsib := 8 + rng.Intn(23)
			for k := 0; k < nsib; k++ {
				uni = append(uni, fmt.Sprintf("docs/%c%d.txt", 'A'+k, rng.Intn(100)))
			}
			perEntry = (100000 + rng.Intn(500000)) / nsib
			if perEntry > 40000 {
				perEntry = 40000
			}
			run.Stat("heavy_metadata_histories", 1)
		}
		prefs := prefixesOf(uni)
		bad := false
		check := func(m manifest.Interface, after string) {
			mm, err := observe(s.ctx, m, model, uni, prefs, run)
			if err != nil {
				c.Viol("observe-error", err.Error(), map[string]interface{}{"encrypted": enc, "history": hist})
				bad = true
				return
			}
			if len(mm) > 0 {
				if len(mm) > 4 {
					mm = mm[:4]
				}
				c.Viol("strict-history-disagrees-"+mm[0].Kind, fmt.Sprintf("manifest disagrees with the path map after %s: %+v", after, mm[0]),
					map[string]interface{}{"encrypted": enc, "history": hist, "mismatches": mm})
				bad = true
			}
		}
		n0 := 3 + rng.Intn(14)
		if heavy {
			n0 = 2 * len(uni)
		}
		for k := 0; k < n0 && !bad; k++ {
			p := uni[rng.Intn(len(uni))]
			if p == "/" {
				continue
			}
			e := randEntry(rng, s.refLen)
			if heavy {
				e.Meta = map[string]string{"Content-Type": "text/plain", "Description": strings.Repeat(fmt.Sprintf("%05d ", rng.Intn(100000)), perEntry/6)}
			}
			if _, mapped := model[p]; mapped {
				if e.Meta == nil { // overwrite always carries metadata in strict histories
					e.Meta = map[string]string{"Content-Type": "text/plain"}
				}
				overwrites++
			}
			if err := s.add(s.m, p, e); err != nil {
				c.Viol("add-error", "Add failed: "+err.Error(), map[string]interface{}{"history": hist, "path": p})
				bad = true
				break
			}
			model[p] = e
			hist = append(hist, op{Kind: "add", Path: p, E: &e})
			check(s.m, "add")
		}
		rounds := 1 + rng.Intn(3)
		w := s.m
		for r := 0; r < rounds && !bad; r++ {
			if rng.Intn(4) == 0 {
				// a store that fails part of the way (the size callback refuses after n calls, as an
				// upload quota would), followed by the ordinary retry below
				left := rng.Intn(3)
				_, ferr := w.Store(s.ctx, func(int64) error {
					if left == 0 {
						return errors.New("c10: size callback refuses")
					}
					left--
					return nil
				})
				hist = append(hist, op{Kind: fmt.Sprintf("store-refused-by-size-callback(err=%v)", ferr != nil)})
				run.Stat("failed_stores_before_a_retry", 1)
				check(w, "failed store")
				if bad {
					break
				}
			}
			ref, err := w.Store(s.ctx)
			if err != nil {
				c.Viol("store-error", err.Error(), map[string]interface{}{"encrypted": enc, "history": hist})
				break
			}
			stores++
			hist = append(hist, op{Kind: "store"}, op{Kind: "reload"})
			observer, err := s.load(ref)
			if err != nil {
				t.Fatal(err)
			}
			check(observer, "store+reload")
			if bad {
				break
			}
			run.Stat("reload_observations", 1)
			if ref2, err := observer.Store(s.ctx); err == nil && !ref2.Equal(ref) {
				c.Viol("restore-unchanged-changes-reference", "storing an unchanged reloaded manifest returned a different reference", map[string]interface{}{"history": hist})
			}
			w, err = s.load(ref)
			if err != nil {
				t.Fatal(err)
			}
			for k := 0; k < 1+rng.Intn(5); k++ {
				p := uni[rng.Intn(len(uni))]
				// only paths that are not a prefix of anything mapped: such a path cannot coincide
				// with an existing trie node (mapped path or branching point), see K4
				if hasPrefixModel(model, p) || p == "/" {
					continue
				}
				e := randEntry(rng, s.refLen)
				err, pan := safely(func() error { return s.add(w, p, e) })
				if pan != "" || err != nil {
					c.Viol("add-new-path-on-reloaded-manifest-fails", fmt.Sprintf("Add of an unmapped path on a reloaded manifest: err=%v panic=%s", err, pan), map[string]interface{}{"encrypted": enc, "history": hist, "path": p})
					bad = true
					break
				}
				model[p] = e
				hist = append(hist, op{Kind: "add", Path: p, E: &e})
			}
			if r == rounds-1 && !bad {
				ref, err := w.Store(s.ctx)
				if err != nil {
					c.Viol("store-error", err.Error(), map[string]interface{}{"encrypted": enc, "history": hist})
					break
				}
				stores++
				hist = append(hist, op{Kind: "store"}, op{Kind: "reload"})
				observer, _ := s.load(ref)
				check(observer, "adds on reloaded manifest + store + reload")
				run.Stat("reload_observations", 1)
			}
		}
		if i < 2 && !heavy {
			run.Sample(map[string]interface{}{"encrypted": enc, "universe": uni, "history": hist})
		}
		c.End(fmt.Sprintf("strict/ops=%d/stores=%d/uni=%d/enc=%v/ow=%d/heavy=%v", len(hist)/4*4, stores, len(uni)/4*4, enc, overwrites/2*2, heavy), len(hist) >= 4)
	}
}

// ---- unrestricted histories: known library shapes are attributed by exact signature -------------

// Known mechanisms of the external mantaray library (each a finding key):
//
//	K1 remove-drops-paths-extending-removed-path: Remove(p) deletes the whole fork, so every
//	   mapped q with p a proper byte-prefix of q disappears.
//	K2 mutation-after-load-not-persisted: a node whose children were loaded (by Lookup,
//	   HasPrefix, Remove or a previous Store) keeps its stored reference, Save skips it, so a
//	   later Add/Remove below it is lost at the next store+reload: the reloaded manifest answers
//	   as of an earlier store point.
//	K3 hasprefix-true-for-emptied-fork: removing the last path below an intermediate node
//	   leaves the empty node behind; HasPrefix stays true for prefixes of removed paths.
//	K4 overwrite-of-stored-path-breaks-store: Add on an existing path of a stored/reloaded
//	   manifest clears the node's reference without loading its forks; Store then fails with
//	   "input invalid" (or silently drops the node's children).
//	K5 add-panics-below-overwritten-stored-path: the same node then has a nil fork map; Add of
//	   a path below it panics (assignment to entry in nil map).
//	K6 overwrite-without-metadata-keeps-old-metadata: Add on an existing path with empty
//	   metadata keeps the previous metadata.
type tracker struct {
	snapshots      []map[string]entry // model at each store point (incl. the empty start)
	lostByK1       map[string]bool
	everMapped     map[string]bool
	prevMeta       map[string]map[string]string // metadata before the last Add per path
	lastAddNoMeta  map[string]bool
	overwroteStore bool // an Add hit a path mapped at the last store/reload boundary, on a stored instance
}

func (tr *tracker) explain(m mismatch, model map[string]entry) string {
	switch m.Kind {
	case "missing":
		if tr.lostByK1[m.Path] {
			return "remove-drops-paths-extending-removed-path"
		}
	case "stale":
		if tr.lastAddNoMeta[m.Path] && tr.prevMeta[m.Path] != nil {
			want := model[m.Path]
			if strings.HasPrefix(m.Got, want.Ref+" ") && m.Got == fmt.Sprintf("%s %v", want.Ref, tr.prevMeta[m.Path]) {
				return "overwrite-without-metadata-keeps-old-metadata"
			}
		}
	case "hasprefix":
		if m.Want == "true" {
			all := true
			for k := range model {
				if strings.HasPrefix(k, m.Path) && !tr.lostByK1[k] {
					all = false
				}
			}
			if all {
				return "remove-drops-paths-extending-removed-path"
			}
		} else {
			for k := range tr.everMapped {
				if _, still := model[k]; !still && strings.HasPrefix(k, m.Path) {
					return "hasprefix-true-for-emptied-fork"
				}
			}
		}
	}
	for _, snap := range tr.snapshots {
		switch m.Kind {
		case "missing":
			if _, ok := snap[m.Path]; !ok {
				return "mutation-after-load-not-persisted"
			}
		case "extra":
			if e, ok := snap[m.Path]; ok && e.Ref == m.Got {
				return "mutation-after-load-not-persisted"
			}
		case "stale":
			if e, ok := snap[m.Path]; ok && m.Got == fmt.Sprintf("%s %v", e.Ref, e.Meta) {
				return "mutation-after-load-not-persisted"
			}
		case "hasprefix":
			if fmt.Sprint(hasPrefixModel(snap, m.Path)) == m.Got {
				return "mutation-after-load-not-persisted"
			}
		}
	}
	return ""
}

func TestUnrestricted(t *testing.T) {
	run := obs.Start(t, "C10")
	defer run.Done()
	run.Rule("unrestricted histories (add/overwrite/remove/store/reload in any order on one instance, full observation after every op); a disagreement is attributed to one of six known mechanisms of the external library only if its exact signature matches (see the K1..K6 comment), after which the model is re-synchronised with the implementation for that path; anything unexplained is a violation; distinct = (ops, encrypted, which mechanisms were seen)")
	n := run.N(150, 1500)
	for i := 0; i < n; i++ {
		c := run.Begin(fmt.Sprintf("any/%d", i), nil)
		if c == nil {
			continue
		}
		rng := c.Rand()
		enc := i%4 == 3
		s, err := newSUT(enc)
		if err != nil {
			t.Fatal(err)
		}
		uni := universe(rng)
		prefs := prefixesOf(uni)
		model := map[string]entry{}
		var hist []op
		tr := &tracker{lostByK1: map[string]bool{}, everMapped: map[string]bool{}, prevMeta: map[string]map[string]string{}, lastAddNoMeta: map[string]bool{}}
		tr.snapshots = append(tr.snapshots, map[string]entry{})
		seen := map[string]bool{}
		w := s.m
		nops := 6 + rng.Intn(20)
		stored := false   // a reference exists
		onStored := false // the instance has been stored or loaded (nodes carry references)
		boundary := map[string]entry{}
		witness := func(extra map[string]interface{}) map[string]interface{} {
			o := map[string]interface{}{"encrypted": enc, "history": append([]op(nil), hist...)}
			for k, v := range extra {
				o[k] = v
			}
			return o
		}
	ops:
		for k := 0; k < nops; k++ {
			p := uni[rng.Intn(len(uni))]
			_, mapped := model[p]
			switch x := rng.Intn(10); {
			case x < 5:
				e := randEntry(rng, s.refLen)
				hist = append(hist, op{Kind: "add", Path: p, E: &e})
				err, pan := safely(func() error { return s.add(w, p, e) })
				if pan != "" {
					key := "panic-in-add"
					if tr.overwroteStore && strings.Contains(pan, "nil map") {
						key = "add-panics-below-overwritten-stored-path"
					}
					seen[key] = true
					c.Viol(key, "Add panicked: "+pan, witness(nil))
					break ops
				}
				if err != nil {
					c.Viol("add-error", "Add failed: "+err.Error(), witness(nil))
					break ops
				}
				if onStored && hasPrefixModel(boundary, p) {
					// p may coincide with a node of the stored trie (mapped path or branching point)
					tr.overwroteStore = true
				}
				if old, ok := model[p]; ok {
					tr.prevMeta[p] = old.Meta
				} else {
					delete(tr.prevMeta, p)
				}
				tr.lastAddNoMeta[p] = len(e.Meta) == 0
				model[p] = e
				tr.everMapped[p] = true
				delete(tr.lostByK1, p)
			case x < 7 && mapped:
				hist = append(hist, op{Kind: "remove", Path: p})
				err, pan := safely(func() error { return w.Remove(s.ctx, p) })
				if pan != "" {
					c.Viol("panic-in-remove", "Remove panicked: "+pan, witness(nil))
					break ops
				}
				if err != nil {
					c.Viol("remove-error", "Remove of a mapped path failed: "+err.Error(), witness(nil))
					break ops
				}
				delete(model, p)
				for q := range model {
					if strings.HasPrefix(q, p) {
						tr.lostByK1[q] = true
					}
				}
			case x < 9:
				hist = append(hist, op{Kind: "store"})
				var ref boson.Address
				err, pan := safely(func() (e error) { ref, e = w.Store(s.ctx); return })
				if pan != "" {
					c.Viol("panic-in-store", "Store panicked: "+pan, witness(nil))
					break ops
				}
				if err != nil {
					key := "store-error"
					if tr.overwroteStore && strings.Contains(err.Error(), "input invalid") {
						key = "overwrite-of-stored-path-breaks-store"
					}
					seen[key] = true
					c.Viol(key, "Store failed: "+err.Error(), witness(nil))
					break ops
				}
				s.lastRef = ref
				stored, onStored = true, true
				snap := map[string]entry{}
				for k, v := range model {
					snap[k] = v
				}
				tr.snapshots = append(tr.snapshots, snap)
				boundary = snap
				tr.overwroteStore = false
			default:
				if !stored {
					continue
				}
				hist = append(hist, op{Kind: "reload"})
				w, err = s.load(s.lastRef)
				if err != nil {
					t.Fatal(err)
				}
				onStored = true
				tr.overwroteStore = false
				// what the stored reference holds is the model at the last store (modulo earlier, already attributed losses)
			}
			var mm []mismatch
			err, pan := safely(func() (e error) { mm, e = observe(s.ctx, w, model, uni, prefs, run); return })
			if pan != "" {
				c.Viol("panic-in-lookup", "Lookup/HasPrefix panicked: "+pan, witness(nil))
				break
			}
			if err != nil {
				c.Viol("observe-error", err.Error(), witness(nil))
				break
			}
			for _, m := range mm {
				key := tr.explain(m, model)
				if key == "" && tr.overwroteStore {
					// the node overwritten on a stored instance lost its (unloaded) children
					if m.Kind == "missing" || (m.Kind == "hasprefix" && m.Want == "true") {
						key = "overwrite-of-stored-path-drops-children"
					}
				}
				if key == "" {
					key = "unexplained-disagreement-" + m.Kind
				}
				seen[key] = true
				c.Viol(key, fmt.Sprintf("after %s: %+v", hist[len(hist)-1].Kind, m), witness(map[string]interface{}{"mismatch": m}))
				if m.Kind != "hasprefix" {
					got, found, _ := lookup(s.ctx, w, m.Path)
					if found {
						model[m.Path] = got
						tr.lastAddNoMeta[m.Path] = false
					} else {
						delete(model, m.Path)
						delete(tr.lostByK1, m.Path)
					}
				}
			}
			if len(mm) == 0 {
				run.Stat("unrestricted_observations_agreeing", 1)
			} else {
				run.Stat("unrestricted_observations_with_attributed_disagreement", 1)
			}
		}
		if i < 1 {
			run.Sample(map[string]interface{}{"encrypted": enc, "universe": uni, "history": hist})
		}
		var ks []string
		for k := range seen {
			ks = append(ks, k)
		}
		sort.Strings(ks)
		c.End(fmt.Sprintf("any/ops=%d/enc=%v/%s", len(hist)/4*4, enc, strings.Join(ks, "+")), true)
	}
}
