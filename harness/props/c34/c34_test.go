// Package c34 monitors every place where a peer address record (overlay, underlay,
// signature) is accepted - aurora.ParseAddress, the handshake service in both directions
// and the two routetab paths (FindUnderlay reply, underlay lists in route messages) -
// against an independent oracle (harness/internal/spec/addrrec.go: libsecp256k1 recovery
// and overlay derivation):
//
//	A record is accepted only if the signature over the underlay, overlay and network id was
//	made by a key whose overlay is the claimed one. Changing any of those four values makes
//	the record rejected, and records produced by a node's own signer are always accepted.
package c34

import (
	"context"
	"crypto/ecdsa"
	"fmt"
	"io"
	"math/big"
	"math/rand"
	"strings"
	"testing"
	"time"

	"github.com/gauss-project/aurorafs/pkg/aurora"
	"github.com/gauss-project/aurorafs/pkg/boson"
	"github.com/gauss-project/aurorafs/pkg/crypto"
	"github.com/gauss-project/aurorafs/pkg/logging"
	"github.com/gauss-project/aurorafs/pkg/p2p"
	"github.com/gauss-project/aurorafs/pkg/p2p/libp2p/verifx"
	"github.com/gauss-project/aurorafs/pkg/p2p/protobuf"
	rpb "github.com/gauss-project/aurorafs/pkg/routetab/pb"
	"github.com/gauss-project/aurorafs/pkg/topology/lightnode"
	libp2pcrypto "github.com/libp2p/go-libp2p-core/crypto"
	libp2ppeer "github.com/libp2p/go-libp2p-core/peer"
	ma "github.com/multiformats/go-multiaddr"
	"github.com/sirupsen/logrus"
	"verif/harness/internal/obs"
	"verif/harness/internal/rtsim"
	"verif/harness/internal/spec"
)

var quiet = logging.New(io.Discard, logrus.ErrorLevel)

// secp256k1 group order
var curveN, _ = new(big.Int).SetString("fffffffffffffffffffffffffffffffebaaedce6af48a03bbfd25e8cd0364141", 16)

type ident struct {
	key     *ecdsa.PrivateKey
	signer  crypto.Signer
	overlay boson.Address
	peerID  libp2ppeer.ID
}

func newIdent(t testing.TB, rng *rand.Rand) *ident {
	kb := make([]byte, 32)
	rng.Read(kb)
	kb[0] = kb[0]&0x7f | 1
	key := crypto.Secp256k1PrivateKeyFromBytes(kb)
	ov, err := crypto.NewOverlayAddress(key.PublicKey, 0)
	if err != nil {
		t.Fatalf("harness: overlay: %v", err)
	}
	_, pub, err := libp2pcrypto.GenerateEd25519Key(rng)
	if err != nil {
		t.Fatalf("harness: libp2p key: %v", err)
	}
	id, err := libp2ppeer.IDFromPublicKey(pub)
	if err != nil {
		t.Fatalf("harness: peer id: %v", err)
	}
	return &ident{key: key, signer: crypto.NewDefaultSigner(key), overlay: ov, peerID: id}
}

// underlay kinds
var underlayKinds = []string{"ip4", "ip6", "dns4"}

// allKinds adds unusually long underlays (sign data beyond 128 bytes) for the sites that
// take any multiaddress
var allKinds = []string{"ip4", "ip6", "dns4", "dns4long", "relayed"}

func underlayOf(t testing.TB, rng *rand.Rand, kind string, id libp2ppeer.ID, withPeer bool) ma.Multiaddr {
	var s string
	switch kind {
	case "ip4":
		s = fmt.Sprintf("/ip4/%d.%d.%d.%d/tcp/%d", 1+rng.Intn(222), rng.Intn(256), rng.Intn(256), 1+rng.Intn(254), 1024+rng.Intn(60000))
	case "ip6":
		s = fmt.Sprintf("/ip6/2001:db8:%x::%x/tcp/%d", rng.Intn(65536), 1+rng.Intn(65535), 1024+rng.Intn(60000))
	case "dns4long":
		// unusually long host names: 40..75 characters
		s = fmt.Sprintf("/dns4/%s.node%d.example.org/tcp/%d", strings.Repeat("x", 20+rng.Intn(36)), rng.Intn(100000), 1024+rng.Intn(60000))
		withPeer = true
	case "relayed":
		// circuit address through a relay: the longest form a node advertises
		s = fmt.Sprintf("/ip4/%d.%d.%d.%d/tcp/%d/p2p/%s/p2p-circuit", 1+rng.Intn(222), rng.Intn(256), rng.Intn(256), 1+rng.Intn(254), 1024+rng.Intn(60000), id.Pretty())
		withPeer = true
	default:
		s = fmt.Sprintf("/dns4/node%d.example.org/tcp/%d", rng.Intn(100000), 1024+rng.Intn(60000))
	}
	if withPeer {
		s += "/p2p/" + id.Pretty()
	}
	m, err := ma.NewMultiaddr(s)
	if err != nil {
		t.Fatalf("harness: multiaddr %q: %v", s, err)
	}
	return m
}

var networkIDs = []uint64{0, 1, 10, 1<<32 + 5, ^uint64(0)}

func nidClass(n uint64) string {
	switch {
	case n == 0:
		return "0"
	case n < 256:
		return "small"
	case n == ^uint64(0):
		return "max"
	}
	return "large"
}

type record struct {
	Underlay, Overlay, Sig []byte
}

func (r record) clone() record {
	return record{append([]byte(nil), r.Underlay...), append([]byte(nil), r.Overlay...), append([]byte(nil), r.Sig...)}
}

func (r record) witness() map[string]interface{} {
	return map[string]interface{}{"underlay": fmt.Sprintf("%x", r.Underlay), "overlay": fmt.Sprintf("%x", r.Overlay), "signature": fmt.Sprintf("%x", r.Sig)}
}

func ownRecord(t testing.TB, id *ident, under ma.Multiaddr, nid uint64) record {
	a, err := aurora.NewAddress(id.signer, under, id.overlay, nid)
	if err != nil {
		t.Fatalf("harness: NewAddress: %v", err)
	}
	ub, _ := under.MarshalBinary()
	return record{Underlay: ub, Overlay: id.overlay.Bytes(), Sig: a.Signature}
}

type expect int

const (
	mustAccept expect = iota
	mustReject
	countOnly
)

type mutant struct {
	rec   record
	class string
	exp   expect
}

func otherNid(rng *rand.Rand, nid uint64) uint64 {
	for {
		var n uint64
		switch rng.Intn(4) {
		case 0:
			n = networkIDs[rng.Intn(len(networkIDs))]
		case 1:
			n = nid ^ (1 << uint(rng.Intn(64)))
		case 2:
			n = nid + 1
		default:
			n = rng.Uint64()
		}
		if n != nid {
			return n
		}
	}
}

// mutants returns the single-field changes of base (a record id signed for nid over
// under), n samples per byte-level class. exhaustiveV adds every other value of v.
func mutants(t testing.TB, rng *rand.Rand, base record, id, other *ident, under ma.Multiaddr, nid uint64, n int, exhaustiveV bool) []mutant {
	var out []mutant
	add := func(r record, class string, e expect) { out = append(out, mutant{r, class, e}) }
	add(base.clone(), "none", mustAccept)
	for k := 0; k < n; k++ {
		r := base.clone()
		r.Underlay[rng.Intn(len(r.Underlay))] ^= 1 << uint(rng.Intn(8))
		add(r, "underlay-bit", mustReject)
	}
	{
		r := base.clone()
		o := underlayOf(t, rng, underlayKinds[rng.Intn(3)], id.peerID, rng.Intn(2) == 0)
		r.Underlay, _ = o.MarshalBinary()
		if string(r.Underlay) != string(base.Underlay) {
			add(r, "underlay-other-address", mustReject)
		}
	}
	for pos := 0; pos < len(base.Overlay); pos++ {
		if n < 8 && rng.Intn(4) != 0 {
			continue
		}
		r := base.clone()
		r.Overlay[pos] ^= 1 << uint(rng.Intn(8))
		add(r, "overlay-bit", mustReject)
	}
	{
		r := base.clone()
		r.Overlay = other.overlay.Bytes()
		add(r, "overlay-of-other-node", mustReject)
	}
	for k := 0; k < n; k++ {
		r := base.clone()
		r.Sig[rng.Intn(32)] ^= 1 << uint(rng.Intn(8))
		add(r, "sig-r-bit", mustReject)
		r = base.clone()
		r.Sig[32+rng.Intn(32)] ^= 1 << uint(rng.Intn(8))
		add(r, "sig-s-bit", mustReject)
	}
	v := base.Sig[64]
	{
		r := base.clone()
		r.Sig[64] = 27 + (((v - 27) & 3) ^ 1) + ((v - 27) & 4)
		add(r, "sig-v-recovery-id", mustReject)
		r = base.clone()
		r.Sig[64] = 27 + ((v - 27) & 3) + (((v - 27) & 4) ^ 4)
		add(r, "sig-v-encoding-alias", countOnly)
	}
	if exhaustiveV {
		for x := 0; x < 256; x++ {
			r := base.clone()
			r.Sig[64] = byte(x)
			if byte(x) == v || spec.SameSignatureValue(r.Sig, base.Sig) {
				continue
			}
			add(r, "sig-v-other", mustReject)
		}
	} else {
		for k := 0; k < 3; k++ {
			r := base.clone()
			r.Sig[64] = byte(rng.Intn(256))
			if r.Sig[64] == v || spec.SameSignatureValue(r.Sig, base.Sig) {
				continue
			}
			add(r, "sig-v-other", mustReject)
		}
	}
	{ // the other ECDSA encoding of the same signature: (r, N-s) with the recovery id flipped
		r := base.clone()
		s := new(big.Int).SetBytes(r.Sig[32:64])
		s.Sub(curveN, s)
		sb := s.Bytes()
		for i := 32; i < 64; i++ {
			r.Sig[i] = 0
		}
		copy(r.Sig[64-len(sb):64], sb)
		r.Sig[64] = 27 + (((v - 27) & 3) ^ 1) + ((v - 27) & 4)
		add(r, "sig-malleable-twin", countOnly)
	}
	{ // a correct signature over the same data, made by another key
		r := base.clone()
		a, err := aurora.NewAddress(other.signer, under, id.overlay, nid)
		if err != nil {
			t.Fatalf("harness: NewAddress: %v", err)
		}
		r.Sig = a.Signature
		add(r, "sig-by-other-key", mustReject)
	}
	{
		r := base.clone()
		r.Sig = r.Sig[:64]
		add(r, "sig-truncated", mustReject)
		r = base.clone()
		r.Sig = append(r.Sig, 0)
		add(r, "sig-extended", mustReject)
		r = base.clone()
		r.Sig = make([]byte, 65)
		add(r, "sig-zero", mustReject)
		r = base.clone()
		rng.Read(r.Sig[:64])
		add(r, "sig-random", mustReject)
	}
	{ // signed for another network
		r := base.clone()
		a, err := aurora.NewAddress(id.signer, under, id.overlay, otherNid(rng, nid))
		if err != nil {
			t.Fatalf("harness: NewAddress: %v", err)
		}
		r.Sig = a.Signature
		add(r, "network-id-other", mustReject)
	}
	return out
}

// judge applies the oracle to one observed decision.
func judge(run *obs.Run, c *obs.Case, site string, m mutant, verifyNid uint64, accepted bool, extra map[string]interface{}) {
	valid := spec.AddrRecordValid(m.rec.Underlay, m.rec.Overlay, m.rec.Sig, verifyNid)
	w := m.rec.witness()
	w["site"], w["change"], w["network_id"], w["accepted"], w["valid_by_oracle"] = site, m.class, verifyNid, accepted, valid
	for k, v := range extra {
		w[k] = v
	}
	viol := func(key, msg string) {
		if c != nil {
			c.Viol(key, msg, w)
		} else {
			run.Viol(key, msg, w)
		}
	}
	run.Stat(site+"_decisions", 1)
	if accepted {
		run.Stat(site+"_accepted", 1)
	} else {
		run.Stat(site+"_rejected", 1)
	}
	switch {
	case accepted && !valid:
		viol(site+"-accepts-record-not-signed-for-claimed-overlay/"+m.class, fmt.Sprintf("%s accepted a record (change: %s) whose signature does not recover the claimed overlay for network %d", site, m.class, verifyNid))
	case m.exp == mustAccept && !accepted:
		viol(site+"-rejects-own-record", fmt.Sprintf("%s rejected an unchanged record made by the node's own signer (oracle valid=%v)", site, valid))
	case m.exp == mustAccept && !valid:
		viol("own-record-invalid-by-independent-recovery", "a record made by the node's own signer does not verify with the independent oracle")
	case m.exp == mustReject && accepted:
		// accepted and valid by the oracle although a signed value was changed
		viol(site+"-accepts-changed-record/"+m.class, fmt.Sprintf("%s accepted a record after change %q", site, m.class))
	case m.exp == mustReject && valid:
		run.Stat("changed_records_still_valid_by_oracle", 1)
	}
	if m.exp == countOnly {
		k := "sig_encoding_aliases"
		if m.class == "sig-malleable-twin" {
			k = "sig_malleable_twins"
		}
		if accepted {
			run.Stat(k+"_accepted", 1)
		} else {
			run.Stat(k+"_rejected", 1)
		}
		if valid {
			run.Stat(k+"_valid_by_oracle", 1)
		}
	}
	if m.exp == mustReject {
		run.Stat("changed_records_judged", 1)
	}
	if m.exp == mustAccept {
		run.Stat("own_records_judged", 1)
	}
}

// ---- site 1: aurora.NewAddress / ParseAddress -----------------------------------------------

func TestParseAddress(t *testing.T) {
	run := obs.Start(t, "C34")
	defer run.Done()
	run.Rule("keys x underlay kinds (ip4/ip6/dns4, with and without /p2p id) x network ids {0,1,10,2^32+5,2^64-1}: the record made by NewAddress and every single-field change of it (bit flips in underlay, overlay, r, s; every other value of v for one record in four; recovery-id flip; other node's overlay; other key's signature; wrong length; other network id) through ParseAddress; distinct = (change class, underlay kind, network id class)",
		"the two encodings v and v^4 of one signature (btcec 'compressed key' flag) and the ECDSA twin (r, N-s, flipped recovery id) are counted, not judged: they are the same signature by the same key",
		"oracle: go-ethereum libsecp256k1 recovery (cgo) + sha3-256(keccak256(pubkey)) overlay derivation, sign-data layout taken from the format documented in pkg/aurora/address.go")
	rng := run.RandFor("parse")
	nKeys := run.N(30, 200)
	other := newIdent(t, rng)
	rec := 0
	for k := 0; k < nKeys; k++ {
		id := newIdent(t, rng)
		for _, kind := range allKinds {
			for _, nid := range networkIDs {
				if (k+len(kind)+int(nid%7))%2 == 0 && nid != 1 { // every key: network 1; the others alternate
					continue
				}
				under := underlayOf(t, rng, kind, id.peerID, rng.Intn(2) == 0)
				base := ownRecord(t, id, under, nid)
				rec++
				for _, m := range mutants(t, rng, base, id, other, under, nid, 8, rec%4 == 0) {
					a, err := aurora.ParseAddress(m.rec.Underlay, m.rec.Overlay, m.rec.Sig, nid)
					accepted := err == nil
					judge(run, nil, "parse", m, nid, accepted, nil)
					if accepted && m.exp == mustAccept {
						if !a.Overlay.Equal(id.overlay) || !a.Underlay.Equal(under) || string(a.Signature) != string(base.Sig) {
							run.Viol("parse-returns-different-record", "ParseAddress accepted a record but returned other values than were presented", m.rec.witness())
						}
					}
					run.Tally(fmt.Sprintf("parse/%s/%s/nid=%s", m.class, kind, nidClass(nid)), true)
				}
				// the same record checked under another network id
				on := otherNid(rng, nid)
				_, err := aurora.ParseAddress(base.Underlay, base.Overlay, base.Sig, on)
				judge(run, nil, "parse", mutant{base, "network-id-other-verifier", mustReject}, on, err == nil, nil)
				run.Tally(fmt.Sprintf("parse/network-id-other-verifier/%s/nid=%s", kind, nidClass(nid)), true)
			}
		}
	}
	run.Stat("records", int64(rec))
	run.Sample(map[string]interface{}{"kind": "parse", "keys": nKeys, "records": rec})
}

// ---- site 2: the handshake service -------------------------------------------------------------

type resolver struct{}

func (resolver) Resolve(observed ma.Multiaddr) (ma.Multiaddr, error) { return observed, nil }

type hsNode struct {
	id     *ident
	nid    uint64
	svc    *verifx.HandshakeService
	addr   ma.Multiaddr // without /p2p
	fullMA []byte       // with /p2p/<id>, binary
}

func newHsNode(t testing.TB, rng *rand.Rand, id *ident, nid uint64, kind string) *hsNode {
	n := &hsNode{id: id, nid: nid}
	n.addr = underlayOf(t, rng, kind, id.peerID, false)
	full, err := ma.NewMultiaddr(n.addr.String() + "/p2p/" + id.peerID.Pretty())
	if err != nil {
		t.Fatalf("harness: %v", err)
	}
	n.fullMA, _ = full.MarshalBinary()
	n.svc, err = verifx.NewHandshake(id.signer, resolver{}, id.overlay, nid, rtsim.FullMode, "", id.peerID, quiet, lightnode.NewContainer(id.overlay), lightnode.DefaultLightNodeLimit)
	if err != nil {
		t.Fatalf("harness: handshake.New: %v", err)
	}
	return n
}

type hsFunc func(testing.TB, *obs.Run, *obs.Case, *hsNode, *ident, ma.Multiaddr, mutant, uint64) (bool, *aurora.AddressInfo)

var hsDirs = []struct {
	name string
	f    hsFunc
}{{"handshake-inbound", inbound}, {"handshake-outbound", outbound}}

type hsResult struct {
	info *aurora.AddressInfo
	err  error
}

const stepTimeout = 90 * time.Second

func readMsg(t testing.TB, r protobuf.Reader, m protobuf.Message, what string) error {
	ctx, cancel := context.WithTimeout(context.Background(), stepTimeout)
	defer cancel()
	err := r.ReadMsgWithContext(ctx, m)
	if err == context.DeadlineExceeded {
		t.Fatalf("harness: timed out reading %s", what)
	}
	return err
}

func wait(t testing.TB, ch chan hsResult, what string) hsResult {
	select {
	case r := <-ch:
		return r
	case <-time.After(stepTimeout):
		t.Fatalf("harness: %s did not return", what)
	}
	return hsResult{}
}

// checkOwn judges the record a real service sent about itself.
func checkOwn(run *obs.Run, c *obs.Case, a *hsNode, own *verifx.BzzAddress, where string) {
	if own == nil {
		c.Viol("handshake-own-record-missing", where+": no address record in the service's message", nil)
		return
	}
	r := record{own.Underlay, own.Overlay, own.Signature}
	run.Stat("handshake_own_records_seen", 1)
	if string(own.Overlay) != string(a.id.overlay.Bytes()) || !spec.AddrRecordValid(own.Underlay, own.Overlay, own.Signature, a.nid) {
		w := r.witness()
		w["where"] = where
		c.Viol("handshake-own-record-invalid", where+": the record the service advertises about itself does not verify with the independent oracle", w)
	}
}

// inbound: the real service handles a connection from a scripted peer that presents m.
func inbound(t testing.TB, run *obs.Run, c *obs.Case, a *hsNode, peer *ident, peerAddr ma.Multiaddr, m mutant, ackNid uint64) (bool, *aurora.AddressInfo) {
	sa, sb := rtsim.Pipe(nil)
	ch := make(chan hsResult, 1)
	go func() {
		i, err := a.svc.Handle(context.Background(), sa, peerAddr, peer.peerID)
		ch <- hsResult{i, err}
	}()
	w, r := protobuf.NewWriterAndReader(sb)
	if err := w.WriteMsg(&verifx.Syn{ObservedUnderlay: a.fullMA}); err != nil {
		t.Fatalf("harness: write syn: %v", err)
	}
	var synack verifx.SynAck
	if err := readMsg(t, r, &synack, "synack"); err != nil {
		t.Fatalf("harness: read synack: %v", err)
	}
	if synack.Ack != nil {
		checkOwn(run, c, a, synack.Ack.Address, "SynAck sent by Handle")
	}
	if err := w.WriteMsg(&verifx.Ack{
		Address:   &verifx.BzzAddress{Underlay: m.rec.Underlay, Overlay: m.rec.Overlay, Signature: m.rec.Sig},
		NetworkID: ackNid, NodeMode: rtsim.FullMode.Bv.Bytes(),
	}); err != nil {
		t.Fatalf("harness: write ack: %v", err)
	}
	res := wait(t, ch, "Handle")
	_ = sb.Reset()
	return res.err == nil, res.info
}

// outbound: the real service initiates towards a scripted peer that presents m.
func outbound(t testing.TB, run *obs.Run, c *obs.Case, a *hsNode, peer *ident, peerAddr ma.Multiaddr, m mutant, ackNid uint64) (bool, *aurora.AddressInfo) {
	sa, sb := rtsim.Pipe(nil)
	ch := make(chan hsResult, 1)
	go func() {
		i, err := a.svc.Handshake(context.Background(), sa, peerAddr, peer.peerID)
		ch <- hsResult{i, err}
	}()
	w, r := protobuf.NewWriterAndReader(sb)
	var syn verifx.Syn
	if err := readMsg(t, r, &syn, "syn"); err != nil {
		t.Fatalf("harness: read syn: %v", err)
	}
	if err := w.WriteMsg(&verifx.SynAck{
		Syn: &verifx.Syn{ObservedUnderlay: a.fullMA},
		Ack: &verifx.Ack{
			Address:   &verifx.BzzAddress{Underlay: m.rec.Underlay, Overlay: m.rec.Overlay, Signature: m.rec.Sig},
			NetworkID: ackNid, NodeMode: rtsim.FullMode.Bv.Bytes(),
		},
	}); err != nil {
		t.Fatalf("harness: write synack: %v", err)
	}
	res := wait(t, ch, "Handshake")
	if res.err == nil {
		var ack verifx.Ack
		if err := readMsg(t, r, &ack, "ack"); err != nil {
			t.Fatalf("harness: read ack after successful Handshake: %v", err)
		}
		checkOwn(run, c, a, ack.Address, "Ack sent by Handshake")
	}
	_ = sb.Reset()
	return res.err == nil, res.info
}

func TestHandshake(t *testing.T) {
	run := obs.Start(t, "C34")
	defer run.Done()
	run.Rule("real handshake services (through verifx) against a scripted peer, inbound (Handle) and outbound (Handshake): the peer presents its own record or one single-field change of it (same classes as for ParseAddress, plus: announced network id differs from the signed one, record and announcement both for another network); plus real service against real service; distinct = (direction, change class, underlay kind, network id class)",
		"a handshake counts as accepting the record when Handle/Handshake returns without error")
	nKeys := run.N(30, 150)
	rng0 := run.RandFor("handshake-idents")
	other := newIdent(t, rng0)
	for k := 0; k < nKeys; k++ {
		nid := networkIDs[k%len(networkIDs)]
		kind := underlayKinds[k%3]
		c := run.Begin(fmt.Sprintf("hs/%d", k), map[string]interface{}{"network_id": nid, "underlay": kind})
		if c == nil {
			continue
		}
		rng := c.Rand()
		a := newHsNode(t, rng, newIdent(t, rng), nid, underlayKinds[rng.Intn(3)])
		peer := newIdent(t, rng)
		peerAddr := underlayOf(t, rng, kind, peer.peerID, false)
		peerFull, _ := ma.NewMultiaddr(peerAddr.String() + "/p2p/" + peer.peerID.Pretty())
		base := ownRecord(t, peer, peerFull, nid)
		ms := mutants(t, rng, base, peer, other, peerFull, nid, 1, false)
		classes := map[string]bool{}
		for _, m := range ms {
			for _, d := range hsDirs {
				dir, f := d.name, d.f
				accepted, info := f(t, run, c, a, peer, peerAddr, m, nid)
				judge(run, c, dir, m, nid, accepted, nil)
				if accepted && m.exp == mustAccept && (info == nil || info.Address == nil || !info.Address.Overlay.Equal(peer.overlay) || string(info.Address.Signature) != string(base.Sig)) {
					c.Viol(dir+"-returns-different-record", "the handshake succeeded but reports another record than the peer presented", m.rec.witness())
				}
				classes[m.class] = true
			}
		}
		// announced network id differs although the record itself is right for this network
		on := otherNid(rng, nid)
		for _, d := range hsDirs {
			dir, f := d.name, d.f
			m := mutant{base.clone(), "announced-network-id-other", mustReject}
			accepted, _ := f(t, run, c, a, peer, peerAddr, m, on)
			// the record is valid for nid; what must be refused is the combination
			run.Stat(dir+"_decisions", 1)
			run.Stat("changed_records_judged", 1)
			if accepted {
				w := m.rec.witness()
				w["announced_network_id"], w["own_network_id"] = on, nid
				c.Viol(dir+"-accepts-changed-record/announced-network-id-other", "handshake succeeded with a peer announcing another network id", w)
			}
			// a peer that consistently lives in another network
			fr := ownRecord(t, peer, peerFull, on)
			m2 := mutant{fr, "peer-of-other-network", mustReject}
			accepted, _ = f(t, run, c, a, peer, peerAddr, m2, on)
			judge(run, c, dir, m2, nid, accepted, map[string]interface{}{"announced_network_id": on})
		}
		// real against real
		{
			b := newHsNode(t, rng, peer, nid, kind)
			sa, sb := rtsim.Pipe(nil)
			cha, chb := make(chan hsResult, 1), make(chan hsResult, 1)
			go func() {
				i, err := a.svc.Handshake(context.Background(), sa, b.addr, b.id.peerID)
				cha <- hsResult{i, err}
			}()
			go func() {
				i, err := b.svc.Handle(context.Background(), sb, a.addr, a.id.peerID)
				chb <- hsResult{i, err}
			}()
			ra, rb := wait(t, cha, "Handshake"), wait(t, chb, "Handle")
			run.Stat("real_to_real_handshakes", 1)
			if ra.err != nil || rb.err != nil {
				c.Viol("handshake-rejects-own-record/real-to-real", fmt.Sprintf("two real services of network %d failed to shake hands: initiator %v, responder %v", nid, ra.err, rb.err), nil)
			} else {
				for _, x := range []struct {
					info *aurora.AddressInfo
					of   *hsNode
				}{{ra.info, b}, {rb.info, a}} {
					ub, _ := x.info.Address.Underlay.MarshalBinary()
					if !x.info.Address.Overlay.Equal(x.of.id.overlay) || !spec.AddrRecordValid(ub, x.info.Address.Overlay.Bytes(), x.info.Address.Signature, nid) {
						c.Viol("handshake-accepts-record-not-signed-for-claimed-overlay/real-to-real", "record returned by a real-to-real handshake does not verify", nil)
					}
				}
			}
		}
		run.Stat("handshake_scenarios", 1)
		c.End(fmt.Sprintf("hs/%s/nid=%s/classes=%d", kind, nidClass(nid), len(classes)), true)
	}
}

// ---- site 3: routetab (FindUnderlay reply, underlay lists in route messages) -------------------

func TestRoutetabUnderlay(t *testing.T) {
	run := obs.Start(t, "C34")
	defer run.Done()
	run.Rule("one real routetab.Service per network id: (a) FindUnderlay with a scripted reply carrying the target's own record or a single-field change of it, (b) route responses and route requests from a neighbour carrying underlay lists that mix own and changed records; acceptance = FindUnderlay returns the record / the record is in the address book afterwards (the entry is removed before each case); distinct = (path, change class, underlay kind, network id class)")
	nPeers := run.N(24, 120)
	for ni, nid := range networkIDs {
		c := run.Begin(fmt.Sprintf("rt/nid=%d", nid), map[string]interface{}{"network_id": nid})
		if c == nil {
			continue
		}
		rng := c.Rand()
		net, err := rtsim.New(rng, rtsim.Options{Nodes: 2, NetworkID: nid, Alpha: 2})
		if err != nil {
			t.Fatalf("harness: network: %v", err)
		}
		if err := net.Link(0, 1); err != nil {
			t.Fatalf("harness: link: %v", err)
		}
		node, neighbour := net.Nodes[0], net.Nodes[1]
		other := newIdent(t, rng)
		var reply record // what the scripted FindUnderlay peer answers
		net.RelayStream = func(from int, target boson.Address, protocol, version, stream string) (p2p.Stream, error) {
			cli, srv := rtsim.Pipe(nil)
			rec := reply
			go func() {
				w, r := protobuf.NewWriterAndReader(srv)
				var req rpb.UnderlayReq
				if err := r.ReadMsg(&req); err != nil {
					_ = srv.Reset()
					return
				}
				_ = w.WriteMsg(&rpb.UnderlayResp{Dest: rec.Overlay, Underlay: rec.Underlay, Signature: rec.Sig})
				_ = srv.Close()
			}()
			return cli, nil
		}
		inBook := func(r record) bool {
			a, err := node.Book.Get(boson.NewAddress(r.Overlay))
			if err != nil || a == nil {
				return false
			}
			ub, _ := a.Underlay.MarshalBinary()
			return string(a.Signature) == string(r.Sig) && string(ub) == string(r.Underlay)
		}
		forget := func(r record) {
			_ = node.Book.Remove(boson.NewAddress(r.Overlay))
		}
		classes := map[string]bool{}
		for k := 0; k < nPeers; k++ {
			kind := underlayKinds[(k+ni)%3]
			id := newIdent(t, rng)
			under := underlayOf(t, rng, kind, id.peerID, rng.Intn(2) == 0)
			base := ownRecord(t, id, under, nid)
			ms := mutants(t, rng, base, id, other, under, nid, 1, false)
			// (a) FindUnderlay
			for _, m := range ms {
				if len(m.rec.Overlay) != 32 {
					continue
				}
				forget(m.rec)
				reply = m.rec
				addr, err := node.Svc.FindUnderlay(context.Background(), id.overlay, 5*time.Second)
				accepted := err == nil
				stored := inBook(m.rec)
				judge(run, c, "routetab-findunderlay", m, nid, accepted, map[string]interface{}{"stored_in_address_book": stored})
				if stored && !accepted {
					c.Viol("routetab-findunderlay-stores-rejected-record/"+m.class, "FindUnderlay failed but the record is in the address book", m.rec.witness())
				}
				if accepted && (addr == nil || string(addr.Signature) != string(m.rec.Sig)) {
					c.Viol("routetab-findunderlay-returns-different-record", "FindUnderlay returned another record than the reply carried", m.rec.witness())
				}
				if accepted && string(m.rec.Overlay) != string(id.overlay.Bytes()) {
					run.Stat("findunderlay_accepted_record_of_other_overlay_than_asked", 1)
				}
				classes["find/"+m.class] = true
				run.Stat("findunderlay_calls", 1)
			}
			// a valid record of a different node as the answer: authenticated, but not what was asked
			{
				ou := underlayOf(t, rng, kind, other.peerID, false)
				reply = ownRecord(t, other, ou, nid)
				forget(reply)
				if _, err := node.Svc.FindUnderlay(context.Background(), id.overlay, 5*time.Second); err == nil {
					run.Stat("findunderlay_accepted_valid_record_of_other_overlay_than_asked", 1)
				}
				forget(reply)
			}
			// (b) underlay lists
			for _, viaReq := range []bool{false, true} {
				list := ms
				var ul []*rpb.UnderlayResp
				for _, m := range list {
					forget(m.rec)
				}
				// the unchanged record shares its overlay with most changed ones: deliver the
				// changed ones first and judge them, then the unchanged one alone
				for round := 0; round < 2; round++ {
					ul = ul[:0]
					var sent []mutant
					// counted-only encodings first, so that they can never overwrite (and hide) a
					// wrongly accepted changed record with the same overlay
					for _, pass := range []expect{countOnly, mustReject, mustAccept} {
						for _, m := range list {
							if m.exp != pass || (m.exp == mustAccept) != (round == 1) {
								continue
							}
							forget(m.rec)
							ul = append(ul, &rpb.UnderlayResp{Dest: m.rec.Overlay, Underlay: m.rec.Underlay, Signature: m.rec.Sig})
							sent = append(sent, m)
						}
					}
					cli, srv := rtsim.Pipe(nil)
					path := []*rpb.Path{{Sign: []byte{1}, Bodys: [][]byte{{1}}, Items: [][]byte{neighbour.Overlay.Bytes()}}}
					var msg protobuf.Message
					stream := rtsim.StreamRouteResp
					if viaReq {
						stream = rtsim.StreamRouteReq
						msg = &rpb.RouteReq{Dest: other.overlay.Bytes(), Alpha: 1, Paths: path, UType: 1, UList: ul}
					} else {
						msg = &rpb.RouteResp{Dest: other.overlay.Bytes(), Paths: path, UType: 1, UList: ul}
					}
					if err := protobuf.NewWriter(cli).WriteMsg(msg); err != nil {
						t.Fatalf("harness: write: %v", err)
					}
					_ = cli.Close()
					done := make(chan error, 1)
					go func() {
						done <- node.Handler(stream)(net.Context(), p2p.Peer{Address: neighbour.Overlay, Mode: rtsim.FullMode}, srv)
					}()
					select {
					case <-done:
					case <-time.After(stepTimeout):
						t.Fatalf("harness: %s handler did not return", stream)
					}
					run.Stat("underlay_lists_delivered", 1)
					// several changed records share one overlay: the address book holds the last
					// accepted one, so "stored" is judged per record by its exact content
					for _, m := range sent {
						site := "routetab-underlay-list"
						accepted := inBook(m.rec)
						if m.exp == mustAccept || accepted {
							judge(run, c, site, m, nid, accepted, map[string]interface{}{"via_request": viaReq})
						} else {
							// not in the book: rejected, or overwritten by a later entry of the list with
							// the same overlay - only a later ACCEPTED entry can overwrite, and those are
							// judged themselves
							run.Stat(site+"_decisions", 1)
							run.Stat(site+"_rejected", 1)
							if m.exp == mustReject {
								run.Stat("changed_records_judged", 1)
							}
						}
						classes["list/"+m.class] = true
					}
					for _, m := range sent {
						forget(m.rec)
					}
				}
			}
			run.Tally(fmt.Sprintf("rt/%s/nid=%s", kind, nidClass(nid)), true)
		}
		// wait for forwarded streams of onRouteReq to finish before closing
		deadline := time.Now().Add(stepTimeout)
		for net.InFlight() != 0 && time.Now().Before(deadline) {
			time.Sleep(time.Millisecond)
		}
		net.Close()
		run.Stat("routetab_networks", 1)
		c.End(fmt.Sprintf("rt/nid=%s/classes=%d", nidClass(nid), len(classes)), true)
	}
}
