package c35

import (
	"errors"
	"fmt"
	"testing"
	"time"

	"github.com/gauss-project/aurorafs/pkg/auth"

	"verif/harness/internal/obs"
)

// TestTokenLifetime uses each token BEFORE and AFTER its expiry (the other tests only use
// tokens that are valid for an hour or were born expired): a token honoured while valid must
// be refused, and must not be refreshable, once its expiry has passed. The only timing
// assumption is one-sided: after sleeping past the expiry plus a margin the token IS expired;
// a first use that comes too late (heavily loaded machine) makes the case a skip, not a verdict.
func TestTokenLifetime(t *testing.T) {
	run := obs.Start(t, "C35")
	defer run.Done()
	run.Rule("tokens for each role with a 2 s lifetime: Enforce (allowed and denied probes) and RefreshKey while valid, the same calls again after the expiry has passed by more than 1.5 s, and tokens obtained by refreshing just before expiry; distinct = (role, phase, call)",
		"real time is only waited out, never measured: 'after expiry' means at least 1.5 s past it")
	a := newAuth(t, "lifetime-test-encryption-key-000")
	type tk struct {
		role  string
		tok   string
		born  time.Time
		fresh string // refreshed while valid, with its own 2 s lifetime
	}
	roles := []string{"consumer", "creator", "maintainer", "master"}
	var toks []tk
	for _, role := range roles {
		tok, err := a.GenerateKey(role, 2)
		if err != nil {
			t.Fatalf("GenerateKey: %v", err)
		}
		toks = append(toks, tk{role: role, tok: tok, born: time.Now()})
	}
	// phase 1: while valid
	for i := range toks {
		x := &toks[i]
		c := run.Begin("valid/"+x.role, map[string]interface{}{"role": x.role, "lifetime_s": 2})
		if c == nil {
			continue
		}
		r := safely(func() (bool, error) { return a.Enforce(x.tok, "/health", "GET") })
		if r.panicked {
			c.Viol("panic-enforce-valid-token", fmt.Sprint(r.pval), nil)
		} else if errors.Is(r.err, auth.ErrTokenExpired) {
			if time.Since(x.born) < time.Second {
				c.Viol("valid-token-reported-expired", "a token with 2 s lifetime was reported expired within its first second", map[string]interface{}{"role": x.role})
			} else {
				run.Stat("lifetime_cases_skipped_first_use_too_late", 1)
			}
		} else {
			run.Stat("tokens_used_while_valid", 1)
		}
		if nt, err := a.RefreshKey(x.tok, 2); err == nil {
			x.fresh = nt
		}
		c.End("valid/"+x.role, true)
	}
	// phase 2: after expiry (2 s lifetime, wait until 3.6 s after the last token was born)
	last := toks[len(toks)-1].born
	if d := time.Until(last.Add(3600 * time.Millisecond)); d > 0 {
		time.Sleep(d)
	}
	for i := range toks {
		x := &toks[i]
		c := run.Begin("expired/"+x.role, map[string]interface{}{"role": x.role})
		if c == nil {
			continue
		}
		w := map[string]interface{}{"role": x.role, "lifetime_s": 2, "seconds_since_issue_at_least": 3.5, "used_while_valid": true}
		for _, probe := range [][2]string{{"/health", "GET"}, {"/aurora", "POST"}, {"/pins", "GET"}} {
			r := safely(func() (bool, error) { return a.Enforce(x.tok, probe[0], probe[1]) })
			run.Stat("enforce_after_expiry", 1)
			switch {
			case r.panicked:
				c.Viol("panic-enforce-expired-token", fmt.Sprint(r.pval), w)
			case r.err == nil:
				c.Viol("expired-token-honoured-after-being-used-while-valid", fmt.Sprintf("Enforce(%s %s) with a token expired for > 1.5 s returned (%v, nil)", probe[1], probe[0], r.allowed), w)
			case !errors.Is(r.err, auth.ErrTokenExpired):
				c.Viol("expired-token-wrong-error", r.err.Error(), w)
			}
		}
		if nt, err := a.RefreshKey(x.tok, 3600); err == nil {
			c.Viol("expired-token-refreshed-after-being-used-while-valid", "RefreshKey revived a token expired for > 1.5 s: "+nt[:12], w)
		}
		run.Stat("refresh_after_expiry", 1)
		// the token obtained by refreshing (also 2 s, issued > 3.5 s ago) is expired as well
		if x.fresh != "" {
			r := safely(func() (bool, error) { return a.Enforce(x.fresh, "/health", "GET") })
			if !r.panicked && r.err == nil {
				c.Viol("expired-refreshed-token-honoured", "a refreshed token with 2 s lifetime is still honoured after > 3.5 s", w)
			}
		}
		c.End("expired/"+x.role, true)
	}
}
