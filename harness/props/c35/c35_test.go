// Package c35 checks C35: API access tokens are checked soundly.
//
// Oracle: the policy table of the pinned tree (an assumption, copied below) read in two ways
// (a "*" stands for one path segment / a "*" stands for any rest, which is what the policy engine
// does); a decision is judged only where both readings agree. Tokens: only those sealed by this
// authenticator, unaltered and unexpired, may ever be honoured; everything else must be refused
// with an error and must not crash.
package c35

import (
	"crypto/aes"
	"crypto/cipher"
	"crypto/md5"
	"encoding/base64"
	"encoding/hex"
	"errors"
	"fmt"
	"io"
	"math/rand"
	"net/http"
	"net/http/httptest"
	"runtime/debug"
	"strings"
	"testing"

	"github.com/gauss-project/aurorafs/pkg/auth"
	"github.com/gauss-project/aurorafs/pkg/logging"
	"verif/harness/internal/obs"
)

const (
	encryptionKey = "mZIODMvjsiS2VdK1xgI1cOTizhGVNoVz"
	otherKey      = "another-node-key-0123456789abcdef"
	passwordHash  = "$2a$12$mZIODMvjsiS2VdK1xgI1cOTizhGVNoVz2Xn48H8ddFFLzX2B3lD3m"
)

// ---- the policy table (assumption: copied from pkg/auth/auth.go applyPolicies) ------------

type policy struct{ sub, obj, act string }

var table = []policy{
	{"consumer", "/apiPort", "GET"},
	{"consumer", "/bytes/*", "GET"},
	{"creator", "/bytes", "POST"},
	{"consumer", "/chunks/*", "GET"},
	{"creator", "/chunks", "POST"},
	{"creator", "/soc/*/*", "POST"},
	{"consumer", "/aurora", "GET"},
	{"creator", "/aurora", "POST"},
	{"consumer", "/aurora/*", "GET"},
	{"creator", "/aurora/*", "DELETE"},
	{"consumer", "/aurora/*/*", "GET"},
	{"consumer", "/manifest/*", "GET"},
	{"consumer", "/manifest/*/*", "GET"},
	{"creator", "/pins/*", "(GET)|(DELETE)|(POST)"},
	{"consumer", "/group/peers/*", "GET"},
	{"consumer", "/group/multicast/*", "POST"},
	{"consumer", "/group/send/*/*", "POST"},
	{"consumer", "/group/notify/*/*", "POST"},
	{"consumer", "/group/join/*", "(DELETE)|(POST)"},
	{"consumer", "/group/observe/*", "(DELETE)|(POST)"},
	{"maintainer", "/pins", "GET"},
	{"maintainer", "/addresses", "GET"},
	{"maintainer", "/pingpong/*", "POST"},
	{"maintainer", "/connect/*", "POST"},
	{"maintainer", "/peers", "GET"},
	{"maintainer", "/peers/*", "DELETE"},
	{"maintainer", "/blocklist", "GET"},
	{"maintainer", "/blocklist/*", "(DELETE)|(POST)"},
	{"maintainer", "/chunks/*", "(GET)|(DELETE)"},
	{"maintainer", "/topology", "GET"},
	{"maintainer", "/route/*", "(GET)|(DELETE)|(POST)"},
	{"maintainer", "/route/findunderlay/*", "GET"},
	{"maintainer", "/welcome-message", "(GET)|(POST)"},
	{"maintainer", "/chunk/discover/*", "GET"},
	{"maintainer", "/chunk/server/*", "GET"},
	{"maintainer", "/chunk/init/*", "GET"},
	{"maintainer", "/chunk/source/*", "GET"},
	{"maintainer", "/aco/*", "GET"},
	{"maintainer", "/keystore", "(GET)|(POST)"},
	{"maintainer", "/privatekey", "GET"},
	{"maintainer", "/transaction", "POST"},
	{"maintainer", "/topology/group", "GET"},
}

// methods listed by a policy line ("(GET)|(POST)" or "GET")
func methodsOf(act string) map[string]bool {
	out := map[string]bool{}
	for _, m := range strings.Split(act, "|") {
		out[strings.Trim(m, "()")] = true
	}
	return out
}

// segment reading: same number of segments, "*" = exactly one non-empty segment
func segMatch(path, pat string) bool {
	ps, qs := strings.Split(path, "/"), strings.Split(pat, "/")
	if len(ps) != len(qs) {
		return false
	}
	for i := range qs {
		if qs[i] == "*" {
			if ps[i] == "" {
				return false
			}
			continue
		}
		if ps[i] != qs[i] {
			return false
		}
	}
	return true
}

// rest reading: everything from the first "*" on is free (may be empty)
func restMatch(path, pat string) bool {
	i := strings.Index(pat, "*")
	if i < 0 {
		return path == pat
	}
	if len(path) > i {
		return path[:i] == pat[:i]
	}
	return path == pat[:i]
}

func tableAllows(role, path, method string, match func(path, pat string) bool) bool {
	for _, p := range table {
		if role != p.sub && role != "master" {
			continue
		}
		if !methodsOf(p.act)[method] {
			continue
		}
		if match(path, p.obj) || match(path, "/v1"+p.obj) {
			return true
		}
	}
	return false
}

// ---- probes -------------------------------------------------------------------------------

var roles = []string{"consumer", "creator", "maintainer", "master", "role0", "", "Consumer", "admin"}
var methods = []string{"GET", "POST", "DELETE", "PUT", "HEAD", "PATCH"}

type probe struct {
	path string
	line int // policy line it was derived from, -1 for free paths
	kind string
}

func concrete(pat string, seg string) string { return strings.ReplaceAll(pat, "*", seg) }

func buildProbes() []probe {
	var out []probe
	seen := map[string]bool{}
	add := func(path string, line int, kind string) {
		if !seen[path] {
			seen[path] = true
			out = append(out, probe{path, line, kind})
		}
	}
	for i, p := range table {
		c := concrete(p.obj, "4a1f9e")
		add(c, i, "exact")
		add("/v1"+c, i, "v1")
		add(concrete(p.obj, "x"), i, "exact-short-segment")
		add(c+"/extra", i, "one-segment-more")
		if j := strings.LastIndex(c, "/"); j > 0 {
			add(c[:j], i, "one-segment-less")
		}
		add("/v2"+c, i, "other-version-prefix")
		add(strings.ToUpper(c), i, "upper-case")
	}
	for _, f := range []string{"/", "", "/nope", "/v1", "/v1/", "//bytes/4a1f9e", "/bytes//", "bytes/4a1f9e", "/debug/pprof", "/auth", "/refresh"} {
		add(f, -1, "free")
	}
	return out
}

func newAuth(t *testing.T, key string) *auth.Authenticator {
	a, err := auth.New(key, passwordHash, logging.New(io.Discard, 0))
	if err != nil {
		t.Fatalf("auth.New: %v", err)
	}
	return a
}

type result struct {
	allowed  bool
	err      error
	panicked bool
	pval     interface{}
	stack    string
}

func safely(f func() (bool, error)) (r result) {
	defer func() {
		if p := recover(); p != nil {
			r.panicked, r.pval, r.stack = true, p, string(debug.Stack())
		}
	}()
	r.allowed, r.err = f()
	return r
}

// checkDecisions compares Enforce(token, ...) with the table for every probe x method.
func checkDecisions(run *obs.Run, a *auth.Authenticator, token, role, origin string, probes []probe) {
	for _, pr := range probes {
		for _, m := range methods {
			want1 := tableAllows(role, pr.path, m, segMatch)
			want2 := tableAllows(role, pr.path, m, restMatch)
			r := safely(func() (bool, error) { return a.Enforce(token, pr.path, m) })
			w := map[string]interface{}{"role": role, "token_origin": origin, "path": pr.path, "method": m, "probe_kind": pr.kind}
			if pr.line >= 0 {
				w["derived_from_policy_line"] = fmt.Sprintf("%v", table[pr.line])
			}
			switch {
			case r.panicked:
				run.Viol("panic-enforce-valid-token", fmt.Sprintf("Enforce panicked: %v", r.pval), w)
				continue
			case r.err != nil:
				run.Viol("enforce-error-on-valid-token", fmt.Sprintf("Enforce(%s token, %q, %s): %v", role, pr.path, m, r.err), w)
				continue
			}
			if want1 != want2 {
				run.Stat("decisions_not_judged_readings_differ", 1)
				run.Tally("", false)
				continue
			}
			run.Stat("decisions_judged", 1)
			if want1 {
				run.Stat("decisions_allow", 1)
			}
			if r.allowed != want1 {
				key := "policy-denies-what-table-allows"
				if r.allowed {
					key = "policy-allows-more-than-table"
				}
				run.Viol(key, fmt.Sprintf("role %q %s %q (%s token): Enforce=%v, policy table says %v", role, m, pr.path, origin, r.allowed, want1), w)
			}
			run.Tally(fmt.Sprintf("%s/%s/%s/line%d/%s/%v", origin, role, m, pr.line, pr.kind, want1), true)
		}
	}
}

func TestPolicyDecisions(t *testing.T) {
	run := obs.Start(t, "C35")
	defer run.Done()
	run.Rule("tokens issued by the real Authenticator for 8 role strings (4 real, 4 unknown) x every policy line's path made concrete (plain, /v1, short segment, one segment more/less, /v2, upper case) and free paths x 6 methods: Enforce compared with the policy table; then the same after 1..3 refreshes; distinct = (token origin, role, method, policy line, path variant, decision)",
		"the policy table is the one of the pinned tree (pkg/auth/auth.go applyPolicies); role master inherits every line; /v1 is an accepted prefix",
		"a decision is judged only where 'star = one segment' and 'star = any rest' agree (the statement does not fix the glob dialect)",
		"expiry is decided against the wall clock with margins of at least one second (expired: -1 s and -3600 s; valid: +3600 s)")
	a := newAuth(t, encryptionKey)
	probes := buildProbes()
	run.Stat("probe_paths", int64(len(probes)))
	for _, role := range roles {
		tok, err := a.GenerateKey(role, 3600)
		if err != nil {
			t.Fatalf("GenerateKey: %v", err)
		}
		checkDecisions(run, a, tok, role, "issued", probes)
		run.Stat("tokens_issued", 1)

		// refreshing keeps the role
		cur := tok
		for k := 1; k <= 3; k++ {
			nt, err := a.RefreshKey(cur, 3600*k)
			if err != nil {
				run.Viol("refresh-error-on-valid-token", fmt.Sprintf("RefreshKey(valid %q token): %v", role, err), map[string]interface{}{"role": role, "refresh_number": k})
				break
			}
			run.Stat("refreshes_of_valid_tokens", 1)
			if nt == cur {
				run.Stat("refresh_returned_same_string", 1)
			}
			cur = nt
			// a cheaper probe set for the chain, the full one for the first refresh
			ps := probes
			if k > 1 && !run.Thorough() {
				ps = probes[:60]
			}
			checkDecisions(run, a, cur, role, fmt.Sprintf("refreshed%d", k), ps)
		}
	}
	run.Sample(map[string]interface{}{"kind": "decision probe", "role": "creator", "path": "/v1/pins/4a1f9e", "method": "DELETE", "table_says": tableAllows("creator", "/v1/pins/4a1f9e", "DELETE", segMatch)})
}

func TestExpiryAndRefresh(t *testing.T) {
	run := obs.Start(t, "C35")
	defer run.Done()
	run.Rule("for every role: tokens with expiry -3600 s and -1 s must never be honoured (every policy line's concrete path x method) and cannot be refreshed into a working token; refresh of a valid token with a negative duration yields a token that is not honoured; distinct = (role, expiry, step)")
	a := newAuth(t, encryptionKey)
	probes := buildProbes()
	for _, role := range roles[:5] {
		for _, exp := range []int{-3600, -1} {
			c := run.Begin(fmt.Sprintf("expired/%s/%d", role, exp), map[string]interface{}{"role": role, "expiry_s": exp})
			if c == nil {
				continue
			}
			tok, err := a.GenerateKey(role, exp)
			if err != nil {
				t.Fatalf("GenerateKey: %v", err)
			}
			expiredErr := 0
			for _, pr := range probes {
				for _, m := range methods {
					r := safely(func() (bool, error) { return a.Enforce(tok, pr.path, m) })
					w := map[string]interface{}{"role": role, "expiry_s": exp, "path": pr.path, "method": m}
					switch {
					case r.panicked:
						c.Viol("panic-enforce-expired-token", fmt.Sprint(r.pval), w)
					case r.allowed:
						c.Viol("expired-token-honoured", fmt.Sprintf("token of role %q expired %d s ago, Enforce(%q,%s)=true", role, -exp, pr.path, m), w)
					case errors.Is(r.err, auth.ErrTokenExpired):
						expiredErr++
					}
					run.Stat("expired_token_checks", 1)
				}
			}
			run.Stat("expired_checks_answered_token_expired", int64(expiredErr))
			// refresh cannot revive it
			var nt string
			r := safely(func() (bool, error) {
				var err error
				nt, err = a.RefreshKey(tok, 3600)
				return false, err
			})
			run.Stat("refreshes_of_expired_tokens", 1)
			switch {
			case r.panicked:
				c.Viol("panic-refreshkey-expired-token", fmt.Sprint(r.pval), nil)
			case r.err == nil:
				w := map[string]interface{}{"role": role, "expiry_s": exp}
				c.Viol("refresh-accepts-expired-token", fmt.Sprintf("RefreshKey of a token expired %d s ago succeeded", -exp), w)
				if ok, _ := a.Enforce(nt, "/v1"+concrete(table[0].obj, "x"), "GET"); ok && (role == "consumer" || role == "master") {
					c.Viol("refresh-revives-expired-token", "the refreshed token is honoured", w)
				}
			}
			c.End(fmt.Sprintf("expired/%s/%d", role, exp), true)
		}
		// a valid token refreshed with a negative duration is an expired token
		c := run.Begin("refresh-negative/"+role, map[string]interface{}{"role": role})
		if c == nil {
			continue
		}
		tok, _ := a.GenerateKey(role, 3600)
		nt, err := a.RefreshKey(tok, -5)
		if err == nil {
			for _, pr := range probes[:40] {
				for _, m := range methods {
					if r := safely(func() (bool, error) { return a.Enforce(nt, pr.path, m) }); r.allowed {
						c.Viol("expired-token-honoured", fmt.Sprintf("token refreshed with -5 s is honoured for %q %s", pr.path, m), map[string]interface{}{"role": role, "path": pr.path, "method": m, "how": "RefreshKey(valid, -5)"})
					}
					run.Stat("expired_token_checks", 1)
				}
			}
		} else {
			run.Stat("refresh_negative_refused", 1)
		}
		c.End("refresh-negative/"+role, true)
	}
}

// ---- hostile tokens ---------------------------------------------------------------------

// seal reproduces the token format (nonce | AES-GCM(md5hex(key), json)) so that tokens with a
// valid seal but a malformed content can be made.
func seal(key string, plaintext []byte, nonce []byte) string {
	sum := md5.Sum([]byte(key))
	block, err := aes.NewCipher([]byte(hex.EncodeToString(sum[:])))
	if err != nil {
		panic(err)
	}
	gcm, err := cipher.NewGCM(block)
	if err != nil {
		panic(err)
	}
	return base64.StdEncoding.EncodeToString(gcm.Seal(append([]byte{}, nonce...), nonce, plaintext, nil))
}

type hostile struct {
	class string
	tok   string
	// mayBeHonoured: sealed with the node's key and carrying a well-formed unexpired record;
	// only absence of a crash is demanded
	mayBeHonoured bool
}

func genHostile(run *obs.Run, rng *rand.Rand, valid string, foreign string) []hostile {
	var out []hostile
	add := func(class, tok string) { out = append(out, hostile{class: class, tok: tok}) }
	raw, _ := base64.StdEncoding.DecodeString(valid)

	for _, s := range []string{"", " ", "=", "====", "A", "AA", "AAA", "AAAA", "!!!!", "%%%", "Bearer", "Bearer x", "null", "{}", "\x00", "\xff\xfe",
		strings.Repeat("A", 15), strings.Repeat("A", 16), strings.Repeat("A", 20), strings.Repeat("=", 64), "日本語", "AAAA\nAAAA", "AAAA AAAA"} {
		add("fixed-string", s)
	}
	add("long-string", strings.Repeat("QUJD", 25000))
	// every truncation of the token text and of the token bytes
	for i := 0; i < len(valid); i++ {
		add("truncated-text", valid[:i])
	}
	for i := 0; i < len(raw); i++ {
		add("truncated-bytes", base64.StdEncoding.EncodeToString(raw[:i]))
	}
	// every single-bit flip of the token bytes
	for i := 0; i < len(raw)*8; i++ {
		b := append([]byte{}, raw...)
		b[i/8] ^= 1 << uint(i%8)
		add("bit-flip", base64.StdEncoding.EncodeToString(b))
	}
	// bytes appended / prepended
	add("byte-appended", base64.StdEncoding.EncodeToString(append(append([]byte{}, raw...), 0)))
	add("byte-prepended", base64.StdEncoding.EncodeToString(append([]byte{0}, raw...)))
	add("doubled", base64.StdEncoding.EncodeToString(append(append([]byte{}, raw...), raw...)))
	// every short length with several contents: shorter than, equal to and just above the nonce size
	for l := 0; l <= 30; l++ {
		for k := 0; k < 4; k++ {
			b := make([]byte, l)
			if k > 0 {
				rng.Read(b)
			}
			add("short-bytes", base64.StdEncoding.EncodeToString(b))
		}
	}
	n := run.N(2500, 30000)
	for i := 0; i < n; i++ {
		b := make([]byte, rng.Intn(120))
		rng.Read(b)
		add("random-bytes", base64.StdEncoding.EncodeToString(b))
	}
	const b64 = "ABCDEFGHIJKLMNOPQRSTUVWXYZabcdefghijklmnopqrstuvwxyz0123456789+/=-_"
	for i := 0; i < n/2; i++ {
		l := rng.Intn(140)
		s := make([]byte, l)
		for j := range s {
			s[j] = b64[rng.Intn(len(b64))]
		}
		add("random-base64-text", string(s))
	}
	// url-safe / unpadded renderings of the valid bytes are other strings: never crash
	add("raw-std-encoding", base64.RawStdEncoding.EncodeToString(raw))
	add("url-encoding", base64.URLEncoding.EncodeToString(raw))
	// sealed by another node
	add("foreign-key", foreign)
	// sealed with this node's key, malformed content
	nonce := make([]byte, 12)
	rng.Read(nonce)
	for _, pt := range []string{"", "null", "[]", "{}", "{", "\"x\"", "12", `{"r":123,"e":"x"}`, `{"r":"master"}`, `{"r":"master","e":null}`,
		`{"r":"master","e":"yesterday"}`, `{"r":"master","e":"0001-01-01T00:00:00Z"}`, `{"r":["master"],"e":"2999-01-01T00:00:00Z"}`,
		`{"r":"master","e":"2999-01-01T00:00:00Z"`, "\xff\xfe\xfd", strings.Repeat("{", 10000)} {
		add("sealed-malformed-content", seal(encryptionKey, []byte(pt), nonce))
	}
	out = append(out, hostile{class: "sealed-wellformed-by-node-key", tok: seal(encryptionKey, []byte(`{"r":"consumer","e":"2999-01-01T00:00:00Z"}`), nonce), mayBeHonoured: true})
	return out
}

func TestHostileTokens(t *testing.T) {
	run := obs.Start(t, "C35")
	defer run.Done()
	run.Rule("hostile token strings against Enforce, RefreshKey and the HTTP permission handler, each call under recover and announced before it runs: fixed junk, every truncation of a valid token (text and bytes), every single-bit flip, bytes added, every byte length 0..30, random bytes and random base64-alphabet text, a token sealed by another node's key, tokens sealed with this node's key around malformed records; distinct = (class, decoded-length class, outcome)",
		"a string is 'issued and unaltered' only if it is the token text itself; every generated string differs from it in its decoded bytes")
	a := newAuth(t, encryptionKey)
	b := newAuth(t, otherKey)
	valid, err := a.GenerateKey("master", 3600)
	if err != nil {
		t.Fatal(err)
	}
	foreign, err := b.GenerateKey("master", 3600)
	if err != nil {
		t.Fatal(err)
	}
	if ok, err := a.Enforce(valid, "/v1/bytes/x", "GET"); !ok || err != nil {
		t.Fatalf("the reference token is not honoured: %v %v", ok, err)
	}
	nextCalled := 0
	h := auth.PermissionCheckHandler(a)(http.HandlerFunc(func(w http.ResponseWriter, r *http.Request) { nextCalled++ }))
	validRaw, _ := base64.StdEncoding.DecodeString(valid)

	list := genHostile(run, run.RandFor("hostile"), valid, foreign)
	for i, ht := range list {
		tok := ht.tok
		shown := tok
		if len(shown) > 200 {
			shown = shown[:200] + fmt.Sprintf("..(%d chars)", len(tok))
		}
		c := run.Begin(fmt.Sprintf("hostile/%d", i), map[string]interface{}{"class": ht.class, "token": fmt.Sprintf("%q", shown)})
		if c == nil {
			continue
		}
		dec, derr := base64.StdEncoding.DecodeString(tok)
		lenClass := "not-base64"
		if derr == nil {
			switch {
			case len(dec) < 12:
				lenClass = "shorter-than-nonce"
			case len(dec) < 28:
				lenClass = "shorter-than-nonce+tag"
			default:
				lenClass = "long-enough"
			}
			if string(dec) == string(validRaw) {
				// cannot happen with these generators; such a string would be the token itself
				c.End(ht.class+"/same-bytes", false)
				continue
			}
		}
		w := map[string]interface{}{"class": ht.class, "token": fmt.Sprintf("%q", shown), "decoded_length": len(dec), "base64_valid": derr == nil}
		panicKey := func(where string, r result) string {
			if derr == nil && len(dec) < 12 && strings.Contains(r.stack, "encrypter.decrypt") {
				return "panic-decrypt-token-shorter-than-nonce"
			}
			return "panic-" + where + "-malformed-token"
		}
		outcome := "refused"

		// Enforce
		r := safely(func() (bool, error) { return a.Enforce(tok, "/v1/bytes/x", "GET") })
		run.Stat("hostile_enforce_calls", 1)
		switch {
		case r.panicked:
			outcome = "panic"
			run.Stat("hostile_panics", 1)
			w["panic"] = fmt.Sprint(r.pval)
			c.Viol(panicKey("enforce", r), fmt.Sprintf("Enforce(%s token) panicked: %v", ht.class, r.pval), w)
		case ht.mayBeHonoured:
			run.Stat("wellformed_node_sealed_tokens", 1)
		case r.allowed:
			outcome = "honoured"
			c.Viol(ht.class+"-token-honoured", fmt.Sprintf("Enforce honoured a %s token", ht.class), w)
		case r.err == nil:
			c.Viol("malformed-token-refused-without-error", fmt.Sprintf("Enforce(%s token) = (false, nil)", ht.class), w)
		default:
			run.Stat("hostile_refused_with_error", 1)
		}

		// RefreshKey
		var nt string
		r = safely(func() (bool, error) {
			var err error
			nt, err = a.RefreshKey(tok, 3600)
			return false, err
		})
		run.Stat("hostile_refresh_calls", 1)
		switch {
		case r.panicked:
			outcome = "panic"
			run.Stat("hostile_panics", 1)
			w["panic"] = fmt.Sprint(r.pval)
			c.Viol(panicKey("refreshkey", r), fmt.Sprintf("RefreshKey(%s token) panicked: %v", ht.class, r.pval), w)
		case ht.mayBeHonoured:
		case r.err == nil:
			outcome = "honoured"
			c.Viol(ht.class+"-token-refreshed", fmt.Sprintf("RefreshKey accepted a %s token and returned %q", ht.class, nt), w)
		}

		// HTTP middleware (what a remote caller reaches)
		before := nextCalled
		var code int
		r = safely(func() (bool, error) {
			req := httptest.NewRequest("GET", "/v1/bytes/x", nil)
			req.Header["Authorization"] = []string{"Bearer " + tok}
			rec := httptest.NewRecorder()
			h.ServeHTTP(rec, req)
			code = rec.Code
			return false, nil
		})
		run.Stat("hostile_handler_calls", 1)
		switch {
		case r.panicked:
			outcome = "panic"
			run.Stat("hostile_panics", 1)
			w["panic"] = fmt.Sprint(r.pval)
			c.Viol(panicKey("handler", r), fmt.Sprintf("permission handler panicked on a %s token: %v", ht.class, r.pval), w)
		case ht.mayBeHonoured:
		case nextCalled != before || code == http.StatusOK:
			outcome = "honoured"
			c.Viol(ht.class+"-token-passes-handler", fmt.Sprintf("the permission handler let a %s token through (status %d)", ht.class, code), w)
		}
		c.End(fmt.Sprintf("%s/%s/%s", ht.class, lenClass, outcome), true)
		if i == 40 || i == 400 {
			run.Sample(map[string]interface{}{"kind": "hostile token", "class": ht.class, "token": shown, "outcome": outcome})
		}
	}
}

// TestHandlerDecisions: the middleware lets a request through exactly when the table allows it.
func TestHandlerDecisions(t *testing.T) {
	run := obs.Start(t, "C35")
	defer run.Done()
	run.Rule("HTTP permission handler with valid tokens of 5 roles x concrete policy paths x methods: next handler reached iff the table allows (where both glob readings agree); missing / non-bearer headers never pass; distinct = (role, method, policy line, decision)")
	a := newAuth(t, encryptionKey)
	reached := false
	h := auth.PermissionCheckHandler(a)(http.HandlerFunc(func(w http.ResponseWriter, r *http.Request) { reached = true }))
	probes := buildProbes()
	for _, role := range roles[:5] {
		tok, err := a.GenerateKey(role, 3600)
		if err != nil {
			t.Fatal(err)
		}
		for _, pr := range probes {
			if pr.kind != "exact" && pr.kind != "v1" && pr.kind != "one-segment-less" {
				continue
			}
			for _, m := range methods {
				w1, w2 := tableAllows(role, pr.path, m, segMatch), tableAllows(role, pr.path, m, restMatch)
				if w1 != w2 {
					continue
				}
				reached = false
				req := httptest.NewRequest(m, pr.path, nil)
				req.Header.Set("Authorization", "Bearer "+tok)
				rec := httptest.NewRecorder()
				r := safely(func() (bool, error) { h.ServeHTTP(rec, req); return false, nil })
				w := map[string]interface{}{"role": role, "path": pr.path, "method": m, "status": rec.Code}
				run.Stat("handler_decisions_judged", 1)
				switch {
				case r.panicked:
					run.Viol("panic-handler-valid-token", fmt.Sprint(r.pval), w)
				case reached != w1:
					key := "handler-blocks-what-table-allows"
					if reached {
						key = "handler-passes-what-table-denies"
					}
					run.Viol(key, fmt.Sprintf("role %q %s %q: next handler reached=%v (status %d), table says %v", role, m, pr.path, reached, rec.Code, w1), w)
				}
				run.Tally(fmt.Sprintf("handler/%s/%s/line%d/%v", role, m, pr.line, w1), true)
			}
		}
		// headers that carry no bearer token
		for _, hv := range []string{"", "Basic abc", "bearer " + tok, "Bearer", "Bearer ", "Bearer   "} {
			reached = false
			req := httptest.NewRequest("GET", "/v1/bytes/x", nil)
			if hv != "" {
				req.Header.Set("Authorization", hv)
			}
			rec := httptest.NewRecorder()
			r := safely(func() (bool, error) { h.ServeHTTP(rec, req); return false, nil })
			if r.panicked {
				run.Viol("panic-handler-bad-header", fmt.Sprint(r.pval), map[string]interface{}{"header": hv})
			} else if reached {
				run.Viol("handler-passes-without-bearer-token", fmt.Sprintf("Authorization %q reached the next handler", hv), map[string]interface{}{"header": hv})
			}
			run.Stat("handler_bad_headers", 1)
		}
	}
}
