package c35

import (
	"fmt"
	"math/rand"
	"sync"
	"testing"

	"github.com/gauss-project/aurorafs/pkg/auth"

	"verif/harness/internal/obs"
)

// TestConcurrentEnforce: the API server checks tokens of parallel requests on ONE
// authenticator. Every decision taken while other requests are being checked must be the
// decision the same (token, path, method) gets when it is checked alone.
func TestConcurrentEnforce(t *testing.T) {
	run := obs.Start(t, "C35")
	defer run.Done()
	run.Rule("one authenticator, 16 goroutines x 4000 (thorough 20000) Enforce / RefreshKey calls over a pool of live and expired tokens of all roles (several per role, so that sealed records of equal length exist) and 24 probes; each call's outcome (allowed / refused / which error class) is compared with the outcome of the same call made alone beforehand; distinct = (token kind, role, outcome alone)",
		"the sequential outcome itself is judged by the other tests of this property")
	a := newAuth(t, encryptionKey)
	type tk struct {
		tok, role string
		live      bool
	}
	var pool []tk
	for _, role := range roles[:5] {
		for k := 0; k < 3; k++ {
			for _, exp := range []int{3600, -3600} {
				tok, err := a.GenerateKey(role, exp)
				if err != nil {
					t.Fatalf("GenerateKey: %v", err)
				}
				pool = append(pool, tk{tok, role, exp > 0})
			}
		}
	}
	var probes []probe
	for i, pr := range buildProbes() {
		if i%7 == 0 && len(probes) < 24 {
			probes = append(probes, pr)
		}
	}
	type call struct {
		t, p, m int
		refresh bool
	}
	class := func(r result) string {
		switch {
		case r.panicked:
			return "panic"
		case r.err != nil && r.err == auth.ErrTokenExpired:
			return "expired"
		case r.err != nil:
			return "error"
		case r.allowed:
			return "allowed"
		}
		return "refused"
	}
	do := func(c call) result {
		if c.refresh {
			return safely(func() (bool, error) {
				nt, err := a.RefreshKey(pool[c.t].tok, 3600)
				return err == nil && nt != "", err
			})
		}
		return safely(func() (bool, error) { return a.Enforce(pool[c.t].tok, probes[c.p].path, methods[c.m]) })
	}
	// outcome of every distinct call made alone
	alone := map[call]string{}
	for ti := range pool {
		for pi := range probes {
			for mi := range methods {
				c := call{ti, pi, mi, false}
				alone[c] = class(do(c))
			}
		}
		c := call{ti, 0, 0, true}
		alone[c] = class(do(c))
	}
	run.Stat("calls_made_alone", int64(len(alone)))
	c := run.Begin("concurrent/0", nil)
	if c == nil {
		return
	}
	const workers = 16
	per := run.N(4000, 20000)
	seed := c.Rand().Int63()
	var wg sync.WaitGroup
	var mu sync.Mutex
	reported := map[string]bool{}
	for g := 0; g < workers; g++ {
		wg.Add(1)
		go func(g int) {
			defer wg.Done()
			rng := rand.New(rand.NewSource(seed + int64(g)))
			for k := 0; k < per; k++ {
				cl := call{rng.Intn(len(pool)), rng.Intn(len(probes)), rng.Intn(len(methods)), false}
				if rng.Intn(10) == 0 {
					cl = call{cl.t, 0, 0, true}
				}
				got := class(do(cl))
				want := alone[cl]
				kind := "live"
				if !pool[cl.t].live {
					kind = "expired"
				}
				run.Tally(fmt.Sprintf("concurrent/%s/%s/refresh=%v/%s", kind, pool[cl.t].role, cl.refresh, want), true)
				if got == want {
					continue
				}
				key := fmt.Sprintf("decision-under-concurrency-differs/%s-token-%s-instead-of-%s", kind, got, want)
				mu.Lock()
				first := !reported[key]
				reported[key] = true
				mu.Unlock()
				if first {
					w := map[string]interface{}{"role": pool[cl.t].role, "token_kind": kind, "refresh": cl.refresh, "path": probes[cl.p].path, "method": methods[cl.m], "alone": want, "concurrent": got, "workers": workers}
					c.Viol(key, fmt.Sprintf("%s token of role %q, %s %q: %s while other requests are being checked, %s when checked alone", kind, pool[cl.t].role, methods[cl.m], probes[cl.p].path, got, want), w)
				}
			}
		}(g)
	}
	wg.Wait()
	run.Stat("concurrent_calls_compared", int64(workers*per))
	c.End("concurrent", true)
}
