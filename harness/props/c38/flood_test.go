package c38

import (
	"context"
	"fmt"
	"sync"
	"sync/atomic"
	"testing"
	"time"

	"github.com/gauss-project/aurorafs/pkg/aurora"
	"github.com/gauss-project/aurorafs/pkg/boson"
	"github.com/gauss-project/aurorafs/pkg/multicast"
	"github.com/gauss-project/aurorafs/pkg/multicast/model"
	"github.com/gauss-project/aurorafs/pkg/multicast/pb"
	"github.com/gauss-project/aurorafs/pkg/p2p"

	"verif/harness/internal/obs"
)

// The de-duplication caches of pkg/multicast are process-global, so several services in
// one process would share them; the statement's "each node forwards at most once / delivers
// at most once" is therefore checked on one node: the same (origin, id) message reaches the
// node several times, from different group members, sequentially or at the same moment.

type floodNode struct {
	svc   *multicast.Service
	st    *streamerStub
	sp    *subPubStub
	route *routeStub
	self  boson.Address
	gid   boson.Address
	conn  []boson.Address
	kept  []boson.Address
}

func mkFloodNode(t *testing.T, seed int64, nconn, nkept int) *floodNode {
	rng := newRand(seed)
	n := &floodNode{st: &streamerStub{}, sp: &subPubStub{}, route: newRouteStub(), self: randAddr(rng), gid: randAddr(rng)}
	lw, logger := newLogWatch()
	n.svc = multicast.NewService(n.self, aurora.NewModel().SetMode(aurora.FullNode), nil, n.st, newKadStub(), n.route, logger, n.sp, multicast.Option{Dev: true})
	if err := n.svc.AddGroup([]model.ConfigNodeGroup{{Name: n.gid.String(), GType: model.GTypeJoin}}); err != nil {
		t.Fatalf("AddGroup: %v", err)
	}
	if !lw.waitFor("multicast HandshakeAll took", 1) || !lw.waitFor("multicast HandshakeAllKept took", 1) || !lw.waitFor("done took", 1) {
		t.Fatalf("the background rounds started by AddGroup did not finish (log markers %v)", lw.counts)
	}
	n.svc.VerifGroupMuteNotify()
	for i := 0; i < nconn; i++ {
		p := randAddr(rng)
		n.route.set(p, true)
		n.svc.VerifGroupAdd(n.gid, p, true)
		n.conn = append(n.conn, p)
	}
	for i := 0; i < nkept; i++ {
		p := randAddr(rng)
		n.svc.VerifGroupAdd(n.gid, p, true)
		n.kept = append(n.kept, p)
	}
	c, k, _, _ := n.svc.VerifGroupLists(n.gid)
	if len(c) != nconn || len(k) != nkept {
		t.Fatalf("group setup: connected %d kept %d, wanted %d %d", len(c), len(k), nconn, nkept)
	}
	// a subscriber of the group's multicast messages (rpc side replaced by the stub pub/sub)
	if err := n.svc.SubscribeMulticastMsg(nil, nil, n.gid); err != nil {
		t.Fatalf("SubscribeMulticastMsg: %v", err)
	}
	return n
}

type msgID struct {
	origin string
	id     uint64
}

// tally returns per message the number of deliveries to subscribers and, per destination,
// the number of forwards.
func (n *floodNode) tally() (deliv map[msgID]int, fwd map[msgID]map[string]int, err error) {
	deliv, fwd = map[msgID]int{}, map[msgID]map[string]int{}
	for _, m := range n.sp.multicastDeliveries() {
		deliv[msgID{m.Origin.ByteString(), m.ID}]++
	}
	for _, o := range n.st.take() {
		if o.stream != "multicast" {
			continue
		}
		var m pb.MulticastMsg
		if e := dec(o.s.written(), &m); e != nil {
			return nil, nil, fmt.Errorf("forwarded stream to %s does not hold a multicast message: %v", o.dest, e)
		}
		k := msgID{string(m.Origin), m.Id}
		if fwd[k] == nil {
			fwd[k] = map[string]int{}
		}
		fwd[k][o.dest.ByteString()]++
	}
	return deliv, fwd, nil
}

func (n *floodNode) members() []boson.Address {
	return append(append([]boson.Address(nil), n.conn...), n.kept...)
}

func TestFloodOnce(t *testing.T) {
	run := obs.Start(t, "C38")
	defer run.Done()
	run.Rule("per case one real Service that joined a group with 1-4 connected and 0-3 kept members and has a multicast subscriber; scenario kinds: (seq) the same foreign (origin,id) message arrives 2-6 times one after the other from different members; (conc) it arrives 2-8 times at the same moment (spin barrier) from different members; (fwd-conc / fwd-seq) the forwarding step Multicast(msg, from) is reached 2-8 times for it, at the same moment / one after the other; (own) the node multicasts its own message and 2-6 echoes of it come back, sequentially or at once; (mix) 3 different messages, each arriving 2-4 times, all at once; distinct = (kind, arrivals, connected, kept); non-trivial = more than one arrival and at least one member to forward to",
		"fresh (origin,id) pairs per case: the 60 s de-duplication window is never outlived (a case takes milliseconds; the time from first to last arrival is recorded)",
		"a delivery is a Publish(group, multicastMsg, gid) on the service's pub/sub; a forward is a multicast stream opened to a member carrying that (origin,id)")
	n := run.N(600, 6000)
	hnd := func(nd *floodNode) p2p.HandlerFunc { return handler(nd.svc, "multicast") }
	for k := 0; k < n; k++ {
		c := run.Begin(fmt.Sprintf("flood/%d", k), nil)
		if c == nil {
			continue
		}
		rng := c.Rand()
		kind := []string{"seq", "conc", "conc", "conc", "own-seq", "own-conc", "mix", "fwd-conc", "fwd-conc", "fwd-seq"}[rng.Intn(10)]
		nconn, nkept := 1+rng.Intn(4), rng.Intn(4)
		nd := mkFloodNode(t, rng.Int63(), nconn, nkept)
		mem := nd.members()
		origin := randAddr(rng)
		type arrival struct {
			from boson.Address
			msg  *pb.MulticastMsg
		}
		var arrivals []arrival
		mk := func(org boson.Address, id uint64, times int) {
			for i := 0; i < times; i++ {
				arrivals = append(arrivals, arrival{from: mem[rng.Intn(len(mem))], msg: &pb.MulticastMsg{Id: id, CreateTime: 1, Origin: org.Bytes(), Gid: nd.gid.Bytes(), Data: []byte("payload")}})
			}
		}
		concurrent := false
		ownIDs := map[uint64]bool{}
		switch kind {
		case "seq", "fwd-seq":
			mk(origin, uint64(1+rng.Intn(1000)), 2+rng.Intn(5))
		case "conc", "fwd-conc":
			mk(origin, uint64(1+rng.Intn(1000)), 2+rng.Intn(7))
			concurrent = true
		case "own-seq", "own-conc":
			own := &pb.MulticastMsg{Gid: nd.gid.Bytes(), Data: []byte("mine")}
			if err := nd.svc.Multicast(own); err != nil {
				t.Fatalf("Multicast: %v", err)
			}
			ownIDs[own.Id] = true
			mk(nd.self, own.Id, 2+rng.Intn(5))
			concurrent = kind == "own-conc"
		case "mix":
			for j := 0; j < 3; j++ {
				mk(origin, uint64(1000*(j+1)+rng.Intn(1000)), 2+rng.Intn(3))
			}
			rng.Shuffle(len(arrivals), func(i, j int) { arrivals[i], arrivals[j] = arrivals[j], arrivals[i] })
			concurrent = true
		}
		t0 := time.Now()
		if concurrent {
			// spin barrier: all arrivals start within a few hundred nanoseconds
			var wg sync.WaitGroup
			var start int32
			errs := make(chan error, len(arrivals))
			for _, a := range arrivals {
				a := a
				b := enc(a.msg)
				wg.Add(1)
				go func() {
					defer wg.Done()
					for atomic.LoadInt32(&start) == 0 {
					}
					if kind == "fwd-conc" {
						// the forwarding step of onMulticast, reached by several handler goroutines
						m := &pb.MulticastMsg{}
						if e := dec(b, m); e != nil {
							errs <- e
							return
						}
						errs <- nd.svc.Multicast(m, a.from)
						return
					}
					errs <- hnd(nd)(context.Background(), p2p.Peer{Address: a.from}, newMemStream(b))
				}()
			}
			time.Sleep(200 * time.Microsecond)
			atomic.StoreInt32(&start, 1)
			wg.Wait()
			close(errs)
			for e := range errs {
				if e != nil {
					t.Fatalf("onMulticast / Multicast: %v", e)
				}
			}
		} else {
			for _, a := range arrivals {
				if kind == "fwd-seq" {
					m := *a.msg
					if e := nd.svc.Multicast(&m, a.from); e != nil {
						t.Fatalf("Multicast: %v", e)
					}
					continue
				}
				if e := hnd(nd)(context.Background(), p2p.Peer{Address: a.from}, newMemStream(enc(a.msg))); e != nil {
					t.Fatalf("onMulticast: %v", e)
				}
			}
		}
		run.StatMax("max/microseconds_first_to_last_arrival", int64(time.Since(t0)/time.Microsecond))
		deliv, fwd, err := nd.tally()
		if err != nil {
			t.Fatalf("%v", err)
		}
		how := "sequential"
		if concurrent {
			how = "concurrent"
		}
		per := map[msgID]int{}
		for _, a := range arrivals {
			per[msgID{string(a.msg.Origin), a.msg.Id}]++
		}
		for id, times := range per {
			w := map[string]interface{}{"scenario": kind, "arrivals_of_this_message": times, "connected_members": nconn, "kept_members": nkept,
				"deliveries_to_subscribers": deliv[id], "own_origin": id.origin == nd.self.ByteString()}
			run.Stat("messages_judged", 1)
			run.Stat("duplicate_arrivals_"+how, int64(times-1))
			own := id.origin == nd.self.ByteString()
			switch {
			case own && deliv[id] > 0:
				c.Viol("own-message-delivered-back-to-subscribers", fmt.Sprintf("an echo of the node's own message was delivered to its subscribers %d time(s)", deliv[id]), w)
			case deliv[id] > 1:
				c.Viol("delivered-more-than-once-"+how+"-duplicates", fmt.Sprintf("message delivered to the group's subscribers %d times (%d %s arrivals)", deliv[id], times, how), w)
			}
			if deliv[id] == 1 {
				run.Stat("delivered_exactly_once", 1)
			} else if deliv[id] == 0 && !own {
				run.Stat("not_delivered_at_all", 1)
			}
			most, total := 0, 0
			for _, cnt := range fwd[id] {
				total += cnt
				if cnt > most {
					most = cnt
				}
			}
			w["forwards_total"], w["most_forwards_to_one_member"] = total, most
			if most > 1 {
				key := "forwarded-more-than-once-" + how + "-duplicates"
				if own {
					key = "own-message-forwarded-again-on-echo"
				}
				c.Viol(key, fmt.Sprintf("message forwarded %d times to the same member (%d forwards in all, %d members, %d %s arrivals)", most, total, len(mem), times, how), w)
			}
			if total > 0 {
				run.Stat("messages_forwarded", 1)
			}
		}
		_ = nd.svc.Close()
		c.End(fmt.Sprintf("%s/arrivals=%d/conn=%d/kept=%d", kind, len(arrivals), nconn, nkept), len(arrivals) > 1)
	}
}
