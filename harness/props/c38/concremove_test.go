package c38

import (
	"fmt"
	"runtime"
	"sort"
	"strings"
	"sync"
	"testing"
	"time"

	"github.com/gauss-project/aurorafs/pkg/boson"

	"verif/harness/internal/obs"
)

// crGroup is one group of a concurrent add/remove case: an anchor member that stays
// connected all the time (so that the member list the node announces is never empty and
// differs from group to group - the node skips an announcement whose content equals the
// previous one, of whatever group) and one peer P that leaves and rejoins at the same time.
type crGroup struct {
	gi        int
	gid       boson.Address
	anchor, p boson.Address
	neighbour bool            // P is a direct neighbour: add(P,true) lists it as connected, else kept
	offsets   []time.Duration // per round: how long after the start of remove(P) the add(P) starts; <0 = spin start
	rounds    []string
	viols     []string
	outcomes  map[string]bool
	readds    int
}

// lists reads where every peer of the group is, through the lists under the group lock and
// through the exported GetGroupPeers view.
func (cg *crGroup) lists(w *mworld) map[string][]string {
	in := map[string]map[string]bool{}
	put := func(list string, ps []boson.Address) {
		for _, a := range ps {
			if in[a.ByteString()] == nil {
				in[a.ByteString()] = map[string]bool{}
			}
			in[a.ByteString()][list] = true
		}
	}
	conn, kept, known, _ := w.svc.VerifGroupLists(cg.gid)
	put("connected", conn)
	put("kept", kept)
	put("known", known)
	if out, err := w.svc.GetGroupPeers(cg.gid.String()); err == nil && out != nil {
		put("connected", out.Connected)
		put("kept", out.Keep)
	}
	res := map[string][]string{}
	for k, m := range in {
		for l := range m {
			res[k] = append(res[k], l)
		}
		sort.Strings(res[k])
	}
	return res
}

func (cg *crGroup) name(a boson.Address) string {
	switch {
	case a.Equal(cg.p):
		return "P"
	case a.Equal(cg.anchor):
		return "anchor"
	}
	return a.String()[:8]
}

// run drives the group: rounds of remove(P, intoKnown=true) overlapped by add(P, keep=true),
// judged when both calls have returned.
func (cg *crGroup) run(w *mworld) {
	target := "kept"
	if cg.neighbour {
		target = "connected"
	}
	// the anchor joins (announced at once), then P joins (announced, rate limited)
	w.svc.VerifGroupAdd(cg.gid, cg.anchor, true)
	for r, off := range cg.offsets {
		if at := cg.lists(w)[cg.p.ByteString()]; len(at) != 1 || at[0] != target {
			// P is not a member (first round, or the add of the previous round came first)
			w.svc.VerifGroupAdd(cg.gid, cg.p, true)
			cg.readds++
		}
		var wg sync.WaitGroup
		var gate int32Gate
		wg.Add(2)
		go func() { // A: P's connection dropped / its keep-ping handshake failed
			defer wg.Done()
			gate.arrive(2)
			w.svc.VerifGroupRemove(cg.gid, cg.p, true)
		}()
		go func() { // B: P shakes hands again as a member
			defer wg.Done()
			gate.arrive(2)
			if off < 0 {
				for i := 0; i < int(-off); i++ {
					runtime.Gosched()
				}
			} else {
				time.Sleep(off)
			}
			w.svc.VerifGroupAdd(cg.gid, cg.p, true)
		}()
		wg.Wait()
		// quiescent: nothing is in flight for this group
		descr := fmt.Sprintf("round %d: remove(g%d,P,intoKnown=true) || add(g%d,P,keep=true) [P neighbour=%v, add starts %s]", r, cg.gi, cg.gi, cg.neighbour, offName(off))
		cg.rounds = append(cg.rounds, descr)
		at := cg.lists(w)
		for k, l := range at {
			if len(l) > 1 {
				cg.viols = append(cg.viols, fmt.Sprintf("after %s: in group g%d peer %s is in lists %v", descr, cg.gi, cg.name(boson.NewAddress([]byte(k))), l))
			}
		}
		o := strings.Join(at[cg.p.ByteString()], "+")
		if o == "" {
			o = "none"
		}
		cg.outcomes[o] = true
	}
}

func offName(off time.Duration) string {
	if off < 0 {
		return fmt.Sprintf("after %d yields", int(-off))
	}
	return "after " + off.String()
}

// int32Gate releases its arrivals together once n of them are there.
type int32Gate struct {
	mu sync.Mutex
	n  int
}

func (g *int32Gate) arrive(n int) {
	g.mu.Lock()
	g.n++
	g.mu.Unlock()
	for {
		g.mu.Lock()
		ok := g.n >= n
		g.mu.Unlock()
		if ok {
			return
		}
		runtime.Gosched()
	}
}

// TestConcurrentRemoveAndRejoin: a member's removal (disconnect event, failed keep-ping) and
// its next handshake as a member are handled by different goroutines of the node; whatever
// the node does while it removes the peer (it announces the new member list to the
// groupPeers subscribers, rate limited to one announcement per 500 ms and group), the lists
// must be a partition again once both calls are over.
func TestConcurrentRemoveAndRejoin(t *testing.T) {
	run := obs.Start(t, "C38")
	defer run.Done()
	run.Rule("one real Service, 10-16 fresh groups whose groupPeers announcement is NOT silenced, each with an anchor member and a peer P (direct neighbour or not); per group 3 rounds, all groups at the same time: goroutine A runs remove(P,intoKnown=true) while goroutine B runs add(P,keep=true), B starting 0.2-380 ms after A (inside the up to 500 ms the rate limited announcement of the removal takes) or after 0-200 scheduler yields; when both returned the three lists of the group (under the group lock, plus GetGroupPeers; at the end of the case also Service.Snapshot) must be pairwise disjoint; distinct = set of places P was found in after a round; non-trivial = P was a member again after at least one round (the add came second)",
		"the lists are judged only when no add/remove of that group is in flight",
		"the stub pub/sub accepts every groupPeers announcement; the announcements themselves are not judged")
	n := run.N(8, 80)
	for k := 0; k < n; k++ {
		c := run.Begin(fmt.Sprintf("concremove/%d", k), nil)
		if c == nil {
			continue
		}
		rng := c.Rand()
		w := newWorld(t, run, c, rng, 2)
		ng := 10 + rng.Intn(7)
		var groups []*crGroup
		for gi := 0; gi < ng; gi++ {
			cg := &crGroup{gi: 4 + gi, gid: randAddr(rng), anchor: randAddr(rng), p: randAddr(rng), neighbour: rng.Intn(3) != 0, outcomes: map[string]bool{}}
			for r := 0; r < 3; r++ {
				switch x := rng.Intn(10); {
				case x == 0:
					cg.offsets = append(cg.offsets, -time.Duration(rng.Intn(201)))
				case x < 4:
					cg.offsets = append(cg.offsets, 200*time.Microsecond+time.Duration(rng.Intn(20000))*time.Microsecond)
				default:
					cg.offsets = append(cg.offsets, time.Duration(20+rng.Intn(361))*time.Millisecond)
				}
			}
			w.route.set(cg.anchor, true)
			w.route.set(cg.p, cg.neighbour)
			w.svc.VerifGroupEnsure(cg.gid) // fresh group: its announcement slot is free
			groups = append(groups, cg)
		}
		var wg sync.WaitGroup
		for _, cg := range groups {
			wg.Add(1)
			go func(cg *crGroup) {
				defer wg.Done()
				cg.run(w)
			}(cg)
		}
		wg.Wait()
		// everything is quiescent: the node's own snapshot of all groups
		snapIn := map[string]map[string]bool{}
		for _, gi := range w.svc.Snapshot().Groups {
			put := func(list string, a boson.Address) {
				k := gi.GroupID.ByteString() + "/" + a.ByteString()
				if snapIn[k] == nil {
					snapIn[k] = map[string]bool{}
				}
				snapIn[k][list] = true
			}
			if out, err := w.svc.GetGroupPeers(gi.GroupID.String()); err == nil && out != nil {
				for _, a := range out.Connected {
					put("connected", a)
				}
			}
			for _, a := range gi.KeepPeers {
				put("kept", a)
			}
			for _, a := range gi.KnowPeers {
				put("known", a)
			}
		}
		outcomes := map[string]bool{}
		rejoined := false
		for _, cg := range groups {
			run.Stat("concurrent-add-remove-rounds", int64(len(cg.rounds)))
			run.Stat("concurrent-add-remove-readds", int64(cg.readds))
			for _, m := range cg.viols {
				c.Viol("peer-in-two-lists-after-concurrent-add-remove", m, map[string]interface{}{"group": cg.gi, "rounds_of_the_group": cg.rounds, "groups_running_at_the_same_time": ng})
			}
			for _, a := range []boson.Address{cg.p, cg.anchor} {
				if m := snapIn[cg.gid.ByteString()+"/"+a.ByteString()]; len(m) > 1 {
					var l []string
					for x := range m {
						l = append(l, x)
					}
					sort.Strings(l)
					c.Viol("peer-in-two-lists-after-concurrent-add-remove", fmt.Sprintf("Snapshot() at the end of the case: in group g%d peer %s is in lists %v", cg.gi, cg.name(a), l),
						map[string]interface{}{"group": cg.gi, "rounds_of_the_group": cg.rounds, "groups_running_at_the_same_time": ng})
				}
			}
			for o := range cg.outcomes {
				outcomes[o] = true
				run.Stat("concurrent-add-remove-outcome/"+o, 1)
				if o == "connected" || o == "kept" {
					rejoined = true
				}
			}
		}
		_ = w.svc.Close()
		var keys []string
		for o := range outcomes {
			keys = append(keys, o)
		}
		sort.Strings(keys)
		c.End(strings.Join(keys, ","), rejoined)
	}
}
