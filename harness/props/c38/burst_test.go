package c38

import (
	"context"
	"fmt"
	"testing"
	"time"

	"github.com/gauss-project/aurorafs/pkg/multicast/pb"
	"github.com/gauss-project/aurorafs/pkg/p2p"

	"verif/harness/internal/obs"
)

// TestFloodBurst keeps ONE node busy: hundreds of distinct messages arrive within a few
// seconds, then copies of the earliest ones arrive again - still inside the one-minute
// de-duplication window, so none of them may be delivered or forwarded a second time
// (whatever bookkeeping the node uses must not forget a message just because many others
// followed it).
func TestFloodBurst(t *testing.T) {
	run := obs.Start(t, "C38")
	defer run.Done()
	run.Rule("one real Service with a joined group (3 connected, 1 kept member) receives B distinct foreign messages (B = 300, 700, 1500) one after the other from its members, then second copies of the first 40 of them; distinct = B; the case is only judged if everything happened within 45 s of the first arrival (monotonic clock), otherwise it is a skip",
		"the 60 s de-duplication window is not outlived: elapsed time is measured and the case skipped beyond 45 s")
	for _, burst := range []int{300, 700, 1500} {
		c := run.Begin(fmt.Sprintf("burst/%d", burst), map[string]interface{}{"distinct_messages": burst, "replayed": 40})
		if c == nil {
			continue
		}
		rng := c.Rand()
		nd := mkFloodNode(t, rng.Int63(), 3, 1)
		mem := nd.members()
		origin := randAddr(rng)
		hnd := handler(nd.svc, "multicast")
		base := uint64(rng.Intn(1 << 30))
		send := func(id uint64) {
			m := &pb.MulticastMsg{Id: id, CreateTime: 1, Origin: origin.Bytes(), Gid: nd.gid.Bytes(), Data: []byte("payload")}
			if e := hnd(context.Background(), p2p.Peer{Address: mem[rng.Intn(len(mem))]}, newMemStream(enc(m))); e != nil {
				t.Fatalf("onMulticast: %v", e)
			}
		}
		t0 := time.Now()
		for i := 0; i < burst; i++ {
			send(base + uint64(i))
		}
		// the copies come a few seconds later (housekeeping of caches is typically periodic),
		// still far inside the one-minute window
		time.Sleep(3 * time.Second)
		for i := 0; i < 40; i++ {
			send(base + uint64(i))
		}
		elapsed := time.Since(t0)
		run.StatMax("max/milliseconds_burst_first_to_last_arrival", int64(elapsed/time.Millisecond))
		if elapsed > 45*time.Second {
			run.Stat("burst_cases_skipped_too_slow", 1)
			c.End(fmt.Sprintf("burst=%d/skipped", burst), false)
			_ = nd.svc.Close()
			continue
		}
		deliv, fwd, err := nd.tally()
		if err != nil {
			t.Fatalf("%v", err)
		}
		for i := 0; i < 40; i++ {
			id := msgID{string(origin.Bytes()), base + uint64(i)}
			w := map[string]interface{}{"distinct_messages_in_between": burst - i, "milliseconds_between_copies_at_most": int64(elapsed / time.Millisecond), "deliveries_to_subscribers": deliv[id]}
			run.Stat("late_duplicates_judged", 1)
			if deliv[id] > 1 {
				c.Viol("delivered-again-after-many-other-messages-within-window", fmt.Sprintf("message delivered %d times: its second copy arrived %d distinct messages (at most %d ms) after the first", deliv[id], burst-i, int64(elapsed/time.Millisecond)), w)
				break
			}
			most := 0
			for _, cnt := range fwd[id] {
				if cnt > most {
					most = cnt
				}
			}
			if most > 1 {
				c.Viol("forwarded-again-after-many-other-messages-within-window", fmt.Sprintf("message forwarded %d times to one member: its second copy arrived %d distinct messages after the first", most, burst-i), w)
				break
			}
		}
		_ = nd.svc.Close()
		c.End(fmt.Sprintf("burst=%d", burst), true)
	}
}
