// Package c38 monitors property C38 "Multicast groups partition peers and flood each
// message once" on one real pkg/multicast.Service wired to stub collaborators (route table,
// topology driver, streamer, pub/sub) the monitor controls and records.
package c38

import (
	"bytes"
	"context"
	"errors"
	"math/rand"
	"sync"
	"time"

	"github.com/gauss-project/aurorafs/pkg/boson"
	"github.com/gauss-project/aurorafs/pkg/logging"
	"github.com/gauss-project/aurorafs/pkg/multicast"
	"github.com/gauss-project/aurorafs/pkg/p2p"
	"github.com/gauss-project/aurorafs/pkg/p2p/protobuf"
	routemock "github.com/gauss-project/aurorafs/pkg/routetab/mock"
	"github.com/gauss-project/aurorafs/pkg/subscribe"
	kadmock "github.com/gauss-project/aurorafs/pkg/topology/kademlia/mock"
	"github.com/sirupsen/logrus"
)

// logWatch is the service's log sink: it counts the trace lines that mark the end of the
// background rounds the service starts on its own (AddGroup spawns handshake and discover
// goroutines), so that the monitor can wait for them instead of racing with them.
type logWatch struct {
	mu     sync.Mutex
	counts map[string]int
}

var logMarkers = []string{"multicast HandshakeAll took", "multicast HandshakeAllKept took", "done took"}

func (l *logWatch) Write(p []byte) (int, error) {
	l.mu.Lock()
	for _, m := range logMarkers {
		if bytes.Contains(p, []byte(m)) {
			l.counts[m]++
		}
	}
	l.mu.Unlock()
	return len(p), nil
}

func (l *logWatch) count(marker string) int {
	l.mu.Lock()
	defer l.mu.Unlock()
	return l.counts[marker]
}

// waitFor waits until the marker was logged n times.
func (l *logWatch) waitFor(marker string, n int) bool {
	deadline := time.Now().Add(30 * time.Second)
	for l.count(marker) < n {
		if time.Now().After(deadline) {
			return false
		}
		time.Sleep(50 * time.Microsecond)
	}
	return true
}

func newLogWatch() (*logWatch, logging.Logger) {
	l := &logWatch{counts: map[string]int{}}
	return l, logging.New(l, logrus.TraceLevel)
}

func newRand(seed int64) *rand.Rand { return rand.New(rand.NewSource(seed)) }

func randAddr(rng *rand.Rand) boson.Address {
	b := make([]byte, 32)
	rng.Read(b)
	return boson.NewAddress(b)
}

// ---------------------------------------------------------------------------------------
// route table: the monitor decides who is a direct neighbour

type routeStub struct {
	*routemock.MockRouteTable
	mu  sync.RWMutex
	nbr map[string]bool
}

func newRouteStub() *routeStub {
	m := routemock.NewMockRouteTable()
	return &routeStub{MockRouteTable: &m, nbr: map[string]bool{}}
}

func (r *routeStub) IsNeighbor(a boson.Address) bool {
	r.mu.RLock()
	defer r.mu.RUnlock()
	return r.nbr[a.ByteString()]
}

func (r *routeStub) set(a boson.Address, on bool) {
	r.mu.Lock()
	defer r.mu.Unlock()
	if on {
		r.nbr[a.ByteString()] = true
	} else {
		delete(r.nbr, a.ByteString())
	}
}

// ---------------------------------------------------------------------------------------
// topology driver: keeps the peer-state notifier the service registers in Start()

type kadStub struct {
	*kadmock.Mock
	mu       sync.Mutex
	notifier subscribe.INotifier
}

func newKadStub() *kadStub { return &kadStub{Mock: kadmock.NewMockKademlia()} }

func (k *kadStub) SubscribePeerState(n subscribe.INotifier) {
	k.mu.Lock()
	k.notifier = n
	k.mu.Unlock()
}

func (k *kadStub) emit(info p2p.PeerInfo) {
	k.mu.Lock()
	n := k.notifier
	k.mu.Unlock()
	_ = n.Notify("", info)
}

// ---------------------------------------------------------------------------------------
// in-memory stream: what the service reads is preloaded, what it writes is kept

type memStream struct {
	mu  sync.Mutex
	in  *bytes.Reader
	out bytes.Buffer
}

func newMemStream(preload []byte) *memStream { return &memStream{in: bytes.NewReader(preload)} }

func (s *memStream) Read(p []byte) (int, error) {
	s.mu.Lock()
	defer s.mu.Unlock()
	return s.in.Read(p)
}

func (s *memStream) Write(p []byte) (int, error) {
	s.mu.Lock()
	defer s.mu.Unlock()
	return s.out.Write(p)
}

func (s *memStream) written() []byte {
	s.mu.Lock()
	defer s.mu.Unlock()
	return append([]byte(nil), s.out.Bytes()...)
}

func (s *memStream) Close() error                 { return nil }
func (s *memStream) FullClose() error             { return nil }
func (s *memStream) Reset() error                 { return nil }
func (s *memStream) Headers() p2p.Headers         { return nil }
func (s *memStream) ResponseHeaders() p2p.Headers { return nil }

func enc(msg protobuf.Message) []byte {
	var b bytes.Buffer
	if err := protobuf.NewWriter(&b).WriteMsg(msg); err != nil {
		panic(err)
	}
	return b.Bytes()
}

func dec(b []byte, msg protobuf.Message) error {
	return protobuf.NewReader(bytes.NewReader(b)).ReadMsg(msg)
}

// ---------------------------------------------------------------------------------------
// streamer: records every stream the service opens; the monitor scripts the peer's reply

type opened struct {
	dest   boson.Address
	stream string
	relay  bool
	s      *memStream
}

type streamerStub struct {
	mu     sync.Mutex
	opened []opened
	// reply returns the bytes the remote peer will have sent on this stream, or an error
	// for "the stream cannot be opened".
	reply func(dest boson.Address, stream string) ([]byte, error)
}

var errNoStream = errors.New("stub: peer unreachable")

func (st *streamerStub) open(dest boson.Address, stream string, relay bool) (p2p.Stream, error) {
	var pre []byte
	if st.reply != nil {
		b, err := st.reply(dest, stream)
		if err != nil {
			return nil, err
		}
		pre = b
	}
	ms := newMemStream(pre)
	st.mu.Lock()
	st.opened = append(st.opened, opened{dest: dest, stream: stream, relay: relay, s: ms})
	st.mu.Unlock()
	return ms, nil
}

func (st *streamerStub) NewStream(_ context.Context, a boson.Address, _ p2p.Headers, _, _, stream string) (p2p.Stream, error) {
	return st.open(a, stream, false)
}

func (st *streamerStub) NewRelayStream(_ context.Context, a boson.Address, _ p2p.Headers, _, _, stream string, _ bool) (p2p.Stream, error) {
	return nil, errNoStream
}

func (st *streamerStub) NewConnChainRelayStream(_ context.Context, a boson.Address, _ p2p.Headers, _, _, stream string) (p2p.Stream, error) {
	return st.open(a, stream, true)
}

func (st *streamerStub) take() []opened {
	st.mu.Lock()
	defer st.mu.Unlock()
	o := st.opened
	st.opened = nil
	return o
}

// ---------------------------------------------------------------------------------------
// pub/sub: records what the service publishes to its subscribers

type published struct {
	ns, kind, param string
	msg             interface{}
}

type subPubStub struct {
	mu   sync.Mutex
	pubs []published
}

func (s *subPubStub) Subscribe(subscribe.INotifier, string, string, string) error { return nil }

func (s *subPubStub) Publish(ns, kind, param string, message interface{}) error {
	s.mu.Lock()
	s.pubs = append(s.pubs, published{ns: ns, kind: kind, param: param, msg: message})
	s.mu.Unlock()
	return nil
}

func (s *subPubStub) PublishArray(ns, kind, field string, list []interface{}) error {
	for _, m := range list {
		_ = s.Publish(ns, kind, "", m)
	}
	return nil
}

func (s *subPubStub) multicastDeliveries() []multicast.Message {
	s.mu.Lock()
	defer s.mu.Unlock()
	var out []multicast.Message
	for _, p := range s.pubs {
		if p.ns == "group" && p.kind == "multicastMsg" {
			if m, ok := p.msg.(multicast.Message); ok {
				out = append(out, m)
			}
		}
	}
	return out
}

// handler returns the service's real stream handler by stream name.
func handler(svc *multicast.Service, name string) p2p.HandlerFunc {
	for _, sp := range svc.Protocol().StreamSpecs {
		if sp.Name == name {
			return sp.Handler
		}
	}
	panic("no handler " + name)
}
