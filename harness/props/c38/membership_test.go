package c38

import (
	"context"
	"fmt"
	"math/rand"
	"sort"
	"strings"
	"testing"
	"time"

	"github.com/gauss-project/aurorafs/pkg/aurora"
	"github.com/gauss-project/aurorafs/pkg/boson"
	"github.com/gauss-project/aurorafs/pkg/multicast"
	"github.com/gauss-project/aurorafs/pkg/multicast/model"
	"github.com/gauss-project/aurorafs/pkg/multicast/pb"
	"github.com/gauss-project/aurorafs/pkg/p2p"

	"verif/harness/internal/obs"
)

const waitMax = 90 * time.Second

type mworld struct {
	t   *testing.T
	run *obs.Run
	c   *obs.Case

	svc   *multicast.Service
	route *routeStub
	kad   *kadStub
	st    *streamerStub
	sp    *subPubStub

	self     boson.Address
	peers    []boson.Address
	gids     []boson.Address
	sentinel boson.Address
	sentSeen chan struct{}

	joinedOf map[string][]int // handshake reply of a peer: indexes into gids
	failing  map[string]bool  // peers whose streams cannot be opened

	ops   []string
	trans map[string]bool
}

func (w *mworld) pname(a boson.Address) string {
	for i, p := range w.peers {
		if p.Equal(a) {
			return fmt.Sprintf("p%d", i)
		}
	}
	if a.Equal(w.self) {
		return "self"
	}
	return a.String()[:8]
}

func (w *mworld) witness(extra map[string]interface{}) map[string]interface{} {
	m := map[string]interface{}{"history": append([]string(nil), w.ops...), "peers": len(w.peers), "groups": len(w.gids)}
	for k, v := range extra {
		m[k] = v
	}
	return m
}

func newWorld(t *testing.T, run *obs.Run, c *obs.Case, rng *rand.Rand, npeers int) *mworld {
	w := &mworld{t: t, run: run, c: c, route: newRouteStub(), kad: newKadStub(), st: &streamerStub{}, sp: &subPubStub{},
		joinedOf: map[string][]int{}, failing: map[string]bool{}, trans: map[string]bool{}, sentSeen: make(chan struct{}, 4)}
	w.self = randAddr(rng)
	w.sentinel = randAddr(rng)
	for i := 0; i < npeers; i++ {
		w.peers = append(w.peers, randAddr(rng))
	}
	for i := 0; i < 4; i++ {
		w.gids = append(w.gids, randAddr(rng))
	}
	w.st.reply = func(dest boson.Address, stream string) ([]byte, error) {
		if dest.Equal(w.sentinel) {
			w.sentSeen <- struct{}{}
			return nil, errNoStream
		}
		if w.failing[dest.ByteString()] {
			return nil, errNoStream
		}
		switch stream {
		case "handshake":
			var g [][]byte
			for _, i := range w.joinedOf[dest.ByteString()] {
				g = append(g, w.gids[i].Bytes())
			}
			return enc(&pb.GIDs{Gid: g}), nil
		case "findGroup":
			return enc(&pb.FindGroupResp{}), nil
		}
		return nil, nil
	}
	lw, logger := newLogWatch()
	w.svc = multicast.NewService(w.self, aurora.NewModel().SetMode(aurora.FullNode), nil, w.st, w.kad, w.route, logger, w.sp, multicast.Option{Dev: true})
	w.svc.Start()
	// g0 joined, g1 observed, g2/g3 only known (created on demand by the handlers)
	if err := w.svc.AddGroup([]model.ConfigNodeGroup{{Name: w.gids[0].String(), GType: model.GTypeJoin}}); err != nil {
		t.Fatalf("AddGroup join: %v", err)
	}
	if err := w.svc.AddGroup([]model.ConfigNodeGroup{{Name: w.gids[1].String(), GType: model.GTypeObserve}}); err != nil {
		t.Fatalf("AddGroup observe: %v", err)
	}
	// AddGroup started background rounds (join: HandshakeAll, HandshakeAllKept, discover;
	// observe: discover); wait until they are over so that the history starts quiescent
	if !lw.waitFor("multicast HandshakeAll took", 1) || !lw.waitFor("multicast HandshakeAllKept took", 1) || !lw.waitFor("done took", 2) {
		t.Fatalf("the background rounds started by AddGroup did not finish (log markers %v)", lw.counts)
	}
	w.ensure()
	return w
}

// ensure (re-)creates the known-type groups and silences the rate-limited groupPeers
// notification of every group (it would sleep up to 500 ms under the group lock).
func (w *mworld) ensure() {
	for _, g := range w.gids {
		w.svc.VerifGroupEnsure(g)
	}
	w.svc.VerifGroupMuteNotify()
}

// barrier waits until the service's event loop has consumed everything emitted so far:
// a connect event for the sentinel makes the loop open a handshake stream to it.
func (w *mworld) barrier() {
	w.kad.emit(p2p.PeerInfo{Overlay: w.sentinel, State: p2p.PeerStateConnectOut})
	select {
	case <-w.sentSeen:
	case <-time.After(waitMax):
		w.t.Fatalf("%s: event loop did not reach the sentinel within %s", w.c.ID(), waitMax)
	}
	w.run.Stat("event_loop_barriers", 1)
}

func (w *mworld) where(g, p boson.Address) string {
	conn, kept, known, ok := w.svc.VerifGroupLists(g)
	if !ok {
		return "nogroup"
	}
	var in []string
	if p.MemberOf(conn) {
		in = append(in, "connected")
	}
	if p.MemberOf(kept) {
		in = append(in, "kept")
	}
	if p.MemberOf(known) {
		in = append(in, "known")
	}
	if len(in) == 0 {
		return "none"
	}
	return strings.Join(in, "+")
}

type snap map[string]string // "gi/pj" -> where

func (w *mworld) snapshot() snap {
	s := snap{}
	for gi, g := range w.gids {
		conn, kept, known, ok := w.svc.VerifGroupLists(g)
		if !ok {
			continue
		}
		for _, l := range []struct {
			name string
			list []boson.Address
		}{{"connected", conn}, {"kept", kept}, {"known", known}} {
			for _, p := range l.list {
				k := fmt.Sprintf("g%d/%s", gi, w.pname(p))
				if s[k] != "" {
					s[k] += "+" + l.name
				} else {
					s[k] = l.name
				}
			}
		}
	}
	return s
}

// check is the oracle: run after every step, at a quiescent point.
func (w *mworld) check(op string, before snap) {
	gids := append([]boson.Address(nil), w.gids...)
	for _, g := range w.svc.VerifGroupIDs() {
		if !g.MemberOf(gids) {
			gids = append(gids, g)
		}
	}
	for gi, g := range gids {
		conn, kept, known, ok := w.svc.VerifGroupLists(g)
		if !ok {
			continue
		}
		w.run.Stat("group_states_checked", 1)
		count := map[string][]string{}
		for _, p := range conn {
			count[p.ByteString()] = append(count[p.ByteString()], "connected")
		}
		for _, p := range kept {
			count[p.ByteString()] = append(count[p.ByteString()], "kept")
		}
		for _, p := range known {
			count[p.ByteString()] = append(count[p.ByteString()], "known")
		}
		for k, lists := range count {
			u := map[string]bool{}
			for _, l := range lists {
				u[l] = true
			}
			if len(u) > 1 {
				var names []string
				for l := range u {
					names = append(names, l)
				}
				sort.Strings(names)
				w.c.Viol("peer-in-"+strings.Join(names, "-and-"), fmt.Sprintf("after %s: in group g%d peer %s is in lists %v", op, gi, w.pname(boson.NewAddress([]byte(k))), names),
					w.witness(map[string]interface{}{"group": gi, "peer": w.pname(boson.NewAddress([]byte(k)))}))
			}
		}
		for _, p := range conn {
			w.run.Stat("connected_entries_checked", 1)
			if !w.route.IsNeighbor(p) {
				w.c.Viol("connected-peer-is-not-a-neighbour", fmt.Sprintf("after %s: group g%d lists %s as connected but it is not a direct neighbour", op, gi, w.pname(p)),
					w.witness(map[string]interface{}{"group": gi, "peer": w.pname(p)}))
			}
		}
		// the exported view must agree: Connected are neighbours and disjoint from Keep
		if out, err := w.svc.GetGroupPeers(g.String()); err == nil && out != nil {
			for _, p := range out.Connected {
				if !w.route.IsNeighbor(p) {
					w.c.Viol("getgrouppeers-connected-is-not-a-neighbour", fmt.Sprintf("after %s: GetGroupPeers(g%d).Connected contains %s, not a direct neighbour", op, gi, w.pname(p)), w.witness(nil))
				}
				if p.MemberOf(out.Keep) {
					w.c.Viol("getgrouppeers-peer-connected-and-kept", fmt.Sprintf("after %s: GetGroupPeers(g%d) lists %s as connected and kept", op, gi, w.pname(p)), w.witness(nil))
				}
			}
			w.run.Stat("getgrouppeers_views_checked", 1)
		}
	}
	// evidence: which transitions this step made
	after := w.snapshot()
	keys := map[string]bool{}
	for k := range before {
		keys[k] = true
	}
	for k := range after {
		keys[k] = true
	}
	kind := strings.SplitN(op, "(", 2)[0]
	for k := range keys {
		b, a := before[k], after[k]
		if b == "" {
			b = "none"
		}
		if a == "" {
			a = "none"
		}
		if a != b {
			tr := fmt.Sprintf("%s:%s->%s", kind, b, a)
			w.trans[tr] = true
			w.run.Stat("transition/"+tr, 1)
		}
	}
}

func (w *mworld) step(op string, f func()) {
	before := w.snapshot()
	w.ops = append(w.ops, op)
	f()
	w.check(op, before)
	w.run.Stat("steps", 1)
}

func (w *mworld) inbound(stream string, from boson.Address, msg []byte) error {
	return handler(w.svc, stream)(context.Background(), p2p.Peer{Address: from}, newMemStream(msg))
}

func (w *mworld) randGids(rng *rand.Rand) (idx []int, names []string, raw [][]byte) {
	for i := range w.gids {
		if rng.Intn(3) == 0 {
			idx = append(idx, i)
			names = append(names, fmt.Sprintf("g%d", i))
			raw = append(raw, w.gids[i].Bytes())
		}
	}
	return
}

func runMembership(t *testing.T, run *obs.Run, c *obs.Case, crowded bool) {
	rng := c.Rand()
	np := 3 + rng.Intn(6)
	nops := 40
	if crowded {
		np = 26 + rng.Intn(5)
		nops = 110
	}
	w := newWorld(t, run, c, rng, np)
	defer w.svc.Close()
	crowdedGroup := rng.Intn(4)
	for k := 0; k < nops; k++ {
		pi := rng.Intn(len(w.peers))
		p := w.peers[pi]
		gi := rng.Intn(len(w.gids))
		g := w.gids[gi]
		x := rng.Intn(100)
		if crowded && k < 75 && rng.Intn(100) < 85 {
			// fill one group's known list beyond the prune threshold (20) first
			gi, g = crowdedGroup, w.gids[crowdedGroup]
			w.step(fmt.Sprintf("add(g%d,p%d,keep=false) [neighbour=%v]", gi, pi, w.route.IsNeighbor(p)), func() { w.svc.VerifGroupAdd(g, p, false) })
			continue
		}
		if crowded && k == 75 {
			_, _, known, _ := w.svc.VerifGroupLists(w.gids[crowdedGroup])
			w.step(fmt.Sprintf("pruneKnown(g%d) [known=%d]", crowdedGroup, len(known)), func() { w.svc.VerifGroupPruneKnown(w.gids[crowdedGroup]) })
			_, _, after, _ := w.svc.VerifGroupLists(w.gids[crowdedGroup])
			if len(known) > 20 {
				run.Stat("prunes_over_threshold", 1)
				run.Stat("peers_pruned", int64(len(known)-len(after)))
			}
			continue
		}
		switch {
		case x < 25:
			keep := rng.Intn(2) == 0
			w.step(fmt.Sprintf("add(g%d,p%d,keep=%v) [neighbour=%v]", gi, pi, keep, w.route.IsNeighbor(p)), func() { w.svc.VerifGroupAdd(g, p, keep) })
		case x < 36:
			into := rng.Intn(2) == 0
			w.step(fmt.Sprintf("remove(g%d,p%d,intoKnown=%v)", gi, pi, into), func() { w.svc.VerifGroupRemove(g, p, into) })
		case x < 42:
			w.step(fmt.Sprintf("pruneKnown(g%d)", gi), func() { w.svc.VerifGroupPruneKnown(g) })
		case x < 45:
			w.step("gcGroup()", func() { w.svc.VerifGcGroup(); w.ensure() })
		case x < 57:
			withEvent := rng.Intn(2) == 0
			idx, names, _ := w.randGids(rng)
			w.step(fmt.Sprintf("connect(p%d) [connectOut event=%v, its handshake reply=%v]", pi, withEvent, names), func() {
				w.route.set(p, true)
				w.joinedOf[p.ByteString()] = idx
				if withEvent {
					w.kad.emit(p2p.PeerInfo{Overlay: p, State: p2p.PeerStateConnectOut})
					w.barrier()
				}
			})
		case x < 69:
			w.step(fmt.Sprintf("disconnect(p%d)", pi), func() {
				w.route.set(p, false)
				w.kad.emit(p2p.PeerInfo{Overlay: p, State: p2p.PeerStateDisconnect})
				w.barrier()
			})
		case x < 79:
			_, names, raw := w.randGids(rng)
			status := int32(1 + rng.Intn(2))
			w.step(fmt.Sprintf("notify(from p%d,status=%d,gids=%v) [neighbour=%v]", pi, status, names, w.route.IsNeighbor(p)), func() {
				if err := w.inbound("notify", p, enc(&pb.Notify{Status: status, Gids: raw})); err != nil {
					t.Fatalf("onNotify: %v", err)
				}
			})
		case x < 91:
			idx, names, raw := w.randGids(rng)
			w.step(fmt.Sprintf("handshakeIncoming(from p%d,gids=%v) [neighbour=%v]", pi, names, w.route.IsNeighbor(p)), func() {
				w.joinedOf[p.ByteString()] = idx
				if err := w.inbound("handshake", p, enc(&pb.GIDs{Gid: raw})); err != nil {
					t.Fatalf("HandshakeIncoming: %v", err)
				}
			})
		case x < 93 && w.route.IsNeighbor(p):
			// the peer stops being a direct neighbour WITHOUT a disconnect event (it is now
			// reached through a relay) and shakes hands again for every group: it must move out
			// of the connected lists. Both happen inside one step, so the "connected => neighbour"
			// clause is judged only after the node had its chance to react.
			var idx []int
			var raw [][]byte
			for i := range w.gids {
				idx = append(idx, i)
				raw = append(raw, w.gids[i].Bytes())
			}
			w.step(fmt.Sprintf("becomesRelayed(p%d)+handshakeIncoming(all groups)", pi), func() {
				w.route.set(p, false)
				w.joinedOf[p.ByteString()] = idx
				if err := w.inbound("handshake", p, enc(&pb.GIDs{Gid: raw})); err != nil {
					t.Fatalf("HandshakeIncoming: %v", err)
				}
			})
			w.run.Stat("neighbour_lost_without_disconnect_then_handshake", 1)
		case x < 95:
			w.step(fmt.Sprintf("unreachable(p%d)=%v", pi, !w.failing[p.ByteString()]), func() {
				w.failing[p.ByteString()] = !w.failing[p.ByteString()]
			})
		default:
			w.step("keepPing()", func() { w.svc.VerifKeepPing() })
		}
	}
	w.step("keepPing()", func() { w.svc.VerifKeepPing() })
	for pi, p := range w.peers {
		if w.route.IsNeighbor(p) {
			pi, p := pi, p
			w.step(fmt.Sprintf("disconnect(p%d)", pi), func() {
				w.route.set(p, false)
				w.kad.emit(p2p.PeerInfo{Overlay: p, State: p2p.PeerStateDisconnect})
				w.barrier()
			})
		}
	}

	var keys []string
	for k := range w.trans {
		keys = append(keys, k)
	}
	sort.Strings(keys)
	c.End(strings.Join(keys, ","), len(keys) >= 6)
	if len(keys) >= 6 {
		run.Stat("histories_with_six_or_more_transition_kinds", 1)
	}
}

func TestMembershipHistories(t *testing.T) {
	run := obs.Start(t, "C38")
	defer run.Done()
	run.Rule("random histories of 40 steps over 3-8 peers and 4 groups (one joined, one observed, two known-only) on one real Service: group add(keep)/remove(intoKnown)/pruneKnown/gcGroup transitions (hook H9), neighbour connect (optionally with the connectOut event and the real outgoing handshake answered by the stub), disconnect event through the service's own peer-state loop, inbound notify and handshake messages through the real stream handlers, unreachable peers, keep-ping handshake rounds; every 10th history is crowded (26-30 peers, 110 steps, one group's known list filled beyond the prune threshold of 20 and then pruned); after every step all three lists of every group are read under the group lock; distinct = set of (operation: list before -> list after) transitions seen; non-trivial = >= 6 transition kinds",
		"the stub route table answers IsNeighbor from the monitor's neighbour set, which is updated before the disconnect event is emitted",
		"disconnect events are judged after the event loop has consumed them (sentinel barrier), not while in flight",
		"the groupPeers subscriber notification is silenced (hook) - it sleeps up to 500 ms under the group lock")
	n := run.N(500, 6000)
	for k := 0; k < n; k++ {
		crowded := k%10 == 9
		c := run.Begin(fmt.Sprintf("hist/%d", k), map[string]interface{}{"crowded": crowded})
		if c == nil {
			continue
		}
		runMembership(t, run, c, crowded)
	}
}
