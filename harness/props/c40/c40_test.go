// Package c40 monitors property C40 "Subscribers get every later message and none after
// leaving" on the real pkg/subscribe subPub.
//
// Hook H7 (verifhook points "subscribe.sub.done" / "subscribe.unsub.done", fired by the
// processing goroutine with the subscription key after it applied a registration / an
// unregistration) tells the monitor when a (un)registration "has taken effect"; in the
// stepwise workload the callback also holds the processing goroutine still so that the
// state between two unregistrations can be observed.
//
// Oracle (from the statement; duplicates are allowed, loss, reordering and delivery after
// leaving are not):
//
//	delivery  a Publish that starts after sub.done of (notifier, key) and returns before the
//	          notifier's error channel is closed delivers the message to it at least once,
//	          under that key; per publisher the first deliveries of the messages of a key are in publication order;
//	silence   a Publish that starts after unsub.done of (notifier, key) delivers nothing to
//	          that notifier under that key.
package c40

import (
	"fmt"
	"math/rand"
	"sort"
	"strings"
	"sync"
	"sync/atomic"
	"testing"
	"time"

	"github.com/gauss-project/aurorafs/pkg/subscribe"
	"github.com/gauss-project/aurorafs/pkg/verifhook"

	"verif/harness/internal/obs"
)

const waitMax = 90 * time.Second

func newRand(seed int64) *rand.Rand { return rand.New(rand.NewSource(seed)) }

// Msg is what publishers send. Param is exported so that PublishArray can find it.
type Msg struct {
	Param string
	Pub   int
	Seq   int
}

type delivery struct {
	key string
	msg Msg
}

type notifier struct {
	id    int
	mu    sync.Mutex
	log   []delivery
	err   chan error
	fired bool
}

func newNotifier(id int) *notifier { return &notifier{id: id, err: make(chan error)} }

func (n *notifier) Notify(key string, data interface{}) error {
	m, _ := data.(Msg)
	n.mu.Lock()
	n.log = append(n.log, delivery{key: key, msg: m})
	n.mu.Unlock()
	return nil
}

func (n *notifier) Err() <-chan error { return n.err }

func (n *notifier) snapshot() []delivery {
	n.mu.Lock()
	defer n.mu.Unlock()
	return append([]delivery(nil), n.log...)
}

func (n *notifier) count(key string, m Msg) int {
	n.mu.Lock()
	defer n.mu.Unlock()
	c := 0
	for _, d := range n.log {
		if d.key == key && d.msg == m {
			c++
		}
	}
	return c
}

func keyOf(kind, param string) string {
	if param == "" {
		return "ns_" + kind
	}
	return "ns_" + kind + "_" + param
}

// keysOfPublish: the keys a Publish("ns", kind, param) addresses (statement: the key and
// its namespace-wide key).
func keysOfPublish(kind, param string) []string {
	if param == "" {
		return []string{keyOf(kind, "")}
	}
	return []string{keyOf(kind, ""), keyOf(kind, param)}
}

var (
	kinds  = []string{"ka", "kb"}
	params = []string{"", "p1", "p2"}
)

type hookEvent struct {
	name string
	key  string
	cont chan struct{} // non-nil: the processing goroutine waits for it to be closed
}

// installHooks routes both hook points into ch. When hold() says so, the processing
// goroutine is kept inside the callback until the monitor closes ev.cont.
func installHooks(ch chan hookEvent, hold func(name string) bool) {
	for _, name := range []string{"subscribe.sub.done", "subscribe.unsub.done"} {
		name := name
		verifhook.Set(name, func(arg interface{}) {
			key, _ := arg.(string)
			ev := hookEvent{name: name, key: key}
			if hold != nil && hold(name) {
				ev.cont = make(chan struct{})
			}
			ch <- ev
			if ev.cont != nil {
				<-ev.cont
			}
		})
	}
}

func waitEvent(t *testing.T, ch chan hookEvent, name, what string) hookEvent {
	select {
	case ev := <-ch:
		if ev.name != name {
			t.Fatalf("hook order: waiting for %s (%s), got %s key=%s", name, what, ev.name, ev.key)
		}
		return ev
	case <-time.After(waitMax):
		t.Fatalf("timeout waiting for hook %s (%s)", name, what)
	}
	return hookEvent{}
}

// ---------------------------------------------------------------------------------------
// stepwise histories

type nmodel struct {
	n     *notifier
	subs  map[string]int // key -> number of effective subscriptions
	order []string       // keys in subscription order (witness)
	gone  map[string]bool
	left  bool
	stuck bool // its error channel fired but an unregistration was not processed within waitMax
}

func TestStepwiseHistories(t *testing.T) {
	run := obs.Start(t, "C40")
	defer run.Done()
	run.Rule("random histories of 24 ops over 2-4 notifiers and keys ns_{ka,kb}[_{p1,p2}]: subscribe (same notifier to the same key up to 3 times, namespace-wide and parameterised), Publish, PublishArray, close a notifier's error channel; every (un)registration is awaited through the hook; while a notifier leaves, the processing goroutine is held after each of its unregistrations and a probe message is published to every key it subscribed to; distinct = set of situations met; non-trivial = a notifier with >= 2 subscriptions left while others stayed",
		"Notify of the harness notifier never blocks; error channels are closed (as rpc.Subscription does)",
		"a notifier subscribed k times to a key may be notified up to k times per message: duplicates are not judged")
	n := run.N(500, 6000)
	for k := 0; k < n; k++ {
		c := run.Begin(fmt.Sprintf("hist/%d", k), nil)
		if c == nil {
			continue
		}
		rng := c.Rand()
		events := make(chan hookEvent, 16)
		holding := atomic.Bool{}
		installHooks(events, func(name string) bool { return name == "subscribe.unsub.done" && holding.Load() })
		sp := subscribe.NewSubPub()
		nn := 2 + rng.Intn(3)
		ms := make([]*nmodel, nn)
		for i := range ms {
			ms[i] = &nmodel{n: newNotifier(i), subs: map[string]int{}, gone: map[string]bool{}}
		}
		var ops []string
		situ := map[string]bool{}
		see := func(s string) { situ[s] = true; run.Stat("situation/"+s, 1) }
		wit := func(extra map[string]interface{}) map[string]interface{} {
			m := map[string]interface{}{"history": append([]string(nil), ops...)}
			for k, v := range extra {
				m[k] = v
			}
			return m
		}
		seq := 0
		nontrivial := false

		// publish one message and judge it against the model; probeFor != nil: a probe
		// published while that notifier is leaving (its not-yet-unregistered keys are free).
		publish := func(kind, param string, array bool, probeFor *nmodel) {
			seq++
			m := Msg{Param: param, Pub: 0, Seq: seq}
			judged := []Msg{m}
			if array {
				// two numbered messages for the parameter, between companions for other parameters
				seq++
				m2 := Msg{Param: param, Pub: 0, Seq: seq}
				judged = append(judged, m2)
				list := []interface{}{Msg{Param: "zz", Pub: 0, Seq: -seq}, m, m2, Msg{Param: "", Pub: 0, Seq: -seq}}
				ops = append(ops, fmt.Sprintf("PublishArray(ns,%s,field Param,[zz,%q,%q,\"\"]) #%d,#%d", kind, param, param, seq-1, seq))
				_ = sp.PublishArray("ns", kind, "Param", list)
				run.Stat("publish_array_calls", 1)
			} else {
				ops = append(ops, fmt.Sprintf("Publish(ns,%s,%q) #%d", kind, param, seq))
				_ = sp.Publish("ns", kind, param, m)
				run.Stat("publish_calls", 1)
			}
			for _, m := range judged {
				for _, nm := range ms {
					for _, key := range keysOfPublish(kind, param) {
						got := nm.n.count(key, m)
						w := map[string]interface{}{"notifier": nm.n.id, "key": key, "message": m.Seq, "deliveries": got, "subscriptions_of_notifier": nm.order}
						switch {
						case nm.gone[key] && got > 0:
							fk := "delivered-after-unsubscribe"
							if nm.stuck {
								fk = "delivered-long-after-error-channel-fired/unregistration-never-processed"
							} else if nm.subs[key] >= 2 {
								fk = "delivered-after-unsubscribe-of-duplicate-subscription"
							}
							c.Viol(fk, fmt.Sprintf("notifier %d received message #%d under %s although its unregistration for that key had been processed (it had subscribed to the key %d time(s))", nm.n.id, m.Seq, key, nm.subs[key]), wit(w))
						case !nm.left && nm.subs[key] > 0 && got == 0:
							c.Viol("message-lost", fmt.Sprintf("notifier %d did not receive message #%d under %s (subscribed %d time(s), registration processed, not left)", nm.n.id, m.Seq, key, nm.subs[key]), wit(w))
						}
						if nm.gone[key] {
							run.Stat("silence_checks", 1)
						} else if !nm.left && nm.subs[key] > 0 {
							run.Stat("delivery_checks", 1)
							if got > 1 {
								see("message-delivered-once-per-duplicate-subscription")
							}
							if key == keyOf(kind, "") && param != "" {
								see("namespace-wide-subscriber-gets-parameterised-message")
							}
						}
					}
				}
			}
		}

		abandoned := false
	opsLoop:
		for o := 0; o < 24; o++ {
			if abandoned {
				break opsLoop
			}
			switch x := rng.Intn(100); {
			case x < 35:
				nm := ms[rng.Intn(nn)]
				if nm.left {
					continue
				}
				kind, param := kinds[rng.Intn(2)], params[rng.Intn(3)]
				key := keyOf(kind, param)
				if rng.Intn(3) == 0 && len(nm.order) > 0 { // favour duplicates
					key = nm.order[rng.Intn(len(nm.order))]
					parts := strings.Split(key, "_")
					kind, param = parts[1], ""
					if len(parts) == 3 {
						param = parts[2]
					}
				}
				if nm.subs[key] >= 3 {
					continue
				}
				ops = append(ops, fmt.Sprintf("Subscribe(notifier%d, ns,%s,%q)", nm.n.id, kind, param))
				if err := sp.Subscribe(nm.n, "ns", kind, param); err != nil {
					c.Viol("subscribe-error", err.Error(), wit(nil))
					continue
				}
				ev := waitEvent(t, events, "subscribe.sub.done", key)
				if ev.key != key {
					t.Fatalf("sub.done for key %q, expected %q", ev.key, key)
				}
				nm.subs[key]++
				nm.order = append(nm.order, key)
				run.Stat("registrations_awaited", 1)
				if nm.subs[key] > 1 {
					see(fmt.Sprintf("subscribe-same-key-%d-times", nm.subs[key]))
				}
			case x < 70:
				publish(kinds[rng.Intn(2)], params[rng.Intn(3)], false, nil)
			case x < 80:
				publish(kinds[rng.Intn(2)], params[rng.Intn(3)], true, nil)
			default:
				var cand []*nmodel
				for _, nm := range ms {
					if !nm.left && len(nm.order) > 0 {
						cand = append(cand, nm)
					}
				}
				if len(cand) == 0 {
					continue
				}
				nm := cand[rng.Intn(len(cand))]
				ops = append(ops, fmt.Sprintf("close error channel of notifier%d (subscriptions %v)", nm.n.id, nm.order))
				nm.left = true
				holding.Store(true)
				close(nm.n.err)
				run.Stat("notifiers_left", 1)
				others := 0
				for _, o := range ms {
					if o != nm && !o.left && len(o.order) > 0 {
						others++
					}
				}
				if len(nm.order) >= 2 && others > 0 {
					nontrivial = true
				}
				dup, multi := false, len(nm.subs) > 1
				for _, cnt := range nm.subs {
					if cnt > 1 {
						dup = true
					}
				}
				see(fmt.Sprintf("leave/dup=%v/several-keys=%v", dup, multi))
				for j := 0; j < len(nm.order); j++ {
					var ev hookEvent
					select {
					case ev = <-events:
						if ev.name != "subscribe.unsub.done" {
							t.Fatalf("hook order: waiting for subscribe.unsub.done, got %s key=%s", ev.name, ev.key)
						}
					case <-time.After(waitMax):
						// bounded progress: the error channel fired waitMax ago and the subscription
						// is still registered. Probe: anything delivered now is delivered "after the
						// error channel fired".
						ops = append(ops, fmt.Sprintf("  unregistration %d/%d of notifier%d NOT processed within %s", j+1, len(nm.order), nm.n.id, waitMax))
						nm.stuck = true
						for _, key := range nm.order {
							nm.gone[key] = true
						}
						seenK := map[string]bool{}
						for _, key := range nm.order {
							if seenK[key] {
								continue
							}
							seenK[key] = true
							parts := strings.Split(key, "_")
							param := ""
							if len(parts) == 3 {
								param = parts[2]
							}
							publish(parts[1], param, false, nm)
						}
						run.Stat("unregistrations_never_processed", 1)
						abandoned = true
					}
					if abandoned {
						break
					}
					if nm.subs[ev.key] == 0 {
						t.Fatalf("unsub.done for key %q which notifier%d never subscribed to", ev.key, nm.n.id)
					}
					first := !nm.gone[ev.key]
					nm.gone[ev.key] = true
					run.Stat("unregistrations_awaited", 1)
					ops = append(ops, fmt.Sprintf("  unregistration of notifier%d for %s processed (processing goroutine held=%v)", nm.n.id, ev.key, ev.cont != nil))
					if ev.cont != nil {
						run.Stat("probes_while_processing_goroutine_held", 1)
					}
					if first && nm.subs[ev.key] > 1 {
						see("probe-between-unregistrations-of-duplicate-subscription")
					}
					// probe every key the notifier ever subscribed to
					seen := map[string]bool{}
					for _, key := range nm.order {
						if seen[key] {
							continue
						}
						seen[key] = true
						parts := strings.Split(key, "_")
						param := ""
						if len(parts) == 3 {
							param = parts[2]
						}
						publish(parts[1], param, false, nm)
					}
					if ev.cont != nil {
						close(ev.cont)
					}
				}
				holding.Store(false)
			}
		}
		if abandoned {
			// hook events of this case can no longer be awaited reliably: stop this test function
			// here (the violation, if any, has been recorded)
			holding.Store(false)
			c.End("abandoned-after-unprocessed-unregistration", true)
			return
		}
		// everybody leaves; wait until every unregistration is processed so that nothing of
		// this case fires hooks during the next one
		pending := 0
		for _, nm := range ms {
			if !nm.left {
				nm.left = true
				close(nm.n.err)
				pending += len(nm.order)
			}
		}
		for ; pending > 0; pending-- {
			waitEvent(t, events, "subscribe.unsub.done", "closing")
		}
		publish("ka", "p1", false, nil)
		publish("kb", "", false, nil)
		// order: under each key, the first deliveries of the messages are in publication order
		// (a notifier subscribed k times legitimately sees k interleaved in-order streams)
		for _, nm := range ms {
			last := map[string]int{}
			seen := map[delivery]bool{}
			for _, d := range nm.n.snapshot() {
				if d.msg.Seq < 0 || seen[d] {
					continue // PublishArray companions; repeated deliveries
				}
				seen[d] = true
				if d.msg.Seq < last[d.key] {
					c.Viol("out-of-order", fmt.Sprintf("notifier %d first received #%d after #%d under %s", nm.n.id, d.msg.Seq, last[d.key], d.key), wit(map[string]interface{}{"subscriptions_of_notifier": nm.order}))
				}
				last[d.key] = d.msg.Seq
				run.Stat("order_checks", 1)
			}
		}
		var keys []string
		for s := range situ {
			keys = append(keys, s)
		}
		sort.Strings(keys)
		c.End(fmt.Sprintf("n=%d|%s", nn, strings.Join(keys, ",")), nontrivial)
		if k < 2 {
			run.Sample(map[string]interface{}{"kind": "stepwise history", "ops": ops})
		}
	}
	verifhook.Reset()
}

// ---------------------------------------------------------------------------------------
// leaving before the registration was processed

func TestLeaveBeforeRegistrationProcessed(t *testing.T) {
	run := obs.Start(t, "C40")
	defer run.Done()
	run.Rule("per case: the processing goroutine is held at the sub.done of a first notifier while a second notifier subscribes and its error channel is closed at once, so that its registration and its unregistration are both queued; after both were processed (in whichever order the processing goroutine picked) a message is published; distinct = order in which the two were processed; non-trivial = unregistration processed first",
		"1 ms is given to the library's own goroutine to queue the unregistration; if it was not queued in time the case simply sees the normal order")
	n := run.N(60, 600)
	for k := 0; k < n; k++ {
		c := run.Begin(fmt.Sprintf("early/%d", k), nil)
		if c == nil {
			continue
		}
		events := make(chan hookEvent, 16)
		hold := atomic.Bool{}
		hold.Store(true)
		installHooks(events, func(name string) bool { return name == "subscribe.sub.done" && hold.Load() })
		sp := subscribe.NewSubPub()
		first, second := newNotifier(0), newNotifier(1)
		_ = sp.Subscribe(first, "ns", "ka", "")
		ev := waitEvent(t, events, "subscribe.sub.done", "first notifier")
		hold.Store(false)
		// the processing goroutine is inside the callback: queue registration, then unregistration
		_ = sp.Subscribe(second, "ns", "ka", "p1")
		close(second.err)
		time.Sleep(time.Millisecond)
		close(ev.cont)
		var order []string
		for j := 0; j < 2; j++ {
			select {
			case e := <-events:
				order = append(order, strings.TrimPrefix(e.name, "subscribe."))
			case <-time.After(waitMax):
				t.Fatalf("timeout waiting for the second notifier's events (got %v)", order)
			}
		}
		m := Msg{Param: "p1", Pub: 0, Seq: 1}
		_ = sp.Publish("ns", "ka", "p1", m)
		got := second.count(keyOf("ka", "p1"), m)
		run.Stat("order/"+strings.Join(order, ","), 1)
		run.Stat("early_leave_cases", 1)
		if got > 0 {
			c.Viol("delivered-after-unsubscribe-processed-before-subscribe",
				fmt.Sprintf("notifier received a message published after both its registration and its unregistration had been processed (order %v)", order),
				map[string]interface{}{"processing_order": order, "scenario": "Subscribe(second); close(second.err) while the processing goroutine is busy; wait for sub.done and unsub.done; Publish"})
		}
		if first.count(keyOf("ka", ""), m) == 0 {
			c.Viol("message-lost", "the staying namespace-wide subscriber did not receive the message", nil)
		}
		close(first.err)
		waitEvent(t, events, "subscribe.unsub.done", "first notifier leaving")
		c.End(strings.Join(order, ","), order[0] == "unsub.done")
	}
	verifhook.Reset()
}

// ---------------------------------------------------------------------------------------
// concurrent publishers

type pubRec struct {
	kind, param string
	m           Msg
	start, end  int64
}

type cnotif struct {
	n        *notifier
	keys     []string // keys subscribed (with duplicates)
	subTick  map[string]int64
	fireTick int64 // 0 = not fired during the concurrent phase
	goneTick int64
}

func TestConcurrentPublishers(t *testing.T) {
	run := obs.Start(t, "C40")
	defer run.Done()
	run.Rule("per case: 1-4 publisher goroutines publish 150 numbered messages each to random keys while one churn goroutine subscribes new notifiers (1-3 times to 1-2 keys) and closes error channels of others, awaiting every hook event; a logical clock (atomic counter) orders Publish start/end against sub.done / close / last unsub.done; distinct = (publishers, notifiers joined, notifiers left, duplicate subscriptions present); non-trivial = at least one notifier joined and one left while messages were being published",
		"must-deliver: Publish started after the sub.done tick and returned before the close tick; must-not-deliver: Publish started after the notifier's last unsub.done tick; per (notifier, key, publisher) the first deliveries of the messages are in publication order")
	n := run.N(120, 1200)
	for k := 0; k < n; k++ {
		c := run.Begin(fmt.Sprintf("conc/%d", k), nil)
		if c == nil {
			continue
		}
		rng := c.Rand()
		events := make(chan hookEvent, 256)
		installHooks(events, nil)
		sp := subscribe.NewSubPub()
		var clock atomic.Int64
		npub := 1 + rng.Intn(4)
		const perPub = 150

		var all []*cnotif
		subscribe1 := func(cn *cnotif, kind, param string) {
			key := keyOf(kind, param)
			_ = sp.Subscribe(cn.n, "ns", kind, param)
			waitEvent(t, events, "subscribe.sub.done", key)
			if _, ok := cn.subTick[key]; !ok {
				cn.subTick[key] = clock.Add(1)
			}
			cn.keys = append(cn.keys, key)
		}
		mk := func() *cnotif {
			cn := &cnotif{n: newNotifier(len(all)), subTick: map[string]int64{}}
			all = append(all, cn)
			return cn
		}
		randomSubs := func(cn *cnotif, r interface{ Intn(int) int }) {
			for j := 1 + r.Intn(2); j > 0; j-- {
				kind, param := kinds[r.Intn(2)], params[r.Intn(3)]
				for d := 1 + r.Intn(3); d > 0; d-- {
					subscribe1(cn, kind, param)
				}
			}
		}
		// phase A: initial population
		for i := 2 + rng.Intn(3); i > 0; i-- {
			randomSubs(mk(), rng)
		}
		// phase B
		recs := make([][]pubRec, npub)
		var wg sync.WaitGroup
		var pubsDone atomic.Int32
		for p := 0; p < npub; p++ {
			p := p
			r := newRand(rng.Int63())
			wg.Add(1)
			go func() {
				defer wg.Done()
				defer pubsDone.Add(1)
				for s := 1; s <= perPub; s++ {
					kind, param := kinds[r.Intn(2)], params[r.Intn(3)]
					m := Msg{Param: param, Pub: p, Seq: s}
					st := clock.Add(1)
					_ = sp.Publish("ns", kind, param, m)
					en := clock.Add(1)
					recs[p] = append(recs[p], pubRec{kind: kind, param: param, m: m, start: st, end: en})
				}
			}()
		}
		joined, left := 0, 0
		churn := newRand(rng.Int63())
		for pubsDone.Load() < int32(npub) && joined+left < 12 {
			if churn.Intn(2) == 0 {
				randomSubs(mk(), churn)
				joined++
			} else {
				var cand []*cnotif
				for _, cn := range all {
					if cn.fireTick == 0 {
						cand = append(cand, cn)
					}
				}
				if len(cand) <= 1 {
					continue
				}
				cn := cand[churn.Intn(len(cand))]
				cn.fireTick = clock.Add(1)
				close(cn.n.err)
				for range cn.keys {
					waitEvent(t, events, "subscribe.unsub.done", "churn")
				}
				cn.goneTick = clock.Add(1)
				left++
			}
		}
		done := make(chan struct{})
		go func() { wg.Wait(); close(done) }()
		select {
		case <-done:
		case <-time.After(waitMax):
			t.Fatalf("publishers did not finish")
		}
		// phase C: one more message per key combination after everything settled
		for _, kind := range kinds {
			for _, param := range params {
				m := Msg{Param: param, Pub: npub, Seq: 1}
				st := clock.Add(1)
				_ = sp.Publish("ns", kind, param, m)
				recs = append(recs, []pubRec{{kind: kind, param: param, m: m, start: st, end: clock.Add(1)}})
			}
		}
		// judge
		dups := false
		for _, cn := range all {
			log := cn.n.snapshot()
			got := map[string]map[Msg]int{}
			lastSeq := map[string]int{}
			for _, d := range log {
				if got[d.key] == nil {
					got[d.key] = map[Msg]int{}
				}
				got[d.key][d.msg]++
				if got[d.key][d.msg] > 1 {
					continue // repeated delivery (duplicate subscription): first deliveries are judged
				}
				ok := fmt.Sprintf("%s/%d", d.key, d.msg.Pub)
				run.Stat("order_checks", 1)
				if d.msg.Seq < lastSeq[ok] {
					c.Viol("out-of-order", fmt.Sprintf("notifier %d first received message %d of publisher %d after message %d under %s", cn.n.id, d.msg.Seq, d.msg.Pub, lastSeq[ok], d.key),
						map[string]interface{}{"notifier_subscriptions": cn.keys})
				}
				lastSeq[ok] = d.msg.Seq
			}
			mult := map[string]int{}
			for _, key := range cn.keys {
				mult[key]++
				if mult[key] > 1 {
					dups = true
				}
			}
			for _, pr := range recs {
				for _, r := range pr {
					for _, key := range keysOfPublish(r.kind, r.param) {
						st, subscribed := cn.subTick[key]
						if !subscribed {
							continue
						}
						g := got[key][r.m]
						w := map[string]interface{}{"notifier_subscriptions": cn.keys, "key": key, "publisher": r.m.Pub, "seq": r.m.Seq,
							"publish_start_tick": r.start, "publish_end_tick": r.end, "sub_done_tick": st, "close_tick": cn.fireTick, "last_unsub_done_tick": cn.goneTick}
						switch {
						case cn.goneTick != 0 && r.start > cn.goneTick:
							run.Stat("silence_checks", 1)
							if g > 0 {
								c.Viol("delivered-after-all-unsubscribes-processed", fmt.Sprintf("notifier %d received a message whose Publish started after all its unregistrations had been processed", cn.n.id), w)
							}
						case r.start > st && (cn.fireTick == 0 || r.end < cn.fireTick):
							run.Stat("delivery_checks", 1)
							if g == 0 {
								c.Viol("message-lost", fmt.Sprintf("notifier %d did not receive message %d of publisher %d under %s", cn.n.id, r.m.Seq, r.m.Pub, key), w)
							}
						default:
							run.Stat("publishes_overlapping_a_transition", 1)
						}
					}
				}
			}
		}
		// all leave
		pending := 0
		for _, cn := range all {
			if cn.fireTick == 0 {
				cn.fireTick = -1
				close(cn.n.err)
				pending += len(cn.keys)
			}
		}
		for ; pending > 0; pending-- {
			waitEvent(t, events, "subscribe.unsub.done", "closing")
		}
		run.Stat("concurrent_joins", int64(joined))
		run.Stat("concurrent_leaves", int64(left))
		c.End(fmt.Sprintf("pubs=%d/joined=%d/left=%d/dups=%v", npub, joined, left, dups), joined > 0 && left > 0)
	}
	verifhook.Reset()
}
