package c40

import (
	"fmt"
	"testing"
	"time"

	"github.com/gauss-project/aurorafs/pkg/subscribe"
	"github.com/gauss-project/aurorafs/pkg/verifhook"

	"verif/harness/internal/obs"
)

// gate is a notifier whose Notify can be held: the publisher then stays in the middle of
// its delivery loop until the monitor lets it go on.
type gate struct {
	*notifier
	entered chan struct{}
	release chan struct{}
	armed   bool
}

func (g *gate) Notify(key string, data interface{}) error {
	if g.armed {
		g.armed = false
		close(g.entered)
		<-g.release
	}
	return g.notifier.Notify(key, data)
}

// TestLeaveInTheMiddleOfAPublish: a Publish is held inside the Notify of the subscriber
// at list position `at` (of 3..6 subscribers of one key); meanwhile subscriber `leaver`
// (any position, also the held one) closes its error channel and its unregistration is
// processed; then the Publish goes on. Every subscriber that stayed must have the message
// exactly once (the leaver may or may not have it).
func TestLeaveInTheMiddleOfAPublish(t *testing.T) {
	run := obs.Start(t, "C40")
	defer run.Done()
	run.Rule("for list sizes 3..6, every held position and every leaving position: subscribers registered one after the other (each sub.done awaited), Publish started in a goroutine and held inside the Notify of one subscriber, another (or the same) subscriber's error channel closed and unsub.done awaited, Publish released; then a second message is published; distinct = (size, held position, leaving position)",
		"the held Notify and the awaited hook events make the interleaving deterministic")
	for size := 3; size <= 6; size++ {
		for at := 0; at < size; at++ {
			for leaver := 0; leaver < size; leaver++ {
				c := run.Begin(fmt.Sprintf("midpublish/%d/%d/%d", size, at, leaver), map[string]interface{}{"subscribers": size, "publish_held_at_position": at, "leaving_position": leaver})
				if c == nil {
					continue
				}
				events := make(chan hookEvent, 32)
				installHooks(events, nil)
				sp := subscribe.NewSubPub()
				var subs []*gate
				for k := 0; k < size; k++ {
					g := &gate{notifier: newNotifier(k), entered: make(chan struct{}), release: make(chan struct{})}
					subs = append(subs, g)
					_ = sp.Subscribe(g, "ns", "ka", "")
					waitEvent(t, events, "subscribe.sub.done", "registration")
				}
				subs[at].armed = true
				m1 := Msg{Param: "", Pub: 0, Seq: 1}
				pubDone := make(chan struct{})
				go func() { defer close(pubDone); _ = sp.Publish("ns", "ka", "", m1) }()
				held := true
				select {
				case <-subs[at].entered:
				case <-pubDone:
					held = false // delivery order differs from registration order: nothing was held
				case <-time.After(waitMax):
					t.Fatal("publish neither reached the held subscriber nor returned")
				}
				close(subs[leaver].err)
				waitEvent(t, events, "subscribe.unsub.done", "unregistration of the leaver")
				if held {
					close(subs[at].release)
					select {
					case <-pubDone:
					case <-time.After(waitMax):
						t.Fatal("publish did not return after the held Notify was released")
					}
					run.Stat("publishes_held_during_an_unregistration", 1)
				}
				m2 := Msg{Param: "", Pub: 0, Seq: 2}
				_ = sp.Publish("ns", "ka", "", m2)
				key := keyOf("ka", "")
				for k, g := range subs {
					n1, n2 := g.count(key, m1), g.count(key, m2)
					w := map[string]interface{}{"subscribers": size, "publish_held_at_position": at, "leaving_position": leaver, "subscriber": k, "copies_of_first_message": n1, "copies_of_second_message": n2}
					if k == leaver {
						if n2 > 0 {
							c.Viol("delivered-after-unsubscribe", fmt.Sprintf("subscriber %d got a message published after its unregistration had been processed", k), w)
						}
						continue
					}
					run.Stat("staying_subscribers_checked", 1)
					switch {
					case n1 == 0 || n2 == 0:
						c.Viol("message-lost", fmt.Sprintf("staying subscriber %d of %d missed a message (first: %d copies, second: %d) while subscriber %d left in the middle of the first publish (held at %d)", k, size, n1, n2, leaver, at), w)
					case n1 > 1 || n2 > 1:
						c.Viol("message-delivered-twice", fmt.Sprintf("staying subscriber %d of %d got a message more than once (first: %d copies, second: %d) while subscriber %d left in the middle of the first publish (held at %d)", k, size, n1, n2, leaver, at), w)
					}
				}
				for k, g := range subs {
					if k != leaver {
						close(g.err)
						waitEvent(t, events, "subscribe.unsub.done", "clean-up")
					}
				}
				c.End(fmt.Sprintf("midpublish/size=%d/at=%d/leaver=%d/held=%v", size, at, leaver, held), held)
			}
		}
	}
	verifhook.Reset()
}
