package c01

import (
	"context"
	"fmt"
	"io"
	"testing"

	"github.com/gauss-project/aurorafs/pkg/boson"
	"github.com/gauss-project/aurorafs/pkg/file"
	"github.com/gauss-project/aurorafs/pkg/file/joiner"
	"github.com/gauss-project/aurorafs/pkg/file/pipeline/builder"
	"github.com/gauss-project/aurorafs/pkg/storage"

	fk "verif/harness/internal/filekit"
	"verif/harness/internal/obs"
	"verif/harness/internal/spec"
)

// prfReader streams the pseudo-random content without holding it.
type prfReader struct {
	seed   uint64
	off, n int64
}

func (r *prfReader) Read(p []byte) (int, error) {
	if r.off >= r.n {
		return 0, io.EOF
	}
	l := int64(len(p))
	if l > r.n-r.off {
		l = r.n - r.off
	}
	fk.Fill(p[:l], r.seed, r.off)
	r.off += l
	return int(l), nil
}

// cmpWriter compares what is written with the pseudo-random stream.
type cmpWriter struct {
	seed    uint64
	off     int64
	badAt   int64
	scratch []byte
}

func (w *cmpWriter) Write(p []byte) (int, error) {
	if cap(w.scratch) < len(p) {
		w.scratch = make([]byte, len(p))
	}
	e := w.scratch[:len(p)]
	fk.Fill(e, w.seed, w.off)
	if w.badAt < 0 {
		if d := firstDiff(e, p); d >= 0 {
			w.badAt = w.off + int64(d)
		}
	}
	w.off += int64(len(p))
	return len(p), nil
}

// Thorough tier only: real data across the first full intermediate chunk, through the
// pipeline exactly as builder.NewPipelineBuilder configures it (the synthetic writer test
// configures the hash-trie writer itself): 8192 full chunks + a tail unencrypted (2 GiB),
// 4096 + a tail encrypted (1 GiB); read back completely and at the boundary.
func TestRealLevelBoundary(t *testing.T) {
	run := obs.Start(t, "C01")
	defer run.Done()
	run.Rule("thorough tier only: PRF streams of 8192*CS+CS+7 bytes (plain) and 4096*CS+CS+7 bytes (encrypted) through builder.FeedPipeline into a copying store; Size, complete JoinReadAll compared on the fly, ReadAt around the end of the first full level-1 chunk and the end of file")
	if !run.Thorough() {
		run.Stat("real_level_boundary_skipped_in_quick", 1)
		return
	}
	ctx := context.Background()
	for _, enc := range []bool{false, true} {
		B := int64(spec.Branches)
		if enc {
			B /= 2
		}
		n := B*CS + CS + 7
		c := run.Begin(fmt.Sprintf("boundary/%s/N%d", modeName(enc), n), map[string]interface{}{"size": n, "encrypt": enc})
		if c == nil {
			continue
		}
		seed := c.Rand().Uint64()
		pre := modeName(enc) + "/"
		w := map[string]interface{}{"size": n, "content_seed": seed, "encrypt": enc}
		st := fk.NewStore()
		st.Record = false
		p := builder.NewPipelineBuilder(ctx, st, storage.ModePutUpload, enc)
		addr, err := builder.FeedPipeline(ctx, p, &prfReader{seed: seed, n: n})
		shape := fmt.Sprintf("boundary|%s", modeName(enc))
		if err != nil {
			c.Viol(pre+"upload-error", err.Error(), w)
			c.End(shape, true)
			continue
		}
		ref := append([]byte(nil), addr.Bytes()...)
		func() {
			defer func() {
				if r := recover(); r != nil {
					c.Viol(pre+"panic-read", fmt.Sprint(r), w)
				}
			}()
			j, size, err := joiner.New(ctx, st, storage.ModeGetRequest, boson.NewAddress(ref))
			if err != nil {
				c.Viol(pre+"open-error", err.Error(), w)
				return
			}
			if size != n || j.Size() != n {
				c.Viol(pre+"size-mismatch", fmt.Sprintf("size %d / Size() %d, content has %d bytes", size, j.Size(), n), w)
				return
			}
			cw := &cmpWriter{seed: seed, badAt: -1}
			total, err := file.JoinReadAll(ctx, j, cw)
			switch {
			case err != nil:
				c.Viol(pre+"readall-error", fmt.Sprintf("JoinReadAll: %v after %d bytes", err, total), w)
			case cw.badAt >= 0 || cw.off != n:
				c.Viol(pre+"readall-content", fmt.Sprintf("JoinReadAll returned %d bytes, first difference at %d", cw.off, cw.badAt), w)
			default:
				run.Stat("readall_bytes_compared", n)
				run.Stat("real_files_with_full_level1_chunk_read_back", 1)
			}
			r := &reader{c: c, run: run, prefix: pre, j: j, size: n, w: w,
				expect: func(off int64, l int) []byte { b := make([]byte, l); fk.Fill(b, seed, off); return b }}
			for _, off := range []int64{0, B*CS - CS - 1, B*CS - 1, B * CS, B*CS + 1, B*CS + CS - 1, B*CS + CS, n - 8, n - 1, n} {
				for _, l := range []int{1, 100, CS + 1} {
					r.readAt(off, l)
				}
			}
		}()
		c.End(shape, true)
	}
}
