package c01

import (
	"context"
	"fmt"
	"math/rand"
	"testing"

	"github.com/gauss-project/aurorafs/pkg/file/joiner"
	"github.com/gauss-project/aurorafs/pkg/storage"

	fk "verif/harness/internal/filekit"
	"verif/harness/internal/obs"
	"verif/harness/internal/spec"
)

type trieCase struct {
	ID      string `json:"id"`
	Leaves  int64  `json:"leaves"`
	Last    int64  `json:"last_leaf_bytes"` // 0: drawn from the case PRNG
	Encrypt bool   `json:"encrypt"`
}

// Write side of 2- and 3-level trees without materialising them: the real hash-trie
// writer, configured as the builder configures it, is fed one (span, reference) per leaf;
// every intermediate chunk it assembles must be exactly the chunk the format prescribes at
// that position (span, reference count, the very references in order), each exactly once,
// and Sum must return the prescribed root.
func TestTrieWriterLevels(t *testing.T) {
	run := obs.Start(t, "C01")
	defer run.Done()
	run.Rule("real hashtrie.NewHashTrieWriter (plain: 8192x32-byte refs; encrypted: 4096x64) fed synthetic leaf references for L leaves, L around B, 2B, kB and B^2 (more of the B^2 cases in thorough) and random L; last leaf 1, full or random bytes; recorded intermediate chunks compared one by one with spec.Tree. distinct = (mode, class of L relative to powers of B, last-leaf class)",
		"the short pipeline (hash+store of an intermediate chunk) is replaced by a recorder that names each chunk by its position; the writer itself is the real one")
	var cases []trieCase
	for _, enc := range []bool{false, true} {
		B := int64(spec.Branches)
		if enc {
			B /= 2
		}
		ls := []int64{1, 2, 3, B - 1, B, B + 1, 2*B - 1, 2 * B, 2*B + 1, 3*B + 5, 5 * B}
		for _, l := range ls {
			for _, last := range []int64{1, CS, 0} {
				cases = append(cases, trieCase{ID: fmt.Sprintf("%s/L%d/last%d", modeName(enc), l, last), Leaves: l, Last: last, Encrypt: enc})
			}
		}
		// three-level trees: B^2 leaves cost about 6 s (plain) / 2 s (encrypted) per case
		big := []int64{B*B + 1}
		lasts := []int64{0}
		if enc {
			big = []int64{B*B - 1, B * B, B*B + 1, B*B + B + 1}
		}
		if run.Thorough() {
			big = []int64{B*B - 1, B * B, B*B + 1, B*B + B, B*B + B + 1, 2*B*B + 1, B*B + 3*B + 7}
			lasts = []int64{1, 0}
		}
		for _, l := range big {
			for _, last := range lasts {
				cases = append(cases, trieCase{ID: fmt.Sprintf("%s/L%d/last%d", modeName(enc), l, last), Leaves: l, Last: last, Encrypt: enc})
			}
		}
		for i := 0; i < run.N(12, 40); i++ {
			cases = append(cases, trieCase{ID: fmt.Sprintf("%s/rnd%d", modeName(enc), i), Leaves: -1, Encrypt: enc})
		}
	}
	for _, tc := range cases {
		c := run.Begin(tc.ID, tc)
		if c == nil {
			continue
		}
		rng := c.Rand()
		B := int64(spec.Branches)
		if tc.Encrypt {
			B /= 2
		}
		L := tc.Leaves
		if L < 0 {
			switch rng.Intn(3) {
			case 0:
				L = 1 + rng.Int63n(3*B)
			case 1:
				L = (1+rng.Int63n(12))*B + rng.Int63n(3) - 1
			default:
				L = 1 + rng.Int63n(40*B)
			}
		}
		last := tc.Last
		if last == 0 {
			last = 1 + rng.Int63n(CS)
		}
		n := (L-1)*CS + last
		w := map[string]interface{}{"leaves": L, "last_leaf_bytes": last, "file_bytes": n, "encrypt": tc.Encrypt}
		pre := modeName(tc.Encrypt) + "/writer-"
		var rec *fk.TrieRecorder
		var sum []byte
		var err error
		func() {
			defer func() {
				if p := recover(); p != nil {
					c.Viol(pre+"panic", fmt.Sprint(p), w)
					err = fmt.Errorf("panic")
				}
			}()
			rec, sum, err = fk.DriveTrie(n, tc.Encrypt)
		}()
		lastClass := "mid"
		if last == 1 {
			lastClass = "1"
		} else if last == CS {
			lastClass = "full"
		}
		shape := fmt.Sprintf("writer|%s|%s|last=%s", modeName(tc.Encrypt), leafClass(L, B), lastClass)
		if err != nil {
			if err.Error() != "panic" {
				c.Viol(pre+"error", err.Error(), w)
			}
			c.End(shape, true)
			continue
		}
		mm := rec.Finish(sum)
		if len(mm) > 0 {
			w["mismatches"] = mm
			c.Viol(pre+mm[0].Kind, mm[0].Msg, w)
		}
		tr := rec.T
		run.Stat("writer_leaf_refs_fed", L)
		run.Stat("writer_intermediate_chunks_checked", int64(rec.Seen()))
		run.StatMax("max/writer_tree_depth", int64(tr.Root().Level))
		if tr.Root().Level >= 2 {
			run.Stat("writer_trees_3_levels_or_more", 1)
		}
		if tr.Root().Level < tr.Depth() || L%B == 1 && L > 1 {
			run.Stat("writer_trees_with_carried_reference", 1)
		}
		c.End(shape, L > 1)
	}
}

// leafClass places L relative to the powers of the branching factor.
func leafClass(L, B int64) string {
	for _, p := range []struct {
		name string
		v    int64
	}{{"B^2", B * B}, {"B", B}} {
		if L >= p.v {
			q, r := L/p.v, L%p.v
			qs := fmt.Sprint(q)
			if q > 3 {
				qs = "k"
			}
			switch {
			case r == 0:
				return qs + p.name
			case r == 1:
				return qs + p.name + "+1"
			case r == p.v-1:
				return qs + p.name + "+(" + p.name + "-1)"
			case p.name == "B^2" && r == B:
				return qs + p.name + "+B"
			case p.name == "B^2" && r == B+1:
				return qs + p.name + "+B+1"
			}
			return qs + p.name + "+r"
		}
	}
	if L == B-1 {
		return "B-1"
	}
	if L <= 3 {
		return fmt.Sprint(L)
	}
	return "<B"
}

// maxVirtual bounds the virtual file sizes: 2^56 bytes (64 PiB). Larger spans are beyond
// anything the upload pipeline can be fed and a reader may reasonably refuse them.
const maxVirtual = int64(1) << 56

type vCase struct {
	ID      string `json:"id"`
	N       int64  `json:"file_bytes"` // -1: drawn from the case PRNG
	Encrypt bool   `json:"encrypt"`
}

// Read side of 2-, 3- and 4-level trees without materialising them: the real joiner reads
// through a getter that synthesises, on demand, the chunks that the format prescribes for
// an N-byte file of pseudo-random bytes.
func TestVirtualJoiner(t *testing.T) {
	run := obs.Start(t, "C01")
	defer run.Done()
	run.Rule("real joiner.New over the virtual tree getter for N around CS*B, CS*B^2, CS*B^3 (+-1, +5) and random N <= 2^56, plain (B=8192) and encrypted (B=4096, chunks encrypted with encryption.New as NewChunkEncrypter does); per file: Size, ReadAt at offsets concentrated around subtree boundaries of every level and the end, Seek/Read walk. distinct = (mode, depth of tree, class of N)",
		"virtual chunks are built from spec.Tree, whose agreement with the real writer is checked by TestTrieWriterLevels",
		"file sizes up to 2^56 bytes in quick; thorough adds 2^57-1, 2^57+5, 2^60, 2^60+1 (plain) and 2^57+5, 2^60 (encrypted)")
	ctx := context.Background()
	var cases []vCase
	for _, enc := range []bool{false, true} {
		B := int64(spec.Branches)
		if enc {
			B /= 2
		}
		ns := []int64{CS + 1, 2 * CS, CS*B - 1, CS * B, CS*B + 1, CS*B + CS, CS*B + CS + 1, 2*CS*B + 1,
			CS*B*B - 1, CS * B * B, CS*B*B + 1, CS*B*B + CS*B + 1, CS*B*B + CS + 1,
			CS*B*B*B - 1, CS * B * B * B, CS*B*B*B + 5, CS*B*B*B + CS*B*B + CS*B + CS + 1}
		ns = append(ns, maxVirtual, maxVirtual-1, maxVirtual/2+CS*B*B+CS*B+CS+1, 3*CS*B*B+5)
		for _, n := range ns {
			if n > maxVirtual {
				continue
			}
			cases = append(cases, vCase{ID: fmt.Sprintf("%s/N%d", modeName(enc), n), N: n, Encrypt: enc})
		}
		if run.Thorough() {
			// beyond 2^56: the unchanged joiner reads these correctly, so a later change must too
			huge := []int64{1<<57 - 1, 1<<57 + 5, 1 << 60, 1<<60 + 1}
			if enc {
				huge = []int64{1<<57 + 5, 1 << 60}
			}
			for _, n := range huge {
				cases = append(cases, vCase{ID: fmt.Sprintf("%s/huge/N%d", modeName(enc), n), N: n, Encrypt: enc})
			}
		}
		for i := 0; i < run.N(10, 24); i++ {
			cases = append(cases, vCase{ID: fmt.Sprintf("%s/rnd%d", modeName(enc), i), N: -1, Encrypt: enc})
		}
	}
	for _, vc := range cases {
		c := run.Begin(vc.ID, vc)
		if c == nil {
			continue
		}
		rng := c.Rand()
		B := int64(spec.Branches)
		if vc.Encrypt {
			B /= 2
		}
		N := vc.N
		if N < 0 {
			N = 1 + rng.Int63n(int64(1)<<uint(19+rng.Intn(38)))
		}
		seed := rng.Uint64()
		vt := fk.NewVTree(N, seed, vc.Encrypt)
		pre := "virtual/" + modeName(vc.Encrypt) + "/"
		w := map[string]interface{}{"file_bytes": N, "content_seed": seed, "encrypt": vc.Encrypt}
		depth := vt.T.Root().Level
		shape := fmt.Sprintf("virtual|%s|depth=%d|%s", modeName(vc.Encrypt), depth, nClass(N, B))
		func() {
			defer func() {
				if p := recover(); p != nil {
					c.Viol(pre+"panic-read", fmt.Sprint(p), w)
				}
			}()
			j, size, err := joiner.New(ctx, vt, storage.ModeGetRequest, vt.RootRef())
			if err != nil {
				c.Viol(pre+"open-error", err.Error(), w)
				return
			}
			if size != N || j.Size() != N {
				c.Viol(pre+"size-mismatch", fmt.Sprintf("size %d / Size() %d, file has %d bytes", size, j.Size(), N), w)
				return
			}
			r := &reader{c: c, run: run, prefix: pre, j: j, size: N, w: w, expect: vt.Expect}
			reads := run.N(60, 150)
			if vc.Encrypt {
				reads = run.N(24, 50)
			}
			for k := 0; k < reads; k++ {
				off := boundaryOffset(rng, vt.T)
				l := pickLen(rng, 2*CS)
				if vc.Encrypt && l > CS+2 {
					l = 1 + rng.Intn(300)
				}
				r.readAt(off, l)
			}
			r.walk(rng, run.N(4, 10), CS/2)
		}()
		per, unknown := vt.Gets()
		for lvl, cnt := range per {
			run.Stat(fmt.Sprintf("virtual_chunks_served_level_%d", lvl), cnt)
		}
		if unknown > 0 {
			// the joiner asked for an address that is no chunk of the file
			c.Viol(pre+"foreign-address-requested", fmt.Sprintf("%d requests for addresses that are no chunk of the file", unknown), w)
		}
		run.Stat("virtual_files", 1)
		run.StatMax("max/virtual_tree_depth", int64(depth))
		if depth >= 3 {
			run.Stat("virtual_files_4_levels", 1)
		}
		c.End(shape, true)
	}
}

// boundaryOffset picks an offset near a subtree boundary of a random level, near the end,
// or anywhere.
func boundaryOffset(rng *rand.Rand, t spec.Tree) int64 {
	N := t.N
	switch rng.Intn(8) {
	case 0:
		return rng.Int63n(N)
	case 1:
		o := N - 40 + rng.Int63n(44)
		if o < 0 {
			o = 0
		}
		return o
	case 2:
		return N + rng.Int63n(2)*rng.Int63n(1<<40)
	}
	lvl := rng.Intn(t.Depth() + 1)
	cov := t.Cover(lvl)
	cnt := t.Count(lvl)
	b := (1 + rng.Int63n(cnt)) * cov // may be past the end for the last one
	if rng.Intn(3) == 0 {
		// boundaries next to the last, partially filled subtree
		b = (cnt - 1 - rng.Int63n(2)) * cov
	}
	o := b - 3 + rng.Int63n(6)
	if rng.Intn(3) == 0 {
		o = b - CS - 3 + rng.Int63n(2*CS)
	}
	if o < 0 {
		o = 0
	}
	return o
}

func nClass(N, B int64) string {
	unit := int64(CS)
	name := "CS"
	for _, p := range []string{"CS*B", "CS*B^2", "CS*B^3"} {
		if N/B >= unit {
			unit *= B
			name = p
		} else {
			break
		}
	}
	q, r := N/unit, N%unit
	qs := fmt.Sprint(q)
	if q > 2 {
		qs = "k"
	}
	switch {
	case q == 0:
		return "<" + name
	case r == 0:
		return qs + "*" + name
	case r <= 5:
		return qs + "*" + name + "+few"
	case r == unit-1:
		return qs + "*" + name + "+unit-1"
	}
	return qs + "*" + name + "+r"
}
