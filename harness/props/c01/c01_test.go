// Package c01: uploaded content reads back byte-identical.
//
// Oracle (from the statement only): for content c uploaded through the real pipeline with
// any write segmentation, plain or encrypted, the returned reference opens; the reported
// size is len(c); a full sequential read, reads at arbitrary offsets and reads after seeks
// return exactly the corresponding bytes of c.
package c01

import (
	"bytes"
	"context"
	"fmt"
	"io"
	"math/rand"
	"testing"

	"github.com/gauss-project/aurorafs/pkg/boson"
	"github.com/gauss-project/aurorafs/pkg/file"
	"github.com/gauss-project/aurorafs/pkg/file/joiner"
	"github.com/gauss-project/aurorafs/pkg/storage"

	fk "verif/harness/internal/filekit"
	"verif/harness/internal/obs"
)

const CS = fk.CS

func modeName(enc bool) string {
	if enc {
		return "enc"
	}
	return "plain"
}

func sizeClass(n int) string {
	switch {
	case n == 0:
		return "empty"
	case n < 32:
		return "sub-segment"
	case n <= 4097:
		return fmt.Sprintf("small%+d", cmp3(n, 4096))
	case n < CS-1:
		return "sub-chunk"
	}
	k := (n + CS - 1) / CS
	edge := "mid"
	switch n % CS {
	case 0:
		edge = "full"
	case 1:
		edge = "full+1"
	case CS - 1:
		edge = "full-1"
	}
	b := fmt.Sprint(k)
	switch {
	case k > 32:
		b = "33+"
	case k > 8:
		b = "9-32"
	case k > 4:
		b = "5-8"
	}
	return fmt.Sprintf("%schunks/%s", b, edge)
}

func cmp3(a, b int) int {
	switch {
	case a < b:
		return -1
	case a > b:
		return 1
	}
	return 0
}

type realCase struct {
	ID      string `json:"id"`
	Size    int    `json:"size"` // -1: drawn from the case PRNG
	Seg     string `json:"segmentation"`
	Kind    string `json:"content_kind"`
	Encrypt bool   `json:"encrypt"`
	MaxRand int    `json:"max_random_size,omitempty"`
}

func realCases(run *obs.Run, enc bool) []realCase {
	var cs []realCase
	fixed := []int{0, 1, 31, 32, 33, 4095, 4096, 4097, CS - 1, CS, CS + 1, 2*CS - 1, 2 * CS, 2*CS + 1, 3*CS + 17}
	for _, n := range fixed {
		segs := []string{fk.SegOne, fk.SegRandom, fk.SegAligned, fk.SegAround, fk.SegFeed, fk.SegFeedEOF}
		if n <= 4097 {
			segs = []string{fk.SegOne, fk.SegByte, fk.SegSmall, fk.SegFeed, fk.SegFeedEOF}
		}
		for _, s := range segs {
			cs = append(cs, realCase{ID: fmt.Sprintf("n%d/%s", n, s), Size: n, Seg: s, Kind: fk.KindPRF, Encrypt: enc})
		}
	}
	// identical leaves (deduplicated by the store) must still read back
	for _, k := range []string{fk.KindZeros, fk.KindRepeat} {
		for _, n := range []int{CS, 3*CS + 5, 5 * CS} {
			cs = append(cs, realCase{ID: fmt.Sprintf("n%d/%s/%s", n, fk.SegRandom, k), Size: n, Seg: fk.SegRandom, Kind: k, Encrypt: enc})
		}
	}
	segs := []string{fk.SegOne, fk.SegRandom, fk.SegAligned, fk.SegMiB, fk.SegAround, fk.SegFeed, fk.SegFeedEOF, fk.SegRandom}
	maxRand := run.N(6<<20, 32<<20)
	for i := 0; i < run.N(24, 40); i++ {
		cs = append(cs, realCase{ID: fmt.Sprintf("rnd%d/%s", i, segs[i%len(segs)]), Size: -1, Seg: segs[i%len(segs)], Kind: fk.KindPRF, Encrypt: enc, MaxRand: maxRand})
	}
	return cs
}

// readChecks runs the read-side oracle on an opened joiner against the expected content.
type expecter func(off int64, n int) []byte

type reader struct {
	c      *obs.Case
	run    *obs.Run
	prefix string // finding-key prefix
	j      file.Joiner
	size   int64
	expect expecter
	w      map[string]interface{}
}

func (r *reader) viol(key, msg string, extra map[string]interface{}) {
	w := map[string]interface{}{}
	for k, v := range r.w {
		w[k] = v
	}
	for k, v := range extra {
		w[k] = v
	}
	r.c.Viol(r.prefix+key, msg, w)
}

func firstDiff(a, b []byte) int {
	for i := range a {
		if i >= len(b) || a[i] != b[i] {
			return i
		}
	}
	return -1
}

// readAt performs one ReadAt with an exact-capacity buffer and judges it.
func (r *reader) readAt(off int64, l int) {
	buf := make([]byte, l)
	var n int
	var err error
	func() {
		defer func() {
			if p := recover(); p != nil {
				r.viol("panic-readat", fmt.Sprint(p), map[string]interface{}{"off": off, "len": l})
				err = fmt.Errorf("panic")
				n = -1
			}
		}()
		n, err = r.j.ReadAt(buf, off)
	}()
	if n < 0 {
		return
	}
	r.run.Stat("readat_calls", 1)
	ex := map[string]interface{}{"off": off, "len": l, "n": n, "err": fmt.Sprint(err)}
	if off >= r.size {
		r.run.Stat("readat_at_or_past_end", 1)
		if n != 0 || err != io.EOF {
			r.viol("readat-past-end", fmt.Sprintf("ReadAt at offset %d of a %d-byte file returned n=%d err=%v, want 0, EOF", off, r.size, n, err), ex)
		}
		return
	}
	want := int64(l)
	if r.size-off < want {
		want = r.size - off
	}
	if err != nil && err != io.EOF {
		r.viol("readat-error", fmt.Sprintf("ReadAt(len %d, off %d) on a %d-byte file: %v", l, off, r.size, err), ex)
		return
	}
	if int64(n) != want {
		r.viol("readat-count", fmt.Sprintf("ReadAt(len %d, off %d) on a %d-byte file returned n=%d, want %d", l, off, r.size, n, want), ex)
		if int64(n) > want {
			return
		}
	}
	exp := r.expect(off, n)
	if d := firstDiff(exp, buf[:n]); d >= 0 {
		ex["first_diff_at"] = off + int64(d)
		r.viol("readat-content", fmt.Sprintf("ReadAt(len %d, off %d): byte at file offset %d is %#x, content has %#x", l, off, off+int64(d), buf[d], exp[d]), ex)
	}
	r.run.Stat("readat_bytes_compared", int64(n))
	if l > 0 && (off/CS != (off+int64(n)-1)/CS) {
		r.run.Stat("readat_crossing_chunk_boundary", 1)
	}
}

func (r *reader) pickOffset(rng *rand.Rand) int64 {
	size := r.size
	switch rng.Intn(6) {
	case 0: // near a chunk boundary
		if size > CS {
			b := (1 + rng.Int63n((size+CS-1)/CS)) * CS
			o := b - 40 + rng.Int63n(80)
			if o < 0 {
				o = 0
			}
			return o
		}
	case 1: // near the end
		o := size - 70 + rng.Int63n(75)
		if o < 0 {
			o = 0
		}
		return o
	case 2: // at or past the end
		return size + rng.Int63n(3)*rng.Int63n(CS)
	}
	if size == 0 {
		return rng.Int63n(3)
	}
	return rng.Int63n(size)
}

func pickLen(rng *rand.Rand, maxBig int) int {
	switch rng.Intn(7) {
	case 0:
		return rng.Intn(3)
	case 1:
		return 1 + rng.Intn(100)
	case 2:
		return 4000 + rng.Intn(200)
	case 3:
		return CS - 2 + rng.Intn(5)
	case 4:
		return 1 + rng.Intn(maxBig)
	}
	return 1 + rng.Intn(3000)
}

// walk performs a Seek/Read walk.
func (r *reader) walk(rng *rand.Rand, steps int, maxLen int) {
	pos := int64(0) // model of the joiner's offset: the joiner is fresh or was just read to a known position
	p0, err := r.j.Seek(0, io.SeekStart)
	if err != nil {
		r.run.Stat("seek_errors", 1) // the statement lets a seek report an error
		return
	}
	if p0 != 0 {
		r.viol("seek-position", fmt.Sprintf("Seek(0, start) returned %d", p0), nil)
		return
	}
	known := true // whether the model knows the joiner's position (not after a rejected seek)
	for s := 0; s < steps; s++ {
		target := r.pickOffset(rng)
		if target > r.size {
			target = r.size
		}
		whence := rng.Intn(3)
		if !known && whence == io.SeekCurrent {
			whence = io.SeekStart
		}
		var arg int64
		switch whence {
		case io.SeekStart:
			arg = target
		case io.SeekCurrent:
			arg = target - pos
		case io.SeekEnd: // the project counts end offsets backwards
			arg = r.size - target
		}
		p, err := r.j.Seek(arg, whence)
		ex := map[string]interface{}{"seek_arg": arg, "whence": whence, "from": pos, "target": target, "returned": p, "err": fmt.Sprint(err)}
		if err != nil {
			// the statement lets a seek report an error; nothing was promised about reads then
			r.run.Stat("seek_errors", 1)
			known = false
			continue
		}
		known = true
		r.run.Stat("seeks_ok", 1)
		if p != target {
			r.viol("seek-position", fmt.Sprintf("Seek(%d, whence %d) from %d on a %d-byte file returned %d, want %d", arg, whence, pos, r.size, p, target), ex)
			return
		}
		pos = target
		// a few sequential reads from there
		for k := 0; k < 1+rng.Intn(3); k++ {
			l := pickLen(rng, maxLen)
			buf := make([]byte, l)
			n, err := r.j.Read(buf)
			ex := map[string]interface{}{"pos": pos, "len": l, "n": n, "err": fmt.Sprint(err)}
			if err != nil && err != io.EOF {
				r.viol("read-error", fmt.Sprintf("Read(len %d) at %d: %v", l, pos, err), ex)
				return
			}
			if n < 0 || n > l {
				r.viol("read-count", fmt.Sprintf("Read(len %d) at %d returned n=%d", l, pos, n), ex)
				return
			}
			if pos >= r.size {
				if n != 0 || err != io.EOF {
					r.viol("read-past-end", fmt.Sprintf("Read at %d of a %d-byte file returned n=%d err=%v", pos, r.size, n, err), ex)
					return
				}
				continue
			}
			if int64(n) > r.size-pos {
				r.viol("read-count", fmt.Sprintf("Read(len %d) at %d of a %d-byte file returned n=%d", l, pos, r.size, n), ex)
				return
			}
			if l > 0 && n == 0 {
				r.viol("read-no-progress", fmt.Sprintf("Read(len %d) at %d of a %d-byte file returned 0 bytes, err=%v", l, pos, r.size, err), ex)
				return
			}
			exp := r.expect(pos, n)
			if d := firstDiff(exp, buf[:n]); d >= 0 {
				ex["first_diff_at"] = pos + int64(d)
				r.viol("read-after-seek-content", fmt.Sprintf("Read(len %d) after seek to %d: byte at file offset %d differs", l, pos, pos+int64(d)), ex)
				return
			}
			r.run.Stat("seek_read_bytes_compared", int64(n))
			pos += int64(n)
		}
	}
}

func runReal(t *testing.T, enc bool) {
	run := obs.Start(t, "C01")
	defer run.Done()
	run.Rule("real pipeline (builder.NewPipelineBuilder/FeedPipeline) into a copying store, then joiner.New: fixed sizes around segment/chunk boundaries x write segmentations (one, byte, small, random, aligned, around CS+-1, 1 MiB, FeedPipeline with short reads / data+EOF), identical-leaf contents, random sizes; per case: Size, JoinReadAll, random ReadAt (offsets biased to chunk boundaries and end), Seek/Read walk. distinct = (size class, segmentation, content kind, mode); all cases compare bytes",
		"the store copies chunk data on Put, as localstore does",
		"write buffers are overwritten by the caller after each Write returns (io.Writer contract)")
	ctx := context.Background()
	nReads := run.N(24, 40)
	for _, rc := range realCases(run, enc) {
		c := run.Begin(rc.ID, rc)
		if c == nil {
			continue
		}
		rng := c.Rand()
		n := rc.Size
		if n < 0 {
			n = rng.Intn(rc.MaxRand + 1)
			if rng.Intn(4) == 0 { // land on / next to a chunk boundary
				n = n/CS*CS + rng.Intn(3) - 1
				if n < 0 {
					n = 0
				}
			}
		}
		seed := rng.Uint64()
		content := fk.MakeContent(rc.Kind, n, seed)
		st := fk.NewStore()
		w := map[string]interface{}{"size": n, "segmentation": rc.Seg, "content_kind": rc.Kind, "content_seed": seed, "encrypt": enc}
		pre := modeName(enc) + "/"
		var up fk.UploadResult
		func() {
			defer func() {
				if p := recover(); p != nil {
					c.Viol(pre+"panic-upload", fmt.Sprint(p), w)
					up.Err = fmt.Errorf("panic")
				}
			}()
			up = fk.Upload(ctx, st, storage.ModePutUpload, content, rc.Seg, enc, rng)
		}()
		shape := fmt.Sprintf("%s|%s|%s|%s", sizeClass(n), rc.Seg, rc.Kind, modeName(enc))
		if up.ShortWrite != "" {
			c.Viol(pre+"write-short-count", up.ShortWrite, w)
		}
		if up.Err != nil {
			if up.Err.Error() != "panic" {
				c.Viol(pre+"upload-error", up.Err.Error(), w)
			}
			c.End(shape, true)
			continue
		}
		puts, _, _, dups := st.Counters()
		run.Stat("uploads", 1)
		run.Stat("bytes_uploaded", int64(n))
		run.Stat("chunks_put", puts)
		run.Stat("chunks_put_again_same_address", dups)
		run.Stat("write_calls", int64(up.Writes))
		w["reference"] = obs.Hex(up.Ref)
		wantRef := 32
		if enc {
			wantRef = 64
		}
		if len(up.Ref) != wantRef {
			c.Viol(pre+"reference-length", fmt.Sprintf("reference has %d bytes", len(up.Ref)), w)
			c.End(shape, true)
			continue
		}

		func() {
			defer func() {
				if p := recover(); p != nil {
					c.Viol(pre+"panic-read", fmt.Sprint(p), w)
				}
			}()
			j, size, err := joiner.New(ctx, st, storage.ModeGetRequest, boson.NewAddress(up.Ref))
			if err != nil {
				c.Viol(pre+"open-error", fmt.Sprintf("joiner.New on the returned reference: %v", err), w)
				return
			}
			if size != int64(n) || j.Size() != int64(n) {
				c.Viol(pre+"size-mismatch", fmt.Sprintf("size %d / Size() %d, content has %d bytes", size, j.Size(), n), w)
				return
			}
			r := &reader{c: c, run: run, prefix: pre, j: j, size: int64(n), w: w,
				expect: func(off int64, l int) []byte { return content[off : off+int64(l)] }}
			// full sequential read
			var out bytes.Buffer
			total, err := file.JoinReadAll(ctx, j, &out)
			if err != nil {
				c.Viol(pre+"readall-error", fmt.Sprintf("JoinReadAll: %v after %d bytes", err, total), w)
			} else if !bytes.Equal(out.Bytes(), content) {
				d := firstDiff(content, out.Bytes())
				c.Viol(pre+"readall-content", fmt.Sprintf("JoinReadAll returned %d bytes, first difference at %d", out.Len(), d), w)
			} else {
				run.Stat("readall_bytes_compared", int64(n))
			}
			for k := 0; k < nReads; k++ {
				r.readAt(r.pickOffset(rng), pickLen(rng, 5*CS/2))
			}
			r.walk(rng, 10, 3*CS/2)
		}()
		if (n+CS-1)/CS > 1 {
			run.Stat("multi_chunk_files", 1)
		}
		c.End(shape, true)
	}
}

func TestRealPlain(t *testing.T)     { runReal(t, false) }
func TestRealEncrypted(t *testing.T) { runReal(t, true) }
