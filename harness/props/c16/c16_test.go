package c16

import (
	"fmt"
	"sort"
	"strings"
	"testing"

	"verif/harness/internal/fsim"
	"verif/harness/internal/obs"
)

type opRec struct {
	Op   string `json:"op"`
	File int    `json:"file"`
	Arg  string `json:"arg,omitempty"`
	Note string `json:"note,omitempty"`
}

// four shards so the orchestrator can run them as parallel child processes
func TestShard0(t *testing.T) { histories(t, 0) }
func TestShard1(t *testing.T) { histories(t, 1) }
func TestShard2(t *testing.T) { histories(t, 2) }
func TestShard3(t *testing.T) { histories(t, 3) }

func histories(t *testing.T, shard int) {
	run := obs.Start(t, "C16")
	defer run.Done()
	run.Rule("histories of 30 ops on a mini node (capacity 10..22 chunks, 8..13 in every second history) over families of overlapping files: identical blocks shared between files, one file being a chunk-aligned prefix of another, repeated blocks inside a file; files are uploaded, uploaded pinned, cached from a source node, deleted through DELETE /aurora/{ref} and evicted by collection runs; every third history restarts the node now and then (new node on the same chunk database and state store); after every delete / eviction every other file that was locally complete is read back from the local store only (manifest + joiner) and compared byte for byte, and chunks used only by the removed file (and not pinned) must be gone; distinct = (relation kinds among files, removal kinds, #removals)",
		"'locally known' files are those uploaded or cached on the node and not deleted or evicted since",
		"a file counts as evicted by a collection run when its root chunk was stored before the eviction and is gone afterwards")
	n := run.N(200, 1600)
	for i := shard; i < n; i += 4 {
		c := run.Begin(fmt.Sprintf("hist/%d", i), nil)
		if c == nil {
			continue
		}
		rng := c.Rand()
		capacity := uint64(10 + rng.Intn(13))
		if i%2 == 1 {
			capacity = uint64(8 + rng.Intn(6)) // small cache: collections become due often
		}
		// every third history runs on a restartable node and restarts it now and then: what
		// chunkinfo knows about the files is then rebuilt from the state store
		restartable := i%3 == 2
		var w *fsim.World
		var err error
		if restartable {
			w, err = fsim.NewRestartableWorld(capacity)
		} else {
			w, err = fsim.NewWorld(capacity)
		}
		if err != nil {
			t.Fatal(err)
		}
		// file family: base, chunk-aligned prefix of base, file sharing one block, file with a
		// repeated block, identical-block-only file
		a, b2, c3, d4 := rng.Intn(6), rng.Intn(6), rng.Intn(6), rng.Intn(6)
		specs := [][]int{{a, b2, c3}, {a, b2}, {a}, {d4, b2}, {c3, c3, a}, {d4}}
		rels := map[string]bool{}
		var files []*fsim.File
		for si, sp := range specs {
			if si >= 3 && rng.Intn(3) == 0 {
				continue
			}
			last := fsim.CS
			if si == 0 || si == 3 {
				last = []int{fsim.CS, 1000}[rng.Intn(2)]
			}
			f, err := w.NewFile(sp, last)
			if err != nil {
				t.Fatal(err)
			}
			dup := false
			for _, g := range files {
				if g == f {
					dup = true
				}
			}
			if !dup {
				files = append(files, f)
			}
		}
		for x := 0; x < len(files); x++ {
			for y := x + 1; y < len(files); y++ {
				sh := 0
				for ch := range files[x].Chunks {
					if files[y].Chunks[ch] {
						sh++
					}
				}
				if sh > 0 {
					rels["shares"] = true
				}
			}
			seen := map[int]bool{}
			for _, bl := range files[x].Blocks {
				if seen[bl] {
					rels["repeats"] = true
				}
				seen[bl] = true
			}
		}
		rels["prefix"] = true
		known := make([]bool, len(files)) // uploaded or cached here, not removed since
		var hist []opRec
		removals := map[string]int{}
		witness := func(extra map[string]interface{}) map[string]interface{} {
			var fd []map[string]interface{}
			for _, f := range files {
				fd = append(fd, f.Desc())
			}
			o := map[string]interface{}{"capacity": capacity, "files": fd, "history": append([]opRec(nil), hist...)}
			for k, v := range extra {
				o[k] = v
			}
			return o
		}
		// judge one removal step: removed = indices of files removed by it
		judge := func(kind string, before, after *fsim.State, removed map[int]bool) {
			run.Stat("removals_judged", 1)
			removals[kind]++
			// (1) other complete files stay readable
			for fi, f := range files {
				// only files the node still knows: a file the user deleted earlier may linger
				// complete (e.g. its chunks were pinned) without being anybody's to keep
				if removed[fi] || !known[fi] || !f.Complete(before) {
					continue
				}
				run.Stat("other_files_read_back", 1)
				if err := w.ReadLocal(f); err != nil {
					var missing []string
					for ch := range f.Chunks {
						if !after.Present[ch] {
							missing = append(missing, ch[:10])
						}
					}
					sort.Strings(missing)
					c.Viol(kind+"-breaks-another-file", fmt.Sprintf("after %s of %v, f%d (complete before) no longer reads back: %v; missing chunks %v", kind, keys(removed), fi, err, missing), witness(nil))
					return
				}
			}
			// (2) chunks used only by the removed file(s), not pinned, are gone
			for fi := range removed {
				for ch := range files[fi].Chunks {
					if before.Pins[ch] > 0 || after.Pins[ch] > 0 {
						continue
					}
					usedElsewhere := false
					for gi, g := range files {
						// another file uses the chunk if the node knows that file at all: it is in the
						// model, or at least its root chunk is stored (e.g. a partial retrieval)
						if gi != fi && !removed[gi] && g.Chunks[ch] && (known[gi] || after.Present[g.Root.String()]) {
							usedElsewhere = true
						}
					}
					if usedElsewhere {
						continue
					}
					run.Stat("exclusive_chunks_checked", 1)
					if after.Present[ch] {
						c.Viol(kind+"-leaves-exclusive-chunk-stored", fmt.Sprintf("after %s of f%d, chunk %s used by no other known file and not pinned is still stored", kind, fi, ch[:10]), witness(nil))
						return
					}
				}
			}
		}
		for k := 0; k < 30; k++ {
			fi := rng.Intn(len(files))
			f := files[fi]
			x := rng.Intn(12)
			if s0, _ := fsim.Dump(w.N); s0.GCSize > s0.Target && (i%2 == 1 || rng.Intn(2) == 0) {
				x = 11 // a collection is due: collection branch
			}
			if restartable && rng.Intn(6) == 0 {
				hist = append(hist, opRec{Op: "restart", File: -1})
				if err := w.Restart(); err != nil {
					t.Fatalf("restart: %v", err)
				}
				run.Stat("restarts", 1)
				continue
			}
			switch {
			case x < 3:
				pin := rng.Intn(4) == 0
				hist = append(hist, opRec{Op: "upload", File: fi, Arg: fmt.Sprint("pin=", pin)})
				if err := w.Upload(f, pin); err != nil {
					hist[len(hist)-1].Note = err.Error()
				} else {
					known[fi] = true
				}
			case x < 7:
				hist = append(hist, opRec{Op: "cache", File: fi})
				idx := make([]int, len(f.Leaves))
				for j := range idx {
					idx[j] = j
				}
				if err := w.CacheChunks(f, idx); err != nil {
					hist[len(hist)-1].Note = err.Error()
				} else {
					known[fi] = true
				}
			case x < 10:
				// delete a known file
				var cand []int
				for gi := range files {
					if known[gi] {
						cand = append(cand, gi)
					}
				}
				if len(cand) == 0 {
					continue
				}
				fi = cand[rng.Intn(len(cand))]
				f = files[fi]
				before, _ := fsim.Dump(w.N)
				hist = append(hist, opRec{Op: "delete", File: fi})
				code := w.N.Delete(f.Root)
				hist[len(hist)-1].Note = fmt.Sprint("status=", code)
				after, _ := fsim.Dump(w.N)
				if code == 200 {
					judge("delete", before, after, map[int]bool{fi: true})
					known[fi] = false
				} else {
					// a failed delete must not break other files either
					judge("failed-delete", before, after, map[int]bool{})
				}
			default:
				before, _ := fsim.Dump(w.N)
				if before.GCSize > before.Target && rng.Intn(3) > 0 {
					// a collection run parked inside the run while another file (likely sharing
					// chunks with the file being evicted) is uploaded or cached
					// parking points: after candidate selection, before the first candidate is
					// processed, and at the moment the first candidate is handed to chunkinfo
					point := []string{"selected", "candidate", "delfile", "delfile"}[rng.Intn(4)]
					gi := rng.Intn(len(files))
					how := []string{"upload", "cache"}[rng.Intn(2)]
					hist = append(hist, opRec{Op: "collect-parked-" + point, File: gi, Arg: how})
					var midDump *fsim.State
					parked := fsim.ParkedCollect(w.N, point, func() {
						var err error
						if how == "upload" {
							err = w.Upload(files[gi], false)
						} else {
							idx := make([]int, len(files[gi].Leaves))
							for j := range idx {
								idx[j] = j
							}
							err = w.CacheChunks(files[gi], idx)
						}
						midDump, _ = fsim.Dump(w.N)
						if err == nil && midDump != nil && files[gi].Complete(midDump) {
							known[gi] = true
						}
					}, func(msg string) { t.Fatal(msg + " (inconclusive)") })
					after, _ := fsim.Dump(w.N)
					// a file counts as evicted by this run when its root chunk was stored when the
					// eviction started and is gone afterwards
					ref := midDump
					if ref == nil {
						ref = before
					}
					removed := map[int]bool{}
					for hi, h := range files {
						if ref.Present[h.Root.String()] && !after.Present[h.Root.String()] {
							removed[hi] = true
						}
					}
					hist[len(hist)-1].Note = fmt.Sprintf("parked=%v evicted=%v", parked, keys(removed))
					if parked {
						run.Stat("parked_collections", 1)
						run.Stat("parked_collections/"+point, 1)
					}
					if len(removed) > 0 {
						// state as it was when the eviction started: a real dump taken while parked
						mid := midDump
						if mid == nil {
							mid = before
						}
						// a file that had a cache entry before the run may itself be among the run's
						// candidates: storing it again during the run does not make it "another
						// file" (its own eviction is legitimate), so it is left out of clause (1)
						_, wasCandidate := before.GC[files[gi].Root.String()]
						keep := known[gi]
						if wasCandidate {
							known[gi] = false
						}
						judge("eviction-during-"+how, mid, after, removed)
						known[gi] = keep && files[gi].Complete(after)
						for hi := range removed {
							known[hi] = false
						}
					}
					continue
				}
				hist = append(hist, opRec{Op: "collect", File: -1})
				rounds, done, _, _ := fsim.Collect(w.N, 12)
				after, _ := fsim.Dump(w.N)
				removed := map[int]bool{}
				for gi, g := range files {
					if before.Present[g.Root.String()] && !after.Present[g.Root.String()] {
						removed[gi] = true
					}
				}
				hist[len(hist)-1].Note = fmt.Sprintf("rounds=%d done=%v evicted=%v", rounds, done, keys(removed))
				if len(removed) > 0 {
					judge("eviction", before, after, removed)
					for gi := range removed {
						known[gi] = false
					}
				}
			}
		}
		w.Close()
		var rs, ms []string
		for k := range rels {
			rs = append(rs, k)
		}
		for k, v := range removals {
			if v > 3 {
				v = 3
			}
			ms = append(ms, fmt.Sprintf("%s*%d", k, v))
		}
		sort.Strings(rs)
		sort.Strings(ms)
		c.End(fmt.Sprintf("%s/%s", strings.Join(rs, "+"), strings.Join(ms, "+")), len(removals) > 0)
		if i < 1 {
			run.Sample(witness(nil))
		}
	}
}

func keys(m map[int]bool) []int {
	var out []int
	for k := range m {
		out = append(out, k)
	}
	sort.Ints(out)
	return out
}
