package c16

import (
	"encoding/json"
	"fmt"
	"os"
	"strings"
	"testing"

	"github.com/gauss-project/aurorafs/pkg/boson"

	"verif/harness/internal/fsim"
)

// TestDebugReplay re-runs the history of a replay file (VERIF_DEBUG_REPLAY) with a trace of
// chunkinfo's unshared-chunk lists and the cache entries after every operation.
func TestDebugReplay(t *testing.T) {
	path := os.Getenv("VERIF_DEBUG_REPLAY")
	if path == "" {
		t.Skip("VERIF_DEBUG_REPLAY not set")
	}
	raw, err := os.ReadFile(path)
	if err != nil {
		t.Fatal(err)
	}
	var rp struct {
		Witness struct {
			Capacity uint64 `json:"capacity"`
			Files    []struct {
				Blocks  []int `json:"blocks"`
				LastLen int   `json:"last_len"`
			} `json:"files"`
			History []opRec `json:"history"`
		} `json:"witness"`
	}
	if err := json.Unmarshal(raw, &rp); err != nil {
		t.Fatal(err)
	}
	restartable := false
	for _, o := range rp.Witness.History {
		if o.Op == "restart" {
			restartable = true
		}
	}
	w, err := fsim.NewWorld(rp.Witness.Capacity)
	if restartable {
		w, err = fsim.NewRestartableWorld(rp.Witness.Capacity)
	}
	if err != nil {
		t.Fatal(err)
	}
	var files []*fsim.File
	for _, fd := range rp.Witness.Files {
		f, err := w.NewFile(fd.Blocks, fd.LastLen)
		if err != nil {
			t.Fatal(err)
		}
		files = append(files, f)
	}
	all := func(f *fsim.File) []int {
		idx := make([]int, len(f.Leaves))
		for j := range idx {
			idx[j] = j
		}
		return idx
	}
	show := func(tag string) {
		st, _ := fsim.Dump(w.N)
		fmt.Printf("== %s gcsize=%d target=%d\n", tag, st.GCSize, st.Target)
		for i, f := range files {
			var un []string
			for _, p := range w.N.CI.GetChunkPyramid(f.Root) {
				un = append(un, p.Cid.String()[:6])
			}
			pins := 0
			for ch := range f.Chunks {
				if st.Pins[ch] > 0 {
					pins++
				}
			}
			fmt.Printf("   f%d root=%s complete=%v rootstored=%v pinnedchunks=%d unshared=%v\n", i, f.Root.String()[:6], f.Complete(st), st.Present[f.Root.String()], pins, un)
		}
		d, _ := w.N.Store.VerifDump()
		for _, it := range d.GC {
			fmt.Printf("   gc entry root=%x ts=%d count=%d\n", it.Address[:3], it.AccessTimestamp, it.GCounter)
		}
	}
	w.N.SetBeforeDelFile(func(r boson.Address) { fmt.Printf("   DelFile(%s)\n", r.String()[:6]) })
	for i, o := range rp.Witness.History {
		var err error
		switch {
		case o.Op == "upload":
			err = w.Upload(files[o.File], strings.Contains(o.Arg, "true"))
		case o.Op == "cache":
			err = w.CacheChunks(files[o.File], all(files[o.File]))
		case o.Op == "delete":
			fmt.Println("   delete ->", w.N.Delete(files[o.File].Root))
		case o.Op == "restart":
			err = w.Restart()
			w.N.SetBeforeDelFile(func(r boson.Address) { fmt.Printf("   DelFile(%s)\n", r.String()[:6]) })
		case o.Op == "collect":
			fsim.Collect(w.N, 12)
		case strings.HasPrefix(o.Op, "collect-parked-"):
			point := strings.TrimPrefix(o.Op, "collect-parked-")
			w.N.SetBeforeDelFile(nil)
			fsim.ParkedCollect(w.N, point, func() {
				if o.Arg == "upload" {
					err = w.Upload(files[o.File], false)
				} else {
					err = w.CacheChunks(files[o.File], all(files[o.File]))
				}
				show("   (during)")
			}, func(m string) { t.Fatal(m) })
			w.N.SetBeforeDelFile(func(r boson.Address) { fmt.Printf("   DelFile(%s)\n", r.String()[:6]) })
		}
		show(fmt.Sprintf("%d %s f%d %s err=%v", i, o.Op, o.File, o.Arg, err))
	}
	for i, f := range files {
		fmt.Printf("read f%d: %v\n", i, w.ReadLocal(f))
	}
}
