package c21

import (
	"fmt"
	"math/rand"
	"sort"
	"testing"

	"github.com/gauss-project/aurorafs/pkg/boson"
	"github.com/gauss-project/aurorafs/pkg/topology/pslice"
	"verif/harness/internal/obs"
	"verif/harness/internal/spec"
)

const maxPO = 31 // proximity order is capped at 31 (see C20)

// op is one recorded operation of a sequential history (the witness format).
type op struct {
	Kind  string   `json:"op"`              // add | addbatch | remove
	Addrs []string `json:"addrs,omitempty"` // short hex
	idx   []int    // indices into the universe
}

type universe struct {
	base  []byte
	addrs [][]byte
	bins  []int
	maxB  int
}

func short(b []byte) string { return fmt.Sprintf("%x", b[:6]) }

func newUniverse(rng *rand.Rand, maxBins, n int) *universe {
	u := &universe{base: make([]byte, 32), maxB: maxBins}
	rng.Read(u.base)
	seen := map[string]bool{}
	for len(u.addrs) < n {
		var po int
		switch rng.Intn(10) {
		case 0: // far beyond the proximity cap
			po = 32 + rng.Intn(200)
		case 1, 2: // around the last bin
			po = maxBins - 2 + rng.Intn(4)
			if po < 0 {
				po = 0
			}
		default: // few shallow bins so that bins fill up
			po = rng.Intn(minInt(maxBins, 4) + 1)
		}
		a := spec.AddrAt(rng, u.base, po)
		if seen[string(a)] {
			continue
		}
		seen[string(a)] = true
		u.addrs = append(u.addrs, a)
		u.bins = append(u.bins, spec.Bin(u.base, a, maxPO, maxBins))
	}
	return u
}

func minInt(a, b int) int {
	if a < b {
		return a
	}
	return b
}

// policy decides what the iteration callback answers at its c-th call (0-based).
type policy struct {
	Kind   string `json:"kind"` // full | stop | skip | mixed
	StopAt int    `json:"stop_at"`
	SkipAt []int  `json:"skip_at,omitempty"`
}

func (p policy) at(c int) (stop, next bool) {
	if p.StopAt >= 0 && c == p.StopAt {
		return true, false
	}
	for _, s := range p.SkipAt {
		if s == c {
			return false, true
		}
	}
	return false, false
}

// expectedVisits simulates the policy over the model: how many members of each bin
// must be handed to the callback (bins in iteration order).
func expectedVisits(sizes []int, order []int, p policy) map[int]int {
	exp := map[int]int{}
	c := 0
	for _, b := range order {
		for k := 0; k < sizes[b]; k++ {
			exp[b]++
			stop, next := p.at(c)
			c++
			if stop {
				return exp
			}
			if next {
				break
			}
		}
	}
	return exp
}

type visit struct {
	addr []byte
	po   int
}

// audit compares every query of the real structure with the model. It returns the
// key of the first failing clause ("" if all agree) and a message.
func audit(ps *pslice.PSlice, m *spec.PSet, u *universe, rng *rand.Rand, st map[string]int64) (string, string) {
	sizes := m.BinSizes()
	total := len(m.M)
	// membership through BinPeers: exact multiset per bin
	count := map[string]int{}
	for b := 0; b < u.maxB; b++ {
		peers := ps.BinPeers(uint8(b))
		for _, p := range peers {
			count[string(p.Bytes())]++
			mb, ok := m.M[string(p.Bytes())]
			if !ok {
				return "membership-extra", fmt.Sprintf("bin %d holds %x which is not in the set", b, p.Bytes()[:6])
			}
			if mb != b {
				return "wrong-bin", fmt.Sprintf("%x is in bin %d, proximity bin is %d", p.Bytes()[:6], b, mb)
			}
		}
		if got := ps.BinSize(uint8(b)); got != len(peers) {
			return "binsize-vs-binpeers", fmt.Sprintf("BinSize(%d)=%d but BinPeers has %d", b, got, len(peers))
		}
	}
	for a, n := range count {
		if n > 1 {
			return "address-twice", fmt.Sprintf("%x is held %d times", []byte(a)[:6], n)
		}
	}
	for a := range m.M {
		if count[a] == 0 {
			return "membership-missing", fmt.Sprintf("%x was added and not removed but is not held", []byte(a)[:6])
		}
	}
	for i, a := range u.addrs {
		if got, want := ps.Exists(boson.NewAddress(a)), m.Has(a); got != want {
			return "exists-mismatch", fmt.Sprintf("Exists(universe[%d])=%v want %v", i, got, want)
		}
	}
	if got := ps.Length(); got != total {
		return "length-mismatch", fmt.Sprintf("Length()=%d, set has %d", got, total)
	}
	for b := 0; b < u.maxB; b++ {
		if got := ps.BinSize(uint8(b)); got != sizes[b] {
			return "binsize-mismatch", fmt.Sprintf("BinSize(%d)=%d want %d", b, got, sizes[b])
		}
	}
	// bins past the last one hold nothing
	for _, b := range []int{u.maxB, u.maxB + 1, 255} {
		if b > 255 {
			continue
		}
		if got := ps.BinSize(uint8(b)); got != 0 {
			return "binsize-out-of-range", fmt.Sprintf("BinSize(%d)=%d for maxBins %d", b, got, u.maxB)
		}
		if got := ps.BinPeers(uint8(b)); len(got) != 0 {
			return "binpeers-out-of-range", fmt.Sprintf("BinPeers(%d) has %d entries for maxBins %d", b, len(got), u.maxB)
		}
	}
	wb, wnone := m.ShallowestEmpty()
	gb, gnone := ps.ShallowestEmpty()
	if gnone != wnone || (!wnone && int(gb) != wb) {
		return "shallowest-empty-mismatch", fmt.Sprintf("ShallowestEmpty()=(%d,%v) want (%d,%v)", gb, gnone, wb, wnone)
	}
	if wnone {
		st["audits_with_no_empty_bin"]++
	}
	// iterations: full, and with a random stop / skip policy, both directions
	pols := []policy{{Kind: "full", StopAt: -1}}
	if total > 0 {
		pols = append(pols, policy{Kind: "stop", StopAt: rng.Intn(total)})
		sk := policy{Kind: "skip", StopAt: -1}
		for k := 0; k < 1+rng.Intn(3); k++ {
			sk.SkipAt = append(sk.SkipAt, rng.Intn(total))
		}
		pols = append(pols, sk)
		mx := policy{Kind: "mixed", StopAt: rng.Intn(total + 2), SkipAt: []int{rng.Intn(total), 0}}
		pols = append(pols, mx)
	}
	for _, rev := range []bool{false, true} {
		order := make([]int, u.maxB)
		for i := range order {
			if rev {
				order[i] = i // EachBinRev: shallowest first
			} else {
				order[i] = u.maxB - 1 - i // EachBin: deepest first
			}
		}
		name := "EachBin"
		if rev {
			name = "EachBinRev"
		}
		for _, p := range pols {
			var vs []visit
			c := 0
			f := func(a boson.Address, po uint8) (bool, bool, error) {
				vs = append(vs, visit{a.Bytes(), int(po)})
				stop, next := p.at(c)
				c++
				return stop, next, nil
			}
			var err error
			if rev {
				err = ps.EachBinRev(f)
			} else {
				err = ps.EachBin(f)
			}
			if err != nil {
				return "iteration-error", fmt.Sprintf("%s returned %v though the callback never failed", name, err)
			}
			st["iterations_"+p.Kind]++
			exp := expectedVisits(sizes, order, p)
			seen := map[string]bool{}
			got := map[int]int{}
			lastPos := -1
			pos := map[int]int{}
			for i, b := range order {
				pos[b] = i
			}
			for _, v := range vs {
				mb, ok := m.M[string(v.addr)]
				if !ok {
					return "iteration-nonmember", fmt.Sprintf("%s(%s) visited %x which is not in the set", name, p.Kind, v.addr[:6])
				}
				if mb != v.po {
					return "iteration-wrong-bin", fmt.Sprintf("%s(%s) reported %x in bin %d, proximity bin is %d", name, p.Kind, v.addr[:6], v.po, mb)
				}
				if seen[string(v.addr)] {
					return "iteration-duplicate", fmt.Sprintf("%s(%s) visited %x twice", name, p.Kind, v.addr[:6])
				}
				seen[string(v.addr)] = true
				if pos[v.po] < lastPos {
					return "iteration-order", fmt.Sprintf("%s(%s) went back to bin %d", name, p.Kind, v.po)
				}
				lastPos = pos[v.po]
				got[v.po]++
			}
			for _, b := range order {
				if got[b] != exp[b] {
					key := "iteration-" + p.Kind + "-visits"
					return key, fmt.Sprintf("%s with policy %+v visited %d members of bin %d, the set and the policy require %d (bin sizes %v)", name, p, got[b], b, exp[b], sizes)
				}
			}
		}
	}
	return "", ""
}

// TestSequential: random single-threaded histories against the map model.
func TestSequential(t *testing.T) {
	run := obs.Start(t, "C21")
	defer run.Done()
	run.Rule("random histories of Add(single)/Add(batch, with repeated and already-present addresses)/Remove over a universe of 6-24 addresses placed in few shallow bins, at the last bin and beyond the proximity cap; maxBins in {1,2,4,8,32}; after EVERY update all queries and 8 iterations (both directions x full/stop/skip/mixed) are compared with a map model. Even-numbered histories never repeat a new address inside one batch (so everything else is judged independently of that witness class). distinct = (maxBins, universe bucket, kinds of events that occurred)",
		"bin of an address = min(leading equal bits, 31, maxBins-1)", "order of members inside one bin is unspecified")
	n := run.N(500, 6000)
	st := map[string]int64{}
	for i := 0; i < n; i++ {
		allowDup := i%2 == 1
		c := run.Begin(fmt.Sprintf("seq/%d", i), map[string]interface{}{"dup_in_batch_allowed": allowDup})
		if c == nil {
			continue
		}
		rng := c.Rand()
		maxBins := []int{1, 2, 4, 8, 32}[rng.Intn(5)]
		u := newUniverse(rng, maxBins, 6+rng.Intn(19))
		ps := pslice.New(maxBins, boson.NewAddress(u.base))
		m := spec.NewPSet(u.base, maxPO, maxBins)
		nops := 20 + rng.Intn(50)
		var hist []op
		ev := map[string]bool{}
		failed := false
		for k := 0; k < nops && !failed; k++ {
			var o op
			dupNew := false
			switch r := rng.Intn(10); {
			case r < 3:
				j := rng.Intn(len(u.addrs))
				o = op{Kind: "add", idx: []int{j}}
				if m.Has(u.addrs[j]) {
					ev["add-present"] = true
				}
				ps.Add(boson.NewAddress(u.addrs[j]))
				m.Add(u.addrs[j])
				st["op_add_single"]++
			case r < 6:
				cnt := []int{0, 2, 2, 3, 4, 6, 9}[rng.Intn(7)]
				o = op{Kind: "addbatch"}
				inCall := map[int]bool{}
				var list []boson.Address
				for tries := 0; len(o.idx) < cnt && tries < 200; tries++ {
					j := rng.Intn(len(u.addrs))
					if inCall[j] {
						if !m.Has(u.addrs[j]) {
							if !allowDup {
								continue
							}
							dupNew = true
						} else {
							ev["batch-repeats-present"] = true
						}
					}
					if m.Has(u.addrs[j]) {
						ev["batch-has-present"] = true
					}
					inCall[j] = true
					o.idx = append(o.idx, j)
					list = append(list, boson.NewAddress(u.addrs[j]))
				}
				ps.Add(list...)
				for _, j := range o.idx {
					m.Add(u.addrs[j])
				}
				st["op_add_batch"]++
				if dupNew {
					st["op_add_batch_repeating_new_address"]++
					ev["batch-repeats-new"] = true
				}
				if cnt == 0 {
					ev["batch-empty"] = true
				}
			default:
				j := rng.Intn(len(u.addrs))
				// prefer members so that removals are effective
				if !m.Has(u.addrs[j]) && len(m.M) > 0 && rng.Intn(4) != 0 {
					keys := make([]string, 0, len(m.M))
					for a := range m.M {
						keys = append(keys, a)
					}
					sort.Strings(keys)
					pick := keys[rng.Intn(len(keys))]
					for jj, a := range u.addrs {
						if string(a) == pick {
							j = jj
						}
					}
				}
				o = op{Kind: "remove", idx: []int{j}}
				if m.Has(u.addrs[j]) {
					ev["remove-present"] = true
					st["op_remove_effective"]++
				} else {
					ev["remove-absent"] = true
				}
				ps.Remove(boson.NewAddress(u.addrs[j]))
				m.Remove(u.addrs[j])
				st["op_remove"]++
			}
			for _, j := range o.idx {
				o.Addrs = append(o.Addrs, fmt.Sprintf("u%d:%s/bin%d", j, short(u.addrs[j]), u.bins[j]))
			}
			hist = append(hist, o)
			key, msg := audit(ps, m, u, rng, st)
			st["audits"]++
			if key != "" {
				failed = true
				if dupNew && (key == "address-twice" || key == "length-mismatch" || key == "binsize-mismatch") {
					// the clause "each once" fails for an address repeated inside one batch call
					key = "batch-add-duplicate-in-call"
				}
				c.Viol(key, msg, map[string]interface{}{
					"base": obs.Hex(u.base), "max_bins": maxBins, "history": hist, "failed_after_op": k,
				})
			}
		}
		sizes := m.BinSizes()
		mx := 0
		for _, s := range sizes {
			if s > mx {
				mx = s
			}
		}
		run.StatMax("max/bin_occupancy", int64(mx))
		evs := make([]string, 0, len(ev))
		for e := range ev {
			evs = append(evs, e)
		}
		sort.Strings(evs)
		shape := fmt.Sprintf("mb=%d/u=%d/%v", maxBins, len(u.addrs)/6, evs)
		c.End(shape, ev["remove-present"] && (ev["batch-has-present"] || ev["batch-repeats-new"]))
		if i < 2 {
			run.Sample(map[string]interface{}{"kind": "sequential history", "max_bins": maxBins, "universe": len(u.addrs), "first_ops": hist[:minInt(len(hist), 5)]})
		}
	}
	for k, v := range st {
		run.Stat(k, v)
	}
}
