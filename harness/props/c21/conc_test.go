package c21

import (
	"fmt"
	"math/rand"
	"runtime"
	"sort"
	"sync"
	"testing"
	"time"

	"github.com/anishathalye/porcupine"
	"github.com/gauss-project/aurorafs/pkg/boson"
	"github.com/gauss-project/aurorafs/pkg/topology/pslice"
	"verif/harness/internal/lin"
	"verif/harness/internal/obs"
)

// per-address register model: the address is in the set or not.
type regIn struct {
	Kind string // add | remove | exists | seen (observation by a full iteration pass)
}

var regModel = porcupine.Model{
	Init: func() interface{} { return false },
	Step: func(state, input, output interface{}) (bool, interface{}) {
		present := state.(bool)
		switch input.(regIn).Kind {
		case "add":
			return true, true
		case "remove":
			return true, false
		default: // exists, seen
			return output.(bool) == present, present
		}
	},
	Equal: func(a, b interface{}) bool { return a.(bool) == b.(bool) },
	DescribeOperation: func(in, out interface{}) string {
		return fmt.Sprintf("%s -> %v", in.(regIn).Kind, out)
	},
}

type ev struct {
	addr      int
	kind      string
	out       bool
	call, ret int64
	client    int
}

type cop struct { // scripted updater operation
	kind  string
	addrs []int
	yield bool
}

type ipass struct { // scripted iterator pass
	kind  string // each | eachrev | binpeers | sizes | eachstop
	yield int    // yield every n-th callback (0 = never)
	stop  int
}

// TestConcurrent: updaters and iterators on one PSlice under the race detector; the
// recorded per-address history must be linearizable as a set.
func TestConcurrent(t *testing.T) {
	run := obs.Start(t, "C21")
	defer run.Done()
	run.Rule("8 updater goroutines (scripted Add single / Add batch of 2-4 distinct addresses / Remove / Exists) and 8 iterator goroutines (EachBin, EachBinRev, early-stop passes, BinPeers, Length/BinSize/ShallowestEmpty) on one PSlice with 2 or 4 bins and 8-16 addresses; Add/Remove/Exists and full-pass observations are recorded with logical call/return stamps and checked for linearizability per address (a batch add = one add per address sharing the interval); every pass is checked for duplicates and bins; race detector on. distinct = (maxBins, universe size, bucket of overlapping operation pairs)",
		"scripts are PRNG-determined, the interleaving is whatever the Go scheduler produces (seeded yields widen it)",
		"batches in this test do not repeat an address inside one call (that witness class is judged by the sequential tests)")
	n := run.N(40, 600)
	for h := 0; h < n; h++ {
		c := run.Begin(fmt.Sprintf("conc/%d", h), nil)
		if c == nil {
			continue
		}
		rng := c.Rand()
		maxBins := []int{2, 4}[rng.Intn(2)]
		u := newUniverse(rng, maxBins, 8+rng.Intn(9))
		ps := pslice.New(maxBins, boson.NewAddress(u.base))
		addrs := make([]boson.Address, len(u.addrs))
		idxOf := map[string]int{}
		for i, a := range u.addrs {
			addrs[i] = boson.NewAddress(a)
			idxOf[string(a)] = i
		}
		const updaters, iterators = 8, 8
		// scripts
		uscripts := make([][]cop, updaters)
		for g := range uscripts {
			for k := 0; k < 20+rng.Intn(15); k++ {
				o := cop{yield: rng.Intn(3) == 0}
				switch r := rng.Intn(10); {
				case r < 3:
					o.kind, o.addrs = "add", []int{rng.Intn(len(addrs))}
				case r < 5:
					o.kind = "addbatch"
					perm := rng.Perm(len(addrs))
					o.addrs = perm[:2+rng.Intn(3)]
				case r < 8:
					o.kind, o.addrs = "remove", []int{rng.Intn(len(addrs))}
				default:
					o.kind, o.addrs = "exists", []int{rng.Intn(len(addrs))}
				}
				uscripts[g] = append(uscripts[g], o)
			}
		}
		iscripts := make([][]ipass, iterators)
		for g := range iscripts {
			for k := 0; k < 6+rng.Intn(5); k++ {
				p := ipass{kind: []string{"each", "eachrev", "each", "eachrev", "binpeers", "sizes", "eachstop"}[rng.Intn(7)], yield: rng.Intn(4), stop: rng.Intn(6)}
				iscripts[g] = append(iscripts[g], p)
			}
		}
		rec := &lin.Recorder{}
		evs := make([][]ev, updaters+iterators)
		type pviol struct{ key, msg string }
		var pvMu sync.Mutex
		var pviols []pviol
		addViol := func(k, m string) {
			pvMu.Lock()
			pviols = append(pviols, pviol{k, m})
			pvMu.Unlock()
		}
		var passes, callbacks int64
		var cntMu sync.Mutex
		start := make(chan struct{})
		var wg sync.WaitGroup
		for g := 0; g < updaters; g++ {
			wg.Add(1)
			go func(g int) {
				defer wg.Done()
				<-start
				for _, o := range uscripts[g] {
					if o.yield {
						runtime.Gosched()
					}
					call := rec.Now()
					out := false
					switch o.kind {
					case "add":
						ps.Add(addrs[o.addrs[0]])
					case "addbatch":
						l := make([]boson.Address, len(o.addrs))
						for i, j := range o.addrs {
							l[i] = addrs[j]
						}
						ps.Add(l...)
					case "remove":
						ps.Remove(addrs[o.addrs[0]])
					case "exists":
						out = ps.Exists(addrs[o.addrs[0]])
					}
					ret := rec.Now()
					kind := o.kind
					if kind == "addbatch" {
						kind = "add"
					}
					for _, j := range o.addrs {
						evs[g] = append(evs[g], ev{addr: j, kind: kind, out: out, call: call, ret: ret, client: g})
					}
				}
			}(g)
		}
		for g := 0; g < iterators; g++ {
			wg.Add(1)
			go func(g int) {
				defer wg.Done()
				me := updaters + g
				<-start
				var np, ncb int64
				for _, p := range iscripts[g] {
					switch p.kind {
					case "each", "eachrev", "eachstop":
						seen := map[int]bool{}
						k := 0
						lastBin := -1
						f := func(a boson.Address, po uint8) (bool, bool, error) {
							ncb++
							k++
							if p.yield > 0 && k%p.yield == 0 {
								runtime.Gosched()
							}
							j, ok := idxOf[string(a.Bytes())]
							if !ok {
								addViol("concurrent-iteration-unknown-address", fmt.Sprintf("pass visited %x which was never added", a.Bytes()[:6]))
								return false, false, nil
							}
							if u.bins[j] != int(po) {
								addViol("concurrent-iteration-wrong-bin", fmt.Sprintf("u%d reported in bin %d, proximity bin %d", j, po, u.bins[j]))
							}
							if seen[j] {
								addViol("concurrent-iteration-duplicate", fmt.Sprintf("u%d visited twice in one pass", j))
							}
							seen[j] = true
							if lastBin >= 0 {
								if (p.kind == "eachrev" && int(po) < lastBin) || (p.kind != "eachrev" && int(po) > lastBin) {
									addViol("concurrent-iteration-order", fmt.Sprintf("%s went from bin %d to bin %d", p.kind, lastBin, po))
								}
							}
							lastBin = int(po)
							return p.kind == "eachstop" && k > p.stop, false, nil
						}
						call := rec.Now()
						if p.kind == "eachrev" {
							_ = ps.EachBinRev(f)
						} else {
							_ = ps.EachBin(f)
						}
						ret := rec.Now()
						np++
						if p.kind != "eachstop" {
							for j := range addrs {
								evs[me] = append(evs[me], ev{addr: j, kind: "seen", out: seen[j], call: call, ret: ret, client: me})
							}
						}
					case "binpeers":
						for b := 0; b < maxBins; b++ {
							seen := map[int]bool{}
							for _, a := range ps.BinPeers(uint8(b)) {
								j, ok := idxOf[string(a.Bytes())]
								if !ok {
									addViol("concurrent-binpeers-unknown-address", "BinPeers returned an address that was never added")
									continue
								}
								if u.bins[j] != b {
									addViol("concurrent-binpeers-wrong-bin", fmt.Sprintf("u%d in BinPeers(%d), proximity bin %d", j, b, u.bins[j]))
								}
								if seen[j] {
									addViol("concurrent-binpeers-duplicate", fmt.Sprintf("u%d twice in BinPeers(%d)", j, b))
								}
								seen[j] = true
							}
						}
						np++
					case "sizes":
						if l := ps.Length(); l < 0 || l > len(addrs) {
							addViol("concurrent-length-out-of-range", fmt.Sprintf("Length()=%d with %d addresses ever added", l, len(addrs)))
						}
						for b := 0; b < maxBins; b++ {
							_ = ps.BinSize(uint8(b))
						}
						_, _ = ps.ShallowestEmpty()
						np++
					}
				}
				cntMu.Lock()
				passes += np
				callbacks += ncb
				cntMu.Unlock()
			}(g)
		}
		close(start)
		done := make(chan struct{})
		go func() { wg.Wait(); close(done) }()
		select {
		case <-done:
		case <-time.After(5 * time.Minute):
			t.Fatalf("history %d did not finish (harness watchdog)", h)
		}
		// quiescent: final reads join the history
		final := make([]ev, 0, len(addrs))
		finalCount := 0
		for j := range addrs {
			call := rec.Now()
			out := ps.Exists(addrs[j])
			ret := rec.Now()
			if out {
				finalCount++
			}
			final = append(final, ev{addr: j, kind: "exists", out: out, call: call, ret: ret, client: updaters + iterators})
		}
		if l := ps.Length(); l != finalCount {
			c.Viol("concurrent-final-length", fmt.Sprintf("at quiescence Length()=%d but %d addresses exist", l, finalCount), nil)
		}
		all := append([]ev(nil), final...)
		for _, e := range evs {
			all = append(all, e...)
		}
		byAddr := map[int][]porcupine.Operation{}
		for _, e := range all {
			byAddr[e.addr] = append(byAddr[e.addr], porcupine.Operation{ClientId: e.client, Input: regIn{e.kind}, Output: e.out, Call: e.call, Return: e.ret})
		}
		// how concurrent was it: operations of different clients overlapping in time
		sort.Slice(all, func(i, j int) bool { return all[i].call < all[j].call })
		overlaps := 0
		for i := range all {
			for j := i + 1; j < len(all) && all[j].call < all[i].ret; j++ {
				if all[j].client != all[i].client && all[i].kind != "seen" && all[j].kind != "seen" {
					overlaps++
				}
			}
		}
		for j, ops := range byAddr {
			switch lin.Check(regModel, ops, 60*time.Second) {
			case lin.Illegal:
				sort.Slice(ops, func(a, b int) bool { return ops[a].Call < ops[b].Call })
				var w []string
				for _, o := range ops {
					w = append(w, fmt.Sprintf("[%d,%d] c%d %s->%v", o.Call, o.Return, o.ClientId, o.Input.(regIn).Kind, o.Output))
					if len(w) >= 120 {
						break
					}
				}
				c.Viol("concurrent-history-not-linearizable", fmt.Sprintf("operations on address u%d cannot be explained by any set order", j),
					map[string]interface{}{"address": short(u.addrs[j]), "bin": u.bins[j], "max_bins": maxBins, "ops": w})
			case lin.Unknown:
				t.Fatalf("linearizability checker timed out on history %d", h)
			}
			run.Stat("linearizability_partitions_checked", 1)
		}
		for i, pv := range pviols {
			if i > 4 {
				break
			}
			c.Viol(pv.key, pv.msg, map[string]interface{}{"history": h, "max_bins": maxBins})
		}
		run.Stat("concurrent_ops_recorded", int64(len(all)))
		run.Stat("iterator_passes", passes)
		run.Stat("iterator_callbacks", callbacks)
		run.Stat("overlapping_update_pairs", int64(overlaps))
		ob := 0
		for x := overlaps; x > 0; x /= 2 {
			ob++
		}
		c.End(fmt.Sprintf("mb=%d/u=%d/overlap=2^%d", maxBins, len(addrs), ob), overlaps > 0)
		if h < 1 {
			run.Sample(map[string]interface{}{"kind": "concurrent history", "max_bins": maxBins, "addresses": len(addrs), "recorded_ops": len(all), "overlapping_pairs": overlaps})
		}
	}
}

var _ = rand.Int
