package c21

import (
	"fmt"
	"testing"

	"github.com/gauss-project/aurorafs/pkg/boson"
	"github.com/gauss-project/aurorafs/pkg/topology/pslice"
	"verif/harness/internal/obs"
	"verif/harness/internal/spec"
)

// TestBatchDuplicateMinimal pins the smallest witnesses of "each once" for batch
// additions, for every bin count: Add(a, a) on an empty set, Add(a, b, a), and the
// same with the address already present (which must stay a no-op).
func TestBatchDuplicateMinimal(t *testing.T) {
	run := obs.Start(t, "C21")
	defer run.Done()
	run.Rule("fixed minimal batches with a repeated address: Add(a,a), Add(a,b,a), Add(a) then Add(a,a); for each maxBins in {1,4,32} and address in first/last bin; distinct = (pattern, maxBins, bin)")
	rng := run.RandFor("batchdup")
	for _, maxBins := range []int{1, 4, 32} {
		for _, po := range []int{0, maxBins - 1, 40} {
			base := make([]byte, 32)
			rng.Read(base)
			a := spec.AddrAt(rng, base, po)
			b := spec.AddrAt(rng, base, po)
			A, B := boson.NewAddress(a), boson.NewAddress(b)
			for pi, pat := range []string{"a,a", "a,b,a", "a;a,a", "a,a;remove a"} {
				// (no comma in case ids: the replay filter is a comma-separated list)
				c := run.Begin(fmt.Sprintf("dup/%d/%d/pattern%d", maxBins, po, pi), map[string]interface{}{"pattern": pat, "max_bins": maxBins, "po": po})
				if c == nil {
					continue
				}
				ps := pslice.New(maxBins, boson.NewAddress(base))
				want := 1
				switch pat {
				case "a,a":
					ps.Add(A, A)
				case "a,b,a":
					ps.Add(A, B, A)
					want = 2
				case "a;a,a":
					ps.Add(A)
					ps.Add(A, A)
				case "a,a;remove a":
					ps.Add(A, A)
					ps.Remove(A)
					want = 0
				}
				w := map[string]interface{}{"base": obs.Hex(base), "a": obs.Hex(a), "b": obs.Hex(b), "pattern": pat, "max_bins": maxBins}
				if got := ps.Length(); got != want {
					c.Viol("batch-add-duplicate-in-call", fmt.Sprintf("after %q Length()=%d, the set has %d address(es)", pat, got, want), w)
				} else if pat == "a,a;remove a" && ps.Exists(A) {
					c.Viol("batch-add-duplicate-in-call", "address still present after its removal", w)
				}
				run.Stat("minimal_dup_batches", 1)
				c.End(fmt.Sprintf("%s/mb=%d/po=%d", pat, maxBins, po), true)
			}
		}
	}
}
