// Package c06 monitors property C06: a chunk received from a peer (retrieval delivery or
// pyramid response) is stored locally or handed on only if it is a valid content-addressed
// or single-owner chunk for the address it is stored / returned under.
package c06

import (
	"context"
	"encoding/binary"
	"encoding/hex"
	"fmt"
	"math/rand"
	"os"
	"testing"
	"time"

	"github.com/gauss-project/aurorafs/pkg/aurora"
	"github.com/gauss-project/aurorafs/pkg/boson"
	"github.com/gauss-project/aurorafs/pkg/chunkinfo"
	cipb "github.com/gauss-project/aurorafs/pkg/chunkinfo/pb"
	"github.com/gauss-project/aurorafs/pkg/crypto"
	"github.com/gauss-project/aurorafs/pkg/p2p"
	"github.com/gauss-project/aurorafs/pkg/retrieval"
	"github.com/gauss-project/aurorafs/pkg/retrieval/aco"
	retrievalpb "github.com/gauss-project/aurorafs/pkg/retrieval/pb"
	"github.com/gauss-project/aurorafs/pkg/subscribe"
	"github.com/gauss-project/aurorafs/pkg/traversal"
	"github.com/gogo/protobuf/proto"
	"verif/harness/internal/obs"
	"verif/harness/internal/pbench"
	"verif/harness/internal/spec"
)

const (
	prop      = "C06"
	chunkSize = spec.ChunkSize
)

// ---- oracle -------------------------------------------------------------------------------

// validChunk is the statement's "valid content-addressed or single-owner chunk for the
// address": reference BMT with the length bound, or reference SOC (go-ethereum recovery).
func validChunk(addr, data []byte) bool {
	if len(data) >= spec.SpanSize && len(data) <= chunkSize+spec.SpanSize &&
		string(spec.BMTFast(data[:8], data[8:], spec.Branches)) == string(addr) {
		return true
	}
	return spec.ValidSOC(addr, data)
}

// whyInvalid names the oracle clause that fails (part of the finding key).
func whyInvalid(addr, data []byte) string {
	switch {
	case len(data) < spec.SpanSize:
		return "shorter-than-span"
	case len(data) > chunkSize+spec.SpanSize && string(spec.BMTFast(data[:8], data[8:], spec.Branches)) == string(addr):
		return "overlong-but-prefix-hashes-to-address"
	case len(data) > chunkSize+spec.SpanSize:
		return "overlong"
	default:
		return "hash-mismatch"
	}
}

// checkPuts judges every chunk the code under test handed to the store.
func checkPuts(run *obs.Run, c *obs.Case, where string, st *pbench.Store, class string) (stored int) {
	for _, p := range st.Puts() {
		stored++
		run.Stat("chunks_stored_checked", 1)
		if validChunk(p.Addr, p.Data) {
			run.Stat("chunks_stored_valid", 1)
			continue
		}
		c.Viol(where+"-stored-invalid-chunk-"+whyInvalid(p.Addr, p.Data),
			fmt.Sprintf("%s stored a chunk of %d bytes under %x that is neither a valid content-addressed nor a valid single-owner chunk for that address (%s); input class %s",
				where, len(p.Data), p.Addr, whyInvalid(p.Addr, p.Data), class),
			map[string]interface{}{"class": class, "address": hex.EncodeToString(p.Addr), "len": len(p.Data), "data_head": obs.Hex(p.Data), "mode": int(p.Mode)})
	}
	return
}

func rnd(rng *rand.Rand, n int) []byte {
	b := make([]byte, n)
	rng.Read(b)
	return b
}

// ---- retrieval ----------------------------------------------------------------------------

type variant struct {
	class string
	data  []byte
}

// deliveries derives the reply variants of one honest chunk (address a, payload p).
func deliveries(rng *rand.Rand, a, p []byte, otherValid []variant) []variant {
	var out []variant
	add := func(class string, d []byte) { out = append(out, variant{class, d}) }
	add("honest", p)
	for _, k := range []int{1, 7, 8, 9, len(p) / 2, len(p) - 8, len(p) - 1, len(p)} {
		if k >= 1 && k <= len(p) {
			add(fmt.Sprintf("truncated-by-%s", bucket(k, len(p))), p[:len(p)-k])
		}
	}
	for _, k := range []int{1, 31, 32, 33, 4096} {
		add("extended-zero-bytes", pbench.Cat(p, make([]byte, k)))
		add("extended-nonzero-bytes", pbench.Cat(p, rnd(rng, k)))
	}
	if len(p) < chunkSize+8 {
		pad := make([]byte, chunkSize+8-len(p))
		add("zero-padded-to-capacity", pbench.Cat(p, pad))
		add("zero-padded-to-capacity-plus-junk", pbench.Cat(p, pad, rnd(rng, 1+rng.Intn(64))))
		add("zero-padded-to-capacity-plus-zero", pbench.Cat(p, pad, []byte{0}))
	} else {
		add("full-plus-junk", pbench.Cat(p, rnd(rng, 1+rng.Intn(64))))
	}
	for i := 0; i < 4; i++ {
		d := append([]byte(nil), p...)
		d[rng.Intn(len(d))] ^= 1 << uint(rng.Intn(8))
		add("bit-flipped", d)
	}
	{
		d := append([]byte(nil), p...)
		d[rng.Intn(8)] ^= 1 << uint(rng.Intn(8))
		add("span-bit-flipped", d)
	}
	add("empty", nil)
	add("span-only", p[:8])
	add("oversized-random-CS+9", rnd(rng, chunkSize+9))
	add("oversized-random-1MiB-64", rnd(rng, pbench.MaxFrame-64))
	add("soc-shaped-random", pbench.Cat(rnd(rng, 32), rnd(rng, 65), p))
	for _, o := range otherValid {
		add("valid-for-another-address:"+o.class, o.data)
	}
	return out
}

func bucket(k, n int) string {
	switch {
	case k == n:
		return "all"
	case k >= n-8:
		return "all-but-span"
	case k < 8:
		return "lt8"
	case k < 16:
		return "8..15"
	default:
		return "many"
	}
}

type rnode struct {
	svc   *retrieval.Service
	store *pbench.Store
	str   *pbench.Streamer
}

func newRetrieval(self, remote boson.Address, reply []byte) *rnode {
	str := pbench.NewStreamer(pbench.FixedReply(reply))
	st := pbench.NewStore()
	svc := retrieval.New(self, str, &pbench.Route{Neighbor: true}, st, true, pbench.Log(), nil, pbench.Accounting{}, subscribe.NewSubPub())
	svc.Config(&pbench.ChunkInfo{Routes: []aco.Route{aco.NewRoute(remote, remote)}})
	return &rnode{svc, st, str}
}

func TestRetrievalReplies(t *testing.T) {
	run := obs.Start(t, prop)
	defer run.Done()
	run.Rule("requested chunks: content-addressed chunks of 1, 100, 4096 and 262144 data bytes and two single-owner chunks; for each, the peer's delivery is the honest payload or a derivation (truncated / extended with zero or non-zero bytes / zero-padded to capacity plus junk / bit-flipped / empty / oversized / a chunk valid for another address / a valid single-owner chunk with another id). Both the client path (RetrieveChunk) and the forwarding path (handler -> RetrieveChunkFromNode -> delivery to the requester) run on the real retrieval service; distinct = (requested kind, reply class, path, accepted?)",
		"the oracle is the reference BMT (internal/spec, not pkg/bmt) with the 8..ChunkSize+8 length bound, or the reference single-owner check with go-ethereum signature recovery",
		"stub route table / accounting / chunk-info; the store records every Put")
	rng := run.RandFor("retrieval")
	self := boson.NewAddress(rnd(rng, 32))
	remote := boson.NewAddress(rnd(rng, 32))
	requester := boson.NewAddress(rnd(rng, 32))
	root := boson.NewAddress(rnd(rng, 32))
	key, _ := crypto.GenerateSecp256k1Key()
	key2, _ := crypto.GenerateSecp256k1Key()

	type want struct {
		kind string
		addr []byte
		data []byte
	}
	var wants []want
	for _, n := range []int{1, 100, 4096, chunkSize} {
		a, p := pbench.Leaf(rnd(rng, n))
		wants = append(wants, want{fmt.Sprintf("cac-%d", n), a, p})
	}
	{ // an intermediate-looking chunk: span larger than its data
		a, p := pbench.CAC(3*chunkSize, rnd(rng, 96))
		wants = append(wants, want{"cac-intermediate", a, p})
	}
	id := rnd(rng, 32)
	sa, sd := pbench.SOC(key, id, 50, rnd(rng, 50))
	wants = append(wants, want{"soc-50", sa, sd})
	sa2, sd2 := pbench.SOC(key, rnd(rng, 32), chunkSize, rnd(rng, chunkSize))
	wants = append(wants, want{"soc-full", sa2, sd2})
	// sanity of the workload builder against the slow reference
	for _, w := range wants {
		if !validChunk(w.addr, w.data) {
			t.Fatalf("harness: honest %s chunk does not satisfy the oracle", w.kind)
		}
	}
	if !spec.ValidCAC(wants[1].addr, wants[1].data) {
		t.Fatal("harness: fast and plain reference BMT disagree")
	}
	_, otherSOCSameOwnerOtherID := pbench.SOC(key, rnd(rng, 32), 50, sd[32+65+8:])
	_, otherSOCOtherOwnerSameID := pbench.SOC(key2, id, 50, sd[32+65+8:])
	others := []variant{{"cac", wants[1].data}, {"soc-same-owner-other-id", otherSOCSameOwnerOtherID}, {"soc-other-owner-same-id", otherSOCOtherOwnerSameID}}

	nCase := 0
	reps := run.N(1, 6) // repetitions with fresh random derivations
	for r := 0; r < reps; r++ {
		for _, w := range wants {
			for _, v := range deliveries(rng, w.addr, w.data, others) {
				if string(v.data) == string(w.data) && v.class != "honest" {
					continue
				}
				for _, path := range []string{"client", "forward"} {
					nCase++
					c := run.Begin(fmt.Sprintf("retrieval/%d", nCase), map[string]interface{}{"requested": w.kind, "reply": v.class, "path": path, "reply_len": len(v.data), "address": hex.EncodeToString(w.addr)})
					if c == nil {
						continue
					}
					reply := pbench.Frame(&retrievalpb.Delivery{Data: v.data})
					n := newRetrieval(self, remote, reply)
					ctx, cancel := context.WithTimeout(context.Background(), 60*time.Second)
					accepted := false
					var pi *pbench.PanicInfo
					if path == "client" {
						var ch boson.Chunk
						var err error
						pi = pbench.Guard(func() { ch, err = n.svc.RetrieveChunk(ctx, root, boson.NewAddress(w.addr)) })
						if pi == nil && err == nil && ch != nil {
							accepted = true
							run.Stat("chunks_returned_checked", 1)
							if !validChunk(w.addr, ch.Data()) || string(ch.Address().Bytes()) != string(w.addr) {
								c.Viol("retrieval-returned-invalid-chunk-"+whyInvalid(w.addr, ch.Data()),
									fmt.Sprintf("RetrieveChunk returned %d bytes for %x that are not a valid chunk for it (reply class %s)", len(ch.Data()), w.addr, v.class),
									map[string]interface{}{"requested": w.kind, "reply": v.class, "address": hex.EncodeToString(w.addr), "reply_head": obs.Hex(v.data), "reply_len": len(v.data)})
							}
						}
					} else {
						var hdl p2p.HandlerFunc
						for _, s := range n.svc.Protocol().StreamSpecs {
							hdl = s.Handler
						}
						req := pbench.Frame(&retrievalpb.RequestChunk{TargetAddr: remote.Bytes(), RootAddr: root.Bytes(), ChunkAddr: w.addr})
						st := pbench.NewStream(req)
						pi = pbench.Guard(func() {
							_ = hdl(ctx, p2p.Peer{Address: requester, Mode: aurora.NewModel().SetMode(aurora.FullNode)}, st)
						})
						// what the requester was handed
						for _, fr := range frames(st.Written()) {
							var d retrievalpb.Delivery
							if proto.Unmarshal(fr, &d) != nil {
								continue
							}
							accepted = true
							run.Stat("chunks_forwarded_checked", 1)
							if !validChunk(w.addr, d.Data) {
								c.Viol("retrieval-forwarded-invalid-chunk-"+whyInvalid(w.addr, d.Data),
									fmt.Sprintf("the retrieval handler delivered %d bytes for %x to the requester that are not a valid chunk for it (next hop's reply class %s)", len(d.Data), w.addr, v.class),
									map[string]interface{}{"requested": w.kind, "reply": v.class, "address": hex.EncodeToString(w.addr), "reply_head": obs.Hex(v.data), "reply_len": len(v.data)})
							}
						}
					}
					cancel()
					if pi != nil {
						if pi.Harness {
							t.Fatalf("harness fault: %s at %s", pi.Value, pi.Site)
						}
						run.Stat("panics_seen_not_judged_here(C37)/"+pi.Site, 1)
						if os.Getenv("C06_DEBUG") != "" {
							fmt.Fprintln(os.Stderr, "PANIC", c.ID(), pi.Value, pi.Stack[:5])
						}
					}
					checkPuts(run, c, "retrieval", n.store, v.class)
					if accepted {
						run.Stat("replies_accepted", 1)
					} else {
						run.Stat("replies_rejected", 1)
					}
					if v.class == "honest" && !accepted {
						t.Fatalf("harness: honest delivery of %s was not accepted on path %s", w.kind, path)
					}
					if nCase <= 2 {
						run.Sample(map[string]interface{}{"requested": w.kind, "reply": v.class, "path": path, "accepted": accepted})
					}
					c.End(fmt.Sprintf("%s|%s|%s|accepted=%v", w.kind, v.class, path, accepted), true)
				}
			}
		}
	}
}

func frames(b []byte) [][]byte {
	var out [][]byte
	for len(b) > 0 {
		l, n := binary.Uvarint(b)
		if n <= 0 || l > uint64(len(b)-n) {
			break
		}
		out = append(out, b[n:n+int(l)])
		b = b[n+int(l):]
	}
	return out
}

// ---- pyramids -----------------------------------------------------------------------------

type honest struct {
	name    string
	root    boson.Address
	pyramid map[string][]byte
}

func honestFiles(t *testing.T, rng *rand.Rand) []honest {
	t.Helper()
	var out []honest
	mk := func(name string, st *pbench.Store, root boson.Address) {
		py, err := pbench.Pyramid(st, root)
		if err != nil {
			t.Fatal(err)
		}
		for k, v := range py {
			a, _ := hex.DecodeString(k)
			if !validChunk(a, v) {
				t.Fatalf("harness: honest pyramid entry of %s does not satisfy the oracle", name)
			}
		}
		out = append(out, honest{name, root, py})
	}
	for _, f := range []struct {
		name string
		n    int
	}{{"file-700B", 700}, {"file-1-full-chunk", chunkSize}} {
		st := pbench.NewStore()
		root, err := pbench.Upload(st, rnd(rng, f.n))
		if err != nil {
			t.Fatal(err)
		}
		mk(f.name, st, root)
	}
	// multi-chunk files are only verifiable inside a directory manifest (a bare
	// multi-chunk reference is probed as a manifest first and that probe needs the data)
	for _, d := range []struct {
		name  string
		files map[string][]byte
	}{
		{"directory-small-files", map[string][]byte{"index.html": rnd(rng, 300), "b.txt": rnd(rng, 10)}},
		{"directory-with-2-and-3-chunk-files", map[string][]byte{"index.html": rnd(rng, 300), "img/a.bin": rnd(rng, chunkSize+5), "c.bin": rnd(rng, 2*chunkSize+1000)}},
		{"directory-with-17-chunk-file", map[string][]byte{"big.bin": rnd(rng, 16*chunkSize+5)}},
	} {
		st := pbench.NewStore()
		root, _, err := pbench.UploadDir(st, d.files, "index.html")
		if err != nil {
			t.Fatal(err)
		}
		mk(d.name, st, root)
	}
	return out
}

type pyr struct {
	class string
	keys  []string // order in which a server would send them
	m     map[string][]byte
}

func clone(m map[string][]byte) map[string][]byte {
	o := make(map[string][]byte, len(m))
	for k, v := range m {
		o[k] = v
	}
	return o
}

// pyramids derives hostile pyramids from an honest one.
func pyramids(rng *rand.Rand, h honest) []pyr {
	keys := pbench.SortedKeys(h.pyramid)
	rk := h.root.String()
	var out []pyr
	add := func(class string, m map[string][]byte) { out = append(out, pyr{class, pbench.SortedKeys(m), m}) }
	add("honest", clone(h.pyramid))
	pick := func() string { return keys[rng.Intn(len(keys))] }
	for _, target := range []string{"root", "any"} {
		k := rk
		if target == "any" {
			k = pick()
		}
		v := h.pyramid[k]
		{
			m := clone(h.pyramid)
			d := append([]byte(nil), v...)
			d[8+rng.Intn(len(d)-8)] ^= 1 << uint(rng.Intn(8))
			m[k] = d
			add(target+"-entry-altered", m)
		}
		for _, cut := range []int{1, 8, len(v) - 8, len(v) - 7, len(v)} {
			if cut < 1 || cut > len(v) {
				continue
			}
			m := clone(h.pyramid)
			m[k] = v[:len(v)-cut]
			add(fmt.Sprintf("%s-entry-truncated-%s", target, bucket(cut, len(v))), m)
		}
		{
			// zero bytes appended inside the BMT capacity do not change the hash. For an
			// intermediate chunk the extension is one whole (zero) reference: reference data
			// that is not a multiple of the reference size makes the joiner panic, which is
			// C37's subject, not this property's.
			ext := 1
			if binary.LittleEndian.Uint64(v[:8]) > uint64(len(v)-8) {
				ext = 32
			}
			m := clone(h.pyramid)
			m[k] = pbench.Cat(v, make([]byte, ext))
			add(fmt.Sprintf("%s-entry-extended-%d-zero-bytes", target, ext), m)
			m2 := clone(h.pyramid)
			m2[k] = pbench.Cat(v, []byte{1})
			add(target+"-entry-extended-one-nonzero-byte", m2)
		}
		if len(v) < chunkSize+8 {
			pad := make([]byte, chunkSize+8-len(v))
			for _, junk := range []int{32, 64, 4096} {
				m := clone(h.pyramid)
				m[k] = pbench.Cat(v, pad, rnd(rng, junk))
				add(fmt.Sprintf("%s-entry-zero-padded-to-capacity-plus-%d-junk-bytes", target, junk), m)
			}
			m := clone(h.pyramid)
			m[k] = pbench.Cat(v, pad)
			add(target+"-entry-zero-padded-to-capacity", m)
			m3 := clone(h.pyramid)
			m3[k] = pbench.Cat(v, pad, make([]byte, 32))
			add(target+"-entry-zero-padded-past-capacity", m3)
		}
	}
	{
		m := clone(h.pyramid)
		delete(m, rk)
		add("root-entry-missing", m)
	}
	if len(keys) > 1 {
		m := clone(h.pyramid)
		for _, k := range keys {
			if k != rk {
				delete(m, k)
				break
			}
		}
		add("non-root-entry-missing", m)
		m2 := clone(h.pyramid)
		a, b := keys[0], keys[1]
		m2[a], m2[b] = m2[b], m2[a]
		add("values-swapped", m2)
	}
	{
		m := clone(h.pyramid)
		a, p := pbench.Leaf(rnd(rng, 64))
		m[hex.EncodeToString(a)] = p
		add("extra-valid-unrelated-entry", m)
		m2 := clone(h.pyramid)
		m2[hex.EncodeToString(rnd(rng, 32))] = rnd(rng, 64)
		add("extra-invalid-unrelated-entry", m2)
		m3 := clone(h.pyramid)
		pad := make([]byte, chunkSize+8-len(p))
		m3[hex.EncodeToString(a)] = pbench.Cat(p, pad, rnd(rng, 64))
		add("extra-overlong-unrelated-entry", m3)
	}
	{
		m := clone(h.pyramid)
		m[rk] = h.pyramid[rk][:7]
		add("root-entry-7-bytes", m)
		m2 := clone(h.pyramid)
		m2[rk] = nil
		add("root-entry-empty", m2)
	}
	// large replies: the honest pyramid padded with unrelated VALID chunks whose addresses are
	// all smaller than the altered entry's, up to 33..47 entries (a peer can pad at will)
	for _, total := range []int{33, 34, 35, 38, 47} {
		for _, target := range []string{"root", "largest"} {
			k := rk
			if target == "largest" {
				k = keys[len(keys)-1]
			}
			if k < "10" {
				continue // hardly any address is smaller
			}
			m := clone(h.pyramid)
			for tries := 0; len(m) < total && tries < 4000; tries++ {
				a, p := pbench.Leaf(rnd(rng, 40))
				if ka := hex.EncodeToString(a); ka < k {
					m[ka] = p
				}
			}
			if len(m) != total {
				continue
			}
			add(fmt.Sprintf("padded-to-%d-honest", total), clone(m))
			d := append([]byte(nil), h.pyramid[k]...)
			d[8+rng.Intn(len(d)-8)] ^= 1 << uint(rng.Intn(8))
			m[k] = d
			add(fmt.Sprintf("padded-to-%d-%s-entry-altered", total, target), m)
		}
	}
	{
		// the same entry under an upper-case key as well
		m := clone(h.pyramid)
		u := fmt.Sprintf("%X", h.root.Bytes())
		m[u] = rnd(rng, 40)
		add("extra-uppercase-root-key-with-garbage", m)
	}
	return out
}

// preload puts some honest chunks of the file into the store before the hostile pyramid
// arrives: the node may already hold part of a file (fetched through another manifest, a
// partial earlier download ...) and must not trust an entry just because it has that address.
func preload(rng *rand.Rand, st *pbench.Store, h honest, mode string) {
	for k, v := range h.pyramid {
		if mode == "all" || (mode == "some" && rng.Intn(2) == 0) {
			if a, err := hex.DecodeString(k); err == nil {
				st.Seed(a, v)
			}
		}
	}
}

var preloadModes = []string{"empty", "some", "all"}

func TestPyramidTraversal(t *testing.T) {
	run := obs.Start(t, prop)
	defer run.Done()
	run.Rule("traversal.GetChunkHashes(root, pyramid) on the real traversal service with pyramids derived from honest ones (700-byte file, 3-chunk file, 17-chunk file, directory manifest) by altering / truncating / extending an entry, zero-padding an entry to the BMT capacity and appending junk past it, removing, adding and swapping entries, and padding the reply with unrelated valid chunks up to 33..47 entries with the altered entry at the largest address; every chunk handed to the store is judged; distinct = (file kind, derivation class, accepted?)",
		"honest pyramids come from the real pipeline and the real GetPyramid; the oracle does not")
	rng := run.RandFor("traversal")
	files := honestFiles(t, rng)
	n := 0
	for r := 0; r < run.N(3, 9); r++ {
		for _, h := range files {
			for _, p := range pyramids(rng, h) {
				n++
				pre := preloadModes[n%3]
				c := run.Begin(fmt.Sprintf("traversal/%d", n), map[string]interface{}{"file": h.name, "class": p.class, "entries": len(p.m), "root": h.root.String(), "store_before": pre})
				if c == nil {
					continue
				}
				st := pbench.NewStore()
				preload(rng, st, h, pre)
				run.Stat("pyramids_offered_with_store_"+pre, 1)
				var err error
				pi := pbench.Guard(func() { _, _, err = traversal.New(st).GetChunkHashes(context.Background(), h.root, p.m) })
				if pi != nil {
					if pi.Harness {
						t.Fatalf("harness fault: %s at %s", pi.Value, pi.Site)
					}
					run.Stat("panics_seen_not_judged_here(C37)/"+pi.Site, 1)
					if os.Getenv("C06_DEBUG") != "" {
						fmt.Fprintln(os.Stderr, "PANIC", c.ID(), pi.Value, pi.Stack[:5])
					}
				}
				stored := checkPuts(run, c, "traversal", st, p.class)
				accepted := pi == nil && err == nil
				if accepted {
					run.Stat("pyramids_accepted", 1)
				} else {
					run.Stat("pyramids_rejected", 1)
				}
				if p.class == "honest" && (!accepted || stored == 0) {
					t.Fatalf("harness: honest pyramid of %s not accepted (%v) or nothing stored (%d)", h.name, err, stored)
				}
				if n <= 2 {
					run.Sample(map[string]interface{}{"file": h.name, "class": p.class, "accepted": accepted, "stored": stored})
				}
				c.End(fmt.Sprintf("%s|%s|pre=%s|accepted=%v", h.name, p.class, pre, accepted), true)
			}
		}
	}
}

func TestPyramidChunkinfo(t *testing.T) {
	run := obs.Start(t, prop)
	defer run.Done()
	run.Rule("the same derived pyramids served by a hostile peer on the chunkpyramid stream and read by the real chunkinfo client (OnChunkRetrieved -> doFindChunkPyramid -> onChunkPyramidResp, and Init -> FindChunkInfo); every chunk handed to the store is judged; distinct = (file kind, derivation class, entry point, stored?)",
		"real chunkinfo + real traversal over the recording store; stub route table and chain")
	rng := run.RandFor("chunkinfo")
	self := boson.NewAddress(rnd(rng, 32))
	peer := boson.NewAddress(rnd(rng, 32))
	files := honestFiles(t, rng)
	n := 0
	for r := 0; r < run.N(1, 6); r++ {
		for _, h := range files {
			for _, p := range pyramids(rng, h) {
				for _, entry := range []string{"OnChunkRetrieved", "Init"} {
					if entry == "Init" && r == 0 && !run.Thorough() && p.class != "honest" && len(p.class) > 0 && p.class[0] != 'r' {
						continue // quick tier: the Init entry point for the root-* classes only
					}
					n++
					c := run.Begin(fmt.Sprintf("chunkinfo/%d", n), map[string]interface{}{"file": h.name, "class": p.class, "entry": entry, "entries": len(p.m), "root": h.root.String()})
					if c == nil {
						continue
					}
					var reply []byte
					for _, k := range p.keys {
						hb, err := hex.DecodeString(k)
						if err != nil {
							continue
						}
						reply = append(reply, pbench.Frame(&cipb.ChunkPyramidResp{Hash: hb, Chunk: p.m[k]})...)
					}
					reply = append(reply, pbench.Frame(&cipb.ChunkPyramidResp{Ok: true})...)
					st := pbench.NewStore()
					preload(rng, st, h, preloadModes[n%3])
					str := pbench.NewStreamer(func(_ boson.Address, _, stream string, _ int) ([]byte, error) {
						if stream == "chunkpyramid" {
							return reply, nil
						}
						return nil, nil
					})
					ci := chunkinfo.New(self, str, pbench.Log(), traversal.New(st), pbench.StateStore(), st, &pbench.Route{Neighbor: true}, &pbench.Chain{Nodes: []boson.Address{peer}}, pbench.Resolver{}, subscribe.NewSubPub())
					pi := pbench.Guard(func() {
						if entry == "OnChunkRetrieved" {
							_ = ci.OnChunkRetrieved(h.root, h.root, peer)
						} else {
							ctx, cancel := context.WithTimeout(context.Background(), 150*time.Millisecond)
							defer cancel()
							_ = ci.Init(ctx, nil, h.root)
						}
					})
					if pi != nil {
						if pi.Harness {
							t.Fatalf("harness fault: %s at %s", pi.Value, pi.Site)
						}
						run.Stat("panics_seen_not_judged_here(C37)/"+pi.Site, 1)
						if os.Getenv("C06_DEBUG") != "" {
							fmt.Fprintln(os.Stderr, "PANIC", c.ID(), pi.Value, pi.Stack[:5])
						}
					}
					stored := checkPuts(run, c, "chunkinfo-pyramid", st, p.class)
					if stored > 0 {
						run.Stat("pyramids_accepted", 1)
					} else {
						run.Stat("pyramids_rejected", 1)
					}
					if p.class == "honest" && stored == 0 {
						t.Fatalf("harness: honest pyramid of %s stored nothing through %s", h.name, entry)
					}
					c.End(fmt.Sprintf("%s|%s|%s|stored=%v", h.name, p.class, entry, stored > 0), true)
				}
			}
		}
	}
}
