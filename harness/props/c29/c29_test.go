// Package c29 monitors the real hive2 peer-exchange handler (pkg/hive2/hive2.go,
// onFindNode) against an oracle written from the property statement:
//
//	A peer-exchange reply never contains more peers than requested (with at most 30
//	honoured), never contains the requester, contains only peers whose proximity to the
//	requested target is among the requested orders, and never repeats a peer. It never
//	offers private-network addresses to a requester with a public address unless
//	explicitly allowed.
//
// The handler is the one the node registers (Service.Protocol().StreamSpecs[0].Handler); it
// runs over a real kademlia.Kad (connected + known peers) and a real address book on an
// in-memory leveldb state store. The oracle only looks at the decoded pb.Peers reply and at
// the request; proximity is computed with internal/spec, address classes with net.IP.
package c29

import (
	"bytes"
	"context"
	"errors"
	"fmt"
	"io"
	"math"
	"math/rand"
	"net"
	"sort"
	"strings"
	"sync"
	"testing"
	"time"

	"github.com/gauss-project/aurorafs/pkg/addressbook"
	"github.com/gauss-project/aurorafs/pkg/aurora"
	"github.com/gauss-project/aurorafs/pkg/boson"
	"github.com/gauss-project/aurorafs/pkg/hive2"
	"github.com/gauss-project/aurorafs/pkg/hive2/pb"
	"github.com/gauss-project/aurorafs/pkg/logging"
	"github.com/gauss-project/aurorafs/pkg/p2p"
	p2pmock "github.com/gauss-project/aurorafs/pkg/p2p/mock"
	"github.com/gauss-project/aurorafs/pkg/p2p/protobuf"
	pingpongmock "github.com/gauss-project/aurorafs/pkg/pingpong/mock"
	"github.com/gauss-project/aurorafs/pkg/shed"
	"github.com/gauss-project/aurorafs/pkg/statestore/leveldb"
	"github.com/gauss-project/aurorafs/pkg/storage"
	"github.com/gauss-project/aurorafs/pkg/subscribe"
	"github.com/gauss-project/aurorafs/pkg/topology/kademlia"
	ma "github.com/multiformats/go-multiaddr"
	"github.com/sirupsen/logrus"
	"verif/harness/internal/obs"
	"verif/harness/internal/spec"
	"verif/harness/internal/vdb"
)

const (
	maxPO      = 31 // proximity orders are capped at 31
	maxHonored = 30 // "with at most 30 honoured"
	// a syntactically valid libp2p peer id, used only inside grey-area circuit underlays
	somePeerID = "QmcgpsyWgH8Y8ajJz1Cu72KnS5uo2Aa2LpzU7kinSupNKC"
)

var quiet = logging.New(io.Discard, logrus.PanicLevel)

// ---- oracle: address classes (own code, net.IP only) ----------------------------------

type addrClass int

const (
	clsGrey    addrClass = iota // not judged: dns, circuit, CGNAT, v4 link-local, documentation nets, v4-mapped v6 ...
	clsPublic                   // unambiguous public unicast IP
	clsPrivate                  // 10/8, 172.16/12, 192.168/16, 127/8, ::1, fc00::/7, fe80::/10
)

func (c addrClass) String() string { return [...]string{"grey", "public", "private"}[c] }

func mustCIDRs(l ...string) []*net.IPNet {
	out := make([]*net.IPNet, len(l))
	for i, s := range l {
		_, n, err := net.ParseCIDR(s)
		if err != nil {
			panic(err)
		}
		out[i] = n
	}
	return out
}

var (
	private4 = mustCIDRs("10.0.0.0/8", "172.16.0.0/12", "192.168.0.0/16", "127.0.0.0/8")
	private6 = mustCIDRs("fc00::/7", "fe80::/10", "::1/128")
	// v4 ranges that are neither clearly private nor clearly public: never judged
	grey4 = mustCIDRs("0.0.0.0/8", "100.64.0.0/10", "169.254.0.0/16", "192.0.0.0/24", "192.0.2.0/24",
		"192.88.99.0/24", "198.18.0.0/15", "198.51.100.0/24", "203.0.113.0/24", "224.0.0.0/3")
	global6 = mustCIDRs("2000::/3")
	grey6   = mustCIDRs("2001::/23", "2001:db8::/32", "2002::/16")
)

func in(ip net.IP, nets []*net.IPNet) bool {
	for _, n := range nets {
		if n.Contains(ip) {
			return true
		}
	}
	return false
}

// classify decides the class of an underlay from its textual multiaddr form. Only the
// plain shapes /ip4/A/..., /ip6/A/..., /ip6zone/Z/ip6/A/... without any further address
// component are judged; everything else is grey.
func classify(maddr string) addrClass {
	parts := strings.Split(strings.TrimPrefix(maddr, "/"), "/")
	i := 0
	if len(parts) >= 2 && parts[0] == "ip6zone" {
		i = 2
	}
	if len(parts) < i+2 {
		return clsGrey
	}
	proto, val := parts[i], parts[i+1]
	for _, p := range parts[i+2:] {
		switch p {
		case "ip4", "ip6", "ip6zone", "dns", "dns4", "dns6", "dnsaddr", "p2p-circuit", "onion", "onion3", "garlic64", "unix":
			return clsGrey
		}
	}
	ip := net.ParseIP(val)
	if ip == nil {
		return clsGrey
	}
	switch proto {
	case "ip4":
		ip4 := ip.To4()
		if ip4 == nil {
			return clsGrey
		}
		if in(ip4, private4) {
			return clsPrivate
		}
		if in(ip4, grey4) {
			return clsGrey
		}
		return clsPublic
	case "ip6":
		if ip.To4() != nil { // v4-mapped: grey
			return clsGrey
		}
		if in(ip, private6) {
			return clsPrivate
		}
		if in(ip, global6) && !in(ip, grey6) {
			return clsPublic
		}
		return clsGrey
	}
	return clsGrey
}

// ---- workload: underlays ---------------------------------------------------------------

type ugen struct {
	name string
	cls  addrClass
	f    func(r *rand.Rand) string
}

func port(r *rand.Rand) int { return 1024 + r.Intn(60000) }

var underlayGens = []ugen{
	{"pub4", clsPublic, func(r *rand.Rand) string {
		pre := []string{"8.8", "1.1", "93.184", "151.101", "52.95", "185.199", "172.15", "172.32", "11.0", "192.167", "126.255", "128.0", "9.255"}
		return fmt.Sprintf("/ip4/%s.%d.%d/tcp/%d", pre[r.Intn(len(pre))], r.Intn(256), 1+r.Intn(254), port(r))
	}},
	{"pub6", clsPublic, func(r *rand.Rand) string {
		pre := []string{"2001:4860:4860", "2606:4700:4700", "2a00:1450:4001", "2620:fe"}
		return fmt.Sprintf("/ip6/%s::%x/tcp/%d", pre[r.Intn(len(pre))], 1+r.Intn(0xfffe), port(r))
	}},
	{"priv10", clsPrivate, func(r *rand.Rand) string {
		return fmt.Sprintf("/ip4/10.%d.%d.%d/tcp/%d", r.Intn(256), r.Intn(256), 1+r.Intn(254), port(r))
	}},
	{"priv172", clsPrivate, func(r *rand.Rand) string {
		return fmt.Sprintf("/ip4/172.%d.%d.%d/tcp/%d", 16+r.Intn(16), r.Intn(256), 1+r.Intn(254), port(r))
	}},
	{"priv192", clsPrivate, func(r *rand.Rand) string {
		return fmt.Sprintf("/ip4/192.168.%d.%d/udp/%d/quic", r.Intn(256), 1+r.Intn(254), port(r))
	}},
	{"loop4", clsPrivate, func(r *rand.Rand) string {
		return fmt.Sprintf("/ip4/127.%d.%d.%d/tcp/%d", r.Intn(2), r.Intn(2), 1+r.Intn(3), port(r))
	}},
	{"ula6", clsPrivate, func(r *rand.Rand) string {
		return fmt.Sprintf("/ip6/%s%02x:%x::%x/tcp/%d", []string{"fc", "fd"}[r.Intn(2)], r.Intn(256), r.Intn(0xffff), 1+r.Intn(0xfffe), port(r))
	}},
	{"ll6", clsPrivate, func(r *rand.Rand) string {
		if r.Intn(2) == 0 {
			return fmt.Sprintf("/ip6zone/eth%d/ip6/fe80::%x/tcp/%d", r.Intn(3), 1+r.Intn(0xfffe), port(r))
		}
		return fmt.Sprintf("/ip6/fe80::%x:%x/tcp/%d", r.Intn(0xffff), 1+r.Intn(0xfffe), port(r))
	}},
	{"loop6", clsPrivate, func(r *rand.Rand) string { return fmt.Sprintf("/ip6/::1/tcp/%d", port(r)) }},
	// grey areas: in the workload, counted, never judged
	{"grey-dns", clsGrey, func(r *rand.Rand) string {
		return fmt.Sprintf("/dns4/node%d.example.org/tcp/%d", r.Intn(1000), port(r))
	}},
	{"grey-cgnat", clsGrey, func(r *rand.Rand) string {
		return fmt.Sprintf("/ip4/100.%d.%d.%d/tcp/%d", 64+r.Intn(64), r.Intn(256), 1+r.Intn(254), port(r))
	}},
	{"grey-ll4", clsGrey, func(r *rand.Rand) string {
		return fmt.Sprintf("/ip4/169.254.%d.%d/tcp/%d", r.Intn(256), 1+r.Intn(254), port(r))
	}},
	{"grey-doc", clsGrey, func(r *rand.Rand) string { return fmt.Sprintf("/ip4/198.51.100.%d/tcp/%d", 1+r.Intn(254), port(r)) }},
	{"grey-mapped", clsGrey, func(r *rand.Rand) string {
		return fmt.Sprintf("/ip6/::ffff:10.%d.%d.%d/tcp/%d", r.Intn(256), r.Intn(256), 1+r.Intn(254), port(r))
	}},
	{"grey-circuit", clsGrey, func(r *rand.Rand) string {
		return fmt.Sprintf("/ip4/8.8.%d.%d/tcp/%d/p2p/%s/p2p-circuit", r.Intn(256), 1+r.Intn(254), port(r), somePeerID)
	}},
}

var (
	gensPublic  []ugen
	gensPrivate []ugen
	gensGrey    []ugen
)

func init() {
	for _, g := range underlayGens {
		switch g.cls {
		case clsPublic:
			gensPublic = append(gensPublic, g)
		case clsPrivate:
			gensPrivate = append(gensPrivate, g)
		default:
			gensGrey = append(gensGrey, g)
		}
	}
}

// ---- workload: peer sets ---------------------------------------------------------------

type peerInfo struct {
	overlay   boson.Address
	connected bool // else only known
	inKad     bool // false: outsider, present only in the address book (or nowhere)
	inBook    bool
	underlay  string
	ugen      string
	cls       addrClass // oracle class of the stored underlay
}

func (p *peerInfo) role() string {
	switch {
	case !p.inKad:
		return "outsider"
	case p.connected:
		return "connected"
	}
	return "known"
}

func (p *peerInfo) describe() map[string]interface{} {
	return map[string]interface{}{"overlay": p.overlay.String()[:16], "role": p.role(), "in_addressbook": p.inBook, "underlay": p.underlay, "class": p.cls.String()}
}

type setSpec struct {
	nConn, nKnown int
	pPrivate      float64 // share of peers with private underlays
	pGrey         float64
	pNoBook       float64 // share of kademlia peers missing from the address book
	nFocus        int
	nHot          int  // number of "hot" orders around each focus target
	dense         bool // every overlay sits at a hot order of a focus target
}

type peerSet struct {
	spec      setSpec
	base      boson.Address
	kad       *kademlia.Kad
	svc       *hive2.Service
	handler   p2p.HandlerFunc
	book      addressbook.Interface
	store     storage.StateStorer
	mdb       *shed.DB
	peers     []*peerInfo // kademlia peers
	outsiders []*peerInfo // requesters that are not kademlia peers (last one: not even in the address book)
	focus     [][]byte
	hot       [][]int
	used      map[string]bool
}

func (s *peerSet) close() {
	_ = s.svc.Close()
	// the Kad was never started (no manage loop, no dial-outs: the peer sets must not move
	// under the requests), so Close would only wait for a loop that does not exist.
	_ = s.mdb.Close()
	_ = s.store.Close()
}

// overlayAt returns an address whose proximity order to target is exactly po (po 31: at
// least 31 leading equal bits, sometimes many more).
func overlayAt(r *rand.Rand, target []byte, po int) []byte {
	b := make([]byte, 32)
	r.Read(b)
	eq := po // number of leading bits copied from target
	flip := true
	if po >= maxPO && r.Intn(2) == 0 {
		eq = 32 + r.Intn(200) // deeper than the cap
		flip = eq < 256
	}
	for i := 0; i < eq && i < 256; i++ {
		m := byte(0x80) >> uint(i%8)
		b[i/8] = b[i/8]&^m | target[i/8]&m
	}
	if flip && eq < 256 {
		m := byte(0x80) >> uint(eq%8)
		b[eq/8] = b[eq/8]&^m | (^target[eq/8])&m
	}
	return b
}

func randBytes(r *rand.Rand, n int) []byte {
	b := make([]byte, n)
	r.Read(b)
	return b
}

func (s *peerSet) freshOverlay(r *rand.Rand) boson.Address {
	for {
		var b []byte
		if len(s.focus) > 0 && (s.spec.dense || r.Float64() < 0.85) {
			f := r.Intn(len(s.focus))
			po := r.Intn(32)
			if s.spec.dense || r.Float64() < 0.7 {
				po = s.hot[f][r.Intn(len(s.hot[f]))]
			}
			b = overlayAt(r, s.focus[f], po)
		} else {
			b = randBytes(r, 32)
		}
		k := string(b)
		if s.used[k] {
			continue
		}
		s.used[k] = true
		return boson.NewAddress(b)
	}
}

func pickUnderlay(r *rand.Rand, pPrivate, pGrey float64) (string, string) {
	x := r.Float64()
	var g ugen
	switch {
	case x < pPrivate:
		g = gensPrivate[r.Intn(len(gensPrivate))]
	case x < pPrivate+pGrey:
		g = gensGrey[r.Intn(len(gensGrey))]
	default:
		g = gensPublic[r.Intn(len(gensPublic))]
	}
	return g.f(r), g.name
}

func buildSet(t testing.TB, r *rand.Rand, sp setSpec) *peerSet {
	t.Helper()
	s := &peerSet{spec: sp, used: map[string]bool{}}
	s.base = boson.NewAddress(randBytes(r, 32))
	s.used[string(s.base.Bytes())] = true
	for i := 0; i < sp.nFocus; i++ {
		s.focus = append(s.focus, randBytes(r, 32))
		hot := map[int]bool{}
		for len(hot) < sp.nHot {
			if r.Intn(4) == 0 {
				hot[24+r.Intn(8)] = true // deep orders that random addresses never reach
			} else {
				hot[r.Intn(32)] = true
			}
		}
		var hl []int
		for o := range hot {
			hl = append(hl, o)
		}
		sort.Ints(hl)
		s.hot = append(s.hot, hl)
	}

	store, err := leveldb.NewInMemoryStateStore(quiet)
	if err != nil {
		t.Fatalf("state store: %v", err)
	}
	s.store = store
	s.book = addressbook.New(store)
	mdb, err := shed.NewDB("", vdb.Opts())
	if err != nil {
		t.Fatalf("metrics db: %v", err)
	}
	s.mdb = mdb

	// the streamer of the service is only used by the client side (DoFindNode), never here
	s.svc = hive2.New(nil, s.book, 0, quiet)
	p2ps := p2pmock.New(p2pmock.WithConnectFunc(func(context.Context, ma.Multiaddr) (*p2p.Peer, error) {
		return nil, errors.New("c29: no dial-outs")
	}))
	ppm := pingpongmock.New(func(context.Context, boson.Address, ...string) (time.Duration, error) { return 0, nil })
	kad, err := kademlia.New(s.base, s.book, s.svc, p2ps, ppm, nil, nil, mdb, quiet, subscribe.NewSubPub(),
		kademlia.Options{BinMaxPeers: 20, NodeMode: aurora.NewModel().SetMode(aurora.FullNode)})
	if err != nil {
		t.Fatalf("kademlia.New: %v", err)
	}
	s.kad = kad
	s.svc.SetConfig(hive2.Config{Kad: kad, Base: s.base})
	s.handler = s.svc.Protocol().StreamSpecs[0].Handler

	put := func(p *peerInfo) {
		m, err := ma.NewMultiaddr(p.underlay)
		if err != nil {
			t.Fatalf("multiaddr %q: %v", p.underlay, err)
		}
		// what the oracle classifies is the canonical text form
		p.underlay = m.String()
		p.cls = classify(p.underlay)
		if p.inBook {
			if err := s.book.Put(p.overlay, aurora.Address{Overlay: p.overlay, Underlay: m, Signature: randBytes(r, 65)}); err != nil {
				t.Fatalf("addressbook put: %v", err)
			}
		}
	}
	mode := aurora.NewModel().SetMode(aurora.FullNode)
	total := sp.nConn + sp.nKnown
	for i := 0; i < total; i++ {
		p := &peerInfo{overlay: s.freshOverlay(r), connected: i < sp.nConn, inKad: true, inBook: r.Float64() >= sp.pNoBook}
		p.underlay, p.ugen = pickUnderlay(r, sp.pPrivate, sp.pGrey)
		put(p)
		s.peers = append(s.peers, p)
	}
	// interleave connects and adds in random order
	for _, i := range r.Perm(total) {
		p := s.peers[i]
		if p.connected {
			if err := kad.Connected(context.Background(), p2p.Peer{Address: p.overlay, Mode: mode}, true); err != nil {
				t.Fatalf("kad.Connected: %v", err)
			}
		} else {
			kad.AddPeers(p.overlay)
		}
	}
	if got := kad.ConnectedPeers().Length(); got != sp.nConn {
		t.Fatalf("harness: %d connected peers in kademlia, want %d", got, sp.nConn)
	}
	if got := kad.KnownPeers().Length(); got != total {
		t.Fatalf("harness: %d known peers in kademlia, want %d", got, total)
	}
	// outsiders: requesters that are not kademlia peers
	for _, g := range []struct {
		gens   []ugen
		inBook bool
	}{{gensPublic[:1], true}, {gensPublic[1:2], true}, {gensPrivate, true}, {gensGrey, true}, {gensPublic, false}} {
		gen := g.gens[r.Intn(len(g.gens))]
		p := &peerInfo{overlay: s.freshOverlay(r), inBook: g.inBook, underlay: gen.f(r), ugen: gen.name}
		put(p)
		s.outsiders = append(s.outsiders, p)
	}
	return s
}

// ---- in-memory stream ------------------------------------------------------------------

type memStream struct {
	mu  sync.Mutex
	in  *bytes.Reader
	out bytes.Buffer
}

func (s *memStream) Read(p []byte) (int, error) {
	s.mu.Lock()
	defer s.mu.Unlock()
	return s.in.Read(p)
}
func (s *memStream) Write(p []byte) (int, error) {
	s.mu.Lock()
	defer s.mu.Unlock()
	return s.out.Write(p)
}
func (s *memStream) Close() error                 { return nil }
func (s *memStream) FullClose() error             { return nil }
func (s *memStream) Reset() error                 { return nil }
func (s *memStream) Headers() p2p.Headers         { return nil }
func (s *memStream) ResponseHeaders() p2p.Headers { return nil }
func (s *memStream) reply() []byte {
	s.mu.Lock()
	defer s.mu.Unlock()
	return append([]byte(nil), s.out.Bytes()...)
}

// ---- requests --------------------------------------------------------------------------

type request struct {
	limit     int32
	orders    []int32
	target    []byte
	targetSrc string
	requester *peerInfo
	allowPriv bool
	extra     string // "" = inside the stated quantifier; otherwise names what is outside
	ordMode   string
}

func (q *request) describe() map[string]interface{} {
	return map[string]interface{}{
		"limit": q.limit, "orders": q.orders, "target": obs.Hex(q.target), "target_source": q.targetSrc,
		"requester": q.requester.describe(), "allow_private_cidrs": q.allowPriv, "outside_stated_quantifier": q.extra,
	}
}

func genLimit(r *rand.Rand) (int32, string) {
	x := r.Float64()
	switch {
	case x < 0.10:
		return 0, ""
	case x < 0.20:
		return 1, ""
	case x < 0.28:
		return 2, ""
	case x < 0.36:
		return 3, ""
	case x < 0.68:
		return int32(4 + r.Intn(26)), ""
	case x < 0.76:
		return 30, ""
	case x < 0.93:
		return int32(31 + r.Intn(10)), ""
	case x < 0.97:
		return []int32{-1, -2, -30, math.MinInt32}[r.Intn(4)], "negative-limit"
	}
	return []int32{41, 64, 1000, math.MaxInt32}[r.Intn(4)], "limit-above-40"
}

func (s *peerSet) genOrders(r *rand.Rand, focus int) ([]int32, string, string) {
	hot := []int{r.Intn(32)}
	if focus >= 0 {
		hot = s.hot[focus]
	}
	pick := func() int32 {
		if r.Intn(3) > 0 {
			return int32(hot[r.Intn(len(hot))])
		}
		return int32(r.Intn(32))
	}
	x := r.Float64()
	switch {
	case x < 0.05:
		if r.Intn(2) == 0 {
			return nil, "empty", ""
		}
		return []int32{}, "empty", ""
	case x < 0.27:
		all := make([]int32, 32)
		for i, v := range r.Perm(32) {
			all[i] = int32(v)
		}
		return all, "all", ""
	case x < 0.42:
		return []int32{pick()}, "single", ""
	case x < 0.67:
		n := 2 + r.Intn(5)
		seen := map[int32]bool{}
		var out []int32
		for len(out) < n {
			v := pick()
			if !seen[v] {
				seen[v] = true
				out = append(out, v)
			}
		}
		return out, "subset", ""
	case x < 0.77:
		n := 7 + r.Intn(20)
		var out []int32
		for _, v := range r.Perm(32)[:n] {
			out = append(out, int32(v))
		}
		return out, "wide-subset", ""
	case x < 0.87:
		n := 2 + r.Intn(6)
		var out []int32
		for i := 0; i < n; i++ {
			out = append(out, pick())
		}
		out = append(out, out[r.Intn(len(out))])
		return out, "duplicates", ""
	case x < 0.93: // as the lookup client asks: consecutive orders
		st := int(pick())
		var out []int32
		for i := 0; i < 3 && st+i < 32; i++ {
			out = append(out, int32(st+i))
		}
		return out, "consecutive", ""
	case x < 0.96: // orders no peer can have (proximity is capped at 31), mixed with real ones
		out := []int32{int32(32 + r.Intn(224)), 255, 32}
		if r.Intn(2) == 0 {
			out = append(out, pick())
		}
		return out, "with-32..255", ""
	}
	// outside the stated quantifier: values that are not an order at all
	v := pick()
	out := []int32{v + 256, v - 256, int32(r.Intn(32)) + 512}
	return out, "non-order-values", "order-values-outside-0..255"
}

func (s *peerSet) genRequest(r *rand.Rand) *request {
	q := &request{}
	q.limit, q.extra = genLimit(r)
	// requester
	var kadConn, kadKnown []*peerInfo
	for _, p := range s.peers {
		if p.connected {
			kadConn = append(kadConn, p)
		} else {
			kadKnown = append(kadKnown, p)
		}
	}
	x := r.Float64()
	switch {
	case x < 0.20 && len(kadConn) > 0:
		q.requester = kadConn[r.Intn(len(kadConn))]
	case x < 0.35 && len(kadKnown) > 0:
		q.requester = kadKnown[r.Intn(len(kadKnown))]
	case x < 0.72:
		q.requester = s.outsiders[r.Intn(2)] // public v4 / v6
	case x < 0.82:
		q.requester = s.outsiders[2]
	case x < 0.88:
		q.requester = s.outsiders[3]
	case x < 0.96:
		q.requester = s.outsiders[4] // unknown to the address book
	default:
		q.requester = s.outsiders[r.Intn(2)]
	}
	// target
	focus := -1
	x = r.Float64()
	switch {
	case x < 0.70 && len(s.focus) > 0:
		focus = r.Intn(len(s.focus))
		q.target, q.targetSrc = s.focus[focus], "focus"
	case x < 0.80 && len(s.peers) > 0:
		q.target, q.targetSrc = s.peers[r.Intn(len(s.peers))].overlay.Bytes(), "a-peer"
	case x < 0.85:
		q.target, q.targetSrc = q.requester.overlay.Bytes(), "requester"
	case x < 0.90:
		q.target, q.targetSrc = s.base.Bytes(), "base"
	default:
		q.target, q.targetSrc = randBytes(r, 32), "random"
	}
	var ex string
	q.orders, q.ordMode, ex = s.genOrders(r, focus)
	if ex != "" {
		if q.extra != "" {
			q.extra += "+"
		}
		q.extra += ex
	}
	q.allowPriv = r.Float64() < 0.35
	return q
}

// ---- running one request and judging the reply -----------------------------------------

type replyPeer struct {
	overlay  []byte
	underlay string // textual multiaddr, "" if undecodable
	cls      addrClass
	po       int
}

func cls(n int) string {
	switch {
	case n == 0:
		return "0"
	case n == 1:
		return "1"
	case n <= 5:
		return "2-5"
	case n <= 14:
		return "6-14"
	}
	return "15+"
}

func limitClass(l int32) string {
	switch {
	case l < 0:
		return "neg"
	case l <= 3:
		return fmt.Sprint(l)
	case l <= 15:
		return "4-15"
	case l <= 29:
		return "16-29"
	case l == 30:
		return "30"
	case l <= 40:
		return "31-40"
	}
	return ">40"
}

func limitKey(l int32) string {
	switch {
	case l < 0:
		return "negative-limit"
	case l == 0:
		return "limit=0"
	case l == 1:
		return "limit=1"
	case l <= maxHonored:
		return "limit-2-to-30"
	}
	return "limit-above-30"
}

func requesterClass(p *peerInfo) string {
	if !p.inBook {
		return p.role() + "-nobook"
	}
	return p.role() + "-" + p.cls.String()
}

// exec drives the real handler with q and returns the decoded reply.
func (s *peerSet) exec(t testing.TB, c *obs.Case, q *request) (*pb.Peers, bool) {
	var reqBuf bytes.Buffer
	if err := protobuf.NewWriter(&reqBuf).WriteMsg(&pb.FindNodeReq{Target: q.target, Pos: q.orders, Limit: q.limit}); err != nil {
		t.Fatalf("encode request: %v", err)
	}
	st := &memStream{in: bytes.NewReader(reqBuf.Bytes())}
	s.svc.SetConfig(hive2.Config{Kad: s.kad, Base: s.base, AllowPrivateCIDRs: q.allowPriv})
	type res struct {
		err error
		pan interface{}
	}
	done := make(chan res, 1)
	go func() {
		var out res
		defer func() {
			if p := recover(); p != nil {
				out.pan = p
			}
			done <- out
		}()
		out.err = s.handler(context.Background(), p2p.Peer{Address: q.requester.overlay, Mode: aurora.NewModel().SetMode(aurora.FullNode)}, st)
	}()
	var out res
	select {
	case out = <-done:
	case <-time.After(60 * time.Second):
		t.Fatalf("harness: handler did not return within 60s for %v", q.describe())
	}
	if out.pan != nil {
		c.Viol("panic-onfindnode", fmt.Sprintf("handler panicked: %v", out.pan), q.describe())
		return nil, false
	}
	if out.err != nil {
		t.Fatalf("harness: handler returned error %v for %v", out.err, q.describe())
	}
	var peers pb.Peers
	rd := protobuf.NewReader(bytes.NewReader(st.reply()))
	if err := rd.ReadMsg(&peers); err != nil {
		t.Fatalf("harness: cannot decode reply: %v", err)
	}
	return &peers, true
}

// judge applies the five clauses of the statement to the reply. It returns shape facts.
func (s *peerSet) judge(run *obs.Run, c *obs.Case, q *request, reply *pb.Peers) (shape string, nontrivial bool) {
	// --- decode what is offered
	var got []replyPeer
	for _, e := range reply.Peers {
		rp := replyPeer{overlay: e.Overlay, cls: clsGrey, po: -1}
		if m, err := ma.NewMultiaddrBytes(e.Underlay); err == nil {
			rp.underlay = m.String()
			rp.cls = classify(rp.underlay)
		}
		if len(e.Overlay) == len(q.target) {
			rp.po = spec.Prox(q.target, e.Overlay, maxPO)
		}
		got = append(got, rp)
	}
	orderSet := map[int]bool{}
	aliasSet := map[int]bool{} // the same values reduced modulo 256 (witness classification only)
	for _, o := range q.orders {
		orderSet[int(o)] = true
		aliasSet[int(uint8(o))] = true
	}
	witness := func() map[string]interface{} {
		w := map[string]interface{}{"request": q.describe(), "peer_set": map[string]interface{}{"connected": s.spec.nConn, "known_not_connected": s.spec.nKnown}}
		var rl []map[string]interface{}
		for _, g := range got {
			e := map[string]interface{}{"overlay": obs.Hex(g.overlay), "underlay": g.underlay, "class": g.cls.String(), "proximity_to_target": g.po}
			for _, p := range s.peers {
				if bytes.Equal(p.overlay.Bytes(), g.overlay) {
					e["role"] = p.role()
				}
			}
			rl = append(rl, e)
		}
		w["reply"] = rl
		if len(s.peers) <= 12 {
			var pl []map[string]interface{}
			for _, p := range s.peers {
				d := p.describe()
				d["overlay"] = p.overlay.String()
				d["proximity_to_target"] = spec.Prox(q.target, p.overlay.Bytes(), maxPO)
				pl = append(pl, d)
			}
			w["peers"] = pl
		}
		return w
	}

	// --- clause 1: never more peers than requested, at most 30 honoured
	allowed := int(q.limit)
	if allowed > maxHonored {
		allowed = maxHonored
	}
	if allowed < 0 {
		allowed = 0 // only reached by the separately keyed negative-limit extra
	}
	if len(got) > allowed {
		c.Viol("reply-exceeds-limit/"+limitKey(q.limit),
			fmt.Sprintf("limit %d requested (at most %d honoured) but the reply holds %d peers", q.limit, maxHonored, len(got)), witness())
	}
	// --- clause 2: never the requester
	for _, g := range got {
		if bytes.Equal(g.overlay, q.requester.overlay.Bytes()) {
			c.Viol("reply-contains-requester", "the reply offers the requester its own address", witness())
			break
		}
	}
	// --- clause 3: only peers whose proximity to the target is among the requested orders
	for _, g := range got {
		run.Stat("order_checks", 1)
		if g.po < 0 || !orderSet[g.po] {
			key := "reply-peer-outside-requested-orders"
			if g.po >= 0 && aliasSet[g.po] {
				key += "/order-value-taken-modulo-256"
			}
			c.Viol(key, fmt.Sprintf("peer %s has proximity %d to the target; requested orders %v", obs.Hex(g.overlay), g.po, q.orders), witness())
			break
		}
	}
	// --- clause 4: never repeats a peer
	seen := map[string]bool{}
	for _, g := range got {
		if seen[string(g.overlay)] {
			c.Viol("reply-repeats-peer", fmt.Sprintf("peer %s is in the reply twice", obs.Hex(g.overlay)), witness())
			break
		}
		seen[string(g.overlay)] = true
	}
	// --- clause 5: no private underlay for a requester with a public address unless allowed
	requesterPublic := q.requester.inBook && q.requester.cls == clsPublic
	nPriv, nGrey := 0, 0
	for _, g := range got {
		switch g.cls {
		case clsPrivate:
			nPriv++
		case clsGrey:
			nGrey++
		}
	}
	if requesterPublic && !q.allowPriv && nPriv > 0 {
		c.Viol("private-underlay-offered-to-public-requester",
			fmt.Sprintf("requester underlay %s is public, private CIDRs are not allowed, yet %d private underlay(s) are offered", q.requester.underlay, nPriv), witness())
	}

	// --- what the monitor saw (model of the peer set: for counting only, never for a verdict)
	eligConn, eligKnown, eligPriv, eligPrivConn, eligPrivKnown := 0, 0, 0, 0, 0
	requesterEligible := false
	for _, p := range s.peers {
		po := spec.Prox(q.target, p.overlay.Bytes(), maxPO)
		if !orderSet[po] || !p.inBook {
			continue
		}
		if p == q.requester {
			requesterEligible = true
			continue
		}
		if p.cls == clsPrivate {
			eligPriv++
			if requesterPublic && !q.allowPriv {
				if p.connected {
					eligPrivConn++
				} else {
					eligPrivKnown++
				}
				continue
			}
		}
		if p.connected {
			eligConn++
		} else {
			eligKnown++
		}
	}
	run.Stat("requests", 1)
	run.Stat("replies_decoded", 1)
	run.Stat("peers_in_replies", int64(len(got)))
	if len(got) > 0 {
		run.Stat("replies_nonempty", 1)
	}
	if allowed > 0 && len(got) == allowed {
		run.Stat("replies_filling_the_limit", 1)
	}
	if q.extra == "" && eligConn+eligKnown > allowed {
		run.Stat("limit_binding_requests", 1) // more candidates than may be returned
	}
	if q.limit > maxHonored && eligConn+eligKnown > maxHonored {
		run.Stat("cap30_binding_requests", 1)
	}
	if requesterEligible {
		run.Stat("requester_was_candidate", 1) // requester is a kademlia peer matching the orders
	}
	if eligConn > 0 {
		run.Stat("repeat_opportunities", 1) // a matching connected peer is also in the known list
	}
	if requesterPublic && !q.allowPriv && eligPrivConn+eligPrivKnown > 0 {
		run.Stat("private_filter_needed", 1) // private candidate matched while requester public, not allowed
		if eligPrivConn > 0 {
			run.Stat("private_filter_needed_connected", 1)
		}
		if eligPrivKnown > 0 {
			run.Stat("private_filter_needed_known", 1)
		}
	}
	if nPriv > 0 {
		run.Stat("replies_with_private_underlays_permitted", 1) // allowed / requester not public: shows the filter is not vacuous
	}
	run.Stat("private_underlays_in_replies", int64(nPriv))
	run.Stat("grey_underlays_in_replies_not_judged", int64(nGrey))
	if q.requester.cls == clsGrey && q.requester.inBook {
		run.Stat("grey_requesters_not_judged", 1)
	}
	if q.extra != "" {
		run.Stat("requests_outside_stated_quantifier", 1)
	}
	nConnIn, nKnownIn := 0, 0
	for _, g := range got {
		for _, p := range s.peers {
			if bytes.Equal(p.overlay.Bytes(), g.overlay) {
				if p.connected {
					nConnIn++
				} else {
					nKnownIn++
				}
			}
		}
	}
	run.Stat("connected_peers_in_replies", int64(nConnIn))
	run.Stat("known_only_peers_in_replies", int64(nKnownIn))

	ord := q.ordMode
	shape = fmt.Sprintf("lim=%s/ord=%s/tgt=%s/req=%s/allow=%v/ec=%s/ek=%s/ep=%s", limitClass(q.limit), ord, q.targetSrc,
		requesterClass(q.requester), q.allowPriv, cls(eligConn), cls(eligKnown), cls(eligPriv))
	nontrivial = eligConn+eligKnown+eligPrivConn+eligPrivKnown > 0 || requesterEligible
	return shape, nontrivial
}

// ---- tests -----------------------------------------------------------------------------

func specFor(r *rand.Rand, i int) setSpec {
	sp := setSpec{nFocus: 2, nHot: 3 + r.Intn(4), pPrivate: 0.35, pGrey: 0.08, pNoBook: 0.05}
	switch i % 8 {
	case 0: // tiny
		sp.nConn, sp.nKnown, sp.nFocus, sp.nHot = r.Intn(3), r.Intn(3), 1, 1+r.Intn(2)
	case 1: // connected only
		sp.nConn, sp.nKnown = 5+r.Intn(30), 0
	case 2: // known only
		sp.nConn, sp.nKnown = 0, 5+r.Intn(30)
	case 3: // big, mostly public, few hot orders: limits and the 30 cap bind
		sp.nConn, sp.nKnown, sp.pPrivate, sp.nFocus, sp.nHot = 40+r.Intn(25), 40+r.Intn(25), 0.1, 1, 2
	case 4: // big, mostly private
		sp.nConn, sp.nKnown, sp.pPrivate, sp.nFocus = 30+r.Intn(25), 30+r.Intn(25), 0.8, 1
	case 5:
		sp.nConn, sp.nKnown, sp.pPrivate = 5+r.Intn(20), 5+r.Intn(20), 0.5
	case 6:
		sp.nConn, sp.nKnown, sp.pNoBook = 10+r.Intn(20), 1+r.Intn(5), 0.3
	default:
		sp.nConn, sp.nKnown, sp.pGrey = 1+r.Intn(5), 10+r.Intn(20), 0.3
	}
	return sp
}

// TestDirectedLimits: every limit 0..40 against dense sets in which every peer matches, and
// against minimal sets (one connected and/or one known peer).
func TestDirectedLimits(t *testing.T) {
	run := obs.Start(t, "C29")
	defer run.Done()
	run.Rule("directed: sets {1 connected}, {1 known}, {1 connected + 1 known}, {3+3}, {40+40} whose peers all match the single requested order; every limit 0..40 x AllowPrivateCIDRs on/off x requester (public outsider / a connected peer); distinct = same shape key as the random test")
	vdb.Register()
	sizes := [][2]int{{1, 0}, {0, 1}, {1, 1}, {3, 3}, {40, 40}}
	reps := run.N(1, 10)
	for rep := 0; rep < reps; rep++ {
		for zi, sz := range sizes {
			var set *peerSet
			sz, zi := sz, zi
			mk := func() *peerSet {
				sr := run.RandFor(fmt.Sprintf("directed/%d/%d", rep, zi))
				// one focus, one hot order, every peer there
				sp := setSpec{nConn: sz[0], nKnown: sz[1], nFocus: 1, nHot: 1, pPrivate: 0.3, dense: true}
				run.Stat("peer_sets", 1)
				return buildSet(t, sr, sp)
			}
			for limit := int32(0); limit <= 40; limit++ {
				for variant := 0; variant < 4; variant++ {
					id := fmt.Sprintf("rep/%d/size/%d+%d/limit/%d/v/%d", rep, sz[0], sz[1], limit, variant)
					c := run.Begin(id, nil)
					if c == nil {
						continue
					}
					if set == nil {
						set = mk()
					}
					q := &request{limit: limit, target: set.focus[0], targetSrc: "focus", orders: []int32{int32(set.hot[0][0])}, ordMode: "single",
						allowPriv: variant&1 == 1, requester: set.outsiders[0]}
					if variant&2 == 2 && sz[0] > 0 {
						q.requester = set.peers[0] // a connected peer
					}
					reply, ok := set.exec(t, c, q)
					if !ok {
						c.End("panic", true)
						continue
					}
					shape, nontriv := set.judge(run, c, q, reply)
					run.Stat("directed_requests", 1)
					c.End("directed/"+shape, nontriv)
				}
			}
			// outside the stated quantifier (own finding keys): a negative limit, and order
			// values that are not an order at all but equal the peers' order modulo 256
			for xi, x := range []struct {
				limit  int32
				orders []int32
				extra  string
			}{{-1, nil, "negative-limit"}, {5, []int32{256, 512}, "order-values-outside-0..255"}} {
				c := run.Begin(fmt.Sprintf("rep/%d/size/%d+%d/extra/%d", rep, sz[0], sz[1], xi), nil)
				if c == nil {
					continue
				}
				if set == nil {
					set = mk()
				}
				q := &request{limit: x.limit, target: set.focus[0], targetSrc: "focus", orders: []int32{int32(set.hot[0][0])}, ordMode: "single",
					requester: set.outsiders[0], extra: x.extra}
				if x.orders != nil {
					q.ordMode = "non-order-values"
					q.orders = []int32{x.orders[0] + int32(set.hot[0][0]), x.orders[1] + int32(set.hot[0][0])}
				}
				reply, ok := set.exec(t, c, q)
				if !ok {
					c.End("panic", true)
					continue
				}
				shape, nontriv := set.judge(run, c, q, reply)
				c.End("directed/"+shape, nontriv)
			}
			if set != nil {
				set.close()
			}
		}
	}
}

// TestRandomRequests: random peer sets x random requests.
func TestRandomRequests(t *testing.T) {
	run := obs.Start(t, "C29")
	defer run.Done()
	run.Rule("peer sets of 8 kinds (tiny / connected only / known only / big public / big private / mixed / address-book gaps / grey underlays) around 1-2 focus targets with 'hot' proximity orders (incl. 24..31); per set 50 requests: limit 0..40 (weights on 0,1,2,3,30,31..40), target focus/peer/requester/base/random, order list empty/all/single/subset/wide/duplicates/consecutive/32..255, requester = public v4/v6, private, grey, absent from address book, a connected peer, a known peer; AllowPrivateCIDRs on 35%. distinct = (limit class, order-list mode, target source, requester class, allow, #matching connected, #matching known, #matching private classes); non-trivial = at least one kademlia peer (or the requester) matches the requested orders",
		"requester 'has a public address' = its address-book underlay is a plain /ip4 or /ip6 address that is global unicast outside every special-purpose range (decided with net.IP, not manet)",
		"'private-network address' = 10/8, 172.16/12, 192.168/16, 127/8, ::1, fc00::/7, fe80::/10; dns, circuit, 100.64/10, 169.254/16, documentation nets, v4-mapped v6 are in the workload but only counted",
		"the kademlia instance is not started: no manage loop, no dial-outs, so the peer sets are fixed while requests run",
		"~7% of requests are outside the stated quantifier (negative limit, limit > 40, order values outside 0..255); they get their own finding keys")
	vdb.Register()
	nSets := run.N(40, 1500)
	const perSet = 50
	for si := 0; si < nSets; si++ {
		var set *peerSet
		for ri := 0; ri < perSet; ri++ {
			id := fmt.Sprintf("set/%d/req/%d", si, ri)
			c := run.Begin(id, nil)
			if c == nil {
				continue
			}
			if set == nil { // built lazily so that a single replayed case rebuilds the same set
				sr := run.RandFor(fmt.Sprintf("set/%d", si))
				set = buildSet(t, sr, specFor(sr, si))
				run.Stat("peer_sets", 1)
				run.Stat("kademlia_connected_peers", int64(set.spec.nConn))
				run.Stat("kademlia_known_only_peers", int64(set.spec.nKnown))
			}
			q := set.genRequest(c.Rand())
			reply, ok := set.exec(t, c, q)
			if !ok {
				c.End("panic", true)
				continue
			}
			shape, nontriv := set.judge(run, c, q, reply)
			if si < 3 && ri < 2 {
				run.Sample(map[string]interface{}{"request": q.describe(), "reply_peers": len(reply.Peers), "shape": shape})
			}
			c.End(shape, nontriv)
		}
		if set != nil {
			set.close()
		}
	}
}
