package c15

import (
	"context"
	"fmt"
	"sort"
	"strings"
	"testing"

	"github.com/gauss-project/aurorafs/pkg/boson"

	"verif/harness/internal/fsim"
	"verif/harness/internal/obs"
)

type opRec struct {
	Op   string `json:"op"`
	File int    `json:"file"`
	Via  string `json:"via"` // svc | http | upload
	Note string `json:"note,omitempty"`
}

func pinsString(m map[string]uint64) string {
	var out []string
	for k, v := range m {
		out = append(out, fmt.Sprintf("%s:%d", k[:8], v))
	}
	sort.Strings(out)
	return strings.Join(out, " ")
}

func diff(after, before map[string]uint64) map[string]int64 {
	d := map[string]int64{}
	for k, v := range after {
		if dv := int64(v) - int64(before[k]); dv != 0 {
			d[k] = dv
		}
	}
	for k, v := range before {
		if _, ok := after[k]; !ok {
			d[k] = -int64(v)
		}
	}
	return d
}

func equalPins(a, b map[string]uint64) bool {
	if len(a) != len(b) {
		return false
	}
	for k, v := range a {
		if b[k] != v {
			return false
		}
	}
	return true
}

// four shards so the orchestrator can run them as parallel child processes
func TestShard0(t *testing.T) { histories(t, 0) }
func TestShard1(t *testing.T) { histories(t, 1) }
func TestShard2(t *testing.T) { histories(t, 2) }
func TestShard3(t *testing.T) { histories(t, 3) }

func histories(t *testing.T, shard int) {
	run := obs.Start(t, "C15")
	defer run.Done()
	run.Rule("histories of 14 pin/unpin/list operations over 3..5 locally stored files that share 256 KiB blocks and contain repeated blocks, through pinning.Service (CreatePin with traversal / DeletePin) and through the HTTP endpoints, including pins made at upload time; every third history adds two nested references (one data chunk of f0 as a reference of its own, and the file reference inside f0's manifest), whose root chunk is also a chunk of f0; after every operation the whole pin index is dumped; a pin records its effect D = after - before, the matching unpin must subtract exactly D, repeats must change nothing, HasPin/Pins must list exactly the references whose last operation was a pin; distinct = (files sharing?, repeated chunk?, op kinds, vias)",
		"collection out of reach (capacity 10^6)")
	n := run.N(200, 2000)
	for i := shard; i < n; i += 4 {
		c := run.Begin(fmt.Sprintf("hist/%d", i), nil)
		if c == nil {
			continue
		}
		rng := c.Rand()
		w, err := fsim.NewWorld(1000000)
		if err != nil {
			t.Fatal(err)
		}
		var files []*fsim.File
		nf := 3 + rng.Intn(3)
		repeated := false
		for len(files) < nf {
			nb := 1 + rng.Intn(3)
			blocks := make([]int, nb)
			for k := range blocks {
				blocks[k] = rng.Intn(5)
			}
			if nb >= 2 && rng.Intn(3) == 0 {
				blocks[nb-1] = blocks[0]
				repeated = true
			}
			last := []int{fsim.CS, 1000}[rng.Intn(2)]
			f, err := w.NewFile(blocks, last)
			if err != nil {
				t.Fatal(err)
			}
			dup := false
			for _, g := range files {
				if g == f {
					dup = true
				}
			}
			if !dup {
				files = append(files, f)
			}
		}
		// nested references (every third history): a data chunk of f0 taken as a reference of
		// its own, and the file reference the manifest of f0 points to. Their root chunk is
		// also a chunk of the outer reference f0.
		parent := map[int]int{}
		alias := map[int]bool{} // nested reference that turned out to be the same reference as another one
		if i%3 == 1 {
			f0 := files[0]
			lf := f0.Leaves[rng.Intn(len(f0.Leaves))]
			files = append(files, &fsim.File{ID: 100, Name: "data chunk of f0", Root: boson.MustParseHexAddress(lf), Chunks: map[string]bool{lf: true}, Leaves: []string{lf}})
			parent[len(files)-1] = 0
			files = append(files, &fsim.File{ID: 101, Name: "file reference inside the manifest of f0"}) // filled in when f0 is stored
			parent[len(files)-1] = 0
			run.Stat("histories_with_nested_references", 1)
		}
		var hist []opRec
		witness := func(extra map[string]interface{}) map[string]interface{} {
			var fd []map[string]interface{}
			for _, f := range files {
				fd = append(fd, f.Desc())
			}
			o := map[string]interface{}{"files": fd, "history": append([]opRec(nil), hist...)}
			for k, v := range extra {
				o[k] = v
			}
			return o
		}
		stored := make([]bool, len(files))
		pinned := make([]bool, len(files))             // last operation on the reference was a pin
		effect := make([]map[string]int64, len(files)) // D recorded at pin time
		kinds := map[string]bool{}
		pins := func() map[string]uint64 {
			s, err := fsim.Dump(w.N)
			if err != nil {
				t.Fatal(err)
			}
			return s.Pins
		}
		ctx := context.Background()
		checkListing := func(after string) {
			got, err := w.N.Pin.Pins()
			if err != nil {
				c.Viol("pins-listing-error", err.Error(), witness(nil))
				return
			}
			gs := map[string]bool{}
			for _, a := range got {
				gs[a.String()] = true
			}
			for fi, f := range files {
				if f.Chunks == nil {
					continue // nested reference not materialised yet
				}
				has, err := w.N.Pin.HasPin(f.Root)
				if err != nil {
					c.Viol("haspin-error", err.Error(), witness(nil))
					continue
				}
				if has != pinned[fi] {
					c.Viol("haspin-disagrees-with-last-operation-after-"+after, fmt.Sprintf("HasPin(f%d)=%v but the last operation on it was pin=%v", fi, has, pinned[fi]), witness(nil))
				}
				if gs[f.Root.String()] != pinned[fi] {
					c.Viol("pins-list-disagrees-with-last-operation-after-"+after, fmt.Sprintf("Pins() lists f%d=%v but the last operation on it was pin=%v", fi, gs[f.Root.String()], pinned[fi]), witness(nil))
				}
				run.Stat("listing_checks", 1)
			}
		}
	ops:
		for k := 0; k < 14; k++ {
			fi := rng.Intn(len(files))
			f := files[fi]
			if p, nested := parent[fi]; nested && !stored[fi] {
				// a nested reference exists once its outer file is stored
				if !stored[p] {
					hist = append(hist, opRec{Op: "upload", File: p, Via: "pin=false"})
					if err := w.Upload(files[p], false); err != nil {
						t.Fatalf("upload: %v", err)
					}
					stored[p] = true
				}
				if alias[fi] {
					continue
				}
				if f.Chunks == nil {
					ref, err := w.EntryRef(files[p])
					if err != nil {
						t.Fatalf("entry reference: %v", err)
					}
					same := false
					for _, g := range files {
						if g.Chunks != nil && g.Root.Equal(ref) {
							same = true // one-chunk file: the file reference is the data chunk itself
						}
					}
					if same {
						alias[fi] = true
						continue
					}
					f.Root, f.Chunks = ref, map[string]bool{}
					if err := w.N.Trav.Traverse(ctx, ref, func(a boson.Address) error { f.Chunks[a.String()] = true; return nil }); err != nil {
						t.Fatalf("traverse entry reference: %v", err)
					}
					for ch := range f.Chunks {
						if !files[p].Chunks[ch] {
							t.Fatalf("chunk %s of the inner file reference is no chunk of the outer file", ch[:8])
						}
					}
				}
				stored[fi] = true
			}
			if !stored[fi] {
				// store it first: plain upload, or upload pinned at upload time (= a pin via upload)
				pinAtUpload := rng.Intn(4) == 0
				before := pins()
				hist = append(hist, opRec{Op: "upload", File: fi, Via: fmt.Sprint("pin=", pinAtUpload)})
				if err := w.Upload(f, pinAtUpload); err != nil {
					t.Fatalf("upload: %v", err)
				}
				stored[fi] = true
				after := pins()
				if pinAtUpload {
					kinds["pin/upload"] = true
					pinned[fi] = true
					effect[fi] = diff(after, before)
					for ch := range f.Chunks {
						if after[ch] == 0 {
							c.Viol("pinned-upload-leaves-chunk-unpinned", fmt.Sprintf("chunk %s of f%d has no pin after an upload with the pin header", ch[:8], fi), witness(nil))
							break
						}
					}
					checkListing("pinned-upload")
				} else if !equalPins(before, after) {
					c.Viol("plain-upload-changes-pin-index", "pin index changed by an upload without the pin header: "+pinsString(before)+" -> "+pinsString(after), witness(nil))
				}
				continue
			}
			via := []string{"svc", "http"}[rng.Intn(2)]
			wantPin := rng.Intn(2) == 0
			before := pins()
			var opErr string
			if wantPin {
				hist = append(hist, opRec{Op: "pin", File: fi, Via: via})
				if via == "svc" {
					if err := w.N.Pin.CreatePin(ctx, f.Root, true); err != nil {
						opErr = err.Error()
					}
				} else if code := w.N.PinHTTP(f.Root); code != 200 && code != 201 {
					opErr = fmt.Sprint("status ", code)
				}
			} else {
				hist = append(hist, opRec{Op: "unpin", File: fi, Via: via})
				if via == "svc" {
					if err := w.N.Pin.DeletePin(ctx, f.Root); err != nil {
						opErr = err.Error()
					}
				} else if code := w.N.UnpinHTTP(f.Root); code != 200 && !(code == 404 && !pinned[fi]) {
					opErr = fmt.Sprint("status ", code)
				}
			}
			after := pins()
			hist[len(hist)-1].Note = opErr
			kinds[hist[len(hist)-1].Op+"/"+via] = true
			run.Stat("pin_index_dumps_compared", 1)
			switch {
			case wantPin && !pinned[fi]:
				// first pin: all chunks of the file pinned
				if opErr != "" {
					c.Viol("pin-of-stored-reference-fails-"+via, "pin failed: "+opErr, witness(nil))
					break ops
				}
				for ch := range f.Chunks {
					if after[ch] == 0 {
						c.Viol("pin-leaves-chunk-unpinned-"+via, fmt.Sprintf("chunk %s of f%d has no pin after pinning the file", ch[:8], fi), witness(nil))
						break
					}
				}
				effect[fi] = diff(after, before)
				pinned[fi] = true
				run.Stat("first_pins", 1)
			case wantPin && pinned[fi]:
				// repeated pin: no further effect
				if !equalPins(before, after) {
					c.Viol("repeated-pin-changes-pin-counts-"+via, "pin index before "+pinsString(before)+" after "+pinsString(after), witness(nil))
					// keep the model in step with the implementation: the extra effect belongs to this reference
					for ch, d := range diff(after, before) {
						effect[fi][ch] += d
					}
				}
				run.Stat("repeated_pins", 1)
			case !wantPin && pinned[fi]:
				// unpin: every chunk's count returns to its value before the pin
				if opErr != "" {
					c.Viol("unpin-of-pinned-reference-fails-"+via, "unpin failed: "+opErr, witness(nil))
				}
				want := map[string]uint64{}
				for ch, v := range before {
					want[ch] = v
				}
				bad := false
				for ch, d := range effect[fi] {
					nv := int64(want[ch]) - d
					if nv < 0 {
						bad = true
						nv = 0
					}
					if nv == 0 {
						delete(want, ch)
					} else {
						want[ch] = uint64(nv)
					}
				}
				if bad || !equalPins(want, after) {
					key := "unpin-does-not-restore-pin-counts-" + via
					if opErr != "" {
						key = "failed-unpin-leaves-partial-pin-state-" + via
					}
					c.Viol(key, "expected "+pinsString(want)+" got "+pinsString(after), witness(nil))
				}
				pinned[fi] = false
				effect[fi] = nil
				run.Stat("unpins", 1)
			default:
				// repeated unpin (or unpin of a never pinned reference): nothing changes
				if !equalPins(before, after) {
					c.Viol("repeated-unpin-changes-pin-counts-"+via, "pin index before "+pinsString(before)+" after "+pinsString(after), witness(nil))
				}
				run.Stat("repeated_unpins", 1)
			}
			checkListing(hist[len(hist)-1].Op)
		}
		w.Close()
		shared := false
		for a := 0; a < len(files); a++ {
			for b := a + 1; b < len(files); b++ {
				for ch := range files[a].Chunks {
					if files[b].Chunks[ch] {
						shared = true
					}
				}
			}
		}
		var ks []string
		for k := range kinds {
			ks = append(ks, k)
		}
		sort.Strings(ks)
		c.End(fmt.Sprintf("shared=%v/repeated=%v/%s", shared, repeated, strings.Join(ks, "+")), true)
		if i < 2 {
			run.Sample(witness(nil))
		}
	}
	_ = boson.ZeroAddress
}
