package c03

import (
	"bytes"
	"encoding/binary"
	"fmt"
	"math/rand"
	"runtime"
	"sync"
	"sync/atomic"
	"testing"

	"github.com/gauss-project/aurorafs/pkg/bmt"
	"github.com/gauss-project/aurorafs/pkg/bmtpool"
	"github.com/gauss-project/aurorafs/pkg/boson"
	"verif/harness/internal/obs"
	"verif/harness/internal/spec"
)

// ---------------------------------------------------------------------------------
// pools under test

type poolKind struct {
	name     string
	segments int
	get      func() *bmt.Hasher
	put      func(*bmt.Hasher)
}

func (p poolKind) capBytes() int { return p.segments * 32 }

func smallPool(capacity int) poolKind {
	p := bmt.NewPool(bmt.NewConf(boson.NewHasher, 128, capacity))
	return poolKind{name: "seg128", segments: 128, get: p.Get, put: p.Put}
}

func prodPool() poolKind {
	return poolKind{name: "bmtpool8192", segments: boson.BmtBranches, get: bmtpool.Get, put: bmtpool.Put}
}

// ---------------------------------------------------------------------------------
// inputs

type hashJob struct {
	Len     int    `json:"len"`
	Fill    string `json:"fill"`
	Header  string `json:"header_hex"`
	HdrKind string `json:"header_kind"`
	Split   string `json:"split_kind"`
	Pieces  []int  `json:"pieces"`
	ViaSum  bool   `json:"via_sum"`
	// Scratch: every piece is copied into ONE reused buffer, written from there, and the
	// buffer is overwritten as soon as Write has returned (io.Writer: Write must not retain p)
	Scratch bool `json:"written_through_a_reused_scratch_buffer"`
	data    []byte
	span    []byte
}

func fillData(rng *rand.Rand, n int, kind int) ([]byte, string) {
	d := make([]byte, n)
	switch kind % 8 {
	case 0:
		return d, "zeros"
	case 1:
		for i := range d {
			d[i] = 0xff
		}
		return d, "ff"
	default:
		rng.Read(d)
		// never let the last byte be zero: a stale-tail or padding bug must change the digest
		if n > 0 && d[n-1] == 0 {
			d[n-1] = 0xa5
		}
		return d, "random"
	}
}

func header(rng *rand.Rand, kind int, n int) ([]byte, string) {
	s := make([]byte, 8)
	switch kind % 4 {
	case 0:
		return s, "zero"
	case 1:
		binary.LittleEndian.PutUint64(s, uint64(n))
		return s, "len"
	case 2:
		for i := range s {
			s[i] = 0xff
		}
		return s, "max"
	default:
		rng.Read(s)
		return s, "random"
	}
}

// splitKinds: how a data length is cut into Write calls.
var splitKinds = []string{"one", "random", "sectionish", "tiny"}

func split(rng *rand.Rand, kind string, n int) []int {
	switch kind {
	case "one":
		return []int{n}
	case "random":
		k := 1 + rng.Intn(6)
		cuts := make([]int, 0, k+1)
		for i := 0; i < k; i++ {
			cuts = append(cuts, rng.Intn(n+1))
		}
		return piecesFromCuts(cuts, n, rng.Intn(3) == 0)
	case "sectionish":
		// cuts on or one byte around segment (32) / section (64) boundaries
		k := 1 + rng.Intn(5)
		cuts := make([]int, 0, k)
		for i := 0; i < k; i++ {
			c := 32*rng.Intn(n/32+1) + rng.Intn(3) - 1
			if c < 0 {
				c = 0
			}
			if c > n {
				c = n
			}
			cuts = append(cuts, c)
		}
		return piecesFromCuts(cuts, n, false)
	default: // tiny: 1..3 byte writes over the first (at most) 200 bytes, the rest in one piece
		var p []int
		rest := n
		for rest > 0 && n-rest < 200 {
			w := 1 + rng.Intn(3)
			if w > rest {
				w = rest
			}
			p = append(p, w)
			rest -= w
		}
		if rest > 0 || len(p) == 0 {
			p = append(p, rest)
		}
		return p
	}
}

func piecesFromCuts(cuts []int, n int, withEmpty bool) []int {
	// sort small slice
	for i := 1; i < len(cuts); i++ {
		for j := i; j > 0 && cuts[j] < cuts[j-1]; j-- {
			cuts[j], cuts[j-1] = cuts[j-1], cuts[j]
		}
	}
	var p []int
	prev := 0
	for _, c := range cuts {
		if c == prev && !withEmpty {
			continue
		}
		p = append(p, c-prev)
		prev = c
	}
	p = append(p, n-prev)
	if withEmpty {
		p = append(p, 0)
	}
	return p
}

func lenClass(n, capBytes int) string {
	switch {
	case n == 0:
		return "empty"
	case n == capBytes:
		return "at-capacity"
	case n%64 == 0:
		return "section-aligned"
	}
	return "partial-last-section"
}

// ---------------------------------------------------------------------------------
// driving one Reset→SetHeader→Write*→Hash cycle on a hasher and judging it

var scratchCycles atomic.Int64 // cycles written through a reused scratch buffer

func runCycle(h *bmt.Hasher, j *hashJob) (digest []byte, problem string) {
	h.Reset()
	if j.HdrKind == "len" && j.ViaSum {
		h.SetHeaderInt64(int64(j.Len))
	} else {
		h.SetHeader(j.span)
	}
	off := 0
	j.Scratch = len(j.Pieces) > 1 && (j.Len+len(j.Pieces))%2 == 1
	var scratch []byte
	if j.Scratch {
		scratchCycles.Add(1)
		for _, w := range j.Pieces {
			if w > len(scratch) {
				scratch = make([]byte, w)
			}
		}
	}
	for _, w := range j.Pieces {
		piece := j.data[off : off+w]
		if j.Scratch {
			copy(scratch, piece)
			piece = scratch[:w]
		}
		n, err := h.Write(piece)
		if j.Scratch {
			for i := range scratch {
				scratch[i] = 0xA5
			}
		}
		if err != nil {
			return nil, fmt.Sprintf("Write returned error %v", err)
		}
		if n != w {
			return nil, fmt.Sprintf("Write(%d bytes) consumed %d within capacity", w, n)
		}
		off += w
	}
	if j.ViaSum {
		return h.Sum(nil), ""
	}
	d, err := h.Hash(nil)
	if err != nil {
		return nil, fmt.Sprintf("Hash returned error %v", err)
	}
	return d, ""
}

type viol interface {
	Viol(key, msg string, witness interface{})
}

// judge compares with the oracle value; clause names the way the hasher was obtained.
func judge(v viol, clause string, p poolKind, j *hashJob, got []byte, problem string, want []byte, extra map[string]interface{}) bool {
	if problem == "" && bytes.Equal(got, want) {
		return true
	}
	w := map[string]interface{}{"pool": p.name, "job": j, "got": obs.Hex(got), "want": obs.Hex(want)}
	for k, x := range extra {
		w[k] = x
	}
	if problem != "" {
		v.Viol("hasher-error-"+clause, problem, w)
		return false
	}
	v.Viol("digest-mismatch-"+clause+"/"+lenClass(j.Len, p.capBytes()),
		fmt.Sprintf("%s: len=%d header=%s split=%s: digest %x, keccak256(span||merkle root of zero-padded data) = %x",
			p.name, j.Len, j.HdrKind, j.Split, got, want), w)
	return false
}

func mkJob(rng *rand.Rand, n, fillKind, hdrKind int, splitKind string) *hashJob {
	data, fill := fillData(rng, n, fillKind)
	return mkJobFrom(rng, data, fill, hdrKind, splitKind)
}

// mkJobFrom makes a job over given data (so the oracle's Merkle root can be shared by the
// jobs that differ in header and write split only).
func mkJobFrom(rng *rand.Rand, data []byte, fill string, hdrKind int, splitKind string) *hashJob {
	n := len(data)
	j := &hashJob{Len: n, Split: splitKind, data: data, Fill: fill}
	j.span, j.HdrKind = header(rng, hdrKind, n)
	j.Header = fmt.Sprintf("%x", j.span)
	j.Pieces = split(rng, splitKind, n)
	j.ViaSum = rng.Intn(4) == 0
	return j
}

func setPerturb(mode int, seed uint64) string {
	switch mode % 3 {
	case 1:
		cur = &pcfg{seed: seed, pYield: 300, pSleep: 0, maxSleepUs: 1}
		return "yield"
	case 2:
		cur = &pcfg{seed: seed, pYield: 150, pSleep: 40, maxSleepUs: 30}
		return "yield+sleep"
	}
	cur = nil
	return "none"
}

// ---------------------------------------------------------------------------------

// every length 0..4096 on a 128-segment pool
func TestSmallPoolEveryLengthA(t *testing.T) { smallPoolEveryLength(t, 0) }
func TestSmallPoolEveryLengthB(t *testing.T) { smallPoolEveryLength(t, 1) }
func TestSmallPoolEveryLengthC(t *testing.T) { smallPoolEveryLength(t, 2) }

// the blocks of 64 lengths are dealt to three shards (parallel child processes)
func smallPoolEveryLength(t *testing.T, shard int) {
	run := obs.Start(t, "C03")
	defer run.Done()
	defer func() { run.Stat("cycles_through_reused_scratch_buffer", scratchCycles.Swap(0)) }()
	run.Rule("128-segment pool (capacity 3): EVERY data length 0..4096, each with 3 write splits (one write; random cuts incl. zero-length writes; cuts around 32/64-byte boundaries or 1..3-byte writes) x header kinds {zero,len,2^64-1,random} (quick: one header kind per split, rotating with the length; thorough: all four); hashers alternately fresh from the pool and the same object after Reset; distinct = (length, split kind); blocks of 64 lengths alternate no / seeded-yield / yield+sleep perturbation at the H8 points",
		"abandoning a hasher mid-hash is API misuse and never done", "headers are always set with 8 bytes")
	installHooks()
	defer func() { cur = nil }()
	p := smallPool(3)
	capB := p.capBytes()
	headersPerSplit := run.N(1, 4)
	var evals, cross int64
	for b := shard; b <= capB/64; b += 3 {
		lo, hi := b*64, b*64+63
		if hi > capB {
			hi = capB
		}
		c := run.Begin(fmt.Sprintf("len/%d-%d", lo, hi), map[string]interface{}{"pool": p.name, "lengths": []int{lo, hi}})
		if c == nil {
			continue
		}
		rng := c.Rand()
		mode := setPerturb(b/3, uint64(run.Seed())<<20^uint64(b))
		var held *bmt.Hasher
		for n := lo; n <= hi; n++ {
			data, fill := fillData(rng, n, rng.Intn(8))
			root := spec.BMTRoot(data, p.segments)
			kinds := []string{"one", "random", []string{"sectionish", "tiny"}[n%2]}
			for hk := 0; hk < headersPerSplit; hk++ {
				for si, sk := range kinds {
					// quick: one header per split, rotating so that every (header, split) pair
					// occurs every 4 lengths; thorough: all 4 headers for every split
					j := mkJobFrom(rng, data, fill, n+si+hk, sk)
					want := spec.Keccak256(j.span, root)
					if (n+hk)%97 == 0 && si == 0 {
						if plain := spec.BMTSegments(j.span, j.data, p.segments); !bytes.Equal(plain, want) {
							t.Fatalf("oracle self-check failed: sparse evaluation != BMTSegments for len %d", n)
						}
						cross++
					}
					clause := "fresh-hasher"
					var h *bmt.Hasher
					if held != nil {
						h, clause = held, "after-reset"
					} else {
						h = p.get()
					}
					got, problem := runCycle(h, j)
					judge(c, clause, p, j, got, problem, want, map[string]interface{}{"perturbation": mode})
					// keep the object for the next cycle two times out of three
					if rng.Intn(3) == 0 {
						p.put(h)
						held = nil
					} else {
						held = h
					}
					evals++
					run.Tally(fmt.Sprintf("%s/len=%d/%s", p.name, n, sk), true)
				}
			}
		}
		if held != nil {
			p.put(held)
		}
		cur = nil
		c.End(fmt.Sprintf("%s/block=%d/%s", p.name, b, mode), true)
	}
	run.Stat("hashes_small_pool_every_length", evals)
	run.Stat("oracle_crosschecks", cross)
	run.Sample(map[string]interface{}{"kind": "every length", "pool": "128 segments", "lengths": "0..4096", "headers_per_split": headersPerSplit, "splits": 3})
}

func prodLengths(rng *rand.Rand, capB int, nRandom int, denseTail int, thinTail bool) []int {
	set := map[int]bool{}
	for _, n := range []int{0, 1, 2, 31, 32, 33, 63, 64, 65, 95, 96, 97, 127, 128, 129} {
		set[n] = true
	}
	for k := 1; k <= 13; k++ {
		for _, d := range []int{-1, 0, 1} {
			if n := (1<<uint(k))*32 + d; n >= 0 && n <= capB {
				set[n] = true
			}
		}
	}
	for n := capB - denseTail; n <= capB; n++ {
		// quick tier: the tail below capacity is thinned to the segment/section edges and every 8th length
		if d := capB - n; thinTail && d > 2 && d%8 != 0 && (d < 31 || d > 33) && d != 63 {
			continue
		}
		set[n] = true
	}
	for i := 0; i < nRandom; i++ {
		set[rng.Intn(capB+1)] = true
	}
	out := make([]int, 0, len(set))
	for n := range set {
		out = append(out, n)
	}
	// deterministic order
	for i := 1; i < len(out); i++ {
		for j := i; j > 0 && out[j] < out[j-1]; j-- {
			out[j], out[j-1] = out[j-1], out[j]
		}
	}
	return out
}

// boundary-dense and random lengths on the production pool (pkg/bmtpool)
func TestProdPoolBoundaries(t *testing.T) {
	run := obs.Start(t, "C03")
	defer run.Done()
	defer func() { run.Stat("cycles_through_reused_scratch_buffer", scratchCycles.Swap(0)) }()
	run.Rule("production pool bmtpool (8192 segments, 256 KiB): lengths 0,1,31..33,63..65,95..97,127..129, 2^k*32-1/+0/+1 (k=1..13), cap-64..cap (quick: thinned to the segment/section edges and every 8th), plus random lengths; 3 write splits per length (quick: 1 split for most lengths above 8 KiB) with rotating header kinds; hashers from bmtpool.Get/Put, every third reused after Reset; distinct = (length, split kind)")
	installHooks()
	defer func() { cur = nil }()
	p := prodPool()
	capB := p.capBytes()
	lrng := run.RandFor("prod-lengths")
	lengths := prodLengths(lrng, capB, run.N(8, 100), run.N(64, 128), !run.Thorough())
	var evals, cross int64
	for idx, n := range lengths {
		c := run.Begin(fmt.Sprintf("len/%d", n), map[string]interface{}{"pool": p.name, "len": n})
		if c == nil {
			continue
		}
		rng := c.Rand()
		mode := setPerturb(idx, uint64(run.Seed())<<24^uint64(n))
		var held *bmt.Hasher
		kinds := []string{"one", "random", []string{"sectionish", "tiny"}[idx%2]}
		if d := capB - n; !run.Thorough() && n > 8192+1 && d > 1 && d != 64 && d != 63 && (d < 31 || d > 33) && n&(n-1) != 0 {
			kinds = kinds[idx%3 : idx%3+1]
		}
		data, fill := fillData(rng, n, 2+rng.Intn(6))
		root := spec.BMTRoot(data, p.segments)
		for si, sk := range kinds {
			j := mkJobFrom(rng, data, fill, idx+si, sk)
			want := spec.Keccak256(j.span, root)
			if idx%12 == 0 && si == 0 {
				if plain := spec.BMT(j.span, j.data); !bytes.Equal(plain, want) {
					t.Fatalf("oracle self-check failed: sparse evaluation != BMT for len %d", n)
				}
				cross++
			}
			clause := "fresh-hasher"
			var h *bmt.Hasher
			if held != nil {
				h, clause = held, "after-reset"
			} else {
				h = p.get()
			}
			got, problem := runCycle(h, j)
			judge(c, clause, p, j, got, problem, want, map[string]interface{}{"perturbation": mode})
			if si == 0 && idx%3 == 0 {
				held = h
			} else {
				p.put(h)
				held = nil
			}
			evals++
			run.Tally(fmt.Sprintf("%s/len=%d/%s", p.name, n, sk), true)
		}
		if held != nil {
			p.put(held)
		}
		cur = nil
		c.End(fmt.Sprintf("%s/len=%d", p.name, n), true)
	}
	run.Stat("hashes_prod_pool_boundaries", evals)
	run.Stat("oracle_crosschecks", cross)
	run.Sample(map[string]interface{}{"kind": "production pool", "lengths": len(lengths), "first": lengths[:12], "last": lengths[len(lengths)-6:]})
}

// the same hasher object / the same tree reused in adversarial orders
func TestReuseSmallPool(t *testing.T) { reuse(t, 0) }
func TestReuseProdPool(t *testing.T)  { reuse(t, 1) }

func reuse(t *testing.T, which int) {
	run := obs.Start(t, "C03")
	defer run.Done()
	defer func() { run.Stat("cycles_through_reused_scratch_buffer", scratchCycles.Swap(0)) }()
	run.Rule("reuse sequences: one pool of capacity 1 (so Get always returns the same tree); each sequence is 12..24 complete cycles whose lengths follow adversarial patterns (full 0xff/random chunk then short; shrinking; growing; same length twice; partial write + more writes; zero-length writes; write to capacity in two pieces; empty input after long input); between cycles the hasher is either Reset and reused or Put back and fetched again; distinct = (pool, pattern, reuse way)",
		"every cycle is complete: Reset, SetHeader (8 bytes), writes, Hash/Sum")
	installHooks()
	defer func() { cur = nil }()
	pools := []poolKind{smallPool(1), prodPool()}[which : which+1]
	patterns := []string{"long-then-short", "shrinking", "growing", "same-twice", "cap-in-two", "empty-after-long", "random"}
	var evals int64
	for _, p := range pools {
		pi := which
		capB := p.capBytes()
		nseq := run.N(140, 2100)
		cyc := 24
		if p.segments > 128 {
			nseq = run.N(7, 40)
			cyc = run.N(6, 12)
		}
		for s := 0; s < nseq; s++ {
			pat := patterns[s%len(patterns)]
			c := run.Begin(fmt.Sprintf("seq/%s/%d", p.name, s), map[string]interface{}{"pool": p.name, "pattern": pat})
			if c == nil {
				continue
			}
			rng := c.Rand()
			mode := setPerturb(s/len(patterns), uint64(run.Seed())<<24^uint64(pi)<<20^uint64(s))
			viaPool := s/len(patterns)%2 == 1 // Put/Get between cycles instead of Reset on the same object
			var lens []int
			ncyc := cyc/2 + rng.Intn(cyc/2+1)
			switch pat {
			case "long-then-short":
				for i := 0; i < ncyc; i++ {
					if i%2 == 0 {
						lens = append(lens, capB-rng.Intn(70))
					} else {
						lens = append(lens, rng.Intn(200))
					}
				}
			case "shrinking":
				n := capB
				for i := 0; i < ncyc; i++ {
					lens = append(lens, n)
					n -= 1 + rng.Intn(capB/ncyc)
					if n < 0 {
						n = 0
					}
				}
			case "growing":
				n := rng.Intn(3)
				for i := 0; i < ncyc; i++ {
					lens = append(lens, n)
					n += 1 + rng.Intn(capB/ncyc)
					if n > capB {
						n = capB
					}
				}
			case "same-twice":
				for i := 0; i < ncyc; i += 2 {
					n := rng.Intn(capB + 1)
					lens = append(lens, n, n)
				}
			case "cap-in-two":
				for i := 0; i < ncyc; i++ {
					if i%2 == 0 {
						lens = append(lens, capB)
					} else {
						lens = append(lens, 1+rng.Intn(capB-1))
					}
				}
			case "empty-after-long":
				for i := 0; i < ncyc; i++ {
					switch i % 3 {
					case 0:
						lens = append(lens, capB-rng.Intn(capB/2))
					case 1:
						lens = append(lens, 0)
					default:
						lens = append(lens, 1+rng.Intn(64))
					}
				}
			default:
				for i := 0; i < ncyc; i++ {
					lens = append(lens, rng.Intn(capB+1))
				}
			}
			h := p.get()
			clause := "fresh-hasher"
			var history []map[string]interface{}
			for i, n := range lens {
				sk := splitKinds[rng.Intn(len(splitKinds))]
				j := mkJob(rng, n, 1+rng.Intn(7), rng.Intn(4), sk)
				if pat == "cap-in-two" && n == capB {
					cut := 1 + rng.Intn(capB-1)
					j.Pieces, j.Split = []int{cut, capB - cut}, "two-pieces"
				}
				want := spec.BMTFast(j.span, j.data, p.segments)
				got, problem := runCycle(h, j)
				history = append(history, map[string]interface{}{"len": n, "fill": j.Fill, "split": j.Split, "pieces": len(j.Pieces)})
				if len(history) > 4 {
					history = history[1:]
				}
				judge(c, clause, p, j, got, problem, want, map[string]interface{}{
					"perturbation": mode, "cycle": i, "pattern": pat, "previous_cycles_then_this": history, "put_get_between_cycles": viaPool})
				if viaPool {
					p.put(h)
					h = p.get()
					clause = "tree-reused-through-pool"
				} else {
					clause = "after-reset"
				}
				evals++
			}
			p.put(h)
			cur = nil
			way := "reset"
			if viaPool {
				way = "put-get"
			}
			c.End(fmt.Sprintf("%s/%s/%s/%s", p.name, pat, way, mode), true)
		}
	}
	run.Stat("hashes_reuse_sequences", evals)
}

// arrival orders actually produced (recording mode: the callback takes a mutex, so this
// test is about observing schedules, the others about racing)
func TestArrivalOrders(t *testing.T) {
	run := obs.Start(t, "C03")
	defer run.Done()
	defer func() { run.Stat("cycles_through_reused_scratch_buffer", scratchCycles.Swap(0)) }()
	run.Rule("128-segment pool, one hash at a time, recording at the H8 points the order in which section goroutines start and reach joins, under seeded yields/sleeps and GOMAXPROCS 2/16; distinct = (GOMAXPROCS, length class, perturbation); monitor counters report distinct arrival-order signatures")
	installHooks()
	defer func() { cur = nil }()
	defer runtime.GOMAXPROCS(runtime.GOMAXPROCS(0))
	p := smallPool(2)
	capB := p.capBytes()
	sigs := map[[8]byte]struct{}{}
	var hashes, nonAscending, sections int64
	for _, gmp := range []int{2, 16} {
		runtime.GOMAXPROCS(gmp)
		for mode := 0; mode < 3; mode++ {
			c := run.Begin(fmt.Sprintf("orders/gomaxprocs=%d/mode=%d", gmp, mode), map[string]interface{}{"gomaxprocs": gmp, "mode": mode})
			if c == nil {
				continue
			}
			rng := c.Rand()
			n := run.N(200, 3000)
			for i := 0; i < n; i++ {
				var l int
				switch i % 4 {
				case 0:
					l = capB
				case 1:
					l = capB - rng.Intn(64)
				default:
					l = 65 + rng.Intn(capB-64)
				}
				j := mkJob(rng, l, 2+rng.Intn(6), rng.Intn(4), splitKinds[rng.Intn(2)])
				want := spec.BMTFast(j.span, j.data, p.segments)
				name := setPerturb(mode, uint64(run.Seed())<<32^uint64(gmp)<<24^uint64(mode)<<20^uint64(i))
				if cur == nil {
					cur = &pcfg{}
				}
				cur.record = true
				h := p.get()
				got, problem := runCycle(h, j)
				p.put(h)
				cur = nil
				sig, nsec, asc := takeSignature()
				judge(c, "fresh-hasher", p, j, got, problem, want, map[string]interface{}{"perturbation": name, "gomaxprocs": gmp})
				sigs[sig] = struct{}{}
				hashes++
				sections += int64(nsec)
				if !asc {
					nonAscending++
				}
				wantSec := l/64 + 1 // sections before the cursor plus the final (possibly all-padding) one
				if l == capB {
					wantSec = capB / 64
				}
				if nsec != wantSec {
					// not a property clause: the monitor itself would be blind
					t.Fatalf("monitor saw %d section starts for %d bytes, expected %d", nsec, l, wantSec)
				}
				run.Tally(fmt.Sprintf("orders/gmp=%d/%s/%s", gmp, lenClass(l, capB), name), true)
			}
			c.End(fmt.Sprintf("orders/gmp=%d/mode=%d", gmp, mode), true)
		}
	}
	run.Stat("arrival_order_signatures", int64(len(sigs)))
	run.Stat("arrival_order_hashes_recorded", hashes)
	run.Stat("arrival_orders_with_section_overtaking", nonAscending)
	run.Stat("section_starts_observed", sections)
}

// many goroutines, fewer trees than goroutines
func TestConcurrentSmallPool(t *testing.T) { concurrentPoolUsers(t, "seg128") }
func TestConcurrentProdPool(t *testing.T)  { concurrentPoolUsers(t, "bmtpool8192") }

func concurrentPoolUsers(t *testing.T, only string) {
	run := obs.Start(t, "C03")
	defer run.Done()
	defer func() { run.Stat("cycles_through_reused_scratch_buffer", scratchCycles.Swap(0)) }()
	run.Rule("phases of W goroutines each looping Get -> SetHeader -> Write* -> Hash -> (sometimes Reset and a second cycle) -> Put on a pool with fewer trees than goroutines: private 128-segment pool (4 trees, 48 goroutines) and the production bmtpool (32 trees, 40 goroutines; at most one >4 KiB input in flight because the race detector caps live goroutines at 8128); GOMAXPROCS 2 and 16; with and without unsynchronised random yields/sleeps at the H8 points; expected digests precomputed; distinct = (pool, GOMAXPROCS, perturbation) phase",
		"the perturbing callback adds no synchronisation between section goroutines")
	installHooks()
	defer func() { cur = nil }()
	defer runtime.GOMAXPROCS(runtime.GOMAXPROCS(0))

	type item struct {
		j    *hashJob
		want []byte
	}
	var total int64
	for _, gmp := range []int{2, 16} {
		for _, kind := range []string{only} {
			for mode := 0; mode < 2; mode++ {
				var p poolKind
				workers, iters, corpusN := 48, run.N(20, 200), 300
				if kind == "seg128" {
					p = smallPool(4)
				} else {
					p = prodPool()
					workers, iters, corpusN = 40, run.N(2, 20), run.N(64, 128)
				}
				capB := p.capBytes()
				c := run.Begin(fmt.Sprintf("phase/%s/gomaxprocs=%d/mode=%d", kind, gmp, mode),
					map[string]interface{}{"pool": kind, "gomaxprocs": gmp, "workers": workers, "iterations": iters, "mode": mode})
				if c == nil {
					continue
				}
				rng := c.Rand()
				// corpus with expected digests, computed before anything runs concurrently
				corpus := make([]item, corpusN)
				var big []int
				for i := range corpus {
					var n int
					switch {
					case kind == "seg128" && i%5 == 0:
						n = capB - rng.Intn(3)*rng.Intn(64)
					case kind == "seg128":
						n = rng.Intn(capB + 1)
					case i%16 == 0:
						n = capB - rng.Intn(2)*rng.Intn(5000) // big
					case i%16 == 8:
						n = 4097 + rng.Intn(capB-4097) // big
					default:
						n = rng.Intn(4097)
					}
					j := mkJob(rng, n, 2+rng.Intn(6), rng.Intn(4), splitKinds[rng.Intn(len(splitKinds))])
					corpus[i] = item{j, spec.BMTFast(j.span, j.data, p.segments)}
					if n > 4096 {
						big = append(big, i)
					}
				}
				name := "none"
				if mode == 1 {
					cur = &pcfg{seed: uint64(run.Seed()), noiseAll: true, pYield: 120, pSleep: 30, maxSleepUs: 40}
					name = "yield+sleep"
				} else {
					cur = nil
				}
				runtime.GOMAXPROCS(gmp)
				var bigToken sync.Mutex // guards "one big input in flight" (harness limit, see rule)
				var wg sync.WaitGroup
				type bad struct {
					j       *hashJob
					got     []byte
					problem string
					want    []byte
					worker  int
					iter    int
					second  bool
				}
				bads := make([][]bad, workers)
				counts := make([]int64, workers)
				for w := 0; w < workers; w++ {
					wg.Add(1)
					wrng := rand.New(rand.NewSource(rng.Int63()))
					go func(w int, wrng *rand.Rand) {
						defer wg.Done()
						for it := 0; it < iters; it++ {
							idx := wrng.Intn(len(corpus))
							isBig := corpus[idx].j.Len > 4096
							if isBig {
								bigToken.Lock()
							}
							h := p.get()
							got, problem := runCycle(h, corpus[idx].j)
							if problem != "" || !bytes.Equal(got, corpus[idx].want) {
								bads[w] = append(bads[w], bad{corpus[idx].j, got, problem, corpus[idx].want, w, it, false})
							}
							counts[w]++
							if wrng.Intn(4) == 0 { // second cycle on the same object, small input
								idx2 := wrng.Intn(len(corpus))
								for corpus[idx2].j.Len > 4096 {
									idx2 = (idx2 + 1) % len(corpus)
								}
								got, problem := runCycle(h, corpus[idx2].j)
								if problem != "" || !bytes.Equal(got, corpus[idx2].want) {
									bads[w] = append(bads[w], bad{corpus[idx2].j, got, problem, corpus[idx2].want, w, it, true})
								}
								counts[w]++
							}
							p.put(h)
							if isBig {
								bigToken.Unlock()
							}
						}
					}(w, wrng)
				}
				wg.Wait()
				cur = nil
				var n int64
				for w := range counts {
					n += counts[w]
					for _, b := range bads[w] {
						clause := "concurrent"
						if b.second {
							clause = "concurrent-after-reset"
						}
						judge(c, clause, p, b.j, b.got, b.problem, b.want, map[string]interface{}{
							"gomaxprocs": gmp, "workers": workers, "perturbation": name, "worker": b.worker, "iteration": b.iter})
					}
				}
				total += n
				run.Stat("hashes_concurrent/"+kind, n)
				run.StatMax("max/goroutines_per_pool_tree_x100", int64(workers*100/map[string]int{"seg128": 4, "bmtpool8192": bmtpool.Capacity}[kind]))
				_ = big
				c.End(fmt.Sprintf("%s/gmp=%d/%s", kind, gmp, name), true)
			}
		}
	}
	run.Stat("hashes_concurrent", total)
}
