package c03

import (
	"crypto/sha256"
	"encoding/binary"
	randv2 "math/rand/v2"
	"runtime"
	"sync"
	"time"

	"github.com/gauss-project/aurorafs/pkg/verifhook"
)

// Schedule perturbation and observation at the H8 points of pkg/bmt/bmt.go:
//   bmt.section     (arg: section index)  start of processSection
//   bmt.join        (arg: level)          writeNode, child hash stored, before the toggle
//   bmt.join.final  (arg: level)          writeFinalNode, before the zero-fill / toggle
//
// The perturbing callback must not synchronise the section goroutines with each other,
// otherwise it would hide data races from the race detector: it reads one plain global
// (written only while no hash is in flight; the go statements in Write/Hash order that
// write before the reads) and takes its coin flips from the seeded configuration and, for
// the join points, from math/rand/v2's lock-free per-thread runtime source. Gosched and
// Sleep add no happens-before edges. Only the *recording* mode takes a mutex, and it is
// used by TestArrivalOrders alone.

type pcfg struct {
	seed       uint64
	noiseAll   bool   // also randomise the section-start decisions (concurrent phases)
	pYield     uint64 // out of 1024
	pSleep     uint64 // out of 1024
	maxSleepUs uint64
	record     bool
}

var cur *pcfg // see above: plain, by design

var rec struct {
	mu  sync.Mutex
	seq []uint16
}

const (
	kSection = 1
	kJoin    = 2
	kFinal   = 3
)

func mix(x uint64) uint64 {
	x += 0x9E3779B97F4A7C15
	x = (x ^ (x >> 30)) * 0xBF58476D1CE4E5B9
	x = (x ^ (x >> 27)) * 0x94D049BB133111EB
	return x ^ (x >> 31)
}

func perturb(kind uint64, a int) {
	c := cur
	if c == nil {
		return
	}
	if c.record {
		rec.mu.Lock()
		rec.seq = append(rec.seq, uint16(kind)<<13|uint16(a))
		rec.mu.Unlock()
	}
	if c.pYield+c.pSleep == 0 {
		return
	}
	x := mix(c.seed ^ kind<<56 ^ uint64(a)*0x100000001B3)
	if kind != kSection || c.noiseAll {
		x ^= randv2.Uint64()
	}
	r := x & 1023
	switch {
	case r < c.pYield:
		runtime.Gosched()
	case r < c.pYield+c.pSleep:
		time.Sleep(time.Duration(1+(x>>10)%c.maxSleepUs) * time.Microsecond)
	}
}

func installHooks() {
	verifhook.Set("bmt.section", func(arg interface{}) { perturb(kSection, arg.(int)) })
	verifhook.Set("bmt.join", func(arg interface{}) { perturb(kJoin, arg.(int)) })
	verifhook.Set("bmt.join.final", func(arg interface{}) { perturb(kFinal, arg.(int)) })
}

// takeSignature returns a digest of the recorded arrival sequence of the last hash, the
// number of recorded section starts, whether the section starts were in ascending order,
// and clears the record.
func takeSignature() (sig [8]byte, sections int, ascending bool) {
	rec.mu.Lock()
	defer rec.mu.Unlock()
	h := sha256.New()
	last := -1
	ascending = true
	var b [2]byte
	for _, v := range rec.seq {
		binary.LittleEndian.PutUint16(b[:], v)
		h.Write(b[:])
		if v>>13 == kSection {
			sections++
			i := int(v & 0x1fff)
			if i < last {
				ascending = false
			}
			last = i
		}
	}
	copy(sig[:], h.Sum(nil))
	rec.seq = rec.seq[:0]
	return
}
