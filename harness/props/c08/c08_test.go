// Package c08: chunk encryption is invertible and padding is stripped exactly.
//
// Oracle (from the statement only):
//  1. for every key and payload p not longer than the padding: Decrypt_k(Encrypt_k(p)) has p
//     as its prefix, and with padding configured the ciphertext has exactly the padded length;
//  2. for every file size the decrypting reader (encryption/store) hands back, for each
//     encrypted chunk, exactly the payload the encrypted writer stored: span bytes for a
//     leaf, 64 bytes per child reference for an intermediate chunk - no padding left, nothing
//     cut.
package c08

import (
	"bytes"
	"context"
	"encoding/binary"
	"fmt"
	"testing"

	"github.com/gauss-project/aurorafs/pkg/boson"
	"github.com/gauss-project/aurorafs/pkg/encryption"
	encstore "github.com/gauss-project/aurorafs/pkg/encryption/store"
	"github.com/gauss-project/aurorafs/pkg/storage"
	"golang.org/x/crypto/sha3"

	fk "verif/harness/internal/filekit"
	"verif/harness/internal/obs"
	"verif/harness/internal/spec"
)

const CS = fk.CS

func lenClass(l int) string {
	switch {
	case l == 0:
		return "0"
	case l < 32:
		return "<32"
	case l == 32:
		return "32"
	case l%32 == 0 && l < CS:
		return "k*32"
	case l < 4096:
		return "<4096"
	case l == 4096:
		return "4096"
	case l < CS:
		return "<CS"
	case l == CS:
		return "CS"
	}
	return ">CS"
}

func ctrClass(c uint32) string {
	switch {
	case c == 0:
		return "0"
	case c == 4096:
		return "4096"
	case c > 0xffffffff-10000:
		return "wraps"
	}
	return "other"
}

// cipherCase checks clause 1 for one (key, padding, counter, payload).
func cipherCase(run *obs.Run, key []byte, padding int, ctr uint32, p []byte) {
	w := map[string]interface{}{"key": obs.Hex(key), "padding": padding, "init_counter": ctr, "payload_len": len(p), "payload": obs.Hex(p)}
	shape := fmt.Sprintf("cipher|pad=%d|ctr=%s|len=%s", padding, ctrClass(ctr), lenClass(len(p)))
	overlong := padding > 0 && len(p) > padding
	defer func() {
		if r := recover(); r != nil {
			run.Viol("panic-cipher", fmt.Sprint(r), w)
		}
		run.Tally(shape, len(p) > 0)
	}()
	orig := append([]byte(nil), p...)
	e := encryption.New(append([]byte(nil), key...), padding, ctr, sha3.NewLegacyKeccak256)
	ct, err := e.Encrypt(p)
	if overlong {
		// no ciphertext, or one of exactly the padded length
		if err != nil {
			run.Stat("overlong_payloads_rejected", 1)
			return
		}
		if len(ct) != padding {
			run.Viol("ciphertext-length", fmt.Sprintf("payload of %d bytes with padding %d was encrypted to %d bytes", len(p), padding, len(ct)), w)
		}
		return
	}
	if err != nil {
		run.Viol("encrypt-error", fmt.Sprintf("Encrypt of %d bytes (padding %d): %v", len(p), padding, err), w)
		return
	}
	want := len(p)
	if padding > 0 {
		want = padding
	}
	if len(ct) != want {
		run.Viol("ciphertext-length", fmt.Sprintf("payload of %d bytes with padding %d was encrypted to %d bytes, want %d", len(p), padding, len(ct), want), w)
		return
	}
	run.Stat("ciphertext_lengths_checked", 1)
	if !bytes.Equal(p, orig) {
		run.Stat("encrypt_modified_its_input", 1) // not part of the statement; counted
	}
	// a fresh instance with the same key
	d := encryption.New(append([]byte(nil), key...), padding, ctr, sha3.NewLegacyKeccak256)
	pt, err := d.Decrypt(ct)
	if err != nil {
		run.Viol("decrypt-error", fmt.Sprintf("Decrypt of the %d-byte ciphertext of a %d-byte payload: %v", len(ct), len(p), err), w)
		return
	}
	if len(pt) < len(orig) || !bytes.Equal(pt[:len(orig)], orig) {
		run.Viol("decrypt-not-inverse", fmt.Sprintf("Decrypt(Encrypt(p)) does not start with p (len %d, padding %d, counter %d)", len(orig), padding, ctr), w)
		return
	}
	run.Stat("round_trips_checked", 1)
	// the same instance, reset as its documentation prescribes (every case with a cheap
	// ciphertext, every fourth with a chunk-sized one)
	if len(ct) > 10000 && ct[0]&3 != 0 {
		return
	}
	run.Stat("round_trips_after_reset_checked", 1)
	e.Reset()
	pt2, err := e.Decrypt(ct)
	if err != nil || len(pt2) < len(orig) || !bytes.Equal(pt2[:len(orig)], orig) {
		run.Viol("decrypt-after-reset-not-inverse", fmt.Sprintf("after Reset the encrypting instance does not decrypt its own ciphertext (len %d, padding %d, counter %d, err %v)", len(orig), padding, ctr, err), w)
	}
}

func TestCipherRoundTrip(t *testing.T) {
	run := obs.Start(t, "C08")
	defer run.Done()
	run.Rule("encryption.New(key, padding, counter, keccak256): grid payload length {0,1,31,32,33,63,64,65,4095,4096,4097,CS-1,CS,CS+1} x padding {0,4096,CS} x counter {0,1,4096,2^32-1,2^32-100}, keys random / all-zero / all-ones; plus random (length <= 9000, any counter). distinct = (padding, counter class, length class); trivial = empty payload",
		"keys have encryption.KeyLength = 32 bytes (the only key size the project uses)")
	rng := run.RandFor("cipher")
	keys := [][]byte{make([]byte, 32), bytes.Repeat([]byte{0xff}, 32)}
	for i := 0; i < 3; i++ {
		k := make([]byte, 32)
		rng.Read(k)
		keys = append(keys, k)
	}
	big := make([]byte, CS+1)
	rng.Read(big)
	for ki, key := range keys {
		for _, pad := range []int{0, 4096, CS} {
			for _, ctr := range []uint32{0, 1, 4096, 0xffffffff, 0xffffffff - 99} {
				for _, l := range []int{0, 1, 31, 32, 33, 63, 64, 65, 4095, 4096, 4097, CS - 1, CS, CS + 1} {
					if l > 5000 && ki >= run.N(2, 5) {
						continue // chunk-sized payloads cost ~10 ms each: fewer keys in quick
					}
					cipherCase(run, key, pad, ctr, big[:l])
				}
			}
		}
	}
	for i := 0; i < run.N(6000, 60000); i++ {
		key := make([]byte, 32)
		rng.Read(key)
		pad := []int{0, 4096, 0, 4096, 0, 4096, 0, 4096, 0, CS}[rng.Intn(10)] // CS-padded cases cost ~20 ms each
		l := rng.Intn(9000)
		if rng.Intn(3) == 0 {
			l = rng.Intn(100)
		}
		p := make([]byte, l)
		rng.Read(p)
		cipherCase(run, key, pad, rng.Uint32(), p)
	}
}

// mapGetter serves chunks from a map.
type mapGetter map[string][]byte

func (m mapGetter) Get(_ context.Context, _ storage.ModeGet, a boson.Address) (boson.Chunk, error) {
	d, ok := m[string(a.Bytes())]
	if !ok {
		return nil, storage.ErrNotFound
	}
	return boson.NewChunk(a, d), nil
}

// throughStore encrypts span||payload with the real chunk encrypter, serves it from a map
// getter and fetches it back through the real decrypting store.
func throughStore(plain []byte) (got []byte, encLen int, err error) {
	key, es, ed, err := encryption.NewChunkEncrypter().EncryptChunk(plain)
	if err != nil {
		return nil, 0, fmt.Errorf("EncryptChunk: %w", err)
	}
	addr := spec.Keccak256(es, ed[:64]) // any 32 bytes: nothing validates the address here
	g := mapGetter{string(addr): append(append([]byte(nil), es...), ed...)}
	ch, err := encstore.New(g).Get(context.Background(), storage.ModeGetRequest, boson.NewAddress(append(append([]byte(nil), addr...), key...)))
	if err != nil {
		return nil, len(es) + len(ed), fmt.Errorf("decrypting store Get: %w", err)
	}
	return ch.Data(), len(es) + len(ed), nil
}

// storeCase checks clause 2 for one chunk: span + payload as the encrypted writer builds it.
func storeCase(run *obs.Run, kind string, span uint64, payload []byte, shape string, extra map[string]interface{}) {
	w := map[string]interface{}{"chunk_kind": kind, "span": span, "payload_len": len(payload)}
	for k, v := range extra {
		w[k] = v
	}
	defer func() {
		if r := recover(); r != nil {
			run.Viol("panic-store-"+kind, fmt.Sprint(r), w)
		}
		run.Tally(shape, true)
	}()
	plain := make([]byte, 8+len(payload))
	binary.LittleEndian.PutUint64(plain, span)
	copy(plain[8:], payload)
	got, encLen, err := throughStore(plain)
	if err != nil {
		run.Viol("store-"+kind+"-error", err.Error(), w)
		return
	}
	if encLen != 8+CS {
		run.Viol("encrypted-chunk-not-padded", fmt.Sprintf("encrypted %s chunk has %d bytes, want 8+%d", kind, encLen, CS), w)
	}
	w["returned_len"] = len(got) - 8
	if len(got) < 8 || !bytes.Equal(got[:8], plain[:8]) {
		run.Viol("store-"+kind+"-span", fmt.Sprintf("decrypted %s chunk does not start with the span %d", kind, span), w)
		return
	}
	if len(got)-8 != len(payload) {
		run.Viol("store-"+kind+"-length", fmt.Sprintf("%s chunk with span %d: writer stored %d payload bytes, decrypting store returned %d", kind, span, len(payload), len(got)-8), w)
		return
	}
	if !bytes.Equal(got[8:], payload) {
		run.Viol("store-"+kind+"-content", fmt.Sprintf("%s chunk with span %d: payload differs after decryption", kind, span), w)
		return
	}
	run.Stat("store_"+kind+"_chunks_checked", 1)
}

func TestStoreLeafLengths(t *testing.T) {
	run := obs.Start(t, "C08")
	defer run.Done()
	run.Rule("leaf chunks: payload length {0,1,31,32,33,64,4095,4096,4097,CS-65..CS-63,CS-1,CS} and random, span = length; encrypted with encryption.NewChunkEncrypter, fetched through encryption/store. distinct = length class")
	rng := run.RandFor("leaf")
	ls := []int{0, 1, 31, 32, 33, 64, 4095, 4096, 4097, CS - 65, CS - 64, CS - 63, CS - 33, CS - 32, CS - 1, CS}
	for i := 0; i < run.N(150, 1500); i++ {
		switch rng.Intn(3) {
		case 0:
			ls = append(ls, rng.Intn(200))
		case 1:
			ls = append(ls, CS-rng.Intn(200))
		default:
			ls = append(ls, rng.Intn(CS+1))
		}
	}
	for _, l := range ls {
		p := make([]byte, l)
		rng.Read(p)
		storeCase(run, "leaf", uint64(l), p, "leaf|len="+lenClass(l), nil)
	}
}

// spanClass names S relative to CS*4096^k.
func spanClass(S int64) string {
	const B = 4096
	unit, name := int64(CS), "CS"
	for _, nm := range []string{"CS*B", "CS*B^2", "CS*B^3"} {
		if S/B >= unit {
			unit *= B
			name = nm
		}
	}
	q, r := S/unit, S%unit
	qs := fmt.Sprint(q)
	switch {
	case q == B-1:
		qs = "(B-1)"
	case q > 3:
		qs = "k"
	}
	switch {
	case r == 0:
		return qs + "*" + name
	case r == 1:
		return qs + "*" + name + "+1"
	case r == unit-1:
		return qs + "*" + name + "+unit-1"
	case r <= CS:
		return qs + "*" + name + "+<=CS"
	}
	return qs + "*" + name + "+r"
}

func TestStoreIntermediateSpans(t *testing.T) {
	run := obs.Start(t, "C08")
	defer run.Done()
	run.Rule("intermediate chunks of encrypted trees for subtree spans S: m*CS*4096^k + d for k=0..3, m in {1,2,3,4095,4096 and random}, d in {-1,0,1,CS,CS+1} and random S < 2^61; the chunk holds 64*children(S) bytes of references (children from spec.Tree: ceil(S / size of a full child subtree)), span S; encrypted with encryption.NewChunkEncrypter, fetched through encryption/store. distinct = class of S relative to CS*4096^k",
		"every subtree of a well-formed tree is the tree of its own span, so the root shape of spec.NewTree(S, 4096) describes any intermediate chunk with span S",
		"spec.Tree's agreement with the real encrypted hash-trie writer is checked in C01 (TestTrieWriterLevels)")
	rng := run.RandFor("spans")
	const B = 4096
	var spans []int64
	unit := int64(CS)
	for k := 0; k <= 3; k++ {
		ms := []int64{1, 2, 3, B - 1, B}
		for i := 0; i < run.N(6, 40); i++ {
			ms = append(ms, 1+rng.Int63n(B))
		}
		for _, m := range ms {
			if m > spec.MaxTreeLen/unit {
				continue // beyond 2^61 bytes
			}
			for _, d := range []int64{-1, 0, 1, CS, CS + 1, -CS, rng.Int63n(unit)} {
				S := m*unit + d
				if S > CS && S <= spec.MaxTreeLen {
					spans = append(spans, S)
				}
			}
		}
		unit *= B
	}
	for i := 0; i < run.N(300, 3000); i++ {
		spans = append(spans, CS+1+rng.Int63n(int64(1)<<uint(19+rng.Intn(42))))
	}
	for _, S := range spans {
		tr := spec.NewTree(S, B)
		root := tr.Root()
		kids := tr.Fanout(root)
		p := make([]byte, 64*kids)
		rng.Read(p)
		run.StatMax("max/intermediate_level", int64(root.Level))
		if kids == B {
			run.Stat("full_intermediate_chunks", 1)
		}
		storeCase(run, "intermediate", uint64(S), p, fmt.Sprintf("intermediate|level=%d|%s", root.Level, spanClass(S)),
			map[string]interface{}{"level": root.Level, "children": kids})
	}
}

// ---------------------------------------------------------------------------------------

type e2eCase struct {
	ID   string `json:"id"`
	Size int    `json:"size"` // -1: drawn from the case PRNG
	Seg  string `json:"segmentation"`
}

// End to end: encrypted uploads through the real pipeline; the stored tree is walked from
// the root reference through the decrypting store, next to the format's tree for that size.
func TestEncryptedUploadWalk(t *testing.T) {
	run := obs.Start(t, "C08")
	defer run.Done()
	run.Rule("encrypted uploads (real builder pipeline, copying store) of sizes {0,1,31,32,33,4095..4097,CS-1,CS,CS+1,2CS-1,2CS,2CS+1,3CS+17} and random <= 6 MiB (quick) / 40 MiB (thorough); every chunk reached from the root reference through encryption/store is compared with the format's node at that position: span, payload length (span for a leaf, 64 x children for an intermediate chunk), leaf bytes = content; every stored chunk must be 8+CS bytes. distinct = size class",
		"the store copies chunk data on Put, as localstore does")
	ctx := context.Background()
	var cases []e2eCase
	for _, n := range []int{0, 1, 31, 32, 33, 4095, 4096, 4097, CS - 1, CS, CS + 1, 2*CS - 1, 2 * CS, 2*CS + 1, 3*CS + 17} {
		cases = append(cases, e2eCase{fmt.Sprintf("n%d", n), n, fk.SegRandom})
	}
	for i := 0; i < run.N(14, 50); i++ {
		cases = append(cases, e2eCase{fmt.Sprintf("rnd%d", i), -1, []string{fk.SegRandom, fk.SegFeed, fk.SegOne, fk.SegAround}[i%4]})
	}
	maxRand := run.N(6<<20, 40<<20)
	for _, ec := range cases {
		c := run.Begin(ec.ID, ec)
		if c == nil {
			continue
		}
		rng := c.Rand()
		n := ec.Size
		if n < 0 {
			n = rng.Intn(maxRand + 1)
			if rng.Intn(4) == 0 {
				n = n/CS*CS + rng.Intn(3) - 1
				if n < 0 {
					n = 0
				}
			}
		}
		seed := rng.Uint64()
		content := fk.MakeContent(fk.KindPRF, n, seed)
		st := fk.NewStore()
		w := map[string]interface{}{"size": n, "content_seed": seed, "segmentation": ec.Seg}
		up := fk.Upload(ctx, st, storage.ModePutUpload, content, ec.Seg, true, rng)
		shape := "e2e|" + sizeClass(n)
		if up.Err != nil || len(up.Ref) != 64 {
			// uploading is C01's subject; here it only means nothing can be observed
			run.Stat("uploads_failed", 1)
			c.End(shape, false)
			continue
		}
		for _, pr := range st.Puts() {
			run.Stat("stored_encrypted_chunks", 1)
			if pr.Len != 8+CS {
				c.Viol("stored-chunk-not-padded", fmt.Sprintf("an encrypted chunk of a %d-byte upload was stored with %d bytes, want 8+%d", n, pr.Len, CS), w)
				break
			}
		}
		tr := spec.NewTree(int64(n), spec.Branches/2)
		ds := encstore.New(st)
		var walk func(ref []byte, nd spec.Node) bool
		walk = func(ref []byte, nd spec.Node) bool {
			ww := map[string]interface{}{"size": n, "content_seed": seed, "segmentation": ec.Seg, "level": nd.Level, "index": nd.Index}
			var data []byte
			var err error
			func() {
				defer func() {
					if r := recover(); r != nil {
						err = fmt.Errorf("panic: %v", r)
					}
				}()
				var ch boson.Chunk
				ch, err = ds.Get(ctx, storage.ModeGetRequest, boson.NewAddress(ref))
				if err == nil {
					data = ch.Data()
				}
			}()
			if err != nil {
				c.Viol("e2e-get-error", fmt.Sprintf("chunk at level %d index %d of a %d-byte encrypted upload: %v", nd.Level, nd.Index, n, err), ww)
				return false
			}
			span := tr.Span(nd)
			if len(data) < 8 || int64(binary.LittleEndian.Uint64(data[:8])) != span {
				c.Viol("e2e-span", fmt.Sprintf("chunk at level %d index %d: decrypted span differs from the format's %d", nd.Level, nd.Index, span), ww)
				return false
			}
			payload := data[8:]
			if nd.Level == 0 {
				ww["stored_payload_len"], ww["returned_len"] = span, len(payload)
				if int64(len(payload)) != span {
					c.Viol("e2e-leaf-length", fmt.Sprintf("leaf %d of a %d-byte upload holds %d bytes, decrypting store returned %d", nd.Index, n, span, len(payload)), ww)
					return false
				}
				off := tr.Offset(nd)
				if !bytes.Equal(payload, content[off:off+span]) {
					c.Viol("e2e-leaf-content", fmt.Sprintf("leaf %d of a %d-byte upload differs from the content after decryption", nd.Index, n), ww)
					return false
				}
				run.Stat("e2e_leaves_checked", 1)
				return true
			}
			kids := tr.Fanout(nd)
			ww["children"], ww["returned_len"] = kids, len(payload)
			if int64(len(payload)) != 64*kids {
				c.Viol("e2e-intermediate-length", fmt.Sprintf("intermediate chunk (level %d, span %d) has %d children = %d bytes, decrypting store returned %d", nd.Level, span, kids, 64*kids, len(payload)), ww)
				return false
			}
			run.Stat("e2e_intermediates_checked", 1)
			for j := int64(0); j < kids; j++ {
				if !walk(payload[64*j:64*j+64], tr.Child(nd, j)) {
					return false
				}
			}
			return true
		}
		walk(up.Ref, tr.Root())
		run.Stat("encrypted_uploads_walked", 1)
		c.End(shape, n > 0)
	}
}

func sizeClass(n int) string {
	switch {
	case n == 0:
		return "empty"
	case n < 32:
		return "sub-segment"
	case n <= 4097:
		return "small"
	case n < CS-1:
		return "sub-chunk"
	}
	k := (n + CS - 1) / CS
	edge := "mid"
	switch n % CS {
	case 0:
		edge = "full"
	case 1:
		edge = "full+1"
	case CS - 1:
		edge = "full-1"
	}
	b := fmt.Sprint(k)
	switch {
	case k > 32:
		b = "33+"
	case k > 8:
		b = "9-32"
	case k > 4:
		b = "5-8"
	}
	return fmt.Sprintf("%schunks/%s", b, edge)
}
