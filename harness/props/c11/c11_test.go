package c11

import (
	"bytes"
	"context"
	"errors"
	"fmt"
	"io"
	"math/rand"
	"sort"
	"strings"
	"sync/atomic"
	"testing"

	"github.com/gauss-project/aurorafs/pkg/boson"
	"github.com/gauss-project/aurorafs/pkg/cac"
	"github.com/gauss-project/aurorafs/pkg/localstore"
	"github.com/gauss-project/aurorafs/pkg/logging"
	"github.com/gauss-project/aurorafs/pkg/sctx"
	"github.com/gauss-project/aurorafs/pkg/storage"

	"verif/harness/internal/obs"
	"verif/harness/internal/vdb"
)

var clock int64 = 1000

func init() {
	localstore.VerifSetNow(func() int64 { return atomic.AddInt64(&clock, 1) })
}

type opRec struct {
	Op     string `json:"op"`
	Mode   string `json:"mode,omitempty"`
	Root   int    `json:"root"` // -1: no file context; else index into universe
	Chunks []int  `json:"chunks,omitempty"`
}

func (o opRec) String() string {
	return fmt.Sprintf("%s/%s root=%d %v", o.Op, o.Mode, o.Root, o.Chunks)
}

type universe struct {
	chunks []boson.Chunk
}

func newUniverse(rng *rand.Rand, n int) *universe {
	u := &universe{}
	for i := 0; i < n; i++ {
		d := make([]byte, 1+rng.Intn(200))
		rng.Read(d)
		ch, err := cac.New(d)
		if err != nil {
			panic(err)
		}
		u.chunks = append(u.chunks, ch)
	}
	return u
}

func newDB(t testing.TB) *localstore.DB {
	vdb.Register()
	base := make([]byte, 32)
	db, err := localstore.New("", base, &localstore.Options{Driver: vdb.Small, Capacity: 1000000}, logging.New(io.Discard, 0))
	if err != nil {
		t.Fatal(err)
	}
	return db
}

func ctxFor(u *universe, root int) context.Context {
	if root < 0 {
		return context.Background()
	}
	return sctx.SetRootHash(context.Background(), u.chunks[root].Address())
}

var putModes = map[string]storage.ModePut{"request": storage.ModePutRequest, "upload": storage.ModePutUpload, "uploadpin": storage.ModePutUploadPin, "requestpin": storage.ModePutRequestPin}
var getModes = map[string]storage.ModeGet{"request": storage.ModeGetRequest, "sync": storage.ModeGetSync, "lookup": storage.ModeGetLookup}
var setModes = map[string]storage.ModeSet{"pin": storage.ModeSetPin, "unpin": storage.ModeSetUnpin, "remove": storage.ModeSetRemove, "sync": storage.ModeSetSync}

func pick(rng *rand.Rand, m interface{}) string {
	var ks []string
	switch mm := m.(type) {
	case map[string]storage.ModePut:
		for k := range mm {
			ks = append(ks, k)
		}
	case map[string]storage.ModeGet:
		for k := range mm {
			ks = append(ks, k)
		}
	case map[string]storage.ModeSet:
		for k := range mm {
			ks = append(ks, k)
		}
	}
	sort.Strings(ks)
	return ks[rng.Intn(len(ks))]
}

// normalised dump: presence, pin counts, per-root cached counts, gc size
type norm struct {
	Present []string
	Pins    map[string]uint64
	GC      map[string]uint64
	GCSize  uint64
}

func dump(t testing.TB, db *localstore.DB, u *universe) norm {
	db.VerifWaitUpdateGC()
	s, err := db.VerifDump()
	if err != nil {
		t.Fatal(err)
	}
	name := func(a []byte) string {
		for i, c := range u.chunks {
			if bytes.Equal(c.Address().Bytes(), a) {
				return fmt.Sprintf("c%d", i)
			}
		}
		return fmt.Sprintf("%x", a)
	}
	n := norm{Pins: map[string]uint64{}, GC: map[string]uint64{}, GCSize: s.GCSize}
	for _, it := range s.RetrievalData {
		n.Present = append(n.Present, name(it.Address))
	}
	sort.Strings(n.Present)
	for _, it := range s.Pin {
		n.Pins[name(it.Address)] = it.PinCounter
	}
	for _, it := range s.GC {
		n.GC[name(it.Address)] += it.GCounter
	}
	return n
}

func (n norm) String() string {
	return fmt.Sprintf("present=%v pins=%v gc=%v gcSize=%d", n.Present, n.Pins, n.GC, n.GCSize)
}

// apply executes one op on db and returns an API-visible result string.
func apply(db *localstore.DB, u *universe, o opRec) (res string, exist []bool, err error) {
	defer func() {
		if r := recover(); r != nil {
			res = fmt.Sprintf("PANIC %v", r)
			err = fmt.Errorf("panic: %v", r)
		}
	}()
	ctx := ctxFor(u, o.Root)
	switch o.Op {
	case "put":
		chs := make([]boson.Chunk, len(o.Chunks))
		for i, c := range o.Chunks {
			chs[i] = u.chunks[c]
		}
		exist, err = db.Put(ctx, putModes[o.Mode], chs...)
		return fmt.Sprintf("exist=%v err=%v", exist, err != nil), exist, err
	case "get":
		ch, e := db.Get(ctx, getModes[o.Mode], u.chunks[o.Chunks[0]].Address())
		if e != nil {
			return "err=" + fmt.Sprint(errors.Is(e, storage.ErrNotFound)), nil, e
		}
		return fmt.Sprintf("data=%x", ch.Data()), nil, nil
	case "getmulti":
		addrs := make([]boson.Address, len(o.Chunks))
		for i, c := range o.Chunks {
			addrs[i] = u.chunks[c].Address()
		}
		chs, e := db.GetMulti(ctx, getModes[o.Mode], addrs...)
		if e != nil {
			return "err=" + fmt.Sprint(errors.Is(e, storage.ErrNotFound)), nil, e
		}
		var sb strings.Builder
		for _, c := range chs {
			fmt.Fprintf(&sb, "%x,", c.Data())
		}
		return sb.String(), nil, nil
	case "has":
		ok, e := db.Has(ctx, storage.ModeHasChunk, u.chunks[o.Chunks[0]].Address())
		return fmt.Sprintf("has=%v err=%v", ok, e != nil), nil, e
	case "haspin":
		ok, e := db.Has(ctx, storage.ModeHasPin, u.chunks[o.Chunks[0]].Address())
		return fmt.Sprintf("haspin=%v err=%v", ok, e != nil), nil, e
	case "hasmulti":
		addrs := make([]boson.Address, len(o.Chunks))
		for i, c := range o.Chunks {
			addrs[i] = u.chunks[c].Address()
		}
		oks, e := db.HasMulti(ctx, storage.ModeHasChunk, addrs...)
		return fmt.Sprintf("has=%v err=%v", oks, e != nil), nil, e
	case "set":
		addrs := make([]boson.Address, len(o.Chunks))
		for i, c := range o.Chunks {
			addrs[i] = u.chunks[c].Address()
		}
		e := db.Set(ctx, setModes[o.Mode], addrs...)
		return fmt.Sprintf("err=%v", e != nil), nil, e
	}
	return "?", nil, nil
}

func genOp(rng *rand.Rand, nU, nRoots int) opRec {
	root := -1
	if rng.Intn(3) > 0 {
		root = rng.Intn(nRoots)
	}
	some := func(max int) []int {
		n := 1 + rng.Intn(max)
		out := make([]int, n)
		for i := range out {
			out[i] = rng.Intn(nU)
		}
		return out
	}
	switch x := rng.Intn(20); {
	case x < 8:
		k := 1
		if rng.Intn(2) == 0 {
			k = 4
		}
		return opRec{Op: "put", Mode: pick(rng, putModes), Root: root, Chunks: some(k)}
	case x < 10:
		return opRec{Op: "get", Mode: pick(rng, getModes), Root: root, Chunks: some(1)}
	case x < 11:
		return opRec{Op: "getmulti", Mode: pick(rng, getModes), Root: root, Chunks: some(3)}
	case x < 12:
		return opRec{Op: "has", Root: root, Chunks: some(1)}
	case x < 13:
		return opRec{Op: "haspin", Root: root, Chunks: some(1)}
	case x < 14:
		return opRec{Op: "hasmulti", Root: root, Chunks: some(4)}
	default:
		return opRec{Op: "set", Mode: pick(rng, setModes), Root: root, Chunks: some(1)}
	}
}

// TestModel checks presence / bytes / exist flags against a map model.
func TestModel(t *testing.T) {
	run := obs.Start(t, "C11")
	defer run.Done()
	run.Rule("random histories of 30 ops over 12 valid chunks and 3 file roots: Put in all four modes (1..4 chunks per call, in-call duplicates, with/without root context), Get/GetMulti/Has/HasMulti, Set pin/unpin/remove/sync; after every op every chunk of the universe is probed with Has and Get(lookup); distinct = multiset of (op,mode,context?) of the history",
		"capacity 10^6: collection never runs", "clock pinned, strictly increasing",
		"removal rule as documented in the code: a remove on a chunk whose pin counter is > 1 only decrements it; the pin counter used by the oracle is read from the index dump before the op",
		"a Put that returns an error must leave presence unchanged")
	n := run.N(400, 4000)
	for i := 0; i < n; i++ {
		c := run.Begin(fmt.Sprintf("model/%d", i), nil)
		if c == nil {
			continue
		}
		rng := c.Rand()
		u := newUniverse(rng, 12)
		db := newDB(t)
		present := map[int]bool{}
		var hist []opRec
		shape := map[string]int{}
		for k := 0; k < 30; k++ {
			o := genOp(rng, 12, 3)
			hist = append(hist, o)
			before := dump(t, db, u)
			res, exist, err := apply(db, u, o)
			w := func() map[string]interface{} {
				return map[string]interface{}{"history": hist, "result": res, "dump_before": before.String()}
			}
			if strings.HasPrefix(res, "PANIC") {
				c.Viol("panic-in-"+o.Op, res, w())
				break
			}
			ctxk := "noctx"
			if o.Root >= 0 {
				ctxk = "ctx"
			}
			shape[o.Op+"/"+o.Mode+"/"+ctxk]++
			switch o.Op {
			case "put":
				if err != nil {
					run.Stat("put_errors", 1)
					// judged below: presence must be unchanged
					break
				}
				for j, ci := range o.Chunks {
					dupInCall := false
					for _, cj := range o.Chunks[:j] {
						if cj == ci {
							dupInCall = true
						}
					}
					want := present[ci] || dupInCall
					if exist[j] != want {
						c.Viol("put-exist-flag-wrong", fmt.Sprintf("exist[%d]=%v for chunk c%d, model says already present=%v (in-call duplicate=%v)", j, exist[j], ci, present[ci], dupInCall), w())
					}
				}
				for _, ci := range o.Chunks {
					present[ci] = true
				}
				run.Stat("puts_checked", 1)
			case "get":
				ci := o.Chunks[0]
				if present[ci] {
					if err != nil {
						c.Viol("get-present-chunk-fails", "Get of a present chunk failed: "+err.Error(), w())
					} else if res != fmt.Sprintf("data=%x", u.chunks[ci].Data()) {
						c.Viol("get-returns-wrong-bytes", "Get returned bytes different from what was put", w())
					}
				} else if err == nil || !errors.Is(err, storage.ErrNotFound) {
					c.Viol("get-absent-chunk-not-notfound", fmt.Sprintf("Get of an absent chunk: %s", res), w())
				}
				run.Stat("gets_checked", 1)
			case "getmulti":
				all := true
				for _, ci := range o.Chunks {
					all = all && present[ci]
				}
				if all {
					var sb strings.Builder
					for _, ci := range o.Chunks {
						fmt.Fprintf(&sb, "%x,", u.chunks[ci].Data())
					}
					if err != nil || res != sb.String() {
						c.Viol("getmulti-wrong", "GetMulti of present chunks failed or returned wrong bytes: "+res, w())
					}
				} else if err == nil {
					c.Viol("getmulti-absent-no-error", "GetMulti with an absent chunk returned no error", w())
				}
			case "has":
				if res != fmt.Sprintf("has=%v err=false", present[o.Chunks[0]]) {
					c.Viol("has-wrong", "Has disagrees with the model: "+res, w())
				}
			case "haspin":
				_, pinned := before.Pins[fmt.Sprintf("c%d", o.Chunks[0])]
				if res != fmt.Sprintf("haspin=%v err=false", pinned) {
					c.Viol("haspin-wrong", "Has(ModeHasPin) disagrees with the pin index: "+res, w())
				}
			case "hasmulti":
				want := make([]bool, len(o.Chunks))
				for j, ci := range o.Chunks {
					want[j] = present[ci]
				}
				if res != fmt.Sprintf("has=%v err=false", want) {
					c.Viol("hasmulti-wrong", "HasMulti disagrees with the model: "+res, w())
				}
			case "set":
				ci := o.Chunks[0]
				switch o.Mode {
				case "remove":
					if !present[ci] {
						if err == nil {
							c.Viol("remove-absent-no-error", "Remove of an absent chunk returned no error", w())
						}
					} else if err == nil {
						if before.Pins[fmt.Sprintf("c%d", ci)] > 1 {
							// documented: only decrements the pin counter
						} else {
							present[ci] = false
						}
					}
				case "pin":
					if !present[ci] && err == nil {
						c.Viol("pin-absent-no-error", "Pin of an absent chunk returned no error", w())
					}
				}
			}
			// full probe
			bad := false
			for ci := range u.chunks {
				ok, e := db.Has(context.Background(), storage.ModeHasChunk, u.chunks[ci].Address())
				if e != nil || ok != present[ci] {
					key := "presence-wrong-after-" + o.Op
					if o.Op == "set" {
						key += "-" + o.Mode
					}
					if o.Op == "put" && err != nil {
						key = "failed-put-changed-presence"
					}
					c.Viol(key, fmt.Sprintf("chunk c%d: store says present=%v, model says %v", ci, ok, present[ci]), w())
					bad = true
					break
				}
				if ok {
					ch, e := db.Get(context.Background(), storage.ModeGetLookup, u.chunks[ci].Address())
					if e != nil || !bytes.Equal(ch.Data(), u.chunks[ci].Data()) {
						c.Viol("stored-bytes-wrong", fmt.Sprintf("chunk c%d reads back differently", ci), w())
						bad = true
						break
					}
				}
				run.Stat("presence_probes", 1)
			}
			if bad {
				break
			}
		}
		db.Close()
		var ks []string
		for k, v := range shape {
			if v > 3 {
				v = 3
			}
			ks = append(ks, fmt.Sprintf("%s*%d", k, v))
		}
		sort.Strings(ks)
		c.End(strings.Join(ks, " "), true)
		if i < 2 {
			run.Sample(map[string]interface{}{"history": hist})
		}
	}
}

// TestBatchEquivalence applies the same history to two stores, the second with every
// multi-chunk put split into single puts, and compares results and normalised dumps.
func TestBatchEquivalence(t *testing.T) {
	run := obs.Start(t, "C11")
	defer run.Done()
	run.Rule("differential: same random history on store A (as generated) and store B (every k-chunk Put replaced by k single Puts); API-visible results of every op and the normalised index dump (presence, pin counters, per-root cached counts, gc size) after every op must be equal; distinct = multiset of multi-chunk put kinds (mode, context?, duplicates?, #chunks)")
	n := run.N(400, 4000)
	for i := 0; i < n; i++ {
		c := run.Begin(fmt.Sprintf("batch/%d", i), nil)
		if c == nil {
			continue
		}
		rng := c.Rand()
		u := newUniverse(rng, 12)
		a, b := newDB(t), newDB(t)
		var hist []opRec
		shape := map[string]int{}
		multi := 0
		lastMultiDupPin := false
	hist:
		for k := 0; k < 30; k++ {
			o := genOp(rng, 12, 3)
			hist = append(hist, o)
			resA, existA, errA := apply(a, u, o)
			var resB string
			if o.Op == "put" && len(o.Chunks) > 1 {
				multi++
				dup := false
				seen := map[int]bool{}
				for _, ci := range o.Chunks {
					if seen[ci] {
						dup = true
					}
					seen[ci] = true
				}
				ctxk := "noctx"
				if o.Root >= 0 {
					ctxk = "ctx"
				}
				shape[fmt.Sprintf("%s/%s/dup=%v/n=%d", o.Mode, ctxk, dup, len(o.Chunks))]++
				lastMultiDupPin = dup && strings.HasSuffix(o.Mode, "pin")
				existB := make([]bool, 0, len(o.Chunks))
				var errB error
				for _, ci := range o.Chunks {
					_, e1, err := apply(b, u, opRec{Op: "put", Mode: o.Mode, Root: o.Root, Chunks: []int{ci}})
					if err != nil {
						errB = err
						break
					}
					existB = append(existB, e1[0])
				}
				w := map[string]interface{}{"history": hist, "batched": fmt.Sprintf("exist=%v err=%v", existA, errA), "one_by_one": fmt.Sprintf("exist=%v err=%v", existB, errB)}
				if (errA != nil) != (errB != nil) {
					key := "batch-put-error-differs"
					if errA != nil && o.Root >= 0 && strings.HasPrefix(o.Mode, "request") && strings.Contains(errA.Error(), "not found") {
						key = "batch-request-put-under-root-context-fails-not-found"
					}
					c.Viol(key, fmt.Sprintf("batched put err=%v, one-by-one err=%v", errA, errB), w)
					break hist
				}
				if errA == nil && fmt.Sprint(existA) != fmt.Sprint(existB) {
					c.Viol("batch-put-exist-flags-differ", fmt.Sprintf("batched exist=%v, one-by-one exist=%v", existA, existB), w)
					break hist
				}
				run.Stat("multi_chunk_puts_compared", 1)
			} else {
				resB, _, _ = apply(b, u, o)
				if resA != resB {
					c.Viol("result-differs-after-batch-vs-single-history", fmt.Sprintf("%s: A=%s B=%s", o, resA, resB), map[string]interface{}{"history": hist})
					break
				}
			}
			da, dbb := dump(t, a, u), dump(t, b, u)
			if da.String() != dbb.String() {
				// finding keys name the kind of effect that differs, not the op mix that exposed it
				var key string
				switch {
				case fmt.Sprint(da.Present) != fmt.Sprint(dbb.Present):
					key = "batch-equivalence-presence"
				case fmt.Sprint(da.Pins) != fmt.Sprint(dbb.Pins):
					key = "batch-equivalence-pin-counters"
					if lastMultiDupPin {
						key = "batch-pin-put-with-in-call-duplicate-pins-once"
					}
				default:
					key = "batch-equivalence-cache-accounting"
				}
				c.Viol(key, fmt.Sprintf("after %s: batched store %s; one-by-one store %s", o, da, dbb), map[string]interface{}{"history": hist, "batched": da.String(), "one_by_one": dbb.String()})
				break
			}
			run.Stat("dumps_compared", 1)
		}
		a.Close()
		b.Close()
		var ks []string
		for k, v := range shape {
			if v > 2 {
				v = 2
			}
			ks = append(ks, fmt.Sprintf("%s*%d", k, v))
		}
		sort.Strings(ks)
		c.End(strings.Join(ks, " "), multi > 0)
		if i < 1 {
			run.Sample(map[string]interface{}{"history": hist})
		}
	}
}
