// Package c25 monitors property C25 "Blocklisting never shortens a block".
//
// The real libp2p-internal Blocklist (reached through the verif-tagged verifx package)
// runs over the real in-memory leveldb state store with a virtual clock. The oracle is an
// interval model written from the statement only:
//
//	lower bound  a peer is blocked at every instant inside a period requested since its
//	             last removal (a zero duration requests an unbounded period);
//	upper bound  a peer is not blocked when it was removed and not added since, and not
//	             later than (latest request time + longest duration requested since the last
//	             removal), unless a zero duration was requested since then;
//	no shortening if, just before an Add, the peer would be reported blocked at instant T,
//	             it is still reported blocked at T just after that Add;
//	listing      Peers() names exactly the peers for which Exists() is true at that instant.
//
// Instants exactly at the end of a requested period are left undetermined (the statement
// does not say whether a period includes its end point).
package c25

import (
	"fmt"
	"io"
	"math/rand"
	"sort"
	"strings"
	"testing"
	"time"

	"github.com/gauss-project/aurorafs/pkg/boson"
	"github.com/gauss-project/aurorafs/pkg/logging"
	"github.com/gauss-project/aurorafs/pkg/p2p/libp2p/verifx"
	ldbstate "github.com/gauss-project/aurorafs/pkg/statestore/leveldb"
	"github.com/gauss-project/aurorafs/pkg/storage"

	"verif/harness/internal/obs"
)

// ---------------------------------------------------------------------------------------
// state store wrapper: lets the monitor ask "what would Exists answer at instant T" without
// the lazy-expiry Delete of Exists changing the state under observation.

type probeStore struct {
	storage.StateStorer
	readonly bool
	dropped  int64
	deletes  int64
}

func (s *probeStore) Delete(key string) error {
	if s.readonly {
		s.dropped++
		return nil
	}
	s.deletes++
	return s.StateStorer.Delete(key)
}

// ---------------------------------------------------------------------------------------
// model (from the statement)

type request struct {
	at time.Time
	d  time.Duration
}

type peerModel struct {
	reqs      []request // requests since the last removal
	everAdded bool
}

// mustBlocked: some request since the last removal covers instant t (end point excluded).
func (m *peerModel) mustBlocked(t time.Time) bool {
	for _, r := range m.reqs {
		if t.Before(r.at) {
			continue
		}
		if r.d == 0 || t.Before(r.at.Add(r.d)) {
			return true
		}
	}
	return false
}

// mustUnblocked reports whether the statement forbids "blocked" at instant t, and why.
func (m *peerModel) mustUnblocked(t time.Time) (bool, string) {
	if len(m.reqs) == 0 {
		if m.everAdded {
			return true, "after-remove"
		}
		return true, "never-added"
	}
	longest := m.reqs[0].d
	for _, r := range m.reqs {
		if r.d == 0 {
			return false, ""
		}
		if r.d > longest {
			longest = r.d
		}
	}
	last := m.reqs[len(m.reqs)-1].at
	if t.After(last.Add(longest)) {
		return true, "beyond-latest-request-plus-longest-duration"
	}
	return false, ""
}

// ---------------------------------------------------------------------------------------

type world struct {
	t      *testing.T
	run    *obs.Run
	c      *obs.Case
	store  *probeStore
	bl     *verifx.Blocklist
	now    time.Time
	peers  []boson.Address
	model  []*peerModel
	ops    []string // witness: the history so far
	situ   map[string]bool
	maxDur time.Duration
}

func (w *world) logf(format string, a ...interface{}) {
	w.ops = append(w.ops, fmt.Sprintf(format, a...))
}

func (w *world) witness(extra map[string]interface{}) map[string]interface{} {
	m := map[string]interface{}{"history": append([]string(nil), w.ops...)}
	ps := make([]string, len(w.peers))
	for i, p := range w.peers {
		ps[i] = p.String()
	}
	m["peers"] = ps
	for k, v := range extra {
		m[k] = v
	}
	return m
}

func (w *world) see(s string) {
	w.situ[s] = true
	w.run.Stat("situation/"+s, 1)
}

// existsAt asks the real blocklist whether peer i is blocked at instant t, without letting
// the lazy expiry change the stored state.
func (w *world) existsAt(i int, t time.Time) (bool, error) {
	saved := w.now
	w.now = t
	w.store.readonly = true
	ok, err := w.bl.Exists(w.peers[i])
	w.store.readonly = false
	w.now = saved
	w.run.Stat("probe_exists_calls", 1)
	return ok, err
}

// judge compares one per-peer answer at instant t with the model.
func (w *world) judge(i int, t time.Time, got bool, how string) {
	m := w.model[i]
	if got {
		if bad, why := m.mustUnblocked(t); bad {
			w.c.Viol("blocked-"+why, fmt.Sprintf("%s: peer %d reported blocked at %s", how, i, t.Format(time.RFC3339Nano)),
				w.witness(map[string]interface{}{"peer": i, "at": t.Format(time.RFC3339Nano), "via": how}))
		}
		return
	}
	if m.mustBlocked(t) {
		key := "unblocked-inside-requested-period"
		for _, r := range m.reqs {
			if r.d == 0 {
				key = "unblocked-despite-zero-duration"
			}
		}
		w.c.Viol(key, fmt.Sprintf("%s: peer %d reported not blocked at %s", how, i, t.Format(time.RFC3339Nano)),
			w.witness(map[string]interface{}{"peer": i, "at": t.Format(time.RFC3339Nano), "via": how}))
	}
}

// classify records which region of the model an observation fell into (evidence only).
func (w *world) classify(i int, t time.Time, got bool) {
	m := w.model[i]
	switch {
	case m.mustBlocked(t):
		w.see("query-inside-requested-period")
	default:
		if bad, why := m.mustUnblocked(t); bad {
			w.see("query-" + why)
		} else if got {
			w.see("query-undetermined-answered-blocked")
		} else {
			w.see("query-undetermined-answered-unblocked")
		}
	}
}

const farFuture = 280 * 365 * 24 * time.Hour

// lastBlockedInstant searches the latest instant >= now at which the real blocklist would
// still report peer i blocked. forever = blocked at now+280y. ok=false: not blocked now.
// The returned instant is always one at which "blocked" was actually observed.
func (w *world) lastBlockedInstant(i int) (t time.Time, forever, ok bool, err error) {
	b, err := w.existsAt(i, w.now)
	if err != nil || !b {
		return time.Time{}, false, false, err
	}
	far := w.now.Add(farFuture)
	if b, err = w.existsAt(i, far); err != nil {
		return time.Time{}, false, false, err
	} else if b {
		return far, true, true, nil
	}
	lo, hi := int64(0), int64(farFuture) // blocked at now+lo, not blocked at now+hi
	for hi-lo > 1 {
		mid := lo + (hi-lo)/2
		b, err = w.existsAt(i, w.now.Add(time.Duration(mid)))
		if err != nil {
			return time.Time{}, false, false, err
		}
		if b {
			lo = mid
		} else {
			hi = mid
		}
	}
	return w.now.Add(time.Duration(lo)), false, true, nil
}

func (w *world) errViol(op string, err error) {
	w.c.Viol("error-"+op, fmt.Sprintf("%s returned an error on a healthy store: %v", op, err), w.witness(nil))
}

func durClass(d time.Duration) string {
	switch {
	case d == 0:
		return "zero"
	case d < 0:
		return "negative"
	case d == 1:
		return "1ns"
	case d < time.Second:
		return "sub-second"
	case d >= 24*time.Hour:
		return "days+"
	}
	return "normal"
}

func (w *world) doAdd(i int, d time.Duration) {
	m := w.model[i]
	w.logf("t=%s Add(peer%d, %s)", w.now.Format(time.RFC3339Nano), i, d)

	// situation (evidence) from the model's point of view
	switch {
	case len(m.reqs) == 0:
		w.see("add-fresh-" + durClass(d))
	default:
		prevEnd, prevForever := time.Time{}, false
		for _, r := range m.reqs {
			if r.d == 0 {
				prevForever = true
			} else if e := r.at.Add(r.d); e.After(prevEnd) {
				prevEnd = e
			}
		}
		switch {
		case prevForever:
			w.see("add-on-forever-block-" + durClass(d))
		case d == 0:
			w.see("add-zero-on-existing")
		case !prevEnd.After(w.now):
			w.see("add-after-requested-periods-ended")
		case w.now.Add(d).Before(prevEnd):
			w.see("add-shorter-than-remaining")
		default:
			w.see("add-longer-than-remaining")
		}
	}

	// what the real blocklist promises just before the Add
	before, forever, had, err := w.lastBlockedInstant(i)
	if err != nil {
		w.errViol("exists", err)
		return
	}
	if err := w.bl.Add(w.peers[i], d); err != nil {
		w.errViol("add", err)
		return
	}
	m.reqs = append(m.reqs, request{at: w.now, d: d})
	m.everAdded = true
	if d > w.maxDur {
		w.maxDur = d
	}
	w.run.Stat("adds", 1)

	if had {
		w.run.Stat("adds_on_existing_block", 1)
		still, err := w.existsAt(i, before)
		if err != nil {
			w.errViol("exists", err)
			return
		}
		if !still {
			key := "add-shortened-existing-block"
			if forever {
				key = "add-ended-unbounded-block"
			}
			w.c.Viol(key, fmt.Sprintf("before Add(peer%d,%s) the peer was reported blocked at %s, after it is not", i, d, before.Format(time.RFC3339Nano)),
				w.witness(map[string]interface{}{"peer": i, "instant": before.Format(time.RFC3339Nano), "was_unbounded": forever}))
		}
	}
	// the new request itself: blocked now (unless empty period), just before its end, and
	// forever for a zero duration
	got, err := w.existsAt(i, w.now)
	if err != nil {
		w.errViol("exists", err)
		return
	}
	w.judge(i, w.now, got, "probe right after Add")
	if d == 0 {
		got, err = w.existsAt(i, w.now.Add(farFuture))
		if err == nil {
			w.judge(i, w.now.Add(farFuture), got, "probe 280 years after Add")
		}
	} else if d > 1 {
		at := w.now.Add(d - 1)
		got, err = w.existsAt(i, at)
		if err == nil {
			w.judge(i, at, got, "probe 1ns before the end of the requested period")
		}
	}
	// and the upper bound one nanosecond past it
	if ub, _ := m.mustUnblocked(w.now.Add(w.maxDur + 1)); ub {
		at := w.now.Add(w.maxDur + 1)
		got, err = w.existsAt(i, at)
		if err == nil {
			w.judge(i, at, got, "probe 1ns past latest request + longest duration of the history")
		}
	}
}

func (w *world) doRemove(i int) {
	w.logf("t=%s Remove(peer%d)", w.now.Format(time.RFC3339Nano), i)
	if w.model[i].mustBlocked(w.now) {
		w.see("remove-blocked-peer")
	} else if len(w.model[i].reqs) > 0 {
		w.see("remove-after-period-ended")
	} else {
		w.see("remove-absent-peer")
	}
	if err := w.bl.Remove(w.peers[i]); err != nil {
		w.errViol("remove", err)
		return
	}
	w.model[i].reqs = nil
	w.run.Stat("removes", 1)
	got, err := w.bl.Exists(w.peers[i])
	if err != nil {
		w.errViol("exists", err)
		return
	}
	w.logf("t=%s Exists(peer%d) = %v", w.now.Format(time.RFC3339Nano), i, got)
	w.judge(i, w.now, got, "Exists right after Remove")
}

func (w *world) doExists(i int) {
	got, err := w.bl.Exists(w.peers[i])
	if err != nil {
		w.errViol("exists", err)
		return
	}
	w.logf("t=%s Exists(peer%d) = %v", w.now.Format(time.RFC3339Nano), i, got)
	w.run.Stat("exists_queries", 1)
	w.classify(i, w.now, got)
	w.judge(i, w.now, got, "Exists")
}

func (w *world) doPeers() {
	list, err := w.bl.Peers()
	if err != nil {
		w.errViol("peers", err)
		return
	}
	listed := map[string]int{}
	names := []string{}
	for _, p := range list {
		listed[p.Address.ByteString()]++
		names = append(names, p.Address.String())
	}
	w.logf("t=%s Peers() = %v", w.now.Format(time.RFC3339Nano), names)
	w.run.Stat("peers_listings", 1)
	if len(list) > 1 {
		w.see("listing-with-several-peers")
	}
	known := 0
	for i, p := range w.peers {
		got, err := w.bl.Exists(p)
		if err != nil {
			w.errViol("exists", err)
			return
		}
		w.run.Stat("listing_vs_exists_comparisons", 1)
		n := listed[p.ByteString()]
		known += n
		switch {
		case n > 0 && !got:
			w.c.Viol("peers-lists-peer-exists-denies", fmt.Sprintf("Peers() lists peer %d but Exists says not blocked", i), w.witness(map[string]interface{}{"peer": i}))
		case n == 0 && got:
			w.c.Viol("peers-omits-peer-exists-confirms", fmt.Sprintf("Peers() omits peer %d but Exists says blocked", i), w.witness(map[string]interface{}{"peer": i}))
		}
		if n > 0 {
			w.see("listed-and-blocked")
		}
		w.judge(i, w.now, got, "Exists during listing comparison")
		w.judge(i, w.now, n > 0, "Peers")
	}
	if known != len(list) {
		w.c.Viol("peers-lists-unknown-address", fmt.Sprintf("Peers() returned %d entries, %d of them for peers of this history", len(list), known), w.witness(nil))
	}
}

// boundaries lists the instants of this history at which some model bound changes.
func (w *world) boundaries() []time.Time {
	var out []time.Time
	for _, m := range w.model {
		if len(m.reqs) == 0 {
			continue
		}
		longest := time.Duration(-1 << 62)
		for _, r := range m.reqs {
			if r.d > 0 {
				out = append(out, r.at.Add(r.d))
			}
			if r.d > longest {
				longest = r.d
			}
		}
		if longest > 0 {
			out = append(out, m.reqs[len(m.reqs)-1].at.Add(longest))
		}
	}
	var fut []time.Time
	for _, t := range out {
		if t.After(w.now) {
			fut = append(fut, t)
		}
	}
	sort.Slice(fut, func(i, j int) bool { return fut[i].Before(fut[j]) })
	return fut
}

func (w *world) advance(rng *rand.Rand) {
	var step time.Duration
	switch rng.Intn(12) {
	case 0, 1:
		step = 0
	case 2:
		step = 1
	case 3:
		step = time.Second - 1
	case 4:
		step = time.Second
	case 5:
		step = time.Minute
	case 6:
		step = time.Hour
	case 7:
		step = time.Duration(rng.Int63n(int64(3 * time.Hour)))
	default:
		// jump next to a boundary of the model: 1ns before, exactly at, 1ns after
		if b := w.boundaries(); len(b) > 0 {
			t := b[rng.Intn(len(b))]
			if rng.Intn(3) == 0 && len(b) > 0 {
				t = b[0]
			}
			t = t.Add(time.Duration(rng.Intn(3) - 1))
			if t.After(w.now) {
				w.now = t
				w.see("clock-jump-to-boundary")
				return
			}
		}
		step = time.Duration(rng.Int63n(int64(2 * time.Second)))
	}
	w.now = w.now.Add(step)
}

func pickDuration(rng *rand.Rand) time.Duration {
	switch rng.Intn(16) {
	case 0, 1, 2:
		return 0
	case 3:
		return 1
	case 4, 5:
		return time.Second
	case 6, 7:
		return time.Hour
	case 8:
		return time.Duration(1 + rng.Int63n(int64(time.Second)))
	case 9:
		return 10 * 365 * 24 * time.Hour
	case 10:
		return -time.Duration(1 + rng.Int63n(int64(time.Hour)))
	case 11:
		return time.Duration(rng.Int63n(int64(48*time.Hour))) + time.Millisecond
	default:
		return time.Duration(1 + rng.Int63n(int64(2*time.Hour)))
	}
}

func makePeers(rng *rand.Rand) []boson.Address {
	n := 1 + rng.Intn(4)
	var out []boson.Address
	base := make([]byte, 32)
	rng.Read(base)
	out = append(out, boson.NewAddress(base))
	for len(out) < n {
		var b []byte
		switch rng.Intn(4) {
		case 0: // differs from the first peer in the last byte only
			b = append([]byte(nil), base...)
			b[31] ^= byte(len(out))
		case 1: // a proper prefix of the first peer's address
			b = append([]byte(nil), base[:1+rng.Intn(31)]...)
		default:
			b = make([]byte, 32)
			rng.Read(b)
		}
		a := boson.NewAddress(b)
		if a.MemberOf(out) {
			continue
		}
		out = append(out, a)
	}
	return out
}

// openStore opens the real in-memory leveldb state store once per test (opening it costs
// ~30 ms of buffer clearing); wipe empties it between histories.
func openStore(t *testing.T) storage.StateStorer {
	inner, err := ldbstate.NewInMemoryStateStore(logging.New(io.Discard, 0))
	if err != nil {
		t.Fatalf("state store: %v", err)
	}
	return inner
}

func wipe(t *testing.T, s storage.StateStorer) {
	var keys []string
	if err := s.Iterate("blocklist-", func(k, _ []byte) (bool, error) {
		keys = append(keys, string(k))
		return false, nil
	}); err != nil {
		t.Fatalf("wipe: %v", err)
	}
	for _, k := range keys {
		if err := s.Delete(k); err != nil {
			t.Fatalf("wipe: %v", err)
		}
	}
}

func runHistory(t *testing.T, run *obs.Run, c *obs.Case, inner storage.StateStorer, nops int) {
	rng := c.Rand()
	defer wipe(t, inner)
	w := &world{t: t, run: run, c: c, store: &probeStore{StateStorer: inner}, situ: map[string]bool{}}
	w.bl = verifx.NewBlocklist(w.store)
	w.now = time.Date(2021, 3, 1, 0, 0, 0, 0, time.UTC).Add(time.Duration(rng.Int63n(int64(365 * 24 * time.Hour))))
	if rng.Intn(2) == 0 {
		w.now = w.now.Truncate(time.Second)
	}
	restore := verifx.SetBlocklistTimeNow(func() time.Time { return w.now })
	defer restore()
	w.peers = makePeers(rng)
	for range w.peers {
		w.model = append(w.model, &peerModel{})
	}
	for k := 0; k < nops; k++ {
		w.advance(rng)
		i := rng.Intn(len(w.peers))
		switch x := rng.Intn(100); {
		case x < 38:
			w.doAdd(i, pickDuration(rng))
		case x < 48:
			w.doRemove(i)
		case x < 80:
			w.doExists(i)
		default:
			w.doPeers()
		}
	}
	// closing sweep: every peer, now and past every bound
	w.doPeers()
	w.now = w.now.Add(w.maxDur + time.Hour)
	w.logf("t=%s (clock moved past every bounded period)", w.now.Format(time.RFC3339Nano))
	w.doPeers()
	run.Stat("lazy_expiry_deletes", w.store.deletes)
	run.Stat("probe_deletes_suppressed", w.store.dropped)

	var keys []string
	readds := 0
	for s := range w.situ {
		if strings.HasPrefix(s, "add-") || strings.HasPrefix(s, "remove-") || strings.HasPrefix(s, "query-") || strings.HasPrefix(s, "clock-") {
			keys = append(keys, s)
		}
		if strings.HasPrefix(s, "add-") && !strings.HasPrefix(s, "add-fresh") {
			readds++
		}
	}
	sort.Strings(keys)
	c.End(fmt.Sprintf("peers=%d|%s", len(w.peers), strings.Join(keys, ",")), readds > 0)
	if readds > 0 {
		run.Stat("histories_with_readd_on_existing_requests", 1)
	}
}

func TestBlocklistHistories(t *testing.T) {
	run := obs.Start(t, "C25")
	defer run.Done()
	run.Rule("random histories over 1-4 peers (random, one-byte-apart and prefix addresses) of Add (durations 0, 1ns, 1s, 1h, random, 10y, negative), Remove, Exists, Peers at virtual clock steps {0,1ns,1s-1ns,1s,1min,1h,random,jump to 1ns before/at/after a period end or the upper bound}; after each Add the real Exists is probed (state frozen) at now, 1ns before the period end, 280y ahead for zero durations, and at the last instant it reported blocked before the Add; distinct = (number of peers, set of model situations met); non-trivial = some Add met earlier requests for the same peer",
		"the state store is healthy (in-memory leveldb): an error from Add/Remove/Exists/Peers is reported as a violation",
		"the instant exactly at the end of a requested period is not judged")
	n := run.N(1000, 12000)
	nops := run.N(30, 40)
	inner := openStore(t)
	defer func() { inner.Close() }()
	for k := 0; k < n; k++ {
		c := run.Begin(fmt.Sprintf("hist/%d", k), map[string]interface{}{"ops": nops})
		if c == nil {
			continue
		}
		if k%400 == 399 { // a fresh store now and then: deleted keys slow leveldb iteration down
			inner.Close()
			inner = openStore(t)
		}
		runHistory(t, run, c, inner, nops)
	}
}

// TestDirected runs the handful of fixed histories the statement names explicitly.
func TestDirected(t *testing.T) {
	run := obs.Start(t, "C25")
	defer run.Done()
	run.Rule("directed histories: every ordered pair of durations from {0,1ns,1s,1h,2h} added at gaps {0,1ns,30min,1h,1h+1ns,3h} with and without an intermediate Exists (lazy expiry) or Remove; distinct = (d1 class, d2 class, gap, middle op)")
	durs := []time.Duration{0, 1, time.Second, time.Hour, 2 * time.Hour}
	gaps := []time.Duration{0, 1, 30 * time.Minute, time.Hour, time.Hour + 1, 3 * time.Hour}
	mids := []string{"none", "exists", "remove", "peers"}
	k := 0
	inner := openStore(t)
	defer inner.Close()
	for _, d1 := range durs {
		for _, d2 := range durs {
			for _, gap := range gaps {
				for _, mid := range mids {
					k++
					c := run.Begin(fmt.Sprintf("pair/%s/%s/%s/%s", d1, d2, gap, mid), nil)
					if c == nil {
						continue
					}
					w := &world{t: t, run: run, c: c, store: &probeStore{StateStorer: inner}, situ: map[string]bool{}}
					w.bl = verifx.NewBlocklist(w.store)
					w.now = time.Date(2022, 1, 1, 0, 0, 0, 0, time.UTC)
					restore := verifx.SetBlocklistTimeNow(func() time.Time { return w.now })
					rng := c.Rand()
					w.peers = makePeers(rng)[:1]
					w.model = []*peerModel{{}}
					w.doAdd(0, d1)
					w.now = w.now.Add(gap)
					switch mid {
					case "exists":
						w.doExists(0)
					case "remove":
						w.doRemove(0)
					case "peers":
						w.doPeers()
					}
					w.doAdd(0, d2)
					w.doPeers()
					for _, step := range []time.Duration{1, time.Second, time.Hour - time.Second - 2, 1, 1, time.Hour, 1, time.Hour, 5 * time.Hour} {
						w.now = w.now.Add(step)
						w.doExists(0)
					}
					w.doPeers()
					restore()
					wipe(t, inner)
					c.End(fmt.Sprintf("%s/%s/%s/%s", d1, d2, gap, mid), true)
				}
			}
		}
	}
	run.Stat("directed_pairs", int64(k))
}
