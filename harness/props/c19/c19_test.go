// Package c19 checks C19: shed indexes behave as isolated sorted maps from encoded key to value,
// batches take effect only and entirely on commit, fields and vectors return their last written
// value, also after reopening. Runs the real shed over the real leveldb driver (vdb).
//
// Oracle: per index a Go map raw-key -> raw-value (sorted on demand), per field its last value.
package c19

import (
	"bytes"
	"encoding/binary"
	"errors"
	"fmt"
	"math"
	"math/rand"
	"os"
	"sort"
	"strings"
	"testing"

	"github.com/gauss-project/aurorafs/pkg/shed"
	"github.com/gauss-project/aurorafs/pkg/shed/driver"
	"verif/harness/internal/obs"
	"verif/harness/internal/vdb"
)

// ---- the three index codecs (workload input, shared by shed and by the oracle) -----------

func be(v uint64) []byte {
	b := make([]byte, 8)
	binary.BigEndian.PutUint64(b, v)
	return b
}

type idxSpec struct {
	name  string
	key   func(shed.Item) []byte // raw key (without shed's index id)
	val   func(shed.Item) []byte
	dkey  func([]byte) shed.Item
	dval  func([]byte) shed.Item
	funcs shed.IndexFuncs
}

func mkSpec(name string, key, val func(shed.Item) []byte, dkey, dval func([]byte) shed.Item) *idxSpec {
	s := &idxSpec{name: name, key: key, val: val, dkey: dkey, dval: dval}
	s.funcs = shed.IndexFuncs{
		EncodeKey:   func(i shed.Item) ([]byte, error) { return key(i), nil },
		DecodeKey:   func(k []byte) (shed.Item, error) { return dkey(k), nil },
		EncodeValue: func(i shed.Item) ([]byte, error) { return val(i), nil },
		DecodeValue: func(_ shed.Item, v []byte) (shed.Item, error) { return dval(v), nil },
	}
	return s
}

var specs = []*idxSpec{
	// 0: address -> data (variable-length keys, may be empty, may start with any byte)
	mkSpec("addr-data",
		func(i shed.Item) []byte { return append([]byte{}, i.Address...) },
		func(i shed.Item) []byte { return append([]byte{}, i.Data...) },
		func(k []byte) shed.Item { return shed.Item{Address: k} },
		func(v []byte) shed.Item { return shed.Item{Data: v} }),
	// 1: bin id | address -> store timestamp | data
	mkSpec("bin-addr-ts-data",
		func(i shed.Item) []byte { return append(be(i.BinID), i.Address...) },
		func(i shed.Item) []byte { return append(be(uint64(i.StoreTimestamp)), i.Data...) },
		func(k []byte) shed.Item { return shed.Item{BinID: binary.BigEndian.Uint64(k[:8]), Address: k[8:]} },
		func(v []byte) shed.Item {
			return shed.Item{StoreTimestamp: int64(binary.BigEndian.Uint64(v[:8])), Data: v[8:]}
		}),
	// 2: access timestamp | 2-byte address -> bin id
	mkSpec("ts-addr-bin",
		func(i shed.Item) []byte { return append(be(uint64(i.AccessTimestamp)), i.Address...) },
		func(i shed.Item) []byte { return be(i.BinID) },
		func(k []byte) shed.Item {
			return shed.Item{AccessTimestamp: int64(binary.BigEndian.Uint64(k[:8])), Address: k[8:]}
		},
		func(v []byte) shed.Item { return shed.Item{BinID: binary.BigEndian.Uint64(v)} }),
}

// keyOnly returns an Item carrying only the key fields of it for index x.
func keyOnly(x int, it shed.Item) shed.Item {
	switch x {
	case 0:
		return shed.Item{Address: it.Address}
	case 1:
		return shed.Item{Address: it.Address, BinID: it.BinID}
	}
	return shed.Item{Address: it.Address, AccessTimestamp: it.AccessTimestamp}
}

// ---- pools -------------------------------------------------------------------------------

var alphabet = []byte{0x00, 0x01, 0x02, 0x03, 0x04, 0x05, 0xff, 'a'}

type pools struct {
	carry  []byte   // non-nil: prefix {b,ff} of the carry family
	addrs  [][]byte // idx 0 and 1
	addrs2 [][]byte // idx 2 (2 bytes)
	bins   []uint64
	tss    []int64
}

func genPools(rng *rand.Rand) *pools {
	p := &pools{}
	for i := 0; i < 9; i++ {
		a := make([]byte, rng.Intn(4))
		for j := range a {
			a[j] = alphabet[rng.Intn(len(alphabet))]
		}
		p.addrs = append(p.addrs, a)
	}
	if rng.Intn(3) == 0 {
		p.addrs = append(p.addrs, []byte{0xff}, []byte{0xff, 0xff})
	}
	if rng.Intn(3) == 0 {
		// a "carry family": keys below the prefix {b,ff} together with the key {b+1} (and
		// {b+1,00}), i.e. the first keys after everything that carries the prefix
		b := byte(rng.Intn(5))
		p.carry = []byte{b, 0xff}
		p.addrs = append(p.addrs, []byte{b, 0xff}, []byte{b, 0xff, alphabet[rng.Intn(len(alphabet))]}, []byte{b + 1})
		if rng.Intn(2) == 0 {
			p.addrs = append(p.addrs, []byte{b + 1, 0x00})
		}
	}
	for i := 0; i < 5; i++ {
		p.addrs2 = append(p.addrs2, []byte{alphabet[rng.Intn(len(alphabet))], alphabet[rng.Intn(len(alphabet))]})
	}
	allBins := []uint64{0, 1, 2, 3, 255, 256, 1 << 32, math.MaxUint64}
	allTs := []int64{0, 1, 2, 1 << 40, math.MaxInt64}
	for i := 0; i < 3; i++ {
		p.bins = append(p.bins, allBins[rng.Intn(len(allBins))])
		p.tss = append(p.tss, allTs[rng.Intn(len(allTs))])
	}
	return p
}

func (p *pools) item(rng *rand.Rand, x int) shed.Item {
	d := make([]byte, rng.Intn(7))
	rng.Read(d)
	switch x {
	case 0:
		return shed.Item{Address: p.addrs[rng.Intn(len(p.addrs))], Data: d}
	case 1:
		return shed.Item{Address: p.addrs[rng.Intn(len(p.addrs))], BinID: p.bins[rng.Intn(len(p.bins))],
			StoreTimestamp: []int64{0, 1, 1 << 33, math.MaxInt64}[rng.Intn(4)], Data: d}
	}
	return shed.Item{Address: p.addrs2[rng.Intn(len(p.addrs2))], AccessTimestamp: p.tss[rng.Intn(len(p.tss))],
		BinID: []uint64{0, 1, 77, math.MaxUint64}[rng.Intn(4)]}
}

// allKeys enumerates every raw key the pools can form for index x (sorted, unique).
func (p *pools) allKeys(x int) [][]byte {
	seen := map[string]bool{}
	var out [][]byte
	add := func(it shed.Item) {
		k := specs[x].key(it)
		if !seen[string(k)] {
			seen[string(k)] = true
			out = append(out, k)
		}
	}
	switch x {
	case 0:
		for _, a := range p.addrs {
			add(shed.Item{Address: a})
		}
	case 1:
		for _, a := range p.addrs {
			for _, b := range p.bins {
				add(shed.Item{Address: a, BinID: b})
			}
		}
	default:
		for _, a := range p.addrs2 {
			for _, t := range p.tss {
				add(shed.Item{Address: a, AccessTimestamp: t})
			}
		}
	}
	sort.Slice(out, func(i, j int) bool { return bytes.Compare(out[i], out[j]) < 0 })
	return out
}

// ---- model -------------------------------------------------------------------------------

type kv struct{ k, v string }

type model struct {
	idx  [3]map[string]string
	u64  map[string]uint64 // uint64 fields and vector slots ("vec[i]")
	strs map[string]string
}

func newModel() *model {
	m := &model{u64: map[string]uint64{}, strs: map[string]string{}}
	for i := range m.idx {
		m.idx[i] = map[string]string{}
	}
	return m
}

func (m *model) sorted(x int) []kv {
	out := make([]kv, 0, len(m.idx[x]))
	for k, v := range m.idx[x] {
		out = append(out, kv{k, v})
	}
	sort.Slice(out, func(i, j int) bool { return out[i].k < out[j].k })
	return out
}

type iterOpts struct {
	prefix  []byte
	start   *shed.Item
	skip    bool
	reverse bool
}

func (o iterOpts) class() string {
	c := "fwd"
	if o.reverse {
		c = "rev"
	}
	if o.prefix != nil {
		c += "+prefix"
	}
	if o.start != nil {
		c += "+start"
		if o.skip {
			c += "+skip"
		}
	} else if o.skip {
		c += "+skip-nostart"
	}
	return c
}

func (o iterOpts) String(x int) string {
	s := o.class()
	if o.prefix != nil {
		s += fmt.Sprintf(" prefix=%x", o.prefix)
	}
	if o.start != nil {
		s += fmt.Sprintf(" start=%x", specs[x].key(*o.start))
	}
	return s
}

// expect is the reference iteration: keys with the prefix, from the start key on (inclusive
// unless skip), ascending or descending.
func (m *model) expect(x int, o iterOpts) []kv {
	all := m.sorted(x)
	var out []kv
	var sk string
	if o.start != nil {
		sk = string(specs[x].key(*o.start))
	}
	for _, e := range all {
		if !strings.HasPrefix(e.k, string(o.prefix)) {
			continue
		}
		if o.start != nil {
			if !o.reverse && (e.k < sk || o.skip && e.k == sk) {
				continue
			}
			if o.reverse && (e.k > sk || o.skip && e.k == sk) {
				continue
			}
		}
		out = append(out, e)
	}
	if o.reverse {
		for i, j := 0, len(out)-1; i < j; i, j = i+1, j-1 {
			out[i], out[j] = out[j], out[i]
		}
	}
	return out
}

// ---- the database under test ---------------------------------------------------------------

type handles struct {
	db   *shed.DB
	idx  [3]shed.Index
	u64  map[string]shed.Uint64Field
	str  shed.StringField
	vec  shed.Uint64Vector
	path string
}

var u64Names = []string{"gc-size", "gc"} // one name is a prefix of the other
var vecSlots = []uint64{0, 1, 2, 1 << 32, math.MaxUint64}

const smallBuffer = `:{"WriteBuffer":1048576}`

func open(path string, driverCfg string, order []int) (*handles, error) {
	vdb.Register()
	db, err := shed.NewDB(path, &shed.Options{Driver: vdb.Name + driverCfg})
	if err != nil {
		return nil, err
	}
	h := &handles{db: db, path: path, u64: map[string]shed.Uint64Field{}}
	for _, x := range order {
		if h.idx[x], err = db.NewIndex(specs[x].name, specs[x].funcs); err != nil {
			return nil, err
		}
	}
	for _, n := range u64Names {
		if h.u64[n], err = db.NewUint64Field(n); err != nil {
			return nil, err
		}
	}
	if h.str, err = db.NewStringField("label"); err != nil {
		return nil, err
	}
	if h.vec, err = db.NewUint64Vector("vec"); err != nil {
		return nil, err
	}
	return h, nil
}

var errCallback = errors.New("c19: error returned by the iteration callback")

type pending struct {
	apply func(m *model)
	descr string
}

type hist struct {
	t     *testing.T
	run   *obs.Run
	c     *obs.Case
	h     *handles
	m     *model
	p     *pools
	rng   *rand.Rand
	cfg   string
	ops   []string
	batch driver.Batching
	pend  []pending

	commits, abandons, reopens int
	classes                    map[string]bool
}

func (s *hist) log(format string, a ...interface{}) {
	s.ops = append(s.ops, fmt.Sprintf(format, a...))
}

func (s *hist) witness(extra map[string]interface{}) map[string]interface{} {
	ops := s.ops
	if len(ops) > 80 {
		ops = ops[len(ops)-80:]
	}
	w := map[string]interface{}{"ops_so_far": ops, "store": s.storeName(), "index_names_in_id_order": []string{specs[0].name, specs[1].name, specs[2].name}}
	for k, v := range extra {
		w[k] = v
	}
	return w
}

func (s *hist) storeName() string {
	if s.h.path == "" {
		return "memory"
	}
	return "directory"
}

func (s *hist) viol(key, msg string, extra map[string]interface{}) {
	s.c.Viol(key, msg, s.witness(extra))
}

// guard runs one operation under recover.
func (s *hist) guard(where string, f func()) {
	defer func() {
		if r := recover(); r != nil {
			s.viol("panic-"+where, fmt.Sprintf("%s panicked: %v", where, r), nil)
		}
	}()
	f()
}

func hx(b []byte) string { return fmt.Sprintf("%x", b) }

func kvs(l []kv) []string {
	out := make([]string, len(l))
	for i, e := range l {
		out[i] = fmt.Sprintf("%x=%x", e.k, e.v)
	}
	return out
}

// observed converts an Item returned by shed into the raw (key, value) pair it stands for.
func observed(x int, it shed.Item) kv {
	return kv{string(specs[x].key(it)), string(specs[x].val(it))}
}

// ---- index operations ----------------------------------------------------------------------

func (s *hist) put(x int, it shed.Item, inBatch bool) {
	k, v := specs[x].key(it), specs[x].val(it)
	if inBatch {
		s.log("batch-put idx%d %x=%x", x, k, v)
		s.ensureBatch()
		if err := s.h.idx[x].PutInBatch(s.batch, it); err != nil {
			s.viol("put-in-batch-error", err.Error(), nil)
			return
		}
		s.pend = append(s.pend, pending{func(m *model) { m.idx[x][string(k)] = string(v) }, "put"})
		s.run.Stat("op_put_in_batch", 1)
		return
	}
	s.log("put idx%d %x=%x", x, k, v)
	if err := s.h.idx[x].Put(it); err != nil {
		s.viol("put-error", err.Error(), nil)
		return
	}
	s.m.idx[x][string(k)] = string(v)
	s.run.Stat("op_put", 1)
}

func (s *hist) del(x int, it shed.Item, inBatch bool) {
	k := specs[x].key(it)
	if inBatch {
		s.log("batch-delete idx%d %x", x, k)
		s.ensureBatch()
		if err := s.h.idx[x].DeleteInBatch(s.batch, keyOnly(x, it)); err != nil {
			s.viol("delete-in-batch-error", err.Error(), nil)
			return
		}
		s.pend = append(s.pend, pending{func(m *model) { delete(m.idx[x], string(k)) }, "delete"})
		s.run.Stat("op_delete_in_batch", 1)
		return
	}
	s.log("delete idx%d %x", x, k)
	if err := s.h.idx[x].Delete(keyOnly(x, it)); err != nil {
		s.viol("delete-error", err.Error(), nil)
		return
	}
	if _, ok := s.m.idx[x][string(k)]; ok {
		s.run.Stat("op_delete_present", 1)
	}
	delete(s.m.idx[x], string(k))
}

func (s *hist) readsUnderBatch() {
	if s.batch != nil && len(s.pend) > 0 {
		s.run.Stat("reads_while_uncommitted_batch_pending", 1)
	}
}

func (s *hist) get(x int, it shed.Item) {
	k := specs[x].key(it)
	s.log("get idx%d %x", x, k)
	s.readsUnderBatch()
	want, present := s.m.idx[x][string(k)]
	got, err := s.h.idx[x].Get(keyOnly(x, it))
	has, herr := s.h.idx[x].Has(keyOnly(x, it))
	s.run.Stat("op_get_has", 1)
	if herr != nil {
		s.viol("has-error", herr.Error(), nil)
	} else if has != present {
		s.viol("has-mismatch", fmt.Sprintf("idx%d Has(%x)=%v, sorted map says %v", x, k, has, present), nil)
	}
	switch {
	case present && err != nil:
		s.viol("get-error-on-present-key", fmt.Sprintf("idx%d Get(%x): %v", x, k, err), nil)
	case present:
		s.run.Stat("get_present", 1)
		o := observed(x, got)
		if o.k != string(k) || o.v != want {
			s.viol("get-value-mismatch", fmt.Sprintf("idx%d Get(%x) = %x=%x, sorted map has value %x", x, k, o.k, o.v, want), nil)
		}
	case err == nil:
		s.viol("get-finds-absent-key", fmt.Sprintf("idx%d Get(%x) succeeded: %x", x, k, observed(x, got).v), nil)
	case !errors.Is(err, driver.ErrNotFound):
		s.viol("get-absent-error-not-notfound", fmt.Sprintf("idx%d Get(%x): %v", x, k, err), nil)
	default:
		s.run.Stat("get_absent", 1)
	}
}

func (s *hist) hasMultiAndFill(x int) {
	n := 1 + s.rng.Intn(4)
	items := make([]shed.Item, n)
	var ks []string
	allPresent := true
	for i := range items {
		items[i] = keyOnly(x, s.p.item(s.rng, x))
		k := string(specs[x].key(items[i]))
		ks = append(ks, hx([]byte(k)))
		if _, ok := s.m.idx[x][k]; !ok {
			allPresent = false
		}
	}
	s.log("hasmulti+fill idx%d %v", x, ks)
	s.readsUnderBatch()
	have, err := s.h.idx[x].HasMulti(items...)
	s.run.Stat("op_hasmulti", 1)
	if err != nil {
		s.viol("hasmulti-error", err.Error(), nil)
	} else {
		for i := range items {
			_, ok := s.m.idx[x][string(specs[x].key(items[i]))]
			if i >= len(have) || have[i] != ok {
				s.viol("hasmulti-mismatch", fmt.Sprintf("idx%d HasMulti(%v)=%v, position %d should be %v", x, ks, have, i, ok), nil)
				break
			}
		}
	}
	fill := append([]shed.Item(nil), items...)
	err = s.h.idx[x].Fill(fill)
	s.run.Stat("op_fill", 1)
	switch {
	case allPresent && err != nil:
		s.viol("fill-error-all-present", fmt.Sprintf("idx%d Fill(%v): %v", x, ks, err), nil)
	case allPresent:
		s.run.Stat("fill_all_present", 1)
		for i := range fill {
			o := observed(x, fill[i])
			k := string(specs[x].key(items[i]))
			if o.k != k || o.v != s.m.idx[x][k] {
				s.viol("fill-value-mismatch", fmt.Sprintf("idx%d Fill item %d: %x=%x, sorted map has %x=%x", x, i, o.k, o.v, k, s.m.idx[x][k]), nil)
				break
			}
		}
	case err == nil:
		s.viol("fill-succeeds-with-absent-key", fmt.Sprintf("idx%d Fill(%v) returned nil although a key is absent", x, ks), nil)
	}
}

func (s *hist) randomPrefix(x int) []byte {
	if s.p.carry != nil && x == 0 && s.rng.Intn(3) == 0 {
		s.run.Stat("prefix_queries_on_a_carry_family", 1)
		return append([]byte{}, s.p.carry...)
	}
	switch r := s.rng.Intn(10); {
	case r < 4:
		return nil
	case r < 5:
		return [][]byte{{0xff}, {0xff, 0xff}, {0x00}, {}}[s.rng.Intn(4)]
	}
	keys := s.p.allKeys(x)
	k := keys[s.rng.Intn(len(keys))]
	if x > 0 && s.rng.Intn(2) == 0 && len(k) >= 8 {
		return append([]byte{}, k[:8]...) // the whole leading integer
	}
	return append([]byte{}, k[:s.rng.Intn(len(k)+1)]...)
}

func (s *hist) randomOpts(x int) iterOpts {
	o := iterOpts{reverse: s.rng.Intn(2) == 0, prefix: s.randomPrefix(x)}
	if s.rng.Intn(2) == 0 {
		// candidate start keys: they carry the prefix; for reverse they exist in the index
		var cands [][]byte
		if o.reverse {
			for k := range s.m.idx[x] {
				if strings.HasPrefix(k, string(o.prefix)) {
					cands = append(cands, []byte(k))
				}
			}
			sort.Slice(cands, func(i, j int) bool { return bytes.Compare(cands[i], cands[j]) < 0 })
		} else {
			for _, k := range s.p.allKeys(x) {
				if bytes.HasPrefix(k, o.prefix) {
					cands = append(cands, k)
				}
			}
		}
		if len(cands) > 0 {
			it := specs[x].dkey(cands[s.rng.Intn(len(cands))])
			o.start = &it
		}
	}
	if o.start != nil {
		o.skip = s.rng.Intn(2) == 0
	} else {
		o.skip = s.rng.Intn(10) == 0
	}
	return o
}

func (s *hist) iterate(x int, o iterOpts, mode string, at int) {
	s.log("iterate idx%d %s %s@%d", x, o.String(x), mode, at)
	s.readsUnderBatch()
	full := s.m.expect(x, o)
	var got []kv
	calls := 0
	var opts *shed.IterateOptions
	if o.prefix != nil || o.start != nil || o.skip || o.reverse || s.rng.Intn(2) == 0 {
		opts = &shed.IterateOptions{StartFrom: o.start, SkipStartFromItem: o.skip, Prefix: o.prefix, Reverse: o.reverse}
	}
	err := s.h.idx[x].Iterate(func(it shed.Item) (bool, error) {
		calls++
		if calls > 100000 {
			return true, nil
		}
		got = append(got, observed(x, it))
		if mode != "all" && calls == at {
			if mode == "stop" {
				return true, nil
			}
			return false, errCallback
		}
		return false, nil
	}, opts)
	cl := o.class()
	s.classes[cl] = true
	s.run.Stat("iterate/"+cl, 1)
	s.run.Stat("iterate_mode_"+mode, 1)
	s.run.Stat("items_visited", int64(len(got)))
	if len(full) >= 2 && (mode == "all" || at >= 2) {
		s.run.Stat("iterations_expecting_2plus_items", 1)
	}
	key, msg, want := s.judge(x, o, mode, at, full, got, err)
	if key == "" {
		return
	}
	if o.skip && o.start == nil {
		// SkipStartFromItem without a StartFrom item: the statement does not say what "the start
		// item" is then. The code drops an item whose key equals the prefix; that reading is
		// accepted too and only counted.
		var alt []kv
		for _, e := range full {
			if e.k != string(o.prefix) {
				alt = append(alt, e)
			}
		}
		if len(alt) != len(full) {
			if k2, _, _ := s.judge(x, o, mode, at, alt, got, err); k2 == "" {
				s.run.Stat("info_skip_without_startfrom_dropped_item_equal_to_prefix", 1)
				return
			}
		}
	}
	s.viol(key, msg, map[string]interface{}{"index": x, "options": o.String(x), "mode": mode, "at": at,
		"visited": kvs(got), "expected": kvs(want), "index_content_sorted": kvs(s.m.sorted(x))})
}

// judge compares one observed iteration with the reference sequence full (before the callback's
// stop / error is taken into account). It returns an empty key when they agree.
func (s *hist) judge(x int, o iterOpts, mode string, at int, full, got []kv, err error) (key, msg string, want []kv) {
	want = full
	expectErr := false
	if mode != "all" && at <= len(full) {
		want = full[:at]
		expectErr = mode == "error"
	}
	cl := o.class()
	switch {
	case expectErr && err == nil:
		return "iterate-callback-error-swallowed", fmt.Sprintf("idx%d callback failed at invocation %d, Iterate returned nil", x, at), want
	case expectErr && !errors.Is(err, errCallback):
		return "iterate-callback-error-replaced", fmt.Sprintf("idx%d Iterate returned %v instead of the callback's error", x, err), want
	case !expectErr && err != nil:
		return "iterate-unexpected-error/" + cl, fmt.Sprintf("idx%d Iterate(%s): %v", x, o.String(x), err), want
	}
	if len(got) == len(want) {
		same, sameKeys := true, true
		for i := range got {
			if got[i].k != want[i].k {
				sameKeys, same = false, false
				break
			}
			if got[i].v != want[i].v {
				same = false
			}
		}
		if same {
			return "", "", want
		}
		if sameKeys {
			return "iterate-value-mismatch", fmt.Sprintf("idx%d Iterate(%s): right keys, wrong value", x, o.String(x)), want
		}
	}
	return "iterate-sequence-mismatch/" + cl, fmt.Sprintf("idx%d Iterate(%s) %s@%d visited %d items %v, the sorted map gives %d: %v",
		x, o.String(x), mode, at, len(got), kvs(got), len(want), kvs(want)), want
}

func (s *hist) firstLast(x int, prefix []byte) {
	s.log("first+last idx%d prefix=%x nil=%v", x, prefix, prefix == nil)
	s.readsUnderBatch()
	all := s.m.expect(x, iterOpts{prefix: prefix})
	check := func(name string, it shed.Item, err error, want *kv) {
		switch {
		case want == nil && err == nil:
			s.viol(name+"-finds-item-in-empty-range", fmt.Sprintf("idx%d %s(%x) returned %x", x, name, prefix, observed(x, it).k), nil)
		case want == nil && !errors.Is(err, driver.ErrNotFound):
			s.viol(name+"-empty-range-error-not-notfound", fmt.Sprintf("idx%d %s(%x): %v", x, name, prefix, err), nil)
		case want == nil:
			s.run.Stat(name+"_empty", 1)
		case err != nil && errors.Is(err, driver.ErrNotFound):
			kind := "with-prefix"
			if len(prefix) == 0 {
				kind = "whole-index"
			} else if len(bytes.Trim(prefix, "\xff")) == 0 {
				kind = "all-ff-prefix"
			}
			s.viol(name+"-notfound-on-nonempty-range/"+kind, fmt.Sprintf("idx%d %s(%x): not found, but the sorted map has %x there (index content %v)", x, name, prefix, want.k, kvs(s.m.sorted(x))),
				map[string]interface{}{"other_indexes_nonempty": []int{len(s.m.idx[0]), len(s.m.idx[1]), len(s.m.idx[2])}})
		case err != nil:
			s.viol(name+"-error", fmt.Sprintf("idx%d %s(%x): %v", x, name, prefix, err), nil)
		default:
			s.run.Stat(name+"_found", 1)
			if o := observed(x, it); o != *want {
				s.viol(name+"-wrong-item", fmt.Sprintf("idx%d %s(%x) = %x=%x, the sorted map says %x=%x", x, name, prefix, o.k, o.v, want.k, want.v), nil)
			}
		}
	}
	var wf, wl *kv
	if len(all) > 0 {
		wf, wl = &all[0], &all[len(all)-1]
	}
	it, err := s.h.idx[x].First(prefix)
	check("first", it, err, wf)
	it, err = s.h.idx[x].Last(prefix)
	check("last", it, err, wl)
}

func (s *hist) counts(x int) {
	s.readsUnderBatch()
	n, err := s.h.idx[x].Count()
	s.log("count idx%d", x)
	s.run.Stat("op_count", 1)
	if err != nil {
		s.viol("count-error", err.Error(), nil)
	} else if n != len(s.m.idx[x]) {
		s.viol("count-mismatch", fmt.Sprintf("idx%d Count()=%d, the sorted map has %d keys (sizes of all indexes %d/%d/%d)", x, n, len(s.m.idx[x]), len(s.m.idx[0]), len(s.m.idx[1]), len(s.m.idx[2])), nil)
	}
	keys := s.p.allKeys(x)
	start := specs[x].dkey(keys[s.rng.Intn(len(keys))])
	sk := string(specs[x].key(start))
	want := 0
	for k := range s.m.idx[x] {
		if k >= sk {
			want++
		}
	}
	s.log("countfrom idx%d %x", x, sk)
	n, err = s.h.idx[x].CountFrom(start)
	if err != nil {
		s.viol("countfrom-error", err.Error(), nil)
	} else if n != want {
		s.viol("countfrom-mismatch", fmt.Sprintf("idx%d CountFrom(%x)=%d, the sorted map has %d keys >= it", x, sk, n, want), nil)
	}
}

// ---- fields --------------------------------------------------------------------------------

func (s *hist) fieldOp() {
	inBatch := s.rng.Intn(3) == 0
	if inBatch {
		s.ensureBatch()
	}
	vals := []uint64{0, 1, 2, 7, 1 << 63, math.MaxUint64 - 1}
	switch s.rng.Intn(3) {
	case 0: // uint64 field
		name := u64Names[s.rng.Intn(len(u64Names))]
		f := s.h.u64[name]
		s.u64Op(name, inBatch, vals[s.rng.Intn(len(vals))],
			f.Get, f.Put, f.Inc, f.Dec,
			func(v uint64) error { return f.PutInBatch(s.batch, v) },
			func() (uint64, error) { return f.IncInBatch(s.batch) },
			func() (uint64, error) { return f.DecInBatch(s.batch) })
	case 1: // vector slot
		i := vecSlots[s.rng.Intn(len(vecSlots))]
		v := s.h.vec
		s.u64Op(fmt.Sprintf("vec[%d]", i), inBatch, vals[s.rng.Intn(len(vals))],
			func() (uint64, error) { return v.Get(i) },
			func(x uint64) error { return v.Put(i, x) },
			func() (uint64, error) { return v.Inc(i) },
			func() (uint64, error) { return v.Dec(i) },
			func(x uint64) error { return v.PutInBatch(s.batch, i, x) },
			func() (uint64, error) { return v.IncInBatch(s.batch, i) },
			func() (uint64, error) { return v.DecInBatch(s.batch, i) })
	default: // string field
		strs := []string{"", "a", "label with spaces", "\x00\xff", "日本語"}
		val := strs[s.rng.Intn(len(strs))]
		if s.rng.Intn(2) == 0 {
			s.checkString()
			return
		}
		if inBatch {
			s.log("batch string-put %q", val)
			if err := s.h.str.PutInBatch(s.batch, val); err != nil {
				s.viol("field-put-in-batch-error", err.Error(), nil)
				return
			}
			s.pend = append(s.pend, pending{func(m *model) { m.strs["label"] = val }, "string"})
		} else {
			s.log("string-put %q", val)
			if err := s.h.str.Put(val); err != nil {
				s.viol("field-put-error", err.Error(), nil)
				return
			}
			s.m.strs["label"] = val
		}
		s.run.Stat("op_field_write", 1)
	}
}

func (s *hist) checkString() {
	s.log("string-get")
	s.readsUnderBatch()
	got, err := s.h.str.Get()
	s.run.Stat("op_field_read", 1)
	if err != nil {
		s.viol("field-get-error", err.Error(), nil)
	} else if got != s.m.strs["label"] {
		s.viol("string-field-value-mismatch", fmt.Sprintf("string field = %q, last written %q", got, s.m.strs["label"]), nil)
	}
}

func (s *hist) checkU64(name string, get func() (uint64, error)) {
	s.readsUnderBatch()
	got, err := get()
	s.run.Stat("op_field_read", 1)
	if err != nil {
		s.viol("field-get-error", fmt.Sprintf("%s: %v", name, err), nil)
	} else if got != s.m.u64[name] {
		kind := "uint64-field"
		if strings.HasPrefix(name, "vec[") {
			kind = "uint64-vector"
		}
		s.viol(kind+"-value-mismatch", fmt.Sprintf("%s = %d, last written %d", name, got, s.m.u64[name]), nil)
	}
}

func (s *hist) u64Op(name string, inBatch bool, v uint64,
	get func() (uint64, error), put func(uint64) error, inc, dec func() (uint64, error),
	putB func(uint64) error, incB, decB func() (uint64, error)) {
	cur := s.m.u64[name] // the committed value: what Get must return now
	write := func(val uint64) {
		if inBatch {
			s.pend = append(s.pend, pending{func(m *model) { m.u64[name] = val }, "u64"})
		} else {
			s.m.u64[name] = val
		}
		s.run.Stat("op_field_write", 1)
	}
	b := ""
	if inBatch {
		b = "batch "
	}
	switch r := s.rng.Intn(10); {
	case r < 3:
		s.log("%s get", name)
		s.checkU64(name, get)
	case r < 6:
		s.log("%s%s put %d", b, name, v)
		var err error
		if inBatch {
			err = putB(v)
		} else {
			err = put(v)
		}
		if err != nil {
			s.viol("field-put-error", err.Error(), nil)
			return
		}
		write(v)
	case r < 8:
		if cur == math.MaxUint64 {
			return // overflow is outside the statement
		}
		s.log("%s%s inc", b, name)
		var got uint64
		var err error
		if inBatch {
			got, err = incB()
		} else {
			got, err = inc()
		}
		if err != nil {
			s.viol("field-inc-error", err.Error(), nil)
			return
		}
		if got != cur+1 {
			s.viol("field-inc-result", fmt.Sprintf("%s%s Inc returned %d, stored value was %d", b, name, got, cur), nil)
		}
		write(got)
	default:
		s.log("%s%s dec", b, name)
		var got uint64
		var err error
		if inBatch {
			got, err = decB()
		} else {
			got, err = dec()
		}
		if err != nil {
			s.viol("field-dec-error", err.Error(), nil)
			return
		}
		want := cur
		if want > 0 {
			want--
		}
		if got != want {
			s.viol("field-dec-result", fmt.Sprintf("%s%s Dec returned %d, stored value was %d", b, name, got, cur), nil)
		}
		write(got)
	}
	if !inBatch {
		s.checkU64(name, get)
	}
}

// ---- batches, reopen, full check ----------------------------------------------------------

func (s *hist) ensureBatch() {
	if s.batch == nil {
		s.batch = s.h.db.NewBatch()
		s.pend = nil
		s.log("new batch")
	}
}

func (s *hist) endBatch(commit bool) {
	if s.batch == nil {
		return
	}
	if commit {
		s.log("commit (%d writes)", len(s.pend))
		if err := s.batch.Commit(); err != nil {
			s.viol("batch-commit-error", err.Error(), nil)
		} else {
			for _, p := range s.pend {
				p.apply(s.m)
			}
			s.commits++
			s.run.Stat("batches_committed", 1)
			s.run.Stat("batched_writes_committed", int64(len(s.pend)))
		}
	} else {
		s.log("abandon batch (%d writes)", len(s.pend))
		s.abandons++
		s.run.Stat("batches_abandoned", 1)
		s.run.Stat("batched_writes_abandoned", int64(len(s.pend)))
	}
	s.batch, s.pend = nil, nil
	s.fullCheck("after-batch")
}

// fullCheck reads back everything: each index forwards and backwards, counts, fields.
func (s *hist) fullCheck(why string) {
	s.log("full check (%s)", why)
	for x := 0; x < 3; x++ {
		s.iterate(x, iterOpts{}, "all", 0)
		s.iterate(x, iterOpts{reverse: true}, "all", 0)
		n, err := s.h.idx[x].Count()
		if err != nil {
			s.viol("count-error", err.Error(), nil)
		} else if n != len(s.m.idx[x]) {
			s.viol("count-mismatch", fmt.Sprintf("idx%d Count()=%d, the sorted map has %d keys (sizes of all indexes %d/%d/%d)", x, n, len(s.m.idx[x]), len(s.m.idx[0]), len(s.m.idx[1]), len(s.m.idx[2])), nil)
		}
		s.run.Stat("full_checks_index", 1)
	}
	for _, n := range u64Names {
		s.checkU64(n, s.h.u64[n].Get)
	}
	for _, i := range vecSlots {
		i := i
		s.checkU64(fmt.Sprintf("vec[%d]", i), func() (uint64, error) { return s.h.vec.Get(i) })
	}
	s.checkString()
}

func (s *hist) reopen() {
	if s.h.path == "" {
		return
	}
	if s.batch != nil {
		s.endBatch(s.rng.Intn(2) == 0)
	}
	s.log("close + reopen (indexes re-created in another order)")
	if err := s.h.db.Close(); err != nil {
		s.t.Fatalf("close: %v", err)
	}
	order := s.rng.Perm(3)
	h, err := open(s.h.path, s.cfg, order)
	if err != nil {
		s.viol("reopen-error", err.Error(), nil)
		s.t.Fatalf("reopen: %v", err)
	}
	s.h = h
	s.reopens++
	s.run.Stat("reopens", 1)
	s.run.Stat("entries_checked_after_reopen", int64(len(s.m.idx[0])+len(s.m.idx[1])+len(s.m.idx[2])+len(s.m.u64)+len(s.m.strs)))
	s.fullCheck("after-reopen")
}

// target picks an item for get/delete: mostly one that is in the index now.
func (s *hist) target(x int) shed.Item {
	if len(s.m.idx[x]) > 0 && s.rng.Intn(10) < 6 {
		l := s.m.sorted(x)
		return specs[x].dkey([]byte(l[s.rng.Intn(len(l))].k))
	}
	return s.p.item(s.rng, x)
}

func (s *hist) step() {
	x := s.rng.Intn(3)
	if s.p.carry != nil && s.rng.Intn(12) == 0 {
		// keep the carry family populated: {b,ff}, {b,ff,*} and {b+1}
		for _, a := range s.p.addrs {
			if bytes.HasPrefix(a, s.p.carry) || (len(a) >= 1 && a[0] == s.p.carry[0]+1) {
				s.put(0, shed.Item{Address: a, Data: []byte{1}}, false)
			}
		}
		return
	}
	switch r := s.rng.Intn(100); {
	case r < 22:
		s.put(x, s.p.item(s.rng, x), false)
	case r < 32:
		s.put(x, s.p.item(s.rng, x), true)
	case r < 38:
		s.del(x, s.target(x), false)
	case r < 42:
		s.del(x, s.target(x), true)
	case r < 50:
		s.get(x, s.target(x))
	case r < 54:
		s.hasMultiAndFill(x)
	case r < 72:
		mode, at := "all", 0
		if r := s.rng.Intn(10); r >= 6 {
			mode, at = []string{"stop", "error"}[r%2], 1+s.rng.Intn(3)
		}
		s.iterate(x, s.randomOpts(x), mode, at)
	case r < 79:
		s.firstLast(x, s.randomPrefix(x))
	case r < 83:
		s.counts(x)
	case r < 93:
		s.fieldOp()
	case r < 97:
		s.endBatch(s.rng.Intn(3) != 0)
	default:
		s.reopen()
	}
}

func sizeClass(n int) string {
	switch {
	case n == 0:
		return "0"
	case n == 1:
		return "1"
	case n < 4:
		return "2-3"
	}
	return "4+"
}

func TestShedHistories(t *testing.T) {
	run := obs.Start(t, "C19")
	defer run.Done()
	run.Rule("random histories over a fresh shed DB (real leveldb driver; 2 of 3 in memory, 1 of 3 in a directory with close+reopen and indexes re-created in another order) with 3 indexes of different key/value codecs (variable-length keys over bytes {00..05,ff,'a'} incl. the empty key and keys that start with the next index's id; 8-byte integer prefixes), two uint64 fields (one name a prefix of the other), a string field and a uint64 vector: Put/Get/Has/HasMulti/Fill/Delete, batched writes with commit or abandon, Iterate with every combination of Prefix/StartFrom/SkipStartFromItem/Reverse and callbacks that stop or fail at j, First/Last with prefixes, Count/CountFrom, field Put/Get/Inc/Dec plain and in batch; a full read-back after each batch end and reopen and at the end; distinct = (store, size classes of the 3 indexes, batches committed/abandoned, reopens, number of iterate option classes)",
		"StartFrom combined with Prefix always carries that prefix; with Reverse it is an item present in the index (forward: arbitrary)",
		"SkipStartFromItem without StartFrom: skipping nothing and skipping an item whose key equals the prefix are both accepted (the latter is counted)",
		"reads between the first write of a batch and its Commit must see the state before the batch",
		"a field or vector slot never written reads as zero / empty; Inc at MaxUint64 is not exercised",
		"9 of 10 databases are opened with a 1 MiB write buffer (driver option) instead of the default 32 MiB")
	n := run.N(240, 2400)
	nops := 50
	for i := 0; i < n; i++ {
		onDisk := i%3 == 2
		descr := map[string]interface{}{"store": map[bool]string{false: "memory", true: "directory"}[onDisk], "steps": nops}
		c := run.Begin(fmt.Sprintf("hist/%d", i), descr)
		if c == nil {
			continue
		}
		rng := c.Rand()
		path := ""
		if onDisk {
			d, err := os.MkdirTemp(scratchRoot(), "c19-")
			if err != nil {
				t.Fatal(err)
			}
			path = d
		}
		cfg := smallBuffer
		if i%10 == 0 {
			cfg = ""
		}
		h, err := open(path, cfg, []int{0, 1, 2})
		if err != nil {
			t.Fatalf("open: %v", err)
		}
		s := &hist{t: t, run: run, c: c, h: h, m: newModel(), p: genPools(rng), rng: rng, cfg: cfg, classes: map[string]bool{}}
		for k := 0; k < nops; k++ {
			s.guard("step", s.step)
		}
		s.guard("step", func() {
			s.endBatch(rng.Intn(2) == 0)
			if onDisk {
				s.reopen()
			}
			s.fullCheck("final")
			for x := 0; x < 3; x++ {
				s.firstLast(x, nil)
			}
		})
		_ = s.h.db.Close()
		if path != "" {
			os.RemoveAll(path)
		}
		shape := fmt.Sprintf("%s/%s,%s,%s/c%d,a%d/r%d/it%d", s.storeName(), sizeClass(len(s.m.idx[0])), sizeClass(len(s.m.idx[1])), sizeClass(len(s.m.idx[2])),
			min(s.commits, 3), min(s.abandons, 2), min(s.reopens, 2), len(s.classes))
		c.End(shape, len(s.m.idx[0])+len(s.m.idx[1])+len(s.m.idx[2]) >= 2)
		if i < 3 {
			ops := s.ops
			if len(ops) > 30 {
				ops = ops[:30]
			}
			run.Sample(map[string]interface{}{"store": s.storeName(), "first_ops": ops})
		}
	}
}

func min(a, b int) int {
	if a < b {
		return a
	}
	return b
}

// scratchRoot prefers a memory-backed directory for the on-disk stores (the driver fsyncs every
// write; on a shared disk that dominates the run time). The store still works on real files and
// is closed and reopened from them.
func scratchRoot() string {
	if st, err := os.Stat("/dev/shm"); err == nil && st.IsDir() {
		return "/dev/shm"
	}
	return ""
}
