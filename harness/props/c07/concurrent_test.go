package c07

import (
	"fmt"
	"math/rand"
	"sync"
	"testing"

	"verif/harness/internal/obs"
)

// TestConcurrentReadAt: io.ReaderAt allows parallel ReadAt calls on one source, and the
// HTTP layer serves range requests that way. Several goroutines read different ranges
// through ONE joiner at the same time; every call is judged exactly like a call made alone.
func TestConcurrentReadAt(t *testing.T) {
	run := obs.Start(t, "C07")
	defer run.Done()
	run.Rule("for every stored file of at least 3 chunks (plain, encrypted, virtual 2-level): 8 goroutines x 24 (thorough 120) ReadAt calls on ONE joiner, lengths from {1, 100, CS-1, CS+1, 2CS, 5CS} and PRNG offsets incl. the end region, short reads next to long ones so that calls finish while others are in flight; each call is judged as in the grid test (count, content, nothing beyond len); distinct = (file kind, length class, offset class)")
	per := run.N(24, 120)
	for _, fs := range files(run) {
		if fs.Size < 3*CS || fs.Size > 1<<40 {
			continue
		}
		c := run.Begin(fs.ID+"/concurrent", fs)
		if c == nil {
			continue
		}
		s, err := build(run, fs)
		if err != nil {
			t.Fatalf("harness: cannot store file %s: %v", fs.ID, err)
		}
		j, err := s.open()
		if err != nil {
			t.Fatalf("harness: cannot open file %s: %v", fs.ID, err)
		}
		seed := c.Rand().Int63()
		lens := []int{1, 100, CS - 1, CS + 1, 2 * CS, 5 * CS}
		var wg sync.WaitGroup
		var mu sync.Mutex
		bad := 0
		for g := 0; g < 8; g++ {
			wg.Add(1)
			go func(g int) {
				defer wg.Done()
				rng := rand.New(rand.NewSource(seed + int64(g)))
				for k := 0; k < per; k++ {
					l := lens[rng.Intn(len(lens))]
					if g%2 == 0 && rng.Intn(2) == 0 {
						l = 1 + rng.Intn(64) // short reads: they return while long ones are in flight
					}
					span := fs.Size
					if span > 64*CS {
						span = 64 * CS // stay in a region where the virtual getter's cache helps
					}
					off := rng.Int63n(span)
					if rng.Intn(5) == 0 {
						off = fs.Size - int64(rng.Intn(2*CS+1))
						if off < 0 {
							off = 0
						}
					}
					if !judgeReadAt(run, c, s, j, l, 0, off) {
						mu.Lock()
						bad++
						mu.Unlock()
					}
					run.Stat("concurrent_readat_calls", 1)
				}
			}(g)
		}
		wg.Wait()
		if bad > 0 {
			run.Stat("readat_calls_failing_a_clause", int64(bad))
		}
		c.End(fmt.Sprintf("concurrent|%s|%s", s.kind(), sizeClass(fs.Size)), true)
	}
}
