// Package c07: file reads honour the reader contract.
//
// Oracle (from the statement only), for a stored file of `size` bytes with content c:
//   - ReadAt(b, off), off >= 0: nothing outside b[:len(b)] is written (the spare capacity
//     b[len:cap] keeps its bytes) and n <= len(b); for off >= size the result is (0, EOF);
//     for off < size n == min(len(b), size-off) and b[:n] == c[off:off+n];
//   - Read(b): same bounds; the bytes returned continue exactly where the previous read
//     (or successful seek) ended - nothing skipped, nothing repeated; (0, EOF) at the end;
//   - Seek(o, whence) with whence start/current/end (end offsets counted backwards): either
//     an error, or the returned position is the requested one and the next Read starts there;
//     a request for a negative position must be an error.
package c07

import (
	"context"
	"fmt"
	"io"
	"math/rand"
	"sort"
	"testing"

	"github.com/gauss-project/aurorafs/pkg/boson"
	"github.com/gauss-project/aurorafs/pkg/file"
	"github.com/gauss-project/aurorafs/pkg/file/joiner"
	"github.com/gauss-project/aurorafs/pkg/storage"

	fk "verif/harness/internal/filekit"
	"verif/harness/internal/obs"
)

const CS = fk.CS

// fileSpec names a stored file.
type fileSpec struct {
	ID      string `json:"file"`
	Size    int64  `json:"size"`
	Encrypt bool   `json:"encrypt"`
	Virtual bool   `json:"virtual"` // synthesised by the virtual tree getter
}

type stored struct {
	fileSpec
	seed   uint64
	open   func() (file.Joiner, error)
	expect func(off int64, n int) []byte
}

// stored files are immutable and a function of (seed, file id): built once per process
var built = map[string]*stored{}

func build(run *obs.Run, fs fileSpec) (*stored, error) {
	if s, ok := built[fs.ID]; ok {
		return s, nil
	}
	s, err := build1(run, fs)
	if err == nil {
		built[fs.ID] = s
	}
	return s, err
}

func build1(run *obs.Run, fs fileSpec) (*stored, error) {
	rng := run.RandFor("file/" + fs.ID)
	s := &stored{fileSpec: fs, seed: rng.Uint64()}
	ctx := context.Background()
	if fs.Virtual {
		vt := fk.NewVTree(fs.Size, s.seed, fs.Encrypt)
		s.expect = vt.Expect
		s.open = func() (file.Joiner, error) {
			j, _, err := joiner.New(ctx, vt, storage.ModeGetRequest, vt.RootRef())
			return j, err
		}
		return s, nil
	}
	content := fk.MakeContent(fk.KindPRF, int(fs.Size), s.seed)
	st := fk.NewStore()
	up := fk.Upload(ctx, st, storage.ModePutUpload, content, fk.SegRandom, fs.Encrypt, rng)
	if up.Err != nil {
		return nil, up.Err
	}
	s.expect = func(off int64, n int) []byte { return content[off : off+int64(n)] }
	s.open = func() (file.Joiner, error) {
		j, _, err := joiner.New(ctx, st, storage.ModeGetRequest, boson.NewAddress(up.Ref))
		return j, err
	}
	return s, nil
}

func (s *stored) kind() string {
	k := "plain"
	if s.Encrypt {
		k = "enc"
	}
	if s.Virtual {
		k = "virtual-" + k
	}
	return k
}

func files(run *obs.Run) []fileSpec {
	var fs []fileSpec
	for _, n := range []int64{0, 1, CS - 1, CS, CS + 1, 3*CS + 5, 20*CS + 1} {
		fs = append(fs, fileSpec{ID: fmt.Sprintf("plain-%d", n), Size: n})
	}
	for _, n := range []int64{1, CS + 1, 3*CS + 5} {
		fs = append(fs, fileSpec{ID: fmt.Sprintf("enc-%d", n), Size: n, Encrypt: true})
	}
	fs = append(fs,
		fileSpec{ID: "virtual-plain-2level", Size: 8192*CS + 1, Virtual: true},
		fileSpec{ID: "virtual-plain-3level", Size: 8192*8192*CS + 8192*CS + 7, Virtual: true},
		fileSpec{ID: "virtual-plain-2^56", Size: 1 << 56, Virtual: true},
		fileSpec{ID: "virtual-enc-2level", Size: 4096*CS + CS + 1, Virtual: true, Encrypt: true},
	)
	if run.Thorough() {
		fs = append(fs,
			fileSpec{ID: "plain-big", Size: 150*CS + 77},
			fileSpec{ID: "enc-big", Size: 20*CS + 1, Encrypt: true},
			fileSpec{ID: "virtual-enc-3level", Size: 4096*4096*CS + 5, Virtual: true, Encrypt: true},
		)
	}
	return fs
}

// buffer with spare capacity guarded by a sentinel that differs from what a reader
// running past len(b) would write there.
type guarded struct {
	b     []byte
	spare []byte // copy of b[len:cap] as initialised
}

func newGuarded(s *stored, l, extra int, off int64) guarded {
	b := make([]byte, l, l+extra)
	full := b[:l+extra]
	for i := l; i < l+extra; i++ {
		full[i] = 0xA5
	}
	// where the file continues, use the complement of the content byte
	if o := off + int64(l); off >= 0 && o < s.Size {
		n := int64(extra)
		if s.Size-o < n {
			n = s.Size - o
		}
		for i, x := range s.expect(o, int(n)) {
			full[l+i] = ^x
		}
	}
	for i := 0; i < l; i++ {
		b[i] = 0x3C
	}
	return guarded{b: b, spare: append([]byte(nil), full[l:]...)}
}

func (g guarded) spareTouched() int {
	cur := g.b[len(g.b):cap(g.b)]
	for i := range cur {
		if cur[i] != g.spare[i] {
			return i
		}
	}
	return -1
}

func firstDiff(a, b []byte) int {
	for i := range a {
		if a[i] != b[i] {
			return i
		}
	}
	return -1
}

func lenClass(l int) string {
	switch {
	case l == 0:
		return "0"
	case l == 1:
		return "1"
	case l < CS:
		return "<CS"
	case l == CS:
		return "CS"
	case l == CS+1:
		return "CS+1"
	}
	return ">CS"
}

func offClass(off, size int64) string {
	switch {
	case off > size:
		return "past-end"
	case off == size:
		return "at-end"
	case off == 0:
		return "start"
	case size-off <= 101:
		return "near-end"
	case off%CS == 0:
		return "on-boundary"
	case off%CS == 1 || off%CS == CS-1:
		return "boundary+-1"
	}
	return "mid"
}

// judgeReadAt performs one ReadAt and reports the first clause that fails.
func judgeReadAt(run *obs.Run, c *obs.Case, s *stored, j file.Joiner, l, extra int, off int64) (ok bool) {
	g := newGuarded(s, l, extra, off)
	var n int
	var err error
	w := map[string]interface{}{"file": s.fileSpec, "content_seed": s.seed, "off": off, "len": l, "cap": l + extra}
	panicked := false
	func() {
		defer func() {
			if p := recover(); p != nil {
				panicked = true
				w["panic"] = fmt.Sprint(p)
				c.Viol("panic-readat", fmt.Sprintf("ReadAt(len %d cap %d, off %d) on a %d-byte file panicked: %v", l, l+extra, off, s.Size, p), w)
			}
		}()
		n, err = j.ReadAt(g.b, off)
	}()
	if panicked {
		return false
	}
	w["n"], w["err"] = n, fmt.Sprint(err)
	run.Stat("readat_calls", 1)
	if extra > 0 {
		run.Stat("readat_calls_with_spare_capacity", 1)
		if s.Size-off > int64(l) {
			run.Stat("readat_calls_with_spare_capacity_and_more_file_than_len", 1)
		}
	}
	run.Tally(fmt.Sprintf("readat|%s|len=%s|extra=%d|off=%s", s.kind(), lenClass(l), extra, offClass(off, s.Size)), true)
	if i := g.spareTouched(); i >= 0 {
		w["first_spare_byte_changed"] = i
		c.Viol("readat-writes-beyond-len", fmt.Sprintf("ReadAt into make([]byte, %d, %d) at offset %d of a %d-byte file changed spare-capacity byte %d (returned n=%d)", l, l+extra, off, s.Size, i, n), w)
		return false
	}
	if n > l || n < 0 {
		c.Viol("readat-count-exceeds-len", fmt.Sprintf("ReadAt(len %d, off %d) returned n=%d", l, off, n), w)
		return false
	}
	if off >= s.Size {
		run.Stat("readat_at_or_past_end", 1)
		if n != 0 || err != io.EOF {
			c.Viol("readat-past-end-not-eof", fmt.Sprintf("ReadAt at offset %d of a %d-byte file returned n=%d err=%v, want 0, EOF", off, s.Size, n, err), w)
			return false
		}
		return true
	}
	if err != nil && err != io.EOF {
		c.Viol("readat-error", fmt.Sprintf("ReadAt(len %d, off %d) on a %d-byte file: %v", l, off, s.Size, err), w)
		return false
	}
	want := int64(l)
	if s.Size-off < want {
		want = s.Size - off
	}
	if int64(n) != want {
		c.Viol("readat-count", fmt.Sprintf("ReadAt(len %d, off %d) on a %d-byte file returned n=%d, want min(len, size-off)=%d", l, off, s.Size, n, want), w)
		return false
	}
	if d := firstDiff(s.expect(off, n), g.b[:n]); d >= 0 {
		w["first_diff_at"] = off + int64(d)
		c.Viol("readat-content", fmt.Sprintf("ReadAt(len %d, off %d): byte at file offset %d differs from the content", l, off, off+int64(d)), w)
		return false
	}
	run.Stat("readat_bytes_compared", int64(n))
	return true
}

func gridOffsets(size int64, rng *rand.Rand, extraRandom int) []int64 {
	cand := []int64{0, 1, CS - 1, CS, CS + 1, 2*CS - 1, 2 * CS, size - 2*CS - 1, size - CS - 1, size - CS, size - CS + 1,
		size - 101, size - 100, size - 99, size - 2, size - 1, size, size + 1, size + CS, size/CS*CS - 1, size / CS * CS}
	for i := 0; i < extraRandom; i++ {
		cand = append(cand, rng.Int63n(size+2))
	}
	if size > 40*CS { // huge (virtual) files: subtree boundaries of the upper levels
		for _, b := range []int64{8192 * CS, 4096 * CS, 8192 * 8192 * CS} {
			if b < size {
				cand = append(cand, b-1, b, b-CS, (size/b)*b-1, (size/b)*b)
			}
		}
	}
	seen := map[int64]bool{}
	var out []int64
	for _, o := range cand {
		if o >= 0 && !seen[o] {
			seen[o] = true
			out = append(out, o)
		}
	}
	sort.Slice(out, func(i, j int) bool { return out[i] < out[j] })
	return out
}

func TestReadAtGrid(t *testing.T) {
	run := obs.Start(t, "C07")
	defer run.Done()
	run.Rule("stored files (real uploads of 0, 1, CS-1, CS, CS+1, 3CS+5, 20CS+1 bytes plain, three encrypted; virtual 2-, 3-level and 2^56-byte files): ReadAt over the grid buffer length {0,1,100,CS,CS+1,2CS} x spare capacity {0,1,4096,CS} x offsets {0,1, chunk boundaries +-1, end-CS.., end-101..end-99, end-1, end, end+1, end+CS, random} (smaller grid for encrypted and virtual files). distinct = (file kind, length class, spare capacity, offset class)",
		"offsets are non-negative (the statement gives no meaning to a negative offset)",
		"spare capacity is pre-filled with the complement of the bytes that follow in the file, so any write there is seen")
	for _, fs := range files(run) {
		c := run.Begin(fs.ID+"/grid", fs)
		if c == nil {
			continue
		}
		rng := c.Rand()
		s, err := build(run, fs)
		if err != nil {
			t.Fatalf("harness: cannot store file %s: %v", fs.ID, err)
		}
		j, err := s.open()
		if err != nil {
			t.Fatalf("harness: cannot open file %s: %v", fs.ID, err)
		}
		lens := []int{0, 1, 100, CS, CS + 1, 2 * CS}
		extras := []int{0, 1, 4096, CS}
		offs := gridOffsets(fs.Size, rng, 4)
		if fs.Encrypt || fs.Virtual {
			lens = []int{0, 1, 100, CS + 1}
			extras = []int{0, 1, 4096}
			if !run.Thorough() && len(offs) > 16 {
				rng.Shuffle(len(offs), func(i, k int) { offs[i], offs[k] = offs[k], offs[i] })
				offs = offs[:16]
			}
		}
		bad := 0
		for _, l := range lens {
			for _, e := range extras {
				for _, off := range offs {
					if !judgeReadAt(run, c, s, j, l, e, off) {
						bad++
					}
				}
			}
		}
		// a few very large single reads (beyond any fan-out or read-ahead bound an
		// implementation might have) on files that are long enough
		if fs.Virtual && fs.Size > 64<<20 {
			for _, l := range []int{16 << 20, 16<<20 + 1, 20<<20 + 7, 33 << 20} {
				for _, off := range []int64{0, 3*CS + 17} {
					if !judgeReadAt(run, c, s, j, l, 0, off) {
						bad++
					}
					run.Stat("very_large_readat_calls", 1)
				}
			}
		}
		run.Stat("files_read", 1)
		if bad > 0 {
			run.Stat("readat_calls_failing_a_clause", int64(bad))
		}
		c.End(fmt.Sprintf("grid|%s|%s", s.kind(), sizeClass(fs.Size)), true)
	}
}

func sizeClass(n int64) string {
	switch {
	case n == 0:
		return "empty"
	case n < CS-1:
		return "sub-chunk"
	case n <= CS+1:
		return fmt.Sprintf("CS%+d", n-CS)
	case n <= 40*CS:
		return fmt.Sprintf("%dchunks", (n+CS-1)/CS)
	}
	return "huge"
}

// pickBuf chooses a buffer shape.
func pickBuf(rng *rand.Rand, spare bool) (l, extra int) {
	switch rng.Intn(6) {
	case 0:
		l = rng.Intn(3)
	case 1:
		l = 1 + rng.Intn(200)
	case 2:
		l = CS - 1 + rng.Intn(3)
	case 3:
		l = 1 + rng.Intn(2*CS)
	default:
		l = 1 + rng.Intn(70000)
	}
	if spare && rng.Intn(2) == 0 {
		extra = []int{1, 7, 4096, CS, 1 + rng.Intn(3*CS)}[rng.Intn(5)]
	}
	return
}

// judgeRead performs one sequential Read at model position pos; returns the number of
// bytes consumed and whether the walk may go on.
func judgeRead(run *obs.Run, c *obs.Case, s *stored, j file.Joiner, pos int64, l, extra int, after string) (int, bool) {
	g := newGuarded(s, l, extra, pos)
	var n int
	var err error
	w := map[string]interface{}{"file": s.fileSpec, "content_seed": s.seed, "position": pos, "len": l, "cap": l + extra, "after": after}
	panicked := false
	func() {
		defer func() {
			if p := recover(); p != nil {
				panicked = true
				c.Viol("panic-read", fmt.Sprintf("Read(len %d cap %d) at %d of a %d-byte file panicked: %v", l, l+extra, pos, s.Size, p), w)
			}
		}()
		n, err = j.Read(g.b)
	}()
	if panicked {
		return 0, false
	}
	w["n"], w["err"] = n, fmt.Sprint(err)
	run.Stat("read_calls", 1)
	if extra > 0 {
		run.Stat("read_calls_with_spare_capacity", 1)
	}
	if i := g.spareTouched(); i >= 0 {
		w["first_spare_byte_changed"] = i
		c.Viol("read-writes-beyond-len", fmt.Sprintf("Read into make([]byte, %d, %d) at position %d of a %d-byte file changed spare-capacity byte %d (returned n=%d)", l, l+extra, pos, s.Size, i, n), w)
		return 0, false
	}
	if n > l || n < 0 {
		c.Viol("read-count-exceeds-len", fmt.Sprintf("Read(len %d) at %d returned n=%d", l, pos, n), w)
		return 0, false
	}
	if pos >= s.Size {
		if n != 0 || err != io.EOF {
			c.Viol("read-at-end-not-eof", fmt.Sprintf("Read at position %d of a %d-byte file returned n=%d err=%v", pos, s.Size, n, err), w)
			return 0, false
		}
		run.Stat("reads_at_end_eof", 1)
		return 0, true
	}
	if err != nil && err != io.EOF {
		c.Viol("read-error", fmt.Sprintf("Read(len %d) at %d of a %d-byte file: %v", l, pos, s.Size, err), w)
		return 0, false
	}
	if int64(n) > s.Size-pos {
		c.Viol("read-count-beyond-file", fmt.Sprintf("Read(len %d) at %d of a %d-byte file returned n=%d", l, pos, s.Size, n), w)
		return 0, false
	}
	if d := firstDiff(s.expect(pos, n), g.b[:n]); d >= 0 {
		key := "read-skips-or-repeats"
		if after != "read" {
			key = "read-after-seek-content"
		}
		w["first_diff_at"] = pos + int64(d)
		c.Viol(key, fmt.Sprintf("Read(len %d) after a %s: expected the bytes at file position %d, byte %d differs", l, after, pos, d), w)
		return 0, false
	}
	want := int64(l)
	if s.Size-pos < want {
		want = s.Size - pos
	}
	if int64(n) < want {
		run.Stat("short_reads", 1) // allowed for a sequential reader; counted
		if n == 0 && l > 0 {
			c.Viol("read-no-progress", fmt.Sprintf("Read(len %d) at %d of a %d-byte file returned 0 bytes, err=%v", l, pos, s.Size, err), w)
			return 0, false
		}
	}
	run.Stat("read_bytes_compared", int64(n))
	return n, true
}

func TestSequentialReads(t *testing.T) {
	run := obs.Start(t, "C07")
	defer run.Done()
	run.Rule("each real file is read sequentially to the end several times with random buffer shapes (length 0..2CS), once with cap == len throughout and once with spare capacity on half of the buffers; virtual files are read for a bounded stretch from a random start. distinct = (file kind, size class, with/without spare capacity); after a failed clause the walk re-seeks to the model position and goes on",
		"a sequential Read may return fewer bytes than asked (counted as short_reads), but not zero before the end")
	for _, fs := range files(run) {
		for _, spare := range []bool{false, true} {
			for rep := 0; rep < run.N(3, 8); rep++ {
				id := fmt.Sprintf("%s/seq/spare=%v/%d", fs.ID, spare, rep)
				c := run.Begin(id, fs)
				if c == nil {
					continue
				}
				rng := c.Rand()
				s, err := build(run, fs)
				if err != nil {
					t.Fatalf("harness: cannot store file %s: %v", fs.ID, err)
				}
				j, err := s.open()
				if err != nil {
					t.Fatalf("harness: cannot open file %s: %v", fs.ID, err)
				}
				pos := int64(0)
				budget := int64(1 << 62)
				if fs.Virtual {
					// start near the end or near a big boundary, read a bounded stretch
					pos = fs.Size - int64(rng.Intn(3*CS))
					if rng.Intn(2) == 0 {
						pos = 8192*CS - int64(rng.Intn(2*CS))
						if fs.Encrypt {
							pos = 4096*CS - int64(rng.Intn(2*CS))
						}
					}
					p, err := j.Seek(pos, io.SeekStart)
					if err != nil || p != pos {
						run.Stat("seq_start_seek_failed", 1)
						c.End("seq|seek-failed", false)
						continue
					}
					budget = 3 * CS
					if fs.Encrypt {
						budget = 2 * CS
					}
				}
				maxCalls := 400 + int(fs.Size/2000)
				if fs.Virtual {
					maxCalls = 400
				}
				clean := true
				eofSeen := false
				after := "read"
				if fs.Virtual {
					after = "seek"
				}
				for k := 0; k < maxCalls && budget > 0; k++ {
					l, e := pickBuf(rng, spare)
					if fs.Encrypt && l > CS+1 {
						l = 1 + rng.Intn(CS)
					}
					n, ok := judgeRead(run, c, s, j, pos, l, e, after)
					if !ok {
						// a clause failed: the joiner's position is now unknown to the model.
						// Re-establish the model position with an absolute seek and go on, so
						// that the rest of the file is still judged.
						clean = false
						p, err := j.Seek(pos, io.SeekStart)
						if err != nil || p != pos {
							break
						}
						run.Stat("resyncs_after_failed_read", 1)
						after = "seek"
						// make progress even if the same call would fail again
						if skip := int64(l); skip > 0 && pos+skip <= fs.Size {
							if p, err := j.Seek(pos+skip, io.SeekStart); err == nil && p == pos+skip {
								pos += skip
								budget -= skip
							}
						}
						continue
					}
					if pos >= fs.Size { // the read just judged was the (0, EOF) at the end
						eofSeen = true
						break
					}
					after = "read"
					pos += int64(n)
					budget -= int64(n)
				}
				if clean && pos == fs.Size && eofSeen {
					run.Stat("files_tiled_to_eof", 1)
				}
				c.End(fmt.Sprintf("seq|%s|%s|spare=%v", s.kind(), sizeClass(fs.Size), spare), true)
			}
		}
	}
}

func TestSeekWalks(t *testing.T) {
	run := obs.Start(t, "C07")
	defer run.Done()
	run.Rule("random walks of Seek(offset, whence in {start, current, end}) with targets inside the file, at 0, at the end, negative and past the end, each followed by 0-2 Reads (buffers with cap == len). distinct = (file kind, size class); per seek the class (whence, target class, outcome) is tallied",
		"end-relative offsets count backwards from the end (the project's convention, named in the statement)",
		"after a rejected seek the walk either reads on from the position it had (a seek that reports an error did not take place) or re-establishes a known position with an absolute seek")
	for _, fs := range files(run) {
		walks := run.N(6, 20)
		for wk := 0; wk < walks; wk++ {
			c := run.Begin(fmt.Sprintf("%s/seek/%d", fs.ID, wk), fs)
			if c == nil {
				continue
			}
			rng := c.Rand()
			s, err := build(run, fs)
			if err != nil {
				t.Fatalf("harness: cannot store file %s: %v", fs.ID, err)
			}
			j, err := s.open()
			if err != nil {
				t.Fatalf("harness: cannot open file %s: %v", fs.ID, err)
			}
			pos := int64(0)
			known := true
			steps := 12
		walk:
			for st := 0; st < steps; st++ {
				if !known {
					p0 := int64(0)
					if fs.Size > 0 {
						p0 = rng.Int63n(fs.Size + 1)
					}
					p, err := j.Seek(p0, io.SeekStart)
					if err != nil {
						run.Stat("resync_seek_rejected", 1)
						break
					}
					if p != p0 {
						c.Viol("seek-wrong-position", fmt.Sprintf("Seek(%d, start) on a %d-byte file returned %d", p0, fs.Size, p), map[string]interface{}{"file": fs, "arg": p0, "whence": 0, "returned": p})
						break
					}
					pos, known = p0, true
				}
				var target int64
				tclass := "inside"
				switch rng.Intn(8) {
				case 0:
					target, tclass = 0, "start"
				case 1:
					target, tclass = fs.Size, "end"
				case 2:
					target, tclass = -1-rng.Int63n(1+fs.Size), "negative"
				case 3:
					target, tclass = fs.Size+1+rng.Int63n(CS), "past-end"
				case 4:
					if fs.Size > CS {
						target = (1+rng.Int63n(fs.Size/CS))*CS - 1 + rng.Int63n(3)
						tclass = "chunk-boundary"
						break
					}
					fallthrough
				default:
					if fs.Size > 0 {
						target = rng.Int63n(fs.Size)
					}
				}
				whence := rng.Intn(3)
				var arg int64
				switch whence {
				case io.SeekStart:
					arg = target
				case io.SeekCurrent:
					arg = target - pos
				case io.SeekEnd:
					arg = fs.Size - target // counted backwards from the end
				}
				w := map[string]interface{}{"file": fs, "content_seed": s.seed, "position_before": pos, "arg": arg, "whence": whence, "requested_position": target}
				var p int64
				var serr error
				panicked := false
				func() {
					defer func() {
						if r := recover(); r != nil {
							panicked = true
							c.Viol("panic-seek", fmt.Sprint(r), w)
						}
					}()
					p, serr = j.Seek(arg, whence)
				}()
				if panicked {
					break
				}
				run.Stat("seek_calls", 1)
				w["returned"], w["err"] = p, fmt.Sprint(serr)
				if serr != nil {
					run.Stat("seeks_rejected", 1)
					if target >= 0 && target <= fs.Size {
						run.Stat("seeks_rejected_with_target_inside_file", 1) // allowed by the statement; counted
					}
					run.Tally(fmt.Sprintf("seek|whence=%d|%s|rejected", whence, tclass), true)
					if rng.Intn(2) == 0 {
						// the seek reported an error, i.e. it did not take place: the next sequential
						// read continues where the reader stood ("sequential reads neither skip nor
						// repeat content")
						n, ok := judgeRead(run, c, s, j, pos, 1+rng.Intn(5000), 0, "rejected-seek")
						run.Stat("reads_after_rejected_seek_compared", 1)
						if !ok {
							break walk
						}
						pos += int64(n)
						continue
					}
					known = false
					continue
				}
				run.Stat("seeks_ok", 1)
				run.Tally(fmt.Sprintf("seek|whence=%d|%s|ok", whence, tclass), true)
				if target < 0 {
					c.Viol("seek-negative-position-accepted", fmt.Sprintf("Seek(%d, whence %d) from %d on a %d-byte file asks for position %d and returned (%d, nil)", arg, whence, pos, fs.Size, target, p), w)
					known = false
					continue
				}
				if p != target {
					c.Viol("seek-wrong-position", fmt.Sprintf("Seek(%d, whence %d) from %d on a %d-byte file returned %d, requested position is %d", arg, whence, pos, fs.Size, p, target), w)
					known = false
					continue
				}
				pos = target
				after := "seek"
				for k := rng.Intn(3); k > 0; k-- {
					l := 1 + rng.Intn(5000)
					if rng.Intn(4) == 0 {
						l = CS - 1 + rng.Intn(3)
					}
					n, ok := judgeRead(run, c, s, j, pos, l, 0, after)
					if !ok {
						break walk
					}
					if after == "seek" {
						run.Stat("reads_after_seek_compared", 1)
					}
					after = "read"
					pos += int64(n)
				}
			}
			c.End(fmt.Sprintf("seekwalk|%s|%s", s.kind(), sizeClass(fs.Size)), true)
		}
	}
}
