package c30

import (
	"context"
	"fmt"
	"math/big"
	"strings"
	"sync"
	"testing"
	"time"

	chequePkg "github.com/gauss-project/aurorafs/pkg/settlement/traffic/cheque"
	"github.com/gauss-project/aurorafs/pkg/storage"
	"verif/harness/internal/obs"
)

// meetStore widens the window between the cheque store's read of an issuer's last cheque and
// its write: a reader of a last-received-cheque record waits (bounded) until a second reader
// of such a record has arrived. Where the code serialises the read with the write the second
// reader never arrives and the wait just runs out; it decides nothing.
type meetStore struct {
	storage.StateStorer
	mu      sync.Mutex
	waiting int
	met     int
	on      bool
	arrived chan struct{}
}

func (m *meetStore) Get(key string, i interface{}) error {
	if strings.HasPrefix(key, "traffic_last_received_cheque_") {
		m.mu.Lock()
		if m.on {
			m.waiting++
			if m.waiting >= 2 {
				m.met++
				close(m.arrived)
				m.arrived = make(chan struct{})
				m.waiting = 0
				m.mu.Unlock()
			} else {
				ch := m.arrived
				m.mu.Unlock()
				select {
				case <-ch:
				case <-time.After(3 * time.Millisecond):
					m.mu.Lock()
					if m.waiting > 0 {
						m.waiting--
					}
					m.mu.Unlock()
				}
			}
		} else {
			m.mu.Unlock()
		}
	}
	return m.StateStorer.Get(key, i)
}

type delivery struct {
	Payout string `json:"payout"`
	Amount string `json:"credited,omitempty"`
	Err    string `json:"error,omitempty"`
}

// TestChequeStoreConcurrent delivers cheques of one issuer to the real cheque store from
// several goroutines at once (a replay on a second stream; cheques n and n+1 in flight
// together) and checks the statement's conservation clause over the whole history: the
// total credited equals the highest accepted cumulative payout, which is also what the store
// reports as the last received cheque.
func TestChequeStoreConcurrent(t *testing.T) {
	run := obs.Start(t, "C30")
	defer run.Done()
	run.Rule("cheques of one issuer delivered concurrently to chequeStore.ReceiveCheque (same cheque twice or thrice; different increasing payouts together; a replay of an older cheque with a new one): over the whole history the sum of credited amounts == the highest accepted cumulative payout == LastReceivedCheque; every accepted cheque raised the payout; distinct = pattern sequence x accepted counts")
	n := run.N(60, 600)
	var ms *meetStore
	wrapStore = func(s storage.StateStorer) storage.StateStorer {
		ms = &meetStore{StateStorer: s, arrived: make(chan struct{})}
		return ms
	}
	defer func() { wrapStore = nil }()
	for i := 0; i < n; i++ {
		c := run.Begin(fmt.Sprintf("concurrent/%d", i), nil)
		if c == nil {
			continue
		}
		rng := c.Rand()
		w := newWorld(t, rng, 2)
		store := ms
		iss := w.reg[rng.Intn(len(w.reg))]
		high := big.NewInt(0)  // highest cumulative payout accepted so far
		total := big.NewInt(0) // sum of credited amounts
		var older []*chequePkg.SignedCheque
		var hist [][]delivery
		shape := ""
		multi := 0
		rounds := 6 + rng.Intn(5)
		for r := 0; r < rounds; r++ {
			var batch []*chequePkg.SignedCheque
			mk := func(p *big.Int) *chequePkg.SignedCheque {
				ch, err := iss.Sign(w.self.Addr, iss.Addr, p)
				if err != nil {
					t.Fatal(err)
				}
				return ch
			}
			next := new(big.Int).Add(high, big.NewInt(1+rng.Int63n(1000)))
			pat := rng.Intn(4)
			if r == 0 {
				pat = 0
			}
			switch pat {
			case 0: // the same new cheque on two or three streams
				ch := mk(next)
				k := 2 + rng.Intn(2)
				for j := 0; j < k; j++ {
					batch = append(batch, ch)
				}
				older = append(older, ch)
			case 1: // cheques n and n+1 together
				a := mk(next)
				b := mk(new(big.Int).Add(next, big.NewInt(1+rng.Int63n(1000))))
				batch = []*chequePkg.SignedCheque{a, b}
				if rng.Intn(2) == 0 {
					batch[0], batch[1] = b, a
				}
				older = append(older, a, b)
			case 2: // a new cheque together with a replay of an older one
				ch := mk(next)
				batch = []*chequePkg.SignedCheque{ch, older[rng.Intn(len(older))]}
				older = append(older, ch)
			default: // one cheque alone
				ch := mk(next)
				batch = []*chequePkg.SignedCheque{ch}
				older = append(older, ch)
			}
			shape += fmt.Sprint(pat)
			res := make([]delivery, len(batch))
			amts := make([]*big.Int, len(batch))
			store.mu.Lock()
			store.on = len(batch) > 1
			store.waiting = 0
			store.mu.Unlock()
			var wg sync.WaitGroup
			for j := range batch {
				wg.Add(1)
				go func(j int) {
					defer wg.Done()
					defer func() {
						if p := recover(); p != nil {
							res[j].Err = fmt.Sprint("panic: ", p)
						}
					}()
					amt, err := w.node.CS.ReceiveCheque(context.Background(), batch[j])
					res[j].Payout = batch[j].CumulativePayout.String()
					if err != nil {
						res[j].Err = err.Error()
						return
					}
					if amt != nil {
						amts[j] = new(big.Int).Set(amt)
						res[j].Amount = amt.String()
					}
				}(j)
			}
			wg.Wait()
			store.mu.Lock()
			store.on = false
			store.mu.Unlock()
			w.rec.take()
			hist = append(hist, res)
			run.Stat("concurrent-deliveries", int64(len(batch)))
			acc := 0
			for j := range batch {
				if strings.HasPrefix(res[j].Err, "panic:") {
					c.Viol("store-panic-receive-cheque/concurrent", res[j].Err, hist)
					continue
				}
				if res[j].Err != "" {
					run.Stat("concurrent-rejected", 1)
					continue
				}
				acc++
				run.Stat("concurrent-accepted", 1)
				if amts[j] == nil {
					c.Viol("credited-nil-amount", "the cheque store accepted a cheque and returned no amount", hist)
					continue
				}
				total.Add(total, amts[j])
				if batch[j].CumulativePayout.Cmp(high) > 0 {
					high = new(big.Int).Set(batch[j].CumulativePayout)
				}
			}
			if acc > 1 {
				multi++
			}
			if total.Cmp(high) != 0 {
				c.Viol("concurrent-credit-differs-from-highest-accepted", fmt.Sprintf("after round %d (pattern %d) the store credited %v in total for issuer %s, highest accepted cumulative payout is %v", r, pat, total, iss.Name, high), hist)
				break
			}
			last, err := w.node.CS.LastReceivedCheque(iss.Addr)
			if err != nil || last == nil || last.CumulativePayout == nil || last.CumulativePayout.Cmp(high) != 0 {
				got := "none"
				if last != nil && last.CumulativePayout != nil {
					got = last.CumulativePayout.String()
				}
				c.Viol("concurrent-last-received-differs-from-highest-accepted", fmt.Sprintf("after round %d (pattern %d) LastReceivedCheque(%s) = %s (err %v), highest accepted cumulative payout is %v", r, pat, iss.Name, got, err, high), hist)
				break
			}
		}
		store.mu.Lock()
		run.Stat("concurrent-readers-met-at-the-record", int64(store.met))
		store.mu.Unlock()
		w.store.Close()
		c.End(fmt.Sprintf("concurrent/%s/multi=%d", shape, multi), high.Sign() > 0 && len(shape) >= 6)
	}
}
