package c30

import (
	"context"
	"fmt"
	"math/big"
	"math/rand"
	"sort"
	"strings"
	"sync"
	"testing"

	"github.com/ethereum/go-ethereum/common"
	"github.com/gauss-project/aurorafs/pkg/crypto"
	chequePkg "github.com/gauss-project/aurorafs/pkg/settlement/traffic/cheque"
	"github.com/gauss-project/aurorafs/pkg/storage"
	"verif/harness/internal/obs"
	"verif/harness/internal/trafficx"
)

// ---------------------------------------------------------------------------
// observation of the real cheque store (what it credited, per stated issuer)

type credit struct {
	issuer common.Address
	amount *big.Int
}

type recCS struct {
	chequePkg.ChequeStore
	mu      sync.Mutex
	credits []credit
	calls   int
}

func (r *recCS) ReceiveCheque(ctx context.Context, c *chequePkg.SignedCheque) (*big.Int, error) {
	amt, err := r.ChequeStore.ReceiveCheque(ctx, c)
	r.mu.Lock()
	r.calls++
	if err == nil {
		var a *big.Int
		if amt != nil {
			a = new(big.Int).Set(amt)
		}
		r.credits = append(r.credits, credit{issuer: c.Beneficiary, amount: a})
	}
	r.mu.Unlock()
	return amt, err
}

func (r *recCS) take() []credit {
	r.mu.Lock()
	defer r.mu.Unlock()
	c := r.credits
	r.credits = nil
	return c
}

// ---------------------------------------------------------------------------
// cheque kinds

const (
	kValid = iota
	kReplay
	kNotIncreasing
	kWrongRecipient
	kBadSignature
	kSignedByOtherNamingPeer // signed by key Y, states issuer X
	kOtherRegisteredIssuer   // signed by Y naming Y, delivered by the peer registered as X
	kForeignIssuer           // signed by an unregistered key naming itself, delivered by a registered peer
	kUnregisteredDeliverer   // delivered by an overlay without a registered chain address
	kNilPayout
	kZeroPayout
	kWrongChainID
	kTamperedPayout
	nKinds
)

var kindName = [...]string{"valid", "replay", "not-increasing", "wrong-recipient", "bad-signature",
	"signed-by-other-naming-peer", "other-registered-issuer-via-peer", "foreign-issuer-via-peer",
	"unregistered-deliverer", "nil-payout", "zero-payout", "wrong-chain-id", "tampered-payout"}

// op is one delivered cheque with the ground truth known from its construction.
type op struct {
	Kind        string `json:"kind"`
	DeliveredBy string `json:"delivered_by"`
	SignedBy    string `json:"signed_by"`
	Issuer      string `json:"stated_issuer"`
	Recipient   string `json:"recipient"`
	Payout      string `json:"payout"`
	Note        string `json:"note,omitempty"`

	// ground truth
	RecipientIsUs bool `json:"recipient_is_us"`
	SigValid      bool `json:"signature_of_stated_issuer"`
	Increasing    bool `json:"payout_above_last_accepted"`
	PeerIsIssuer  bool `json:"delivering_peer_registered_as_issuer"`
	PeerKnown     bool `json:"delivering_peer_registered"`

	Accepted bool   `json:"accepted_by_node"`
	Err      string `json:"error,omitempty"`

	direct    bool
	kind      int
	deliverer *trafficx.Party
	issuer    common.Address
	cheque    *chequePkg.SignedCheque
}

// wrapStore, when set, wraps the state store a new world hands to the real cheque store.
var wrapStore func(storage.StateStorer) storage.StateStorer

type world struct {
	self    *trafficx.Party
	reg     []*trafficx.Party // registered peers
	unreg   *trafficx.Party   // overlay never registered
	foreign *trafficx.Party   // key never registered, delivers nothing itself
	node    *trafficx.Node
	store   storage.StateStorer
	rec     *recCS
	// model
	last      map[common.Address]*big.Int                  // highest accepted payout per stated issuer
	settled   map[common.Address]*big.Int                  // per registered peer (by chain address): ReceivedSettlements
	chainBase map[common.Address]*big.Int                  // amount the issuer's earlier cheques cashed on chain (chain ahead of the store)
	sumCred   map[common.Address]*big.Int                  // sum of amounts the store credited per issuer
	sent      map[common.Address][]*chequePkg.SignedCheque // cheques of kind valid already delivered
	names     map[common.Address]string
	// direct: cheques are handed to the cheque store itself (no delivering peer), so only
	// the recipient, signature and monotonicity clauses apply
	direct bool
}

func (w *world) lastOf(a common.Address) *big.Int {
	if v, ok := w.last[a]; ok {
		return v
	}
	return big.NewInt(0)
}

// baseOf is the amount above which a new valid payout is generated: the last accepted
// cheque of the issuer or, for issuers whose earlier cheques were cashed on chain before
// this node lost its cheque store, the amount cashed on chain.
func (w *world) baseOf(a common.Address) *big.Int {
	b := w.lastOf(a)
	if c, ok := w.chainBase[a]; ok && c.Cmp(b) > 0 {
		return c
	}
	return b
}

func newWorld(t *testing.T, rng *rand.Rand, nreg int) *world {
	w := &world{last: map[common.Address]*big.Int{}, settled: map[common.Address]*big.Int{},
		sumCred: map[common.Address]*big.Int{}, sent: map[common.Address][]*chequePkg.SignedCheque{},
		names: map[common.Address]string{}}
	w.self = trafficx.NewParty("self", rng)
	for i := 0; i < nreg; i++ {
		w.reg = append(w.reg, trafficx.NewParty(fmt.Sprintf("P%d", i), rng))
	}
	w.unreg = trafficx.NewParty("U", rng)
	w.foreign = trafficx.NewParty("F", rng)
	for _, p := range append(append([]*trafficx.Party{w.self, w.unreg, w.foreign}, w.reg...)) {
		w.names[p.Addr] = p.Name
	}
	st, err := trafficx.NewMemStore()
	if err != nil {
		t.Fatal(err)
	}
	if wrapStore != nil {
		st = wrapStore(st)
	}
	w.store = st
	chain := trafficx.NewChain()
	// one peer in three has cashed earlier cheques on chain that this node no longer has in
	// its cheque store (lost / re-installed state store): the chain is ahead of the store
	w.chainBase = map[common.Address]*big.Int{}
	var ahead []common.Address
	for _, p := range w.reg {
		if rng.Intn(3) == 0 {
			c0 := randAmount(rng)
			chain.SetTrans(p.Addr, w.self.Addr, c0)
			w.chainBase[p.Addr] = c0
			w.settled[p.Addr] = new(big.Int).Set(c0)
			ahead = append(ahead, p.Addr)
		}
	}
	chain.SetLists(ahead, ahead)
	w.node = trafficx.NewNode(w.self, st, chain, trafficx.Options{WrapCS: func(cs chequePkg.ChequeStore) chequePkg.ChequeStore {
		w.rec = &recCS{ChequeStore: cs}
		return w.rec
	}})
	if err := w.node.Svc.Init(); err != nil {
		t.Fatal(err)
	}
	for _, p := range w.reg {
		// the registration path of the real node: traffic handshake without a cheque
		if err := w.node.Svc.Handshake(p.Overlay, p.Addr, chequePkg.SignedCheque{}); err != nil {
			t.Fatal(err)
		}
	}
	return w
}

func (w *world) name(a common.Address) string {
	if n, ok := w.names[a]; ok {
		return n
	}
	return a.Hex()
}

func randAmount(rng *rand.Rand) *big.Int {
	switch rng.Intn(4) {
	case 0:
		return big.NewInt(1 + int64(rng.Intn(3)))
	case 1:
		return big.NewInt(1 + int64(rng.Intn(100000)))
	case 2:
		return new(big.Int).Lsh(big.NewInt(1+int64(rng.Intn(1000))), uint(rng.Intn(90)))
	}
	return big.NewInt(1 + rng.Int63())
}

// gen builds the next cheque. It returns nil when the chosen kind is not constructible in
// the present state (e.g. replay before any accepted cheque).
func (w *world) gen(t *testing.T, rng *rand.Rand, kind int) *op {
	x := w.reg[rng.Intn(len(w.reg))] // the peer the cheque is about
	o := &op{kind: kind, Kind: kindName[kind], deliverer: x, issuer: x.Addr,
		RecipientIsUs: true, SigValid: true, PeerKnown: true, PeerIsIssuer: true}
	signer := x
	recipient := w.self.Addr
	payout := new(big.Int).Add(w.baseOf(x.Addr), randAmount(rng))
	var err error
	switch kind {
	case kValid:
	case kReplay:
		prev := w.sent[x.Addr]
		if len(prev) == 0 {
			return nil
		}
		o.cheque = prev[rng.Intn(len(prev))]
		payout = o.cheque.CumulativePayout
	case kNotIncreasing:
		l := w.lastOf(x.Addr)
		if l.Sign() == 0 {
			return nil
		}
		if rng.Intn(2) == 0 {
			payout = new(big.Int).Set(l) // equal, freshly signed
			o.Note = "equal to last accepted"
		} else {
			payout = new(big.Int).Sub(l, big.NewInt(1+int64(rng.Intn(3))))
			if payout.Sign() < 0 {
				payout = big.NewInt(0)
			}
			o.Note = "below last accepted"
		}
	case kWrongRecipient:
		o.RecipientIsUs = false
		switch rng.Intn(3) {
		case 0:
			recipient = x.Addr
		case 1:
			recipient = w.reg[rng.Intn(len(w.reg))].Addr
		default:
			rng.Read(recipient[:])
		}
	case kBadSignature:
		o.SigValid = false
	case kSignedByOtherNamingPeer:
		o.SigValid = false
		if rng.Intn(2) == 0 && len(w.reg) > 1 {
			for signer == x {
				signer = w.reg[rng.Intn(len(w.reg))]
			}
		} else {
			signer = w.foreign
		}
	case kOtherRegisteredIssuer:
		if len(w.reg) < 2 {
			return nil
		}
		for signer == x {
			signer = w.reg[rng.Intn(len(w.reg))]
		}
		o.issuer = signer.Addr
		o.PeerIsIssuer = false
		payout = new(big.Int).Add(w.baseOf(signer.Addr), randAmount(rng))
	case kForeignIssuer:
		signer = w.foreign
		o.issuer = signer.Addr
		o.PeerIsIssuer = false
		payout = new(big.Int).Add(w.baseOf(signer.Addr), randAmount(rng))
	case kUnregisteredDeliverer:
		o.deliverer = w.unreg
		o.PeerKnown = false
		o.PeerIsIssuer = false
		if rng.Intn(2) == 0 {
			signer = w.unreg
			o.issuer = signer.Addr
			payout = new(big.Int).Add(w.baseOf(signer.Addr), randAmount(rng))
			o.Note = "own cheque of the unregistered peer"
		} else {
			o.Note = "a registered peer's fresh cheque relayed by the unregistered peer"
		}
	case kNilPayout:
		o.Increasing = false
		o.SigValid = false
	case kZeroPayout:
		payout = big.NewInt(0)
	case kWrongChainID:
		o.SigValid = false
	case kTamperedPayout:
		o.SigValid = false
	}
	if o.cheque == nil {
		switch kind {
		case kWrongChainID:
			c := chequePkg.Cheque{Recipient: recipient, Beneficiary: o.issuer, CumulativePayout: payout}
			sig, e := chequePkg.NewChequeSigner(crypto.NewDefaultSigner(signer.Key), trafficx.ChainID+1).Sign(&c)
			err = e
			o.cheque = &chequePkg.SignedCheque{Cheque: c, Signature: sig}
		default:
			o.cheque, err = signer.Sign(recipient, o.issuer, payout)
		}
		if err != nil {
			t.Fatalf("signing: %v", err)
		}
		switch kind {
		case kBadSignature:
			sig := append([]byte(nil), o.cheque.Signature...)
			switch rng.Intn(4) {
			case 0:
				sig[rng.Intn(32)] ^= byte(1 + rng.Intn(255)) // r
				o.Note = "r altered"
			case 1:
				sig[32+rng.Intn(32)] ^= byte(1 + rng.Intn(255)) // s
				o.Note = "s altered"
			case 2:
				sig = sig[:rng.Intn(65)]
				o.Note = fmt.Sprintf("signature truncated to %d bytes", len(sig))
			default:
				sig = nil
				o.Note = "no signature"
			}
			o.cheque = &chequePkg.SignedCheque{Cheque: o.cheque.Cheque, Signature: sig}
		case kNilPayout:
			o.cheque = &chequePkg.SignedCheque{Cheque: chequePkg.Cheque{Recipient: recipient, Beneficiary: o.issuer}, Signature: o.cheque.Signature}
			payout = nil
		case kTamperedPayout:
			two256 := new(big.Int).Lsh(big.NewInt(1), 256)
			switch rng.Intn(4) {
			case 0:
				// the signed amount raised by a multiple of 2^256: the same 32-byte word
				payout = new(big.Int).Add(payout, new(big.Int).Mul(two256, big.NewInt(1+int64(rng.Intn(3)))))
				o.Note = "signed payout + k*2^256"
			case 1:
				payout = new(big.Int).Sub(payout, two256)
				o.Note = "signed payout - 2^256 (negative)"
			default:
				payout = new(big.Int).Add(payout, randAmount(rng))
			}
			o.cheque = &chequePkg.SignedCheque{Cheque: chequePkg.Cheque{Recipient: recipient, Beneficiary: o.issuer, CumulativePayout: payout}, Signature: o.cheque.Signature}
		}
	}
	if kind != kNilPayout {
		o.Increasing = payout.Cmp(w.lastOf(o.issuer)) > 0
	}
	o.DeliveredBy = o.deliverer.Name
	o.SignedBy = signer.Name
	o.Issuer = w.name(o.issuer)
	o.Recipient = w.name(o.cheque.Recipient)
	if payout != nil {
		o.Payout = payout.String()
	} else {
		o.Payout = "nil"
	}
	return o
}

func (o *op) shouldAccept() bool {
	if o.direct {
		return o.RecipientIsUs && o.SigValid && o.Increasing
	}
	return o.RecipientIsUs && o.SigValid && o.Increasing && o.PeerKnown && o.PeerIsIssuer
}

// failedClause names the first clause of the statement that the cheque does not meet.
func (o *op) failedClause() string {
	if o.direct {
		switch {
		case !o.RecipientIsUs:
			return "wrong-recipient"
		case !o.SigValid:
			return "bad-signature"
		case !o.Increasing:
			return "not-increasing"
		}
		return ""
	}
	switch {
	case !o.PeerKnown:
		return "from-unregistered-peer"
	case !o.RecipientIsUs:
		return "wrong-recipient"
	case !o.SigValid:
		return "bad-signature"
	case !o.PeerIsIssuer:
		return "from-peer-not-registered-as-issuer"
	case !o.Increasing:
		return "not-increasing"
	}
	return ""
}

func witness(hist []*op) interface{} {
	return map[string]interface{}{"cheques_in_order": hist, "violating": hist[len(hist)-1]}
}

// deliver hands the cheque to the real service and compares with the statement.
func (w *world) deliver(t *testing.T, run *obs.Run, c *obs.Case, hist []*op, o *op) {
	var err error
	var panicked interface{}
	pfx := ""
	o.direct = w.direct
	func() {
		defer func() { panicked = recover() }()
		if w.direct {
			pfx = "store-"
			_, err = w.node.CS.ReceiveCheque(context.Background(), o.cheque)
		} else {
			err = w.node.Svc.ReceiveCheque(context.Background(), o.deliverer.Overlay, o.cheque)
		}
	}()
	run.Stat(pfx+"cheques_delivered", 1)
	run.Stat(pfx+"kind/"+o.Kind, 1)
	if panicked != nil {
		o.Err = fmt.Sprint("panic: ", panicked)
		c.Viol(pfx+"panic-receive-cheque/"+o.Kind, o.Err, witness(hist))
		// a panic under the peer lock leaves the service unusable: stop this history
		return
	}
	o.Accepted = err == nil
	if err != nil {
		o.Err = err.Error()
	}
	want := o.shouldAccept()
	creds := w.rec.take()
	// what the store credited in this call
	for _, cr := range creds {
		run.Stat("store_credits", 1)
		if cr.amount == nil {
			c.Viol("credited-nil-amount", "the cheque store accepted a cheque and returned no amount", witness(hist))
			continue
		}
		inc := new(big.Int).Sub(o.cheque.CumulativePayout, w.lastOf(cr.issuer))
		if cr.amount.Cmp(inc) != 0 {
			c.Viol("credited-amount-differs-from-increase", fmt.Sprintf("store credited %v for issuer %s, payout rose by %v", cr.amount, w.name(cr.issuer), inc), witness(hist))
		}
		s := w.sumCred[cr.issuer]
		if s == nil {
			s = big.NewInt(0)
		}
		w.sumCred[cr.issuer] = new(big.Int).Add(s, cr.amount)
	}
	switch {
	case o.Accepted && want:
		run.Stat(pfx+"accepted", 1)
		w.last[o.issuer] = new(big.Int).Set(o.cheque.CumulativePayout)
		w.settled[o.deliverer.Addr] = new(big.Int).Set(o.cheque.CumulativePayout)
		if o.kind == kValid {
			w.sent[o.issuer] = append(w.sent[o.issuer], o.cheque)
		}
	case !o.Accepted && !want:
		run.Stat(pfx+"rejected/"+o.failedClause(), 1)
		if len(creds) > 0 {
			c.Viol(pfx+"rejected-but-credited", "ReceiveCheque returned an error after the store credited the cheque", witness(hist))
		}
	case o.Accepted && !want:
		c.Viol(pfx+"accepted-"+o.failedClause(), fmt.Sprintf("cheque of kind %q delivered by %s (stated issuer %s, signed by %s, recipient %s, payout %s) was accepted",
			o.Kind, o.DeliveredBy, o.Issuer, o.SignedBy, o.Recipient, o.Payout), witness(hist))
	default:
		c.Viol(pfx+"rejected-valid-cheque", fmt.Sprintf("valid increasing cheque from %s rejected: %v", o.DeliveredBy, err), witness(hist))
	}
	w.checkState(t, run, c, hist, o)
}

// checkState compares the node's records with the model, then adopts the node's
// records where they differ so that one defect is reported once, not at every later step.
func (w *world) checkState(t *testing.T, run *obs.Run, c *obs.Case, hist []*op, o *op) {
	issuers := []*trafficx.Party{w.unreg, w.foreign}
	issuers = append(issuers, w.reg...)
	for _, p := range issuers {
		lc, err := w.node.CS.LastReceivedCheque(p.Addr)
		if err != nil && err != chequePkg.ErrNoCheque {
			t.Fatalf("LastReceivedCheque: %v", err)
		}
		got := big.NewInt(0)
		if lc != nil && lc.CumulativePayout != nil {
			got = lc.CumulativePayout
		}
		run.Stat("state_reads", 1)
		if got.Cmp(w.lastOf(p.Addr)) != 0 {
			// only report when not already explained by the acceptance verdict of this very cheque
			if !(o.Accepted && !o.shouldAccept() && p.Addr == o.issuer) {
				c.Viol("last-received-differs-from-highest-accepted", fmt.Sprintf("issuer %s: stored last cheque %v, highest accepted %v", p.Name, got, w.lastOf(p.Addr)), witness(hist))
			}
			w.last[p.Addr] = new(big.Int).Set(got)
		}
		sum := w.sumCred[p.Addr]
		if sum == nil {
			sum = big.NewInt(0)
		}
		if sum.Cmp(got) != 0 {
			c.Viol("credited-sum-differs-from-last-received", fmt.Sprintf("issuer %s: sum of credited amounts %v, stored last cheque %v", p.Name, sum, got), witness(hist))
			w.sumCred[p.Addr] = new(big.Int).Set(got)
		}
	}
	if w.direct {
		return
	}
	// per-peer view of the service
	tcs, err := w.node.Svc.TrafficCheques()
	if err != nil {
		t.Fatal(err)
	}
	seen := map[string]*big.Int{}
	for _, tc := range tcs {
		seen[tc.Peer.String()] = tc.ReceivedSettlements
	}
	for _, p := range w.reg {
		got := seen[p.Overlay.String()]
		if got == nil {
			got = big.NewInt(0)
		}
		want := w.settled[p.Addr]
		if want == nil {
			want = big.NewInt(0)
		}
		run.Stat("state_reads", 1)
		if got.Cmp(want) != 0 {
			key := "received-settlements-differ-from-highest-accepted"
			if o.deliverer == p && o.issuer != p.Addr && o.cheque.CumulativePayout != nil && got.Cmp(o.cheque.CumulativePayout) == 0 {
				key = "received-settlements-reflect-other-issuers-cheque"
			}
			c.Viol(key, fmt.Sprintf("peer %s: ReceivedSettlements %v, highest cheque accepted from its own chain address %v (last delivery: issuer %s payout %s)",
				p.Name, got, want, o.Issuer, o.Payout), witness(hist))
			w.settled[p.Addr] = new(big.Int).Set(got)
		}
	}
}

var weights = [nKinds]int{kValid: 30, kReplay: 8, kNotIncreasing: 8, kWrongRecipient: 6, kBadSignature: 8,
	kSignedByOtherNamingPeer: 6, kOtherRegisteredIssuer: 6, kForeignIssuer: 4, kUnregisteredDeliverer: 6,
	kNilPayout: 2, kZeroPayout: 3, kWrongChainID: 4, kTamperedPayout: 5}

func pickKind(rng *rand.Rand, exclude map[int]bool) int {
	tot := 0
	for k, wgt := range weights {
		if !exclude[k] {
			tot += wgt
		}
	}
	r := rng.Intn(tot)
	for k, wgt := range weights {
		if exclude[k] {
			continue
		}
		if r < wgt {
			return k
		}
		r -= wgt
	}
	return kValid
}

func TestChequeHistories(t *testing.T) {
	run := obs.Start(t, "C30")
	defer run.Done()
	run.Rule("random histories of 20 cheques over 2-3 registered peers, one unregistered overlay and one foreign key; each cheque is one of 13 kinds "+
		"(valid increasing, replay, equal/decreasing, wrong recipient, altered/truncated/missing signature, signed by another key but naming the peer, "+
		"another registered issuer's valid cheque relayed by the peer, foreign issuer's valid cheque relayed by the peer, unregistered deliverer, nil payout, zero payout, wrong chain id, payout altered after signing); "+
		"distinct = set of kinds in the history x number of accepted cheques; non-trivial = at least one accepted and three different rejected kinds",
		"ground truth of every cheque (who signed what) is known from its construction, not recomputed with the code under test",
		"stub chain / cash-out / delivery protocol; real traffic.Service, cheque store, address book, EIP-712 signer and recovery")
	n := run.N(300, 3000)
	for i := 0; i < n; i++ {
		c := run.Begin(fmt.Sprintf("hist/%d", i), nil)
		if c == nil {
			continue
		}
		rng := c.Rand()
		w := newWorld(t, rng, 2+rng.Intn(2))
		exclude := map[int]bool{}
		// a third of the histories contain no relayed cheque of another issuer, so that
		// everything else is judged on histories that one defect cannot disturb
		if i%3 == 0 {
			exclude[kOtherRegisteredIssuer] = true
			exclude[kForeignIssuer] = true
		}
		var hist []*op
		kinds := map[string]bool{}
		accepted := 0
		for len(hist) < 20 {
			k := pickKind(rng, exclude)
			if len(hist) < 2 {
				k = kValid
			}
			o := w.gen(t, rng, k)
			if o == nil {
				continue
			}
			hist = append(hist, o)
			w.deliver(t, run, c, hist, o)
			kinds[o.Kind] = true
			if o.Accepted {
				accepted++
			}
			if strings.HasPrefix(o.Err, "panic:") {
				break
			}
		}
		ks := make([]string, 0, len(kinds))
		for k := range kinds {
			ks = append(ks, k)
		}
		sort.Strings(ks)
		if i < 2 {
			run.Sample(map[string]interface{}{"history": hist})
		}
		w.store.Close()
		c.End(fmt.Sprintf("kinds=%s/accepted=%d", strings.Join(ks, ","), accepted), accepted > 0 && len(kinds) >= 4)
	}
}

// TestChequeStoreDirect hands the same kinds of cheques to the real cheque store itself.
func TestChequeStoreDirect(t *testing.T) {
	run := obs.Start(t, "C30")
	defer run.Done()
	run.Rule("the same generator, cheques handed to chequeStore.ReceiveCheque directly: accepted iff recipient is this node, the signature is the stated issuer's and the payout is above that issuer's last accepted one; credited amount = increase; distinct = set of kinds x accepted count")
	n := run.N(150, 1500)
	for i := 0; i < n; i++ {
		c := run.Begin(fmt.Sprintf("store/%d", i), nil)
		if c == nil {
			continue
		}
		rng := c.Rand()
		w := newWorld(t, rng, 2+rng.Intn(2))
		w.direct = true
		var hist []*op
		kinds := map[string]bool{}
		accepted := 0
		for len(hist) < 20 {
			k := pickKind(rng, nil)
			if len(hist) < 2 {
				k = kValid
			}
			o := w.gen(t, rng, k)
			if o == nil {
				continue
			}
			hist = append(hist, o)
			w.deliver(t, run, c, hist, o)
			kinds[o.Kind] = true
			if o.Accepted {
				accepted++
			}
			if strings.HasPrefix(o.Err, "panic:") {
				break
			}
		}
		ks := make([]string, 0, len(kinds))
		for k := range kinds {
			ks = append(ks, k)
		}
		sort.Strings(ks)
		w.store.Close()
		c.End(fmt.Sprintf("store/kinds=%s/accepted=%d", strings.Join(ks, ","), accepted), accepted > 0 && len(kinds) >= 4)
	}
}
