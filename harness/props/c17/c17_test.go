package c17

import (
	"context"
	"fmt"
	"sort"
	"strings"
	"testing"

	"github.com/gauss-project/aurorafs/pkg/boson"
	"github.com/gauss-project/aurorafs/pkg/sctx"
	"github.com/gauss-project/aurorafs/pkg/storage"

	"verif/harness/internal/fsim"
	"verif/harness/internal/obs"
)

type opRec struct {
	Op   string `json:"op"`
	File int    `json:"file"`
	Arg  string `json:"arg,omitempty"`
	Note string `json:"note,omitempty"`
}

// four shards so the orchestrator can run them as parallel child processes
func TestShard0(t *testing.T) { histories(t, 0) }
func TestShard1(t *testing.T) { histories(t, 1) }
func TestShard2(t *testing.T) { histories(t, 2) }
func TestShard3(t *testing.T) { histories(t, 3) }

// distinct data chunks of a file in order of first occurrence: the positions of the
// availability vector
func order(f *fsim.File) []string {
	seen := map[string]bool{}
	var out []string
	for _, l := range f.Leaves {
		if !seen[l] {
			seen[l] = true
			out = append(out, l)
		}
	}
	return out
}

func bit(b []byte, i int) bool { return i/8 < len(b) && b[i/8]&(1<<uint(i%8)) != 0 }

var prefixes = []string{"chunk-", "discover-", "sourceChunk-", "sourcePyramid-"}

func histories(t *testing.T, shard int) {
	run := obs.Start(t, "C17")
	defer run.Done()
	run.Rule("histories of 24 ops on a restartable mini node with the real chunkinfo: uploads, partial retrievals of data chunks in random order from a source node, local reads under the file context of data chunks, intermediate chunks, manifest chunks and the root itself, full downloads through the HTTP path, restarts (new node on the same key-value content and state store), deletions, and - in every second history, which runs with a cache of 10..21 chunks - collection runs that evict cached files; after every op, for every file, every set bit of the node's own availability vector (GetChunkInfoServerOverlays and GetFileList) must correspond to a locally stored data chunk, 'all bits set' must mean all data chunks stored, and after a delete no getter and no state-store key may mention the root; distinct = (op kinds, #files, repeated-chunk file?, restarts, deletes)",
		"bit i of the vector stands for the i-th distinct data chunk of the file in file order (the order both ends derive from the pyramid)")
	n := run.N(120, 1200)
	for i := shard; i < n; i += 4 {
		c := run.Begin(fmt.Sprintf("hist/%d", i), nil)
		if c == nil {
			continue
		}
		rng := c.Rand()
		// every second history runs with a small cache, so that collection runs evict files
		capacity := uint64(1000000)
		if i%2 == 1 {
			capacity = uint64(10 + rng.Intn(12))
		}
		w, err := fsim.NewRestartableWorld(capacity)
		if err != nil {
			t.Fatal(err)
		}
		var files []*fsim.File
		nf := 2 + rng.Intn(3)
		repeated := false
		wide := false
		for len(files) < nf {
			nb := 1 + rng.Intn(4)
			if rng.Intn(4) == 0 {
				nb = 5 + rng.Intn(2)
			}
			blocks := make([]int, nb)
			for k := range blocks {
				blocks[k] = rng.Intn(7)
			}
			if !wide && rng.Intn(2) == 0 {
				// one file in every second history has exactly 8 or 16 distinct data chunks
				// (availability vector without a partial last byte)
				wide = true
				nb = 8 * (1 + rng.Intn(2))
				blocks = make([]int, nb)
				for k, v := range rng.Perm(20)[:nb] {
					blocks[k] = v
				}
				run.Stat("files_with_whole_byte_vectors", 1)
			}
			if nb >= 3 && rng.Intn(3) == 0 {
				blocks[nb-1] = blocks[0]
				repeated = true
			}
			if nb >= 4 && rng.Intn(2) == 0 {
				// a repetition in the middle, followed by further distinct chunks (A B C B D E)
				b := 1 + rng.Intn(nb-2)
				blocks[b] = blocks[rng.Intn(b)]
				repeated = true
			}
			last := []int{fsim.CS, 1000, 70000}[rng.Intn(3)]
			f, err := w.NewFile(blocks, last)
			if err != nil {
				t.Fatal(err)
			}
			dup := false
			for _, g := range files {
				if g == f {
					dup = true
				}
			}
			if !dup {
				files = append(files, f)
			}
		}
		var hist []opRec
		kinds := map[string]bool{}
		deleted := make([]bool, len(files)) // deleted by the last operation on it
		restarts, deletes := 0, 0
		reported := map[string]bool{}
		witness := func(extra map[string]interface{}) map[string]interface{} {
			var fd []map[string]interface{}
			for _, f := range files {
				fd = append(fd, f.Desc())
			}
			o := map[string]interface{}{"files": fd, "history": append([]opRec(nil), hist...)}
			for k, v := range extra {
				o[k] = v
			}
			return o
		}
		self := func() string { return w.N.Addr.String() }
		audit := func(after string) {
			st, err := fsim.Dump(w.N)
			if err != nil {
				t.Fatal(err)
			}
			_, roots := w.N.CI.GetFileList(w.N.Addr)
			listed := map[string]bool{}
			for _, r := range roots {
				listed[r.String()] = true
			}
			infos, _ := w.N.CI.GetFileList(w.N.Addr)
			for fi, f := range files {
				ord := order(f)
				var vecs []struct {
					src string
					b   []byte
					l   int
				}
				for _, ov := range w.N.CI.GetChunkInfoServerOverlays(f.Root) {
					if ov.Overlay == self() {
						vecs = append(vecs, struct {
							src string
							b   []byte
							l   int
						}{"server-overlays", ov.Bit.B, ov.Bit.Len})
					}
				}
				for _, m := range infos {
					if m["rootCid"] == f.Root.String() {
						b, _ := m["bitvector.b"].([]byte)
						l, _ := m["bitvector.len"].(int)
						vecs = append(vecs, struct {
							src string
							b   []byte
							l   int
						}{"file-list", b, l})
					}
				}
				if deleted[fi] {
					// no record of any kind may remain
					if len(vecs) > 0 || listed[f.Root.String()] {
						c.Viol("availability-record-survives-delete", fmt.Sprintf("after %s: f%d was deleted but its availability record is still returned", after, fi), witness(nil))
					}
					if src := w.N.CI.GetChunkInfoSource(f.Root); src.PyramidSource != "" || len(src.ChunkSource) > 0 {
						c.Viol("source-record-survives-delete", fmt.Sprintf("after %s: f%d was deleted but a source record is still returned", after, fi), witness(nil))
					}
					if len(w.N.CI.GetChunkInfoDiscoverOverlays(f.Root)) > 0 {
						c.Viol("discovery-record-survives-delete", fmt.Sprintf("after %s: f%d was deleted but discovery records are still returned", after, fi), witness(nil))
					}
					for _, p := range prefixes {
						var left []string
						_ = w.N.State.Iterate(p+f.Root.String(), func(k, _ []byte) (bool, error) {
							left = append(left, string(k))
							return false, nil
						})
						if len(left) > 0 {
							c.Viol("persisted-"+strings.TrimSuffix(p, "-")+"-record-survives-delete", fmt.Sprintf("after %s: f%d was deleted but state-store keys remain: %v", after, fi, left[:1]), witness(nil))
						}
					}
					run.Stat("deleted_files_audited", 1)
					continue
				}
				for _, v := range vecs {
					run.Stat("vectors_audited", 1)
					if v.l != len(ord) {
						c.Viol("vector-length-differs-from-data-chunk-count", fmt.Sprintf("after %s: %s vector of f%d has %d positions, the file has %d distinct data chunks", after, v.src, fi, v.l, len(ord)), witness(nil))
						continue
					}
					all := true
					for pos, ch := range ord {
						if !bit(v.b, pos) {
							all = false
							continue
						}
						run.Stat("set_bits_checked", 1)
						if !st.Present[ch] {
							// report an overclaim once, keyed by the operation after which it appeared
							rk := fmt.Sprintf("%d/%d/%s", fi, pos, v.src)
							if reported[rk] {
								continue
							}
							reported[rk] = true
							c.Viol("bit-set-for-chunk-not-stored/after-"+after, fmt.Sprintf("after %s: %s vector of f%d marks data chunk %d (%s) present but it is not in the local store", after, v.src, fi, pos, ch[:10]), witness(map[string]interface{}{"vector": fmt.Sprintf("%08b", v.b), "position": pos}))
							break
						}
					}
					if all {
						run.Stat("fully_downloaded_claims_checked", 1)
					}
				}
				// "reported fully downloaded" as the node itself decides it: with no discovery
				// record and no source known for the root, ChunkInfo.Init answers true only
				// through its own full-download test
				if len(vecs) > 0 && len(w.N.CI.GetChunkInfoDiscoverOverlays(f.Root)) == 0 && len(w.N.Chain.GetNodesFromCid(f.Root.Bytes())) == 0 {
					run.Stat("full_download_test_queried", 1)
					if w.N.CI.Init(context.Background(), nil, f.Root) {
						run.Stat("full_download_test_true", 1)
						for pos, ch := range ord {
							if !st.Present[ch] {
								c.Viol("reported-fully-downloaded-with-chunk-missing/after-"+after, fmt.Sprintf("after %s: the node reports f%d (%d distinct data chunks) fully downloaded but data chunk %d (%s) is not in the local store", after, fi, len(ord), pos, ch[:10]), witness(nil))
								break
							}
						}
					}
				}
			}
		}
		allIdx := func(f *fsim.File) []int {
			idx := make([]int, len(f.Leaves))
			for j := range idx {
				idx[j] = j
			}
			return idx
		}
		if i%4 == 3 {
			// directed prefix: a file is obtained, one of its chunks is served to a peer (a record
			// for another overlay exists), the node restarts without its chunk database, obtains
			// the file again and finally deletes it
			f := files[0]
			step := func(kind string, fi int, arg string, do func() string) {
				hist = append(hist, opRec{Op: kind, File: fi, Arg: arg})
				hist[len(hist)-1].Note = do()
				kinds[kind] = true
				audit(kind)
			}
			errs := func(err error) string {
				if err != nil {
					return err.Error()
				}
				return ""
			}
			if rng.Intn(2) == 0 {
				step("upload", 0, "", func() string { return errs(w.Upload(f, false)) })
			} else {
				step("download", 0, "", func() string { return errs(w.CacheFull(f)) })
			}
			lf := f.Leaves[rng.Intn(len(f.Leaves))]
			peer := boson.NewAddress(append([]byte{0xEE, byte(rng.Intn(3))}, make([]byte, 30)...))
			step("serve-to-peer", 0, lf[:10], func() string {
				return errs(w.N.CI.OnChunkTransferred(boson.MustParseHexAddress(lf), f.Root, peer, w.N.Addr))
			})
			step("restart-empty-store", -1, "", func() string {
				restarts++
				if err := w.RestartWithEmptyStore(); err != nil {
					t.Fatalf("restart: %v", err)
				}
				return ""
			})
			step("download", 0, "", func() string { return errs(w.CacheFull(f)) })
			if rng.Intn(2) == 0 {
				step("restart", -1, "", func() string {
					restarts++
					if err := w.Restart(); err != nil {
						t.Fatalf("restart: %v", err)
					}
					return ""
				})
			}
			step("delete", 0, "", func() string {
				code := w.N.Delete(f.Root)
				if code == 200 {
					deleted[0] = true
					deletes++
				}
				return fmt.Sprint("status=", code)
			})
			run.Stat("directed_serve_restart_reobtain_delete_prefixes", 1)
		}
		for k := 0; k < 24; k++ {
			fi := rng.Intn(len(files))
			f := files[fi]
			var kind string
			x := rng.Intn(20)
			if capacity < 1000 {
				if s0, _ := fsim.Dump(w.N); s0.GCSize > s0.Target && rng.Intn(3) > 0 {
					x = 20
				}
			}
			switch {
			case x == 20:
				// cache eviction: whatever the run removes must no longer be advertised
				kind = "collect"
				before, _ := fsim.Dump(w.N)
				rounds, done, _, _ := fsim.Collect(w.N, 12)
				after, _ := fsim.Dump(w.N)
				gone := 0
				for ch := range before.Present {
					if !after.Present[ch] {
						gone++
					}
				}
				hist = append(hist, opRec{Op: kind, File: -1, Note: fmt.Sprintf("rounds=%d done=%v chunks_evicted=%d", rounds, done, gone)})
				if gone > 0 {
					run.Stat("collections_that_evicted", 1)
				}
			case x < 3:
				kind = "upload"
				hist = append(hist, opRec{Op: kind, File: fi})
				deleted[fi] = false
				if err := w.Upload(f, false); err != nil {
					hist[len(hist)-1].Note = err.Error()
				}
			case x < 8:
				kind = "retrieve-some"
				idx := allIdx(f)
				rng.Shuffle(len(idx), func(a, b int) { idx[a], idx[b] = idx[b], idx[a] })
				idx = idx[:1+rng.Intn(len(idx))]
				hist = append(hist, opRec{Op: kind, File: fi, Arg: fmt.Sprint(idx)})
				deleted[fi] = false // even a failing retrieval may legitimately leave records
				if err := w.CacheChunks(f, idx); err != nil {
					hist[len(hist)-1].Note = err.Error()
				}
			case x < 10:
				kind = "download"
				hist = append(hist, opRec{Op: kind, File: fi})
				deleted[fi] = false
				if err := w.CacheFull(f); err != nil {
					hist[len(hist)-1].Note = err.Error()
				}
			case x < 14:
				// local read under the file context of some chunk of the file that is stored:
				// data chunk, intermediate chunk, manifest chunk or the root itself
				st, _ := fsim.Dump(w.N)
				var cand []string
				cls := []string{"data", "nondata", "root"}[rng.Intn(3)]
				for ch := range f.Chunks {
					if !st.Present[ch] {
						continue
					}
					switch {
					case cls == "root" && ch == f.Root.String():
						cand = append(cand, ch)
					case cls == "nondata" && f.NonData[ch] && ch != f.Root.String():
						cand = append(cand, ch)
					case cls == "data" && !f.NonData[ch]:
						cand = append(cand, ch)
					}
				}
				if len(cand) == 0 {
					continue
				}
				sort.Strings(cand)
				ch := cand[rng.Intn(len(cand))]
				if cls == "data" && rng.Intn(3) == 0 {
					// the chunk is served to a peer: the node records that peer's availability too
					kind = "serve-to-peer"
					peer := boson.NewAddress(append([]byte{0xEE, byte(rng.Intn(3))}, make([]byte, 30)...))
					hist = append(hist, opRec{Op: kind, File: fi, Arg: ch[:10]})
					if err := w.N.CI.OnChunkTransferred(boson.MustParseHexAddress(ch), f.Root, peer, w.N.Addr); err != nil {
						hist[len(hist)-1].Note = err.Error()
					}
					deleted[fi] = false
					break
				}
				kind = "read-" + cls
				hist = append(hist, opRec{Op: kind, File: fi, Arg: ch[:10]})
				ctx := sctx.SetRootHash(context.Background(), f.Root)
				deleted[fi] = false
				if _, err := w.N.NS.Get(ctx, storage.ModeGetRequest, boson.MustParseHexAddress(ch)); err != nil {
					hist[len(hist)-1].Note = err.Error()
				}
			case x < 16:
				kind = "restart"
				if rng.Intn(4) == 0 {
					// the node comes back with its state store but without its chunk database
					kind = "restart-empty-store"
					hist = append(hist, opRec{Op: kind, File: -1})
					if err := w.RestartWithEmptyStore(); err != nil {
						t.Fatalf("restart: %v", err)
					}
					restarts++
					break
				}
				hist = append(hist, opRec{Op: kind, File: -1})
				if err := w.Restart(); err != nil {
					t.Fatalf("restart: %v", err)
				}
				restarts++
			default:
				kind = "delete"
				hist = append(hist, opRec{Op: kind, File: fi})
				code := w.N.Delete(f.Root)
				hist[len(hist)-1].Note = fmt.Sprint("status=", code)
				if code == 200 {
					deleted[fi] = true
					deletes++
				}
			}
			kinds[kind] = true
			audit(kind)
		}
		w.Close()
		var ks []string
		for k := range kinds {
			ks = append(ks, k)
		}
		sort.Strings(ks)
		c.End(fmt.Sprintf("files=%d/rep=%v/restarts=%d/deletes=%d/%s", len(files), repeated, min(restarts, 2), min(deletes, 2), strings.Join(ks, "+")), true)
		if i < 1 {
			run.Sample(witness(nil))
		}
	}
}

func min(a, b int) int {
	if a < b {
		return a
	}
	return b
}
