// Package lin wraps porcupine for recorded-history checking with a three-valued result.
package lin

import (
	"sync"
	"sync/atomic"
	"time"

	"github.com/anishathalye/porcupine"
)

// Verdict of a linearizability check.
type Verdict int

const (
	Ok Verdict = iota
	Illegal
	Unknown // checker timed out: inconclusive, never a violation
)

// Check runs porcupine with a timeout.
func Check(model porcupine.Model, ops []porcupine.Operation, timeout time.Duration) Verdict {
	switch porcupine.CheckOperationsTimeout(model, ops, timeout) {
	case porcupine.Ok:
		return Ok
	case porcupine.Illegal:
		return Illegal
	}
	return Unknown
}

// Recorder collects operations with call/return stamps from one logical clock.
type Recorder struct {
	clock int64
	mu    sync.Mutex
	ops   []porcupine.Operation
}

// Now returns the next logical timestamp (strictly increasing, process-wide for this recorder).
func (r *Recorder) Now() int64 { return atomic.AddInt64(&r.clock, 1) }

// Do records the call stamp, runs f, records the return stamp and the output.
func (r *Recorder) Do(client int, input interface{}, f func() interface{}) interface{} {
	call := r.Now()
	out := f()
	ret := r.Now()
	r.mu.Lock()
	r.ops = append(r.ops, porcupine.Operation{ClientId: client, Input: input, Call: call, Output: out, Return: ret})
	r.mu.Unlock()
	return out
}

// Ops returns the recorded history.
func (r *Recorder) Ops() []porcupine.Operation {
	r.mu.Lock()
	defer r.mu.Unlock()
	return append([]porcupine.Operation(nil), r.ops...)
}
