package filekit

import (
	"bytes"
	"context"
	"encoding/binary"
	"sync"

	"github.com/gauss-project/aurorafs/pkg/boson"
	"github.com/gauss-project/aurorafs/pkg/encryption"
	"github.com/gauss-project/aurorafs/pkg/storage"
	"golang.org/x/crypto/sha3"

	"verif/harness/internal/spec"
)

// VTree is a storage.Getter that synthesises, on demand, any chunk of the tree that the
// format specification (spec.Tree) prescribes for an N-byte file whose bytes are the
// pseudo-random stream Fill(_, Seed, _). Addresses are fake: they encode (level, index),
// nothing validates them on the read path. With Enc the chunks are encrypted the way
// encryption.NewChunkEncrypter does (span under counter ChunkSize/64, payload padded to
// ChunkSize under counter 0, real encryption.New), with a key derived from (level, index)
// so that a parent synthesised earlier names the key its child will be encrypted with.
type VTree struct {
	T    spec.Tree
	Seed uint64
	Enc  bool

	mu      sync.Mutex
	cache   map[spec.Node][]byte
	order   []spec.Node
	gets    map[int]int64
	unknown int64
}

var vmagic = []byte("VTREE\x00\x01\x02")

// NewVTree describes a file of n bytes; encrypted trees have 64-byte references and 4096
// of them per intermediate chunk.
func NewVTree(n int64, seed uint64, enc bool) *VTree {
	b := spec.Branches
	if enc {
		b = spec.Branches / 2
	}
	return &VTree{T: spec.NewTree(n, b), Seed: seed, Enc: enc, cache: map[spec.Node][]byte{}, gets: map[int]int64{}}
}

// Addr is the fake 32-byte address of a node.
func (v *VTree) Addr(nd spec.Node) []byte {
	a := make([]byte, 32)
	copy(a, vmagic)
	a[8] = byte(nd.Level)
	binary.BigEndian.PutUint64(a[9:], uint64(nd.Index))
	binary.BigEndian.PutUint64(a[17:], v.Seed)
	binary.BigEndian.PutUint32(a[25:], uint32(mix(v.Seed^uint64(nd.Index)<<8^uint64(nd.Level))))
	return a
}

func (v *VTree) decode(a []byte) (spec.Node, bool) {
	if len(a) != 32 || !bytes.Equal(a[:8], vmagic) {
		return spec.Node{}, false
	}
	nd := spec.Node{Level: int(a[8]), Index: int64(binary.BigEndian.Uint64(a[9:]))}
	if binary.BigEndian.Uint64(a[17:]) != v.Seed || !v.T.IsChunk(nd) || !bytes.Equal(v.Addr(nd), a) {
		return spec.Node{}, false
	}
	return nd, true
}

// Key is the encryption key of a node (encrypted trees).
func (v *VTree) Key(nd spec.Node) []byte {
	k := make([]byte, 32)
	for j := 0; j < 4; j++ {
		binary.LittleEndian.PutUint64(k[8*j:], mix(mix(v.Seed+uint64(j))^mix(uint64(nd.Index))^uint64(nd.Level)<<56))
	}
	return k
}

// Ref is the reference of a node as it appears in its parent: address, plus key when
// encrypted.
func (v *VTree) Ref(nd spec.Node) []byte {
	r := v.Addr(nd)
	if v.Enc {
		r = append(r, v.Key(nd)...)
	}
	return r
}

// RootRef is the file reference.
func (v *VTree) RootRef() boson.Address { return boson.NewAddress(v.Ref(v.T.Root())) }

// Plain is the unencrypted chunk (span || payload) of a node.
func (v *VTree) Plain(nd spec.Node) []byte {
	span := v.T.Span(nd)
	if nd.Level == 0 {
		d := make([]byte, 8+span)
		binary.LittleEndian.PutUint64(d, uint64(span))
		Fill(d[8:], v.Seed, v.T.Offset(nd))
		return d
	}
	n := v.T.Fanout(nd)
	d := make([]byte, 8, 8+n*64)
	binary.LittleEndian.PutUint64(d, uint64(span))
	for j := int64(0); j < n; j++ {
		d = append(d, v.Ref(v.T.Child(nd, j))...)
	}
	return d
}

// EncryptChunkWithKey encrypts span||payload under the given key with the parameters of
// encryption.NewChunkEncrypter (whose own key is random and therefore cannot be used for a
// tree that is synthesised piecewise).
func EncryptChunkWithKey(key, plain []byte) ([]byte, error) {
	es, err := encryption.New(key, 0, uint32(CS/64), sha3.NewLegacyKeccak256).Encrypt(plain[:8])
	if err != nil {
		return nil, err
	}
	ed, err := encryption.New(key, CS, 0, sha3.NewLegacyKeccak256).Encrypt(plain[8:])
	if err != nil {
		return nil, err
	}
	return append(es, ed...), nil
}

// Get implements storage.Getter.
func (v *VTree) Get(_ context.Context, _ storage.ModeGet, addr boson.Address) (boson.Chunk, error) {
	nd, ok := v.decode(addr.Bytes())
	v.mu.Lock()
	if !ok {
		v.unknown++
		v.mu.Unlock()
		return nil, storage.ErrNotFound
	}
	v.gets[nd.Level]++
	d, hit := v.cache[nd]
	v.mu.Unlock()
	if !hit {
		d = v.Plain(nd)
		if v.Enc {
			var err error
			if d, err = EncryptChunkWithKey(v.Key(nd), d); err != nil {
				return nil, err
			}
		}
		v.mu.Lock()
		if _, dup := v.cache[nd]; !dup {
			v.cache[nd] = d
			v.order = append(v.order, nd)
			if len(v.order) > 40 {
				delete(v.cache, v.order[0])
				v.order = v.order[1:]
			}
		}
		v.mu.Unlock()
	}
	// hand out a copy: a reader must not be able to corrupt later reads
	return boson.NewChunk(boson.NewAddress(append([]byte(nil), addr.Bytes()...)), append([]byte(nil), d...)), nil
}

// Expect is the content of the file at [off, off+n).
func (v *VTree) Expect(off int64, n int) []byte {
	p := make([]byte, n)
	Fill(p, v.Seed, off)
	return p
}

// Gets returns how many chunks were served per level, and how many requests named
// something that is no chunk of the file.
func (v *VTree) Gets() (perLevel map[int]int64, unknown int64) {
	v.mu.Lock()
	defer v.mu.Unlock()
	m := map[int]int64{}
	for k, c := range v.gets {
		m[k] = c
	}
	return m, v.unknown
}
